/-
C08 — generated answers are valid answers to the offer they respond to; SDP serialise/parse round-trips.
Property theorems only; helper lemmas: `Lemmas/Answer.lean`, `Lemmas/SdpLines.lean`.

`validAnswer offer a` (decidable, `RtcModel/Answer.lean`) is the property's first sentence: same
number / order / kinds / mids of sections; per section only offered payload types, RTX associations,
extension ids (no duplicates), rtcp-mux; compatible direction; acceptable DTLS setup; BUNDLE members
offered.

FULL STATEMENT (false for the current code):
  theorem answer_valid_full (c ts nextMid role offer a) :
      answer c ts nextMid role (some offer) = .ok a → validAnswer offer a = true
Witnesses of its negation (each replayed on the implementation and recorded as a known finding):
  `first_answer_ignores_offer_codecs`      — codecs clause: no common audio codec → the local list is answered
                                             (video: the local list always)
  `answer_clears_mids_without_bundle`      — mids clause, ≥ 2 sections and no BUNDLE group
  `legacy_sip_answer_drops_offered_mids`   — mids clause, LegacySip compatibility mode
  `image_answer_format_not_offered`        — `m=image … udptl t38` answered with format `98`
  `sticky_role_answers_offerers_own_role`  — setup clause once the DTLS transport exists (role input kept)
  `sections_with_differing_setup_get_one_role` — setup clause, sections offering different roles
  `partial_bundle_group_answered_in_full`  — BUNDLE clause: a section outside the offered group is bundled
  (`offered_payload_type_rebound` — NOT a clause: an offered NUMBER bound to another codec; a counter)
Since round 3 an answer section is built from the offered section AT THE SAME INDEX (`answerOrder` pairs each
matched transceiver with that section), so every per-section theorem is about the section actually
answered, for every offer with or without mids:
  `answer_count`, `answer_kinds_ok`, `answer_mux_ok(_desc)`, `answer_setup_ok(_desc)`, `answer_bundle_ok`  — all inputs;
  `answer_extmap_ok`, `answer_extmap_ids_offered` (ids AND (id, URI) bindings), `answer_extmap_nodup`,
  `answer_ext_ok` (the extension clause, under `ExtWF` of the offered section), `answer_rtx_ok`,
  `answer_rtx_ok_section` (the RTX clause on video sections), `answer_audio_pts_offered`,
  `answer_audio_pts_ok` (the payload-type clause on audio sections that share a codec with the local
  configuration, first and subsequent negotiations), `answer_section_clauses` (ext + RTX along the whole
  answer) — all offers;
  `answer_direction_ok` (relative to the transceiver), `answer_direction_ok_desc` under the STATE hypothesis
  `DirSynced`; `answer_setup_complements` about `RtcModel.Jsep.roleOfSetup`;
  `answer_aligned_partial` (mids present and not cleared), `answer_valid_core`, and `answer_valid_partial`:
  `validAnswer offer a` in full under named hypotheses; the only one restating part of a clause is
  `PtsWithinOffer` (video / image / audio without a common codec) — what the code does NOT ensure.
  `RoleDerived` and `DirSynced` are hypotheses about the connection state `set_remote_description` left
  behind; they are discharged for a first offer in the C09 model only informally (different record types).
`session_level_direction_is_not_read` is a witness about the PARSER (it does not negate `answer_valid_full`:
`validAnswer` has no session-level direction clause); `sticky_role_answers_offerers_own_role` is about the
model's role INPUT and is not replayed on the implementation.
Theorems marked "(lemma)" in their doc comment are helpers, not obligations of the property.

SDP text: see the block comment before `round_trip_partial` — the literal round-trip clause is FALSE for
descriptions that are not in the serialiser's attribute order (`round_trip_reorders_attributes`: foreign
offers; since the round-3 fix NOT the descriptions the stack produces) and for parser output with a `:` in
an unknown line type (`parsed_description_need_not_round_trip`); proved: `round_trip_partial`,
`parse_print` (= `norm d`), `norm_only_partitions`, `second_trip_exact`, `parse_print_structural`,
`parse_text_print` (text level), and the character-level `attr_text_roundtrip`, `decimal_roundtrip`,
`origin_roundtrip`, `timing_roundtrip`, `mline_roundtrip`.
-/
import RtcModel.Lemmas.Answer
import RtcModel.Lemmas.SdpLines
import RtcModel.Jsep

namespace RtcModel.Theorems.C08
open RtcModel.Answer RtcModel.SdpLines RtcModel.Text

/-- generated-constant obligation: the default capabilities / T.38 / RTX-clock / port constants read
from `src/config.rs`, `src/sdp.rs`, `src/peer_connection.rs` are the values the model's default
capability records (and the witness theorems below) are written for -/
theorem const_defaults : RtcModel.Generated.defAudioPt = 111 ∧ RtcModel.Generated.defAudioClock = 48000 ∧
    RtcModel.Generated.defAudioChannels = 2 ∧ RtcModel.Generated.defVideoPt = 96 ∧
    RtcModel.Generated.defVideoClock = 90000 ∧ RtcModel.Generated.defT38Pt = 98 ∧
    RtcModel.Generated.defT38MaxBitrate = 14400 ∧ RtcModel.Generated.rtxDefaultClock = 90000 ∧
    RtcModel.Generated.newSectionPort = 9 := by decide

/-! ### structure of the attributes of an answer section -/

/-- (lemma) every attribute of an answer section is a codec attribute, an echoed header extension or the
DTLS setup -/
theorem capabilities_attrs (c : Cfg) (k : Kind) (o : Media) (role : Option Bool) :
    ∀ a ∈ (capabilities c k o role).2,
      CodecKey a ∨ a ∈ extmapAttrs c k o ∨ a ∈ setupAttrs c role := by
  intro a ha
  unfold capabilities at ha
  dsimp only at ha
  have hmem : a ∈ setupAttrs c role ++ (codecPart c k o).2 ++ extmapAttrs c k o := by
    split at ha
    · exact ha
    · exact (List.mem_filter.mp ha).1
  rcases List.mem_append.mp hmem with h | h
  · rcases List.mem_append.mp h with h | h
    · exact Or.inr (Or.inr h)
    · exact Or.inl (codecPart_codec c k o a h)
  · exact Or.inr (Or.inl h)

/-- (lemma) -/
theorem extmapAttrs_key (c : Cfg) (k : Kind) (o : Media) :
    ∀ a ∈ extmapAttrs c k o, a.key = "extmap".toList := by
  intro a ha
  unfold extmapAttrs at ha
  simp only [List.mem_append] at ha
  rcases ha with ((h | h) | h)
  · split at h
    · simp only [List.mem_append] at h
      rcases h with h | h <;> (split at h <;> simp [extAttr, attr] at h <;> (subst h; rfl))
    · cases h
  · split at h <;> simp [extAttr, attr] at h <;> (subst h; rfl)
  · split at h
    · cases h
    · split at h <;> simp [extAttr, attr] at h <;> (subst h; rfl)

/-! ### DTLS setup -/

/-- **answer_setup_ok** — every `a=setup` of an answer section is `active` or `passive`: never
`actpass` (or anything else), for all configurations, offers, roles. -/
theorem answer_setup_ok (c : Cfg) (t : TrxView) (o : Media) (role : Option Bool)
    (mid : Str) :
    ∀ a ∈ (answerSection c t o role mid).attrs, a.key = "setup".toList →
      a.value = some "active".toList ∨ a.value = some "passive".toList := by
  intro a ha hk
  simp only [answerSection] at ha
  rcases capabilities_attrs c t.kind o role a ha with h | h | h
  · exact absurd hk h.not_setup
  · have := extmapAttrs_key c t.kind o a h
    rw [hk] at this; exact absurd this (by decide)
  · unfold setupAttrs at h
    split at h
    · simp only [List.mem_singleton] at h
      subst h
      cases role with
      | none => left; rfl
      | some b => cases b <;> simp [attr]
    · cases h

def setupValue (role : Option Bool) : Str :=
  match role with | some true => "active".toList | some false => "passive".toList | none => "active".toList

/-- **answer_setup_complements** — when the role was derived from this offer (first negotiation) by
`RtcModel.Jsep.roleOfSetup` — the function of the C09 model, compared with `set_remote_description`'s role
derivation by the C09 driver — the answered setup complements an `active` / `passive` offer and picks a
side for `actpass` . -/
theorem answer_setup_complements (v : Str) :
    setupCompatible (some v) (setupValue (some (RtcModel.Jsep.roleOfSetup v))) = true := by
  unfold RtcModel.Jsep.roleOfSetup
  by_cases h1 : v = "active".toList
  · subst h1; decide
  · by_cases h2 : v = "passive".toList
    · subst h2; decide
    · by_cases h3 : v = "actpass".toList
      · subst h3; decide
      · rw [if_neg h1, if_neg h2, if_neg h3]
        unfold setupValue setupCompatible
        dsimp only
        rw [if_neg (by decide), if_neg h1, if_neg h2]
        decide

/-! ### direction -/

/-- **answer_direction_ok** — the answered direction is compatible with the transceiver's direction,
which `set_remote_description(offer)` has just set to the offered direction of that section;
downgrades (no sender) only ever remove a sending half. All cases. -/
theorem answer_direction_ok (t : TrxView) (o : Media) :
    dirCompatible t.dir (finalDirection t o) = true := by
  unfold finalDirection
  dsimp only
  split <;> (generalize t.dir = d; cases d <;> rfl)

/-! ### rtcp-mux, BUNDLE -/

/-- **answer_mux_ok** — `a=rtcp-mux` appears in an answer section only if the offer's section had it. -/
theorem answer_mux_ok (c : Cfg) (t : TrxView) (o : Media) (role : Option Bool)
    (mid : Str) (hno : secHasMux o = false) :
    hasAttr (answerSection c t o role mid) "rtcp-mux" = false := by
  unfold hasAttr answerSection capabilities
  dsimp only
  rw [hno, if_neg (by decide), List.any_eq_false]
  intro a ha
  have hne : ¬ a.key = "rtcp-mux".toList := bne_iff_ne.mp (List.mem_filter.mp ha).2
  exact decide_eq_false hne |>.symm ▸ (by simp)

/-- **answer_bundle_ok** — a BUNDLE group is emitted only when the offer carried one (and never in
LegacySip mode). (Existence of the group only; which mids it lists: `answer_valid_partial`.) -/
theorem answer_bundle_ok (c : Cfg) (ts : List TrxView) (nextMid : Nat) (role : Option Bool)
    (offer : Desc) (a : Answer) (g : Str)
    (h : answer c ts nextMid role (some offer) = .ok a) (hg : a.group = some g) :
    offeredBundle offer.session.attrs = true ∧ c.legacySip = false := by
  unfold answer at h
  by_cases hts : ts.isEmpty = true
  · simp [hts] at h
  · simp only [hts, Bool.false_eq_true, if_false] at h
    cases ho : answerOrder ts offer.media [] [] with
    | none => simp [ho] at h
    | some order =>
      simp only [ho] at h
      injection h with h
      subst h
      dsimp only at hg
      split at hg
      · rename_i hc
        simp only [Bool.and_eq_true, Bool.not_eq_true'] at hc
        exact ⟨hc.2.2, hc.2.1⟩
      · cases hg

/-! ### count -/

/-- **answer_count** — an answer has exactly one section per section of the offer, in the offer's order
(one `answerSection` per entry of the section → transceiver matching, which has one entry per offered
section). -/
theorem answer_count (c : Cfg) (ts : List TrxView) (nextMid : Nat) (role : Option Bool)
    (offer : Desc) (a : Answer)
    (h : answer c ts nextMid role (some offer) = .ok a) :
    a.sections.length = offer.media.length := by
  obtain ⟨order, ho, hsec, _⟩ := answer_sections c ts nextMid role offer a h
  have hl := Answer.answerOrder_length _ _ _ _ _ ho
  have hv := Answer.answerOrder_valid _ _ _ _ _ (by intro p hp; cases hp) ho
  have hb := buildList_length c ts role order nextMid hv
  simp only [List.length_nil, Nat.zero_add] at hl
  rcases hsec with hs | hs <;> rw [hs] <;> simp [hb, hl]

/-! ### header extensions -/

/-- **answer_extmap_ok** — every header extension of an answer section is an echo: its attribute is
`extAttr id uri` where the OFFERED SECTION IT ANSWERS (the remote section at the same index — round-3
`fix:`) has an `a=extmap` line whose first token is `id` and whose second token is `uri` (round-3 `fix:`
exact URI match). All offers (with or without mids), configurations, states. -/
theorem answer_extmap_ok (c : Cfg) (t : TrxView) (o : Media) (role : Option Bool)
    (mid : Str) :
    ∀ a ∈ (answerSection c t o role mid).attrs, a.key = "extmap".toList →
      ∃ id uri v rest, a = extAttr id uri ∧
        (⟨"extmap".toList, some v⟩ : Attr) ∈ o.attrs ∧ splitWs v = id :: uri :: rest := by
  intro a ha hk
  simp only [answerSection] at ha
  rcases capabilities_attrs c t.kind o role a ha with h | h | h
  · exact absurd hk h.not_extmap
  · -- one of the four lookups
    have key : ∀ uri id, remoteExtId o uri = some id →
        ∃ v rest, (⟨"extmap".toList, some v⟩ : Attr) ∈ o.attrs ∧ splitWs v = id :: uri :: rest := by
      intro uri id hid
      unfold remoteExtId at hid
      exact remoteExtId_go_spec o.attrs uri id hid
    unfold extmapAttrs at h
    simp only [List.mem_append] at h
    rcases h with ((h | h) | h)
    · split at h
      · simp only [List.mem_append] at h
        rcases h with h | h
        · split at h
          · rename_i id hid
            simp only [List.mem_singleton] at h
            obtain ⟨v, r, hv, ht⟩ := key _ _ hid
            exact ⟨id, RID_URI, v, r, h, hv, ht⟩
          · cases h
        · split at h
          · rename_i id hid
            simp only [List.mem_singleton] at h
            obtain ⟨v, r, hv, ht⟩ := key _ _ hid
            exact ⟨id, RRID_URI, v, r, h, hv, ht⟩
          · cases h
      · cases h
    · split at h
      · rename_i id hid
        simp only [List.mem_singleton] at h
        obtain ⟨v, r, hv, ht⟩ := key _ _ hid
        exact ⟨id, ABS_URI, v, r, h, hv, ht⟩
      · cases h
    · split at h
      · cases h
      · split at h
        · rename_i id hid
          simp only [List.mem_singleton] at h
          obtain ⟨v, r, hv, ht⟩ := key _ _ hid
          exact ⟨id, MID_URI, v, r, h, hv, ht⟩
        · cases h
  · unfold setupAttrs at h
    split at h
    · simp only [List.mem_singleton] at h
      subst h
      simp [attr] at hk
    · cases h

/-- (lemma) `split_whitespace` of two tokens joined by one space -/
theorem splitWs_two (a b : Str) (ha : IsTok a) (hb : IsTok b) : splitWs (a ++ sp ++ b) = [a, b] := by
  have e : a ++ sp ++ b = join [' '] [a, b] := by simp [join, sp]
  rw [e]
  unfold splitWs
  have := splitWsAux_join [a, b] [] (by
    intro t ht
    simp only [List.mem_cons, List.mem_nil_iff, or_false] at ht
    rcases ht with rfl | rfl <;> assumption)
  simpa using this

/-- **answer_extmap_ids_offered** — every extension id of an answer section is an extension id of the
offered section it answers, AND it is bound to the URI the offer bound it to (`extPairs`). All inputs. -/
theorem answer_extmap_ids_offered (c : Cfg) (t : TrxView) (o : Media) (role : Option Bool)
    (mid : Str) :
    (∀ i ∈ extIds (answerSection c t o role mid), i ∈ extIds o) ∧
    (∀ p ∈ extPairs (answerSection c t o role mid), p ∈ extPairs o) := by
  -- every extmap value of the answer is `id ++ " " ++ uri` for an offered line `id uri …`
  have key : ∀ v ∈ attrVals (answerSection c t o role mid).attrs "extmap",
      ∃ id uri v' rest, v = id ++ sp ++ uri ∧ v' ∈ attrVals o.attrs "extmap" ∧ splitWs v' = id :: uri :: rest := by
    intro v hv
    obtain ⟨a, ha, hk, hval⟩ := (mem_attrVals _ "extmap" v).mp hv
    obtain ⟨id, uri, v', rest, hform, hmem, hs⟩ := answer_extmap_ok c t o role mid a ha hk
    refine ⟨id, uri, v', rest, ?_, (mem_attrVals _ "extmap" v').mpr ⟨_, hmem, rfl, rfl⟩, hs⟩
    rw [hform] at hval
    simp only [extAttr, attr, Option.some.injEq] at hval
    exact hval.symm
  have toks : ∀ (v' : Str) (id uri : Str) (rest : List Str), splitWs v' = id :: uri :: rest → IsTok id ∧ IsTok uri := by
    intro v' id uri rest hs
    exact ⟨splitWs_tokens v' id (by rw [hs]; simp), splitWs_tokens v' uri (by rw [hs]; simp)⟩
  refine ⟨?_, ?_⟩
  · intro i hi
    unfold extIds at hi ⊢
    obtain ⟨v, hv, hhead⟩ := List.mem_filterMap.mp hi
    obtain ⟨id, uri, v', rest, hveq, hv', hs⟩ := key v hv
    have ⟨hidtok, _⟩ := toks v' id uri rest hs
    rw [hveq, extAttr_id id uri hidtok] at hhead
    injection hhead with e
    subst e
    exact List.mem_filterMap.mpr ⟨v', hv', by rw [hs]; rfl⟩
  · intro p hp
    unfold extPairs at hp ⊢
    obtain ⟨v, hv, hpair⟩ := List.mem_filterMap.mp hp
    obtain ⟨id, uri, v', rest, hveq, hv', hs⟩ := key v hv
    have ⟨hidtok, hutok⟩ := toks v' id uri rest hs
    have hsplit : splitWs (id ++ sp ++ uri) = [id, uri] := splitWs_two id uri hidtok hutok
    rw [hveq, hsplit] at hpair
    simp only [Option.some.injEq] at hpair
    subst hpair
    exact List.mem_filterMap.mpr ⟨v', hv', by rw [hs]⟩

/-- **answer_extmap_nodup** — no duplicate extension ids: when the offered section is well-formed for the
echo (`ExtWF`: its own ids pairwise distinct — decidable), the extension ids of the answer section are
pairwise distinct. -/
theorem answer_extmap_nodup (c : Cfg) (t : TrxView) (o : Media) (role : Option Bool)
    (mid : Str) (hwf : ExtWF o) :
    (extIds (answerSection c t o role mid)).Nodup :=
  extIds_answerSection_nodup c t o role mid hwf

/-- **answer_ext_ok** — the property's extension clause ("only offered ids" — each bound to the URI the
offer bound it to — "no duplicate ids") for the section an answer section answers. Every offer, with or
without mids. -/
theorem answer_ext_ok (c : Cfg) (t : TrxView) (o : Media) (role : Option Bool) (mid : Str) (hwf : ExtWF o) :
    secExtOk o (answerSection c t o role mid) = true := by
  obtain ⟨hids, hpairs⟩ := answer_extmap_ids_offered c t o role mid
  unfold secExtOk
  rw [Bool.and_eq_true, Bool.and_eq_true]
  refine ⟨⟨?_, ?_⟩, decide_eq_true (answer_extmap_nodup c t o role mid hwf)⟩
  · rw [List.all_eq_true]
    intro i hi
    simpa using hids i hi
  · rw [List.all_eq_true]
    intro p hp
    simpa using hpairs p hp

/-! ### witnesses: the full statement is false -/

def cfgDefault : Cfg := { mode := .webrtc, legacySip := false, muxRequire := true, audio := [], video := [], sctpPort := 5000 }

def mkOffer (sessionAttrs : List Attr) (media : List Media) : Desc :=
  { session := { Session.default with attrs := sessionAttrs }, media }

def pcmuOnly (mid : String) : Media :=
  { kind := .audio, mid := mid.toList, port := 9, proto := "UDP/TLS/RTP/SAVPF".toList, formats := ["0".toList],
    dir := .sendrecv, connection := none,
    attrs := [flag "rtcp-mux", attr "rtpmap" "0 PCMU/8000".toList, attr "setup" "actpass".toList] }

def vp8Sec (mid : String) (exts : List Attr) : Media :=
  { kind := .video, mid := mid.toList, port := 9, proto := "UDP/TLS/RTP/SAVPF".toList, formats := ["96".toList],
    dir := .sendrecv, connection := none,
    attrs := [flag "rtcp-mux", attr "rtpmap" "96 VP8/90000".toList, attr "setup" "actpass".toList] ++ exts }

def trx (k : Kind) (mid : String) : TrxView := { kind := k, mid := some mid.toList, dir := .sendrecv, hasSender := false, hasSenderSsrc := false }

def pcmuActive : Media :=
  { kind := .audio, mid := "0".toList, port := 9, proto := "UDP/TLS/RTP/SAVPF".toList, formats := ["0".toList],
    dir := .sendrecv, connection := none,
    attrs := [flag "rtcp-mux", attr "rtpmap" "0 PCMU/8000".toList, attr "setup" "active".toList] }

/-- **Witness (subsequent negotiations)** — once the DTLS transport exists the role is fixed (round-3 fix:
until then it follows the latest description); a re-offer in which the offerer takes the role the
answerer holds is then answered with that same role. The role is an INPUT of this model (`some true`). -/
theorem sticky_role_answers_offerers_own_role :
    setupCompatible (some "active".toList) (setupValue (some true)) = false ∧
    setupCompatible (some "passive".toList) (setupValue (some false)) = false ∧
    (∃ a, answer cfgDefault [trx .audio "0"] 1 (some true) (some (mkOffer [] [pcmuActive])) = .ok a ∧
          zipAll secSetupOk [pcmuActive] a.sections = false) := by
  refine ⟨by decide, by decide, _, rfl, by decide⟩

/-- **first_answer_ignores_offer_codecs** — offer and local configuration share no codec (PCMU-only offer,
default opus configuration): the section is not rejected, the answer lists the local `111 opus`. -/
theorem first_answer_ignores_offer_codecs :
    ∃ a, answer cfgDefault [trx .audio "0"] 1 (some false) (some (mkOffer [] [pcmuOnly "0"])) = .ok a ∧
      (a.sections.map (·.formats)) = [["111".toList]] ∧
      validAnswer (mkOffer [] [pcmuOnly "0"]) a = false := by
  refine ⟨_, rfl, by decide, by decide⟩

/-- **answer_clears_mids_without_bundle** — two sections with mids, no BUNDLE group, Standard mode:
the answer carries no mids at all. -/
theorem answer_clears_mids_without_bundle :
    ∃ a, answer { cfgDefault with audio := [⟨0, "PCMU".toList, 8000, 1, none, []⟩] } [trx .audio "0", trx .video "1"] 2 (some false)
        (some (mkOffer [] [pcmuOnly "0", vp8Sec "1" []])) = .ok a ∧
      a.sections.map (·.mid) = [[], []] ∧
      zipAll secAligned [pcmuOnly "0", vp8Sec "1" []] a.sections = false := by
  refine ⟨_, rfl, by decide, by decide⟩

/-- **legacy_sip_answer_drops_offered_mids** — in LegacySip compatibility mode even a single-section
offer with a mid is answered without it. -/
theorem legacy_sip_answer_drops_offered_mids :
    ∃ a, answer { cfgDefault with legacySip := true, audio := [⟨0, "PCMU".toList, 8000, 1, none, []⟩] } [trx .audio "0"] 1 (some false)
        (some (mkOffer [] [pcmuOnly "0"])) = .ok a ∧
      a.sections.map (·.mid) = [[]] ∧ zipAll secAligned [pcmuOnly "0"] a.sections = false := by
  refine ⟨_, rfl, by decide, by decide⟩

/-- since the round-3 `fix:` (remote section by index) a SIP-style offer without mids no longer leaks the
audio section's extension into the video answer (round-2 witness `midless_offer_leaks_extmap_across_sections`) -/
example :
    let au := { pcmuOnly "" with attrs := (pcmuOnly "").attrs ++ [extAttr "3".toList ABS_URI] }
    ∃ a, answer { cfgDefault with audio := [⟨0, "PCMU".toList, 8000, 1, none, []⟩] }
          [trx .audio "", trx .video ""] 0 (some false)
          (some (mkOffer [] [au, vp8Sec "" []])) = .ok a ∧
      zipAll secExtOk [au, vp8Sec "" []] a.sections = true := by
  refine ⟨_, rfl, by decide⟩

/-- **image_answer_format_not_offered** — `m=image … udptl t38` is answered with format `98`. -/
theorem image_answer_format_not_offered :
    let img : Media := { kind := .image, mid := "0".toList, port := 9, proto := "udptl".toList, formats := ["t38".toList],
                         dir := .sendrecv, connection := none, attrs := [] }
    ∃ a, answer cfgDefault [trx .image "0"] 1 none (some (mkOffer [] [img])) = .ok a ∧
      zipAll secPtsOk [img] a.sections = false := by
  refine ⟨_, rfl, by decide⟩

def opusSec : Media :=
  { kind := .audio, mid := "0".toList, port := 9, proto := "UDP/TLS/RTP/SAVPF".toList,
    formats := ["111".toList, "0".toList], dir := .sendrecv, connection := none,
    attrs := [flag "rtcp-mux", attr "rtpmap" "111 opus/48000/2".toList,
              attr "fmtp" "111 minptime=10;useinbandfec=1;stereo=1".toList,
              attr "setup" "actpass".toList, extAttr "4".toList MID_URI] }

def vp8RtxSec : Media :=
  { kind := .video, mid := "1".toList, port := 9, proto := "UDP/TLS/RTP/SAVPF".toList,
    formats := ["96".toList, "97".toList], dir := .sendrecv, connection := none,
    attrs := [flag "rtcp-mux", attr "rtpmap" "96 VP8/90000".toList, attr "setup" "actpass".toList,
              attr "rtpmap" "97 rtx/90000".toList, attr "fmtp" "97 apt=96".toList, extAttr "4".toList MID_URI,
              extAttr "10".toList RID_URI] }

def bundleOffer : Desc := mkOffer [attr "group" "BUNDLE 0 1".toList] [opusSec, vp8RtxSec]

/-- the hypothesis of `answer_extmap_nodup` holds for ordinary offered sections -/
example : ExtWF vp8RtxSec ∧ ExtWF opusSec := by decide

/-- non-vacuity of the positive theorems: a WebRTC offer (BUNDLE, opus + VP8 with RTX, extensions)
whose codecs the default configuration also has gets a valid answer in the model. -/
example :
    ∃ a, answer cfgDefault [trx .audio "0", trx .video "1"] 2 (some false) (some bundleOffer) = .ok a ∧
      validAnswer bundleOffer a = true ∧ a.group = some "BUNDLE 0 1".toList := by
  refine ⟨_, rfl, by decide, by decide⟩

/-! ### description level: the clauses along the whole answer -/

/-- (lemma) every section of an answer is an `answerSection` (up to the cleared mid) -/
theorem answer_section_form (c : Cfg) (ts : List TrxView) (nextMid : Nat) (role : Option Bool)
    (offer : Desc) (a : Answer) (h : answer c ts nextMid role (some offer) = .ok a) :
    ∀ s ∈ a.sections, ∃ t o mid, s.attrs = (answerSection c t o role mid).attrs ∧
      s.dir = (answerSection c t o role mid).dir ∧ s.kind = t.kind := by
  obtain ⟨order, _, hsec, _⟩ := answer_sections c ts nextMid role offer a h
  intro s hs
  rcases hsec with he | he
  · rw [he] at hs
    obtain ⟨t, o, mid, rfl⟩ := buildList_mem _ _ _ _ _ s hs
    exact ⟨t, o, mid, rfl, rfl, rfl⟩
  · rw [he] at hs
    obtain ⟨s', hs', rfl⟩ := List.mem_map.mp hs
    obtain ⟨t, o, mid, rfl⟩ := buildList_mem _ _ _ _ _ s' hs'
    exact ⟨t, o, mid, rfl, rfl, rfl⟩

/-- **answer_setup_ok_desc** — in every answer the model can produce, every `a=setup` is `active` or
`passive` (never `actpass`). -/
theorem answer_setup_ok_desc (c : Cfg) (ts : List TrxView) (nextMid : Nat) (role : Option Bool)
    (offer : Desc) (a : Answer) (h : answer c ts nextMid role (some offer) = .ok a) :
    ∀ s ∈ a.sections, ∀ x ∈ s.attrs, x.key = "setup".toList →
      x.value = some "active".toList ∨ x.value = some "passive".toList := by
  intro s hs x hx hk
  obtain ⟨t, o, mid, hattrs, _, _⟩ := answer_section_form c ts nextMid role offer a h s hs
  rw [hattrs] at hx
  exact answer_setup_ok c t o role mid x hx hk

/-- (lemma) a clause that holds for `answerSection c t o role mid` whenever `t` matches `o` holds along the
whole answer, section by section in the offer's order — also when the mids are cleared afterwards, for
clauses that do not read the answer's mid. -/
theorem clause_along_answer (P : Media → Media → Bool) (c : Cfg) (ts : List TrxView) (nextMid : Nat)
    (role : Option Bool) (offer : Desc) (a : Answer) (h : answer c ts nextMid role (some offer) = .ok a)
    (hmidfree : ∀ o s, P o { s with mid := [] } = P o s)
    (hP : ∀ o ∈ offer.media, ∀ t ∈ ts, Matches o t → ∀ mid, (∀ m, t.mid = some m → mid = m) →
      P o (answerSection c t o role mid) = true) :
    zipAll P offer.media a.sections = true := by
  obtain ⟨order, ho, hsec, _⟩ := answer_sections c ts nextMid role offer a h
  obtain ⟨tail, ht, hal⟩ := answerOrder_matches ts offer.media [] [] order ho
  simp only [List.reverse_nil, List.nil_append] at ht
  subst ht
  have hv := Answer.answerOrder_valid _ _ _ _ _ (by intro p hp; cases hp) ho
  have hbl : zipAll P offer.media (buildList c ts role order nextMid) = true := by
    apply zipAll_buildList _ _ _ P _ _ _ hv
    refine hal.imp ?_
    intro o p ho' _ ⟨hpo, t', hget', hm⟩ t mid hget hmid
    rw [hget'] at hget; injection hget with e; subst e
    rw [hpo]
    exact hP o ho' t' (mem_of_getElem_some hget') hm mid hmid
  rcases hsec with he | he
  · rw [he]; exact hbl
  · rw [he, zipAll_map_right P (fun s => { s with mid := [] }) hmidfree]; exact hbl

/-- **answer_mux_ok_desc** — along the whole answer, section by section in the offer's order:
`a=rtcp-mux` only where the offered section had it. All offers, configurations, states. -/
theorem answer_mux_ok_desc (c : Cfg) (ts : List TrxView) (nextMid : Nat) (role : Option Bool)
    (offer : Desc) (a : Answer) (h : answer c ts nextMid role (some offer) = .ok a) :
    zipAll secMuxOk offer.media a.sections = true := by
  apply clause_along_answer secMuxOk c ts nextMid role offer a h (fun o s => rfl)
  intro o _ t _ _ mid _
  unfold secMuxOk
  cases hm : secHasMux o with
  | false => rw [answer_mux_ok c t o role mid hm]; rfl
  | true =>
    have e : hasAttr o "rtcp-mux" = true := hm
    rw [e, Bool.or_true]

/-- every transceiver that an offered section can be matched to has been given that section's direction
(what `set_remote_description(offer)` establishes for offers whose sections carry distinct mids) -/
def DirSynced (ts : List TrxView) (offer : Desc) : Prop :=
  ∀ t ∈ ts, ∀ o ∈ offer.media, Matches o t → t.dir = o.dir

/-- (lemma) the matching guarantees the kind in both of its stages (since the round-2 `fix:`
"create_answer matches a transceiver by MID only if it is of the section's kind") -/
theorem matches_kind {o : Media} {t : TrxView} (hm : Matches o t) : t.kind = o.kind := by
  rcases hm with ⟨_, _, hk⟩ | ⟨_, hk⟩ <;> exact hk

/-- **answer_direction_ok_desc** — along the whole answer: every answered direction is compatible with
the offered one, when the matched transceivers carry the offered directions (`DirSynced`). -/
theorem answer_direction_ok_desc (c : Cfg) (ts : List TrxView) (nextMid : Nat) (role : Option Bool)
    (offer : Desc) (a : Answer) (h : answer c ts nextMid role (some offer) = .ok a)
    (hd : DirSynced ts offer) :
    zipAll secDirOk offer.media a.sections = true := by
  apply clause_along_answer secDirOk c ts nextMid role offer a h (fun o s => rfl)
  intro o ho t ht hm mid _
  unfold secDirOk
  simp only [answerSection]
  rw [← hd t ht o ho hm]
  exact answer_direction_ok t o

/-- **answer_kinds_ok** — the kinds of the answer are the offer's, section by section, for EVERY offer
(with or without mids, any compatibility mode, any connection state): the matching is by kind in both of
its stages. -/
theorem answer_kinds_ok (c : Cfg) (ts : List TrxView) (nextMid : Nat) (role : Option Bool)
    (offer : Desc) (a : Answer) (h : answer c ts nextMid role (some offer) = .ok a) :
    zipAll (fun o s => o.kind = s.kind) offer.media a.sections = true := by
  apply clause_along_answer (fun o s => decide (o.kind = s.kind)) c ts nextMid role offer a h (fun o s => rfl)
  intro o _ t _ hm mid _
  simp [answerSection, matches_kind hm]

/-- **answer_aligned_partial** — kinds and mids of the answer are the offer's, section by section, when
every offered section carries a mid and the mids are not cleared (Standard mode and: BUNDLE offered or a
single section). The two excluded situations are exactly the witnesses
`answer_clears_mids_without_bundle` / `legacy_sip_answer_drops_offered_mids`. -/
theorem answer_aligned_partial (c : Cfg) (ts : List TrxView) (nextMid : Nat) (role : Option Bool)
    (offer : Desc) (a : Answer) (h : answer c ts nextMid role (some offer) = .ok a)
    (hmids : ∀ o ∈ offer.media, o.mid ≠ [])
    (hnc : c.legacySip = false ∧ (offeredBundle offer.session.attrs = true ∨ offer.media.length ≤ 1)) :
    zipAll secAligned offer.media a.sections = true := by
  obtain ⟨order, ho, _, hkeep⟩ := answer_sections c ts nextMid role offer a h
  obtain ⟨tail, ht, hal⟩ := answerOrder_matches ts offer.media [] [] order ho
  simp only [List.reverse_nil, List.nil_append] at ht
  subst ht
  have hv := Answer.answerOrder_valid _ _ _ _ _ (by intro p hp; cases hp) ho
  rw [hkeep hnc]
  apply zipAll_buildList _ _ _ secAligned _ _ _ hv
  refine hal.imp ?_
  intro o p ho' _ ⟨_, t', hget', hm⟩ t mid hget hmid
  rw [hget'] at hget; injection hget with e; subst e
  have hmid' : mid = o.mid := by
    rcases hm with ⟨_, htm, _⟩ | ⟨hem, _⟩
    · exact hmid _ htm
    · exact absurd hem (hmids o ho')
  unfold secAligned
  simp [answerSection, matches_kind hm, hmid']

/-! ### codecs, RTX, extensions: the offered section that is consulted is the answered one -/

/-- **answer_rtx_ok** — RTX strip and echo: every `apt=` association in the codec part of a VIDEO answer
section is an association of the offered section it answers; RTX injected by the local configuration is
always stripped first. All configurations and offers (with or without mids). -/
theorem answer_rtx_ok (c : Cfg) (o : Media) (q : Nat × Nat)
    (h : q ∈ aptMap (codecPart c .video o).2) : q ∈ aptMap o.attrs :=
  video_rtx_echo_offered c o q h

/-- **answer_audio_pts_offered** — audio, whenever the offered section and the local configuration have a
codec in common (first and subsequent negotiations): every answered format is a format of the offered
section being answered. (`hcanon`: the offer writes payload types canonically, e.g. `8` not `08`.)
Without a common codec the local list is answered — `first_answer_ignores_offer_codecs`; video is never
intersected. -/
theorem answer_audio_pts_offered (c : Cfg) (o : Media)
    (caps : List ACap) (h : reinviteAudioCaps c o = some caps)
    (hcanon : ∀ f ∈ o.formats, ∀ n, parseU8 f = some n → natStr n = f) :
    ∀ f ∈ (codecPart c .audio o).1, f ∈ o.formats :=
  audio_formats_offered c o caps h hcanon

def pcmaOpus109 : Media :=
  { kind := .audio, mid := "0".toList, port := 9, proto := "UDP/TLS/RTP/SAVPF".toList,
    formats := ["8".toList, "109".toList], dir := .sendrecv, connection := none,
    attrs := [attr "rtpmap" "8 PCMA/8000".toList, attr "rtpmap" "109 opus/48000/2".toList] }

def cfgOpusPcmu : Cfg := { cfgDefault with audio := [defaultACap, ⟨0, "PCMU".toList, 8000, 1, none, []⟩] }

/-- non-vacuity: the intersection is taken (offer PCMA + opus/109, local opus + PCMU): the answer lists
`109` only — the offered payload type, not the local `111`. -/
example : (codecPart cfgOpusPcmu .audio pcmaOpus109).1 = ["109".toList] ∧
    (reinviteAudioCaps cfgOpusPcmu pcmaOpus109).isSome = true := by decide

/-- (lemma) the `a=fmtp` lines of an answer section are those of its codec part (header extensions,
`a=setup` and the rtcp-mux filter do not touch them) -/
theorem fmtp_answerSection (c : Cfg) (t : TrxView) (o : Media) (role : Option Bool) (mid : Str) :
    attrVals (answerSection c t o role mid).attrs "fmtp" = attrVals (codecPart c t.kind o).2 "fmtp" := by
  have hne : "fmtp".toList ≠ "rtcp-mux".toList := by decide
  have hall : attrVals (setupAttrs c role ++ (codecPart c t.kind o).2 ++ extmapAttrs c t.kind o) "fmtp" =
      attrVals (codecPart c t.kind o).2 "fmtp" := by
    rw [attrVals_append, attrVals_append]
    rw [attrVals_nil_of_keys (extmapAttrs c t.kind o) "fmtp"
      (fun a ha => by rw [extmapAttrs_key c t.kind o a ha]; decide)]
    rw [attrVals_nil_of_keys (setupAttrs c role) "fmtp" (fun a ha => by
      unfold setupAttrs at ha
      split at ha
      · simp only [List.mem_singleton] at ha; subst ha
        show "setup".toList ≠ "fmtp".toList
        decide
      · cases ha)]
    simp
  simp only [answerSection, capabilities]
  cases secHasMux o with
  | true => simpa using hall
  | false =>
    simp only [Bool.false_eq_true, if_false]
    rw [attrVals_filter_other _ "fmtp" "rtcp-mux" hne]
    exact hall

/-- (lemma) -/
theorem aptMap_answerSection (c : Cfg) (t : TrxView) (o : Media) (role : Option Bool) (mid : Str) :
    aptMap (answerSection c t o role mid).attrs = aptMap (codecPart c t.kind o).2 := by
  unfold aptMap
  rw [fmtp_answerSection]

/-- **answer_rtx_ok_section** — the property's RTX clause for the ANSWERED section: every `apt=` association
of the video answer section built for the offered section `o` is an association `o` itself offered. Every
offer (mids or not). -/
theorem answer_rtx_ok_section (c : Cfg) (t : TrxView) (o : Media) (role : Option Bool) (mid : Str)
    (hk : t.kind = .video) :
    secRtxOk o (answerSection c t o role mid) = true := by
  unfold secRtxOk
  rw [aptMap_answerSection, List.all_eq_true]
  intro q hq
  rw [hk] at hq
  simpa using answer_rtx_ok c o q hq

/-- the offer writes payload types canonically (`8`, not `08` or `+8`) -/
def Canon (offer : Desc) : Prop := ∀ o ∈ offer.media, ∀ f ∈ o.formats, ∀ n, parseU8 f = some n → natStr n = f

/-- **answer_audio_pts_ok** — the property's payload-type clause for an AUDIO section whose offer shares a
codec with the local configuration: only offered payload types. Every offer (mids or not), first and
subsequent negotiations. -/
theorem answer_audio_pts_ok (c : Cfg) (t : TrxView) (o : Media) (role : Option Bool) (mid : Str)
    (hk : t.kind = .audio) (hcommon : (reinviteAudioCaps c o).isSome = true)
    (hcanon : ∀ f ∈ o.formats, ∀ n, parseU8 f = some n → natStr n = f) :
    secPtsOk o (answerSection c t o role mid) = true := by
  obtain ⟨caps, hcaps⟩ := Option.isSome_iff_exists.mp hcommon
  unfold secPtsOk
  rw [List.all_eq_true]
  intro f hf
  have : f ∈ (codecPart c .audio o).1 := by
    simp only [answerSection, capabilities, hk] at hf
    exact hf
  simpa using answer_audio_pts_offered c o caps hcaps hcanon f this

/-! ### the combined partial theorem -/

/-- **the missing feature, as a hypothesis**: for every offered section that is NOT an audio section sharing
a codec with the local configuration (i.e. video, image, data, and audio without a common codec) the
locally selected formats lie within what that section offered. Decidable; false e.g. for the PCMU-only
offer of `first_answer_ignores_offer_codecs`. It is the ONLY hypothesis of `answer_valid_partial` that
restates (part of) a clause of the conclusion: for audio with a common codec the clause is PROVED
(`answer_audio_pts_ok`). -/
def PtsWithinOffer (c : Cfg) (offer : Desc) : Prop :=
  ∀ o ∈ offer.media, ¬ (o.kind = .audio ∧ (reinviteAudioCaps c o).isSome = true) →
    ∀ f ∈ (codecPart c o.kind o).1, f ∈ o.formats

/-- the codec part of a non-video section carries no `apt=` parameter (a configured audio `fmtp` such as
`"apt=96"` would be read as an RTX association by the peer). Decidable; a condition on the configuration
and, for the echoed `telephone-event` fmtp, on the offer. -/
def NonVideoNoApt (c : Cfg) (offer : Desc) : Prop :=
  ∀ o ∈ offer.media, o.kind ≠ .video → aptMap (codecPart c o.kind o).2 = []

/-- a STATE hypothesis: the DTLS role the connection holds was derived (`RtcModel.Jsep.roleOfSetup`, the
function the C09 driver compares with `set_remote_description`) from the `a=setup` value `v` that every
section of THIS offer carries, at media or session level. Fails for re-offers that change the role after
the DTLS transport exists and for offers whose sections differ: witnesses
`sticky_role_answers_offerers_own_role`, `sections_with_differing_setup_get_one_role`. There is
no composed theorem with the C09 model's `deriveRole` (different record types). -/
def RoleDerived (c : Cfg) (role : Option Bool) (offer : Desc) : Prop :=
  c.mode = .webrtc → ∃ v, role = some (RtcModel.Jsep.roleOfSetup v) ∧
    ∀ o ∈ offer.media, offeredSetup offer.session.attrs o = some v

/-- the offer's BUNDLE group (if any) lists the mid of every section. A condition on the OFFER; when it
fails the answer still bundles every section — witness `partial_bundle_group_answered_in_full`. -/
def GroupListsMids (offer : Desc) : Prop :=
  ∀ og, offerGroup offer.session.attrs = some og → ∀ o ∈ offer.media, o.mid ∈ groupMids og

/-- (lemma) -/
theorem setupValue_side (role : Option Bool) :
    setupCompatible none (setupValue role) = true := by
  cases role with
  | none => decide
  | some b => cases b <;> decide

/-- **answer_valid_core** — the clauses of `validAnswer` that hold for every offer the stack answers, with
no hypothesis on mids: count, kinds, rtcp-mux; and under the state hypothesis `DirSynced`, direction. -/
theorem answer_valid_core (c : Cfg) (ts : List TrxView) (nextMid : Nat) (role : Option Bool)
    (offer : Desc) (a : Answer) (h : answer c ts nextMid role (some offer) = .ok a) :
    a.sections.length = offer.media.length ∧
    zipAll (fun o s => o.kind = s.kind) offer.media a.sections = true ∧
    zipAll secMuxOk offer.media a.sections = true ∧
    (DirSynced ts offer → zipAll secDirOk offer.media a.sections = true) :=
  ⟨answer_count c ts nextMid role offer a h, answer_kinds_ok c ts nextMid role offer a h,
   answer_mux_ok_desc c ts nextMid role offer a h, answer_direction_ok_desc c ts nextMid role offer a h⟩

/-- **answer_section_clauses** — for EVERY offer (mid-less ones included) and every state: the RTX clause on
video sections and the extension-id clause (offered ids only, no duplicates, given `ExtWF` of the offered
sections) hold along the whole answer. Since the round-3 fix the section consulted is the section
answered, so no hypothesis on mids is needed. -/
theorem answer_section_clauses (c : Cfg) (ts : List TrxView) (nextMid : Nat) (role : Option Bool)
    (offer : Desc) (a : Answer) (h : answer c ts nextMid role (some offer) = .ok a)
    (hext : ∀ o ∈ offer.media, ExtWF o) :
    zipAll secExtOk offer.media a.sections = true ∧
    zipAll (fun o s => o.kind != .video || secRtxOk o s) offer.media a.sections = true := by
  refine ⟨?_, ?_⟩
  · apply clause_along_answer secExtOk c ts nextMid role offer a h (fun o s => rfl)
    intro o ho t _ _ mid _
    exact answer_ext_ok c t o role mid (hext o ho)
  · apply clause_along_answer (fun o s => o.kind != .video || secRtxOk o s) c ts nextMid role offer a h (fun o s => rfl)
    intro o _ t _ hm mid _
    by_cases hv : o.kind = .video
    · have hk : t.kind = .video := by rw [matches_kind hm]; exact hv
      rw [answer_rtx_ok_section c t o role mid hk, Bool.or_true]
    · have : (o.kind != Kind.video) = true := bne_iff_ne.mpr hv
      rw [this, Bool.true_or]

/-- **answer_valid_partial** — `validAnswer offer a` for every answer the model produces, under named
hypotheses: every offered section carries a white-space free, non-empty mid (needed for the mids / BUNDLE
clauses only); the offered extension lines are well formed (`ExtWF`); payload types are written
canonically (`Canon`); the matched transceivers have the offered directions (`DirSynced` — what a first
`set_remote_description` establishes, C09 `first_offer_syncs_transceivers`); Standard mode with BUNDLE
offered or a single section (mids not cleared); the role was derived from this offer's uniform `a=setup`
(`RoleDerived`, a state hypothesis); the offer's group lists its mids; non-video codec parts carry no
`apt=`; and `PtsWithinOffer` — the part the code does NOT ensure (video / image / no common audio codec).
PROVED inside: kinds, rtcp-mux, RTX, extension ids (offered, no duplicates), audio payload types when a
codec is shared; setup follows from the assumed role. -/
theorem answer_valid_partial (c : Cfg) (ts : List TrxView) (nextMid : Nat) (role : Option Bool)
    (offer : Desc) (a : Answer) (h : answer c ts nextMid role (some offer) = .ok a)
    (hmids : ∀ o ∈ offer.media, IsTok o.mid) (hext : ∀ o ∈ offer.media, ExtWF o) (hcanon : Canon offer)
    (hd : DirSynced ts offer)
    (hnc : c.legacySip = false ∧ (offeredBundle offer.session.attrs = true ∨ offer.media.length ≤ 1))
    (hrole : RoleDerived c role offer) (hgrp : GroupListsMids offer) (hapt : NonVideoNoApt c offer)
    (hsel : PtsWithinOffer c offer) :
    validAnswer offer a = true := by
  have hne : ∀ o ∈ offer.media, o.mid ≠ [] := fun o ho => (hmids o ho).1
  obtain ⟨order, ho, _, hkeep⟩ := answer_sections c ts nextMid role offer a h
  obtain ⟨tail, ht, hal⟩ := answerOrder_matches ts offer.media [] [] order ho
  simp only [List.reverse_nil, List.nil_append] at ht
  subst ht
  have hv := Answer.answerOrder_valid _ _ _ _ _ (by intro p hp; cases hp) ho
  have hsecs := hkeep hnc
  -- the setup an answer section carries fits the offered one (media or session level)
  have hsetup : ∀ o ∈ offer.media, ∀ (t : TrxView) (mid : Str),
      secSetupOk o (answerSection c t o role mid) = true ∧
      secSetupOkS offer.session.attrs o (answerSection c t o role mid) = true := by
    intro o ho' t mid
    unfold secSetupOk secSetupOkS
    rw [setupOf_answerSection]
    by_cases hw : c.mode = .webrtc
    · rw [if_pos hw]
      obtain ⟨v, hr, hall⟩ := hrole hw
      have hov := hall o ho'
      show setupCompatible (setupOf o) (setupValue role) = true ∧
        setupCompatible (offeredSetup offer.session.attrs o) (setupValue role) = true
      rw [hov, hr]
      refine ⟨?_, answer_setup_complements v⟩
      unfold offeredSetup at hov
      cases hs : setupOf o with
      | none => exact setupValue_side _
      | some v' =>
        rw [hs] at hov
        simp only [Option.some.injEq] at hov
        subst hov
        exact answer_setup_complements v'
    · rw [if_neg hw]
      exact ⟨rfl, rfl⟩
  -- all per-section clauses at once
  have hall : zipAll (fun o s => secValid o s && secSetupOkS offer.session.attrs o s) offer.media a.sections = true := by
    rw [hsecs]
    apply zipAll_buildList _ _ _ (fun o s => secValid o s && secSetupOkS offer.session.attrs o s) _ _ _ hv
    refine hal.imp ?_
    intro o p ho' _ ⟨hpo, t', hget', hm⟩ t mid hget hmid
    rw [hget'] at hget; injection hget with e; subst e
    rw [hpo]
    have hkind := matches_kind hm
    have hdir := hd t' (mem_of_getElem_some hget') o ho' hm
    have hmid' : mid = o.mid := by
      rcases hm with ⟨_, htm, _⟩ | ⟨hem, _⟩
      · exact hmid _ htm
      · exact absurd hem (hne o ho')
    subst hmid'
    have e1 : secAligned o (answerSection c t' o role o.mid) = true := by
      simp [secAligned, answerSection, hkind]
    have e2 : secPtsOk o (answerSection c t' o role o.mid) = true := by
      by_cases hac : o.kind = .audio ∧ (reinviteAudioCaps c o).isSome = true
      · exact answer_audio_pts_ok c t' o role o.mid (by rw [hkind]; exact hac.1) hac.2 (hcanon o ho')
      · unfold secPtsOk
        rw [List.all_eq_true]
        intro f hf
        have : f ∈ (codecPart c o.kind o).1 := by
          simp only [answerSection, capabilities, hkind] at hf
          exact hf
        simpa using hsel o ho' hac f this
    have e3 : secRtxOk o (answerSection c t' o role o.mid) = true := by
      by_cases hvid : t'.kind = .video
      · exact answer_rtx_ok_section c t' o role o.mid hvid
      · unfold secRtxOk
        rw [aptMap_answerSection, hkind, hapt o ho' (by rw [← hkind]; exact hvid)]
        rfl
    have e4 : secExtOk o (answerSection c t' o role o.mid) = true :=
      answer_ext_ok c t' o role o.mid (hext o ho')
    have e5 : secMuxOk o (answerSection c t' o role o.mid) = true := by
      unfold secMuxOk
      cases hmx : secHasMux o with
      | false => rw [answer_mux_ok c t' o role o.mid hmx]; rfl
      | true =>
        have e : hasAttr o "rtcp-mux" = true := hmx
        rw [e, Bool.or_true]
    have e6 : secDirOk o (answerSection c t' o role o.mid) = true := by
      unfold secDirOk
      simp only [answerSection]
      rw [← hdir]
      exact answer_direction_ok t' o
    obtain ⟨e7, e8⟩ := hsetup o ho' t' o.mid
    show (secValid o _ && secSetupOkS offer.session.attrs o _) = true
    unfold secValid
    rw [e1, e2, e3, e4, e5, e6, e7, e8]
    rfl
  have hall1 : zipAll secValid offer.media a.sections = true := zipAll_and_left _ _ _ _ hall
  have hall2 : zipAll (secSetupOkS offer.session.attrs) offer.media a.sections = true := zipAll_and_right _ _ _ _ hall
  -- BUNDLE members
  have hb : bundleOk offer.session.attrs a = true := by
    unfold bundleOk
    cases hg : a.group with
    | none => rfl
    | some g =>
      dsimp only
      obtain ⟨hob, _⟩ := answer_bundle_ok c ts nextMid role offer a g h hg
      obtain ⟨og, hog⟩ := offerGroup_of_offered _ hob
      rw [hog]
      dsimp only
      -- the group value lists the answer's mids = the offer's mids
      have halign : zipAll secAligned offer.media a.sections = true :=
        answer_aligned_partial c ts nextMid role offer a h hne hnc
      have hmidsEq := zipAll_aligned_mids _ _ halign
      have hgv : g = "BUNDLE ".toList ++ join sp (a.sections.map (·.mid)) ∧ a.sections ≠ [] := by
        unfold answer at h
        by_cases hts : ts.isEmpty = true
        · simp [hts] at h
        · simp only [hts, Bool.false_eq_true, if_false, ho] at h
          injection h with h
          subst h
          simp only [hnc.1, Bool.not_false, Bool.true_and, Bool.false_eq_true, if_false] at hg ⊢
          split at hg
          · rename_i hc
            simp only [Bool.and_eq_true, Bool.not_eq_true'] at hc
            injection hg with hg
            have hnotclear : (!offeredBundle offer.session.attrs &&
                decide ((buildSections c ts role order nextMid []).length > 1)) = false := by
              rw [hob]; rfl
            simp only [hnotclear, Bool.false_eq_true, if_false]
            refine ⟨hg.symm, ?_⟩
            intro hnil
            simp [hnil] at hc
          · cases hg
      rw [hgv.1, groupMids_bundle _ (by simpa using hgv.2) (by
        intro m hm
        rw [hmidsEq] at hm
        obtain ⟨o, ho', rfl⟩ := List.mem_map.mp hm
        exact hmids o ho')]
      rw [List.all_eq_true]
      intro m hm
      rw [hmidsEq] at hm
      obtain ⟨o, ho', rfl⟩ := List.mem_map.mp hm
      have := hgrp og hog o ho'
      simpa using this
  unfold validAnswer
  rw [hall1, hb, hall2]
  rfl

/-- the hypotheses of `answer_valid_partial` are satisfiable by a non-trivial instance -/
example : PtsWithinOffer cfgDefault bundleOffer ∧ NonVideoNoApt cfgDefault bundleOffer ∧ Canon bundleOffer ∧
    RoleDerived cfgDefault (some false) bundleOffer ∧ (∀ o ∈ bundleOffer.media, ExtWF o) ∧
    GroupListsMids bundleOffer ∧ (∀ o ∈ bundleOffer.media, IsTok o.mid) ∧
    DirSynced [trx .audio "0", trx .video "1"] bundleOffer := by
  refine ⟨?_, ?_, ?_, ?_, ?_, ?_, by decide, ?_⟩
  · intro o ho
    simp only [bundleOffer, mkOffer, List.mem_cons, List.mem_nil_iff, or_false] at ho
    rcases ho with rfl | rfl <;> decide
  · intro o ho
    simp only [bundleOffer, mkOffer, List.mem_cons, List.mem_nil_iff, or_false] at ho
    rcases ho with rfl | rfl <;> decide
  · intro o ho
    simp only [bundleOffer, mkOffer, List.mem_cons, List.mem_nil_iff, or_false] at ho
    rcases ho with rfl | rfl <;> decide
  · intro _
    refine ⟨"actpass".toList, by decide, ?_⟩
    intro o ho
    simp only [bundleOffer, mkOffer, List.mem_cons, List.mem_nil_iff, or_false] at ho
    rcases ho with rfl | rfl <;> decide
  · intro o ho
    simp only [bundleOffer, mkOffer, List.mem_cons, List.mem_nil_iff, or_false] at ho
    rcases ho with rfl | rfl <;> decide
  · intro og hog o ho
    have : og = "BUNDLE 0 1".toList := by
      have : offerGroup bundleOffer.session.attrs = some "BUNDLE 0 1".toList := by decide
      rw [this] at hog; injection hog with e; exact e.symm
    subst this
    simp only [bundleOffer, mkOffer, List.mem_cons, List.mem_nil_iff, or_false] at ho
    rcases ho with rfl | rfl <;> decide
  · intro t ht o ho hm
    simp only [bundleOffer, mkOffer, List.mem_cons, List.mem_nil_iff, or_false] at ht ho
    rcases ht with rfl | rfl <;> rcases ho with rfl | rfl <;> rfl

/-- **partial_bundle_group_answered_in_full** — witness for the BUNDLE-membership clause: the offer groups
only mid 0 (`a=group:BUNDLE 0`, sections 0 and 1); the answer's group lists both (`BUNDLE 0 1`), i.e. it
bundles a section the offer did not propose to bundle. Replayed on the implementation (known finding
`ans:bundle:section-outside-offered-group-bundled`). -/
theorem partial_bundle_group_answered_in_full :
    let offer := mkOffer [attr "group" "BUNDLE 0".toList] [opusSec, vp8RtxSec]
    ∃ a, answer cfgDefault [trx .audio "0", trx .video "1"] 2 (some false) (some offer) = .ok a ∧
      a.group = some "BUNDLE 0 1".toList ∧ bundleOk offer.session.attrs a = false ∧ ¬ GroupListsMids offer := by
  refine ⟨_, rfl, by decide, by decide, ?_⟩
  intro h
  have := h "BUNDLE 0".toList (by decide) vp8RtxSec (by simp [mkOffer])
  revert this; decide

/-- since the round-3 `fix:` a session-level-only `a=setup:active` yields the role `roleOfSetup "active"`
(server) — `RtcModel.Jsep.deriveRole` reads the session level when no section carries `a=setup` — and the
answer says `passive` (round-2 witness `session_level_setup_is_not_read`: the role stayed unset, the answer
said `active`) -/
example :
    let sec : Media := { pcmuOnly "0" with attrs := [flag "rtcp-mux", attr "rtpmap" "0 PCMU/8000".toList] }
    let offer := mkOffer [attr "setup" "active".toList] [sec]
    ∃ a, answer cfgDefault [trx .audio "0"] 1 (some (RtcModel.Jsep.roleOfSetup "active".toList)) (some offer) = .ok a ∧
      zipAll (secSetupOkS offer.session.attrs) offer.media a.sections = true := by
  refine ⟨_, rfl, by decide⟩

/-- **sections_with_differing_setup_get_one_role** — witness: sections offering `passive` and `active`; one
DTLS role (from the FIRST `a=setup`) answers both, so the second section is answered `active` to `active`. -/
theorem sections_with_differing_setup_get_one_role :
    let s0 : Media := { pcmuOnly "0" with attrs := [flag "rtcp-mux", attr "rtpmap" "0 PCMU/8000".toList, attr "setup" "passive".toList] }
    let s1 : Media := { pcmuOnly "1" with attrs := [flag "rtcp-mux", attr "rtpmap" "0 PCMU/8000".toList, attr "setup" "active".toList] }
    let offer := mkOffer [attr "group" "BUNDLE 0 1".toList] [s0, s1]
    ∃ a, answer cfgDefault [trx .audio "0", trx .audio "1"] 2 (some (RtcModel.Jsep.roleOfSetup "passive".toList))
        (some offer) = .ok a ∧ zipAll secSetupOk offer.media a.sections = false := by
  refine ⟨_, rfl, by decide⟩

/-- **offered_payload_type_rebound** — NOT a clause of the property (the text speaks of payload type
numbers); counted by the harness (`pt_rebound_*`) and reported as bit `cb` of the `valid` stream: the offer
binds payload type 96 to H264, the default configuration answers `96 VP8/90000`. -/
theorem offered_payload_type_rebound :
    let o : Media := { vp8Sec "0" [] with attrs := [flag "rtcp-mux", attr "rtpmap" "96 H264/90000".toList] }
    ∃ a, answer cfgDefault [trx .video "0"] 1 (some false) (some (mkOffer [] [o])) = .ok a ∧
      zipAll secPtsOk [o] a.sections = true ∧ zipAll secBindOk [o] a.sections = false := by
  refine ⟨_, rfl, by decide, by decide⟩

/-! ### SDP text -/

/-- **attr_text_roundtrip** (character level) — `Attribute::from_line ∘ write_line` is the identity for
every attribute whose key has no `:` (values are unconstrained, `None` and `Some("")` stay distinct). -/
theorem attr_text_roundtrip (a : Attr) (hk : ':' ∉ a.key) : Attr.fromLine a.text = a :=
  Attr.fromLine_text a hk

/-- **parse_print** (line level) — for every well-formed description, parsing what the printer wrote
yields the description with each section's attributes stably partitioned into transport attributes
first (`norm`): the only reordering the printer performs. -/
theorem parse_print (d : Desc) (h : WF d) : parse (print d) = .ok (norm d) := SdpLines.parse_print d h

/-- **parse_print_exact** — a description that came out of `parse ∘ print` round-trips exactly. -/
theorem parse_print_exact (d : Desc) (h : WF d) : parse (print (norm d)) = .ok (norm d) := by
  rw [parse_print (norm d) (SdpLines.wf_norm d h), SdpLines.norm_norm]

/-- **decimal_roundtrip** (character level) — `n.to_string().parse::<uN>() == Ok(n)` for `n < 2^N`
(`bound = 2^N`), the fact behind every numeric field. -/
theorem decimal_roundtrip (bound n : Nat) (h : n < bound) : parseUnsigned bound (natStr n) = some n :=
  parseUnsigned_natStr bound n h

/-- **origin_roundtrip** (character level) — `o=` reads back as written: user name / address tokens,
`u64` ids, `IN`, `IP4` / `IP6`. -/
theorem origin_roundtrip (o : Origin) (hu : IsTok o.username) (ha : IsTok o.address)
    (h1 : o.sessionId < 18446744073709551616) (h2 : o.sessionVersion < 18446744073709551616) :
    Origin.parse o.text = some o := SdpLines.origin_roundtrip o hu ha h1 h2

/-- **timing_roundtrip** (character level) -/
theorem timing_roundtrip (a b : Nat) (ha : a < 18446744073709551616) (hb : b < 18446744073709551616) :
    parseTiming (timingText a b) = some (a, b) := SdpLines.timing_roundtrip a b ha hb

/-- **mline_roundtrip** (character level) — `m=<kind> <port> <proto> <fmt>…` reads back as written for
every kind, `u16` port, token protocol and non-empty list of token formats. -/
theorem mline_roundtrip (m : Media) (hp : m.port < 65536) (hproto : IsTok m.proto) (hne : m.formats ≠ [])
    (hf : ∀ f ∈ m.formats, IsTok f) :
    parseMLine (mLineText m) = some { m with mid := [], dir := .sendrecv, attrs := [], connection := none } :=
  SdpLines.mline_roundtrip m hp hproto hne hf

/-- **parse_print_structural** — `parse_print` with the character-level facts discharged: for every
description whose numeric fields are in range, whose user name / address / protocols / formats are
non-empty tokens, with at least one format per section and plain attribute keys (`WF'`). -/
theorem parse_print_structural (d : Desc) (h : WF' d) : parse (print d) = .ok (norm d) :=
  parse_print d (SdpLines.wf_of_structural d h)

/-- **parse_text_print** (text level) — with the CRLF framing, `str::lines()`, `trim()` and
`split_once('=')`: parsing the printed TEXT gives `norm d`, provided no printed line contains a line
break or has white space at either end (`LineOK`, decidable). -/
theorem parse_text_print (d : Desc) (h : WF' d) (hl : ∀ l ∈ print d, LineOK l) :
    parseText (printText (print d)) = .ok (norm d) := by
  rw [SdpLines.parseText_printText _ hl]
  exact parse_print_structural d h

/-- a two-section description (BUNDLE, ICE / DTLS attributes, codecs) in the order browsers write it: well-formed,
all its printed lines `LineOK`, and NOT in the printer's order — the witness of `round_trip_reorders_attributes`. -/
def sampleDesc : Desc :=
  { session := { version := 0, origin := ⟨['-'], 4611731400430051336, 2, false, "127.0.0.1".toList⟩, name := ['-'],
                 start := 0, stop := 0, connection := none,
                 attrs := [attr "group" "BUNDLE 0 1".toList, attr "msid-semantic" " WMS".toList] },
    media := [
      { kind := .audio, mid := "0".toList, port := 9, proto := "UDP/TLS/RTP/SAVPF".toList, formats := ["111".toList, "0".toList],
        dir := .sendonly, connection := some "IN IP4 0.0.0.0".toList,
        attrs := [flag "rtcp-mux", attr "ice-ufrag" "abcd".toList, attr "rtpmap" "111 opus/48000/2".toList,
                  attr "setup" "actpass".toList, attr "fingerprint" "sha-256 AA:BB".toList] },
      { kind := .application, mid := [], port := 9, proto := "UDP/DTLS/SCTP".toList, formats := ["webrtc-datachannel".toList],
        dir := .sendrecv, connection := none, attrs := [attr "sctp-port" "5000".toList] }] }

example : WF' sampleDesc ∧ (∀ l ∈ print sampleDesc, LineOK l) ∧ norm sampleDesc ≠ sampleDesc ∧
    parseText (printText (print sampleDesc)) = .ok (norm sampleDesc) := by
  refine ⟨by decide, by decide, by decide, parse_text_print _ (by decide) (by decide)⟩

/-
THE ROUND-TRIP CLAUSE, LITERALLY ("yields the same description").
FULL STATEMENT (false for the current code):
  theorem round_trip_full (d : Desc) (h : WF d) : parse (print d) = .ok d
`SessionDescription: PartialEq` compares the attribute vectors in order and the printer writes every
section's transport attributes (ice-ufrag, ice-pwd, fingerprint, setup, candidate) ahead of the others, so
the clause fails for every description that is not already in that order — every WebRTC answer the stack
produces, every Chrome-order offer it parses. Witness `round_trip_reorders_attributes`; implementation
replays: known finding `rt:attribute-order:*`. What IS proved:
  `round_trip_partial`     — exact identity for every WF description in printer order (`norm d = d`),
  `parse_print`            — for every WF description the result is `norm d`,
  `norm_only_partitions`   — `norm` changes nothing but the attribute lists, each into the stable partition
                             transport-first (a permutation),
  `second_trip_exact`      — whatever the first trip returned round-trips exactly from then on.
-/

/-- **round_trip_partial** — the literal clause for descriptions already in the printer's attribute order. -/
theorem round_trip_partial (d : Desc) (h : WF d) (hn : norm d = d) : parse (print d) = .ok d := by
  have := parse_print d h; rw [hn] at this; exact this

/-- **round_trip_reorders_attributes** — witness that the literal clause is false: `sampleDesc` is well
formed, and parsing its printed form gives a description that is NOT `sampleDesc` (`ice-ufrag`, `setup`,
`fingerprint` moved ahead of `rtcp-mux`, `rtpmap`). -/
theorem round_trip_reorders_attributes : WF sampleDesc ∧ parse (print sampleDesc) ≠ .ok sampleDesc := by
  have hw : WF sampleDesc := SdpLines.wf_of_structural _ (by decide)
  refine ⟨hw, ?_⟩
  rw [parse_print _ hw]
  intro h; injection h with h; exact absurd h (by decide)

/-- **norm_only_partitions** — what the one reordering is: session part, number of sections and every
media field except the attribute list are untouched; each attribute list becomes its stable partition
(transport attributes first), which is a permutation of the original list. -/
theorem norm_only_partitions (d : Desc) :
    (norm d).session = d.session ∧ (norm d).media.length = d.media.length ∧
    ∀ (i : Nat) (m : Media), d.media[i]? = some m → ∃ m', (norm d).media[i]? = some m' ∧
      m'.kind = m.kind ∧ m'.mid = m.mid ∧ m'.port = m.port ∧ m'.proto = m.proto ∧ m'.formats = m.formats ∧
      m'.dir = m.dir ∧ m'.connection = m.connection ∧
      m'.attrs = m.attrs.filter (fun a => isTransportKey a.key) ++ m.attrs.filter (fun a => !isTransportKey a.key) ∧
      m'.attrs.Perm m.attrs := by
  refine ⟨rfl, by simp [norm], ?_⟩
  intro i m hm
  refine ⟨normMedia m, by simp [norm, hm], rfl, rfl, rfl, rfl, rfl, rfl, rfl, rfl, ?_⟩
  exact List.filter_append_perm _ _

/-- **second_trip_exact** — for every well-formed `d`: whatever description the first print/parse trip
returns, printing and parsing THAT one returns it unchanged. -/
theorem second_trip_exact (d d1 : Desc) (h : WF d) (h1 : parse (print d) = .ok d1) : parse (print d1) = .ok d1 := by
  rw [parse_print d h] at h1
  injection h1 with h1
  subst h1
  exact parse_print_exact d h

/-- a text the parser accepts whose line type is not one of `v o s t c a m` and contains a `:` -/
def colonPrefixText : Str := "v=0\r\no=- 1 2 IN IP4 h\r\ns=-\r\nt=0 0\r\nb:x=y\r\n".toList

/-- **parsed_description_need_not_round_trip** — "any description the stack … parsed": parser output is NOT
always well formed. The unknown line `b:x=y` is kept as a session attribute with key `b:x`; it is printed
as `a=b:x:y` and read back as key `b`, value `x:y`. (No theorem `parseText t = .ok d → WF d` exists: this
is its counterexample. Known finding `rt:differs:session:malformed-colon-prefix`.) -/
theorem parsed_description_need_not_round_trip :
    ∃ d d2, parseText colonPrefixText = .ok d ∧ ¬ WF d ∧ parseText (printText (print d)) = .ok d2 ∧ d2 ≠ d := by
  refine ⟨_, _, rfl, by decide, rfl, by decide⟩

/-- an offer text whose only direction attribute is at session level -/
def sessionInactiveText : Str := "v=0\r\no=- 1 2 IN IP4 h\r\ns=-\r\nt=0 0\r\na=inactive\r\nm=audio 9 RTP/AVP 0\r\n".toList

/-- **session_level_direction_is_not_read** — witness (direction clause, RFC 8866 §6.7: a session-level
`a=inactive` applies to every section without a direction of its own): the parser keeps the attribute in
the session part and gives the section the default `sendrecv`; nothing later reads the session-level
attribute, the transceiver is set to `sendrecv` and the section is answered `sendrecv`. Replayed on the
implementation (known finding `ans:direction:session-level-direction-not-read:*`). -/
theorem session_level_direction_is_not_read :
    ∃ d, parseText sessionInactiveText = .ok d ∧
      d.session.attrs = [flag "inactive"] ∧ d.media.map (·.dir) = [Dir.sendrecv] := by
  refine ⟨_, rfl, by decide, by decide⟩

end RtcModel.Theorems.C08
