/-
C19 — inbound RTP reaches only the right receiver; bridged streams stay continuous.
Property theorems only.  Models: `RtcModel/Demux.lean`, `RtcModel/Bridge.lean`; helper lemmas in
`RtcModel/Lemmas/{Demux,Bridge}.lean`.

Every statement is for an arbitrary registry / stream table and an arbitrary (unbounded) sequence
of registrations and packets; nothing is bounded by the scopes the correspondence check enumerates.
-/
import RtcModel.Lemmas.Bridge
import RtcModel.Lemmas.Demux

namespace RtcModel.Theorems.C19

/-! ## Part 1 — the demultiplexer -/
section demux
open RtcModel.Demux

/-- **delivered_only_to_registered_open** (the provable part of "at most one registered receiver"):
the receiver of a packet is known to the registry (by SSRC, RID, MID or a payload-type / provisional
route) and its channel is open; a packet for which no rule selects a listener is dropped and leaves
the registry unchanged.
That a packet reaches AT MOST ONE receiver is structural in the model (`receive` returns one
`Outcome`, as the code performs one `try_send` on the one selected sender), so no theorem is claimed
for it; on the implementation it is checked by the oracle `demux:delivered-to-more-than-one`, which
polls every listener channel after every packet. -/
theorem delivered_only_to_registered_open (r : Reg) (p : Pkt) :
    (∀ l v, (receive r p).2 = .delivered l v → Registered r l ∧ r.isClosed l = false) ∧
    (select r p = none → (receive r p).2 = .dropped ∧ (receive r p).1 = r) := by
  refine ⟨?_, ?_⟩
  · intro l v h
    unfold receive at h
    split at h
    · simp at h
    · rename_i l0 v0 b0 hs
      have hreg := select_registered r p l0 v0 b0 hs
      obtain ⟨hc, _, rfl, rfl⟩ := deliver_delivered _ _ _ _ _ _ _ h
      exact ⟨hreg, by simpa [Reg.isClosed] using hc⟩
  · intro h; simp [receive, h]

/-! ### the priority specification, written independently of `select` -/

/-- the listener registered under the packet's RID (header extension `rid_extension_id`, valid UTF-8) -/
def ridCand (r : Reg) (p : Pkt) : Option Lid :=
  (extOf p r.ridExt).bind (fun v => if utf8Valid v then lookup v r.byRid else none)

/-- the listener registered under the packet's MID -/
def midCand (r : Reg) (p : Pkt) : Option Lid :=
  (extOf p r.midExt).bind (fun v => if utf8Valid v then lookup v r.byMid else none)

/-- routes that list payload type `pt` -/
def ptRoutes (r : Reg) (pt : Nat) : List Route := r.routes.filter (fun rt => rt.pts.contains pt)
/-- routes registered as provisional -/
def provRoutes (r : Reg) : List Route := r.routes.filter (fun rt => rt.provisional)

/-- the packet carries MID `m` (valid UTF-8) that nobody registered: the MID identifies no receiver, so
the chain goes on ("else by SSRC …") -/
def MidUnknown (r : Reg) (p : Pkt) (m : Bytes) : Prop :=
  extOf p r.midExt = some m ∧ utf8Valid m = true ∧ lookup m r.byMid = none

/-- … but `l` is "a receiver of another media section" for this packet: the packet names section `m`,
nobody registered `m`, and `l` registered for a different section `m'` -/
def OtherSection (r : Reg) (p : Pkt) (l : Lid) : Prop :=
  ∃ m m', MidUnknown r p m ∧ sectionOf r l = some m' ∧ m' ≠ m

/-- The property's sentence and nothing else: "the one identified by its RID or MID header extension,
else by SSRC, else by an unambiguous payload type — and is dropped rather than handed to a receiver
of another media section"; else nobody (dropped).  The code's fifth rule, the single provisional
listener, is NOT part of this specification. -/
inductive Selects (r : Reg) (p : Pkt) : Option (Lid × Via) → Prop
  | rid (l : Lid) : ridCand r p = some l → Selects r p (some (l, .rid))
  | mid (l : Lid) : ridCand r p = none → midCand r p = some l → Selects r p (some (l, .mid))
  | ssrc (l : Lid) : ridCand r p = none → midCand r p = none → lookup p.ssrc r.bySsrc = some l →
      ¬ OtherSection r p l → Selects r p (some (l, .ssrc))
  | ssrcOther (l : Lid) : ridCand r p = none → midCand r p = none → lookup p.ssrc r.bySsrc = some l →
      OtherSection r p l → Selects r p none
  | pt (l : Lid) : ridCand r p = none → midCand r p = none → lookup p.ssrc r.bySsrc = none →
      UniqueOwner (ptRoutes r p.pt) l → ¬ OtherSection r p l → Selects r p (some (l, .pt))
  | ptOther (l : Lid) : ridCand r p = none → midCand r p = none → lookup p.ssrc r.bySsrc = none →
      UniqueOwner (ptRoutes r p.pt) l → OtherSection r p l → Selects r p none
  | nobody : ridCand r p = none → midCand r p = none → lookup p.ssrc r.bySsrc = none →
      (¬ ∃ l', UniqueOwner (ptRoutes r p.pt) l') → Selects r p none

/-- FULL STATEMENT (does NOT hold for the code — `selection_is_priority_spec_witness`): the selection
block picks exactly what the property's sentence prescribes. -/
def SelectionIsPrioritySpec : Prop :=
  ∀ (r : Reg) (p : Pkt), Selects r p ((select r p).map (fun x => (x.1, x.2.1)))

private theorem stageRid_eq (r : Reg) (p : Pkt) : stageRid r p = ridCand r p := by
  unfold stageRid ridCand; cases extOf p r.ridExt <;> rfl
private theorem stageMid_eq (r : Reg) (p : Pkt) : stageMid r p = midCand r p := by
  unfold stageMid midCand; cases extOf p r.midExt <;> rfl

private theorem unknownMid_iff (r : Reg) (p : Pkt) (m : Bytes) : unknownMid r p = some m ↔ MidUnknown r p m := by
  unfold unknownMid MidUnknown
  cases h : extOf p r.midExt with
  | none => simp
  | some m0 =>
    simp only [Option.some.injEq]
    constructor
    · intro h'
      by_cases hc : (utf8Valid m0 && (lookup m0 r.byMid).isNone) = true
      · simp [hc] at h'; subst h'
        simp at hc
        exact ⟨rfl, hc.1, by simpa using hc.2⟩
      · simp [hc] at h'
    · rintro ⟨rfl, hu, hl⟩; simp [hu, hl]

private theorem vetoed_iff (r : Reg) (p : Pkt) (l : Lid) : vetoed r p l = true ↔ OtherSection r p l := by
  unfold vetoed OtherSection
  constructor
  · intro h
    cases hu : unknownMid r p with
    | none => simp [hu] at h
    | some m =>
      cases hs : sectionOf r l with
      | none => simp [hu, hs] at h
      | some m' =>
        simp [hu, hs] at h
        exact ⟨m, m', (unknownMid_iff r p m).1 hu, rfl, h⟩
  · rintro ⟨m, m', hm, hs, hne⟩
    simp [(unknownMid_iff r p m).2 hm, hs, hne]

/-- a provisional-only listener and a packet nothing identifies -/
def regP : Reg := run Reg.empty [.regProv 0]
def pktP : Pkt := { ssrc := 7, pt := 96, ext := none }

/-- witness (oracle signature `demux:unidentified-packet-to-provisional:single-provisional`): a packet identified by no
RID, MID, SSRC or payload type is not dropped but handed to the single provisional listener. -/
theorem selection_is_priority_spec_witness : ¬ SelectionIsPrioritySpec := by
  intro h
  have h1 := h regP pktP
  have h2 : (select regP pktP).map (fun x => (x.1, x.2.1)) = some (0, .prov) := by decide
  rw [h2] at h1
  cases h1

/-- the late stages, read against the property's sentence -/
private theorem lateStages_spec (r : Reg) (p : Pkt) :
    (∃ l, lateStages r p = some (l, .ssrc, false) ∧ lookup p.ssrc r.bySsrc = some l) ∨
    (∃ l, lateStages r p = some (l, .pt, true) ∧ lookup p.ssrc r.bySsrc = none ∧ UniqueOwner (ptRoutes r p.pt) l) ∨
    (∃ l, lateStages r p = some (l, .prov, false) ∧ lookup p.ssrc r.bySsrc = none ∧
        (¬ ∃ l', UniqueOwner (ptRoutes r p.pt) l') ∧ UniqueOwner (provRoutes r) l ∧ ptRoutes r p.pt = []) ∨
    (lateStages r p = none ∧ lookup p.ssrc r.bySsrc = none ∧ (¬ ∃ l', UniqueOwner (ptRoutes r p.pt) l')) := by
  unfold lateStages
  cases h3 : lookup p.ssrc r.bySsrc with
  | some l => exact Or.inl ⟨l, rfl, rfl⟩
  | none =>
    cases h4 : uniqueByPt r p.pt with
    | some l => exact Or.inr (Or.inl ⟨l, rfl, rfl, (uniqueLoop_iff _ l).1 h4⟩)
    | none =>
      have n4 := (uniqueLoop_none_iff _).1 h4
      by_cases ha : (r.routes.any fun rt => rt.pts.contains p.pt) = true
      · simp only [ha, if_true]
        exact Or.inr (Or.inr (Or.inr ⟨trivial, trivial, n4⟩))
      · simp only [ha]
        have hempty : ptRoutes r p.pt = [] := by
          simp only [ptRoutes, List.filter_eq_nil_iff]
          intro rt hrt hc
          exact ha (List.any_eq_true.2 ⟨rt, hrt, hc⟩)
        cases h5 : singleProvisional r with
        | some l => exact Or.inr (Or.inr (Or.inl ⟨l, by simp, trivial, n4, (uniqueLoop_iff _ l).1 h5, hempty⟩))
        | none => exact Or.inr (Or.inr (Or.inr ⟨by simp, trivial, n4⟩))

/-- **selection_is_priority_spec_partial**: what holds for every registry and packet.  (1) Whenever
the code selects by RID, MID, SSRC or payload type, that is exactly what the property's sentence
prescribes (including: never a receiver of another section for a packet naming an unregistered
section); (2) when it selects nobody, the sentence selects nobody; (3) the ONLY deviation is the
provisional fallback: it fires only when the sentence says "nobody" (the property would drop the
packet) AND no route at all lists the packet's payload type (an ambiguous payload type is dropped),
hands the packet to the single owner of the provisional routes, and even then never to a receiver of
another section; (4) the sentence has exactly one answer; (5) SSRC binding is requested
exactly for RID / MID / payload-type routing. -/
theorem selection_is_priority_spec_partial (r : Reg) (p : Pkt) :
    (∀ l v b, select r p = some (l, v, b) → v ≠ .prov → Selects r p (some (l, v))) ∧
    (select r p = none → Selects r p none) ∧
    (∀ l b, select r p = some (l, .prov, b) →
        Selects r p none ∧ UniqueOwner (provRoutes r) l ∧ ¬ OtherSection r p l ∧ ptRoutes r p.pt = []) ∧
    (∀ a a', Selects r p a → Selects r p a' → a = a') ∧
    (∀ l v b, select r p = some (l, v, b) → b = (v = .rid ∨ v = .mid ∨ v = .pt)) := by
  have hv : ∀ l, vetoed r p l = false ↔ ¬ OtherSection r p l := by
    intro l; rw [← vetoed_iff]; cases vetoed r p l <;> simp
  refine ⟨?_, ?_, ?_, ?_, ?_⟩
  · intro l v b hs hne
    rcases select_cases r p l v b hs with ⟨h1, rfl, _⟩ | ⟨h1, h2, rfl, _⟩ | ⟨h1, h2, h3, h4⟩
    · exact .rid l (by rw [← stageRid_eq]; exact h1)
    · exact .mid l (by rw [← stageRid_eq]; exact h1) (by rw [← stageMid_eq]; exact h2)
    · rw [stageRid_eq] at h1; rw [stageMid_eq] at h2
      rcases lateStages_spec r p with ⟨l', e, hl⟩ | ⟨l', e, hl, ho⟩ | ⟨l', e, _⟩ | ⟨e, _⟩
      · rw [e] at h3; cases h3; exact .ssrc l h1 h2 hl ((hv l).1 h4)
      · rw [e] at h3; cases h3; exact .pt l h1 h2 hl ho ((hv l).1 h4)
      · rw [e] at h3; cases h3; exact absurd rfl hne
      · rw [e] at h3; cases h3
  · intro hn
    unfold select at hn
    cases h1 : stageRid r p with
    | some l => simp [h1] at hn
    | none =>
      cases h2 : stageMid r p with
      | some l => simp [h1, h2] at hn
      | none =>
        simp only [h1, h2] at hn
        rw [stageRid_eq] at h1; rw [stageMid_eq] at h2
        rcases lateStages_spec r p with ⟨l', e, hl⟩ | ⟨l', e, hl, ho⟩ | ⟨l', e, hl, hn4, _⟩ | ⟨e, hl, hn4⟩
        · rw [e] at hn
          by_cases hvt : vetoed r p l' = true
          · exact .ssrcOther l' h1 h2 hl ((vetoed_iff r p l').1 hvt)
          · simp [hvt] at hn
        · rw [e] at hn
          by_cases hvt : vetoed r p l' = true
          · exact .ptOther l' h1 h2 hl ho ((vetoed_iff r p l').1 hvt)
          · simp [hvt] at hn
        · exact .nobody h1 h2 hl hn4
        · exact .nobody h1 h2 hl hn4
  · intro l b hs
    rcases select_cases r p l .prov b hs with ⟨_, h, _⟩ | ⟨_, _, h, _⟩ | ⟨h1, h2, h3, h4⟩
    · cases h
    · cases h
    · rw [stageRid_eq] at h1; rw [stageMid_eq] at h2
      rcases lateStages_spec r p with ⟨l', e, _⟩ | ⟨l', e, _⟩ | ⟨l', e, hl, hn4, ho⟩ | ⟨e, _⟩
      · rw [e] at h3; cases h3
      · rw [e] at h3; cases h3
      · rw [e] at h3; cases h3; exact ⟨.nobody h1 h2 hl hn4, ho.1, (hv l).1 h4, ho.2⟩
      · rw [e] at h3; cases h3
  · intro a a' ha ha'
    cases ha <;> cases ha' <;> (try rfl) <;> simp_all
    all_goals first
      | exact uniqueOwner_unique _ _ _ (by assumption) (by assumption)
      | (rename_i l1 h6 h5 l2 _ _ _ h1 h0
         have e := uniqueOwner_unique _ _ _ h6 h1
         subst e
         first | exact h5 h0 | exact h0 h5)
  · intro l v b hs
    rcases select_cases r p l v b hs with ⟨_, rfl, rfl⟩ | ⟨_, _, rfl, rfl⟩ | ⟨_, _, h3, _⟩
    · simp
    · simp
    · rcases lateStages_spec r p with ⟨l', e, _⟩ | ⟨l', e, _⟩ | ⟨l', e, _⟩ | ⟨e, _⟩ <;>
        (rw [e] at h3; cases h3) <;> simp

/-- the registration shape `peer_connection.rs` produces (every receiver registers provisional + MID +
payload types on ONE channel): section "0" = listener 0 {provisional, MID "0", PTs 96 97}, section
"1" = listener 1 {MID "1", PTs 97 98} whose provisional registration has not happened (or was pruned) -/
def regQ : Reg :=
  run Reg.empty [.setMidExt 3, .regProv 0, .regMid [0x30] 0, .regPts [96, 97] 0, .regMid [0x31] 1, .regPts [97, 98] 1]
/-- a packet without MID, unknown SSRC, payload type 97 — claimed by BOTH sections -/
def pktQ : Pkt := { ssrc := 7, pt := 97, ext := none }

/-- **ambiguous_pt_is_dropped** (holds since the `fix:` commit "the provisional fallback does not take a
packet whose payload type is ambiguous"; before it `regQ`/`pktQ` was the counter-example
`provisional_fallback_crosses_sections_witness`, known finding `demux:ambiguous-pt-falls-to-provisional`):
a packet that no RID, MID or SSRC identifies and whose payload type is listed by routes of more than
one listener is dropped, whoever is registered as provisional. -/
theorem ambiguous_pt_is_dropped (r : Reg) (p : Pkt) (hr : stageRid r p = none) (hm : stageMid r p = none)
    (hs : lookup p.ssrc r.bySsrc = none) (hne : ptRoutes r p.pt ≠ [])
    (hamb : ¬ ∃ l, UniqueOwner (ptRoutes r p.pt) l) : receive r p = (r, .dropped) := by
  have hl : lateStages r p = none := by
    rcases lateStages_spec r p with ⟨l, _, h⟩ | ⟨l, _, _, h⟩ | ⟨l, _, _, _, _, h⟩ | ⟨h, _⟩
    · rw [hs] at h; cases h
    · exact absurd ⟨l, h⟩ hamb
    · exact absurd h hne
    · exact h
  simp [receive, select, hr, hm, hl]

example : receive regQ pktQ = (regQ, .dropped) := by decide

/-! ### MID packets and media sections -/

/-- the media section a listener belongs to: the MID on its own route, else — for a listener that
registers no MID itself, like the simulcast-layer listeners `peer_connection.rs` registers by RID on
separate channels — the section of the receiver it belongs to (`parent`, a ghost the transport
does not have; the harness uses the same convention: listeners 2 and 3 are layers of 0 and 1) -/
def secOf (parent : Lid → Option Lid) (r : Reg) (l : Lid) : Option Bytes :=
  match sectionOf r l with
  | some m => some m
  | none => (parent l).bind (sectionOf r)

/-- FULL STATEMENT (does NOT hold for the code — `mid_packet_never_crosses_sections_witness`,
known finding `cross:rid-overrides-mid`): a packet whose MID header extension names media section
`m` is handed only to the listener registered for `m`, or to a listener of no section or of section
`m`; never to a receiver of another media section. -/
def MidPacketNeverCrossesSections : Prop :=
  ∀ (parent : Lid → Option Lid) (r : Reg) (p : Pkt) (m : Bytes) (l : Lid) (v : Via),
    extOf p r.midExt = some m → utf8Valid m = true → (receive r p).2 = .delivered l v →
    lookup m r.byMid = some l ∨ secOf parent r l = none ∨ secOf parent r l = some m

/-- the shape `peer_connection.rs` produces: receivers 0 (MID "0") and 1 (MID "1"); their simulcast-layer
listeners 2 and 3 register the same RID "h" on separate channels, without a MID (RIDs are only unique
within a section); the later registration wins -/
def regB : Reg :=
  run Reg.empty [.setMidExt 3, .setRidExt 4, .regMid [0x30] 0, .regMid [0x31] 1, .regRid [0x68] 2, .regRid [0x68] 3]
def parentB : Lid → Option Lid := fun l => if l = 2 then some 0 else if l = 3 then some 1 else none
/-- a packet of section "0", layer "h" -/
def pktB : Pkt := { ssrc := 7, pt := 96, ext := some { profile := 0xBEDE, data := [0x30, 0x30, 0x40, 0x68] } }

/-- witness (`cross:rid-overrides-mid`): RID is looked up before MID in one transport-wide map that is
not scoped by section, so section "0"'s packet is handed to section "1"'s layer receiver although its
MID is registered. -/
theorem mid_packet_never_crosses_sections_witness : ¬ MidPacketNeverCrossesSections := by
  intro h
  have := h parentB regB pktB [0x30] 3 .rid (by decide) (by decide) (by decide)
  revert this; decide

/-- **mid_packet_never_crosses_sections_partial**: the part that holds, for every registry and packet.
If the packet's MID is REGISTERED (to `owner`), the packet is handed to `owner` — or, only when its
RID extension matches a registered RID, to that RID's listener — and never to a listener found by
SSRC, payload type or the provisional fallback. -/
theorem mid_packet_never_crosses_sections_partial (r : Reg) (p : Pkt) (m : Bytes) (owner l : Lid) (v : Via)
    (hm : extOf p r.midExt = some m) (hu : utf8Valid m = true) (hreg : lookup m r.byMid = some owner)
    (hd : (receive r p).2 = .delivered l v) :
    (l = owner ∧ v = .mid ∧ ridCand r p = none) ∨ (v = .rid ∧ ridCand r p = some l) := by
  have hmid : stageMid r p = some owner := by simp [stageMid, hm, hu, hreg]
  unfold receive at hd
  split at hd
  · simp at hd
  · rename_i l0 v0 b0 hs
    obtain ⟨_, _, rfl, rfl⟩ := deliver_delivered _ _ _ _ _ _ _ hd
    rcases select_cases r p _ _ _ hs with ⟨h1, rfl, _⟩ | ⟨h1, h2, rfl, _⟩ | ⟨_, h2, _, _⟩
    · exact Or.inr ⟨rfl, by rw [← stageRid_eq]; exact h1⟩
    · rw [hmid] at h2; cases h2
      exact Or.inl ⟨rfl, rfl, by rw [← stageRid_eq]; exact h1⟩
    · rw [hmid] at h2; cases h2

/-- **unregistered_mid_never_reaches_other_section**: a packet whose MID names a section nobody
registered follows the property's "else by SSRC, else by payload type" chain (and the code's
provisional fallback), but whoever receives it — unless its RID identified the receiver — did not
register for another media section: its own section is unknown or is the one the packet names.
(History: before round 2 such a packet reached any receiver the later stages found — known finding
`cross:mid-unregistered-falls-through`; an earlier version of fix 6866cf0 (folded on main) dropped ALL such packets, which the audit showed
to be more than the property asks; the present behaviour is the `fix:` "an unregistered MID only
vetoes receivers of another media section".) -/
theorem unregistered_mid_never_reaches_other_section (r : Reg) (p : Pkt) (m : Bytes) (l : Lid) (v : Via)
    (hm : MidUnknown r p m) (hrid : stageRid r p = none) (hd : (receive r p).2 = .delivered l v) :
    sectionOf r l = none ∨ sectionOf r l = some m := by
  unfold receive at hd
  split at hd
  · simp at hd
  · rename_i l0 v0 b0 hs
    obtain ⟨_, _, rfl, rfl⟩ := deliver_delivered _ _ _ _ _ _ _ hd
    rcases select_cases r p _ _ _ hs with ⟨h1, _, _⟩ | ⟨_, h2, _, _⟩ | ⟨_, _, _, h4⟩
    · rw [hrid] at h1; cases h1
    · obtain ⟨he, hu, hl⟩ := hm
      simp [stageMid, he, hu, hl] at h2
    · have hno : ¬ OtherSection r p l := by
        rw [← vetoed_iff]; simp [h4]
      cases hs' : sectionOf r l with
      | none => exact Or.inl rfl
      | some m' =>
        right
        by_cases hmm : m' = m
        · rw [hmm]
        · exact absurd ⟨m, m', hm, hs', hmm⟩ hno

/-- section "0": listener 0 (MID "0", payload type 96); MID extension id 3 -/
def regA : Reg := run Reg.empty [.setMidExt 3, .regMid [0x30] 0, .regPts [96] 0]
/-- a packet that says MID "9" (registered by nobody) with payload type 96 -/
def pktA : Pkt := { ssrc := 7, pt := 96, ext := some { profile := 0xBEDE, data := [0x30, 0x39, 0, 0] } }

/-- the round-1 counter-example is vetoed (section "0"'s receiver is "another section" for a packet
naming "9") … -/
example : receive regA pktA = (regA, .dropped) := by decide
/-- … while the same packet still reaches a receiver that registered for no section (early media at
a provisional listener whose MID is not known yet; an SSRC bound to a section-less receiver) — the
behaviour the first version of fix 6866cf0 had removed -/
example : (receive (run Reg.empty [.setMidExt 3, .regProv 0]) pktA).2 = .delivered 0 .prov ∧
    (receive (run Reg.empty [.setMidExt 3, .regSsrc 7 1]) pktA).2 = .delivered 1 .ssrc := by decide

example : extOf pktB regB.midExt = some [0x30] ∧ lookup [0x30] regB.byMid = some 0 := by decide

/-! ### route pruning -/

/-- **open_routes_never_pruned**: registering a new listener prunes only routes whose channel is closed —
the route of every open listener survives unchanged; a listener that already has a route never
triggers pruning at all; and the only route ever added is the new listener's empty one. -/
theorem open_routes_never_pruned (r : Reg) (l : Lid) :
    (∀ rt ∈ r.routes, r.isClosed rt.lid = false → rt ∈ ensureRoute r l) ∧
    ((∃ rt ∈ r.routes, rt.lid = l) → ensureRoute r l = r.routes) ∧
    (∀ rt ∈ ensureRoute r l, rt ∈ r.routes ∨ rt = { mid := none, pts := [], lid := l, provisional := false }) := by
  refine ⟨?_, ?_, ?_⟩
  · intro rt hrt hopen
    unfold ensureRoute
    split
    · exact hrt
    · simp only [List.mem_append, List.mem_filter]
      left; exact ⟨hrt, by simpa [Reg.isClosed] using hopen⟩
  · rintro ⟨rt, hrt, hl⟩
    unfold ensureRoute
    have : (r.routes.any fun rt => decide (rt.lid = l)) = true := by
      simp only [List.any_eq_true]; exact ⟨rt, hrt, by simpa using hl⟩
    simp [this]
  · intro rt hrt
    unfold ensureRoute at hrt
    split at hrt
    · exact Or.inl hrt
    · simp only [List.mem_append, List.mem_filter, List.mem_singleton] at hrt
      rcases hrt with h | h
      · exact Or.inl h.1
      · exact Or.inr h

/-! `std::str::from_utf8` acceptance is modelled strictly (é; 0xFF; overlong C0 80; surrogate ED A0 80; > U+10FFFF) -/
example : utf8Valid [0xC3, 0xA9] = true ∧ utf8Valid [0xFF] = false ∧ utf8Valid [0xC0, 0x80] = false ∧
    utf8Valid [0xED, 0xA0, 0x80] = false ∧ utf8Valid [0xF4, 0x90, 0x80, 0x80] = false ∧
    utf8Valid [0xF0, 0x9F, 0x98, 0x80] = true := by decide

/-! ### SSRC bindings -/

/-- **binding_only_from_routed** (one packet): after `receive`, every entry of the SSRC map either was
there before, or binds THIS packet's SSRC to the listener the packet was routed to by RID, MID or
unambiguous payload type.  A packet routed by SSRC or by the provisional fallback, or not routed at
all, teaches nothing; no packet ever binds another SSRC or another listener. -/
theorem binding_only_from_routed (r : Reg) (p : Pkt) (s : Nat) (l : Lid)
    (h : (s, l) ∈ (receive r p).1.bySsrc) :
    (s, l) ∈ r.bySsrc ∨ (s = p.ssrc ∧ ∃ v, select r p = some (l, v, true) ∧ (v = .rid ∨ v = .mid ∨ v = .pt)) := by
  unfold receive at h
  split at h
  · exact Or.inl h
  · rename_i l0 v0 b0 hs
    have hb := (selection_is_priority_spec_partial r p).2.2.2.2 l0 v0 b0 hs
    rcases afterSelect_mem _ _ _ _ _ (deliver_mem _ _ _ _ _ _ h) with h1 | ⟨hb1, he⟩
    · exact Or.inl h1
    · right
      simp at he; obtain ⟨rfl, rfl⟩ := he
      subst hb1
      exact ⟨rfl, v0, hs, by simpa using hb⟩

/-- **stream_not_split_after_extension_hit**: when a packet is identified by its RID or MID extension as
listener `b`'s and delivered to `b`, the SSRC map afterwards binds the packet's SSRC to `b` — whatever it
pointed at before (a binding signalled for, or learnt for, another receiver is CORRECTED, by RID as by
MID) — and the next packet `q` of that SSRC that carries neither a RID nor a MID value is selected for
`b` by the SSRC stage: a stream is not split across two receivers after an identification by extension.
(Implementation-side oracle: `cross:ssrc-binding-stale-after-{rid,mid}-hit`.) -/
theorem stream_not_split_after_extension_hit (r : Reg) (p q : Pkt) (b : Lid) (v : Via)
    (hd : (receive r p).2 = .delivered b v) (hv : v = .rid ∨ v = .mid)
    (hq : q.ssrc = p.ssrc)
    (hqr : extOf q (receive r p).1.ridExt = none) (hqm : extOf q (receive r p).1.midExt = none) :
    lookup p.ssrc (receive r p).1.bySsrc = some b ∧ select (receive r p).1 q = some (b, .ssrc, false) := by
  have hbind : lookup p.ssrc (receive r p).1.bySsrc = some b := by
    have hrec : ∀ x, select r p = x → lookup p.ssrc (receive r p).1.bySsrc = some b := by
      intro x hx
      unfold receive at hd ⊢
      rw [hx] at hd ⊢
      match x with
      | none => simp at hd
      | some (l0, v0, b0) =>
        obtain ⟨hc, hf, rfl, rfl⟩ := deliver_delivered _ _ _ _ _ _ _ hd
        have hb0 : b0 = true := by
          have := (selection_is_priority_spec_partial r p).2.2.2.2 _ _ _ hx
          rcases hv with rfl | rfl <;> simpa using this
        subst hb0
        show lookup p.ssrc (deliver (afterSelect r p.ssrc b true) p.ssrc b v (p.full.contains b)).1.bySsrc = some b
        have hdel : (deliver (afterSelect r p.ssrc b true) p.ssrc b v (p.full.contains b)).1 = afterSelect r p.ssrc b true := by
          unfold deliver; rw [hf]; simp [hc]
        rw [hdel]
        simp only [afterSelect, if_true]
        exact bindFromPacket_lookup r p.ssrc b
    exact hrec _ rfl
  refine ⟨hbind, ?_⟩
  have h1 : stageRid (receive r p).1 q = none := by simp [stageRid, hqr]
  have h2 : stageMid (receive r p).1 q = none := by simp [stageMid, hqm]
  have h3 : lateStages (receive r p).1 q = some (b, .ssrc, false) := by simp [lateStages, hq, hbind]
  have h4 : vetoed (receive r p).1 q b = false := by simp [vetoed, unknownMid, hqm]
  simp [select, h1, h2, h3, h4]

/-- how an SSRC binding present after a sequence of operations is explained by that sequence -/
def Explained (r0 : Reg) (ops : List Op) (s : Nat) (l : Lid) : Prop :=
  (s, l) ∈ r0.bySsrc ∨ Op.regSsrc s l ∈ ops ∨
  ∃ pre p post v, ops = pre ++ Op.pkt p :: post ∧ p.ssrc = s ∧
    select (run r0 pre) p = some (l, v, true) ∧ (v = .rid ∨ v = .mid ∨ v = .pt)

/-- one operation: a binding present afterwards was there before, or is this explicit registration,
or was learnt from this packet -/
theorem binding_step (r : Reg) (o : Op) (s : Nat) (l : Lid) (h : (s, l) ∈ (step r o).1.bySsrc) :
    (s, l) ∈ r.bySsrc ∨ o = .regSsrc s l ∨
    ∃ p v, o = .pkt p ∧ p.ssrc = s ∧ select r p = some (l, v, true) ∧ (v = .rid ∨ v = .mid ∨ v = .pt) := by
  cases o with
  | regSsrc s' l' =>
    simp only [step, bindSsrc] at h
    rcases mem_insert _ _ _ _ h with he | he
    · simp at he; obtain ⟨rfl, rfl⟩ := he; exact Or.inr (Or.inl rfl)
    · exact Or.inl (mem_retainOpen _ _ _ he)
  | regRid k l' => exact Or.inl (by simpa [step, regRid] using h)
  | regMid k l' => exact Or.inl (by simpa [step, regMid, withRoute] using h)
  | regPts ps l' => exact Or.inl (by simpa [step, regPts, withRoute] using h)
  | regPt q l' => exact Or.inl (by simpa [step, regPt, withRoute] using h)
  | regProv l' => exact Or.inl (by simpa [step, regProv, withRoute] using h)
  | closeL l' => exact Or.inl (by simpa [step] using h)
  | setRidExt i => exact Or.inl (by simpa [step] using h)
  | setMidExt i => exact Or.inl (by simpa [step] using h)
  | clear => simp [step, clearListeners] at h
  | pkt p =>
    simp only [step] at h
    rcases binding_only_from_routed r p s l h with h1 | ⟨rfl, v, hs, hv⟩
    · exact Or.inl h1
    · exact Or.inr (Or.inr ⟨p, v, rfl, rfl, hs, hv⟩)

/-- **binding_only_from_routed_run**: for every (unbounded) sequence of registrations, closures,
clears and packets, every SSRC binding in the final registry was there initially, was registered
explicitly (`register_listener_sync`), or was learnt from a packet of exactly that SSRC that was
routed to exactly that listener by RID, MID or unambiguous payload type at that moment. -/
theorem binding_only_from_routed_run (r0 : Reg) (ops : List Op) (s : Nat) (l : Lid)
    (h : (s, l) ∈ (run r0 ops).bySsrc) : Explained r0 ops s l := by
  induction ops generalizing r0 with
  | nil => exact Or.inl h
  | cons o os ih =>
    simp only [run] at h
    rcases ih _ h with h1 | h1 | ⟨pre, p, post, v, he, h2, h3, h4⟩
    · rcases binding_step r0 o s l h1 with h0 | rfl | ⟨p, v, rfl, h2, h3, h4⟩
      · exact Or.inl h0
      · exact Or.inr (Or.inl (by simp))
      · exact Or.inr (Or.inr ⟨[], p, os, v, rfl, h2, h3, h4⟩)
    · exact Or.inr (Or.inl (by simp [h1]))
    · exact Or.inr (Or.inr ⟨o :: pre, p, post, v, by simp [he], h2, by simpa [run] using h3, h4⟩)

/-- a listener whose channel turns out to be closed is removed from every map and from the routes,
together with the SSRC entry of the packet that found it -/
theorem closed_listener_removed (r : Reg) (p : Pkt) (l : Lid) (v : Via)
    (h : (receive r p).2 = .closedOut l v) : ¬ Registered (receive r p).1 l := by
  have hrec : ∀ x, select r p = x → ¬ Registered (receive r p).1 l := by
    intro x hx
    unfold receive at h ⊢
    rw [hx] at h ⊢
    match x with
    | none => simp at h
    | some (l0, v0, b0) =>
      obtain ⟨rfl, heq⟩ := deliver_closedOut _ _ _ _ _ _ _ h
      show ¬ Registered (deliver (afterSelect r p.ssrc l b0) p.ssrc l v0 (p.full.contains l)).1 l
      rw [heq]
      rintro (⟨k, hk⟩ | ⟨k, hk⟩ | ⟨k, hk⟩ | ⟨rt, hrt, hl⟩)
      · exact (mem_dropLid _ _ _ hk).2 rfl
      · exact (mem_dropLid _ _ _ hk).2 rfl
      · exact (mem_dropLid _ _ _ hk).2 rfl
      · simp only [removeSender, List.mem_filter] at hrt
        exact absurd hl (by simpa using hrt.2)
  exact hrec _ rfl

/-! ### sweeping closed SSRC bindings -/

/-- **ssrc_sweep_only_drops_closed**: whichever way an SSRC is bound — explicit registration (always
sweeps) or learnt from a packet (sweeps only when the table has reached `sweepAt`, i.e. has doubled
since the last sweep) — the only entries that can disappear are the one being re-bound and entries of
listeners whose channel is closed: every binding of an OPEN listener for another SSRC survives; and
the new binding is in place. -/
theorem ssrc_sweep_only_drops_closed (r : Reg) (ssrc : Nat) (l : Lid) (s : Nat) (l' : Lid)
    (hm : (s, l') ∈ r.bySsrc) (hs : s ≠ ssrc) (hopen : r.isClosed l' = false) :
    (s, l') ∈ (bindSsrc r ssrc l).bySsrc ∧ (s, l') ∈ (bindFromPacket r ssrc l).bySsrc ∧
    lookup ssrc (bindSsrc r ssrc l).bySsrc = some l ∧ lookup ssrc (bindFromPacket r ssrc l).bySsrc = some l := by
  have hkeep : (s, l') ∈ retainOpen r.closed r.bySsrc := by
    simp only [retainOpen, List.mem_filter]; exact ⟨hm, by simpa [Reg.isClosed] using hopen⟩
  have hins : ∀ m : List (Nat × Lid), (s, l') ∈ m → (s, l') ∈ RtcModel.Demux.insert ssrc l m := by
    intro m h; simp only [RtcModel.Demux.insert, List.mem_cons, List.mem_filter]; right; exact ⟨h, by simpa using hs⟩
  refine ⟨hins _ hkeep, ?_, lookup_insert_same _ _ _, ?_⟩
  · unfold bindFromPacket; split
    · exact hins _ hkeep
    · exact hins _ hm
  · unfold bindFromPacket; split <;> exact lookup_insert_same _ _ _

/-- **stale_binding_never_delivers**: between two sweeps the table may hold bindings of listeners whose
channel has closed.  Such an entry never causes a delivery: a packet that selects a closed listener
(by that stale binding or any other rule) reaches nobody, and the stale listener is removed from
every map on the spot. -/
theorem stale_binding_never_delivers (r : Reg) (p : Pkt) (l : Lid) (hs : lookup p.ssrc r.bySsrc = some l)
    (hc : r.isClosed l = true) (hr : stageRid r p = none) (hm : stageMid r p = none)
    (hv : vetoed r p l = false) :
    (receive r p).2 = .closedOut l .ssrc ∧ ¬ Registered (receive r p).1 l := by
  have hl : lateStages r p = some (l, .ssrc, false) := by simp [lateStages, hs]
  have hsel : select r p = some (l, .ssrc, false) := by simp [select, hr, hm, hl, hv]
  have hout : (receive r p).2 = .closedOut l .ssrc := by
    simp [receive, hsel, afterSelect, deliver, hc]
  exact ⟨hout, closed_listener_removed r p l .ssrc hout⟩

/-- **full_channel_loses_only_the_packet**: a packet whose selected listener has a full (but open) channel is lost
and NOTHING is unregistered: routes, RID and MID maps and the closed set are untouched, every binding of
an open listener for another SSRC survives (the amortised sweep may run), and the packet's own SSRC is
bound as it was or — when the stage binds — to the selected listener.  (`TrySendError::Full(_) => {}`;
the next packet of that stream therefore still finds its receiver.)  `p.full` is an input of the model. -/
theorem full_channel_loses_only_the_packet (r : Reg) (p : Pkt) (l : Lid) (v : Via)
    (h : (receive r p).2 = .fullOut l v) :
    r.isClosed l = false ∧ (∃ b, select r p = some (l, v, b)) ∧
    (receive r p).1.routes = r.routes ∧ (receive r p).1.byRid = r.byRid ∧ (receive r p).1.byMid = r.byMid ∧
    (receive r p).1.closed = r.closed ∧
    (∀ s l', (s, l') ∈ r.bySsrc → s ≠ p.ssrc → r.isClosed l' = false → (s, l') ∈ (receive r p).1.bySsrc) ∧
    (lookup p.ssrc (receive r p).1.bySsrc = lookup p.ssrc r.bySsrc ∨
      lookup p.ssrc (receive r p).1.bySsrc = some l) := by
  generalize hx : select r p = x
  unfold receive at h ⊢
  rw [hx] at h ⊢
  match x with
  | none => simp at h
  | some (l0, v0, b0) =>
      obtain ⟨hc, _, rfl, rfl, heq⟩ := deliver_fullOut _ _ _ _ _ _ _ h
      simp only [heq]
      cases b0 with
      | false =>
        simp only [afterSelect]
        exact ⟨by simpa [afterSelect] using hc, ⟨false, rfl⟩, rfl, rfl, rfl, rfl, fun _ _ hm _ _ => hm, Or.inl rfl⟩
      | true =>
        simp only [afterSelect, if_true]
        refine ⟨by simpa [afterSelect, Reg.isClosed] using hc, ⟨true, rfl⟩, by simp, by simp, by simp, by simp, ?_, Or.inr (bindFromPacket_lookup r p.ssrc l)⟩
        intro s l' hm hs ho
        exact (ssrc_sweep_only_drops_closed r p.ssrc l s l' hm hs ho).2.1

end demux

/-! ## Part 2 — the rewrite bridge -/
section bridge
open RtcModel.Bridge RtcModel.Generated

/-- generated-constant obligation (what the theorems need from the regenerated thresholds, not their
exact values): the discontinuity window `(jump threshold, forward limit)` is a non-empty proper
sub-range of the forward half of `u32`, and the re-basing step is positive and itself not a
discontinuity — so a re-based stream moves forward and is continuous afterwards. -/
theorem const_bridge_thresholds :
    bridgeTsJumpThreshold < bridgeTsForwardLimit ∧ bridgeTsForwardLimit ≤ 2147483648 ∧
    0 < bridgeTsRebaseStep ∧ bridgeTsRebaseStep ≤ bridgeTsJumpThreshold := by decide

/-- sequence numbers of a source whose stream already exists count up by one from the stored counter -/
theorem seq_consecutive_known (c : Cfg) (s : UInt32) (pkts : List In) (ss : Streams) (st : Stream)
    (h : sget s ss = some st) :
    consecFrom st.nextSeq ((outsOf c s ss pkts).map (·.2.pkt.seq)) := by
  induction pkts generalizing ss st with
  | nil => simp [outsOf, consecFrom]
  | cons q rest ih =>
    obtain ⟨p, a, b⟩ := q
    by_cases hp : p.ssrc = s
    · subst hp
      have hcur := cur_of_some c ss p a b st h
      have hnext := forward_get_same c ss p a b
      rw [hcur] at hnext
      have := ih _ _ hnext
      simp only [outsOf, if_true, List.singleton_append, List.map_cons, consecFrom]
      refine ⟨by rw [forward_out_seq, hcur], ?_⟩
      simpa using this
    · simp only [outsOf, hp, if_false, List.nil_append]
      exact ih _ _ (by rw [forward_get_other c ss p a b s hp]; exact h)

/-- **bridge_seq_consecutive**: for every rule table, every option set and every interleaved arrival
sequence of any number of sources (any source sequence numbers, jumps, duplicates, reordering), the
output sequence numbers of each source stream are consecutive modulo 2^16 in arrival order,
starting at the stored counter — for a new stream: at the configured initial sequence number. -/
theorem bridge_seq_consecutive (c : Cfg) (s : UInt32) (pkts : List In) (ss : Streams) :
    consecFrom (startSeq c s ss pkts) ((outsOf c s ss pkts).map (·.2.pkt.seq)) := by
  cases h : sget s ss with
  | some st => simp only [startSeq, h]; exact seq_consecutive_known c s pkts ss st h
  | none =>
    induction pkts generalizing ss with
    | nil => simp [outsOf, consecFrom]
    | cons q rest ih =>
      obtain ⟨p, a, b⟩ := q
      by_cases hp : p.ssrc = s
      · subst hp
        have hcur : (cur c ss p a b).nextSeq = c.opts.initSeq.getD a := by simp [cur, h]
        have hnext := forward_get_same c ss p a b
        have := seq_consecutive_known c p.ssrc rest _ _ hnext
        simp only [startSeq, h, List.find?, outsOf, if_true, List.singleton_append, List.map_cons, consecFrom,
          decide_true]
        refine ⟨by rw [forward_out_seq, hcur], ?_⟩
        simpa [hcur] using this
      · have hn : sget s (forward c ss p a b).1 = none := by rw [forward_get_other c ss p a b s hp]; exact h
        have := ih _ hn
        simp only [startSeq, h, hn, List.find?, hp, decide_false, outsOf, if_false, List.nil_append] at this ⊢
        exact this

/-- **bridge_ssrc_stable**: every output packet of a source whose stream exists carries that stream's
output SSRC, whatever payload types, rules or other sources are interleaved. -/
theorem bridge_ssrc_stable_known (c : Cfg) (s : UInt32) (pkts : List In) (ss : Streams) (st : Stream)
    (h : sget s ss = some st) : ∀ io ∈ outsOf c s ss pkts, io.2.pkt.ssrc = st.outSsrc := by
  induction pkts generalizing ss st with
  | nil => simp [outsOf]
  | cons q rest ih =>
    obtain ⟨p, a, b⟩ := q
    by_cases hp : p.ssrc = s
    · subst hp
      have hcur := cur_of_some c ss p a b st h
      have hnext := forward_get_same c ss p a b
      rw [hcur] at hnext
      intro io hio
      simp only [outsOf, if_true, List.singleton_append, List.mem_cons] at hio
      rcases hio with rfl | hio
      · rw [forward_out_ssrc, hcur]
      · have := ih _ _ hnext io hio
        simpa using this
    · simp only [outsOf, hp, if_false, List.nil_append]
      exact ih _ _ (by rw [forward_get_other c ss p a b s hp]; exact h)

/-- **bridge_ssrc_pt_stable**: each source stream maps to ONE output SSRC for its whole life — any two
output packets of the same source, anywhere in any interleaving, carry the same SSRC — and the
output payload type of every packet is the one the rule table assigns to its input payload type
(`outPt`: the exact-match rule's replacement, else the catch-all's, else unchanged), independent of
history, so equal input payload types give equal output payload types. -/
theorem bridge_ssrc_pt_stable (c : Cfg) (s : UInt32) (pkts : List In) (ss : Streams) :
    (∀ io₁ ∈ outsOf c s ss pkts, ∀ io₂ ∈ outsOf c s ss pkts, io₁.2.pkt.ssrc = io₂.2.pkt.ssrc) ∧
    (∀ io ∈ outsOf c s ss pkts, io.2.pkt.pt = outPt c io.1 ∧ io.1.ssrc = s) := by
  constructor
  · cases h : sget s ss with
    | some st =>
      intro a ha b hb
      rw [bridge_ssrc_stable_known c s pkts ss st h a ha, bridge_ssrc_stable_known c s pkts ss st h b hb]
    | none =>
      induction pkts generalizing ss with
      | nil => simp [outsOf]
      | cons q rest ih =>
        obtain ⟨p, a, b⟩ := q
        by_cases hp : p.ssrc = s
        · subst hp
          have hnext := forward_get_same c ss p a b
          have hk := bridge_ssrc_stable_known c p.ssrc rest _ _ hnext
          have hfirst : (forward c ss p a b).2.pkt.ssrc = (cur c ss p a b).outSsrc := forward_out_ssrc c ss p a b
          have hall : ∀ io ∈ outsOf c p.ssrc ss ((p, a, b) :: rest), io.2.pkt.ssrc = (cur c ss p a b).outSsrc := by
            intro io hio
            simp only [outsOf, if_true, List.singleton_append, List.mem_cons] at hio
            rcases hio with rfl | hio
            · exact hfirst
            · have := hk io hio; simpa using this
          intro x hx y hy
          rw [hall x hx, hall y hy]
        · have hn : sget s (forward c ss p a b).1 = none := by rw [forward_get_other c ss p a b s hp]; exact h
          simp only [outsOf, hp, if_false, List.nil_append]
          exact ih _ hn
  · induction pkts generalizing ss with
    | nil => simp [outsOf]
    | cons q rest ih =>
      obtain ⟨p, a, b⟩ := q
      intro io hio
      simp only [outsOf, List.mem_append] at hio
      rcases hio with hio | hio
      · split at hio
        · rename_i hp
          simp at hio; subst hio
          exact ⟨forward_out_pt c ss p a b, hp⟩
        · simp at hio
      · exact ih _ io hio

/-- a new stream's output SSRC is what the rule matching its FIRST packet prescribes: the rule's
fixed SSRC, else source SSRC + the rule's offset (wrapping), else (no rule) the source SSRC. -/
theorem bridge_new_stream_ssrc (c : Cfg) (ss : Streams) (p : Pkt) (a : UInt16) (b : UInt32)
    (h : sget p.ssrc ss = none) : (forward c ss p a b).2.pkt.ssrc = newOutSsrc c p := by
  rw [forward_out_ssrc]; simp [cur, h]

/-- **bridge_ts_delta_preserved**: take any in-order packet `p1` of a source and the NEXT packet `p2`
of that source, with arbitrarily many packets of other sources in between.  Unless `p2` jumps
forward by more than the discontinuity threshold (900 000 < Δ < 2^31), the output timestamps differ
by exactly the source timestamp difference (mod 2^32) — this includes repeats (Δ = 0), wraparound of
the 32-bit timestamp and late (reordered) packets; across such a discontinuity the output advances
by exactly the re-basing step (3000). -/
theorem bridge_ts_delta_preserved (c : Cfg) (ss : Streams) (p1 p2 : Pkt) (a1 a2 : UInt16) (b1 b2 : UInt32)
    (others : List In) (hsame : p2.ssrc = p1.ssrc) (hoth : ∀ q ∈ others, q.1.ssrc ≠ p1.ssrc)
    (hin : InOrder (cur c ss p1 a1 b1) p1) :
    let o1 := (forward c ss p1 a1 b1).2.pkt
    let ss2 := runAll c (forward c ss p1 a1 b1).1 others
    let o2 := (forward c ss2 p2 a2 b2).2.pkt
    (¬ (p2.ts - p1.ts < halfRange ∧ p2.ts - p1.ts > discontinuity) → o2.ts - o1.ts = p2.ts - p1.ts) ∧
    ((p2.ts - p1.ts < halfRange ∧ p2.ts - p1.ts > discontinuity) → o2.ts = o1.ts + rebaseStep) := by
  intro o1 ss2 o2
  have hlast := tsUpdate_inorder_last c.opts (cur c ss p1 a1 b1) p1 hin
  have ho1 : o1.ts = p1.ts + (tsUpdate c.opts (cur c ss p1 a1 b1) p1.ts).1.tsOff := forward_out_ts c ss p1 a1 b1
  generalize hst1 : (tsUpdate c.opts (cur c ss p1 a1 b1) p1.ts).1 = st1 at hlast ho1
  have hs1 : sget p1.ssrc (forward c ss p1 a1 b1).1 =
      some { st1 with nextSeq := (cur c ss p1 a1 b1).nextSeq + 1 } := by
    rw [forward_get_same, hst1]
  have hs2 : sget p2.ssrc ss2 = some { st1 with nextSeq := (cur c ss p1 a1 b1).nextSeq + 1 } := by
    rw [hsame]; show sget p1.ssrc (runAll c _ others) = _
    rw [runAll_get_other c p1.ssrc others hoth]; exact hs1
  have hcur2 := cur_of_some c ss2 p2 a2 b2 _ hs2
  have ho2 : o2.ts = p2.ts + (tsUpdate c.opts (cur c ss2 p2 a2 b2) p2.ts).1.tsOff := forward_out_ts c ss2 p2 a2 b2
  rw [hcur2] at ho2
  constructor
  · intro hnd
    rw [ho1, ho2]
    have hoff : (tsUpdate c.opts { st1 with nextSeq := (cur c ss p1 a1 b1).nextSeq + 1 } p2.ts).1.tsOff = st1.tsOff := by
      simp only [tsUpdate, hlast]
      by_cases hlt : p2.ts - p1.ts < halfRange
      · have : ¬ p2.ts - p1.ts > discontinuity := fun hg => hnd ⟨hlt, hg⟩
        simp [hlt, rebase, this]
      · simp [hlt]
    rw [hoff]
    grind
  · intro hd
    rw [ho1, ho2]
    have hoff : (tsUpdate c.opts { st1 with nextSeq := (cur c ss p1 a1 b1).nextSeq + 1 } p2.ts).1.tsOff
        = p1.ts + st1.tsOff + rebaseStep - p2.ts := by
      simp [tsUpdate, hlast, hd.1, rebase, hd.2]
    rw [hoff]
    grind

/-- the timestamp offset of a stream changes only on a forward jump beyond the threshold, or when the
first packet's output timestamp is pinned by `initial_output_timestamp`. -/
theorem bridge_offset_changes_only_at_discontinuity (o : Opts) (st : Stream) (t : UInt32)
    (h : (tsUpdate o st t).1.tsOff ≠ st.tsOff) :
    (∃ last, st.lastSrcTs = some last ∧ t - last < halfRange ∧ t - last > discontinuity) ∨
    (st.lastSrcTs = none ∧ o.initOutTs.isSome) := by
  unfold tsUpdate at h
  split at h
  · rename_i last hl
    left
    refine ⟨last, hl, ?_⟩
    by_cases hlt : t - last < halfRange
    · by_cases hg : t - last > discontinuity
      · exact ⟨hlt, hg⟩
      · simp [hlt, rebase, hg] at h
    · simp [hlt] at h
  · rename_i hl
    right
    split at h
    · rename_i w hw; exact ⟨hl, by simp [hw]⟩
    · simp at h

/-- **bridge_sources_independent** (frame property): what the bridge outputs for the packets of one
source — SSRC, payload type, sequence numbers, timestamps, marker, extension, target — is the same
whether or not packets of any other sources are interleaved with them, as long as the source's own
entry in the stream table is the same at the start. -/
theorem bridge_sources_independent (c : Cfg) (s : UInt32) (pkts : List In) (ss ss' : Streams)
    (h : sget s ss = sget s ss') :
    outsOf c s ss pkts = outsOf c s ss' (pkts.filter (fun q => q.1.ssrc = s)) := by
  induction pkts generalizing ss ss' with
  | nil => simp [outsOf]
  | cons q rest ih =>
    obtain ⟨p, a, b⟩ := q
    by_cases hp : p.ssrc = s
    · subst hp
      obtain ⟨ho, hs⟩ := forward_congr c ss ss' p a b h
      simp only [List.filter, decide_true, outsOf, if_true, ho]
      rw [ih _ _ hs]
    · simp only [List.filter, hp, decide_false, outsOf, if_false, List.nil_append]
      exact ih _ _ (by rw [forward_get_other c ss p a b s hp]; exact h)

/-- a packet never changes another source's stream state (the lemma behind independence) -/
theorem bridge_state_frame (c : Cfg) (ss : Streams) (p : Pkt) (a : UInt16) (b : UInt32) (s : UInt32)
    (h : p.ssrc ≠ s) : sget s (forward c ss p a b).1 = sget s ss := forward_get_other c ss p a b s h

/-- the target is chosen from the ORIGINAL payload type, before any rewrite -/
theorem bridge_target_from_original_pt (c : Cfg) (ss : Streams) (p : Pkt) (a : UInt16) (b : UInt32) :
    (forward c ss p a b).2.video = (c.videoPts.contains p.pt && c.hasVideo) := by
  simp [forward, targetFor]

/-- **bridge_stamps_mid**: a packet that arrives without a header-extension block and is rewritten by
a rule carrying an SDES-MID (extension id 1..14, MID of 1..16 bytes; extensions not stripped) leaves
with exactly the one-element block `stamped id mid`. -/
theorem bridge_stamps_mid (c : Cfg) (ss : Streams) (p : Pkt) (a : UInt16) (b : UInt32) (r : Rule)
    (id : UInt8) (mid : Demux.Bytes) (hstrip : c.opts.strip = false) (hext : p.ext = none)
    (hr : ruleFor c.rules p.pt = some r) (hid : r.midExtId = some id) (hmid : r.mid = some mid)
    (h1 : 1 ≤ id.toNat) (h2 : id.toNat ≤ 14) (h3 : 1 ≤ mid.length) (h4 : mid.length ≤ 16) :
    (forward c ss p a b).2.pkt.ext = some (stamped id mid) := by
  simp [forward, rewrite, stampMid, hstrip, hext, hr, hid, hmid, setExtension_none id mid h1 h2 h3 h4]

/-- **stamped_packet_routes_by_mid** (bridge output → next hop's demux): a receiver whose negotiated
MID extension id is `id` and that has the (UTF-8) MID registered to listener `l` routes the stamped
packet to `l` by MID and learns its SSRC — whatever SSRC and payload type the bridge wrote and
whatever else is registered — provided no RID rule fires first. -/
theorem stamped_packet_routes_by_mid (reg : Demux.Reg) (id : UInt8) (mid : Demux.Bytes) (l : Demux.Lid) (ssrc pt : Nat)
    (h1 : 1 ≤ id.toNat) (h2 : id.toNat ≤ 14) (h3 : 1 ≤ mid.length) (h4 : mid.length ≤ 16)
    (hext : reg.midExt = id.toNat) (hutf : Demux.utf8Valid mid = true)
    (hreg : Demux.lookup mid reg.byMid = some l)
    (hrid : Demux.stageRid reg { ssrc, pt, ext := some (stamped id mid) } = none) :
    Demux.select reg { ssrc, pt, ext := some (stamped id mid) } = some (l, .mid, true) := by
  have hne : id.toNat ≠ 0 := by omega
  have hm : Demux.stageMid reg { ssrc, pt, ext := some (stamped id mid) } = some l := by
    simp [Demux.stageMid, Demux.extOf, hext, hne, get_stamped id mid h1 h2 h3 h4, hutf, hreg]
  simp [Demux.select, hrid, hm]

def demoCfg : Cfg :=
  { rules := [ { matchPt := none, fixedOutSsrc := none, ssrcOffset := 1000, outPt := some 8, midExtId := none, mid := none },
               { matchPt := some 101, fixedOutSsrc := some 5000, ssrcOffset := 0, outPt := some 102, midExtId := none, mid := none } ],
    opts := { strip := false, initSeq := some 65534, initTsOff := some 0, initOutTs := none },
    videoPts := [97], hasVideo := true }
def mk (ssrc : UInt32) (pt : UInt8) (ts : UInt32) : In := ({ ssrc, pt, seq := 1, ts, marker := false, ext := none }, 0, 0)


/-- **bridge_ts_tracks_offset**: EVERY output timestamp — of in-order, late and first packets alike —
is the source timestamp plus the stream's offset as it stands after the packet; and for a packet
that is not a forward discontinuity (and not a pinned first packet) that offset is the one the
stream had before.  With `bridge_offset_changes_only_at_discontinuity` this gives: any two packets
of a source between which no discontinuity (or pin) occurred — adjacent or not, whichever of them
is late — have output timestamps differing by exactly their source difference. -/
theorem bridge_ts_tracks_offset (c : Cfg) (ss : Streams) (p : Pkt) (a : UInt16) (b : UInt32) :
    (forward c ss p a b).2.pkt.ts = p.ts + (tsUpdate c.opts (cur c ss p a b) p.ts).1.tsOff ∧
    (∀ st, sget p.ssrc (forward c ss p a b).1 = some st →
      st.tsOff = (tsUpdate c.opts (cur c ss p a b) p.ts).1.tsOff) ∧
    (∀ p2 a2 b2 st, sget p.ssrc (forward c ss p a b).1 = some st →
      (tsUpdate c.opts st p2.ts).1.tsOff = st.tsOff → p2.ssrc = p.ssrc →
      (forward c (forward c ss p a b).1 p2 a2 b2).2.pkt.ts - (forward c ss p a b).2.pkt.ts = p2.ts - p.ts) := by
  refine ⟨forward_out_ts c ss p a b, ?_, ?_⟩
  · intro st hst
    rw [forward_get_same] at hst
    cases hst; rfl
  · intro p2 a2 b2 st hst hoff hs
    have hcur := cur_of_some c (forward c ss p a b).1 p2 a2 b2 st (by rw [hs]; exact hst)
    rw [forward_out_ts, forward_out_ts, hcur, hoff]
    rw [forward_get_same] at hst
    cases hst
    simp only
    grind

/-! ### output SSRC and the rule table -/

/-- READING of "one stable output SSRC and payload type per rule": stability is what the property
asks and `bridge_ssrc_pt_stable` proves more (one SSRC per SOURCE, hence per (source, rule)).  What
does NOT hold is that a packet carries the SSRC its OWN rule configures: the stream state is keyed
by source SSRC only, so the rule matching the stream's FIRST packet decides for all later packets
(`rtp.rs` rule doc: "audio, video and DTMF each get their own destination SSRC"). -/
def RuleSsrcHonoured : Prop :=
  ∀ (c : Cfg) (ss : Streams) (p : Pkt) (a : UInt16) (b : UInt32) (r : Rule) (x : UInt32),
    ruleFor c.rules p.pt = some r → r.fixedOutSsrc = some x → (forward c ss p a b).2.pkt.ssrc = x

/-- witness: after a payload-type-0 packet created the stream (catch-all rule: source + 1000), a
payload-type-101 packet of the same source, whose own rule says `fixed_out_ssrc = 5000`, leaves with
SSRC 1100. -/
theorem bridge_rule_ssrc_not_honoured_witness : ¬ RuleSsrcHonoured := by
  intro h
  have := h demoCfg (forward demoCfg [] (mk 100 0 160).1 0 0).1 (mk 100 101 480).1 0 0
    { matchPt := some 101, fixedOutSsrc := some 5000, ssrcOffset := 0, outPt := some 102, midExtId := none, mid := none }
    5000 (by decide) rfl
  revert this; decide

/-- the part that holds: the FIRST packet of a stream carries its own rule's SSRC
(`bridge_new_stream_ssrc`), and with the legacy single-parameter API every rule carries the same
SSRC configuration, so there every packet carries its own rule's SSRC: -/
theorem legacy_rules_share_ssrc (p : Params) :
    ∀ r ∈ fromParams p, r.fixedOutSsrc = p.fixedOutSsrc ∧ r.ssrcOffset = p.ssrcOffset := by
  intro r hr
  unfold fromParams at hr
  cases hd : p.dtmf with
  | none => rw [hd] at hr; simp at hr; subst hr; exact ⟨rfl, rfl⟩
  | some sd =>
    rw [hd] at hr; simp at hr
    rcases hr with rfl | rfl <;> exact ⟨rfl, rfl⟩

/-- **bridge_legacy_ssrc_per_rule**: a bridge installed through `bridge_rewrite_to(params)` writes, on
the first packet of every stream, `fixed_out_ssrc` or else `source + ssrc_offset` whatever the payload
type — DTMF and audio share one output SSRC, as the legacy behaviour promises; the DTMF rule only
remaps the payload type. -/
theorem bridge_legacy_ssrc_per_rule (pr : Params) (p : Pkt) :
    newOutSsrc (cfgOfParams pr) p = pr.fixedOutSsrc.getD (p.ssrc + pr.ssrcOffset) ∧
    outPt (cfgOfParams pr) p =
      (match pr.dtmf with
       | some (s, d) => if p.pt = s then d else pr.payloadType.getD p.pt
       | none => pr.payloadType.getD p.pt) := by
  unfold newOutSsrc outPt cfgOfParams fromParams ruleFor
  cases hd : pr.dtmf with
  | none => simp [Rule.catchAll]
  | some sd =>
    obtain ⟨s, d⟩ := sd
    by_cases hp : p.pt = s
    · subst hp; simp [Rule.catchAll, Rule.dtmf]
    · have : ¬ s = p.pt := fun e => hp e.symm
      simp [Rule.catchAll, Rule.dtmf, hp, this]

/-! ### what reaches the socket when pushes are refused
`wireOf` (Bridge.lean) filters the rewritten packets by a per-packet `sent` flag that is an INPUT (supplied by the
harness from the case's configuration: target mandatory and still keyless).  That the wire is then a subsequence of
the consecutive run is a list fact — lemma `wire_seq_subsequence` in `Lemmas/Bridge.lean`, not a property theorem.
The content is on the implementation side: the drop-aware sequence oracle. -/

/-! non-vacuity: a DTMF-remapping table, two interleaved sources, a wrap of the sequence number and a
timestamp discontinuity -/
example :
    (forwardAll demoCfg [] [mk 100 0 160, mk 200 0 7, mk 100 0 320, mk 100 101 480]).map
      (fun o => (o.pkt.ssrc, o.pkt.pt, o.pkt.seq, o.pkt.ts)) =
    [(1100, 8, 65534, 160), (1200, 8, 65534, 7), (1100, 8, 65535, 320), (1100, 102, 0, 480)] := by
  decide

example : InOrder (cur demoCfg [] (mk 100 0 160).1 0 0) (mk 100 0 160).1 := by simp [InOrder, cur, sget]

end bridge

end RtcModel.Theorems.C19
