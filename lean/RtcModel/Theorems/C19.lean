/-
C19 — inbound RTP reaches only the right receiver; bridged streams stay continuous.
Property theorems only.  Models: `RtcModel/Demux.lean`, `RtcModel/Bridge.lean`; helper lemmas in
`RtcModel/Lemmas/{Demux,Bridge}.lean`.

Every statement is for an arbitrary registry / stream table and an arbitrary (unbounded) sequence
of registrations and packets; nothing is bounded by the scopes the correspondence check enumerates.
-/
import RtcModel.Lemmas.Bridge
import RtcModel.Lemmas.Demux

namespace RtcModel.Theorems.C19

/-! ## Part 1 — the demultiplexer -/
section demux
open RtcModel.Demux

/-- **delivered_only_to_registered_open** (the provable part of "at most one registered receiver"):
the receiver of a packet is known to the registry (by SSRC, RID, MID or a payload-type / provisional
route) and its channel is open; a packet for which no rule selects a listener is dropped and leaves
the registry unchanged.
That a packet reaches AT MOST ONE receiver is structural in the model (`receive` returns one
`Outcome`, as the code performs one `try_send` on the one selected sender), so no theorem is claimed
for it; on the implementation it is checked by the oracle `demux:delivered-to-more-than-one`, which
polls every listener channel after every packet. -/
theorem delivered_only_to_registered_open (r : Reg) (p : Pkt) :
    (∀ l v, (receive r p).2 = .delivered l v → Registered r l ∧ r.isClosed l = false) ∧
    (select r p = none → (receive r p).2 = .dropped ∧ (receive r p).1 = r) := by
  refine ⟨?_, ?_⟩
  · intro l v h
    unfold receive at h
    split at h
    · simp at h
    · rename_i l0 v0 b0 hs
      have hreg := select_registered r p l0 v0 b0 hs
      obtain ⟨hc, rfl, rfl⟩ := deliver_delivered _ _ _ _ _ _ h
      exact ⟨hreg, by simpa [Reg.isClosed] using hc⟩
  · intro h; simp [receive, h]

/-! ### the priority specification, written independently of `select` -/

/-- the listener registered under the packet's RID (header extension `rid_extension_id`, valid UTF-8) -/
def ridCand (r : Reg) (p : Pkt) : Option Lid :=
  (extOf p r.ridExt).bind (fun v => if utf8Valid v then lookup v r.byRid else none)

/-- the listener registered under the packet's MID -/
def midCand (r : Reg) (p : Pkt) : Option Lid :=
  (extOf p r.midExt).bind (fun v => if utf8Valid v then lookup v r.byMid else none)

/-- routes that list payload type `pt` -/
def ptRoutes (r : Reg) (pt : Nat) : List Route := r.routes.filter (fun rt => rt.pts.contains pt)
/-- routes registered as provisional -/
def provRoutes (r : Reg) : List Route := r.routes.filter (fun rt => rt.provisional)

/-- the packet carries a MID (valid UTF-8) that nobody registered: it names a media section without
a receiver, so it identifies nobody and must not be handed to another section's receiver -/
def MidUnknown (r : Reg) (p : Pkt) : Prop :=
  ∃ m, extOf p r.midExt = some m ∧ utf8Valid m = true ∧ lookup m r.byMid = none

/-- The property's chain and nothing else: "the one identified by its RID or MID header extension,
else by SSRC, else by an unambiguous payload type" — else nobody (dropped); a MID that
names a section nobody registered identifies nobody and stops the chain (dropped).  The code's fifth rule,
the single provisional listener, is NOT part of this specification. -/
inductive Selects (r : Reg) (p : Pkt) : Option (Lid × Via) → Prop
  | rid (l : Lid) : ridCand r p = some l → Selects r p (some (l, .rid))
  | mid (l : Lid) : ridCand r p = none → midCand r p = some l → Selects r p (some (l, .mid))
  | unknownMid : ridCand r p = none → MidUnknown r p → Selects r p none
  | ssrc (l : Lid) : ridCand r p = none → midCand r p = none → ¬ MidUnknown r p →
      lookup p.ssrc r.bySsrc = some l → Selects r p (some (l, .ssrc))
  | pt (l : Lid) : ridCand r p = none → midCand r p = none → ¬ MidUnknown r p →
      lookup p.ssrc r.bySsrc = none → UniqueOwner (ptRoutes r p.pt) l → Selects r p (some (l, .pt))
  | nobody : ridCand r p = none → midCand r p = none → ¬ MidUnknown r p → lookup p.ssrc r.bySsrc = none →
      (¬ ∃ l', UniqueOwner (ptRoutes r p.pt) l') → Selects r p none

/-- FULL STATEMENT (does NOT hold for the code — `selection_is_priority_spec_witness`): the selection
block picks exactly what the property's chain prescribes. -/
def SelectionIsPrioritySpec : Prop :=
  ∀ (r : Reg) (p : Pkt), Selects r p ((select r p).map (fun x => (x.1, x.2.1)))

private theorem stageRid_eq (r : Reg) (p : Pkt) : stageRid r p = ridCand r p := by
  unfold stageRid ridCand; cases extOf p r.ridExt <;> rfl
private theorem stageMid_eq (r : Reg) (p : Pkt) : stageMid r p = midCand r p := by
  unfold stageMid midCand; cases extOf p r.midExt <;> rfl

private theorem midMiss_iff (r : Reg) (p : Pkt) : midMiss r p = true ↔ MidUnknown r p := by
  unfold midMiss MidUnknown
  cases h : extOf p r.midExt with
  | none => simp
  | some m =>
    constructor
    · intro hm; simp at hm; exact ⟨m, rfl, hm.1, by simpa using hm.2⟩
    · rintro ⟨m', hm', hu, hl⟩; cases hm'; simp [hu, hl]

private theorem midUnknown_midCand (r : Reg) (p : Pkt) (h : MidUnknown r p) : midCand r p = none := by
  obtain ⟨m, hm, hu, hl⟩ := h
  simp [midCand, hm, hu, hl]

/-- a provisional-only listener and a packet nothing identifies -/
def regP : Reg := run Reg.empty [.regProv 0]
def pktP : Pkt := { ssrc := 7, pt := 96, ext := none }

/-- witness (`demux:unidentified-packet-to-provisional`): a packet identified by no RID, MID, SSRC or
payload type is not dropped but handed to the single provisional listener. -/
theorem selection_is_priority_spec_witness : ¬ SelectionIsPrioritySpec := by
  intro h
  have h1 := h regP pktP
  have h2 : (select regP pktP).map (fun x => (x.1, x.2.1)) = some (0, .prov) := by decide
  rw [h2] at h1
  cases h1

/-- **selection_is_priority_spec_partial**: what holds for every registry and packet.  (1) Whenever
the code selects by RID, MID, SSRC or payload type, that is exactly the property's chain; (2) when it
selects nobody, the chain selects nobody; (3) the ONLY deviation is the provisional fallback: it
fires exactly when the chain says "nobody" (the property would drop the packet) and then hands the
packet to the single owner of the provisional routes; (4) the chain has exactly one answer;
(5) SSRC binding is requested exactly for RID / MID / payload-type routing. -/
theorem selection_is_priority_spec_partial (r : Reg) (p : Pkt) :
    (∀ l v b, select r p = some (l, v, b) → v ≠ .prov → Selects r p (some (l, v))) ∧
    (select r p = none → Selects r p none) ∧
    (∀ l b, select r p = some (l, .prov, b) → Selects r p none ∧ UniqueOwner (provRoutes r) l) ∧
    (∀ a a', Selects r p a → Selects r p a' → a = a') ∧
    (∀ l v b, select r p = some (l, v, b) → b = (v = .rid ∨ v = .mid ∨ v = .pt)) := by
  have key : (∃ l v b, select r p = some (l, v, b) ∧ v ≠ .prov ∧ Selects r p (some (l, v))) ∨
      (select r p = none ∧ Selects r p none) ∨
      (∃ l, select r p = some (l, .prov, false) ∧ Selects r p none ∧ UniqueOwner (provRoutes r) l) := by
    unfold select
    rw [stageRid_eq, stageMid_eq]
    cases h1 : ridCand r p with
    | some l => exact Or.inl ⟨l, .rid, true, rfl, by simp, .rid l h1⟩
    | none =>
      cases h2 : midCand r p with
      | some l => exact Or.inl ⟨l, .mid, true, rfl, by simp, .mid l h1 h2⟩
      | none =>
        by_cases hm : midMiss r p = true
        · simp only [hm, if_true]
          exact Or.inr (Or.inl ⟨trivial, .unknownMid h1 ((midMiss_iff r p).1 hm)⟩)
        · have hu : ¬ MidUnknown r p := fun h => hm ((midMiss_iff r p).2 h)
          simp only [hm]
          cases h3 : lookup p.ssrc r.bySsrc with
          | some l => exact Or.inl ⟨l, .ssrc, false, rfl, by simp, .ssrc l h1 h2 hu h3⟩
          | none =>
            cases h4 : uniqueByPt r p.pt with
            | some l => exact Or.inl ⟨l, .pt, true, rfl, by simp, .pt l h1 h2 hu h3 ((uniqueLoop_iff _ l).1 h4)⟩
            | none =>
              have n4 := (uniqueLoop_none_iff _).1 h4
              cases h5 : singleProvisional r with
              | some l => exact Or.inr (Or.inr ⟨l, rfl, .nobody h1 h2 hu h3 n4, (uniqueLoop_iff _ l).1 h5⟩)
              | none => exact Or.inr (Or.inl ⟨rfl, .nobody h1 h2 hu h3 n4⟩)
  refine ⟨?_, ?_, ?_, ?_, ?_⟩
  · intro l v b hs hv
    rcases key with ⟨l', v', b', hs', _, hsel⟩ | ⟨hn, _⟩ | ⟨l', hs', _⟩
    · rw [hs] at hs'; cases hs'; exact hsel
    · rw [hs] at hn; cases hn
    · rw [hs] at hs'; cases hs'; exact absurd rfl hv
  · intro hn
    rcases key with ⟨l', v', b', hs', _, _⟩ | ⟨_, hsel⟩ | ⟨l', hs', _⟩
    · rw [hn] at hs'; cases hs'
    · exact hsel
    · rw [hn] at hs'; cases hs'
  · intro l b hs
    rcases key with ⟨l', v', b', hs', hv', _⟩ | ⟨hn, _⟩ | ⟨l', hs', h1, h2⟩
    · rw [hs] at hs'; cases hs'; exact absurd rfl hv'
    · rw [hs] at hn; cases hn
    · rw [hs] at hs'; cases hs'; exact ⟨h1, h2⟩
  · intro a a' ha ha'
    cases ha <;> cases ha' <;> (try rfl) <;> (try (exfalso; first
      | (rename_i h _; exact absurd (midUnknown_midCand r p ‹MidUnknown r p›) (by simp_all))
      | (exact absurd ‹MidUnknown r p› (by assumption)))) <;> simp_all
    all_goals exact uniqueOwner_unique _ _ _ (by assumption) (by assumption)
  · intro l v b h
    unfold select at h
    split at h
    · simp at h; obtain ⟨_, rfl, rfl⟩ := h; simp
    · split at h
      · simp at h; obtain ⟨_, rfl, rfl⟩ := h; simp
      · split at h
        · simp at h
        · split at h
          · simp at h; obtain ⟨_, rfl, rfl⟩ := h; simp
          · split at h
            · simp at h; obtain ⟨_, rfl, rfl⟩ := h; simp
            · split at h
              · simp at h; obtain ⟨_, rfl, rfl⟩ := h; simp
              · simp at h

/-- the registration shape `peer_connection.rs` produces (every receiver registers provisional + MID +
payload types on ONE channel): section "0" = listener 0 {provisional, MID "0", PTs 96 97}, section
"1" = listener 1 {MID "1", PTs 97 98} whose provisional registration has not happened (or was pruned) -/
def regQ : Reg :=
  run Reg.empty [.setMidExt 3, .regProv 0, .regMid [0x30] 0, .regPts [96, 97] 0, .regMid [0x31] 1, .regPts [97, 98] 1]
/-- a packet without MID, unknown SSRC, payload type 97 — claimed by BOTH sections -/
def pktQ : Pkt := { ssrc := 7, pt := 97, ext := none }

/-- witness (`demux:ambiguous-pt-falls-to-provisional`): a packet whose payload type is ambiguous
between two media sections is not dropped; the provisional fallback hands it to section "0"'s
receiver although nothing identifies that section. -/
theorem provisional_fallback_crosses_sections_witness :
    (∃ l', ¬ UniqueOwner (ptRoutes regQ pktQ.pt) l') ∧ (¬ ∃ l', UniqueOwner (ptRoutes regQ pktQ.pt) l') ∧
    (receive regQ pktQ).2 = .delivered 0 .prov ∧
    (regQ.routes.find? (fun rt => rt.lid = 0)).bind (·.mid) = some [0x30] ∧
    (ptRoutes regQ pktQ.pt).map (·.lid) = [0, 1] := by
  refine ⟨⟨0, ?_⟩, ?_, by decide, by decide, by decide⟩
  · intro h; have := h.2 { mid := some [0x31], pts := [97, 98], lid := 1, provisional := false } (by decide)
    revert this; decide
  · rintro ⟨l, h⟩
    have h0 : (0 : Nat) = l := h.2 { mid := some [0x30], pts := [96, 97], lid := 0, provisional := true } (by decide)
    have h1 : (1 : Nat) = l := h.2 { mid := some [0x31], pts := [97, 98], lid := 1, provisional := false } (by decide)
    omega

/-! ### MID packets and media sections -/

/-- the media section a listener belongs to, as far as the transport knows: the MID recorded on its route -/
def sectionOf (r : Reg) (l : Lid) : Option Bytes := (r.routes.find? (fun rt => rt.lid = l)).bind (·.mid)

/-- FULL STATEMENT (does NOT hold for the current code — see the two witnesses below and
`known_findings.d/C19.json`): a packet whose MID header extension names media section `m` is handed
only to the listener registered for `m`, or to a listener of no section or of section `m`; never
to a receiver of another media section. -/
def MidPacketNeverCrossesSections : Prop :=
  ∀ (r : Reg) (p : Pkt) (m : Bytes) (l : Lid) (v : Via),
    extOf p r.midExt = some m → utf8Valid m = true → (receive r p).2 = .delivered l v →
    lookup m r.byMid = some l ∨ sectionOf r l = none ∨ sectionOf r l = some m

/-- section "0": listener 0 (MID "0", payload type 96); MID extension id 3 -/
def regA : Reg := run Reg.empty [.setMidExt 3, .regMid [0x30] 0, .regPts [96] 0]
/-- a packet that says MID "9" (registered by nobody) with payload type 96 -/
def pktA : Pkt := { ssrc := 7, pt := 96, ext := some { profile := 0xBEDE, data := [0x30, 0x39, 0, 0] } }

/-- **mid_packet_dropped_when_unregistered** (holds since the `fix:` commit "drop an inbound RTP packet
whose MID no receiver registered"; before it `regA`/`pktA` was a counter-example — the packet fell
through to the payload-type rule, was handed to section "0"'s receiver and bound its SSRC there):
a packet whose MID names a section nobody registered is dropped and changes nothing, unless its RID
identifies a receiver. -/
theorem mid_packet_dropped_when_unregistered (r : Reg) (p : Pkt) (m : Bytes)
    (hm : extOf p r.midExt = some m) (hu : utf8Valid m = true) (hreg : lookup m r.byMid = none)
    (hrid : stageRid r p = none) : receive r p = (r, .dropped) := by
  have h1 : stageMid r p = none := by simp [stageMid, hm, hu, hreg]
  have h2 : midMiss r p = true := by simp [midMiss, hm, hu, hreg]
  simp [receive, select, hrid, h1, h2]

example : receive regA pktA = (regA, .dropped) := by decide

/-- sections "0" (listener 0) and "1" (listener 1), each with a simulcast layer listener registered
under the same RID "h" (RIDs are only unique within a section): the later registration wins -/
def regB : Reg :=
  run Reg.empty [.setMidExt 3, .setRidExt 4, .regMid [0x30] 0, .regRid [0x68] 0, .regMid [0x31] 1, .regRid [0x68] 1]
/-- a packet of section "0", layer "h" -/
def pktB : Pkt := { ssrc := 7, pt := 96, ext := some { profile := 0xBEDE, data := [0x30, 0x30, 0x40, 0x68] } }

/-- witness (`cross:rid-overrides-mid`): RID is looked up before MID and is not scoped by MID, so
section "0"'s packet is handed to section "1"'s receiver although its MID is registered. -/
theorem mid_packet_never_crosses_sections_witness : ¬ MidPacketNeverCrossesSections := by
  intro h
  have := h regB pktB [0x30] 1 .rid (by decide) (by decide) (by decide)
  revert this; decide

/-- **mid_packet_never_crosses_sections_partial**: the part that holds, for every registry and packet.
If the packet's MID is REGISTERED (to `owner`), the packet is handed to `owner` — or, only when its
RID extension matches a registered RID, to that RID's listener — and never to a listener found by
SSRC, payload type or the provisional fallback; in particular with no RID match the packet reaches
exactly the MID's listener or (closed channel) nobody. -/
theorem mid_packet_never_crosses_sections_partial (r : Reg) (p : Pkt) (m : Bytes) (owner l : Lid) (v : Via)
    (hm : extOf p r.midExt = some m) (hu : utf8Valid m = true) (hreg : lookup m r.byMid = some owner)
    (hd : (receive r p).2 = .delivered l v) :
    (l = owner ∧ v = .mid ∧ ridCand r p = none) ∨ (v = .rid ∧ ridCand r p = some l) := by
  have hmid : stageMid r p = some owner := by simp [stageMid, hm, hu, hreg]
  have hsel : select r p = (match stageRid r p with
      | some l' => some (l', .rid, true) | none => some (owner, .mid, true)) := by
    unfold select; cases stageRid r p <;> simp [hmid]
  unfold receive at hd
  rw [hsel] at hd
  cases hr : stageRid r p with
  | some l' =>
    rw [hr] at hd
    obtain ⟨_, rfl, rfl⟩ := deliver_delivered _ _ _ _ _ _ hd
    exact Or.inr ⟨rfl, by rw [← stageRid_eq]; exact hr⟩
  | none =>
    rw [hr] at hd
    obtain ⟨_, rfl, rfl⟩ := deliver_delivered _ _ _ _ _ _ hd
    exact Or.inl ⟨rfl, rfl, by rw [← stageRid_eq]; exact hr⟩

example : extOf pktB regB.midExt = some [0x30] ∧ lookup [0x30] regB.byMid = some 0 := by decide

/-! ### route pruning -/

/-- **open_routes_never_pruned**: registering a new listener prunes only routes whose channel is closed —
the route of every open listener survives unchanged; a listener that already has a route never
triggers pruning at all; and the only route ever added is the new listener's empty one. -/
theorem open_routes_never_pruned (r : Reg) (l : Lid) :
    (∀ rt ∈ r.routes, r.isClosed rt.lid = false → rt ∈ ensureRoute r l) ∧
    ((∃ rt ∈ r.routes, rt.lid = l) → ensureRoute r l = r.routes) ∧
    (∀ rt ∈ ensureRoute r l, rt ∈ r.routes ∨ rt = { mid := none, pts := [], lid := l, provisional := false }) := by
  refine ⟨?_, ?_, ?_⟩
  · intro rt hrt hopen
    unfold ensureRoute
    split
    · exact hrt
    · simp only [List.mem_append, List.mem_filter]
      left; exact ⟨hrt, by simpa [Reg.isClosed] using hopen⟩
  · rintro ⟨rt, hrt, hl⟩
    unfold ensureRoute
    have : (r.routes.any fun rt => decide (rt.lid = l)) = true := by
      simp only [List.any_eq_true]; exact ⟨rt, hrt, by simpa using hl⟩
    simp [this]
  · intro rt hrt
    unfold ensureRoute at hrt
    split at hrt
    · exact Or.inl hrt
    · simp only [List.mem_append, List.mem_filter, List.mem_singleton] at hrt
      rcases hrt with h | h
      · exact Or.inl h.1
      · exact Or.inr h

/-! `std::str::from_utf8` acceptance is modelled strictly (é; 0xFF; overlong C0 80; surrogate ED A0 80; > U+10FFFF) -/
example : utf8Valid [0xC3, 0xA9] = true ∧ utf8Valid [0xFF] = false ∧ utf8Valid [0xC0, 0x80] = false ∧
    utf8Valid [0xED, 0xA0, 0x80] = false ∧ utf8Valid [0xF4, 0x90, 0x80, 0x80] = false ∧
    utf8Valid [0xF0, 0x9F, 0x98, 0x80] = true := by decide

/-! ### SSRC bindings -/

/-- **binding_only_from_routed** (one packet): after `receive`, every entry of the SSRC map either was
there before, or binds THIS packet's SSRC to the listener the packet was routed to by RID, MID or
unambiguous payload type.  A packet routed by SSRC or by the provisional fallback, or not routed at
all, teaches nothing; no packet ever binds another SSRC or another listener. -/
theorem binding_only_from_routed (r : Reg) (p : Pkt) (s : Nat) (l : Lid)
    (h : (s, l) ∈ (receive r p).1.bySsrc) :
    (s, l) ∈ r.bySsrc ∨ (s = p.ssrc ∧ ∃ v, select r p = some (l, v, true) ∧ (v = .rid ∨ v = .mid ∨ v = .pt)) := by
  unfold receive at h
  split at h
  · exact Or.inl h
  · rename_i l0 v0 b0 hs
    have hb := (selection_is_priority_spec_partial r p).2.2.2.2 l0 v0 b0 hs
    rcases afterSelect_mem _ _ _ _ _ (deliver_mem _ _ _ _ _ h) with h1 | ⟨hb1, he⟩
    · exact Or.inl h1
    · right
      simp at he; obtain ⟨rfl, rfl⟩ := he
      subst hb1
      exact ⟨rfl, v0, hs, by simpa using hb⟩

/-- how an SSRC binding present after a sequence of operations is explained by that sequence -/
def Explained (r0 : Reg) (ops : List Op) (s : Nat) (l : Lid) : Prop :=
  (s, l) ∈ r0.bySsrc ∨ Op.regSsrc s l ∈ ops ∨
  ∃ pre p post v, ops = pre ++ Op.pkt p :: post ∧ p.ssrc = s ∧
    select (run r0 pre) p = some (l, v, true) ∧ (v = .rid ∨ v = .mid ∨ v = .pt)

/-- one operation: a binding present afterwards was there before, or is this explicit registration,
or was learnt from this packet -/
theorem binding_step (r : Reg) (o : Op) (s : Nat) (l : Lid) (h : (s, l) ∈ (step r o).1.bySsrc) :
    (s, l) ∈ r.bySsrc ∨ o = .regSsrc s l ∨
    ∃ p v, o = .pkt p ∧ p.ssrc = s ∧ select r p = some (l, v, true) ∧ (v = .rid ∨ v = .mid ∨ v = .pt) := by
  cases o with
  | regSsrc s' l' =>
    simp only [step, bindSsrc] at h
    rcases mem_insert _ _ _ _ h with he | he
    · simp at he; obtain ⟨rfl, rfl⟩ := he; exact Or.inr (Or.inl rfl)
    · exact Or.inl (mem_retainOpen _ _ _ he)
  | regRid k l' => exact Or.inl (by simpa [step, regRid] using h)
  | regMid k l' => exact Or.inl (by simpa [step, regMid, withRoute] using h)
  | regPts ps l' => exact Or.inl (by simpa [step, regPts, withRoute] using h)
  | regPt q l' => exact Or.inl (by simpa [step, regPt, withRoute] using h)
  | regProv l' => exact Or.inl (by simpa [step, regProv, withRoute] using h)
  | closeL l' => exact Or.inl (by simpa [step] using h)
  | setRidExt i => exact Or.inl (by simpa [step] using h)
  | setMidExt i => exact Or.inl (by simpa [step] using h)
  | clear => simp [step, clearListeners] at h
  | pkt p =>
    simp only [step] at h
    rcases binding_only_from_routed r p s l h with h1 | ⟨rfl, v, hs, hv⟩
    · exact Or.inl h1
    · exact Or.inr (Or.inr ⟨p, v, rfl, rfl, hs, hv⟩)

/-- **binding_only_from_routed_run**: for every (unbounded) sequence of registrations, closures,
clears and packets, every SSRC binding in the final registry was there initially, was registered
explicitly (`register_listener_sync`), or was learnt from a packet of exactly that SSRC that was
routed to exactly that listener by RID, MID or unambiguous payload type at that moment. -/
theorem binding_only_from_routed_run (r0 : Reg) (ops : List Op) (s : Nat) (l : Lid)
    (h : (s, l) ∈ (run r0 ops).bySsrc) : Explained r0 ops s l := by
  induction ops generalizing r0 with
  | nil => exact Or.inl h
  | cons o os ih =>
    simp only [run] at h
    rcases ih _ h with h1 | h1 | ⟨pre, p, post, v, he, h2, h3, h4⟩
    · rcases binding_step r0 o s l h1 with h0 | rfl | ⟨p, v, rfl, h2, h3, h4⟩
      · exact Or.inl h0
      · exact Or.inr (Or.inl (by simp))
      · exact Or.inr (Or.inr ⟨[], p, os, v, rfl, h2, h3, h4⟩)
    · exact Or.inr (Or.inl (by simp [h1]))
    · exact Or.inr (Or.inr ⟨o :: pre, p, post, v, by simp [he], h2, by simpa [run] using h3, h4⟩)

/-- a listener whose channel turns out to be closed is removed from every map and from the routes,
together with the SSRC entry of the packet that found it -/
theorem closed_listener_removed (r : Reg) (p : Pkt) (l : Lid) (v : Via)
    (h : (receive r p).2 = .closedOut l v) : ¬ Registered (receive r p).1 l := by
  have hrec : ∀ x, select r p = x → ¬ Registered (receive r p).1 l := by
    intro x hx
    unfold receive at h ⊢
    rw [hx] at h ⊢
    match x with
    | none => simp at h
    | some (l0, v0, b0) =>
      obtain ⟨rfl, heq⟩ := deliver_closedOut _ _ _ _ _ _ h
      show ¬ Registered (deliver (afterSelect r p.ssrc l b0) p.ssrc l v0).1 l
      rw [heq]
      rintro (⟨k, hk⟩ | ⟨k, hk⟩ | ⟨k, hk⟩ | ⟨rt, hrt, hl⟩)
      · exact (mem_dropLid _ _ _ hk).2 rfl
      · exact (mem_dropLid _ _ _ hk).2 rfl
      · exact (mem_dropLid _ _ _ hk).2 rfl
      · simp only [removeSender, List.mem_filter] at hrt
        exact absurd hl (by simpa using hrt.2)
  exact hrec _ rfl

end demux

/-! ## Part 2 — the rewrite bridge -/
section bridge
open RtcModel.Bridge RtcModel.Generated

/-- generated-constant obligation (what the theorems need from the regenerated thresholds, not their
exact values): the discontinuity window `(jump threshold, forward limit)` is a non-empty proper
sub-range of the forward half of `u32`, and the re-basing step is positive and itself not a
discontinuity — so a re-based stream moves forward and is continuous afterwards. -/
theorem const_bridge_thresholds :
    bridgeTsJumpThreshold < bridgeTsForwardLimit ∧ bridgeTsForwardLimit ≤ 2147483648 ∧
    0 < bridgeTsRebaseStep ∧ bridgeTsRebaseStep ≤ bridgeTsJumpThreshold := by decide

/-- sequence numbers of a source whose stream already exists count up by one from the stored counter -/
theorem seq_consecutive_known (c : Cfg) (s : UInt32) (pkts : List In) (ss : Streams) (st : Stream)
    (h : sget s ss = some st) :
    consecFrom st.nextSeq ((outsOf c s ss pkts).map (·.2.pkt.seq)) := by
  induction pkts generalizing ss st with
  | nil => simp [outsOf, consecFrom]
  | cons q rest ih =>
    obtain ⟨p, a, b⟩ := q
    by_cases hp : p.ssrc = s
    · subst hp
      have hcur := cur_of_some c ss p a b st h
      have hnext := forward_get_same c ss p a b
      rw [hcur] at hnext
      have := ih _ _ hnext
      simp only [outsOf, if_true, List.singleton_append, List.map_cons, consecFrom]
      refine ⟨by rw [forward_out_seq, hcur], ?_⟩
      simpa using this
    · simp only [outsOf, hp, if_false, List.nil_append]
      exact ih _ _ (by rw [forward_get_other c ss p a b s hp]; exact h)

/-- **bridge_seq_consecutive**: for every rule table, every option set and every interleaved arrival
sequence of any number of sources (any source sequence numbers, jumps, duplicates, reordering), the
output sequence numbers of each source stream are consecutive modulo 2^16 in arrival order,
starting at the stored counter — for a new stream: at the configured initial sequence number. -/
theorem bridge_seq_consecutive (c : Cfg) (s : UInt32) (pkts : List In) (ss : Streams) :
    consecFrom (startSeq c s ss pkts) ((outsOf c s ss pkts).map (·.2.pkt.seq)) := by
  cases h : sget s ss with
  | some st => simp only [startSeq, h]; exact seq_consecutive_known c s pkts ss st h
  | none =>
    induction pkts generalizing ss with
    | nil => simp [outsOf, consecFrom]
    | cons q rest ih =>
      obtain ⟨p, a, b⟩ := q
      by_cases hp : p.ssrc = s
      · subst hp
        have hcur : (cur c ss p a b).nextSeq = c.opts.initSeq.getD a := by simp [cur, h]
        have hnext := forward_get_same c ss p a b
        have := seq_consecutive_known c p.ssrc rest _ _ hnext
        simp only [startSeq, h, List.find?, outsOf, if_true, List.singleton_append, List.map_cons, consecFrom,
          decide_true]
        refine ⟨by rw [forward_out_seq, hcur], ?_⟩
        simpa [hcur] using this
      · have hn : sget s (forward c ss p a b).1 = none := by rw [forward_get_other c ss p a b s hp]; exact h
        have := ih _ hn
        simp only [startSeq, h, hn, List.find?, hp, decide_false, outsOf, if_false, List.nil_append] at this ⊢
        exact this

/-- **bridge_ssrc_stable**: every output packet of a source whose stream exists carries that stream's
output SSRC, whatever payload types, rules or other sources are interleaved. -/
theorem bridge_ssrc_stable_known (c : Cfg) (s : UInt32) (pkts : List In) (ss : Streams) (st : Stream)
    (h : sget s ss = some st) : ∀ io ∈ outsOf c s ss pkts, io.2.pkt.ssrc = st.outSsrc := by
  induction pkts generalizing ss st with
  | nil => simp [outsOf]
  | cons q rest ih =>
    obtain ⟨p, a, b⟩ := q
    by_cases hp : p.ssrc = s
    · subst hp
      have hcur := cur_of_some c ss p a b st h
      have hnext := forward_get_same c ss p a b
      rw [hcur] at hnext
      intro io hio
      simp only [outsOf, if_true, List.singleton_append, List.mem_cons] at hio
      rcases hio with rfl | hio
      · rw [forward_out_ssrc, hcur]
      · have := ih _ _ hnext io hio
        simpa using this
    · simp only [outsOf, hp, if_false, List.nil_append]
      exact ih _ _ (by rw [forward_get_other c ss p a b s hp]; exact h)

/-- **bridge_ssrc_pt_stable**: each source stream maps to ONE output SSRC for its whole life — any two
output packets of the same source, anywhere in any interleaving, carry the same SSRC — and the
output payload type of every packet is the one the rule table assigns to its input payload type
(`outPt`: the exact-match rule's replacement, else the catch-all's, else unchanged), independent of
history, so equal input payload types give equal output payload types. -/
theorem bridge_ssrc_pt_stable (c : Cfg) (s : UInt32) (pkts : List In) (ss : Streams) :
    (∀ io₁ ∈ outsOf c s ss pkts, ∀ io₂ ∈ outsOf c s ss pkts, io₁.2.pkt.ssrc = io₂.2.pkt.ssrc) ∧
    (∀ io ∈ outsOf c s ss pkts, io.2.pkt.pt = outPt c io.1 ∧ io.1.ssrc = s) := by
  constructor
  · cases h : sget s ss with
    | some st =>
      intro a ha b hb
      rw [bridge_ssrc_stable_known c s pkts ss st h a ha, bridge_ssrc_stable_known c s pkts ss st h b hb]
    | none =>
      induction pkts generalizing ss with
      | nil => simp [outsOf]
      | cons q rest ih =>
        obtain ⟨p, a, b⟩ := q
        by_cases hp : p.ssrc = s
        · subst hp
          have hnext := forward_get_same c ss p a b
          have hk := bridge_ssrc_stable_known c p.ssrc rest _ _ hnext
          have hfirst : (forward c ss p a b).2.pkt.ssrc = (cur c ss p a b).outSsrc := forward_out_ssrc c ss p a b
          have hall : ∀ io ∈ outsOf c p.ssrc ss ((p, a, b) :: rest), io.2.pkt.ssrc = (cur c ss p a b).outSsrc := by
            intro io hio
            simp only [outsOf, if_true, List.singleton_append, List.mem_cons] at hio
            rcases hio with rfl | hio
            · exact hfirst
            · have := hk io hio; simpa using this
          intro x hx y hy
          rw [hall x hx, hall y hy]
        · have hn : sget s (forward c ss p a b).1 = none := by rw [forward_get_other c ss p a b s hp]; exact h
          simp only [outsOf, hp, if_false, List.nil_append]
          exact ih _ hn
  · induction pkts generalizing ss with
    | nil => simp [outsOf]
    | cons q rest ih =>
      obtain ⟨p, a, b⟩ := q
      intro io hio
      simp only [outsOf, List.mem_append] at hio
      rcases hio with hio | hio
      · split at hio
        · rename_i hp
          simp at hio; subst hio
          exact ⟨forward_out_pt c ss p a b, hp⟩
        · simp at hio
      · exact ih _ io hio

/-- a new stream's output SSRC is what the rule matching its FIRST packet prescribes: the rule's
fixed SSRC, else source SSRC + the rule's offset (wrapping), else (no rule) the source SSRC. -/
theorem bridge_new_stream_ssrc (c : Cfg) (ss : Streams) (p : Pkt) (a : UInt16) (b : UInt32)
    (h : sget p.ssrc ss = none) : (forward c ss p a b).2.pkt.ssrc = newOutSsrc c p := by
  rw [forward_out_ssrc]; simp [cur, h]

/-- **bridge_ts_delta_preserved**: take any in-order packet `p1` of a source and the NEXT packet `p2`
of that source, with arbitrarily many packets of other sources in between.  Unless `p2` jumps
forward by more than the discontinuity threshold (900 000 < Δ < 2^31), the output timestamps differ
by exactly the source timestamp difference (mod 2^32) — this includes repeats (Δ = 0), wraparound of
the 32-bit timestamp and late (reordered) packets; across such a discontinuity the output advances
by exactly the re-basing step (3000). -/
theorem bridge_ts_delta_preserved (c : Cfg) (ss : Streams) (p1 p2 : Pkt) (a1 a2 : UInt16) (b1 b2 : UInt32)
    (others : List In) (hsame : p2.ssrc = p1.ssrc) (hoth : ∀ q ∈ others, q.1.ssrc ≠ p1.ssrc)
    (hin : InOrder (cur c ss p1 a1 b1) p1) :
    let o1 := (forward c ss p1 a1 b1).2.pkt
    let ss2 := runAll c (forward c ss p1 a1 b1).1 others
    let o2 := (forward c ss2 p2 a2 b2).2.pkt
    (¬ (p2.ts - p1.ts < halfRange ∧ p2.ts - p1.ts > discontinuity) → o2.ts - o1.ts = p2.ts - p1.ts) ∧
    ((p2.ts - p1.ts < halfRange ∧ p2.ts - p1.ts > discontinuity) → o2.ts = o1.ts + rebaseStep) := by
  intro o1 ss2 o2
  have hlast := tsUpdate_inorder_last c.opts (cur c ss p1 a1 b1) p1 hin
  have ho1 : o1.ts = p1.ts + (tsUpdate c.opts (cur c ss p1 a1 b1) p1.ts).1.tsOff := forward_out_ts c ss p1 a1 b1
  generalize hst1 : (tsUpdate c.opts (cur c ss p1 a1 b1) p1.ts).1 = st1 at hlast ho1
  have hs1 : sget p1.ssrc (forward c ss p1 a1 b1).1 =
      some { st1 with nextSeq := (cur c ss p1 a1 b1).nextSeq + 1 } := by
    rw [forward_get_same, hst1]
  have hs2 : sget p2.ssrc ss2 = some { st1 with nextSeq := (cur c ss p1 a1 b1).nextSeq + 1 } := by
    rw [hsame]; show sget p1.ssrc (runAll c _ others) = _
    rw [runAll_get_other c p1.ssrc others hoth]; exact hs1
  have hcur2 := cur_of_some c ss2 p2 a2 b2 _ hs2
  have ho2 : o2.ts = p2.ts + (tsUpdate c.opts (cur c ss2 p2 a2 b2) p2.ts).1.tsOff := forward_out_ts c ss2 p2 a2 b2
  rw [hcur2] at ho2
  constructor
  · intro hnd
    rw [ho1, ho2]
    have hoff : (tsUpdate c.opts { st1 with nextSeq := (cur c ss p1 a1 b1).nextSeq + 1 } p2.ts).1.tsOff = st1.tsOff := by
      simp only [tsUpdate, hlast]
      by_cases hlt : p2.ts - p1.ts < halfRange
      · have : ¬ p2.ts - p1.ts > discontinuity := fun hg => hnd ⟨hlt, hg⟩
        simp [hlt, rebase, this]
      · simp [hlt]
    rw [hoff]
    grind
  · intro hd
    rw [ho1, ho2]
    have hoff : (tsUpdate c.opts { st1 with nextSeq := (cur c ss p1 a1 b1).nextSeq + 1 } p2.ts).1.tsOff
        = p1.ts + st1.tsOff + rebaseStep - p2.ts := by
      simp [tsUpdate, hlast, hd.1, rebase, hd.2]
    rw [hoff]
    grind

/-- the timestamp offset of a stream changes only on a forward jump beyond the threshold, or when the
first packet's output timestamp is pinned by `initial_output_timestamp`. -/
theorem bridge_offset_changes_only_at_discontinuity (o : Opts) (st : Stream) (t : UInt32)
    (h : (tsUpdate o st t).1.tsOff ≠ st.tsOff) :
    (∃ last, st.lastSrcTs = some last ∧ t - last < halfRange ∧ t - last > discontinuity) ∨
    (st.lastSrcTs = none ∧ o.initOutTs.isSome) := by
  unfold tsUpdate at h
  split at h
  · rename_i last hl
    left
    refine ⟨last, hl, ?_⟩
    by_cases hlt : t - last < halfRange
    · by_cases hg : t - last > discontinuity
      · exact ⟨hlt, hg⟩
      · simp [hlt, rebase, hg] at h
    · simp [hlt] at h
  · rename_i hl
    right
    split at h
    · rename_i w hw; exact ⟨hl, by simp [hw]⟩
    · simp at h

/-- **bridge_sources_independent** (frame property): what the bridge outputs for the packets of one
source — SSRC, payload type, sequence numbers, timestamps, marker, extension, target — is the same
whether or not packets of any other sources are interleaved with them, as long as the source's own
entry in the stream table is the same at the start. -/
theorem bridge_sources_independent (c : Cfg) (s : UInt32) (pkts : List In) (ss ss' : Streams)
    (h : sget s ss = sget s ss') :
    outsOf c s ss pkts = outsOf c s ss' (pkts.filter (fun q => q.1.ssrc = s)) := by
  induction pkts generalizing ss ss' with
  | nil => simp [outsOf]
  | cons q rest ih =>
    obtain ⟨p, a, b⟩ := q
    by_cases hp : p.ssrc = s
    · subst hp
      obtain ⟨ho, hs⟩ := forward_congr c ss ss' p a b h
      simp only [List.filter, decide_true, outsOf, if_true, ho]
      rw [ih _ _ hs]
    · simp only [List.filter, hp, decide_false, outsOf, if_false, List.nil_append]
      exact ih _ _ (by rw [forward_get_other c ss p a b s hp]; exact h)

/-- a packet never changes another source's stream state (the lemma behind independence) -/
theorem bridge_state_frame (c : Cfg) (ss : Streams) (p : Pkt) (a : UInt16) (b : UInt32) (s : UInt32)
    (h : p.ssrc ≠ s) : sget s (forward c ss p a b).1 = sget s ss := forward_get_other c ss p a b s h

/-- the target is chosen from the ORIGINAL payload type, before any rewrite -/
theorem bridge_target_from_original_pt (c : Cfg) (ss : Streams) (p : Pkt) (a : UInt16) (b : UInt32) :
    (forward c ss p a b).2.video = (c.videoPts.contains p.pt && c.hasVideo) := by
  simp [forward, targetFor]

/-- **bridge_stamps_mid**: a packet that arrives without a header-extension block and is rewritten by
a rule carrying an SDES-MID (extension id 1..14, MID of 1..16 bytes; extensions not stripped) leaves
with exactly the one-element block `stamped id mid`. -/
theorem bridge_stamps_mid (c : Cfg) (ss : Streams) (p : Pkt) (a : UInt16) (b : UInt32) (r : Rule)
    (id : UInt8) (mid : Demux.Bytes) (hstrip : c.opts.strip = false) (hext : p.ext = none)
    (hr : ruleFor c.rules p.pt = some r) (hid : r.midExtId = some id) (hmid : r.mid = some mid)
    (h1 : 1 ≤ id.toNat) (h2 : id.toNat ≤ 14) (h3 : 1 ≤ mid.length) (h4 : mid.length ≤ 16) :
    (forward c ss p a b).2.pkt.ext = some (stamped id mid) := by
  simp [forward, rewrite, stampMid, hstrip, hext, hr, hid, hmid, setExtension_none id mid h1 h2 h3 h4]

/-- **stamped_packet_routes_by_mid** (bridge output → next hop's demux): a receiver whose negotiated
MID extension id is `id` and that has the (UTF-8) MID registered to listener `l` routes the stamped
packet to `l` by MID and learns its SSRC — whatever SSRC and payload type the bridge wrote and
whatever else is registered — provided no RID rule fires first. -/
theorem stamped_packet_routes_by_mid (reg : Demux.Reg) (id : UInt8) (mid : Demux.Bytes) (l : Demux.Lid) (ssrc pt : Nat)
    (h1 : 1 ≤ id.toNat) (h2 : id.toNat ≤ 14) (h3 : 1 ≤ mid.length) (h4 : mid.length ≤ 16)
    (hext : reg.midExt = id.toNat) (hutf : Demux.utf8Valid mid = true)
    (hreg : Demux.lookup mid reg.byMid = some l)
    (hrid : Demux.stageRid reg { ssrc, pt, ext := some (stamped id mid) } = none) :
    Demux.select reg { ssrc, pt, ext := some (stamped id mid) } = some (l, .mid, true) := by
  have hne : id.toNat ≠ 0 := by omega
  have hm : Demux.stageMid reg { ssrc, pt, ext := some (stamped id mid) } = some l := by
    simp [Demux.stageMid, Demux.extOf, hext, hne, get_stamped id mid h1 h2 h3 h4, hutf, hreg]
  simp [Demux.select, hrid, hm]

def demoCfg : Cfg :=
  { rules := [ { matchPt := none, fixedOutSsrc := none, ssrcOffset := 1000, outPt := some 8, midExtId := none, mid := none },
               { matchPt := some 101, fixedOutSsrc := some 5000, ssrcOffset := 0, outPt := some 102, midExtId := none, mid := none } ],
    opts := { strip := false, initSeq := some 65534, initTsOff := some 0, initOutTs := none },
    videoPts := [97], hasVideo := true }
def mk (ssrc : UInt32) (pt : UInt8) (ts : UInt32) : In := ({ ssrc, pt, seq := 1, ts, marker := false, ext := none }, 0, 0)


/-- **bridge_ts_tracks_offset**: EVERY output timestamp — of in-order, late and first packets alike —
is the source timestamp plus the stream's offset as it stands after the packet; and for a packet
that is not a forward discontinuity (and not a pinned first packet) that offset is the one the
stream had before.  With `bridge_offset_changes_only_at_discontinuity` this gives: any two packets
of a source between which no discontinuity (or pin) occurred — adjacent or not, whichever of them
is late — have output timestamps differing by exactly their source difference. -/
theorem bridge_ts_tracks_offset (c : Cfg) (ss : Streams) (p : Pkt) (a : UInt16) (b : UInt32) :
    (forward c ss p a b).2.pkt.ts = p.ts + (tsUpdate c.opts (cur c ss p a b) p.ts).1.tsOff ∧
    (∀ st, sget p.ssrc (forward c ss p a b).1 = some st →
      st.tsOff = (tsUpdate c.opts (cur c ss p a b) p.ts).1.tsOff) ∧
    (∀ p2 a2 b2 st, sget p.ssrc (forward c ss p a b).1 = some st →
      (tsUpdate c.opts st p2.ts).1.tsOff = st.tsOff → p2.ssrc = p.ssrc →
      (forward c (forward c ss p a b).1 p2 a2 b2).2.pkt.ts - (forward c ss p a b).2.pkt.ts = p2.ts - p.ts) := by
  refine ⟨forward_out_ts c ss p a b, ?_, ?_⟩
  · intro st hst
    rw [forward_get_same] at hst
    cases hst; rfl
  · intro p2 a2 b2 st hst hoff hs
    have hcur := cur_of_some c (forward c ss p a b).1 p2 a2 b2 st (by rw [hs]; exact hst)
    rw [forward_out_ts, forward_out_ts, hcur, hoff]
    rw [forward_get_same] at hst
    cases hst
    simp only
    grind

/-! ### output SSRC and the rule table -/

/-- READING of "one stable output SSRC and payload type per rule": stability is what the property
asks and `bridge_ssrc_pt_stable` proves more (one SSRC per SOURCE, hence per (source, rule)).  What
does NOT hold is that a packet carries the SSRC its OWN rule configures: the stream state is keyed
by source SSRC only, so the rule matching the stream's FIRST packet decides for all later packets
(`rtp.rs` rule doc: "audio, video and DTMF each get their own destination SSRC"). -/
def RuleSsrcHonoured : Prop :=
  ∀ (c : Cfg) (ss : Streams) (p : Pkt) (a : UInt16) (b : UInt32) (r : Rule) (x : UInt32),
    ruleFor c.rules p.pt = some r → r.fixedOutSsrc = some x → (forward c ss p a b).2.pkt.ssrc = x

/-- witness: after a payload-type-0 packet created the stream (catch-all rule: source + 1000), a
payload-type-101 packet of the same source, whose own rule says `fixed_out_ssrc = 5000`, leaves with
SSRC 1100. -/
theorem bridge_rule_ssrc_not_honoured_witness : ¬ RuleSsrcHonoured := by
  intro h
  have := h demoCfg (forward demoCfg [] (mk 100 0 160).1 0 0).1 (mk 100 101 480).1 0 0
    { matchPt := some 101, fixedOutSsrc := some 5000, ssrcOffset := 0, outPt := some 102, midExtId := none, mid := none }
    5000 (by decide) rfl
  revert this; decide

/-- the part that holds: the FIRST packet of a stream carries its own rule's SSRC
(`bridge_new_stream_ssrc`), and with the legacy single-parameter API every rule carries the same
SSRC configuration, so there every packet carries its own rule's SSRC: -/
theorem legacy_rules_share_ssrc (p : Params) :
    ∀ r ∈ fromParams p, r.fixedOutSsrc = p.fixedOutSsrc ∧ r.ssrcOffset = p.ssrcOffset := by
  intro r hr
  unfold fromParams at hr
  cases hd : p.dtmf with
  | none => rw [hd] at hr; simp at hr; subst hr; exact ⟨rfl, rfl⟩
  | some sd =>
    rw [hd] at hr; simp at hr
    rcases hr with rfl | rfl <;> exact ⟨rfl, rfl⟩

/-- **bridge_legacy_ssrc_per_rule**: a bridge installed through `bridge_rewrite_to(params)` writes, on
the first packet of every stream, `fixed_out_ssrc` or else `source + ssrc_offset` whatever the payload
type — DTMF and audio share one output SSRC, as the legacy behaviour promises; the DTMF rule only
remaps the payload type. -/
theorem bridge_legacy_ssrc_per_rule (pr : Params) (p : Pkt) :
    newOutSsrc (cfgOfParams pr) p = pr.fixedOutSsrc.getD (p.ssrc + pr.ssrcOffset) ∧
    outPt (cfgOfParams pr) p =
      (match pr.dtmf with
       | some (s, d) => if p.pt = s then d else pr.payloadType.getD p.pt
       | none => pr.payloadType.getD p.pt) := by
  unfold newOutSsrc outPt cfgOfParams fromParams ruleFor
  cases hd : pr.dtmf with
  | none => simp [Rule.catchAll]
  | some sd =>
    obtain ⟨s, d⟩ := sd
    by_cases hp : p.pt = s
    · subst hp; simp [Rule.catchAll, Rule.dtmf]
    · have : ¬ s = p.pt := fun e => hp e.symm
      simp [Rule.catchAll, Rule.dtmf, hp, this]

/-! ### what reaches the socket when pushes are refused -/

/-- **bridge_wire_seq_subsequence** ("consecutive at the target's socket" stated exactly): the bridge
consumes a sequence number for every packet it rewrites, also for one whose push it then refuses
(mandatory target without keys, protect error, socket full).  What reaches the socket is therefore a
SUBSEQUENCE of the consecutive run of `bridge_seq_consecutive` — gaps appear exactly at refused
packets and nowhere else; with nothing refused the two coincide. -/
theorem bridge_wire_seq_subsequence (c : Cfg) (s : UInt32) (xs : List (In × Bool)) (ss : Streams) :
    List.Sublist (wireOf c s ss xs) (outsOf c s ss (xs.map (·.1))) ∧
    ((∀ x ∈ xs, x.2 = true) → wireOf c s ss xs = outsOf c s ss (xs.map (·.1))) := by
  induction xs generalizing ss with
  | nil => simp [wireOf, outsOf]
  | cons x rest ih =>
    obtain ⟨⟨p, a, b⟩, sent⟩ := x
    obtain ⟨ih1, ih2⟩ := ih (forward c ss p a b).1
    constructor
    · simp only [wireOf, outsOf, List.map_cons]
      by_cases hp : p.ssrc = s
      · cases sent
        · simp only [hp, if_true, Bool.false_eq_true, and_false, if_false, List.nil_append, List.singleton_append]
          exact List.Sublist.cons _ ih1
        · simp only [hp, and_self, if_true, List.singleton_append]
          exact List.Sublist.cons_cons _ ih1
      · simp only [hp, false_and, if_false, List.nil_append]; exact ih1
    · intro hall
      have hs : sent = true := hall ((p, a, b), sent) (by simp)
      subst hs
      simp only [wireOf, outsOf, List.map_cons]
      rw [ih2 (fun x hx => hall x (by simp [hx]))]
      by_cases hp : p.ssrc = s <;> simp [hp]

/-! non-vacuity: a DTMF-remapping table, two interleaved sources, a wrap of the sequence number and a
timestamp discontinuity -/
example :
    (forwardAll demoCfg [] [mk 100 0 160, mk 200 0 7, mk 100 0 320, mk 100 101 480]).map
      (fun o => (o.pkt.ssrc, o.pkt.pt, o.pkt.seq, o.pkt.ts)) =
    [(1100, 8, 65534, 160), (1200, 8, 65534, 7), (1100, 8, 65535, 320), (1100, 102, 0, 480)] := by
  decide

example : InOrder (cur demoCfg [] (mk 100 0 160).1 0 0) (mk 100 0 160).1 := by simp [InOrder, cur, sget]

end bridge

end RtcModel.Theorems.C19
