/-
C05 — forged SRTP/SRTCP is rejected and a rejection never disturbs receiver state.
Property theorems only; helper lemmas live in `RtcModel/Lemmas/Srtp*.lean`.

Cryptographic strength is not (and cannot be) proved here: the theorems reduce "a packet that
differs from every genuine one was accepted" to an explicit primitive-level event — a valid
(truncated) MAC on a message the key holder never authenticated, resp. an AEAD opening of a
(nonce, AAD, ciphertext) triple the key holder never sealed — for ANY suite; no axiom.
-/
import RtcModel.Srtp
import RtcModel.Lemmas.SrtpSess
import RtcModel.Lemmas.SrtpTable
import RtcModel.Lemmas.SrtpToy

namespace RtcModel.Theorems.C05
open RtcModel.Srtp RtcModel.C04 RtcModel.Generated

/-- generated-constant obligation: the table rule the eviction scenarios are built around, and the
minimum lengths the session checks before it reads the SSRC of an RTCP packet -/
theorem const_eviction_rule :
    ssrcContextHighWatermark = 32 ∧ ssrcInactivityEvictSecs = 60 ∧ srtcpMinLen = 14 ∧ rtcpMinLen = 8 := by decide

/-! ### Acceptance is exactly "the tag is the MAC of everything else" -/

/-- **accept_iff_tag** (HMAC profiles, RTP): `unprotect` accepts iff the packet is long enough, its
last `tag_len` bytes equal the truncated HMAC over `header ‖ ciphertext ‖ estimated ROC`, and the
decrypted padding is consistent. Nothing else is consulted. -/
theorem accept_iff_tag (S : Suite) (c : Ctx) (h : Hdr) (p : Bool) (body : Bytes) (hg : c.profile ≠ .gcm) :
    (∃ pkt, (c.unprotectRtp S h p body).1 = .ok pkt) ↔
      c.profile.tagLen ≤ body.length ∧
      body.drop (splitAt c body) =
        rtpTag S c (writeHdr h p) (body.take (splitAt c body)) (c.estimate h.seq) ∧
      ∃ r, stripPadding p (cmBody S c h.seq (c.estimate h.seq) (body.take (splitAt c body))) = .ok r := by
  have ho := openRtp_hmac S c (writeHdr h p) body h.seq (c.estimate h.seq) hg
  rcases unprotectRtp_cases S c h p body with ⟨h0, hr⟩ | ⟨h0, e, he, hr⟩ | ⟨h0, pt, e, hpt, hs, hr⟩ |
    ⟨h0, pt, pl, pd, hpt, hs, hr⟩
  · rw [hr]; constructor
    · rintro ⟨_, hx⟩; simp at hx
    · rintro ⟨hx, _⟩; omega
  · rw [hr]; constructor
    · rintro ⟨_, hx⟩; simp at hx
    · rintro ⟨_, ht, _⟩
      rw [ho, if_neg (by simp [ht])] at he; simp at he
  · rw [hr]; constructor
    · rintro ⟨_, hx⟩; simp at hx
    · rintro ⟨_, ht, r, hr'⟩
      rw [ho, if_neg (by simp [ht])] at hpt
      simp only [Except.ok.injEq] at hpt
      rw [hpt, hs] at hr'; simp at hr'
  · rw [hr]
    refine ⟨fun _ => ⟨by omega, ?_, ?_⟩, fun _ => ⟨_, rfl⟩⟩
    · by_cases ht : body.drop (splitAt c body) = rtpTag S c (writeHdr h p) (body.take (splitAt c body)) (c.estimate h.seq)
      · exact ht
      · rw [ho, if_pos ht] at hpt; simp at hpt
    · by_cases ht : body.drop (splitAt c body) = rtpTag S c (writeHdr h p) (body.take (splitAt c body)) (c.estimate h.seq)
      · rw [ho, if_neg (by simp [ht])] at hpt
        simp only [Except.ok.injEq] at hpt
        exact ⟨(pl, pd), by rw [hpt, hs]⟩
      · rw [ho, if_pos ht] at hpt; simp at hpt

/-- **accept_iff_tag** (AEAD profile, RTP): accepts iff AEAD-open of `ciphertext ‖ tag` succeeds under
the nonce built from (SSRC, estimated ROC, sequence number) with the re-marshalled header as AAD,
and the decrypted padding is consistent. -/
theorem accept_iff_open (S : Suite) (c : Ctx) (h : Hdr) (p : Bool) (body : Bytes) (hg : c.profile = .gcm) :
    (∃ pkt, (c.unprotectRtp S h p body).1 = .ok pkt) ↔
      c.profile.tagLen ≤ body.length ∧
      ∃ pt, S.aeadOpen c.rtp.ck (gcmNonce c.rtp.salt c.ssrc h.seq (c.estimate h.seq)) (writeHdr h p) body = some pt ∧
        ∃ r, stripPadding p pt = .ok r := by
  have ho := openRtp_aead S c (writeHdr h p) body h.seq (c.estimate h.seq) hg
  rcases unprotectRtp_cases S c h p body with ⟨h0, hr⟩ | ⟨h0, e, he, hr⟩ | ⟨h0, pt, e, hpt, hs, hr⟩ |
    ⟨h0, pt, pl, pd, hpt, hs, hr⟩
  · rw [hr]; constructor
    · rintro ⟨_, hx⟩; simp at hx
    · rintro ⟨hx, _⟩; omega
  · rw [hr]; constructor
    · rintro ⟨_, hx⟩; simp at hx
    · rintro ⟨_, pt, hpt, _⟩
      rw [ho, hpt] at he; simp at he
  · rw [hr]; constructor
    · rintro ⟨_, hx⟩; simp at hx
    · rintro ⟨_, pt', hpt', r, hr'⟩
      rw [ho, hpt'] at hpt
      simp only [Except.ok.injEq] at hpt
      rw [hpt, hs] at hr'; simp at hr'
  · rw [hr]
    refine ⟨fun _ => ⟨by omega, ?_⟩, fun _ => ⟨_, rfl⟩⟩
    rw [ho] at hpt
    cases hopen : S.aeadOpen c.rtp.ck (gcmNonce c.rtp.salt c.ssrc h.seq (c.estimate h.seq)) (writeHdr h p) body with
    | none => rw [hopen] at hpt; simp at hpt
    | some pt' =>
      rw [hopen] at hpt
      simp only [Except.ok.injEq] at hpt
      exact ⟨pt', rfl, (pl, pd), by rw [hpt, hs]⟩

/-! ### Every bit of the packet is authenticated or is the tag -/

/-- the authenticated part and the tag of a received SRTP packet (HMAC profiles):
`(re-marshalled header ‖ ciphertext, tag)`; for AEAD the same split reads `(AAD ‖ ciphertext, tag)` -/
def rtpCover (tagLen : Nat) (raw : Bytes) : Option (Bytes × Bytes) :=
  match parseHdr raw with
  | .ok (h, p, body) =>
    if body.length < tagLen then none
    else some (writeHdr h p ++ body.take (body.length - tagLen), body.drop (body.length - tagLen))
  | .error _ => none

/-- **coverage**: the authenticated bytes followed by the tag ARE the packet — no bit of an accepted
packet is outside both. (Uses `header_reserialise_id`: the MAC is computed over the re-marshalled
header, which is byte-identical to the received one.) -/
theorem coverage (tagLen : Nat) (raw a t : Bytes) (h : rtpCover tagLen raw = some (a, t)) : a ++ t = raw := by
  unfold rtpCover at h
  cases hp : parseHdr raw with
  | error e => rw [hp] at h; simp at h
  | ok v =>
    obtain ⟨hd, p, body⟩ := v
    rw [hp] at h
    simp only at h
    split at h
    · simp at h
    · simp only [Option.some.injEq, Prod.mk.injEq] at h
      obtain ⟨rfl, rfl⟩ := h
      rw [List.append_assoc, List.take_append_drop]
      exact parseHdr_write raw hd p body hp

/-- **coverage_injective**: the map packet ↦ (authenticated bytes, tag) is injective. -/
theorem coverage_injective (tagLen : Nat) (raw1 raw2 a t : Bytes)
    (h1 : rtpCover tagLen raw1 = some (a, t)) (h2 : rtpCover tagLen raw2 = some (a, t)) : raw1 = raw2 := by
  rw [← coverage tagLen raw1 a t h1, ← coverage tagLen raw2 a t h2]

/-! ### Forgery needs a primitive-level event -/

/-- what the key holder authenticated for one genuine RTP packet -/
structure GenuineRtp where
  hb : Bytes
  ct : Bytes
  roc : Nat

def GenuineRtp.macInput (g : GenuineRtp) : Bytes := rtpAuthInput g.hb g.ct g.roc
/-- the genuine packet on the wire (keys of context `c`) -/
def GenuineRtp.wire (S : Suite) (c : Ctx) (g : GenuineRtp) : Bytes := g.hb ++ g.ct ++ rtpTag S c g.hb g.ct g.roc

/-- EVENT: `t` is a valid `n`-byte truncated MAC under key `ak` for a message `m` that is not among
the messages `Q` the key holder authenticated. -/
def MacForged (S : Suite) (ak : Bytes) (n : Nat) (Q : List Bytes) (m t : Bytes) : Prop :=
  m ∉ Q ∧ t = (S.mac ak m).take n

/-- **forgery_needs_collision** (HMAC profiles, RTP). Let `G` be everything the key holder ever
authenticated. If the receive context accepts a packet `raw`, then either `raw` is bit-for-bit one
of the genuine packets AND the receiver decodes it under the very rollover count the sender used,
or the event `MacForged` occurred: `raw` carries a valid truncated HMAC over a message the key
holder never authenticated. No bound on which or how many bits differ. -/
theorem forgery_needs_collision (S : Suite) (c : Ctx) (raw : Bytes) (h : Hdr) (p : Bool) (body : Bytes)
    (G : List GenuineRtp) (hg : c.profile ≠ .gcm)
    (hroc : c.roc < 2 ^ 32) (hG : ∀ g ∈ G, g.roc < 2 ^ 32)
    (hparse : parseHdr raw = .ok (h, p, body))
    (hacc : ∃ pkt, (c.unprotectRtp S h p body).1 = .ok pkt) :
    (∃ g ∈ G, raw = g.wire S c ∧ g.roc = c.estimate h.seq) ∨
    MacForged S c.rtp.ak c.profile.tagLen (G.map GenuineRtp.macInput)
      (rtpAuthInput (writeHdr h p) (body.take (splitAt c body)) (c.estimate h.seq))
      (body.drop (splitAt c body)) := by
  obtain ⟨_, htag, _⟩ := (accept_iff_tag S c h p body hg).mp hacc
  by_cases hm : rtpAuthInput (writeHdr h p) (body.take (splitAt c body)) (c.estimate h.seq) ∈ G.map GenuineRtp.macInput
  · left
    obtain ⟨g, hgG, hgm⟩ := List.mem_map.mp hm
    refine ⟨g, hgG, ?_, ?_⟩
    · have hw : g.wire S c = g.hb ++ g.ct ++ body.drop (splitAt c body) := by
        simp only [GenuineRtp.wire, htag, rtpTag]
        simp only [GenuineRtp.macInput] at hgm
        rw [hgm]
      have hpre : g.hb ++ g.ct = writeHdr h p ++ body.take (splitAt c body) := by
        simp only [GenuineRtp.macInput, rtpAuthInput] at hgm
        exact (List.append_inj' hgm (by simp)).1
      rw [hw, hpre, List.append_assoc, List.take_append_drop]
      exact (parseHdr_write raw h p body hparse).symm
    · simp only [GenuineRtp.macInput, rtpAuthInput] at hgm
      have hb := (List.append_inj' hgm (by simp)).2
      exact be32_inj _ _ (by simpa using hG g hgG) (estimate_lt c h.seq (by simpa using hroc)) hb
  · right
    exact ⟨hm, by rw [htag]; rfl⟩

/-! #### … tied to what `protect` really authenticates -/

/-- the one MAC query `SrtpContext::protect` makes for packet `p` in state `c` -/
def genuineOf (S : Suite) (c : Ctx) (p : Pkt) : GenuineRtp :=
  ⟨writeHdr p.hdr (p.padLen ≠ 0), cmBody S c p.hdr.seq (c.estimate p.hdr.seq) p.body, c.estimate p.hdr.seq⟩

/-- every MAC query of a whole send history (a `protect` that fails on `validate` makes none) -/
def sentBy (S : Suite) : Ctx → List Pkt → List GenuineRtp
  | _, [] => []
  | c, p :: ps => (if validHdr p.hdr then [genuineOf S c p] else []) ++ sentBy S (c.protectRtp S p).2 ps

/-- the protected packets the history put on the wire -/
def wiresBy (S : Suite) : Ctx → List Pkt → List Bytes
  | _, [] => []
  | c, p :: ps =>
    (match (c.protectRtp S p).1 with | .ok w => [w] | .error _ => []) ++ wiresBy S (c.protectRtp S p).2 ps

private theorem protectRtp_static (S : Suite) (c : Ctx) (p : Pkt) :
    (c.protectRtp S p).2.rtp = c.rtp ∧ (c.protectRtp S p).2.profile = c.profile ∧
    ((c.protectRtp S p).2.roc = c.roc ∨ (c.protectRtp S p).2.roc = c.estimate p.hdr.seq) := by
  by_cases hv : validHdr p.hdr = true
  · rw [protectRtp_eq S c p hv]
    refine ⟨rfl, rfl, ?_⟩
    simp only [Ctx.updated, updateRoc]
    cases c.last with
    | none => right; rfl
    | some l => simp only; split
                · right; rfl
                · left; rfl
  · rw [protectRtp_invalid S c p (by simpa using hv)]; exact ⟨rfl, rfl, Or.inl rfl⟩

private theorem wire_keys (S : Suite) (a b : Ctx) (g : GenuineRtp) (hk : a.rtp = b.rtp) (hp : a.profile = b.profile) :
    g.wire S a = g.wire S b := by simp [GenuineRtp.wire, rtpTag, hk, hp]

/-- **genuine_of_protect**: on the HMAC profiles every packet `protect` emits is exactly
`header ‖ ciphertext ‖ trunc(HMAC(header ‖ ciphertext ‖ ROC))` for its one MAC query — the wires of a
send history are the `wire`s of its MAC queries, nothing else is ever authenticated. -/
theorem genuine_of_protect (S : Suite) (ps : List Pkt) (c c0 : Ctx) (hg : c.profile ≠ .gcm)
    (hk : c.rtp = c0.rtp) (hp : c.profile = c0.profile) :
    wiresBy S c ps = (sentBy S c ps).map (·.wire S c0) := by
  induction ps generalizing c with
  | nil => rfl
  | cons p ps ih =>
    obtain ⟨s1, s2, _⟩ := protectRtp_static S c p
    have ih' := ih (c.protectRtp S p).2 (by rw [s2]; exact hg) (by rw [s1]; exact hk) (by rw [s2]; exact hp)
    simp only [wiresBy, sentBy, List.map_append, ih']
    congr 1
    by_cases hv : validHdr p.hdr = true
    · rw [protectRtp_eq S c p hv]
      simp only [hv, if_true, List.map_cons, List.map_nil]
      rw [← wire_keys S c c0 _ hk hp]
      simp [genuineOf, GenuineRtp.wire, rtpWireBody, hg]
    · rw [protectRtp_invalid S c p (by simpa using hv)]
      simp [hv]

private theorem sentBy_roc_lt (S : Suite) (ps : List Pkt) (c : Ctx) (h : c.roc < 4294967296) :
    ∀ g ∈ sentBy S c ps, g.roc < 4294967296 := by
  induction ps generalizing c with
  | nil => intro g hgm; simp [sentBy] at hgm
  | cons p ps ih =>
    intro g hgm
    simp only [sentBy, List.mem_append] at hgm
    rcases hgm with hgm | hgm
    · split at hgm
      · simp only [List.mem_singleton] at hgm; subst hgm; exact estimate_lt c _ h
      · simp at hgm
    · refine ih (c.protectRtp S p).2 ?_ g hgm
      rcases (protectRtp_static S c p).2.2 with e | e <;> rw [e]
      · exact h
      · exact estimate_lt c _ h

/-- **forged_or_sent** (HMAC profiles): a sender context `cs` protects ANY history of packets; a receive
context with the same RTP auth key and profile accepts a datagram `raw`. Then `raw` is bit-for-bit one
of the packets the sender put on the wire, or `raw` carries a valid truncated HMAC over a message
that is not among the sender's MAC queries (`MacForged`) — the key holder's set is no longer a free
parameter but exactly what `SrtpContext::protect` authenticated. -/
theorem forged_or_sent (S : Suite) (cs cr : Ctx) (ps : List Pkt) (raw : Bytes) (h : Hdr) (p : Bool) (body : Bytes)
    (hg : cs.profile ≠ .gcm) (hk : cr.rtp = cs.rtp) (hp : cr.profile = cs.profile)
    (hrs : cs.roc < 2 ^ 32) (hrr : cr.roc < 2 ^ 32)
    (hparse : parseHdr raw = .ok (h, p, body))
    (hacc : ∃ pkt, (cr.unprotectRtp S h p body).1 = .ok pkt) :
    raw ∈ wiresBy S cs ps ∨
    MacForged S cr.rtp.ak cr.profile.tagLen ((sentBy S cs ps).map GenuineRtp.macInput)
      (rtpAuthInput (writeHdr h p) (body.take (splitAt cr body)) (cr.estimate h.seq))
      (body.drop (splitAt cr body)) := by
  have hg' : cr.profile ≠ .gcm := by rw [hp]; exact hg
  rcases forgery_needs_collision S cr raw h p body (sentBy S cs ps) hg' hrr
      (fun g hgm => by simpa using sentBy_roc_lt S ps cs (by simpa using hrs) g hgm) hparse hacc with
    ⟨g, hgm, hraw, _⟩ | hf
  · left
    rw [genuine_of_protect S ps cs cs hg rfl rfl, hraw, wire_keys S cr cs g hk hp]
    exact List.mem_map.mpr ⟨g, hgm, rfl⟩
  · right; exact hf

/-- **forged_or_sent_session** — the key holder is a whole DIRECTION, not one context: all transmit
contexts of a session (one per SSRC; a context re-created after an eviction counts again) share the
RTP auth key. `css` lists them with their send histories. A receive context holding that key accepts
`raw`. Then `raw` is bit-for-bit a packet one of those contexts put on the wire, decoded by the
receiver under the very rollover counter that sender used — or `raw` carries a valid truncated HMAC over a
message none of them ever authenticated. Ordinary multi-SSRC traffic no longer falls into `MacForged`. -/
theorem forged_or_sent_session (S : Suite) (css : List (Ctx × List Pkt)) (cr : Ctx)
    (raw : Bytes) (h : Hdr) (p : Bool) (body : Bytes)
    (hg : cr.profile ≠ .gcm) (hrr : cr.roc < 2 ^ 32)
    (hall : ∀ x ∈ css, x.1.profile = cr.profile ∧ x.1.rtp = cr.rtp ∧ x.1.roc < 2 ^ 32)
    (hparse : parseHdr raw = .ok (h, p, body))
    (hacc : ∃ pkt, (cr.unprotectRtp S h p body).1 = .ok pkt) :
    (∃ x ∈ css, ∃ g ∈ sentBy S x.1 x.2, raw = g.wire S x.1 ∧ raw ∈ wiresBy S x.1 x.2 ∧ g.roc = cr.estimate h.seq) ∨
    MacForged S cr.rtp.ak cr.profile.tagLen ((css.flatMap (fun x => sentBy S x.1 x.2)).map GenuineRtp.macInput)
      (rtpAuthInput (writeHdr h p) (body.take (splitAt cr body)) (cr.estimate h.seq))
      (body.drop (splitAt cr body)) := by
  have hroc : ∀ g ∈ css.flatMap (fun x => sentBy S x.1 x.2), g.roc < 2 ^ 32 := by
    intro g hgm
    obtain ⟨x, hx, hgx⟩ := List.mem_flatMap.mp hgm
    simpa using sentBy_roc_lt S x.2 x.1 (by simpa using (hall x hx).2.2) g hgx
  rcases forgery_needs_collision S cr raw h p body _ hg hrr hroc hparse hacc with ⟨g, hgm, hraw, hgroc⟩ | hf
  · left
    obtain ⟨x, hx, hgx⟩ := List.mem_flatMap.mp hgm
    obtain ⟨hp, hk, _⟩ := hall x hx
    have hw : g.wire S cr = g.wire S x.1 := wire_keys S cr x.1 g hk.symm hp.symm
    refine ⟨x, hx, g, hgx, by rw [hraw, hw], ?_, hgroc⟩
    rw [genuine_of_protect S x.2 x.1 x.1 (by rw [hp]; exact hg) rfl rfl, hraw, hw]
    exact List.mem_map.mpr ⟨g, hgx, rfl⟩
  · right; exact hf

/-- EVENT: AEAD-open succeeded on a `(nonce, AAD, ciphertext‖tag)` triple that is not among the triples
`Q` the key holder produced with `seal`. -/
def AeadForged (S : Suite) (k : Bytes) (Q : List (Bytes × Bytes × Bytes)) (nonce aad c : Bytes) : Prop :=
  (nonce, aad, c) ∉ Q ∧ (S.aeadOpen k nonce aad c).isSome = true

/-- **forgery_needs_collision** (AEAD profile, RTP): an accepted packet is either byte-identical to
`AAD ‖ sealed output` of a triple the key holder sealed under the very nonce (SSRC, ROC, sequence
number) the receiver derived, or an AEAD forgery event occurred. -/
theorem forgery_needs_aead_forgery (S : Suite) (c : Ctx) (raw : Bytes) (h : Hdr) (p : Bool) (body : Bytes)
    (Q : List (Bytes × Bytes × Bytes)) (hg : c.profile = .gcm)
    (hparse : parseHdr raw = .ok (h, p, body))
    (hacc : ∃ pkt, (c.unprotectRtp S h p body).1 = .ok pkt) :
    (∃ q ∈ Q, q.1 = gcmNonce c.rtp.salt c.ssrc h.seq (c.estimate h.seq) ∧ raw = q.2.1 ++ q.2.2) ∨
    AeadForged S c.rtp.ck Q (gcmNonce c.rtp.salt c.ssrc h.seq (c.estimate h.seq)) (writeHdr h p) body := by
  obtain ⟨_, pt, hopen, _⟩ := (accept_iff_open S c h p body hg).mp hacc
  by_cases hm : (gcmNonce c.rtp.salt c.ssrc h.seq (c.estimate h.seq), writeHdr h p, body) ∈ Q
  · left; exact ⟨_, hm, rfl, (parseHdr_write raw h p body hparse).symm⟩
  · right; exact ⟨hm, by rw [hopen]; rfl⟩

/-- **forgery_needs_collision** (HMAC profiles, RTCP): an accepted SRTCP packet is one of the
byte strings `m ‖ tag(m)` the key holder produced, or carries a forged MAC. -/
theorem forgery_needs_collision_rtcp (S : Suite) (c : Ctx) (pkt out : Bytes) (Q : List Bytes)
    (hg : c.profile ≠ .gcm) (hacc : (c.unprotectRtcp S pkt).1 = .ok out) :
    (∃ m ∈ Q, pkt = m ++ rtcpTag S c m) ∨
    MacForged S c.rtcp.ak c.profile.rtcpTagLen Q (pkt.take (pkt.length - c.profile.rtcpTagLen))
      (pkt.drop (pkt.length - c.profile.rtcpTagLen)) := by
  have htag := unprotectRtcp_ok_tag S c pkt out hg hacc
  by_cases hm : pkt.take (pkt.length - c.profile.rtcpTagLen) ∈ Q
  · left; refine ⟨_, hm, ?_⟩; rw [← htag, List.take_append_drop]
  · right; exact ⟨hm, by rw [htag]; rfl⟩

/-- the one MAC query `protect_rtcp` makes: (possibly encrypted) packet ‖ `E‖index` -/
def rtcpQueryOf (S : Suite) (c : Ctx) (pkt : Bytes) : Bytes :=
  (if pkt.length > 8 ∧ c.encrypts then rtcpCipher S c ((c.rtcpIndex + 1) % 4294967296) pkt else pkt) ++
    be32 (c.eWord ((c.rtcpIndex + 1) % 4294967296))

def rtcpSentBy (S : Suite) : Ctx → List Bytes → List Bytes
  | _, [] => []
  | c, pkt :: ps => rtcpQueryOf S c pkt :: rtcpSentBy S (c.protectRtcp S pkt).2 ps

def rtcpWiresBy (S : Suite) : Ctx → List Bytes → List Bytes
  | _, [] => []
  | c, pkt :: ps =>
    (match (c.protectRtcp S pkt).1 with | .ok w => [w] | .error _ => []) ++ rtcpWiresBy S (c.protectRtcp S pkt).2 ps

/-- **genuine_of_protect** (RTCP, HMAC profiles): the wires of an SRTCP send history are exactly
`m ‖ trunc(HMAC(m))` for its MAC queries `m` -/
theorem genuine_of_protect_rtcp (S : Suite) (ps : List Bytes) (c c0 : Ctx) (hg : c.profile ≠ .gcm)
    (hk : c.rtcp = c0.rtcp) (hp : c.profile = c0.profile) :
    rtcpWiresBy S c ps = (rtcpSentBy S c ps).map (fun m => m ++ rtcpTag S c0 m) := by
  induction ps generalizing c with
  | nil => rfl
  | cons pkt ps ih =>
    have ih' := ih (c.protectRtcp S pkt).2 (by rw [protectRtcp_eq]; exact hg) (by rw [protectRtcp_eq]; exact hk)
      (by rw [protectRtcp_eq]; exact hp)
    simp only [rtcpWiresBy, rtcpSentBy, List.map_cons, ih']
    rw [protectRtcp_eq]
    have ht : ∀ m, rtcpTag S c m = rtcpTag S c0 m := by intro m; simp [rtcpTag, hk, hp]
    simp [rtcpWire, hg, rtcpQueryOf, ht]

/-- **forged_or_sent** (RTCP, HMAC profiles) -/
theorem forged_or_sent_rtcp (S : Suite) (cs cr : Ctx) (ps : List Bytes) (pkt out : Bytes)
    (hg : cs.profile ≠ .gcm) (hk : cr.rtcp = cs.rtcp) (hp : cr.profile = cs.profile)
    (hacc : (cr.unprotectRtcp S pkt).1 = .ok out) :
    pkt ∈ rtcpWiresBy S cs ps ∨
    MacForged S cr.rtcp.ak cr.profile.rtcpTagLen (rtcpSentBy S cs ps)
      (pkt.take (pkt.length - cr.profile.rtcpTagLen)) (pkt.drop (pkt.length - cr.profile.rtcpTagLen)) := by
  have hg' : cr.profile ≠ .gcm := by rw [hp]; exact hg
  rcases forgery_needs_collision_rtcp S cr pkt out (rtcpSentBy S cs ps) hg' hacc with ⟨m, hm, hpkt⟩ | hf
  · left
    rw [genuine_of_protect_rtcp S ps cs cs hg rfl rfl, hpkt]
    have ht : rtcpTag S cr m = rtcpTag S cs m := by simp [rtcpTag, hk, hp]
    rw [ht]
    exact List.mem_map.mpr ⟨m, hm, rfl⟩
  · right; exact hf

/-- **forgery_needs_collision** (AEAD, RTCP) -/
theorem forgery_needs_aead_forgery_rtcp (S : Suite) (c : Ctx) (pkt out : Bytes)
    (Q : List (Bytes × Bytes × Bytes)) (hg : c.profile = .gcm) (hlen : 12 ≤ pkt.length)
    (hacc : (c.unprotectRtcp S pkt).1 = .ok out) :
    let nonce := gcmRtcpNonce c.rtcp.salt c.ssrc (last4 pkt % (srtcpIndexMask + 1))
    let aad := pkt.take 8 ++ be32 (last4 pkt)
    let ct := (pkt.take (pkt.length - 4)).drop 8
    (∃ q ∈ Q, q = (nonce, aad, ct) ∧ pkt = pkt.take 8 ++ q.2.2 ++ pkt.drop (pkt.length - 4)) ∨
    AeadForged S c.rtcp.ck Q nonce aad ct := by
  intro nonce aad ct
  have hopen : (S.aeadOpen c.rtcp.ck nonce aad ct).isSome = true := unprotectRtcp_ok_open S c pkt out hg hacc
  by_cases hm : (nonce, aad, ct) ∈ Q
  · left; exact ⟨_, hm, rfl, (rtcp_aead_split pkt hlen).symm⟩
  · right; exact ⟨hm, hopen⟩

/-! ### A rejection never disturbs the receiver -/

/-- **reject_preserves_state** (RTP, raw form — holds exactly): if `SrtpSession::unprotect_rtp`
returns an error, the session is unchanged: no context created, no rollover counter, highest
sequence number, SRTCP index or last-use time modified, no eviction run. -/
theorem reject_preserves_state (S : Suite) (s : Sess) (now : Nat) (h : Hdr) (p : Bool) (body : Bytes) (e : Err)
    (he : (s.unprotectRtp S now h p body).1 = .error e) : (s.unprotectRtp S now h p body).2 = s := by
  unfold Sess.unprotectRtp at he ⊢
  cases hl : lookup s.rx h.ssrc with
  | some c =>
    cases hr : (c.unprotectRtp S h p body).1 with
    | error e' =>
      rw [withRx_some_err S s now h.ssrc _ hl hr]
      simp only [unprotectRtp_err_keeps S c h p body e' hr, replace_lookup_self s.rx h.ssrc c hl]
    | ok a => rw [withRx_some_ok S s now h.ssrc _ hl hr] at he; simp at he
  | none =>
    cases hfull : rxFull s.rx now with
    | true => rw [withRx_none_full S s now h.ssrc _ hl hfull]
    | false =>
      cases hn : Ctx.new S h.ssrc s.profile s.rxMk s.rxMs now with
      | error e' => rw [withRx_none_newerr S s now h.ssrc _ hl hfull hn]
      | ok c =>
        cases hr : (c.unprotectRtp S h p body).1 with
        | error e' => rw [withRx_none_err S s now h.ssrc _ hl hfull hn hr]
        | ok a => rw [withRx_none_ok S s now h.ssrc _ hl hfull hn hr] at he; simp at he

/-- the whole receive path (`SrtpPacket::parse` then `unprotect_rtp`): any error, state unchanged -/
theorem reject_preserves_state_receive (S : Suite) (s : Sess) (now : Nat) (raw : Bytes) (e : ParseErr ⊕ Err)
    (he : (s.receiveRtp S now raw).1 = .error e) : (s.receiveRtp S now raw).2 = s := by
  unfold Sess.receiveRtp at he ⊢
  cases hp : parseHdr raw with
  | error pe => rfl
  | ok v =>
    obtain ⟨h, p, body⟩ := v
    rw [hp] at he
    simp only at he ⊢
    cases hr : (s.unprotectRtp S now h p body) with
    | mk r s' =>
      rw [hr] at he
      cases r with
      | error e' =>
        simp only
        have := reject_preserves_state S s now h p body e' (by rw [hr])
        rw [hr] at this; exact this
      | ok a => simp at he

/-- **reject_preserves_state** (RTCP, raw form — holds exactly, every profile): if
`SrtpSession::unprotect_rtcp` returns an error the session is unchanged. (Before the `fix:` commit
"GCM unprotect_rtcp advances the SRTCP index only after authentication" this was false under AEAD:
the index of the addressed context was advanced by a forged packet; round 1 had weakened this
statement by a disjunct — the code was repaired instead.) -/
theorem reject_preserves_state_rtcp (S : Suite) (s : Sess) (now : Nat) (pkt : Bytes) (e : Err)
    (he : (s.unprotectRtcp S now pkt).1 = .error e) : (s.unprotectRtcp S now pkt).2 = s := by
  unfold Sess.unprotectRtcp at he ⊢
  split
  · rfl
  · rename_i hlen
    rw [if_neg hlen] at he
    cases hl : lookup s.rx (ssrcOfRtcp pkt) with
    | some c =>
      cases hr : (c.unprotectRtcp S pkt).1 with
      | ok a => rw [withRx_some_ok S s now _ _ hl hr] at he; simp at he
      | error e' =>
        rw [withRx_some_err S s now _ _ hl hr]
        simp only [unprotectRtcp_err_keeps S c pkt e' hr, replace_lookup_self s.rx _ c hl]
    | none =>
      cases hfull : rxFull s.rx now with
      | true => rw [withRx_none_full S s now _ _ hl hfull]
      | false =>
        cases hn : Ctx.new S (ssrcOfRtcp pkt) s.profile s.rxMk s.rxMs now with
        | error e' => rw [withRx_none_newerr S s now _ _ hl hfull hn]
        | ok c =>
          cases hr : (c.unprotectRtcp S pkt).1 with
          | error e' => rw [withRx_none_err S s now _ _ hl hfull hn hr]
          | ok a => rw [withRx_none_ok S s now _ _ hl hfull hn hr] at he; simp at he

/-- the same at the `SrtpContext` API (which is public too): a failed `unprotect` / `unprotect_rtcp`
leaves the context exactly as it was -/
theorem reject_preserves_context (S : Suite) (c : Ctx) :
    (∀ h p body e, (c.unprotectRtp S h p body).1 = .error e → (c.unprotectRtp S h p body).2 = c) ∧
    (∀ pkt e, (c.unprotectRtcp S pkt).1 = .error e → (c.unprotectRtcp S pkt).2 = c) :=
  ⟨fun h p body e he => unprotectRtp_err_keeps S c h p body e he,
   fun pkt e he => unprotectRtcp_err_keeps S c pkt e he⟩

/-! ### …for every later history -/

/-- one rejected operation (RTP or RTCP, parse error or authentication failure, known or unknown
SSRC, any time) leaves the whole session — both tables, every rollover counter, highest sequence
number, SRTCP index and last-use time — exactly as it was -/
theorem reject_preserves_state_step (S : Suite) (s : Sess) (o : Op) (hrej : (step S s o).1.isReject = true) :
    (step S s o).2 = s := by
  cases o with
  | rtpIn now raw =>
    simp only [step] at hrej ⊢
    cases hr : (s.receiveRtp S now raw).1 with
    | ok a => rw [hr] at hrej; simp [Out.isReject] at hrej
    | error e => exact reject_preserves_state_receive S s now raw e hr
  | rtcpIn now pkt =>
    simp only [step] at hrej ⊢
    cases hr : (s.unprotectRtcp S now pkt).1 with
    | ok a => rw [hr] at hrej; simp [Out.isReject] at hrej
    | error e => exact reject_preserves_state_rtcp S s now pkt e hr
  | rtpOut now p => simp [step, Out.isReject] at hrej
  | rtcpOut now pkt => simp [step, Out.isReject] at hrej

/-- **reject_preserves_behaviour**: after a rejected packet, EVERY later history — any interleaving of
genuine and forged RTP/RTCP on any SSRCs, protect calls, any passage of time — gives exactly the
results it would have given had the packet never arrived (in particular every genuine packet that
would have been accepted still is). No `NoEvictionTriggered` hypothesis: since the first `fix:`
commit of C05 a rejected packet neither inserts, refreshes nor evicts a context. -/
theorem reject_preserves_behaviour (S : Suite) (s : Sess) (o : Op) (later : List Op)
    (hrej : (step S s o).1.isReject = true) :
    run S (step S s o).2 later = run S s later := by
  rw [reject_preserves_state_step S s o hrej]

/-- the operations of a history that were not rejected -/
def survivors (S : Suite) (s : Sess) (ops : List Op) : List Op :=
  (ops.zip (run S s ops)).filterMap (fun x => if x.2.isReject then none else some x.1)

/-- **any interleaving**: take any history, with any number of rejected (forged, malformed, stale)
packets anywhere in it; deleting all of them from the history changes no other result — the outputs
of the pruned history are exactly the non-reject outputs of the original one, in order. -/
theorem rejected_packets_are_invisible (S : Suite) (ops : List Op) (s : Sess) :
    run S s (survivors S s ops) = (run S s ops).filter (fun r => !r.isReject) := by
  induction ops generalizing s with
  | nil => rfl
  | cons o os ih =>
    simp only [survivors, run, List.zip_cons_cons, List.filterMap_cons, List.filter_cons]
    cases hrej : (step S s o).1.isReject with
    | true =>
      simp only [if_true, Bool.not_true, Bool.false_eq_true, if_false]
      rw [← ih (step S s o).2]
      exact (reject_preserves_behaviour S s o _ hrej).symm
    | false =>
      simp only [Bool.false_eq_true, if_false, Bool.not_false, if_true, run]
      rw [← ih (step S s o).2]; rfl

/-! ### The receive table is bounded (the cap of the `fix:` for C07's `retain:…authenticated-ssrc-churn`) -/

/-- whatever arrives — forged or authentic, any SSRCs, any rate — a receive table within
`MAX_RX_CONTEXTS` stays within it; and by `reject_preserves_state*` the refusal at the cap changes nothing. -/
theorem rx_table_bounded (S : Suite) (s : Sess) (now : Nat) (hb : s.rx.length ≤ maxRxContexts) :
    (∀ h p body, (s.unprotectRtp S now h p body).2.rx.length ≤ maxRxContexts) ∧
    (∀ pkt, (s.unprotectRtcp S now pkt).2.rx.length ≤ maxRxContexts) := by
  refine ⟨fun h p body => withRx_bounded S s now h.ssrc _ hb, fun pkt => ?_⟩
  unfold Sess.unprotectRtcp
  split
  · exact hb
  · exact withRx_bounded S s now _ _ hb

/-! ### non-vacuity: an authentication failure on an existing context at ROC 1 -/

/-- a receive context at ROC 1 (highest sequence number 200) -/
def ctxRoc1 : Ctx := ⟨7, .cm80, ⟨[], [], []⟩, ⟨[], [], []⟩, 1, some 200, 5, 0⟩
def sessRoc1 : Sess := { Sess.new .cm80 [] [] [] [] with rx := [ctxRoc1] }
/-- a 12-byte header (SSRC 7, sequence 201) followed by ten zero bytes as "tag" -/
def forgedPkt : Bytes := [0x80, 96, 0, 201, 0, 0, 0, 0, 0, 0, 0, 7] ++ List.replicate 10 0

example : (step toySuite sessRoc1 (.rtpIn 99 forgedPkt)).1.isReject = true ∧
    (step toySuite sessRoc1 (.rtpIn 99 forgedPkt)).2 = sessRoc1 := by
  have h : (step toySuite sessRoc1 (.rtpIn 99 forgedPkt)).1.isReject = true := by decide
  exact ⟨h, reject_preserves_state_step toySuite sessRoc1 _ h⟩

end RtcModel.Theorems.C05
