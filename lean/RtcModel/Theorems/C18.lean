/-
C18 — RTP latching locks onto a legitimate source and then stays put.
Property theorems only; helper lemmas live in `RtcModel/Lemmas/Latch.lean`.

Reading of the property used here (see DESIGN.md §C18):
* "destination" means a configured destination (`remote.port ≠ 0`) on a datagram socket
  (`tcp = false`); the bootstrap adoption of the first source while no destination is configured
  and the accepted-TCP-stream adoption are modelled (and compared with the code) but are outside
  the statement, which is about moving *away from* a destination.
-/
import RtcModel.Lemmas.Latch

namespace RtcModel.Theorems.C18
open RtcModel.Latch RtcModel.Generated

/-- generated-constant obligation: the model's 12-byte pattern in `classify` is the code's bound -/
theorem const_min_rtp_len : latchMinRtpLen = 12 := by decide
/-- generated-constant obligations: demux byte ranges are disjoint and RTCP PT range sane -/
theorem const_ranges : dtlsLo < dtlsHi ∧ dtlsHi ≤ rtpLo ∧ rtpLo < rtpHi ∧ rtcpPtLo ≤ rtcpPtHi ∧ rtcpPtHi < 256 := by decide

/-- Ops that are *not* a signaling reset / re-arm of the latch. -/
def NonReset : Op → Prop
  | .reset | .sig _ | .enable | .maxp _ => False
  | _ => True

/-- Datagram socket with a configured destination. -/
def Wf (s : St) : Prop := s.tcp = false ∧ s.remote.port ≠ 0

/-- One step: once latched, no packet of any kind from any address and no selected-pair
update changes the RTP destination or clears the latch. -/
theorem latched_sticky_step (s : St) (op : Op) (hw : Wf s) (hon : s.latchOn = true)
    (hl : s.rtpLatched = true) (hop : NonReset op) :
    (step s op).remote = s.remote ∧ (step s op).rtpLatched = true ∧
    (step s op).latchOn = true ∧ Wf (step s op) := by
  obtain ⟨hu, hp⟩ := hw
  cases op with
  | pkt a k =>
    have had := adopt_udp s a hu hp
    cases k <;> simp [step, receive, had, hon, hl, Wf, hu, hp, rtpLatch_latched]
  | enable => exact absurd hop (by simp [NonReset])
  | reset => exact absurd hop (by simp [NonReset])
  | sig a => exact absurd hop (by simp [NonReset])
  | maxp v => exact absurd hop (by simp [NonReset])
  | pair a =>
    by_cases h : s.remote = a
    · simp [step, setFromPair, hon, hl, h, Wf]; subst h; exact ⟨hu, hp⟩
    · simp [step, setFromPair, hon, hl, h, Wf]; exact ⟨hu, hp⟩
  | ssrc v => simp [step, hon, hl, Wf]; exact ⟨hu, hp⟩
  | rtcpAddr a => simp [step, setRtcpAddr, hon, hl, Wf]; exact ⟨hu, hp⟩

/-- **latched_sticky**: for every (unbounded) sequence of non-reset operations after commit —
RTP with any SSRC, RTCP, DTLS, garbage, from any address, selected-pair updates, SSRC and
RTCP-address updates — the RTP destination is unchanged and the latch stays set. -/
theorem latched_sticky (s : St) (ops : List Op) (hw : Wf s) (hon : s.latchOn = true)
    (hl : s.rtpLatched = true) (hops : ∀ o ∈ ops, NonReset o) :
    (run s ops).remote = s.remote ∧ (run s ops).rtpLatched = true := by
  induction ops generalizing s with
  | nil => exact ⟨rfl, hl⟩
  | cons o os ih =>
    have h1 := latched_sticky_step s o hw hon hl (hops o (by simp))
    have h2 := ih (step s o) h1.2.2.2 h1.2.2.1 h1.2.1 (fun o' ho' => hops o' (by simp [ho']))
    simp only [run, List.foldl_cons] at *
    exact ⟨h2.1.trans h1.1, h2.2⟩

example : Wf (init ⟨1, 5001⟩ 3 false) ∧
    (run (init ⟨1, 5001⟩ 0 false) [.enable, .pkt ⟨2, 5002⟩ (.rtp 7 1 1 false)]).rtpLatched = true ∧
    (run (init ⟨1, 5001⟩ 0 false) [.enable, .pkt ⟨2, 5002⟩ (.rtp 7 1 1 false)]).remote = ⟨2, 5002⟩ := by
  refine ⟨⟨rfl, by decide⟩, by decide, by decide⟩

/-! ### RTCP -/

/-- RTCP arrivals never move the RTP destination and never touch the RTP latch. -/
theorem rtcp_never_moves_rtp (s : St) (a : Addr) (hw : Wf s) :
    (receive s a .rtcp).remote = s.remote ∧ (receive s a .rtcp).rtpLatched = s.rtpLatched ∧
    (receive s a .rtcp).prob = s.prob := by
  simp [receive, adopt_udp s a hw.1 hw.2]

/-- Only an RTCP packet can change the RTCP destination; it does so only while the one-shot
flag is clear, sets the flag, and the new destination is that packet's source. -/
theorem rtcp_dest_only_by_rtcp_once (s : St) (a : Addr) (k : Kind)
    (hchg : (receive s a k).rtcpRemote ≠ s.rtcpRemote) :
    k = .rtcp ∧ s.rtcpLatched = false ∧ (receive s a k).rtcpLatched = true ∧
    (receive s a k).rtcpRemote = some a := by
  cases k <;> simp [receive] at hchg ⊢
  have := rtcpLearn_change (adopt s a) a (by simpa using hchg)
  simpa using this

/-- Ops that do not re-arm the RTCP one-shot flag. -/
def NonRtcpReset : Op → Prop
  | .reset | .sig _ | .rtcpAddr _ => False
  | _ => True

/-- Once RTCP has been learnt, nothing but a signaling reset changes the RTCP destination:
"only once", for every later sequence of packets. -/
theorem rtcp_learnt_sticky (s : St) (ops : List Op) (hl : s.rtcpLatched = true)
    (hops : ∀ o ∈ ops, NonRtcpReset o) :
    (run s ops).rtcpRemote = s.rtcpRemote ∧ (run s ops).rtcpLatched = true := by
  induction ops generalizing s with
  | nil => exact ⟨rfl, hl⟩
  | cons o os ih =>
    have hstep : (step s o).rtcpRemote = s.rtcpRemote ∧ (step s o).rtcpLatched = true := by
      have ho := hops o (by simp)
      cases o with
      | pkt a k =>
        cases k <;> simp [step, receive, hl, rtcpLearn_latched]
      | enable => simp only [step, enableLatch]; split <;> (try split) <;> simp [hl]
      | reset => exact absurd ho (by simp [NonRtcpReset])
      | sig a => exact absurd ho (by simp [NonRtcpReset])
      | rtcpAddr a => exact absurd ho (by simp [NonRtcpReset])
      | pair a => simp only [step, setFromPair]; split <;> simp [hl]
      | ssrc v => simp [step, hl]
      | maxp v => simp [step, hl]
    have h2 := ih (step s o) hstep.2 (fun o' ho' => hops o' (by simp [ho']))
    simp only [run, List.foldl_cons] at *
    exact ⟨h2.1.trans hstep.1, h2.2⟩

/-! ### Commit -/

/-- A packet that the latch logic treats as legitimate RTP for the current expectation. -/
def Legit (s : St) : Kind → Prop
  | .rtp ssrc _ _ _ => s.expected = 0 ∨ ssrc = s.expected
  | _ => False

instance (s : St) (k : Kind) : Decidable (Legit s k) := by
  cases k <;> simp [Legit] <;> infer_instance

/-- **commit_is_rule_winner**: when a probation packet makes the rules pick `w`, the committed
destination is exactly `w`, whatever the destination was before the packet
(this statement was false before the `fix:` commit — see `known_findings.json`). -/
theorem commit_is_rule_winner (s : St) (a : Addr) (ssrc seq ts : Nat) (m : Bool) (p : Prob) (w : Addr)
    (hon : s.latchOn = true) (hl : s.rtpLatched = false) (hp : s.prob = some p)
    (hleg : s.expected = 0 ∨ ssrc = s.expected)
    (hw : winner { p with total := satAdd8 p.total, cands := observe p.cands a seq ts m } = some w) :
    (receive s a (.rtp ssrc seq ts m)).remote = w ∧
    (receive s a (.rtp ssrc seq ts m)).rtpLatched = true ∧
    (receive s a (.rtp ssrc seq ts m)).prob = none := by
  have hm : (moveTo (adopt s a) s.remote a).remote = a := moveTo_remote _ _ _ (adopt_remote s a)
  simp only [receive, rtpLatch, adopt_latchOn, adopt_rtpLatched, adopt_expected, adopt_prob, hon, hl, hp]
  simp [hleg, hw, commitTo_remote _ _ _ hm]

/-- no rule fires ⇒ the packet is only recorded (and the destination follows the source) -/
theorem no_winner_keeps_probation (s : St) (a : Addr) (ssrc seq ts : Nat) (m : Bool) (p : Prob)
    (hon : s.latchOn = true) (hl : s.rtpLatched = false) (hp : s.prob = some p)
    (hleg : s.expected = 0 ∨ ssrc = s.expected)
    (hw : winner { p with total := satAdd8 p.total, cands := observe p.cands a seq ts m } = none) :
    (receive s a (.rtp ssrc seq ts m)).rtpLatched = false ∧
    (receive s a (.rtp ssrc seq ts m)).prob =
      some { p with total := satAdd8 p.total, cands := observe p.cands a seq ts m } := by
  simp only [receive, rtpLatch, adopt_latchOn, adopt_rtpLatched, adopt_expected, adopt_prob, hon, hl, hp]
  simp [hleg, hw, hl]


/-! ### The documented rules -/

/-- **Rule 1 (marker flush)**: if any observed source has sent a marker packet, the winner is a
marker source with the lowest first sequence number among marker sources. -/
theorem winner_rule1 (p : Prob) (hm : ∃ c ∈ p.cands, c.hasMarker = true) :
    ∃ c ∈ p.cands, c.hasMarker = true ∧ winner p = some c.addr ∧
      ∀ d ∈ p.cands, d.hasMarker = true → c.firstSeq ≤ d.firstSeq := by
  unfold winner
  cases hmin : minByFirstSeq (p.cands.filter (·.hasMarker)) with
  | none =>
    have := minByFirstSeq_none _ hmin
    obtain ⟨c, hc, hcm⟩ := hm
    have : c ∈ p.cands.filter (·.hasMarker) := by simp [hc, hcm]
    simp_all
  | some mw =>
    have hmem := minByFirstSeq_mem _ _ hmin
    simp at hmem
    refine ⟨mw, hmem.1, hmem.2, rfl, ?_⟩
    intro d hd hdm
    exact minByFirstSeq_le _ _ hmin d (by simp [hd, hdm])

/-- **Rule 3 (timeout fallback)**: with no marker seen and the probation limit reached, the winner
has the highest packet count. -/
theorem winner_rule3 (p : Prob) (hm : ∀ c ∈ p.cands, c.hasMarker = false) (hlim : p.total ≥ p.max)
    (hne : p.cands ≠ []) :
    ∃ c ∈ p.cands, winner p = some c.addr ∧ ∀ d ∈ p.cands, d.packetCount ≤ c.packetCount := by
  have hf : p.cands.filter (·.hasMarker) = [] := by
    simp [List.filter_eq_nil_iff]; intro c hc; simp [hm c hc]
  unfold winner
  simp [hf, minByFirstSeq, hlim]
  have := maxByRule3_isSome p.cands hne
  cases h : maxByRule3 p.cands with
  | none => simp_all
  | some c => exact ⟨c, maxByRule3_mem _ _ h, by simp, maxByRule3_ge _ _ h⟩

/-- **Rule 2 (consecutive dominance)**: with no marker and below the limit, a winner exists iff at
least `3` packets were observed and some source has a consecutive run of `2`; it is the first such. -/
theorem winner_rule2 (p : Prob) (hm : ∀ c ∈ p.cands, c.hasMarker = false) (hlim : p.total < p.max) :
    winner p = if p.total ≥ 3 then (p.cands.find? (fun c => c.consecutive ≥ 2)).map (·.addr) else none := by
  have hf : p.cands.filter (·.hasMarker) = [] := by
    simp [List.filter_eq_nil_iff]; intro c hc; simp [hm c hc]
  have : ¬ p.total ≥ p.max := by omega
  unfold winner
  simp [hf, minByFirstSeq, this]

/-! ### Commit within the configured number of probation packets -/

/-- probation bookkeeping invariant: the counter is strictly below the (u8) limit -/
def PInv (p : Prob) : Prop := p.total < p.max ∧ p.max ≤ 255

/-- One legitimate packet during probation either commits or advances the counter by one. -/
theorem legit_packet_progress (s : St) (a : Addr) (ssrc seq ts : Nat) (m : Bool) (p : Prob)
    (hon : s.latchOn = true) (hl : s.rtpLatched = false) (hp : s.prob = some p) (hinv : PInv p)
    (hleg : s.expected = 0 ∨ ssrc = s.expected) :
    let s' := receive s a (.rtp ssrc seq ts m)
    s'.rtpLatched = true ∨
    (s'.rtpLatched = false ∧ s'.latchOn = true ∧ s'.expected = s.expected ∧
      ∃ p', s'.prob = some p' ∧ p'.total = p.total + 1 ∧ p'.max = p.max ∧ PInv p') := by
  intro s'
  cases hw : winner { p with total := satAdd8 p.total, cands := observe p.cands a seq ts m } with
  | some w => left; exact (commit_is_rule_winner s a ssrc seq ts m p w hon hl hp hleg hw).2.1
  | none =>
    right
    have h := no_winner_keeps_probation s a ssrc seq ts m p hon hl hp hleg hw
    refine ⟨h.1, by simp [s', receive, hon], by simp [s', receive], _, h.2, ?_, rfl, ?_⟩
    · simp [satAdd8]; unfold PInv at hinv; omega
    · -- no winner although the table is non-empty ⇒ still below the limit
      have hne := observe_ne_nil p.cands a seq ts m
      have : ¬ (satAdd8 p.total ≥ p.max) := by
        intro hge
        have := winner_isSome_of_limit
          { p with total := satAdd8 p.total, cands := observe p.cands a seq ts m } hne hge
        simp [hw] at this
      unfold PInv at *; simp [satAdd8] at *; omega

/-- A packet that is not legitimate RTP leaves the probation state and latch flags alone. -/
theorem nonlegit_frame (s : St) (a : Addr) (k : Kind) (h : ¬ Legit s k) :
    (receive s a k).prob = s.prob ∧ (receive s a k).rtpLatched = s.rtpLatched ∧
    (receive s a k).latchOn = s.latchOn ∧ (receive s a k).expected = s.expected := by
  cases k <;> simp [receive]
  rename_i ssrc seq ts m
  simp [Legit] at h
  simp [rtpLatch, h]

/-- **commit_within_max_packets**: for every packet sequence (any sources, any kinds, any order),
once the number of legitimate RTP packets reaches what is left of the probation window the
latch has committed. No bound on the length of the sequence. -/
theorem commit_within_max_packets (pkts : List (Addr × Kind)) (s : St) (p : Prob)
    (hon : s.latchOn = true) (hl : s.rtpLatched = false) (hp : s.prob = some p) (hinv : PInv p)
    (hcount : p.max - p.total ≤ (pkts.filter (fun x => decide (Legit s x.2))).length) :
    (run s (pkts.map (fun x => Op.pkt x.1 x.2))).rtpLatched = true := by
  induction pkts generalizing s p with
  | nil => simp at hcount; unfold PInv at hinv; omega
  | cons x rest ih =>
    obtain ⟨a, k⟩ := x
    simp only [List.map_cons, run, List.foldl_cons, step]
    have latched_run : ∀ (t : St) (l : List (Addr × Kind)), t.rtpLatched = true →
        (run t (l.map (fun x => Op.pkt x.1 x.2))).rtpLatched = true := by
      intro t l ht
      induction l generalizing t with
      | nil => simpa [run]
      | cons y l ihl =>
        simp only [List.map_cons, run, List.foldl_cons, step]
        exact ihl _ (receive_latched_mono t y.1 y.2 ht)
    by_cases hk : Legit s k
    · cases k <;> simp [Legit] at hk
      rename_i ssrc seq ts m
      rcases legit_packet_progress s a ssrc seq ts m p hon hl hp hinv hk with h | ⟨h1, h2, h3, p', hp', ht, hm, hi⟩
      · exact latched_run _ _ h
      · refine ih _ p' h2 h1 hp' hi ?_
        have hL : ∀ k', Legit (receive s a (.rtp ssrc seq ts m)) k' ↔ Legit s k' := by
          intro k'; cases k' <;> simp [Legit, h3]
        have hd : decide (Legit s (Kind.rtp ssrc seq ts m)) = true := by simp [Legit, hk]
        simp only [List.filter_cons, hd, if_true, List.length_cons] at hcount
        simp only [hL]
        omega
    · have hf := nonlegit_frame s a k hk
      refine ih _ p (hf.2.2.1.trans hon) (hf.2.1.trans hl) (hf.1.trans hp) hinv ?_
      have hL : ∀ k', Legit (receive s a k) k' ↔ Legit s k' := by
        intro k'; cases k' <;> simp [Legit, hf.2.2.2]
      simp only [List.filter_cons, hk, decide_false] at hcount
      simp only [hL]
      simpa using hcount

/-- without probation (`max = 0`) the first legitimate packet commits to its source -/
theorem immediate_latch (s : St) (a : Addr) (ssrc seq ts : Nat) (m : Bool)
    (hon : s.latchOn = true) (hl : s.rtpLatched = false) (hp : s.prob = none)
    (hleg : s.expected = 0 ∨ ssrc = s.expected) :
    (receive s a (.rtp ssrc seq ts m)).rtpLatched = true ∧ (receive s a (.rtp ssrc seq ts m)).remote = a := by
  have hm : (moveTo (adopt s a) s.remote a).remote = a := moveTo_remote _ _ _ (adopt_remote s a)
  simp [receive, rtpLatch, hon, hl, hp, hleg, hm]


/-! ### The destination only moves to legitimate sources -/

/-- addresses an operation makes legitimate: the source of an RTP packet carrying the expected
SSRC (any SSRC when none is known), or an address given by signaling / ICE pair selection -/
def legit (s : St) : Op → List Addr
  | .pkt a k => if Legit s k then [a] else []
  | .sig a => [a]
  | .pair a => [a]
  | _ => []

/-- all addresses made legitimate along a run (the state is threaded only to know the expected
SSRC in force when each packet arrives) -/
def allowed (s : St) : List Op → List Addr
  | [] => []
  | o :: os => legit s o ++ allowed (step s o) os

def OpPortOk : Op → Prop
  | .pkt a _ => a.port ≠ 0
  | .sig a => a.port ≠ 0
  | .pair a => a.port ≠ 0
  | _ => True

def CandsIn (s : St) (acc : List Addr) : Prop :=
  ∀ p, s.prob = some p → ∀ c ∈ p.cands, c.addr ∈ acc

theorem no_winner_remote (s : St) (a : Addr) (ssrc seq ts : Nat) (m : Bool) (p : Prob)
    (hon : s.latchOn = true) (hl : s.rtpLatched = false) (hp : s.prob = some p)
    (hleg : s.expected = 0 ∨ ssrc = s.expected)
    (hw : winner { p with total := satAdd8 p.total, cands := observe p.cands a seq ts m } = none) :
    (receive s a (.rtp ssrc seq ts m)).remote = a := by
  have hm : (moveTo (adopt s a) s.remote a).remote = a := moveTo_remote _ _ _ (adopt_remote s a)
  simp only [receive, rtpLatch, adopt_latchOn, adopt_rtpLatched, adopt_expected, adopt_prob, hon, hl, hp]
  simp [hleg, hw, hm]

theorem move_step (s : St) (o : Op) (acc : List Addr) (hw : Wf s) (hc : CandsIn s acc)
    (hpo : OpPortOk o) (hacc : ∀ a ∈ acc, a.port ≠ 0) :
    ((step s o).remote = s.remote ∨ (step s o).remote ∈ acc ++ legit s o) ∧
    Wf (step s o) ∧ CandsIn (step s o) (acc ++ legit s o) := by
  obtain ⟨hu, hp⟩ := hw
  have hmono : ∀ l, CandsIn s (acc ++ l) := fun l p hp' c hc' => by simp [hc p hp' c hc']
  cases o with
  | pkt a k =>
    have had := adopt_udp s a hu hp
    by_cases hk : Legit s k
    · cases k <;> simp [Legit] at hk
      rename_i ssrc seq ts m
      have hlg : legit s (.pkt a (.rtp ssrc seq ts m)) = [a] := by simp [legit, Legit, hk]
      simp only [OpPortOk] at hpo
      by_cases hact : s.latchOn = true ∧ s.rtpLatched = false
      · obtain ⟨hon, hl⟩ := hact
        cases hpr : s.prob with
        | none =>
          have h := immediate_latch s a ssrc seq ts m hon hl hpr hk
          refine ⟨Or.inr (by simp [step, h.2, hlg]), ⟨by simp [step, receive, hu], by simp [step, h.2, hpo]⟩, ?_⟩
          intro p' hp'; simp [step, receive, rtpLatch, had, hon, hl, hpr, hk] at hp'
        | some p =>
          cases hwin : winner { p with total := satAdd8 p.total, cands := observe p.cands a seq ts m } with
          | some w =>
            have h := commit_is_rule_winner s a ssrc seq ts m p w hon hl hpr hk hwin
            obtain ⟨c, hcm, hca⟩ := winner_mem _ _ hwin
            have hwacc : w ∈ acc ++ [a] := by
              rcases observe_addr_mem _ _ _ _ _ _ hcm with h' | ⟨c', hc', he⟩
              · simp [← hca, h']
              · simp [← hca, ← he, hc p hpr c' hc']
            have hwport : w.port ≠ 0 := by
              simp at hwacc; rcases hwacc with h' | h'
              · exact hacc w h'
              · simpa [h'] using hpo
            refine ⟨Or.inr (by simp only [step, h.1, hlg]; exact hwacc),
              ⟨by simp [step, receive, hu], by simp only [step, h.1]; exact hwport⟩, ?_⟩
            intro p' hp'; simp [step, h.2.2] at hp'
          | none =>
            have h := no_winner_keeps_probation s a ssrc seq ts m p hon hl hpr hk hwin
            have hr := no_winner_remote s a ssrc seq ts m p hon hl hpr hk hwin
            refine ⟨Or.inr (by simp [step, hr, hlg]), ⟨by simp [step, receive, hu], by simp [step, hr, hpo]⟩, ?_⟩
            intro p' hp' c hcm
            simp only [step, h.2, Option.some.injEq] at hp'
            subst hp'
            rcases observe_addr_mem _ _ _ _ _ _ hcm with h' | ⟨c', hc', he⟩
            · simp [hlg, h']
            · simp [hlg, ← he, hc p hpr c' hc']
      · have : receive s a (.rtp ssrc seq ts m) = s := by
          simp only [receive, had, rtpLatch]
          rw [if_neg]; intro hh; exact hact ⟨hh.1, by simpa using hh.2.1⟩
        simp only [step, this]
        exact ⟨Or.inl trivial, ⟨hu, hp⟩, hmono _⟩
    · have hf := nonlegit_frame s a k hk
      have hr : (receive s a k).remote = s.remote := by
        cases k <;> simp [receive, had]
        rename_i ssrc seq ts m
        simp [Legit] at hk; simp [rtpLatch, hk]
      refine ⟨Or.inl (by simp [step, hr]), ⟨?_, by simp [step, hr, hp]⟩, ?_⟩
      · cases k <;> simp [step, receive, hu]
      · intro p' hp'; simp only [step, hf.1] at hp'; exact hmono _ p' hp'
  | enable =>
    refine ⟨Or.inl ?_, ?_, ?_⟩
    · simp only [step, enableLatch]; split <;> (try split) <;> rfl
    · simp only [step, enableLatch]; split <;> (try split) <;> exact ⟨hu, hp⟩
    · intro p' hp'
      simp only [step, enableLatch] at hp'
      split at hp'
      · split at hp'
        · simp at hp'; subst hp'; simp
        · exact hmono _ p' (by simpa using hp')
      · simp at hp'
  | reset =>
    refine ⟨Or.inl rfl, ⟨hu, hp⟩, ?_⟩
    intro p' hp'
    simp only [step, resetLatch, freshProb] at hp'
    split at hp' <;> simp at hp'
    subst hp'; simp
  | sig a =>
    simp only [OpPortOk] at hpo
    refine ⟨Or.inr (by simp [step, setFromSignaling, legit]), ⟨hu, by simp [step, setFromSignaling, hpo]⟩, ?_⟩
    intro p' hp'
    simp only [step, setFromSignaling, resetLatch, freshProb] at hp'
    split at hp' <;> simp at hp'
    subst hp'; simp
  | pair a =>
    simp only [OpPortOk] at hpo
    simp only [step, setFromPair]
    split
    · exact ⟨Or.inl rfl, ⟨hu, hp⟩, hmono _⟩
    · exact ⟨Or.inr (by simp [legit]), ⟨hu, by simpa using hpo⟩, fun p' hp' => hmono _ p' hp'⟩
  | ssrc v => exact ⟨Or.inl rfl, ⟨hu, hp⟩, fun p' hp' => hmono _ p' hp'⟩
  | maxp v => exact ⟨Or.inl rfl, ⟨hu, hp⟩, fun p' hp' => hmono _ p' hp'⟩
  | rtcpAddr a => exact ⟨Or.inl rfl, ⟨hu, hp⟩, fun p' hp' => hmono _ p' hp'⟩

/-- **move_only_to_legit_source**: over every operation sequence, the RTP destination either is
what it was or is an address that was made legitimate along the way — the source of an RTP
packet carrying the expected SSRC, or an address supplied by signaling / pair selection.
RTCP, wrong-SSRC RTP, DTLS or garbage from any address can never become the destination. -/
theorem move_only_to_legit_source (ops : List Op) (s : St) (hw : Wf s)
    (hc : ∀ p, s.prob = some p → p.cands = []) (hpo : ∀ o ∈ ops, OpPortOk o) :
    (run s ops).remote = s.remote ∨ (run s ops).remote ∈ allowed s ops := by
  suffices h : ∀ (ops : List Op) (s : St) (acc : List Addr), Wf s → CandsIn s acc →
      (∀ a ∈ acc, a.port ≠ 0) → (∀ o ∈ ops, OpPortOk o) →
      (run s ops).remote = s.remote ∨ (run s ops).remote ∈ acc ++ allowed s ops by
    have := h ops s [] hw (fun p hp c hcm => by simp [hc p hp] at hcm) (by simp) hpo
    simpa using this
  intro ops
  induction ops with
  | nil => intro s acc _ _ _ _; left; rfl
  | cons o os ih =>
    intro s acc hw hc hacc hpo
    have hs := move_step s o acc hw hc (hpo o (by simp)) hacc
    have hacc' : ∀ a ∈ acc ++ legit s o, a.port ≠ 0 := by
      intro a ha; simp at ha; rcases ha with ha | ha
      · exact hacc a ha
      · have hpo' := hpo o (by simp)
        cases o <;> simp [legit] at ha
        · rename_i a' k; obtain ⟨_, ha⟩ := ha; subst ha; exact hpo'
        · subst ha; exact hpo'
        · subst ha; exact hpo'
    have := ih (step s o) (acc ++ legit s o) hs.2.1 hs.2.2 hacc' (fun o' ho' => hpo o' (by simp [ho']))
    simp only [run, List.foldl_cons, allowed] at *
    rcases this with h | h
    · rcases hs.1 with h' | h'
      · left; exact h.trans h'
      · right; rw [h]; simp at h' ⊢; rcases h' with h' | h' <;> simp [h']
    · right; simp at h ⊢; rcases h with h | h | h <;> simp [h]

end RtcModel.Theorems.C18
