/-
C18 — RTP latching locks onto a legitimate source and then stays put.
Property theorems only; helper lemmas live in `RtcModel/Lemmas/Latch.lean`, the independently
written documented-rule spec in `RtcModel/LatchSpec.lean`, the receive ∥ API-op interleaving model
in `RtcModel/LatchRace.lean`.

Round 2: every statement about "with latching enabled" has `s.latchOn = true` as its ONLY
configuration hypothesis — no `port ≠ 0`, no `tcp = false` (round 1's `Wf`). That is provable
because of the latch agent's `fix:` commits (see `known_findings.d/C18.json`); for the code before
them the statements were false, see the `…_superseded_witness` examples at the end.
-/
import RtcModel.Lemmas.Latch
import RtcModel.Lemmas.LatchRace
import RtcModel.Lemmas.LatchHistory
import RtcModel.LatchSpec

namespace RtcModel.Theorems.C18
open RtcModel.Latch RtcModel.LatchSpec RtcModel.Generated

/-- generated-constant obligation: the byte reads of `classify` stay below the lengths tested
before them (so `byteAt`'s default is never observed), the fields have the widths the big-endian
reads assume, the demux ranges are disjoint, and the counters are `u8` / sequence numbers `u16`; the doc comment still lists the rules in the order marker, run,
timeout (the precedence `LatchSpec.Documented` encodes). -/
theorem const_layout :
    latchRtcpPtOff < latchRtcpMinLen ∧ latchSsrcEnd < latchMinRtpLen ∧ latchSeqEnd < latchMinRtpLen ∧
    latchTsEnd < latchMinRtpLen ∧ latchMarkerOff < latchMinRtpLen ∧
    latchSsrcEnd + 1 - latchSsrcOff = 4 ∧ latchSeqEnd + 1 - latchSeqOff = 2 ∧ latchTsEnd + 1 - latchTsOff = 4 ∧
    latchMarkerMask = 128 ∧
    dtlsLo < dtlsHi ∧ dtlsHi ≤ rtpLo ∧ rtpLo < rtpHi ∧ rtcpPtLo ≤ rtcpPtHi ∧ rtcpPtHi < 256 ∧
    totalMax = 255 ∧ countMax = 255 ∧ consecMax = 255 ∧ seqMod = 65536 ∧ probMaxBits = probTotalBits ∧
    docRuleMarkerIdx = 1 ∧ docRuleRunIdx = 2 ∧ docRuleTimeoutIdx = 3 := by decide

/-! ### Once committed, nothing but a signaling reset moves the destination -/

/-- Ops that are *not* a signaling reset of the latch (`reset_latch`, signaling retarget). -/
def NonReset : Op → Prop
  | .reset | .sig _ => False
  | _ => True

/-- (helper, not counted) One step: once latched, no packet of any kind from any address, no selected-pair update and
no other API call except the two signaling resets changes the RTP destination or clears the latch —
whatever the destination is (unset, port 0) and whatever the socket kind. -/
private theorem latched_sticky_step (s : St) (op : Op) (hon : s.latchOn = true)
    (hl : s.rtpLatched = true) (hop : NonReset op) :
    (step s op).remote = s.remote ∧ (step s op).rtpLatched = true ∧ (step s op).latchOn = true := by
  cases op with
  | pkt a k =>
    have had := adopt_on s a hon
    cases k <;> simp [step, receive, had, hon, hl, rtpLatch_latched]
  | enable => simp [step, hl]
  | reset => exact absurd hop (by simp [NonReset])
  | sig a => exact absurd hop (by simp [NonReset])
  | maxp v => simp [step, hon, hl]
  | pair a =>
    by_cases h : s.remote = a
    · simp [step, setFromPair, hon, hl, h]
    · simp [step, setFromPair, hon, hl, h]
  | ssrc v => simp [step, hon, hl]
  | rtcpAddr a => simp [step, setRtcpAddr, hon, hl]

/-- **latched_sticky**: for every (unbounded) sequence of operations after commit that contains no
signaling reset — RTP with any SSRC, RTCP, DTLS, garbage, from any address, selected-pair updates,
SSRC / RTCP-address / window-size updates, `enable_latch_on_rtp` — the RTP destination is
unchanged and the latch stays set. -/
theorem latched_sticky (s : St) (ops : List Op) (hon : s.latchOn = true)
    (hl : s.rtpLatched = true) (hops : ∀ o ∈ ops, NonReset o) :
    (run s ops).remote = s.remote ∧ (run s ops).rtpLatched = true := by
  induction ops generalizing s with
  | nil => exact ⟨rfl, hl⟩
  | cons o os ih =>
    have h1 := latched_sticky_step s o hon hl (hops o (by simp))
    have h2 := ih (step s o) h1.2.2 h1.2.1 (fun o' ho' => hops o' (by simp [ho']))
    simp only [run, List.foldl_cons] at *
    exact ⟨h2.1.trans h1.1, h2.2⟩

/-- non-vacuity: a connection created with an UNSET destination (0.0.0.0:0, as the offerer's extra
transports are) commits to the first source and then meets the hypotheses of `latched_sticky` -/
example : let s := run (init ⟨0, 0⟩ 0 false) [.enable, .pkt ⟨2, 5002⟩ (.rtp 7 1 1 false)]
    s.latchOn = true ∧ s.rtpLatched = true ∧ s.remote = ⟨2, 5002⟩ := by decide

/-! ### RTCP -/

/-- RTCP arrivals never move the RTP destination and never touch the RTP latch or the probation
table: with latching enabled unconditionally, without latching whenever a destination is set on a
datagram socket. -/
theorem rtcp_never_moves_rtp (s : St) (a : Addr)
    (h : s.latchOn = true ∨ (s.tcp = false ∧ s.remote.port ≠ 0)) :
    (receive s a .rtcp).remote = s.remote ∧ (receive s a .rtcp).rtpLatched = s.rtpLatched ∧
    (receive s a .rtcp).prob = s.prob := by
  rcases h with h | h
  · simp [receive, adopt_on s a h]
  · simp [receive, adopt_udp s a h.1 h.2]

/-- Only an RTCP packet can change the RTCP destination; it does so only while the one-shot
flag is clear, sets the flag, and the new destination is that packet's source. -/
theorem rtcp_dest_only_by_rtcp_once (s : St) (a : Addr) (k : Kind)
    (hchg : (receive s a k).rtcpRemote ≠ s.rtcpRemote) :
    k = .rtcp ∧ s.rtcpLatched = false ∧ (receive s a k).rtcpLatched = true ∧
    (receive s a k).rtcpRemote = some a := by
  cases k <;> simp [receive] at hchg ⊢
  have := rtcpLearn_change (adopt s a) a (by simpa using hchg)
  simpa using this

/-- Ops that do not re-arm the RTCP one-shot flag. -/
def NonRtcpReset : Op → Prop
  | .reset | .sig _ | .rtcpAddr _ => False
  | _ => True

/-- Once RTCP has been learnt, nothing but a signaling reset changes the RTCP destination:
"only once", for every later sequence of packets. -/
theorem rtcp_learnt_sticky (s : St) (ops : List Op) (hl : s.rtcpLatched = true)
    (hops : ∀ o ∈ ops, NonRtcpReset o) :
    (run s ops).rtcpRemote = s.rtcpRemote ∧ (run s ops).rtcpLatched = true := by
  induction ops generalizing s with
  | nil => exact ⟨rfl, hl⟩
  | cons o os ih =>
    have hstep : (step s o).rtcpRemote = s.rtcpRemote ∧ (step s o).rtcpLatched = true := by
      have ho := hops o (by simp)
      cases o with
      | pkt a k =>
        cases k <;> simp [step, receive, hl, rtcpLearn_latched]
      | enable => simp [step, hl]
      | reset => exact absurd ho (by simp [NonRtcpReset])
      | sig a => exact absurd ho (by simp [NonRtcpReset])
      | rtcpAddr a => exact absurd ho (by simp [NonRtcpReset])
      | pair a => simp only [step, setFromPair]; split <;> simp [hl]
      | ssrc v => simp [step, hl]
      | maxp v => simp [step, hl]
    have h2 := ih (step s o) hstep.2 (fun o' ho' => hops o' (by simp [ho']))
    simp only [run, List.foldl_cons] at *
    exact ⟨h2.1.trans hstep.1, h2.2⟩

/-! ### Commit -/

/-- **commit_is_rule_winner**: what one expected-SSRC RTP packet does while the latch is open.
With a probation window: if the rules pick `w` on the updated table the destination becomes exactly
`w` — whatever it was before the packet —, the latch is set and the table dropped (false before round
1's `fix:` be978e0); if no rule fires the packet is only recorded, the latch stays open and the
destination follows this packet's source. Without a window (`max = 0`) the packet commits to its
own source at once. -/
theorem commit_is_rule_winner (s : St) (a : Addr) (ssrc seq ts : Nat) (m : Bool)
    (hon : s.latchOn = true) (hl : s.rtpLatched = false) (hleg : s.expected = 0 ∨ ssrc = s.expected) :
    let s' := receive s a (.rtp ssrc seq ts m)
    (∀ p, s.prob = some p →
      let p1 : Prob := { p with total := satInc totalMax p.total, cands := observe p.cands a seq ts m }
      (∀ w, winner p1 = some w → s'.remote = w ∧ s'.rtpLatched = true ∧ s'.prob = none) ∧
      (winner p1 = none → s'.remote = a ∧ s'.rtpLatched = false ∧ s'.prob = some p1)) ∧
    (s.prob = none → s'.remote = a ∧ s'.rtpLatched = true) := by
  refine ⟨fun p hp => ⟨fun w hw => commit_step s a ssrc seq ts m p w hon hl hp hleg hw, fun hw => ?_⟩, fun hp => ?_⟩
  · have h := no_winner_step s a ssrc seq ts m p hon hl hp hleg hw
    exact ⟨h.2.1, h.1, h.2.2⟩
  · have h := immediate_step s a ssrc seq ts m hon hl hp hleg
    exact ⟨h.2, h.1⟩

/-! ### The documented rules, in the documented order

`LatchSpec.Documented` is written from the doc comment (relations on the table, precedence
"evaluated in order"); `winner` mirrors the code (iterators, branch order). -/

/-- **winner_matches_documented_rules** (soundness): whatever the code decides is a decision the
documented rules allow, under the documented precedence 1 > 2 > 3 — including the documented
tie-break of rule 3 (lowest `first_seq` among the highest counts) and of rule 1. -/
theorem winner_matches_documented_rules (p : Prob) (w : Addr) (h : winner p = some w) :
    Documented p w := by
  unfold winner at h
  cases hmin : minByFirstSeq (p.cands.filter (·.hasMarker)) with
  | some mw =>
    simp [hmin] at h
    have hmem := minByFirstSeq_mem _ _ hmin
    simp at hmem
    left
    refine ⟨mw, ⟨hmem.1, hmem.2, ?_⟩, h⟩
    intro d hd hdm
    exact minByFirstSeq_le _ _ hmin d (by simp [hd, hdm])
  | none =>
    have hnil := minByFirstSeq_none _ hmin
    have hno1 : ¬ ∃ c, Rule1 p c := by
      rintro ⟨c, hc, hcm, _⟩
      have : c ∈ p.cands.filter (·.hasMarker) := by simp [hc, hcm]
      simp [hnil] at this
    simp [hmin] at h
    cases hrun : runWinner p with
    | some rw =>
      simp [hrun] at h
      have hr := runWinner_some p rw hrun
      right; left
      exact ⟨hno1, rw, ⟨hr.2.1, by simpa using hr.2.2, by simpa using hr.1⟩, h⟩
    | none =>
      simp [hrun] at h
      have hno2 : ¬ ∃ c, Rule2 p c := by
        rintro ⟨c, hc, hcc, ht⟩
        simp at hcc ht
        rcases runWinner_none p hrun with h' | h'
        · simp at h'; omega
        · have := h' c hc; simp at this; omega
      obtain ⟨hlim, c, hc, hca⟩ := h
      right; right
      exact ⟨hno1, hno2, c, ⟨hlim, maxByRule3_mem _ _ hc, maxByRule3_ge _ _ hc, maxByRule3_tie _ _ hc⟩, hca⟩

/-- **documented_decision_is_taken** (completeness): whenever the documented rules select some
source, the code commits (it never keeps probing past a documented decision). -/
theorem documented_decision_is_taken (p : Prob) (h : ∃ w, Documented p w) : (winner p).isSome := by
  obtain ⟨w, h⟩ := h
  unfold winner
  cases hmin : minByFirstSeq (p.cands.filter (·.hasMarker)) with
  | some mw => simp
  | none =>
    have hnil := minByFirstSeq_none _ hmin
    have hno1 : ¬ ∃ c, Rule1 p c := by
      rintro ⟨c, hc, hcm, _⟩
      have : c ∈ p.cands.filter (·.hasMarker) := by simp [hc, hcm]
      simp [hnil] at this
    cases hrun : runWinner p with
    | some rw => simp
    | none =>
      rcases h with h | h | h
      · obtain ⟨c, hc, _⟩ := h
        exact absurd ⟨c, hc⟩ hno1
      · obtain ⟨_, c, ⟨hc, hcc, ht⟩, _⟩ := h
        simp at hcc ht
        rcases runWinner_none p hrun with h' | h'
        · simp at h'; omega
        · have := h' c hc; simp at this; omega
      · obtain ⟨_, _, c, ⟨hlim, hc, _, _⟩, _⟩ := h
        have hne : p.cands ≠ [] := by intro he; simp [he] at hc
        have := maxByRule3_isSome p.cands hne
        simp [hlim]
        cases hm : maxByRule3 p.cands <;> simp_all

/-- **documented_rules_deterministic** (tightness of the spec): on a table without ties the
documented rules admit exactly one address — so together with soundness the code's winner IS the
documented winner there. -/
theorem documented_rules_deterministic (p : Prob) (w₁ w₂ : Addr) (hn : NoTies p)
    (h₁ : Documented p w₁) (h₂ : Documented p w₂) : w₁ = w₂ := by
  obtain ⟨hn1, hn2, hn3⟩ := hn
  rcases h₁ with ⟨c, hc, rfl⟩ | ⟨n1, c, hc, rfl⟩ | ⟨n1, n2, c, hc, rfl⟩ <;>
  rcases h₂ with ⟨d, hd, rfl⟩ | ⟨m1, d, hd, rfl⟩ | ⟨m1, m2, d, hd, rfl⟩
  · have := hn1 c hc.1 d hd.1 hc.2.1 hd.2.1 (Nat.le_antisymm (hc.2.2 d hd.1 hd.2.1) (hd.2.2 c hc.1 hc.2.1))
    rw [this]
  · exact absurd ⟨c, hc⟩ m1
  · exact absurd ⟨c, hc⟩ m1
  · exact absurd ⟨d, hd⟩ n1
  · rw [hn2 c hc.1 d hd.1 hc.2.1 hd.2.1]
  · exact absurd ⟨c, hc⟩ m2
  · exact absurd ⟨d, hd⟩ n1
  · exact absurd ⟨d, hd⟩ n2
  · obtain ⟨_, hcm, hcge, hctie⟩ := hc
    obtain ⟨_, hdm, hdge, hdtie⟩ := hd
    have hcnt : c.packetCount = d.packetCount := Nat.le_antisymm (hdge c hcm) (hcge d hdm)
    rw [hn3 c hcm d hdm hcnt (Nat.le_antisymm (hctie d hdm hcnt.symm) (hdtie c hcm hcnt))]

/-- the competing case of the audit (window 6, no markers, `B1 A100 B10 A101 B20 A102`): the run of
A and the count tie both apply at the 6th packet; rule 2 is consulted first and A wins, while rule 3
taken alone would select B. (The code before the rule-order `fix:` committed B.) -/
example :
    let A : Cand := ⟨⟨1, 5001⟩, 100, 102, 0, 3, 2, false⟩
    let B : Cand := ⟨⟨2, 5002⟩, 1, 20, 0, 3, 0, false⟩
    let p : Prob := ⟨[B, A], 6, 6⟩
    winner p = some A.addr ∧ Rule2 p A ∧ Rule3 p B ∧ ¬ Rule3 p A := by
  refine ⟨by decide, ⟨by decide, by decide, by decide⟩, ⟨by decide, by decide, by decide, by decide⟩, ?_⟩
  intro h; have := h.2.2.2 ⟨⟨2, 5002⟩, 1, 20, 0, 3, 0, false⟩ (by decide) (by decide)
  revert this; decide

/-! ### The table the rules are evaluated on is a summary of the packet history

`LatchSpec.Documented` speaks about rows (`first_seq`, `consecutive`, `packet_count`, `has_marker`);
`RtcModel.LatchHistory` says, independently of `observe` / `updCand`, what those rows mean in terms of
the expected-SSRC packets received since the window was armed. -/

open RtcModel.LatchHistory in
/-- **table_is_summary_of_history**: feeding any packet history through the code's `observe`
(what `rtpLatch` does, once per expected-SSRC packet while the window is open — see the statement of
`commit_is_rule_winner`) yields exactly the documented summary: one row per source in order of first
appearance, with the numerically lowest sequence number and timestamp, the latest sequence number,
the (capped) number of packets, the length of the trailing `+1 mod 2^16` run and the marker flag. -/
theorem table_is_summary_of_history (h : List Pkt) : observeAll h = tableOf h := by
  induction h with
  | nil => simp [observeAll, tableOf, srcs]
  | cons x h ih =>
    have hf : ∀ b, ((fun a => summary a (ofSrc h a)) b).addr = b := fun b => rfl
    simp only [observeAll, ih, tableOf]
    by_cases hm : x.addr ∈ srcs h
    · rw [observe_map_mem _ _ hf _ _ _ _ (srcs_nodup h) hm]
      simp only [srcs, hm, ↓reduceIte]
      apply List.map_congr_left
      intro b hb
      rw [ofSrc_cons]
      by_cases he : b = x.addr
      · subst he
        simp only [↓reduceIte]
        have hne := ofSrc_ne_nil h x.addr hb
        cases hl : ofSrc h x.addr with
        | nil => exact absurd hl hne
        | cons y rest => rw [summary_cons]
      · have he' : ¬ x.addr = b := fun h' => he h'.symm
        simp [he, he']
    · rw [observe_map_not_mem _ _ hf _ _ _ _ hm]
      simp only [srcs, hm, ↓reduceIte, List.map_append, List.map_cons, List.map_nil]
      congr 1
      · apply List.map_congr_left
        intro b hb
        rw [ofSrc_cons]
        have : x.addr ≠ b := fun he => hm (he ▸ hb)
        simp [this]
      · rw [ofSrc_cons]; simp [ofSrc_nil h x.addr hm, summary_single]

open RtcModel.LatchHistory in
/-- the numeric reading of rule 2: `consecutive >= 2` holds exactly when the source's latest THREE
packets are in sequence (the comment's prose says "two sequential packets"; the condition it gives,
and the code, need three) -/
theorem run_two_means_three_in_sequence (l : List Pkt) :
    runLen l ≥ 2 ↔ ∃ x y z rest, l = x :: y :: z :: rest ∧ x.seq = wrapInc y.seq ∧ y.seq = wrapInc z.seq := by
  match l with
  | [] => simp [runLen]
  | [x] => simp [runLen]
  | [x, y] => simp [runLen, satInc, consecMax_eq]; split <;> omega
  | x :: y :: z :: rest =>
    simp only [runLen, satInc, consecMax_eq]
    constructor
    · intro h
      refine ⟨x, y, z, rest, rfl, ?_, ?_⟩
      · by_cases h1 : x.seq = wrapInc y.seq
        · exact h1
        · simp [h1] at h
      · by_cases h2 : y.seq = wrapInc z.seq
        · exact h2
        · by_cases h1 : x.seq = wrapInc y.seq <;> simp [h1, h2] at h
    · rintro ⟨x', y', z', rest', he, h1, h2⟩
      simp at he
      obtain ⟨rfl, rfl, rfl, rfl⟩ := he
      simp only [h1, h2, ↓reduceIte]
      split <;> split <;> omega

open RtcModel.LatchHistory in
/-- non-vacuity / reading check: the audit's history `B1 A100 B10 A101 B20 A102` (newest first below)
gives the table used in the rule-order example, and `lowest` is the minimum (`lowest_le`, `lowest_mem`) -/
example :
    tableOf [⟨⟨1, 5001⟩, 102, 0, false⟩, ⟨⟨2, 5002⟩, 20, 0, false⟩, ⟨⟨1, 5001⟩, 101, 0, false⟩,
             ⟨⟨2, 5002⟩, 10, 0, false⟩, ⟨⟨1, 5001⟩, 100, 0, false⟩, ⟨⟨2, 5002⟩, 1, 0, false⟩]
      = [⟨⟨2, 5002⟩, 1, 20, 0, 3, 0, false⟩, ⟨⟨1, 5001⟩, 100, 102, 0, 3, 2, false⟩] := by decide

open RtcModel.LatchHistory in
/-- **window_tracks_history**: the link between the history-level table and the running connection.
If the open window of `s` summarises the packet history `h` since it was armed (table = `tableOf h`,
counter = `totalOf h`; true with `h = []` right after `enable_latch_on_rtp` / `reset_latch` / a retarget /
an SSRC change, see the example below), then after one more expected-SSRC packet `x` the decision is
the one the DOCUMENTED rules take on the summary of `x :: h`: either nothing is decided and the window
summarises `x :: h` (so the statement applies again to the next packet), or the latch commits to a
winner `w` with `Documented ⟨tableOf (x :: h), totalOf (x :: h), max⟩ w`. This ties rule 2's "≥ 3
total" and rule 3's "max_packets observed" (`totalOf`) to the history as well. -/
theorem window_tracks_history (s : St) (h : List Pkt) (p : Prob) (a : Addr) (ssrc seq ts : Nat) (m : Bool)
    (hon : s.latchOn = true) (hl : s.rtpLatched = false) (hleg : s.expected = 0 ∨ ssrc = s.expected)
    (hp : s.prob = some p) (hc : p.cands = tableOf h) (ht : p.total = totalOf h) :
    (winner ⟨tableOf (⟨a, seq, ts, m⟩ :: h), totalOf (⟨a, seq, ts, m⟩ :: h), p.max⟩ = none →
      (receive s a (.rtp ssrc seq ts m)).rtpLatched = false ∧
      (receive s a (.rtp ssrc seq ts m)).prob =
        some ⟨tableOf (⟨a, seq, ts, m⟩ :: h), totalOf (⟨a, seq, ts, m⟩ :: h), p.max⟩) ∧
    (∀ w, winner ⟨tableOf (⟨a, seq, ts, m⟩ :: h), totalOf (⟨a, seq, ts, m⟩ :: h), p.max⟩ = some w →
      (receive s a (.rtp ssrc seq ts m)).rtpLatched = true ∧ (receive s a (.rtp ssrc seq ts m)).remote = w ∧
      Documented ⟨tableOf (⟨a, seq, ts, m⟩ :: h), totalOf (⟨a, seq, ts, m⟩ :: h), p.max⟩ w) := by
  have htot : satInc totalMax (totalOf h) = totalOf (⟨a, seq, ts, m⟩ :: h) := by
    simp only [totalOf, capped, satInc, totalMax_eq, List.length_cons]
    split <;> split <;> (try split) <;> simp_all <;> omega
  have htab : observe (tableOf h) a seq ts m = tableOf (⟨a, seq, ts, m⟩ :: h) := by
    rw [← table_is_summary_of_history h, ← table_is_summary_of_history (⟨a, seq, ts, m⟩ :: h)]; rfl
  have hp1 : ({ p with total := satInc totalMax p.total, cands := observe p.cands a seq ts m } : Prob) =
      ⟨tableOf (⟨a, seq, ts, m⟩ :: h), totalOf (⟨a, seq, ts, m⟩ :: h), p.max⟩ := by
    rw [hc, ht, htab, htot]
  refine ⟨fun hw => ?_, fun w hw => ?_⟩
  · have := no_winner_step s a ssrc seq ts m p hon hl hp hleg (by rw [hp1]; exact hw)
    exact ⟨this.1, by rw [this.2.2, hp1]⟩
  · have := commit_step s a ssrc seq ts m p w hon hl hp hleg (by rw [hp1]; exact hw)
    exact ⟨this.2.1, this.1, winner_matches_documented_rules _ w hw⟩

open RtcModel.LatchHistory in
/-- the arming operations start the history at `[]` -/
example (a : Addr) (mx : Nat) (tcp : Bool) (h0 : 0 < mx) :
    (enableLatch (init a mx tcp)).prob = some ⟨tableOf [], totalOf [], mx⟩ ∧
    (resetLatch (enableLatch (init a mx tcp))).prob = some ⟨tableOf [], totalOf [], mx⟩ := by
  simp [enableLatch, init, resetLatch, freshProb, h0, tableOf, totalOf, srcs, capped, totalMax_eq]

/-! ### Commit within the configured number of probation packets -/

/-- probation bookkeeping invariant: the counter is strictly below the (u8) limit -/
def PInv (p : Prob) : Prop := p.total < p.max ∧ p.max ≤ 255

/-- number of expected-SSRC RTP packets in an op sequence, each judged against the expectation in
force when it arrives -/
def legitCount (s : St) : List Op → Nat
  | [] => 0
  | o :: os => (match o with | .pkt _ k => if Legit s k then 1 else 0 | _ => 0) + legitCount (step s o) os

/-- the sequence contains nothing that (re)arms the probation window: no `reset_latch`, no signaling
retarget, no `enable_latch_on_rtp`, no *change* of the expected SSRC. Selected-pair updates, RTCP
address updates, `set_probation_max_packets` and re-announcing the same SSRC are allowed. -/
def NoRearm (s : St) : List Op → Prop
  | [] => True
  | o :: os => (match o with
      | .reset | .sig _ | .enable => False
      | .ssrc v => v = s.expected
      | _ => True) ∧ NoRearm (step s o) os

def decNoRearm : (s : St) → (ops : List Op) → Decidable (NoRearm s ops)
  | _, [] => isTrue trivial
  | s, o :: os =>
    have : Decidable (NoRearm (step s o) os) := decNoRearm (step s o) os
    by unfold NoRearm; cases o <;> simp only [] <;> infer_instance
instance (s : St) (ops : List Op) : Decidable (NoRearm s ops) := decNoRearm s ops

/-- **commit_within_max_packets**: for every operation sequence that does not re-arm the window —
packets of any kind from any sources in any order, interleaved with pair / RTCP-address / window-size
updates — once the number of expected-SSRC RTP packets reaches what is left of the probation
window the latch has committed. No bound on the length of the sequence. -/
theorem commit_within_max_packets (ops : List Op) (s : St) (p : Prob)
    (hon : s.latchOn = true) (hl : s.rtpLatched = false) (hp : s.prob = some p) (hinv : PInv p)
    (hno : NoRearm s ops) (hcount : p.max - p.total ≤ legitCount s ops) :
    (run s ops).rtpLatched = true := by
  induction ops generalizing s p with
  | nil => simp [legitCount] at hcount; unfold PInv at hinv; omega
  | cons o os ih =>
    simp only [run, List.foldl_cons]
    obtain ⟨ho, hno'⟩ := hno
    -- once latched, the rest of a non-rearming sequence keeps it
    have latched_rest : ∀ (t : St) (l : List Op), t.latchOn = true → t.rtpLatched = true → NoRearm t l →
        (run t l).rtpLatched = true := by
      intro t l
      induction l generalizing t with
      | nil => intro _ h _; simpa [run]
      | cons y l ihl =>
        intro hton ht hn
        have hy : NonReset y := by
          have := hn.1; cases y <;> simp_all [NonReset]
        have h1 := latched_sticky_step t y hton ht hy
        simp only [run, List.foldl_cons]
        exact ihl _ h1.2.2 h1.2.1 hn.2
    -- an op that is not a legit packet keeps the window as it is
    have keep : (step s o).latchOn = true → (step s o).rtpLatched = false → (step s o).prob = some p →
        legitCount s (o :: os) = legitCount (step s o) os → (List.foldl step (step s o) os).rtpLatched = true := by
      intro h1 h2 h3 h4
      exact ih (step s o) p h1 h2 h3 hinv hno' (by rw [← h4]; exact hcount)
    cases o with
    | pkt a k =>
      by_cases hk : Legit s k
      · cases k <;> simp [Legit] at hk
        rename_i ssrc seq ts m
        have hinv' := hinv
        unfold PInv at hinv'
        rcases legit_packet_progress s a ssrc seq ts m p hon hl hp hinv.1 hinv.2 hk with h | ⟨h1, h2, p', hp', ht, hm, hlt'⟩
        · exact latched_rest _ _ (by simp [step, receive, hon]) h hno'
        · refine ih _ p' h2 h1 hp' ⟨hlt', by omega⟩ hno' ?_
          have : legitCount s (Op.pkt a (Kind.rtp ssrc seq ts m) :: os) =
              1 + legitCount (step s (Op.pkt a (Kind.rtp ssrc seq ts m))) os := by
            simp [legitCount, Legit, hk]
          omega
      · have hf := nonlegit_frame s a k (by
          cases k <;> simp_all [Legit])
        refine keep (hf.2.2.trans hon) (hf.2.1.trans hl) (hf.1.trans hp) ?_
        simp [legitCount, hk]
    | enable => exact absurd ho (by simp)
    | reset => exact absurd ho (by simp)
    | sig a => exact absurd ho (by simp)
    | pair a =>
      refine keep ?_ ?_ ?_ (by simp [legitCount]) <;>
        (simp only [step, setFromPair]; split <;> simp_all)
    | ssrc v =>
      have hv : s.expected = v := by simpa using ho.symm
      refine keep ?_ ?_ ?_ (by simp [legitCount]) <;> simp [step, setExpectedSsrc_same s v hv, hon, hl, hp]
    | maxp v => exact keep (by simp [step, hon]) (by simp [step, hl]) (by simp [step, hp]) (by simp [legitCount])
    | rtcpAddr a =>
      exact keep (by simp [step, setRtcpAddr, hon]) (by simp [step, setRtcpAddr, hl])
        (by simp [step, setRtcpAddr, hp]) (by simp [legitCount])

/-- non-vacuity: the windows that `enable_latch_on_rtp`, `reset_latch` and a signaling retarget arm
satisfy `PInv` for every `u8` window size, and a concrete run meets all hypotheses of
`commit_within_max_packets` with interleaved RTCP, wrong-SSRC RTP and a pair update. -/
example (a : Addr) (m : Nat) (tcp : Bool) (h0 : 0 < m) (h255 : m ≤ 255) :
    ∃ p, (enableLatch (init a m tcp)).prob = some p ∧ PInv p ∧
      (resetLatch (enableLatch (init a m tcp))).prob = some p ∧
      (setFromSignaling (enableLatch (init a m tcp)) a).prob = some p := by
  refine ⟨⟨[], 0, m⟩, ?_, ⟨h0, h255⟩, ?_, ?_⟩ <;>
    simp [enableLatch, init, resetLatch, setFromSignaling, freshProb, h0]

example :
    let s := run (init ⟨0, 0⟩ 2 false) [.ssrc 7, .enable]
    let ops : List Op := [.pkt ⟨1, 5001⟩ .rtcp, .pkt ⟨1, 5001⟩ (.rtp 7 10 0 false), .pair ⟨5, 5005⟩,
      .pkt ⟨3, 5003⟩ (.rtp 9 1 0 true), .pkt ⟨2, 5002⟩ (.rtp 7 20 0 false)]
    s.latchOn = true ∧ s.rtpLatched = false ∧ s.prob = some ⟨[], 0, 2⟩ ∧ PInv ⟨[], 0, 2⟩ ∧
    NoRearm s ops ∧ 2 - 0 ≤ legitCount s ops ∧ (run s ops).rtpLatched = true := by
  refine ⟨by decide, by decide, by decide, ⟨by decide, by decide⟩, by decide, by decide, by decide⟩

/-- `set_probation_max_packets` takes an `Option<u8>` -/
def U8Op : Op → Prop
  | .maxp v => v ≤ 255
  | _ => True

/-- every open window satisfies the bookkeeping invariant and the configured size fits `u8` -/
def WinOk (s : St) : Prop := s.maxPackets ≤ 255 ∧ ∀ p, s.prob = some p → PInv p

/-- **window_invariant**: `PInv` (the hypothesis of `commit_within_max_packets`) holds for the window of
EVERY state reachable from a new connection by any operation sequence — it is not an extra assumption.
Note what "configured" means: a window keeps the size it was armed with (`enable_latch_on_rtp` keeps an
existing window, `set_probation_max_packets` does not re-arm); `commit_within_max_packets` is about
the window in force. -/
theorem window_invariant (a : Addr) (m : Nat) (tcp : Bool) (hm : m ≤ 255) (ops : List Op)
    (hops : ∀ o ∈ ops, U8Op o) : WinOk (run (init a m tcp) ops) := by
  have hstep : ∀ (s : St) (o : Op), WinOk s → U8Op o → WinOk (step s o) := by
    intro s o ⟨h255, hp⟩ ho
    cases o with
    | pkt a k =>
      refine ⟨by cases k <;> simp [step, receive, h255], ?_⟩
      intro p' hp'
      by_cases hk : Legit s k
      · cases k <;> simp [Legit] at hk
        rename_i ssrc seq ts mk
        by_cases hact : s.latchOn = true ∧ s.rtpLatched = false
        · obtain ⟨hon, hl⟩ := hact
          cases hpr : s.prob with
          | none =>
            have : (receive s a (.rtp ssrc seq ts mk)).prob = none := by
              simp [receive, rtpLatch, adopt_on s a hon, hon, hl, hpr, hk]
            simp [step, this] at hp'
          | some p =>
            have hi := hp p hpr
            rcases legit_packet_progress s a ssrc seq ts mk p hon hl hpr hi.1 hi.2 hk with h | ⟨_, _, q, hq, _, hqm, hqlt⟩
            · cases hwn : winner { p with total := satInc totalMax p.total, cands := observe p.cands a seq ts mk } with
              | some w => simp [step, (commit_step s a ssrc seq ts mk p w hon hl hpr hk hwn).2.2] at hp'
              | none => simp [(no_winner_step s a ssrc seq ts mk p hon hl hpr hk hwn).1] at h
            · simp only [step, hq, Option.some.injEq] at hp'
              subst hp'
              exact ⟨hqlt, by rw [hqm]; exact hi.2⟩
        · have : (receive s a (.rtp ssrc seq ts mk)).prob = s.prob := by
            by_cases hon : s.latchOn = true
            · have hl : s.rtpLatched = true := by
                by_cases hl : s.rtpLatched = true
                · exact hl
                · exact absurd ⟨hon, by simpa using hl⟩ hact
              simp [receive, adopt_on s a hon, rtpLatch_latched _ _ _ _ _ _ _ hl]
            · have hoff : s.latchOn = false := by simpa using hon
              simp [receive, rtpLatch_off _ _ _ _ _ _ _ (show (adopt s a).latchOn = false by simp [hoff])]
          exact hp p' (by simpa [step, this] using hp')
      · exact hp p' (by simpa [step, (nonlegit_frame s a k hk).1] using hp')
    | enable =>
      refine ⟨by simp only [step, enableLatch]; split <;> (try split) <;> simpa using h255, ?_⟩
      intro p' hp'
      simp only [step, enableLatch] at hp'
      split at hp'
      · rename_i hpos
        split at hp'
        · simp at hp'; subst hp'; exact ⟨hpos, h255⟩
        · exact hp p' (by simpa using hp')
      · simp at hp'
    | reset =>
      refine ⟨by simpa [step, resetLatch] using h255, ?_⟩
      intro p' hp'
      simp only [step, resetLatch, freshProb] at hp'
      split at hp' <;> simp at hp'
      rename_i hc; subst hp'; exact ⟨hc.2, h255⟩
    | sig x =>
      refine ⟨by simpa [step, setFromSignaling, resetLatch] using h255, ?_⟩
      intro p' hp'
      simp only [step, setFromSignaling, resetLatch, freshProb] at hp'
      split at hp' <;> simp at hp'
      rename_i hc; subst hp'; exact ⟨hc.2, h255⟩
    | pair x =>
      refine ⟨by simp only [step, setFromPair]; split <;> simpa using h255, ?_⟩
      intro p' hp'
      exact hp p' (by simp only [step, setFromPair] at hp'; split at hp' <;> simpa using hp')
    | ssrc v =>
      refine ⟨by simpa [step] using h255, ?_⟩
      intro p' hp'
      by_cases he : s.expected = v
      · exact hp p' (by simpa [step, setExpectedSsrc_same s v he] using hp')
      · simp only [step, setExpectedSsrc, he, ne_eq, not_false_eq_true, ↓reduceIte] at hp'
        simp at hp'
        obtain ⟨q, hq, rfl⟩ := hp'
        have := hp q hq
        exact ⟨by have := this.1; simp; omega, this.2⟩
    | maxp v => exact ⟨by simpa [step, U8Op] using ho, fun p' hp' => hp p' (by simpa [step] using hp')⟩
    | rtcpAddr x => exact ⟨by simpa [step, setRtcpAddr] using h255, fun p' hp' => hp p' (by simpa [step, setRtcpAddr] using hp')⟩
  have hrun : ∀ (ops : List Op) (s : St), WinOk s → (∀ o ∈ ops, U8Op o) → WinOk (run s ops) := by
    intro ops
    induction ops with
    | nil => intro s h _; exact h
    | cons o os ih =>
      intro s h ho
      simp only [run, List.foldl_cons]
      exact ih _ (hstep s o h (ho o (by simp))) (fun o' ho' => ho o' (by simp [ho']))
  exact hrun ops _ ⟨by simpa [init] using hm, by intro p hp; simp [init] at hp⟩ hops

/-! ### The destination only moves to legitimate sources -/

/-- `win`: the addresses from which RTP carrying the *currently* expected SSRC (any RTP when none
is known) was received since the probation window was last (re)armed. Cleared by `reset_latch`, a
signaling retarget and a change of the expected SSRC. -/
def winStep (s : St) (win : List Addr) : Op → List Addr
  | .pkt a k => if Legit s k then win ++ [a] else win
  | .reset | .sig _ => []
  | .ssrc v => if v = s.expected then win else []
  | _ => win

/-- latching is enabled and every candidate of the probation table is in `win` -/
def Inv (s : St) (win : List Addr) : Prop :=
  s.latchOn = true ∧ ∀ p, s.prob = some p → ∀ c ∈ p.cands, c.addr ∈ win

/-- what one operation may do to the RTP destination:
* a packet — only an expected-SSRC RTP packet arriving while the latch is open moves it, and only
  to its own source or to an earlier source of such RTP in the current window;
* a signaling retarget sets it to the signaled address;
* a selected-pair update sets it to the pair address only while the latch is open;
* nothing else changes it. -/
def StepOk (s : St) (win : List Addr) (o : Op) : Prop :=
  match o with
  | .pkt a k => (step s o).remote = s.remote ∨
      (Legit s k ∧ s.rtpLatched = false ∧ ((step s o).remote = a ∨ (step s o).remote ∈ win))
  | .sig a => (step s o).remote = a
  | .pair a => (step s o).remote = s.remote ∨ ((step s o).remote = a ∧ s.rtpLatched = false)
  | _ => (step s o).remote = s.remote

def AllStepsOk (s : St) (win : List Addr) : List Op → Prop
  | [] => True
  | o :: os => StepOk s win o ∧ AllStepsOk (step s o) (winStep s win o) os

private theorem move_step (s : St) (win : List Addr) (o : Op) (hi : Inv s win) :
    StepOk s win o ∧ Inv (step s o) (winStep s win o) := by
  obtain ⟨hon, hc⟩ := hi
  have hmono : ∀ l, ∀ p, s.prob = some p → ∀ c ∈ p.cands, c.addr ∈ win ++ l :=
    fun l p hp' c hc' => by simp [hc p hp' c hc']
  cases o with
  | pkt a k =>
    have had := adopt_on s a hon
    by_cases hk : Legit s k
    · cases k <;> simp [Legit] at hk
      rename_i ssrc seq ts m
      have hwin : winStep s win (.pkt a (.rtp ssrc seq ts m)) = win ++ [a] := by simp [winStep, Legit, hk]
      rw [hwin]
      by_cases hl : s.rtpLatched = false
      · cases hpr : s.prob with
        | none =>
          have h := immediate_step s a ssrc seq ts m hon hl hpr hk
          refine ⟨Or.inr ⟨by simp [Legit, hk], hl, Or.inl (by simp [step, h.2])⟩, by simp [step, receive, hon], ?_⟩
          intro p' hp'; simp [step, receive, rtpLatch, had, hon, hl, hpr, hk] at hp'
        | some p =>
          cases hwn : winner { p with total := satInc totalMax p.total, cands := observe p.cands a seq ts m } with
          | some w =>
            have h := commit_step s a ssrc seq ts m p w hon hl hpr hk hwn
            obtain ⟨c, hcm, hca⟩ := winner_mem _ _ hwn
            have hw : w = a ∨ w ∈ win := by
              rcases observe_addr_mem _ _ _ _ _ _ hcm with h' | ⟨c', hc', he⟩
              · left; rw [← hca, h']
              · right; rw [← hca, ← he]; exact hc p hpr c' hc'
            refine ⟨Or.inr ⟨by simp [Legit, hk], hl, by simpa [step, h.1] using hw⟩, by simp [step, receive, hon], ?_⟩
            intro p' hp'; simp [step, h.2.2] at hp'
          | none =>
            have h := no_winner_step s a ssrc seq ts m p hon hl hpr hk hwn
            refine ⟨Or.inr ⟨by simp [Legit, hk], hl, Or.inl (by simp [step, h.2.1])⟩, by simp [step, receive, hon], ?_⟩
            intro p' hp' c hcm
            simp only [step, h.2.2, Option.some.injEq] at hp'
            subst hp'
            rcases observe_addr_mem _ _ _ _ _ _ hcm with h' | ⟨c', hc', he⟩
            · simp [h']
            · simp [← he, hc p hpr c' hc']
      · have hl' : s.rtpLatched = true := by simpa using hl
        have : receive s a (.rtp ssrc seq ts m) = s := by
          simp [receive, had, rtpLatch_latched _ _ _ _ _ _ _ hl']
        refine ⟨Or.inl (by simp [step, this]), by simp [step, this, hon], ?_⟩
        intro p' hp'; simp only [step, this] at hp'; exact hmono _ p' hp'
    · have hf := nonlegit_frame s a k hk
      have hr : (receive s a k).remote = s.remote := by
        cases k <;> simp [receive, had]
        rename_i ssrc seq ts m
        simp [Legit] at hk; simp [rtpLatch, hk]
      have hwin : winStep s win (.pkt a k) = win := by simp [winStep, hk]
      rw [hwin]
      refine ⟨Or.inl (by simp [step, hr]), by simp [step, hf.2.2, hon], ?_⟩
      intro p' hp'; simp only [step, hf.1] at hp'; exact hc p' hp'
  | enable =>
    refine ⟨by simp [StepOk, step], by simp [step], ?_⟩
    intro p' hp'
    simp only [step, enableLatch] at hp'
    split at hp'
    · split at hp'
      · simp at hp'; subst hp'; simp
      · exact hc p' (by simpa using hp')
    · simp at hp'
  | reset =>
    refine ⟨by simp [StepOk, step, resetLatch], by simp [step, resetLatch, hon], ?_⟩
    intro p' hp' c hcm
    -- the table is EMPTY after a reset (`resetLatch_fresh`): no pre-reset source stays eligible
    simp [(resetLatch_fresh s p' (by simpa [step] using hp')).1] at hcm
  | sig a =>
    refine ⟨by simp [StepOk, step, setFromSignaling], by simp [step, setFromSignaling, resetLatch, hon], ?_⟩
    intro p' hp' c hcm
    simp [(setFromSignaling_fresh s a p' (by simpa [step] using hp')).1] at hcm
  | pair a =>
    simp only [StepOk, step, setFromPair, winStep]
    split
    · exact ⟨Or.inl rfl, hon, hc⟩
    · rename_i hg
      refine ⟨?_, by simpa using hon, fun p' hp' => hc p' hp'⟩
      by_cases hra : s.remote = a
      · left; simp [hra]
      · right; refine ⟨rfl, ?_⟩
        simp [hon, hra] at hg; simpa using hg
  | ssrc v =>
    refine ⟨by simp [StepOk, step], by simp [step, hon], ?_⟩
    intro p' hp'
    by_cases he : s.expected = v
    · simp only [step, setExpectedSsrc_same s v he] at hp'
      simp only [winStep, he.symm, ↓reduceIte]; exact hc p' hp'
    · intro c hcm
      simp [(setExpectedSsrc_fresh s v he p' (by simpa [step] using hp')).1] at hcm
  | maxp v => exact ⟨by simp [StepOk, step], by simpa [step] using hon, fun p' hp' => hc p' (by simpa [step] using hp')⟩
  | rtcpAddr a => exact ⟨by simp [StepOk, step, setRtcpAddr], by simpa [step, setRtcpAddr] using hon,
      fun p' hp' => hc p' (by simpa [step, setRtcpAddr] using hp')⟩

/-- **move_only_to_legit_source**: along EVERY operation sequence with latching enabled, every
single change of the RTP destination is one that `StepOk` allows: caused by an expected-SSRC RTP
packet and going to a source of such RTP in the current window (its own source or an earlier
candidate), or an explicit signaling retarget / selected-pair update while the latch is open.
RTCP, wrong-SSRC RTP, DTLS or garbage from any address never move it — also when the destination
is unset (port 0) or the socket is a TCP stream; sources seen before a reset, a retarget or a change
of the expected SSRC are not eligible afterwards. -/
theorem move_only_to_legit_source (ops : List Op) (s : St) (win : List Addr) (hi : Inv s win) :
    AllStepsOk s win ops := by
  induction ops generalizing s win with
  | nil => trivial
  | cons o os ih =>
    have h := move_step s win o hi
    exact ⟨h.1, ih _ _ h.2⟩

/-- non-vacuity of `Inv`: any connection right after `enable_latch_on_rtp`, with nothing observed
yet; and a run in which the destination does move (so `StepOk`'s right-hand sides are inhabited) -/
example (a : Addr) (m : Nat) (tcp : Bool) : Inv (enableLatch (init a m tcp)) [] := by
  refine ⟨by simp, ?_⟩
  intro p hp
  by_cases hm : m > 0 <;> simp [enableLatch, init, hm] at hp
  subst hp; simp

example : (run (enableLatch (init ⟨0, 0⟩ 3 false)) [.pkt ⟨1, 5001⟩ (.rtp 7 1 0 false)]).remote = ⟨1, 5001⟩ := by decide

/-- **move_by_pair_update_witness** (known finding `pc:move:stun-request-moved-open-destination`): clause 1
read literally — "the RTP send address can only move to an address from which RTP carrying the expected
SSRC was received" — is FALSE for selected-pair updates while the latch is open: the destination moves
to the pair address, which need not be in the window. In RTP mode such an update is caused by an
unauthenticated STUN binding request from the pair's port on another IP (`ice/mod.rs`). What does
hold is `move_only_to_legit_source` (clause 1 for every packet-caused move; pair updates only while
open and only to the pair address) and `latched_sticky` (refused once latched). -/
theorem move_by_pair_update_witness :
    ¬ (∀ (s : St) (win : List Addr) (a : Addr), Inv s win →
        (step s (.pair a)).remote = s.remote ∨ (step s (.pair a)).remote ∈ win) := by
  intro h
  have := h (run (init ⟨9, 5009⟩ 6 false) [.ssrc 7, .enable]) [] ⟨3, 5009⟩
    ⟨by decide, by
      intro p hp c hc
      have hp' : (run (init ⟨9, 5009⟩ 6 false) [.ssrc 7, .enable]).prob = some ⟨[], 0, 6⟩ := by decide
      rw [hp'] at hp; simp at hp; subst hp; simp at hc⟩
  revert this; decide

example :
    let s := run (init ⟨9, 5009⟩ 6 false) [.ssrc 7, .enable]
    (step s (.pair ⟨3, 5009⟩)).remote = ⟨3, 5009⟩ ∧
    (step (step s (.pkt ⟨1, 5001⟩ (.rtp 7 1 0 true))) (.pair ⟨3, 5009⟩)).remote = ⟨1, 5001⟩ := by decide

/-! ### A signaling reset starts a fresh selection -/

/-- what a connection keeps across `reset_latch`: everything except the two latched flags and
the probation table -/
def SameConfig (s1 s2 : St) : Prop :=
  s1.rtcpRemote = s2.rtcpRemote ∧ s1.latchOn = s2.latchOn ∧ s1.expected = s2.expected ∧
  s1.maxPackets = s2.maxPackets ∧ s1.tcp = s2.tcp

/-- **reset_starts_fresh_selection**: after `reset_latch` / a signaling retarget the latch is open and
the window is fresh (no candidates, no packets counted, configured size) — and NOTHING of what was
observed before can influence anything afterwards: two connections that differ arbitrarily in their
probation tables and latched flags (i.e. in the packets they saw before) behave identically, state
for state, on every later operation sequence. In particular no pre-reset packet votes in a later
rule-3 majority and the destination cannot return to a source that sent nothing since the reset
(`move_only_to_legit_source`: the window `win` restarts empty). -/
theorem reset_starts_fresh_selection (s1 s2 : St) (h : SameConfig s1 s2) (a : Addr) (ops : List Op) :
    (s1.remote = s2.remote → run (resetLatch s1) ops = run (resetLatch s2) ops) ∧
    run (setFromSignaling s1 a) ops = run (setFromSignaling s2 a) ops ∧
    (resetLatch s1).rtpLatched = false ∧ (setFromSignaling s1 a).rtpLatched = false ∧
    (∀ p, (resetLatch s1).prob = some p ∨ (setFromSignaling s1 a).prob = some p →
      p.cands = [] ∧ p.total = 0 ∧ p.max = s1.maxPackets) := by
  obtain ⟨h1, h2, h3, h4, h5⟩ := h
  refine ⟨fun hr => ?_, ?_, by simp [resetLatch], by simp [setFromSignaling, resetLatch], ?_⟩
  · have : resetLatch s1 = resetLatch s2 := by
      cases s1; cases s2; simp_all [resetLatch, freshProb]
    rw [this]
  · have : setFromSignaling s1 a = setFromSignaling s2 a := by
      cases s1; cases s2; simp_all [setFromSignaling, resetLatch, freshProb]
    rw [this]
  · rintro p (hp | hp)
    · exact resetLatch_fresh s1 p hp
    · exact setFromSignaling_fresh s1 a p hp

/-- non-vacuity / the coordinator's seed C18-b scenario (window 4, old source B sends 3 packets, reset in the
open window with the SAME expected SSRC, new source A sends one packet): nothing is decided after A's first
packet, the table holds only A, and the destination is A — B does not come back. -/
example :
    let s := run (init ⟨9, 5009⟩ 4 false) [.ssrc 7, .enable, .pkt ⟨2, 5002⟩ (.rtp 7 10 0 false),
      .pkt ⟨2, 5002⟩ (.rtp 7 20 0 false), .pkt ⟨2, 5002⟩ (.rtp 7 30 0 false)]
    let t := run s [.reset, .pkt ⟨1, 5001⟩ (.rtp 7 500 0 false)]
    s.rtpLatched = false ∧ (∃ p, s.prob = some p ∧ p.total = 3) ∧
    t.rtpLatched = false ∧ t.remote = ⟨1, 5001⟩ ∧
    t.prob = some ⟨[⟨⟨1, 5001⟩, 500, 500, 0, 1, 0, false⟩], 1, 4⟩ := by
  refine ⟨by decide, ⟨_, rfl, by decide⟩, by decide, by decide, by decide⟩

/-! ### An API call racing with `receive`

`RtcModel.LatchRace`: the receive thread and the API thread advance from yield point to yield point
in any order (a schedule is any `List Bool`); the probation mutex excludes the two critical sections;
the unlocked fast-path test of `rtp_latched` may observe any intermediate state. -/

open RtcModel.LatchRace in
/-- **latch_api_serializable**: for every initial state with latching enabled, every RTP packet,
each of the three latch API calls (`reset_latch`, signaling retarget, selected-pair update) and
EVERY schedule that lets both threads finish, the final state is the state reached by running the
two calls one after the other in one of the two orders — so every sequential theorem above
(stickiness, legitimacy of moves, commit) also holds when the API call comes from another task
while a packet is being received. MUTUAL EXCLUSION of the two critical sections is an ASSUMPTION built
into `LatchRace.stepR/stepA` (a thread at `before-lock` does not move while the other section is
open), not something this theorem proves about the code; on the real code it is OBSERVED by the race
executor (`try_lock` probe: `race:critical-section-without-the-mutex`, `race:mutual-exclusion-violated`). (False before the lock-discipline `fix:`; the failing schedules
were executed on the real code, see `known_findings.d/C18.json`.) -/
theorem latch_api_serializable (s0 : St) (a : Addr) (ssrc seq ts : Nat) (m : Bool) (api : Op) (A : Crit)
    (hA : apiCrit api = some A) (hon : s0.latchOn = true) (sched : List Bool)
    (hr : rDone (runSched (recvCrit a ssrc seq ts m) A (Sys.init s0) sched).r = true)
    (ha : aDone (runSched (recvCrit a ssrc seq ts m) A (Sys.init s0) sched).a = true) :
    (runSched (recvCrit a ssrc seq ts m) A (Sys.init s0) sched).st
        = step (step s0 (.pkt a (.rtp ssrc seq ts m))) api ∨
    (runSched (recvCrit a ssrc seq ts m) A (Sys.init s0) sched).st
        = step (step s0 api) (.pkt a (.rtp ssrc seq ts m)) := by
  have hrecv : ∀ t : St, t.latchOn = true →
      (recvCrit a ssrc seq ts m).full t = receive t a (.rtp ssrc seq ts m) := by
    intro t ht; simp [recvCrit, receive, adopt_on t a ht]
  cases api <;> simp [apiCrit] at hA <;> subst hA
  · -- reset_latch
    have h := reach_done _ _ (facts_reset a ssrc seq ts m) s0 _
      (reach_run _ _ (facts_reset a ssrc seq ts m) s0 sched _ (reach_init _ _ s0)) hr ha
    rw [hrecv s0 hon, hrecv _ (by simp [resetCrit, resetLatch, hon])] at h
    simpa [step, resetCrit] using h
  · -- signaling retarget
    rename_i x
    have h := reach_done _ _ (facts_sig a ssrc seq ts m x) s0 _
      (reach_run _ _ (facts_sig a ssrc seq ts m x) s0 sched _ (reach_init _ _ s0)) hr ha
    rw [hrecv s0 hon, hrecv _ (by simp [sigCrit, setFromSignaling, resetLatch, hon])] at h
    simpa [step, sigCrit] using h
  · -- selected-pair update
    rename_i x
    have h := reach_done _ _ (facts_pair a ssrc seq ts m x) s0 _
      (reach_run _ _ (facts_pair a ssrc seq ts m x) s0 sched _ (reach_init _ _ s0)) hr ha
    have hp : (setFromPair s0 x).latchOn = true := by unfold setFromPair; split <;> simp [hon]
    rw [hrecv s0 hon, hrecv _ (by simpa [pairCrit] using hp)] at h
    simpa [step, pairCrit] using h

open RtcModel.LatchRace in
/-- non-vacuity: a schedule in which the retarget overtakes a committing packet between its unlocked
test and its critical section finishes, and the outcome is the api-first order (which differs from
the receive-first order) -/
example :
    let s0 := run (init ⟨9, 5009⟩ 6 false) [.ssrc 7, .enable]
    let y := runSched (recvCrit ⟨1, 5001⟩ 7 10 10 true) (sigCrit ⟨4, 5004⟩) (Sys.init s0)
      [true, false, false, false, false, true, true, true, true]
    rDone y.r = true ∧ aDone y.a = true ∧
    y.st = step (step s0 (.sig ⟨4, 5004⟩)) (.pkt ⟨1, 5001⟩ (.rtp 7 10 10 true)) ∧
    y.st ≠ step (step s0 (.pkt ⟨1, 5001⟩ (.rtp 7 10 10 true))) (.sig ⟨4, 5004⟩) := by decide

/-! ### Superseded code (kept as documentation of what the three round-2 fixes changed)

`adoptOld` / `winnerOld` are the pre-fix definitions; nothing else refers to them. -/

/-- pre-fix top of `receive`: adoption regardless of latching -/
def adoptOld (s : St) (addr : Addr) : St :=
  if s.remote.port = 0 ∨ (s.tcp ∧ s.remote ≠ addr) then { s with remote := addr } else s

/-- superseded: with the old adoption one RTCP packet set an unset RTP destination although
latching was enabled (replayed on the real pre-fix code: `init,1,5001,3,0 ss,7 en sg,1,0 p,2,5002,80c9…`) -/
example : let s := run (init ⟨1, 5001⟩ 3 false) [.ssrc 7, .enable, .sig ⟨1, 0⟩]
    s.latchOn = true ∧ (rtcpLearn (adoptOld s ⟨2, 5002⟩) ⟨2, 5002⟩).remote = ⟨2, 5002⟩ ∧
    (receive s ⟨2, 5002⟩ .rtcp).remote = ⟨1, 0⟩ := by decide

/-- pre-fix branch order: marker, timeout, run -/
def winnerOld (p : Prob) : Option Addr :=
  match minByFirstSeq (p.cands.filter (·.hasMarker)) with
  | some mw => some mw.addr
  | none =>
    if p.total ≥ p.max then (maxByRule3 p.cands).map (·.addr)
    else (runWinner p).map (·.addr)

/-- superseded: the old order violated the documented rules on the audit's table -/
example :
    let p : Prob := ⟨[⟨⟨2, 5002⟩, 1, 20, 0, 3, 0, false⟩, ⟨⟨1, 5001⟩, 100, 102, 0, 3, 2, false⟩], 6, 6⟩
    winnerOld p = some ⟨2, 5002⟩ ∧ ¬ Documented p ⟨2, 5002⟩ := by
  refine ⟨by decide, ?_⟩
  rintro (⟨c, ⟨hc, hm, _⟩, _⟩ | ⟨_, c, ⟨hc, hcc, _⟩, ha⟩ | ⟨_, h2, _⟩)
  · simp at hc; rcases hc with rfl | rfl <;> simp at hm
  · simp at hc; rcases hc with rfl | rfl <;> simp at hcc ha
  · exact h2 ⟨⟨⟨1, 5001⟩, 100, 102, 0, 3, 2, false⟩, by simp, by decide, by decide⟩

end RtcModel.Theorems.C18
