/-
C04 — SRTP/SRTCP protection round-trips and matches an independent implementation.
Property theorems only; helper lemmas live in `RtcModel/Lemmas/Srtp*.lean`.

The model (`RtcModel/Srtp*.lean`) mirrors `src/srtp.rs` and the header code of `src/rtp.rs`; the
cipher suite is a parameter (`Suite`) whose law fields are proved for the concrete AES-CM /
HMAC-SHA1 / AES-GCM functions the driver runs (`RtcModel/SrtpConcrete.lean`).
-/
import RtcModel.Srtp
import RtcModel.Lemmas.SrtpRoc
import RtcModel.Lemmas.SrtpHeader
import RtcModel.Lemmas.Srtp
import RtcModel.Lemmas.SrtpTable

namespace RtcModel.Theorems.C04
open RtcModel.Srtp RtcModel.C04 RtcModel.Generated

/-! ### Generated-constant obligations -/

/-- the two rollover thresholds are the half range of the 16-bit sequence space -/
theorem const_roc_thresholds : rocAheadThreshold = 32768 ∧ rocBehindThreshold = 32768 := by decide

/-- tag / salt / key lengths per profile as RFC 3711, RFC 7714 and RFC 5764 §4.1.2 require
(in particular SRTCP keeps the 80-bit tag in the `_32` profile) -/
theorem const_profile_table :
    Profile.cm80.tagLen = 10 ∧ Profile.cm32.tagLen = 4 ∧ Profile.gcm.tagLen = 16 ∧ Profile.null.tagLen = 10 ∧
    Profile.cm80.rtcpTagLen = 10 ∧ Profile.cm32.rtcpTagLen = 10 ∧ Profile.gcm.rtcpTagLen = 16 ∧
    Profile.null.rtcpTagLen = 10 ∧
    Profile.cm80.saltLen = 14 ∧ Profile.gcm.saltLen = 12 ∧ srtpKeyLen = 16 ∧ srtpSha1Len = 20 ∧
    Profile.cm80.authKeyLen = 20 ∧ Profile.cm32.authKeyLen = 20 ∧ Profile.gcm.authKeyLen = 0 := by decide

/-- KDF labels 0‥5 (RFC 3711 §4.3.2) at byte 7 of the IV, 14 salt bytes; E bit and index mask -/
theorem const_kdf_and_srtcp :
    [kdfLabelRtpCipher, kdfLabelRtpAuth, kdfLabelRtpSalt, kdfLabelRtcpCipher, kdfLabelRtcpAuth, kdfLabelRtcpSalt]
      = [0, 1, 2, 3, 4, 5] ∧ kdfLabelByte = 7 ∧ kdfSaltTake = 14 ∧
    srtcpEBit = 2 ^ 31 ∧ srtcpIndexMask + 1 = 2 ^ 31 ∧ srtcpIndexMaskCm + 1 = 2 ^ 31 := by decide

/-! ### Rollover estimation -/

/-- **roc_estimate_correct**: for every receiver state `(roc, last)` and every true 48-bit index `I`
strictly within ±2^15 of the receiver's index `roc·2^16 + last`, the estimate computed from the
16-bit sequence number `I mod 2^16` alone is the true rollover count `I / 2^16`. All triples. -/
theorem roc_estimate_correct (roc last I : Nat) (hroc : roc < 2 ^ 32) (hlast : last < 2 ^ 16)
    (hI : I < 2 ^ 48)
    (hlo : (index48 roc last : Int) - I < 2 ^ 15) (hhi : (I : Int) - index48 roc last < 2 ^ 15) :
    estimateRoc roc (some last) (I % 2 ^ 16) = I / 2 ^ 16 :=
  estimate_in_window roc last _ I hroc hlast rfl hI (by simpa using hlo) (by simpa using hhi)

example : estimateRoc 1 (some 5) ((1 * 65536 - 3) % 2 ^ 16) = 0 ∧ estimateRoc 0 (some 65530) (65541 % 2 ^ 16) = 1 := by
  decide

/-- Boundary, exactly 2^15 **ahead** of the receiver: the sequence number is the same as for the
packet 2^15 behind, and the code resolves the tie to "same rollover count" — right iff
`last < 2^15` (then no wrap lies between). -/
theorem roc_estimate_boundary_ahead (roc last : Nat) (hroc : roc < 2 ^ 32) (hlast : last < 2 ^ 16) :
    let I := index48 roc last + 2 ^ 15
    estimateRoc roc (some last) (I % 2 ^ 16) = roc ∧ (roc = I / 2 ^ 16 ↔ last < 2 ^ 15) := by
  intro I
  simp only [I, index48]
  rw [estimateRoc_some]
  refine ⟨?_, by omega⟩
  split
  · omega
  · split <;> omega

/-- Boundary, exactly 2^15 **behind**: resolved to "same rollover count" — right iff `last ≥ 2^15`. -/
theorem roc_estimate_boundary_behind (roc last : Nat) (hroc : roc < 2 ^ 32) (hlast : last < 2 ^ 16)
    (hpos : 2 ^ 15 ≤ index48 roc last) :
    let I := index48 roc last - 2 ^ 15
    estimateRoc roc (some last) (I % 2 ^ 16) = roc ∧ (roc = I / 2 ^ 16 ↔ 2 ^ 15 ≤ last) := by
  intro I
  simp only [I, index48] at hpos ⊢
  rw [estimateRoc_some]
  refine ⟨?_, by omega⟩
  split
  · omega
  · split <;> omega

/-- the first packet of a context is taken at the context's rollover count (0 for a new context):
a receiver that joins after the first wrap cannot know the count (RFC 3711 behaviour). -/
theorem roc_estimate_first (roc seq : Nat) : estimateRoc roc none seq = roc := rfl

/-- **update_monotone**: `update` never moves the receiver's index backwards, and with the estimate
of an in-window packet it becomes the maximum of the old index and the packet's index. -/
theorem update_monotone (roc last seq r : Nat) :
    let st := updateRoc roc (some last) seq r
    ∃ l', st.2 = some l' ∧ index48 st.1 l' = max (index48 roc last) (index48 r seq) := by
  intro st
  simp only [st, updateRoc_some, index48]
  split
  · exact ⟨seq, rfl, by omega⟩
  · exact ⟨last, rfl, by omega⟩

/-! ### Index synchronisation over whole receive histories -/

/-- receiver rollover state -/
abbrev RocSt := Nat × Option Nat

/-- one received packet: only `I mod 2^16` is visible to the receiver; returns the new state and
the index the receiver reconstructed -/
def recvOne (st : RocSt) (I : Nat) : RocSt × Nat :=
  let e := estimateRoc st.1 st.2 (I % 65536)
  (updateRoc st.1 st.2 (I % 65536) e, index48 e (I % 65536))

/-- a whole receive history (true indices in arrival order): reconstructed indices, final state -/
def recvAll : RocSt → List Nat → List Nat × RocSt
  | st, [] => ([], st)
  | st, I :: rest =>
    let (st', i') := recvOne st I
    let (is', stf) := recvAll st' rest
    (i' :: is', stf)

/-- every arrival is strictly within ±2^15 of the highest index received so far (`hi`) -/
def InWindow : Nat → List Nat → Prop
  | _, [] => True
  | hi, I :: rest =>
    ((hi : Int) - I < 2 ^ 15 ∧ (I : Int) - hi < 2 ^ 15 ∧ I < 2 ^ 48) ∧ InWindow (max hi I) rest

theorem index_sync_from (roc last : Nat) (is : List Nat) (hroc : roc < 2 ^ 32) (hlast : last < 2 ^ 16)
    (hw : InWindow (index48 roc last) is) :
    (recvAll (roc, some last) is).1 = is ∧
    ∃ r l, (recvAll (roc, some last) is).2 = (r, some l) ∧ r < 2 ^ 32 ∧ l < 2 ^ 16 ∧
      index48 r l = is.foldl max (index48 roc last) := by
  induction is generalizing roc last with
  | nil => exact ⟨rfl, roc, last, rfl, hroc, hlast, rfl⟩
  | cons I rest ih =>
    obtain ⟨⟨h1, h2, h3⟩, hrest⟩ := hw
    have he := roc_estimate_correct roc last I hroc hlast h3 h1 h2
    simp only [Nat.reducePow] at he h1 h2 h3 hroc hlast
    have hdiv : I / 65536 < 4294967296 := by omega
    have hmod : I % 65536 < 65536 := Nat.mod_lt _ (by decide)
    have hidx : index48 (I / 65536) (I % 65536) = I := by simp only [index48]; omega
    simp only [recvAll, recvOne, he, hidx]
    rw [updateRoc_some]
    split
    · rename_i hgt
      have hmax : max (index48 roc last) I = index48 (I / 65536) (I % 65536) := by
        simp only [index48] at hgt ⊢; omega
      rw [hmax] at hrest
      obtain ⟨ha, r, l, hb, hc, hd, hf⟩ := ih (I / 65536) (I % 65536) (by simpa using hdiv) (by simpa using hmod) hrest
      refine ⟨by simp [ha], r, l, hb, hc, hd, ?_⟩
      simp only [List.foldl_cons, hmax, hf]
    · rename_i hle
      have hmax : max (index48 roc last) I = index48 roc last := by
        simp only [index48] at hle ⊢; omega
      rw [hmax] at hrest
      obtain ⟨ha, r, l, hb, hc, hd, hf⟩ := ih roc last (by simpa using hroc) (by simpa using hlast) hrest
      refine ⟨by simp [ha], r, l, hb, hc, hd, ?_⟩
      simp only [List.foldl_cons, hmax, hf]

/-- **index_sync**: a new receive context (`roc = 0`, no packet seen) that first sees a packet of
the sender's first cycle (`I₀ < 2^16`) and then any history — any loss pattern, any reordering, any
number of rollovers — in which each arrival is within ±2^15 of the highest index received so far,
reconstructs **every** 48-bit index exactly, and ends at the highest index received.
Induction over the receive history; no bound on its length. -/
theorem index_sync (I0 : Nat) (is : List Nat) (h0 : I0 < 2 ^ 16) (hw : InWindow I0 is) :
    (recvAll (0, none) (I0 :: is)).1 = I0 :: is ∧
    ∃ r l, (recvAll (0, none) (I0 :: is)).2 = (r, some l) ∧ index48 r l = is.foldl max I0 := by
  have hmod : I0 % 65536 = I0 := Nat.mod_eq_of_lt (by simpa using h0)
  have hst : recvOne (0, none) I0 = ((0, some I0), I0) := by
    simp [recvOne, hmod, index48]
  have hw' : InWindow (index48 0 I0) is := by simpa [index48] using hw
  obtain ⟨ha, r, l, hb, _, _, hf⟩ := index_sync_from 0 I0 is (by decide) h0 hw'
  simp only [recvAll, hst]
  refine ⟨by simp [ha], r, l, hb, ?_⟩
  simpa [index48] using hf

/-- the sender uses the same estimate on its own (forward-moving) sequence numbers: its rollover
count is the true one for every send history with steps below 2^15 — an instance of `index_sync`. -/
theorem sender_index_sync (I0 : Nat) (is : List Nat) (h0 : I0 < 2 ^ 16) (hw : InWindow I0 is) :
    (recvAll (0, none) (I0 :: is)).1 = I0 :: is := (index_sync I0 is h0 hw).1

/-- non-vacuity: three rollovers, loss, reordering across a wrap -/
example : InWindow 65530 [65540, 65535, 98000, 130000, 129999, 162000, 194000, 226000] := by
  simp [InWindow]

/-! ### Header re-serialisation -/

/-- **header_reserialise_id**: on every header `parse` accepts, `write_to` reproduces exactly the
bytes that were consumed — so authenticating the re-marshalled header (as `unprotect` does)
authenticates the received bytes. -/
theorem header_reserialise_id (raw : Bytes) (h : Hdr) (p : Bool) (body : Bytes)
    (hp : parseHdr raw = .ok (h, p, body)) :
    writeHdr h p ++ body = raw ∧ (writeHdr h p).length = encodedLen h :=
  ⟨parseHdr_write raw h p body hp, writeHdr_length h p⟩

/-- conversely every well-formed header (≤ 15 CSRCs, 7-bit payload type, 32-bit aligned extension
whose word count fits 16 bits) is parsed back from its serialisation, whatever follows it. -/
theorem header_parse_write (h : Hdr) (p : Bool) (body : Bytes) (wf : h.WF) :
    parseHdr (writeHdr h p ++ body) = .ok (h, p, body) := parseHdr_writeHdr h p body wf

example : Hdr.WF ⟨true, 96, 65535, 7, 0xdeadbeef, [1, 2], some ⟨0xBEDE, [1, 2, 3, 4]⟩⟩ := by
  constructor <;> simp <;> decide

/-! ### Round trip, from the suite laws only -/

/-- what the two ends must share: SSRC, profile and the derived session keys (rollover state,
SRTCP index and timestamps are free) -/
structure Paired (cs cr : Ctx) : Prop where
  ssrc : cr.ssrc = cs.ssrc
  profile : cr.profile = cs.profile
  rtp : cr.rtp = cs.rtp
  rtcp : cr.rtcp = cs.rtcp

/-- **unprotect_protect_rtp**: for every cipher suite satisfying the structural laws, every profile,
every well-formed packet (0–15 CSRCs, optional extension, padding 0–255, any payload length) and every
pair of contexts sharing the session keys whose rollover estimates for this sequence number agree
("synchronised index", see `index_sync`): `protect` succeeds, its output has the `protected_rtp_len`
length, the receiver's header parser recovers header and padding bit, and `unprotect` returns
exactly the original packet. -/
theorem unprotect_protect_rtp (S : Suite) (cs cr : Ctx) (p : Pkt) (wf : p.WF) (hpair : Paired cs cr)
    (hsync : cr.estimate p.hdr.seq = cs.estimate p.hdr.seq) :
    ∃ wire body, (cs.protectRtp S p).1 = .ok wire ∧
      wire.length = protectedRtpLen cs.profile p ∧
      parseHdr wire = .ok (p.hdr, decide (p.padLen ≠ 0), body) ∧
      (cr.unprotectRtp S p.hdr (p.padLen ≠ 0) body).1 = .ok p := by
  refine ⟨writeHdr p.hdr (p.padLen ≠ 0) ++ rtpWireBody S cs p (cs.estimate p.hdr.seq),
    rtpWireBody S cs p (cs.estimate p.hdr.seq), ?_, ?_, ?_, ?_⟩
  · rw [protectRtp_eq S cs p (validHdr_of_WF _ wf.hdr)]
  · simp only [List.length_append, writeHdr_length, rtpWireBody_length, protectedRtpLen]; omega
  · exact parseHdr_writeHdr _ _ _ wf.hdr
  · rw [← hsync, unprotect_wireBody S cs cr p wf hpair.ssrc hpair.profile hpair.rtp]

/-- after the round trip both ends hold the same rollover state whenever they did before -/
theorem roundtrip_keeps_sync (S : Suite) (cs cr : Ctx) (p : Pkt) (wf : p.WF) (hpair : Paired cs cr)
    (hroc : cr.roc = cs.roc) (hlast : cr.last = cs.last) :
    let body := rtpWireBody S cs p (cs.estimate p.hdr.seq)
    (cr.unprotectRtp S p.hdr (p.padLen ≠ 0) body).2.roc = (cs.protectRtp S p).2.roc ∧
    (cr.unprotectRtp S p.hdr (p.padLen ≠ 0) body).2.last = (cs.protectRtp S p).2.last := by
  have hsync : cr.estimate p.hdr.seq = cs.estimate p.hdr.seq := by simp [Ctx.estimate, hroc, hlast]
  intro body
  simp only [body]
  rw [← hsync, unprotect_wireBody S cs cr p wf hpair.ssrc hpair.profile hpair.rtp,
    protectRtp_eq S cs p (validHdr_of_WF _ wf.hdr)]
  simp [Ctx.updated, hroc, hlast, hsync]

/-- **protected_len**: the length formula of `protected_rtp_len`, and for RTCP `len + 4 + tag`. -/
theorem protected_len (S : Suite) (c : Ctx) (p : Pkt) (pkt : Bytes) (index : Nat) (wf : p.WF)
    (hlen : 8 ≤ pkt.length) :
    (∀ wire, (c.protectRtp S p).1 = .ok wire →
      wire.length = encodedLen p.hdr + p.payload.length + p.padLen + c.profile.tagLen) ∧
    (rtcpWire S c pkt index).length = pkt.length + 4 + c.profile.rtcpTagLen := by
  constructor
  · intro wire hw
    rw [protectRtp_eq S c p (validHdr_of_WF _ wf.hdr)] at hw
    simp only [Except.ok.injEq] at hw
    subst hw
    simp only [List.length_append, writeHdr_length, rtpWireBody_length]; omega
  · unfold rtcpWire
    by_cases hg : c.profile = .gcm
    · have ht : (pkt.take 8).length = 8 := by simp [List.length_take]; omega
      simp only [hg, if_true, List.length_append, ht, S.seal_len, be32_length, List.length_drop,
        rtcpTagLen_gcm]
      omega
    · simp only [hg, if_false, List.length_append, be32_length, rtcpTag_length S c _ hg]
      split
      · rw [rtcpCipher_length S c index pkt hlen]
      · rfl

/-- **unprotect_protect_rtcp**: `protect_rtcp` uses the next SRTCP index, sets the E bit, and a
paired context recovers exactly the original packet — every profile, every packet of at least the
8-byte RTCP header, every index below 2^31; the receiver never needs to be in sync (the index is
carried in the packet). -/
theorem unprotect_protect_rtcp (S : Suite) (cs cr : Ctx) (pkt : Bytes) (hpair : Paired cs cr)
    (hlen : 8 ≤ pkt.length) (hidx : cs.rtcpIndex + 1 < 2 ^ 31) :
    ∃ wire, (cs.protectRtcp S pkt).1 = .ok wire ∧ (cs.protectRtcp S pkt).2.rtcpIndex = cs.rtcpIndex + 1 ∧
      (cr.unprotectRtcp S wire).1 = .ok pkt := by
  have hmod : (cs.rtcpIndex + 1) % 4294967296 = cs.rtcpIndex + 1 := by
    apply Nat.mod_eq_of_lt; simp at hidx; omega
  refine ⟨rtcpWire S cs pkt (cs.rtcpIndex + 1), ?_, ?_, ?_⟩
  · rw [protectRtcp_eq, hmod]
  · rw [protectRtcp_eq, hmod]
  · rw [unprotect_rtcpWire S cs cr pkt _ hlen (by simpa using hidx) hpair.ssrc hpair.profile hpair.rtcp]

/-- **E-bit and index layout** of a protected RTCP packet: the 32-bit word `E ‖ index` sits right
before the tag (AES-CM/NULL) resp. at the very end (AEAD), with `E = 1`. -/
theorem srtcp_index_layout (S : Suite) (c : Ctx) (pkt : Bytes) (index : Nat) (hidx : index < 2 ^ 31)
    (hlen : 8 ≤ pkt.length) :
    let wire := rtcpWire S c pkt index
    (c.profile = .gcm → last4 wire = index + 2 ^ 31) ∧
    (c.profile ≠ .gcm → last4 (wire.take (wire.length - c.profile.rtcpTagLen)) = index + 2 ^ 31) := by
  have hw : withEBit index = index + 2147483648 := by
    have : index < 2147483648 := by simpa using hidx
    simp [withEBit, this]
  have hlt : index + 2147483648 < 4294967296 := by simp at hidx; omega
  intro wire
  constructor
  · intro hg
    simp only [wire, rtcpWire, hg, if_true, hw]
    exact last4_append_be32 _ _ hlt
  · intro hg
    simp only [wire, rtcpWire, hg, if_false, hw]
    rw [List.length_append, rtcpTag_length S c _ hg, Nat.add_sub_cancel, List.take_left' rfl]
    exact last4_append_be32 _ _ hlt

/-- non-vacuity of `Paired`/`WF`: two contexts created from the same keying material are paired;
a packet with CSRCs, an extension and padding is well-formed -/
example (S : Suite) (mk ms : Bytes) (cs cr : Ctx)
    (h1 : Ctx.new S 7 .cm80 mk ms 0 = .ok cs) (h2 : Ctx.new S 7 .cm80 mk ms 5 = .ok cr) : Paired cs cr := by
  simp only [Ctx.new] at h1 h2
  split at h1
  · simp at h1
  · rename_i h
    rw [if_neg h] at h2
    simp only [Except.ok.injEq] at h1 h2
    subst h1; subst h2
    exact ⟨rfl, rfl, rfl, rfl⟩

example : Pkt.WF ⟨⟨true, 96, 65535, 7, 0xdeadbeef, [1, 2], some ⟨0xBEDE, [1, 2, 3, 4]⟩⟩, [9, 9, 9], 4⟩ := by
  refine ⟨?_, by decide⟩
  constructor <;> simp <;> decide

/-! ### Round trip through the session API, any number of SSRCs -/

/-- a sender session and the receiver session of the same direction: same profile and usable keying
material, and every context in the two tables was derived from it (true of new sessions, preserved
by every operation) -/
structure Linked (S : Suite) (s r : Sess) : Prop where
  profile : r.profile = s.profile
  mkey : r.rxMk = s.txMk
  msalt : r.rxMs = s.txMs
  keyLen : srtpKeyLen ≤ s.txMk.length
  saltLen : s.profile.saltLen ≤ s.txMs.length
  txInv : TableInv S s.profile s.txMk s.txMs s.tx
  rxInv : TableInv S r.profile r.rxMk r.rxMs r.rx

/-- **session_roundtrip_rtp**: through `SrtpSession::protect_rtp` → wire → `SrtpPacket::parse` →
`SrtpSession::unprotect_rtp`, for any tables (any number of other SSRCs, contexts created on demand,
eviction running on both sides at arbitrary times `now`, `now'`): if the two sessions hold the same
rollover state for the packet's SSRC (both none counts), the receiver returns exactly the packet, both
sessions stay `Linked`, and they again hold the same rollover state for that SSRC. -/
theorem session_roundtrip_rtp (S : Suite) (s r : Sess) (now now' : Nat) (p : Pkt) (wf : p.WF)
    (hl : Linked S s r)
    (hsync0 : rocOf s.tx p.hdr.ssrc = rocOf r.rx p.hdr.ssrc) :
    ∃ wire, (s.protectRtp S now p).1 = .ok wire ∧
      (r.receiveRtp S now' wire).1 = .ok p ∧
      Linked S (s.protectRtp S now p).2 (r.receiveRtp S now' wire).2 ∧
      rocOf (s.protectRtp S now p).2.tx p.hdr.ssrc = rocOf (r.receiveRtp S now' wire).2.rx p.hdr.ssrc := by
  have hsync : rocOf (evict s.tx p.hdr.ssrc now) p.hdr.ssrc = rocOf r.rx p.hdr.ssrc := by
    rw [← hsync0]; simp only [rocOf, lookup_evict_keep]
  -- the context the sender works on
  obtain ⟨cs, hcsK, hcsS, hcsR, hres, hroc⟩ := withTx_result S s now p.hdr.ssrc (fun c => c.protectRtp S p)
    hl.txInv hl.keyLen hl.saltLen (fun c => protectRtp_ssrc S c p)
  have hprot := protectRtp_eq S cs p (validHdr_of_WF _ wf.hdr)
  change (s.protectRtp S now p).1 = (cs.protectRtp S p).1 at hres
  change rocOf (s.protectRtp S now p).2.tx p.hdr.ssrc = ((cs.protectRtp S p).2.roc, (cs.protectRtp S p).2.last) at hroc
  rw [hprot] at hres hroc
  -- the context the receiver works on
  have hrk : srtpKeyLen ≤ r.rxMk.length := by rw [hl.mkey]; exact hl.keyLen
  have hrs : r.profile.saltLen ≤ r.rxMs.length := by rw [hl.profile, hl.msalt]; exact hl.saltLen
  obtain ⟨cr, hcrK, hcrS, hcrR, hacc⟩ := withRx_result S r now' p.hdr.ssrc
    (fun c => c.unprotectRtp S p.hdr (p.padLen ≠ 0) (rtpWireBody S cs p (cs.estimate p.hdr.seq)))
    hl.rxInv hrk hrs (fun c => unprotectRtp_ssrc S c _ _ _)
  have hst : (cr.roc, cr.last) = (cs.roc, cs.last) := by rw [hcrR, hcsR, hsync]
  have hroc' : cr.roc = cs.roc := (Prod.mk.injEq .. ▸ hst).1
  have hlast' : cr.last = cs.last := (Prod.mk.injEq .. ▸ hst).2
  have hest : cr.estimate p.hdr.seq = cs.estimate p.hdr.seq := by simp [Ctx.estimate, hroc', hlast']
  have hun := unprotect_wireBody S cs cr p wf (by rw [hcrS, hcsS])
    (by rw [hcrK.profile, hcsK.profile, hl.profile])
    (by rw [hcrK.rtp, hcsK.rtp, hl.profile, hl.mkey, hl.msalt])
  rw [hest] at hun
  obtain ⟨hok, hroc2⟩ := hacc p (by show (cr.unprotectRtp S _ _ _).1 = _; rw [hun])
  have hu : (r.unprotectRtp S now' p.hdr (p.padLen ≠ 0) (rtpWireBody S cs p (cs.estimate p.hdr.seq))).1 = .ok p := hok
  obtain ⟨hrecv, hrecvs⟩ := receiveRtp_ok S r now' _ p.hdr (p.padLen ≠ 0) _ p (parseHdr_writeHdr _ _ _ wf.hdr) hu
  refine ⟨_, hres, hrecv, ?_, ?_⟩
  · -- both sessions keep their keys and table invariants
    have t := protectRtp_kept S s now p hl.txInv
    have q := unprotectRtp_kept S r now' p.hdr (p.padLen ≠ 0) (rtpWireBody S cs p (cs.estimate p.hdr.seq)) hl.rxInv
    rw [hrecvs]
    exact ⟨by rw [q.profile, t.profile]; exact hl.profile, by rw [q.rxMk, t.txMk]; exact hl.mkey,
      by rw [q.rxMs, t.txMs]; exact hl.msalt, by rw [t.txMk]; exact hl.keyLen,
      by rw [t.profile, t.txMs]; exact hl.saltLen,
      by rw [t.profile, t.txMk, t.txMs]; exact t.inv, by rw [q.profile, q.rxMk, q.rxMs]; exact q.inv⟩
  · rw [hrecvs]
    change _ = rocOf (r.unprotectRtp S now' p.hdr (p.padLen ≠ 0) _).2.rx p.hdr.ssrc
    rw [hroc]
    change _ = rocOf (r.withRx S now' p.hdr.ssrc _).2.rx p.hdr.ssrc
    rw [hroc2]
    show _ = ((cr.unprotectRtp S _ _ _).2.roc, (cr.unprotectRtp S _ _ _).2.last)
    rw [hun]
    simp [Ctx.updated, hroc', hlast']

/-- a stream of packets of one SSRC sent and delivered in order through the two sessions -/
def streamThrough (S : Suite) : Sess → Sess → Nat → List Pkt → List (Except (ParseErr ⊕ Err) Pkt)
  | _, _, _, [] => []
  | s, r, now, p :: ps =>
    match (s.protectRtp S now p).1 with
    | .ok wire => (r.receiveRtp S now wire).1 :: streamThrough S (s.protectRtp S now p).2 (r.receiveRtp S now wire).2 now ps
    | .error e => [.error (.inr e)]

/-- every packet of an in-order stream of any length on one SSRC comes out exactly as it went in —
whatever the sequence numbers do (the two ends run the same estimate from the same state) -/
theorem session_stream_roundtrip (S : Suite) (k now : Nat) (ps : List Pkt) (s r : Sess) (hl : Linked S s r)
    (hps : ∀ p ∈ ps, p.WF ∧ p.hdr.ssrc = k) (hsync : rocOf s.tx k = rocOf r.rx k) :
    streamThrough S s r now ps = ps.map .ok := by
  induction ps generalizing s r with
  | nil => rfl
  | cons p ps ih =>
    obtain ⟨wf, hk⟩ := hps p (by simp)
    subst hk
    obtain ⟨wire, h1, h2, h3, h4⟩ := session_roundtrip_rtp S s r now now p wf hl hsync
    simp only [streamThrough, h1, h2, List.map_cons]
    rw [ih _ _ h3 (fun q hq => hps q (by simp [hq])) h4]

example (S : Suite) (mk ms : Bytes) (h1 : srtpKeyLen ≤ mk.length) (h2 : Profile.gcm.saltLen ≤ ms.length) :
    Linked S (Sess.new .gcm mk ms mk ms) (Sess.new .gcm mk ms mk ms) :=
  ⟨rfl, rfl, rfl, h1, h2, fun _ h => by simp [Sess.new] at h, fun _ h => by simp [Sess.new] at h⟩

end RtcModel.Theorems.C04
