/-
C04 — SRTP/SRTCP protection round-trips and matches an independent implementation.
Property theorems only; helper lemmas live in `RtcModel/Lemmas/Srtp*.lean`.

The model (`RtcModel/Srtp*.lean`) mirrors `src/srtp.rs` and the header code of `src/rtp.rs`; the
cipher suite is a parameter (`Suite`) whose law fields are proved for the concrete AES-CM /
HMAC-SHA1 / AES-GCM functions the driver runs (`RtcModel/SrtpConcrete.lean`).
-/
import RtcModel.Srtp
import RtcModel.Lemmas.SrtpRoc
import RtcModel.Lemmas.SrtpHeader
import RtcModel.Lemmas.Srtp
import RtcModel.Lemmas.SrtpTable
import RtcModel.Lemmas.SrtpToy

namespace RtcModel.Theorems.C04
open RtcModel.Srtp RtcModel.C04 RtcModel.Generated

/-! ### Generated-constant obligations -/

/-- the two rollover thresholds are the half range of the 16-bit sequence space -/
theorem const_roc_thresholds : rocAheadThreshold = 32768 ∧ rocBehindThreshold = 32768 := by decide

/-- tag / salt / key lengths per profile as RFC 3711, RFC 7714 and RFC 5764 §4.1.2 require
(in particular SRTCP keeps the 80-bit tag in the `_32` profile) -/
theorem const_profile_table :
    Profile.cm80.tagLen = 10 ∧ Profile.cm32.tagLen = 4 ∧ Profile.gcm.tagLen = 16 ∧ Profile.null.tagLen = 10 ∧
    Profile.cm80.rtcpTagLen = 10 ∧ Profile.cm32.rtcpTagLen = 10 ∧ Profile.gcm.rtcpTagLen = 16 ∧
    Profile.null.rtcpTagLen = 10 ∧
    Profile.cm80.saltLen = 14 ∧ Profile.gcm.saltLen = 12 ∧ srtpKeyLen = 16 ∧ srtpSha1Len = 20 ∧
    Profile.cm80.authKeyLen = 20 ∧ Profile.cm32.authKeyLen = 20 ∧ Profile.gcm.authKeyLen = 0 := by decide

/-- KDF labels 0‥5 (RFC 3711 §4.3.2) at byte 7 of the IV, 14 salt bytes; E bit and index mask -/
theorem const_kdf_and_srtcp :
    [kdfLabelRtpCipher, kdfLabelRtpAuth, kdfLabelRtpSalt, kdfLabelRtcpCipher, kdfLabelRtcpAuth, kdfLabelRtcpSalt]
      = [0, 1, 2, 3, 4, 5] ∧ kdfLabelByte = 7 ∧ kdfSaltTake = 14 ∧
    srtcpEBit = 2 ^ 31 ∧ srtcpIndexMask + 1 = 2 ^ 31 ∧ srtcpIndexMaskCm + 1 = 2 ^ 31 := by decide

/-! ### Rollover estimation -/

/-- **roc_estimate_correct**: for every receiver state `(roc, last)` and every true 48-bit index `I`
strictly within ±2^15 of the receiver's index `roc·2^16 + last`, the estimate computed from the
16-bit sequence number `I mod 2^16` alone is the true rollover count `I / 2^16`. All triples. -/
theorem roc_estimate_correct (roc last I : Nat) (hroc : roc < 2 ^ 32) (hlast : last < 2 ^ 16)
    (hI : I < 2 ^ 48)
    (hlo : (index48 roc last : Int) - I < 2 ^ 15) (hhi : (I : Int) - index48 roc last < 2 ^ 15) :
    estimateRoc roc (some last) (I % 2 ^ 16) = I / 2 ^ 16 :=
  estimate_in_window roc last _ I hroc hlast rfl hI (by simpa using hlo) (by simpa using hhi)

example : estimateRoc 1 (some 5) ((1 * 65536 - 3) % 2 ^ 16) = 0 ∧ estimateRoc 0 (some 65530) (65541 % 2 ^ 16) = 1 := by
  decide

/-- Boundary, exactly 2^15 **ahead** of the receiver: the sequence number is the same as for the
packet 2^15 behind, and the code resolves the tie to "same rollover count" — right iff
`last < 2^15` (then no wrap lies between). -/
theorem roc_estimate_boundary_ahead (roc last : Nat) (hroc : roc < 2 ^ 32) (hlast : last < 2 ^ 16) :
    let I := index48 roc last + 2 ^ 15
    estimateRoc roc (some last) (I % 2 ^ 16) = roc ∧ (roc = I / 2 ^ 16 ↔ last < 2 ^ 15) := by
  intro I
  simp only [I, index48]
  rw [estimateRoc_some]
  refine ⟨?_, by omega⟩
  split
  · omega
  · split <;> omega

/-- Boundary, exactly 2^15 **behind**: resolved to "same rollover count" — right iff `last ≥ 2^15`. -/
theorem roc_estimate_boundary_behind (roc last : Nat) (hroc : roc < 2 ^ 32) (hlast : last < 2 ^ 16)
    (hpos : 2 ^ 15 ≤ index48 roc last) :
    let I := index48 roc last - 2 ^ 15
    estimateRoc roc (some last) (I % 2 ^ 16) = roc ∧ (roc = I / 2 ^ 16 ↔ 2 ^ 15 ≤ last) := by
  intro I
  simp only [I, index48] at hpos ⊢
  rw [estimateRoc_some]
  refine ⟨?_, by omega⟩
  split
  · omega
  · split <;> omega

/-- **update_monotone**: `update` never moves the receiver's index backwards, and with the estimate
of an in-window packet it becomes the maximum of the old index and the packet's index. -/
theorem update_monotone (roc last seq r : Nat) :
    let st := updateRoc roc (some last) seq r
    ∃ l', st.2 = some l' ∧ index48 st.1 l' = max (index48 roc last) (index48 r seq) := by
  intro st
  simp only [st, updateRoc_some, index48]
  split
  · exact ⟨seq, rfl, by omega⟩
  · exact ⟨last, rfl, by omega⟩

/-! ### Index synchronisation over whole receive histories -/

/-- receiver rollover state -/
abbrev RocSt := Nat × Option Nat

/-- one received packet: only `I mod 2^16` is visible to the receiver; returns the new state and
the index the receiver reconstructed -/
def recvOne (st : RocSt) (I : Nat) : RocSt × Nat :=
  let e := estimateRoc st.1 st.2 (I % 65536)
  (updateRoc st.1 st.2 (I % 65536) e, index48 e (I % 65536))

/-- a whole receive history (true indices in arrival order): reconstructed indices, final state -/
def recvAll : RocSt → List Nat → List Nat × RocSt
  | st, [] => ([], st)
  | st, I :: rest =>
    let (st', i') := recvOne st I
    let (is', stf) := recvAll st' rest
    (i' :: is', stf)

/-- every arrival is strictly within ±2^15 of the highest index received so far (`hi`) -/
def InWindow : Nat → List Nat → Prop
  | _, [] => True
  | hi, I :: rest =>
    ((hi : Int) - I < 2 ^ 15 ∧ (I : Int) - hi < 2 ^ 15 ∧ I < 2 ^ 48) ∧ InWindow (max hi I) rest

theorem index_sync_from (roc last : Nat) (is : List Nat) (hroc : roc < 2 ^ 32) (hlast : last < 2 ^ 16)
    (hw : InWindow (index48 roc last) is) :
    (recvAll (roc, some last) is).1 = is ∧
    ∃ r l, (recvAll (roc, some last) is).2 = (r, some l) ∧ r < 2 ^ 32 ∧ l < 2 ^ 16 ∧
      index48 r l = is.foldl max (index48 roc last) := by
  induction is generalizing roc last with
  | nil => exact ⟨rfl, roc, last, rfl, hroc, hlast, rfl⟩
  | cons I rest ih =>
    obtain ⟨⟨h1, h2, h3⟩, hrest⟩ := hw
    have he := roc_estimate_correct roc last I hroc hlast h3 h1 h2
    simp only [Nat.reducePow] at he h1 h2 h3 hroc hlast
    have hdiv : I / 65536 < 4294967296 := by omega
    have hmod : I % 65536 < 65536 := Nat.mod_lt _ (by decide)
    have hidx : index48 (I / 65536) (I % 65536) = I := by simp only [index48]; omega
    simp only [recvAll, recvOne, he, hidx]
    rw [updateRoc_some]
    split
    · rename_i hgt
      have hmax : max (index48 roc last) I = index48 (I / 65536) (I % 65536) := by
        simp only [index48] at hgt ⊢; omega
      rw [hmax] at hrest
      obtain ⟨ha, r, l, hb, hc, hd, hf⟩ := ih (I / 65536) (I % 65536) (by simpa using hdiv) (by simpa using hmod) hrest
      refine ⟨by simp [ha], r, l, hb, hc, hd, ?_⟩
      simp only [List.foldl_cons, hmax, hf]
    · rename_i hle
      have hmax : max (index48 roc last) I = index48 roc last := by
        simp only [index48] at hle ⊢; omega
      rw [hmax] at hrest
      obtain ⟨ha, r, l, hb, hc, hd, hf⟩ := ih roc last (by simpa using hroc) (by simpa using hlast) hrest
      refine ⟨by simp [ha], r, l, hb, hc, hd, ?_⟩
      simp only [List.foldl_cons, hmax, hf]

/-- **index_sync**: a new receive context (`roc = 0`, no packet seen) that first sees a packet of
the sender's first cycle (`I₀ < 2^16`) and then any history — any loss pattern, any reordering, any
number of rollovers — in which each arrival is within ±2^15 of the highest index received so far,
reconstructs **every** 48-bit index exactly, and ends at the highest index received.
Induction over the receive history; no bound on its length. -/
theorem index_sync (I0 : Nat) (is : List Nat) (h0 : I0 < 2 ^ 16) (hw : InWindow I0 is) :
    (recvAll (0, none) (I0 :: is)).1 = I0 :: is ∧
    ∃ r l, (recvAll (0, none) (I0 :: is)).2 = (r, some l) ∧ index48 r l = is.foldl max I0 := by
  have hmod : I0 % 65536 = I0 := Nat.mod_eq_of_lt (by simpa using h0)
  have hst : recvOne (0, none) I0 = ((0, some I0), I0) := by
    simp [recvOne, hmod, index48]
  have hw' : InWindow (index48 0 I0) is := by simpa [index48] using hw
  obtain ⟨ha, r, l, hb, _, _, hf⟩ := index_sync_from 0 I0 is (by decide) h0 hw'
  simp only [recvAll, hst]
  refine ⟨by simp [ha], r, l, hb, ?_⟩
  simpa [index48] using hf

/-- non-vacuity: three rollovers, loss, reordering across a wrap -/
example : InWindow 65530 [65540, 65535, 98000, 130000, 129999, 162000, 194000, 226000] := by
  simp [InWindow]

/-! ### Header re-serialisation -/

/-- **header_reserialise_id**: on every header `parse` accepts, `write_to` reproduces exactly the
bytes that were consumed — so authenticating the re-marshalled header (as `unprotect` does)
authenticates the received bytes. -/
theorem header_reserialise_id (raw : Bytes) (h : Hdr) (p : Bool) (body : Bytes)
    (hp : parseHdr raw = .ok (h, p, body)) :
    writeHdr h p ++ body = raw ∧ (writeHdr h p).length = encodedLen h :=
  ⟨parseHdr_write raw h p body hp, writeHdr_length h p⟩

/-- conversely every well-formed header (≤ 15 CSRCs, 7-bit payload type, 32-bit aligned extension
whose word count fits 16 bits) is parsed back from its serialisation, whatever follows it. -/
theorem header_parse_write (h : Hdr) (p : Bool) (body : Bytes) (wf : h.WF) :
    parseHdr (writeHdr h p ++ body) = .ok (h, p, body) := parseHdr_writeHdr h p body wf

example : Hdr.WF ⟨true, 96, 65535, 7, 0xdeadbeef, [1, 2], some ⟨0xBEDE, [1, 2, 3, 4]⟩⟩ := by
  constructor <;> simp <;> decide

/-! ### Round trip, from the suite laws only -/

/-- what the two ends must share: SSRC, profile and the derived session keys (rollover state,
SRTCP index and timestamps are free) -/
structure Paired (cs cr : Ctx) : Prop where
  ssrc : cr.ssrc = cs.ssrc
  profile : cr.profile = cs.profile
  rtp : cr.rtp = cs.rtp
  rtcp : cr.rtcp = cs.rtcp

/-- **unprotect_protect_rtp**: for every cipher suite satisfying the structural laws, every profile,
every well-formed packet (0–15 CSRCs, optional extension, padding 0–255, any payload length) and every
pair of contexts sharing the session keys whose rollover estimates for this sequence number agree
("synchronised index", see `index_sync`): `protect` succeeds, its output has the `protected_rtp_len`
length, the receiver's header parser recovers header and padding bit, and `unprotect` returns
exactly the original packet. -/
theorem unprotect_protect_rtp (S : Suite) (cs cr : Ctx) (p : Pkt) (wf : p.WF) (hpair : Paired cs cr)
    (hsync : cr.estimate p.hdr.seq = cs.estimate p.hdr.seq) :
    ∃ wire body, (cs.protectRtp S p).1 = .ok wire ∧
      wire.length = protectedRtpLen cs.profile p ∧
      parseHdr wire = .ok (p.hdr, decide (p.padLen ≠ 0), body) ∧
      (cr.unprotectRtp S p.hdr (p.padLen ≠ 0) body).1 = .ok p := by
  refine ⟨writeHdr p.hdr (p.padLen ≠ 0) ++ rtpWireBody S cs p (cs.estimate p.hdr.seq),
    rtpWireBody S cs p (cs.estimate p.hdr.seq), ?_, ?_, ?_, ?_⟩
  · rw [protectRtp_eq S cs p (validHdr_of_WF _ wf.hdr)]
  · simp only [List.length_append, writeHdr_length, rtpWireBody_length, protectedRtpLen]; omega
  · exact parseHdr_writeHdr _ _ _ wf.hdr
  · rw [← hsync, unprotect_wireBody S cs cr p wf hpair.ssrc hpair.profile hpair.rtp]

/-- after the round trip both ends hold the same rollover state whenever they did before -/
theorem roundtrip_keeps_sync (S : Suite) (cs cr : Ctx) (p : Pkt) (wf : p.WF) (hpair : Paired cs cr)
    (hroc : cr.roc = cs.roc) (hlast : cr.last = cs.last) :
    let body := rtpWireBody S cs p (cs.estimate p.hdr.seq)
    (cr.unprotectRtp S p.hdr (p.padLen ≠ 0) body).2.roc = (cs.protectRtp S p).2.roc ∧
    (cr.unprotectRtp S p.hdr (p.padLen ≠ 0) body).2.last = (cs.protectRtp S p).2.last := by
  have hsync : cr.estimate p.hdr.seq = cs.estimate p.hdr.seq := by simp [Ctx.estimate, hroc, hlast]
  intro body
  simp only [body]
  rw [← hsync, unprotect_wireBody S cs cr p wf hpair.ssrc hpair.profile hpair.rtp,
    protectRtp_eq S cs p (validHdr_of_WF _ wf.hdr)]
  simp [Ctx.updated, hroc, hlast, hsync]

/-- **protected_len**: the length formula of `protected_rtp_len`, and for RTCP `len + 4 + tag`. -/
theorem protected_len (S : Suite) (c : Ctx) (p : Pkt) (pkt : Bytes) (index : Nat) (wf : p.WF)
    (hlen : 8 ≤ pkt.length) :
    (∀ wire, (c.protectRtp S p).1 = .ok wire →
      wire.length = encodedLen p.hdr + p.payload.length + p.padLen + c.profile.tagLen) ∧
    (rtcpWire S c pkt index).length = pkt.length + 4 + c.profile.rtcpTagLen := by
  constructor
  · intro wire hw
    rw [protectRtp_eq S c p (validHdr_of_WF _ wf.hdr)] at hw
    simp only [Except.ok.injEq] at hw
    subst hw
    simp only [List.length_append, writeHdr_length, rtpWireBody_length]; omega
  · unfold rtcpWire
    by_cases hg : c.profile = .gcm
    · have ht : (pkt.take 8).length = 8 := by simp [List.length_take]; omega
      simp only [hg, if_true, List.length_append, ht, S.seal_len, be32_length, List.length_drop,
        rtcpTagLen_gcm]
      omega
    · simp only [hg, if_false, List.length_append, be32_length, rtcpTag_length S c _ hg]
      split
      · rw [rtcpCipher_length S c index pkt hlen]
      · rfl

/-- **unprotect_protect_rtcp**: `protect_rtcp` uses the next SRTCP index, sets the E bit, and a
paired context recovers exactly the original packet — every profile, every packet of at least the
8-byte RTCP header, every index below 2^31; the receiver never needs to be in sync (the index is
carried in the packet). -/
theorem unprotect_protect_rtcp (S : Suite) (cs cr : Ctx) (pkt : Bytes) (hpair : Paired cs cr)
    (hlen : 8 ≤ pkt.length) (hidx : cs.rtcpIndex + 1 < 2 ^ 31) :
    ∃ wire, (cs.protectRtcp S pkt).1 = .ok wire ∧ (cs.protectRtcp S pkt).2.rtcpIndex = cs.rtcpIndex + 1 ∧
      (cr.unprotectRtcp S wire).1 = .ok pkt := by
  have hmod : (cs.rtcpIndex + 1) % 4294967296 = cs.rtcpIndex + 1 := by
    apply Nat.mod_eq_of_lt; simp at hidx; omega
  refine ⟨rtcpWire S cs pkt (cs.rtcpIndex + 1), ?_, ?_, ?_⟩
  · rw [protectRtcp_eq, hmod]
  · rw [protectRtcp_eq, hmod]
  · rw [unprotect_rtcpWire S cs cr pkt _ hlen (by simpa using hidx) hpair.ssrc hpair.profile hpair.rtcp]

/-- **E-bit and index layout** of a protected RTCP packet: the 32-bit word `E ‖ index` sits right
before the tag (AES-CM/NULL) resp. at the very end (AEAD); `E = 1` exactly for the encrypting
profiles (the NULL cipher sends SRTCP in clear with `E = 0`, like its SRTP). -/
theorem srtcp_index_layout (S : Suite) (c : Ctx) (pkt : Bytes) (index : Nat) (hidx : index < 2 ^ 31) :
    let wire := rtcpWire S c pkt index
    let word := if c.profile = .null then index else index + 2 ^ 31
    (c.profile = .gcm → last4 wire = word) ∧
    (c.profile ≠ .gcm → last4 (wire.take (wire.length - c.profile.rtcpTagLen)) = word) := by
  have hi : index < 2147483648 := by simpa using hidx
  have hlt := (eWord_props c index hi).1
  have hw : c.eWord index = if c.profile = .null then index else index + 2 ^ 31 := by
    have : withEBit index = index + 2147483648 := by simp [withEBit, hi]
    unfold Ctx.eWord Ctx.encrypts
    cases hp : c.profile <;> simp [this]
  intro wire word
  simp only [word, ← hw]
  constructor
  · intro hg
    simp only [wire, rtcpWire, hg, if_true]
    exact last4_append_be32 _ _ hlt
  · intro hg
    simp only [wire, rtcpWire, hg, if_false]
    rw [List.length_append, rtcpTag_length S c _ hg, Nat.add_sub_cancel, List.take_left' rfl]
    exact last4_append_be32 _ _ hlt

/-- non-vacuity of `Paired`/`WF`: two contexts created from the same keying material are paired;
a packet with CSRCs, an extension and padding is well-formed -/
example (S : Suite) (mk ms : Bytes) (cs cr : Ctx)
    (h1 : Ctx.new S 7 .cm80 mk ms 0 = .ok cs) (h2 : Ctx.new S 7 .cm80 mk ms 5 = .ok cr) : Paired cs cr := by
  simp only [Ctx.new] at h1 h2
  split at h1
  · simp at h1
  · rename_i h
    rw [if_neg h] at h2
    simp only [Except.ok.injEq] at h1 h2
    subst h1; subst h2
    exact ⟨rfl, rfl, rfl, rfl⟩

example : Pkt.WF ⟨⟨true, 96, 65535, 7, 0xdeadbeef, [1, 2], some ⟨0xBEDE, [1, 2, 3, 4]⟩⟩, [9, 9, 9], 4⟩ := by
  refine ⟨?_, by decide⟩
  constructor <;> simp <;> decide

/-! ### Round trip across rollovers, reordering and loss — composed on the context functions -/

/-- the protected packet a sender holding the keys of `cs` emits for packet `d.2` whose true 48-bit
index is `d.1` -/
def wireOf (S : Suite) (cs : Ctx) (d : Nat × Pkt) : Bytes :=
  writeHdr d.2.hdr (d.2.padLen ≠ 0) ++ rtpWireBody S cs d.2 (d.1 / 65536)

/-- `SrtpContext::protect` on a list of packets, in order -/
def sendAll (S : Suite) : Ctx → List Pkt → List (Except Err Bytes)
  | _, [] => []
  | c, p :: ps => (c.protectRtp S p).1 :: sendAll S (c.protectRtp S p).2 ps

/-- `SrtpPacket::parse` + `SrtpContext::unprotect` on a list of datagrams, in order -/
def receiveAll (S : Suite) : Ctx → List Bytes → List (Except (ParseErr ⊕ Err) Pkt)
  | _, [] => []
  | c, raw :: rest =>
    match parseHdr raw with
    | .error e => .error (.inl e) :: receiveAll S c rest
    | .ok (h, p, body) =>
      (match (c.unprotectRtp S h p body).1 with | .ok q => .ok q | .error e => .error (.inr e)) ::
        receiveAll S (c.unprotectRtp S h p body).2 rest

/-- a context whose rollover state is the 48-bit index `R` -/
def AtIndex (c : Ctx) (R : Nat) : Prop :=
  c.roc < 2 ^ 32 ∧ ∃ l, c.last = some l ∧ l < 2 ^ 16 ∧ index48 c.roc l = R

/-- genuine traffic: well-formed packets whose sequence number is the low half of their true index -/
def Genuine (d : Nat × Pkt) : Prop := d.2.WF ∧ d.2.hdr.seq = d.1 % 2 ^ 16

private theorem in_window_step (c : Ctx) (R I : Nat) (hc : AtIndex c R)
    (h1 : (R : Int) - I < 2 ^ 15) (h2 : (I : Int) - R < 2 ^ 15) (h3 : I < 2 ^ 48) :
    c.estimate (I % 2 ^ 16) = I / 2 ^ 16 ∧ AtIndex (c.updated (I % 2 ^ 16) (I / 2 ^ 16)) (max R I) := by
  obtain ⟨hroc, l, hl, hll, hR⟩ := hc
  subst hR
  have he := roc_estimate_correct c.roc l I hroc hll h3 h1 h2
  refine ⟨by simp only [Ctx.estimate, hl]; exact he, ?_⟩
  simp only [Nat.reducePow] at *
  have hdiv : I / 65536 < 4294967296 := by omega
  have hmod : I % 65536 < 65536 := Nat.mod_lt _ (by decide)
  simp only [AtIndex, Ctx.updated, hl, updateRoc_some, index48, Nat.reducePow]
  split
  · exact ⟨hdiv, I % 65536, rfl, hmod, by simp only [index48] at *; omega⟩
  · exact ⟨hroc, l, rfl, hll, by simp only [index48] at *; omega⟩

private theorem rtpWireBody_keys (S : Suite) (a b : Ctx) (p : Pkt) (roc : Nat)
    (hs : a.ssrc = b.ssrc) (hp : a.profile = b.profile) (hk : a.rtp = b.rtp) :
    rtpWireBody S a p roc = rtpWireBody S b p roc := by
  simp [rtpWireBody, cmBody, rtpTag, Ctx.encrypts, hs, hp, hk]

/-- sender side of the composition -/
theorem sender_history (S : Suite) (sent : List (Nat × Pkt)) (cs c : Ctx) (R : Nat)
    (hs : c.ssrc = cs.ssrc) (hp : c.profile = cs.profile) (hk : c.rtp = cs.rtp)
    (hc : AtIndex c R) (hg : ∀ d ∈ sent, Genuine d) (hw : InWindow R (sent.map (·.1))) :
    sendAll S c (sent.map (·.2)) = sent.map (fun d => .ok (wireOf S cs d)) := by
  induction sent generalizing c R with
  | nil => rfl
  | cons d rest ih =>
    obtain ⟨⟨h1, h2, h3⟩, hrest⟩ := hw
    obtain ⟨wf, hseq⟩ := hg d (by simp)
    obtain ⟨he, hc'⟩ := in_window_step c R d.1 hc h1 h2 h3
    have hprot := protectRtp_eq S c d.2 (validHdr_of_WF _ wf.hdr)
    rw [hseq, he] at hprot
    simp only [List.map_cons, sendAll, hprot, wireOf, Nat.reducePow]
    rw [rtpWireBody_keys S c cs d.2 _ hs hp hk]
    congr 1
    exact ih _ _ hs hp hk (by simpa [Nat.reducePow] using hc') (fun x hx => hg x (by simp [hx])) hrest

/-- receiver side: any delivery order / loss / duplication inside the window -/
theorem receiver_history (S : Suite) (deliveries : List (Nat × Pkt)) (cs c : Ctx) (R : Nat)
    (hs : c.ssrc = cs.ssrc) (hp : c.profile = cs.profile) (hk : c.rtp = cs.rtp)
    (hc : AtIndex c R) (hg : ∀ d ∈ deliveries, Genuine d) (hw : InWindow R (deliveries.map (·.1))) :
    receiveAll S c (deliveries.map (wireOf S cs)) = deliveries.map (fun d => .ok d.2) := by
  induction deliveries generalizing c R with
  | nil => rfl
  | cons d rest ih =>
    obtain ⟨⟨h1, h2, h3⟩, hrest⟩ := hw
    obtain ⟨wf, hseq⟩ := hg d (by simp)
    obtain ⟨he, hc'⟩ := in_window_step c R d.1 hc h1 h2 h3
    have hun := unprotect_wireBody S cs c d.2 wf hs hp hk
    rw [hseq, he] at hun
    simp only [List.map_cons, receiveAll, wireOf, parseHdr_writeHdr _ _ _ wf.hdr, Nat.reducePow] at hun ⊢
    rw [hun]
    simp only
    congr 1
    exact ih _ _ hs hp hk (by simpa [Nat.reducePow, hseq] using hc') (fun x hx => hg x (by simp [hx])) hrest


private theorem fresh_step (c : Ctx) (I : Nat) (hroc : c.roc = 0) (hlast : c.last = none) (hI : I < 2 ^ 16) :
    c.estimate (I % 2 ^ 16) = I / 2 ^ 16 ∧ AtIndex (c.updated (I % 2 ^ 16) (I / 2 ^ 16)) I := by
  simp only [Nat.reducePow] at hI
  have hm : I % 65536 = I := Nat.mod_eq_of_lt hI
  have hd : I / 65536 = 0 := by omega
  simp only [Ctx.estimate, hlast, hroc, estimateRoc_none, AtIndex, Ctx.updated, updateRoc_none, Nat.reducePow, hm, hd]
  exact ⟨trivial, by decide, I, rfl, hI, by simp [index48]⟩

/-- **reorder_loss_roundtrip** — the composed statement the property asks for, on `SrtpContext::protect`
/ `SrtpPacket::parse` / `SrtpContext::unprotect` themselves: a sender context at index `Rs` protects any
send history `sent` (true indices within ±2^15 of its highest so far — in particular any forward-moving
stream, through any number of rollovers); a paired receiver context at index `Rr` is handed ANY list of
those packets — any subset (loss), any order (reordering), repetitions — in which each arrival is within
±2^15 of the highest index it has accepted so far. Then the sender emits exactly `wireOf` each packet,
and the receiver returns exactly the original packet for every delivery. No bound on either length. -/
theorem reorder_loss_roundtrip (S : Suite) (cs cr : Ctx) (hpair : Paired cs cr) (Rs Rr : Nat)
    (hcs : AtIndex cs Rs) (hcr : AtIndex cr Rr)
    (sent deliveries : List (Nat × Pkt)) (hg : ∀ d ∈ sent, Genuine d)
    (hws : InWindow Rs (sent.map (·.1)))
    (hsub : ∀ d ∈ deliveries, d ∈ sent) (hwr : InWindow Rr (deliveries.map (·.1))) :
    sendAll S cs (sent.map (·.2)) = sent.map (fun d => .ok (wireOf S cs d)) ∧
    (∀ d ∈ deliveries, wireOf S cs d ∈ sent.map (wireOf S cs)) ∧
    receiveAll S cr (deliveries.map (wireOf S cs)) = deliveries.map (fun d => .ok d.2) :=
  ⟨sender_history S sent cs cs Rs rfl rfl rfl hcs hg hws,
   fun d hd => List.mem_map.mpr ⟨d, hsub d hd, rfl⟩,
   receiver_history S deliveries cs cr Rr hpair.ssrc hpair.profile hpair.rtp hcr
     (fun d hd => hg d (hsub d hd)) hwr⟩

/-- the same from two NEW contexts (rollover counter 0, nothing seen): the first packet sent and the
first packet delivered are from the first sequence cycle. -/
theorem reorder_loss_roundtrip_fresh (S : Suite) (cs cr : Ctx) (hpair : Paired cs cr)
    (hs0 : cs.roc = 0 ∧ cs.last = none) (hr0 : cr.roc = 0 ∧ cr.last = none)
    (d0 e0 : Nat × Pkt) (sent deliveries : List (Nat × Pkt))
    (hd0 : d0.1 < 2 ^ 16) (he0 : e0.1 < 2 ^ 16)
    (hg : ∀ d ∈ d0 :: sent, Genuine d) (hws : InWindow d0.1 (sent.map (·.1)))
    (hsub : ∀ d ∈ e0 :: deliveries, d ∈ d0 :: sent) (hwr : InWindow e0.1 (deliveries.map (·.1))) :
    sendAll S cs ((d0 :: sent).map (·.2)) = (d0 :: sent).map (fun d => .ok (wireOf S cs d)) ∧
    receiveAll S cr ((e0 :: deliveries).map (wireOf S cs)) = (e0 :: deliveries).map (fun d => .ok d.2) := by
  constructor
  · obtain ⟨wf, hseq⟩ := hg d0 (by simp)
    obtain ⟨he, hc'⟩ := fresh_step cs d0.1 hs0.1 hs0.2 hd0
    have hprot := protectRtp_eq S cs d0.2 (validHdr_of_WF _ wf.hdr)
    rw [hseq, he] at hprot
    simp only [List.map_cons, sendAll, hprot, wireOf, Nat.reducePow]
    congr 1
    exact sender_history S sent cs _ d0.1 rfl rfl rfl (by simpa [Nat.reducePow] using hc')
      (fun x hx => hg x (by simp [hx])) hws
  · obtain ⟨wf, hseq⟩ := hg e0 (hsub e0 (by simp))
    obtain ⟨he, hc'⟩ := fresh_step cr e0.1 hr0.1 hr0.2 he0
    have hun := unprotect_wireBody S cs cr e0.2 wf hpair.ssrc hpair.profile hpair.rtp
    rw [hseq, he] at hun
    simp only [List.map_cons, receiveAll, wireOf, parseHdr_writeHdr _ _ _ wf.hdr, Nat.reducePow] at hun ⊢
    rw [hun]
    simp only
    congr 1
    exact receiver_history S deliveries cs _ e0.1 hpair.ssrc hpair.profile hpair.rtp
      (by simpa [Nat.reducePow, hseq] using hc')
      (fun x hx => hg x (hsub x (by simp [hx]))) hwr

/-- `SrtpSession` receive path on a list of datagrams arriving at the given times -/
def sessReceiveAll (S : Suite) : Sess → List (Nat × Bytes) → List (Except (ParseErr ⊕ Err) Pkt)
  | _, [] => []
  | r, (now, raw) :: rest => (r.receiveRtp S now raw).1 :: sessReceiveAll S (r.receiveRtp S now raw).2 rest

/-- **session_reorder_loss_roundtrip** — `reorder_loss_roundtrip` lifted to the receiving `SrtpSession` for
one stream: the session holds a context for SSRC `k` at index `R` (any other contexts, any table size,
eviction running at every accepted packet, arbitrary arrival times); it is handed any in-window list of
genuine packets of that stream (loss, reordering, repetitions) as a paired sender put them on the wire.
Every one is returned exactly. (The stream's own packets keep its context: `keep_ssrc`.) -/
theorem session_reorder_loss_roundtrip (S : Suite) (cs : Ctx) (k : Nat) (deliveries : List (Nat × Nat × Pkt))
    (r : Sess) (c : Ctx) (R : Nat)
    (hl : lookup r.rx k = some c) (hc : AtIndex c R)
    (hs : c.ssrc = cs.ssrc) (hp : c.profile = cs.profile) (hk : c.rtp = cs.rtp)
    (hg : ∀ d ∈ deliveries, Genuine d.2 ∧ d.2.2.hdr.ssrc = k)
    (hw : InWindow R (deliveries.map (·.2.1))) :
    sessReceiveAll S r (deliveries.map (fun d => (d.1, wireOf S cs d.2))) = deliveries.map (fun d => .ok d.2.2) := by
  induction deliveries generalizing r c R with
  | nil => rfl
  | cons d rest ih =>
    obtain ⟨now, I, p⟩ := d
    obtain ⟨⟨h1, h2, h3⟩, hrest⟩ := hw
    obtain ⟨⟨wf, hseq⟩, hssrc⟩ := hg (now, I, p) (List.mem_cons_self ..)
    simp only at wf hseq hssrc h1 h2 h3
    obtain ⟨he, hc'⟩ := in_window_step c R I hc h1 h2 h3
    have hun := unprotect_wireBody S cs c p wf hs hp hk
    rw [hseq, he] at hun
    have hparse := parseHdr_writeHdr p.hdr (decide (p.padLen ≠ 0)) (rtpWireBody S cs p (I / 2 ^ 16)) wf.hdr
    have hl' : lookup r.rx p.hdr.ssrc = some c := by rw [hssrc]; exact hl
    have hok : (r.unprotectRtp S now p.hdr (decide (p.padLen ≠ 0)) (rtpWireBody S cs p (I / 2 ^ 16))).1 = .ok p := by
      unfold Sess.unprotectRtp
      rw [withRx_some_ok S r now p.hdr.ssrc _ hl' (by rw [hun])]
    obtain ⟨hrecv, hrecvs⟩ := receiveRtp_ok S r now _ p.hdr (decide (p.padLen ≠ 0)) _ p hparse hok
    have hst : (r.receiveRtp S now (wireOf S cs (I, p))).2 =
        { r with rx := evict (replace r.rx { (c.updated (I % 2 ^ 16) (I / 2 ^ 16)) with lastUsed := now }) p.hdr.ssrc now } := by
      simp only [wireOf, Nat.reducePow] at hrecvs ⊢
      rw [hrecvs]
      unfold Sess.unprotectRtp
      rw [withRx_some_ok S r now p.hdr.ssrc _ hl' (by rw [hun])]
      simp only [hun]
    have hlk : lookup (r.receiveRtp S now (wireOf S cs (I, p))).2.rx k =
        some { (c.updated (I % 2 ^ 16) (I / 2 ^ 16)) with lastUsed := now } := by
      rw [hst]
      simp only
      rw [hssrc, lookup_evict_keep]
      exact lookup_replace_self hl (by show c.ssrc = k; exact lookup_ssrc hl)
    simp only [List.map_cons, sessReceiveAll]
    simp only [wireOf, Nat.reducePow] at hrecv
    simp only [wireOf, Nat.reducePow, hrecv]
    congr 1
    have := ih (r.receiveRtp S now (wireOf S cs (I, p))).2 _ (max R I) hlk
      (by obtain ⟨a, l, b, c2, d2⟩ := hc'; exact ⟨a, l, b, c2, d2⟩) hs hp hk
      (fun x hx => hg x (List.mem_cons_of_mem _ hx)) hrest
    simpa [wireOf] using this

/-! ### Round trip through the session API, any number of SSRCs -/

/-- a sender session and the receiver session of the same direction: same profile and usable keying
material, and every context in the two tables was derived from it (true of new sessions, preserved
by every operation) -/
structure Linked (S : Suite) (s r : Sess) : Prop where
  profile : r.profile = s.profile
  mkey : r.rxMk = s.txMk
  msalt : r.rxMs = s.txMs
  keyLen : srtpKeyLen ≤ s.txMk.length
  saltLen : s.profile.saltLen ≤ s.txMs.length
  txInv : TableInv S s.profile s.txMk s.txMs s.tx
  rxInv : TableInv S r.profile r.rxMk r.rxMs r.rx

/-- **session_roundtrip_rtp**: through `SrtpSession::protect_rtp` → wire → `SrtpPacket::parse` →
`SrtpSession::unprotect_rtp`, for any tables (any number of other SSRCs, contexts created on demand,
eviction running on both sides at arbitrary times `now`, `now'`): if the two sessions hold the same
rollover state for the packet's SSRC (both none counts), the receiver returns exactly the packet, both
sessions stay `Linked`, and they again hold the same rollover state for that SSRC. `hroom`: the
receiver already has a context for this SSRC, or holds fewer than `MAX_RX_CONTEXTS` contexts (at the
cap a packet of a NEW SSRC is refused — known finding `…:rx-cap`, `rx_cap_witness`). Afterwards the
receiver has a context for the SSRC, so a stream needs room only for its first packet. -/
theorem session_roundtrip_rtp (S : Suite) (s r : Sess) (now now' : Nat) (p : Pkt) (wf : p.WF)
    (hl : Linked S s r)
    (hroom : (lookup r.rx p.hdr.ssrc).isSome = true ∨ r.rx.length < maxRxContexts)
    (htxroom : (lookup s.tx p.hdr.ssrc).isSome = true ∨ s.tx.length < maxTxContexts)
    (hsync0 : rocOf s.tx p.hdr.ssrc = rocOf r.rx p.hdr.ssrc) :
    ∃ wire, (s.protectRtp S now p).1 = .ok wire ∧
      (∃ body, parseHdr wire = .ok (p.hdr, decide (p.padLen ≠ 0), body)) ∧
      (r.receiveRtp S now' wire).1 = .ok p ∧
      Linked S (s.protectRtp S now p).2 (r.receiveRtp S now' wire).2 ∧
      rocOf (s.protectRtp S now p).2.tx p.hdr.ssrc = rocOf (r.receiveRtp S now' wire).2.rx p.hdr.ssrc ∧
      (lookup (r.receiveRtp S now' wire).2.rx p.hdr.ssrc).isSome = true ∧
      (lookup (s.protectRtp S now p).2.tx p.hdr.ssrc).isSome = true := by
  have hsync : rocOf (evict s.tx p.hdr.ssrc now) p.hdr.ssrc = rocOf r.rx p.hdr.ssrc := by
    rw [← hsync0]; simp only [rocOf, lookup_evict_keep]
  -- the context the sender works on
  obtain ⟨cs, hcsK, hcsS, hcsR, hres, hroc, htxsome⟩ := withTx_result S s now p.hdr.ssrc (fun c => c.protectRtp S p)
    hl.txInv hl.keyLen hl.saltLen htxroom (fun c => protectRtp_ssrc S c p)
  have hprot := protectRtp_eq S cs p (validHdr_of_WF _ wf.hdr)
  change (s.protectRtp S now p).1 = (cs.protectRtp S p).1 at hres
  change rocOf (s.protectRtp S now p).2.tx p.hdr.ssrc = ((cs.protectRtp S p).2.roc, (cs.protectRtp S p).2.last) at hroc
  rw [hprot] at hres hroc
  -- the context the receiver works on
  have hrk : srtpKeyLen ≤ r.rxMk.length := by rw [hl.mkey]; exact hl.keyLen
  have hrs : r.profile.saltLen ≤ r.rxMs.length := by rw [hl.profile, hl.msalt]; exact hl.saltLen
  obtain ⟨cr, hcrK, hcrS, hcrR, hacc⟩ := withRx_result S r now' p.hdr.ssrc
    (fun c => c.unprotectRtp S p.hdr (p.padLen ≠ 0) (rtpWireBody S cs p (cs.estimate p.hdr.seq)))
    hl.rxInv hrk hrs hroom (fun c => unprotectRtp_ssrc S c _ _ _)
  have hst : (cr.roc, cr.last) = (cs.roc, cs.last) := by rw [hcrR, hcsR, hsync]
  have hroc' : cr.roc = cs.roc := (Prod.mk.injEq .. ▸ hst).1
  have hlast' : cr.last = cs.last := (Prod.mk.injEq .. ▸ hst).2
  have hest : cr.estimate p.hdr.seq = cs.estimate p.hdr.seq := by simp [Ctx.estimate, hroc', hlast']
  have hun := unprotect_wireBody S cs cr p wf (by rw [hcrS, hcsS])
    (by rw [hcrK.profile, hcsK.profile, hl.profile])
    (by rw [hcrK.rtp, hcsK.rtp, hl.profile, hl.mkey, hl.msalt])
  rw [hest] at hun
  obtain ⟨hok, hroc2, hsome⟩ := hacc p (by show (cr.unprotectRtp S _ _ _).1 = _; rw [hun])
  have hu : (r.unprotectRtp S now' p.hdr (p.padLen ≠ 0) (rtpWireBody S cs p (cs.estimate p.hdr.seq))).1 = .ok p := hok
  obtain ⟨hrecv, hrecvs⟩ := receiveRtp_ok S r now' _ p.hdr (p.padLen ≠ 0) _ p (parseHdr_writeHdr _ _ _ wf.hdr) hu
  refine ⟨_, hres, ⟨_, parseHdr_writeHdr _ _ _ wf.hdr⟩, hrecv, ?_, ?_, by rw [hrecvs]; exact hsome, htxsome⟩
  · -- both sessions keep their keys and table invariants
    have t := protectRtp_kept S s now p hl.txInv
    have q := unprotectRtp_kept S r now' p.hdr (p.padLen ≠ 0) (rtpWireBody S cs p (cs.estimate p.hdr.seq)) hl.rxInv
    rw [hrecvs]
    exact ⟨by rw [q.profile, t.profile]; exact hl.profile, by rw [q.rxMk, t.txMk]; exact hl.mkey,
      by rw [q.rxMs, t.txMs]; exact hl.msalt, by rw [t.txMk]; exact hl.keyLen,
      by rw [t.profile, t.txMs]; exact hl.saltLen,
      by rw [t.profile, t.txMk, t.txMs]; exact t.inv, by rw [q.profile, q.rxMk, q.rxMs]; exact q.inv⟩
  · rw [hrecvs]
    change _ = rocOf (r.unprotectRtp S now' p.hdr (p.padLen ≠ 0) _).2.rx p.hdr.ssrc
    rw [hroc]
    change _ = rocOf (r.withRx S now' p.hdr.ssrc _).2.rx p.hdr.ssrc
    rw [hroc2]
    show _ = ((cr.unprotectRtp S _ _ _).2.roc, (cr.unprotectRtp S _ _ _).2.last)
    rw [hun]
    simp [Ctx.updated, hroc', hlast']

/-- a stream of packets of one SSRC sent and delivered in order through the two sessions -/
def streamThrough (S : Suite) : Sess → Sess → Nat → List Pkt → List (Except (ParseErr ⊕ Err) Pkt)
  | _, _, _, [] => []
  | s, r, now, p :: ps =>
    match (s.protectRtp S now p).1 with
    | .ok wire => (r.receiveRtp S now wire).1 :: streamThrough S (s.protectRtp S now p).2 (r.receiveRtp S now wire).2 now ps
    | .error e => [.error (.inr e)]

/-- every packet of an in-order stream of ANY length on one SSRC comes out exactly as it went in (the
receiver needs room for a new context only if the stream is new to it) —
whatever the sequence numbers do (the two ends run the same estimate from the same state) -/
theorem session_stream_roundtrip (S : Suite) (k now : Nat) (ps : List Pkt) (s r : Sess) (hl : Linked S s r)
    (hroom : (lookup r.rx k).isSome = true ∨ r.rx.length < maxRxContexts)
    (htxroom : (lookup s.tx k).isSome = true ∨ s.tx.length < maxTxContexts)
    (hps : ∀ p ∈ ps, p.WF ∧ p.hdr.ssrc = k) (hsync : rocOf s.tx k = rocOf r.rx k) :
    streamThrough S s r now ps = ps.map .ok := by
  induction ps generalizing s r with
  | nil => rfl
  | cons p ps ih =>
    obtain ⟨wf, hk⟩ := hps p (by simp)
    subst hk
    obtain ⟨wire, h1, _, h2, h3, h4, h5, h6⟩ := session_roundtrip_rtp S s r now now p wf hl hroom htxroom hsync
    simp only [streamThrough, h1, h2, List.map_cons]
    rw [ih _ _ h3 (Or.inl h5) (Or.inl h6) (fun q hq => hps q (by simp [hq])) h4]

example (S : Suite) (mk ms : Bytes) (h1 : srtpKeyLen ≤ mk.length) (h2 : Profile.gcm.saltLen ≤ ms.length) :
    Linked S (Sess.new .gcm mk ms mk ms) (Sess.new .gcm mk ms mk ms) :=
  ⟨rfl, rfl, rfl, h1, h2, fun _ h => by simp [Sess.new] at h, fun _ h => by simp [Sess.new] at h⟩

/-! ### Many SSRCs and time: the full statement is FALSE on the current code (known finding) -/

/-- a send/delivery schedule through a sender and a receiver session: at time `now` the sender
protects `p`; if `deliver` the receiver gets the packet at once (else it is lost). `true` iff every
protect succeeded and every delivered packet was returned exactly. -/
def allDelivered (S : Suite) : Sess → Sess → List (Nat × Bool × Pkt) → Bool
  | _, _, [] => true
  | s, r, (now, deliver, p) :: rest =>
    match (s.protectRtp S now p).1 with
    | .error _ => false
    | .ok wire =>
      if deliver then
        (match (r.receiveRtp S now wire).1 with | .ok q => q == p | .error _ => false) &&
          allDelivered S (s.protectRtp S now p).2 (r.receiveRtp S now wire).2 rest
      else allDelivered S (s.protectRtp S now p).2 r rest

/-- one stream's part of a schedule is "tolerated": the sender moves forward by fewer than 2^14 sequence
numbers per packet and never loses two packets in a row, so every delivery is strictly within ±2^15 of
the receiver's highest index (`prev` = sequence number of the previous scheduled packet, `lost` = whether
it was lost). Without such a restriction the statement below would be false for ANY RFC 3711
implementation (two large lost jumps desynchronise every receiver). -/
def streamTolerated (k : Nat) : Option Nat → Bool → List (Nat × Bool × Pkt) → Bool
  | _, _, [] => true
  | prev, lost, (_, deliver, p) :: rest =>
    if p.hdr.ssrc = k then
      (match prev with
        | none => true
        | some q => decide (0 < (p.hdr.seq + 65536 - q) % 65536 ∧ (p.hdr.seq + 65536 - q) % 65536 < 16384)) &&
      (deliver || !lost) && streamTolerated k (some p.hdr.seq) (!deliver) rest
    else streamTolerated k prev lost rest

/-- every stream of the schedule is tolerated -/
def tolerated (sched : List (Nat × Bool × Pkt)) : Bool :=
  (sched.map (·.2.2.hdr.ssrc)).all (fun k => streamTolerated k none false sched)

/-- FULL STATEMENT of "round trip for any number of SSRCs" at the session API: linked sessions that
agree on every SSRC's rollover state return every delivered packet of every schedule whose streams are
`tolerated` (any SSRCs, any times; per stream small forward steps and isolated losses — the property's
"tolerated reordering and loss", so the statement is about eviction and the cap, not about window overflow). -/
def ManySsrcRoundtrip (S : Suite) : Prop :=
  ∀ (s r : Sess) (sched : List (Nat × Bool × Pkt)), Linked S s r → (∀ k, rocOf s.tx k = rocOf r.rx k) →
    (∀ x ∈ sched, x.2.2.WF) → tolerated sched = true → allDelivered S s r sched = true

namespace Witness
def key16 : Bytes := List.replicate 16 1
def salt14 : Bytes := List.replicate 14 2
def pkt (ssrc seq : Nat) : Pkt := ⟨⟨false, 96, seq, 0, ssrc, [], none⟩, [1, 2, 3], 0⟩
def s0 : Sess := Sess.new .cm80 key16 salt14 key16 salt14
/-- 33 streams send one packet each; stream 7 sends 65000, 65500, 100, 200 (rollover counter 1) -/
def warmup : List (Nat × Bool × Pkt) :=
  (List.range 33).map (fun k => (0, true, pkt (1000 + k) 5)) ++
  [(0, true, pkt 7 65000), (0, true, pkt 7 65500), (0, true, pkt 7 100), (0, true, pkt 7 200)]
/-- 61 s later the sender sends a packet of another stream (lost), then stream 7 resumes -/
def txEvicted : List (Nat × Bool × Pkt) := warmup ++ [(61, false, pkt 1000 6), (61, true, pkt 7 300)]
/-- the receiver's context of stream 7 is 61 s old (the sender used it 30 s ago, packet lost);
a delivered packet of another stream evicts it, then stream 7 resumes -/
def rxEvicted : List (Nat × Bool × Pkt) :=
  warmup ++ [(31, false, pkt 7 250), (61, true, pkt 1000 6), (61, true, pkt 7 300)]
/-- the same traffic without the idle time -/
def noIdle : List (Nat × Bool × Pkt) := warmup ++ [(59, false, pkt 1000 6), (59, true, pkt 7 300)]

private theorem pkt_WF (ssrc seq : Nat) (h1 : ssrc < 4294967296) (h2 : seq < 65536) : (pkt ssrc seq).WF := by
  refine ⟨⟨by simp [pkt], h2, by simp [pkt], h1, by simp [pkt], by simp [pkt], ?_, ?_, ?_⟩, by simp [pkt]⟩ <;>
    (intro e he; simp [pkt] at he)

private theorem linked0 : Linked toySuite s0 s0 :=
  ⟨rfl, rfl, rfl, by decide, by decide, fun _ h => by simp [s0, Sess.new] at h, fun _ h => by simp [s0, Sess.new] at h⟩

private theorem wf_of_mem {l : List (Nat × Bool × Pkt)} {x : Nat × Bool × Pkt}
    (hl : ∀ y ∈ l, ∃ a b, y.2.2 = pkt a b ∧ a < 4294967296 ∧ b < 65536) (hx : x ∈ l) : x.2.2.WF := by
  obtain ⟨a, b, h, ha, hb⟩ := hl x hx; rw [h]; exact pkt_WF a b ha hb

private theorem warmup_shape : ∀ y ∈ warmup, ∃ a b, y.2.2 = pkt a b ∧ a < 4294967296 ∧ b < 65536 := by
  intro y hy
  simp only [warmup, List.mem_append, List.mem_map, List.mem_range, List.mem_cons, List.not_mem_nil, or_false] at hy
  rcases hy with ⟨k, hk, rfl⟩ | rfl | rfl | rfl | rfl
  · exact ⟨1000 + k, 5, rfl, by omega, by decide⟩
  all_goals exact ⟨_, _, rfl, by decide, by decide⟩
end Witness

open Witness in
set_option maxRecDepth 1000000 in
/-- **many_ssrc_roundtrip_witness** (KNOWN FINDING `roundtrip:rtp-genuine-rejected:<profile>:tx-evicted`,
`…:rx-evicted`): with more than `SSRC_CONTEXT_HIGH_WATERMARK` contexts, a stream whose rollover counter
is 1 and that pauses for `SSRC_INACTIVITY_EVICT` is evicted from the sender's (resp. the receiver's)
table as soon as ANOTHER stream is used; its rollover counter restarts at 0 on that side only and its
next genuine packet fails authentication. The full statement is false — concrete schedule, both
directions; without the idle time the same traffic goes through. Replayed on the real code by the
harness cases `tx-evicted` / `rx-evicted`. -/
theorem many_ssrc_roundtrip_witness : ¬ (∀ S, ManySsrcRoundtrip S) ∧
    allDelivered toySuite s0 s0 txEvicted = false ∧ allDelivered toySuite s0 s0 rxEvicted = false ∧
    allDelivered toySuite s0 s0 noIdle = true := by
  have h1 : allDelivered toySuite s0 s0 txEvicted = false := by decide
  refine ⟨fun h => ?_, h1, by decide, by decide⟩
  have := h toySuite s0 s0 txEvicted linked0 (fun _ => rfl) (fun x hx => by
    simp only [txEvicted, List.mem_append, List.mem_cons, List.not_mem_nil, or_false] at hx
    rcases hx with hx | rfl | rfl
    · exact wf_of_mem warmup_shape hx
    · exact pkt_WF _ _ (by decide) (by decide)
    · exact pkt_WF _ _ (by decide) (by decide)) (by decide)
  rw [h1] at this
  exact absurd this (by decide)


namespace Witness
/-- 1024 live receive (and transmit) contexts, derived from the session keys, all used at time 0 -/
def fullTable : List Ctx :=
  (List.range 1024).map (fun k => ⟨1000 + k, .cm80, (deriveKeys toySuite .cm80 key16 salt14).1,
    (deriveKeys toySuite .cm80 key16 salt14).2, 0, none, 0, 0⟩)
/-- a receiver whose receive table is full / a sender whose transmit table is full -/
def sRxFull : Sess := { s0 with rx := fullTable }
def sTxFull : Sess := { s0 with tx := fullTable }
private theorem fullTable_inv : TableInv toySuite .cm80 key16 salt14 fullTable := by
  intro c hc
  obtain ⟨k, _, rfl⟩ := List.mem_map.mp hc
  exact ⟨rfl, rfl, rfl⟩
private theorem fullTable_fresh (k : Nat) : rocOf fullTable k = (0, none) := by
  unfold rocOf
  cases h : lookup fullTable k with
  | none => rfl
  | some c =>
    obtain ⟨j, _, rfl⟩ := List.mem_map.mp (lookup_mem h)
    rfl
private theorem emptyInv : TableInv toySuite .cm80 key16 salt14 [] := fun _ h => by simp at h
end Witness

open Witness in
set_option maxRecDepth 1000000 in
/-- **rx_cap_witness** (KNOWN FINDING `roundtrip:{rtp,rtcp}-genuine-rejected:<profile>:rx-cap`): the second
reason why "any number of SSRCs" is false on the current code. A receiver holding `MAX_RX_CONTEXTS` live
contexts refuses the first packet of the 1025th stream although the sessions are `Linked`, agree on every
rollover state, the packet is well-formed and the sender protected it. Deliberate memory bound (C07). -/
theorem rx_cap_witness :
    Linked toySuite s0 sRxFull ∧ (∀ k, rocOf s0.tx k = rocOf sRxFull.rx k) ∧ (pkt 5000 1).WF ∧
    (∃ w, (s0.protectRtp toySuite 0 (pkt 5000 1)).1 = .ok w) ∧
    allDelivered toySuite s0 sRxFull [(0, true, pkt 5000 1)] = false ∧ ¬ ManySsrcRoundtrip toySuite := by
  have hl : Linked toySuite s0 sRxFull := ⟨rfl, rfl, rfl, by decide, by decide, emptyInv, fullTable_inv⟩
  have hw : (pkt 5000 1).WF := pkt_WF _ _ (by decide) (by decide)
  have hs : ∀ k, rocOf s0.tx k = rocOf sRxFull.rx k := fun k => (fullTable_fresh k).symm
  have hf : allDelivered toySuite s0 sRxFull [(0, true, pkt 5000 1)] = false := by decide
  have hp : (s0.protectRtp toySuite 0 (pkt 5000 1)).1.toBool = true := by decide
  refine ⟨hl, hs, hw, ?_, hf, fun h => ?_⟩
  · cases hr : (s0.protectRtp toySuite 0 (pkt 5000 1)).1 with
    | ok w => exact ⟨w, rfl⟩
    | error e => rw [hr] at hp; simp [Except.toBool] at hp
  · have := h s0 sRxFull [(0, true, pkt 5000 1)] hl hs (fun x hx => by
      simp only [List.mem_singleton] at hx; subst hx; exact hw) (by decide)
    rw [hf] at this
    exact absurd this (by decide)

open Witness in
set_option maxRecDepth 1000000 in
/-- **tx_cap_witness** (KNOWN FINDING `roundtrip:protect-{rtp,rtcp}-failed:<profile>:tx-cap`): the third reason.
Since the `fix:` commit that bounds the TRANSMIT table (`MAX_TX_CONTEXTS`, C07: a relay forwarding arbitrary
SSRCs), a sender holding 1024 live transmit contexts refuses to protect the first packet of a 1025th
outgoing stream (`Internal`), so that stream's genuine packets never reach the peer. Deliberate. -/
theorem tx_cap_witness :
    Linked toySuite sTxFull s0 ∧ (∀ k, rocOf sTxFull.tx k = rocOf s0.rx k) ∧ (pkt 5000 1).WF ∧
    (sTxFull.protectRtp toySuite 0 (pkt 5000 1)).1.toBool = false ∧
    allDelivered toySuite sTxFull s0 [(0, true, pkt 5000 1)] = false ∧ ¬ ManySsrcRoundtrip toySuite := by
  have hl : Linked toySuite sTxFull s0 := ⟨rfl, rfl, rfl, by decide, by decide, fullTable_inv, emptyInv⟩
  have hw : (pkt 5000 1).WF := pkt_WF _ _ (by decide) (by decide)
  have hs : ∀ k, rocOf sTxFull.tx k = rocOf s0.rx k := fun k => fullTable_fresh k
  have hf : allDelivered toySuite sTxFull s0 [(0, true, pkt 5000 1)] = false := by decide
  refine ⟨hl, hs, hw, by decide, hf, fun h => ?_⟩
  have := h sTxFull s0 [(0, true, pkt 5000 1)] hl hs (fun x hx => by
    simp only [List.mem_singleton] at hx; subst hx; exact hw) (by decide)
  rw [hf] at this
  exact absurd this (by decide)

/-- along the schedule the receiver never has to refuse a NEW stream for lack of room: whenever a
delivered packet's SSRC has no receive context yet, fewer than `MAX_RX_CONTEXTS` contexts exist.
(Exactly the complement of the `rx-cap` finding. `room_of_count` gives a simple sufficient bound.) -/
def RoomAlong (S : Suite) : Sess → Sess → List (Nat × Bool × Pkt) → Prop
  | _, _, [] => True
  | s, r, (now, deliver, p) :: rest =>
    match (s.protectRtp S now p).1 with
    | .error _ => True
    | .ok wire =>
      if deliver then
        ((lookup r.rx p.hdr.ssrc).isSome = true ∨ r.rx.length < maxRxContexts) ∧
          RoomAlong S (s.protectRtp S now p).2 (r.receiveRtp S now wire).2 rest
      else RoomAlong S (s.protectRtp S now p).2 r rest

/-- the same on the sending side (`MAX_TX_CONTEXTS`): whenever a packet's SSRC has no transmit context
yet, fewer than the cap exist -/
def TxRoomAlong (S : Suite) : Sess → List (Nat × Bool × Pkt) → Prop
  | _, [] => True
  | s, (now, _, p) :: rest =>
    ((lookup s.tx p.hdr.ssrc).isSome = true ∨ s.tx.length < maxTxContexts) ∧
      TxRoomAlong S (s.protectRtp S now p).2 rest

theorem txroom_of_count (S : Suite) (sched : List (Nat × Bool × Pkt)) (s : Sess)
    (h : s.tx.length + sched.length ≤ maxTxContexts) : TxRoomAlong S s sched := by
  induction sched generalizing s with
  | nil => trivial
  | cons x rest ih =>
    obtain ⟨now, deliver, p⟩ := x
    simp only [List.length_cons] at h
    have := withTx_length S s now p.hdr.ssrc (fun c => c.protectRtp S p)
    exact ⟨Or.inr (by omega), ih _ (by show (s.withTx S now p.hdr.ssrc _).2.tx.length + _ ≤ _; omega)⟩

/-- sufficient for `RoomAlong`: the table plus one context per scheduled packet stays within the cap -/
theorem room_of_count (S : Suite) (sched : List (Nat × Bool × Pkt)) (s r : Sess)
    (h : r.rx.length + sched.length ≤ maxRxContexts) : RoomAlong S s r sched := by
  induction sched generalizing s r with
  | nil => trivial
  | cons x rest ih =>
    obtain ⟨now, deliver, p⟩ := x
    simp only [List.length_cons] at h
    simp only [RoomAlong]
    split
    · trivial
    · rename_i wire _
      split
      · have := receiveRtp_length S r now wire
        exact ⟨Or.inr (by omega), ih _ _ (by omega)⟩
      · exact ih _ _ (by omega)

/-- **many_ssrc_roundtrip_partial** — a part of `ManySsrcRoundtrip` that does hold: any number of
SSRCs, interleaved arbitrarily, any sequence numbers, PROVIDED (1) no context idles for the eviction
time — all activity (last-use stamps and schedule) lies in one window shorter than
`SSRC_INACTIVITY_EVICT` starting at `T`; (2) the receiver never runs out of room for a new stream
(`RoomAlong`); (3) every packet is delivered at once and in order (`hdel`). Restriction (3) excludes
much more than the two witnesses: session-level loss and reordering across several SSRCs is true on
the code but NOT proved here (the invariant "both tables hold equal rollover state" does not survive
a lost packet); per stream it is `reorder_loss_roundtrip` (context level) and
`session_reorder_loss_roundtrip` (session level, one stream). -/
theorem many_ssrc_roundtrip_partial (S : Suite) (T : Nat) (sched : List (Nat × Bool × Pkt)) (s r : Sess)
    (hl : Linked S s r) (hsync : ∀ k, rocOf s.tx k = rocOf r.rx k)
    (hroom : RoomAlong S s r sched) (htxroom : TxRoomAlong S s sched)
    (hwf : ∀ x ∈ sched, x.2.2.WF) (hdel : ∀ x ∈ sched, x.2.1 = true)
    (ht : ∀ x ∈ sched, T ≤ x.1 ∧ x.1 < T + ssrcInactivityEvictSecs)
    (hus : UsedSince T s.tx) (hur : UsedSince T r.rx) :
    allDelivered S s r sched = true := by
  induction sched generalizing s r with
  | nil => rfl
  | cons x rest ih =>
    obtain ⟨now, deliver, p⟩ := x
    have hd : deliver = true := hdel (now, deliver, p) (List.mem_cons_self ..)
    subst hd
    obtain ⟨hT, hn⟩ := ht _ (List.mem_cons_self ..)
    simp only at hT hn
    have wf : p.WF := hwf _ (List.mem_cons_self ..)
    -- room for this packet, read off `RoomAlong` once the protect result is known
    obtain ⟨htx1, htxrest⟩ := htxroom
    have hprot : ∃ w, (s.protectRtp S now p).1 = .ok w := by
      obtain ⟨cs, _, _, _, hres, _⟩ := withTx_result S s now p.hdr.ssrc (fun c => c.protectRtp S p)
        hl.txInv hl.keyLen hl.saltLen htx1 (fun c => protectRtp_ssrc S c p)
      have := protectRtp_eq S cs p (validHdr_of_WF _ wf.hdr)
      exact ⟨_, by show (s.withTx S now p.hdr.ssrc _).1 = _; rw [hres, this]⟩
    obtain ⟨w0, hw0⟩ := hprot
    simp only [RoomAlong, hw0, if_true] at hroom
    obtain ⟨hroom1, hroomrest⟩ := hroom
    obtain ⟨wire, h1, ⟨body, hparse⟩, h2, h3, h4, _, _⟩ := session_roundtrip_rtp S s r now now p wf hl hroom1 htx1 (hsync p.hdr.ssrc)
    have hwe : wire = w0 := by rw [hw0] at h1; simpa using h1.symm
    subst hwe
    have ftx := withTx_frame S s T now p.hdr.ssrc (fun c => c.protectRtp S p) hus hT hn
      (fun c => protectRtp_ssrc S c p) (fun c => protectRtp_lastUsed S c p)
    have frx := withRx_frame S r T now p.hdr.ssrc (fun c => c.unprotectRtp S p.hdr (p.padLen ≠ 0) body) hur hT hn
      (fun c => unprotectRtp_ssrc S c _ _ _) (fun c => unprotectRtp_lastUsed S c _ _ _)
    have hrs := receiveRtp_snd S r now wire p.hdr (p.padLen ≠ 0) body hparse
    have u1 : UsedSince T (s.protectRtp S now p).2.tx := ftx.1
    have f1 : ∀ k, k ≠ p.hdr.ssrc → rocOf (s.protectRtp S now p).2.tx k = rocOf s.tx k := ftx.2
    have u2 : UsedSince T (r.receiveRtp S now wire).2.rx := by rw [hrs]; exact frx.1
    have f2 : ∀ k, k ≠ p.hdr.ssrc → rocOf (r.receiveRtp S now wire).2.rx k = rocOf r.rx k := by
      rw [hrs]; exact frx.2
    simp only [allDelivered, h1, h2, if_true, beq_self_eq_true, Bool.true_and]
    refine ih _ _ h3 (fun k => ?_) hroomrest htxrest (fun y hy => hwf y (List.mem_cons_of_mem _ hy))
      (fun y hy => hdel y (List.mem_cons_of_mem _ hy)) (fun y hy => ht y (List.mem_cons_of_mem _ hy)) u1 u2
    by_cases hk : k = p.hdr.ssrc
    · rw [hk]; exact h4
    · rw [f1 k hk, f2 k hk]; exact hsync k

end RtcModel.Theorems.C04

namespace RtcModel.Theorems.C04
open RtcModel.Srtp RtcModel.C04 RtcModel.Generated Witness

/-- non-vacuity of `many_ssrc_roundtrip_partial`: 34 streams, one of them across a rollover -/
example : allDelivered toySuite s0 s0 warmup = true := by
  have hsh : ∀ y ∈ warmup, y.1 = 0 ∧ y.2.1 = true := by
    intro y hy
    simp only [warmup, List.mem_append, List.mem_map, List.mem_range, List.mem_cons, List.not_mem_nil, or_false] at hy
    rcases hy with ⟨k, _, rfl⟩ | rfl | rfl | rfl | rfl <;> exact ⟨rfl, rfl⟩
  exact many_ssrc_roundtrip_partial toySuite 0 warmup s0 s0 linked0 (fun _ => rfl)
    (room_of_count toySuite warmup s0 s0 (by decide)) (txroom_of_count toySuite warmup s0 (by decide))
    (fun x hx => wf_of_mem warmup_shape hx) (fun x hx => (hsh x hx).2)
    (fun x hx => by rw [(hsh x hx).1]; exact ⟨Nat.le_refl _, by decide⟩)
    (fun _ h => by simp [s0, Sess.new] at h) (fun _ h => by simp [s0, Sess.new] at h)

end RtcModel.Theorems.C04
