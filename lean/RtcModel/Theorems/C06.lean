/-
C06 — only authenticated STUN connectivity checks can influence ICE state.
Property theorems only; the model is `RtcModel/IceAuth.lean`.

Reading used here: a datagram *carries the session's credentials* (`IceAuth.Credentials`) when it has a
USERNAME attribute `<local ufrag>:…` and a MESSAGE-INTEGRITY attribute whose value is HMAC-SHA1 under the
local ICE password of the message up to that attribute (RFC 5389 §15.4 / RFC 8445 §7.3), both at attribute
boundaries reached from the header.  "Influence" = any change of the remote candidate list, the selected
pair, the nomination flag or the transport state.  HMAC is abstract (`Prims`).

The code as found violated the property (no check at all; see `legacy_*` below and known_findings.d);
it was repaired by the `fix:` commit "in WebRTC mode let only STUN requests with our ufrag and a valid
MESSAGE-INTEGRITY influence ICE state"; the model is the repaired code and the full statement is proved.
-/
import RtcModel.Lemmas.IceAuthCred

namespace RtcModel.Theorems.C06
open RtcModel.IceAuth RtcModel.Stun RtcModel.IcePrio RtcModel.C16Bytes

/-- the four things an inbound check must not touch unless authenticated -/
def Inert (s s' : St) : Prop :=
  s'.remotes = s.remotes ∧ s'.selected = s.selected ∧ s'.nominated = s.nominated ∧ s'.state = s.state

/-! ### responses -/

/-- **response_needs_pending** (one datagram): a success or error response whose transaction id is not
outstanding changes nothing and completes nothing; one whose id is outstanding is delivered to exactly
that waiter, the id is consumed (so a replayed copy is inert), and in neither case is any ICE state
(candidates, selected pair, nomination, transport state) touched. -/
theorem response_needs_pending (s : St) (sock : Sock) (src : Addr) (tx : Bytes) (e : Bool) :
    (tx ∉ s.pending → step s sock src (.response tx e) = (s, {})) ∧
    (tx ∈ s.pending →
      (step s sock src (.response tx e)).2.delivered = some tx ∧
      tx ∉ (step s sock src (.response tx e)).1.pending ∧
      (∀ t, t ≠ tx → (t ∈ (step s sock src (.response tx e)).1.pending ↔ t ∈ s.pending)) ∧
      step (step s sock src (.response tx e)).1 sock src (.response tx e) =
        ((step s sock src (.response tx e)).1, {})) ∧
    Inert s (step s sock src (.response tx e)).1 ∧
    (step s sock src (.response tx e)).1.role = s.role ∧ (step s sock src (.response tx e)).1.locals = s.locals := by
  by_cases h : tx ∈ s.pending
  · simp [step, handleResponse, h, Inert, List.mem_filter]
    intro t ht; simp [ht]
  · simp [step, handleResponse, h, Inert]

/-- all datagrams of a history, with who sent them on which socket -/
abbrev Ev := Sock × Addr × Inp

def run (s : St) (evs : List Ev) : St × List Bytes :=
  evs.foldl (fun (acc : St × List Bytes) ev =>
    let (s', o) := step acc.1 ev.1 ev.2.1 ev.2.2
    (s', match o.delivered with | some tx => acc.2 ++ [tx] | none => acc.2)) (s, [])

theorem step_pending_subset (s : St) (sock : Sock) (src : Addr) (i : Inp) :
    (∀ t, t ∈ (step s sock src i).1.pending → t ∈ s.pending) ∧
    (∀ tx, (step s sock src i).2.delivered = some tx → tx ∈ s.pending ∧ tx ∉ (step s sock src i).1.pending) ∧
    (s.pending.Nodup → (step s sock src i).1.pending.Nodup) := by
  cases i with
  | response tx e =>
    by_cases h : tx ∈ s.pending
    · simp only [step, handleResponse, h, ↓reduceIte]
      refine ⟨fun t ht => (List.mem_filter.mp ht).1, ?_, fun hn => hn.filter _⟩
      intro tx' htx'
      simp only [Option.some.injEq] at htx'
      subst htx'
      exact ⟨h, by simp [List.mem_filter]⟩
    · simp [step, handleResponse, h]
  | request r => simp [step]
  | empty | data | undecodable | indication => simp [step]

/-- **response_needs_pending** (all histories): over any sequence of datagrams of any kind — requests
authenticated or not, responses genuine, forged or replayed, garbage — every delivered response
belongs to a transaction that was outstanding at the start, and no transaction is completed twice. -/
theorem responses_consume_pending_once (s : St) (evs : List Ev) (hn : s.pending.Nodup) :
    (∀ tx ∈ (run s evs).2, tx ∈ s.pending) ∧ (run s evs).2.Nodup ∧
    (∀ tx ∈ (run s evs).2, tx ∉ (run s evs).1.pending) ∧ (∀ t ∈ (run s evs).1.pending, t ∈ s.pending) := by
  -- invariant over the fold, generalised over the accumulated deliveries
  have key : ∀ (evs : List Ev) (s0 : St) (acc : List Bytes), s0.pending.Nodup → acc.Nodup →
      (∀ tx ∈ acc, tx ∉ s0.pending) →
      let r := evs.foldl (fun (a : St × List Bytes) ev =>
        let (s', o) := step a.1 ev.1 ev.2.1 ev.2.2
        (s', match o.delivered with | some tx => a.2 ++ [tx] | none => a.2)) (s0, acc)
      (∀ tx ∈ r.2, tx ∈ acc ∨ tx ∈ s0.pending) ∧ r.2.Nodup ∧ (∀ tx ∈ r.2, tx ∉ r.1.pending) ∧
      (∀ t ∈ r.1.pending, t ∈ s0.pending) := by
    intro evs
    induction evs with
    | nil => intro s0 acc _ ha hd; exact ⟨fun tx h => Or.inl h, ha, hd, fun t h => h⟩
    | cons ev rest ih =>
      intro s0 acc hn0 ha hd
      obtain ⟨h1, h2, h3⟩ := step_pending_subset s0 ev.1 ev.2.1 ev.2.2
      simp only [List.foldl_cons]
      cases hdel : (step s0 ev.1 ev.2.1 ev.2.2).2.delivered with
      | none =>
        have := ih (step s0 ev.1 ev.2.1 ev.2.2).1 acc (h3 hn0) ha (fun tx htx hp => hd tx htx (h1 tx hp))
        simp only [hdel] at this ⊢
        refine ⟨fun tx htx => ?_, this.2.1, this.2.2.1, fun t ht => h1 t (this.2.2.2 t ht)⟩
        rcases this.1 tx htx with h | h
        · exact Or.inl h
        · exact Or.inr (h1 tx h)
      | some tx0 =>
        obtain ⟨hin, hout⟩ := h2 tx0 hdel
        have hacc : (acc ++ [tx0]).Nodup := by
          rw [List.nodup_append]
          exact ⟨ha, by simp, fun a haa b hb => by
            simp only [List.mem_singleton] at hb; subst hb; intro hab; subst hab; exact hd a haa hin⟩
        have := ih (step s0 ev.1 ev.2.1 ev.2.2).1 (acc ++ [tx0]) (h3 hn0) hacc (by
          intro tx htx hp
          simp only [List.mem_append, List.mem_singleton] at htx
          rcases htx with htx | htx
          · exact hd tx htx (h1 tx hp)
          · subst htx; exact hout hp)
        simp only [hdel] at this ⊢
        refine ⟨fun tx htx => ?_, this.2.1, this.2.2.1, fun t ht => h1 t (this.2.2.2 t ht)⟩
        rcases this.1 tx htx with h | h
        · simp only [List.mem_append, List.mem_singleton] at h
          rcases h with h | h
          · exact Or.inl h
          · subst h; exact Or.inr hin
        · exact Or.inr (h1 tx h)
  have := key evs s [] hn List.nodup_nil (by simp)
  simp only [run]
  refine ⟨fun tx htx => ?_, this.2.1, this.2.2.1, this.2.2.2⟩
  rcases this.1 tx htx with h | h
  · simp at h
  · exact h

example : let s : St := { role := .controlled, state := .checking, remotes := [], locals := [], selected := none,
                          nominated := none, pending := [[1], [2]], latching := false, webrtc := true }
    s.pending.Nodup ∧ (run s [(.udp (.v4 [127, 0, 0, 1] 1), .v4 [127, 0, 0, 1] 2, .response [1] false),
                              (.udp (.v4 [127, 0, 0, 1] 1), .v4 [127, 0, 0, 1] 2, .response [1] false),
                              (.udp (.v4 [127, 0, 0, 1] 1), .v4 [127, 0, 0, 1] 2, .response [9] true)]).2 = [[1]] := by
  decide


/-! ### requests -/

/-- **unauth_request_inert** (abstract step): in WebRTC mode a request the credential check does not
accept is answered and otherwise ignored — for every state, role, socket kind, source address, with or
without USE-CANDIDATE. -/
theorem unauth_request_inert_step (s : St) (sock : Sock) (src : Addr) (r : Req) (hw : s.webrtc = true)
    (hr : r.accepted = false) : step s sock src (.request r) = (s, { replied := sock.canSend }) := by
  simp [step, handleRequest_unauth s sock src r hw hr]

/-- the credential check is sound: it accepts only datagrams that really carry the credentials -/
theorem accepted_implies_credentials (P : Prims) (ufrag pwd pkt : Bytes) (h : codeAuth P ufrag pwd pkt = true) :
    Credentials P ufrag pwd pkt :=
  codeAuth_sound P ufrag pwd pkt h

/-- **unauth_request_inert** (the property, on raw datagrams): in WebRTC mode, for EVERY byte string
arriving from any source on any socket in any ICE state and role: if it does not carry this session's
USERNAME and a MESSAGE-INTEGRITY computed with the local ICE password, then handling it adds no remote
candidate, does not change the selected pair, does not complete nomination and does not change the
transport state. (Holds for any HMAC function `P.hmac`; no assumption on what the attacker knows.) -/
theorem unauth_request_inert (P : Prims) (ufrag pwd : Bytes) (s : St) (sock : Sock) (src : Addr) (pkt : Bytes)
    (hw : s.webrtc = true) (hno : ¬ Credentials P ufrag pwd pkt) :
    Inert s (step s sock src (classify P ufrag pwd pkt)).1 := by
  have hacc : codeAuth P ufrag pwd pkt = false := by
    cases h : codeAuth P ufrag pwd pkt with
    | false => rfl
    | true => exact absurd (codeAuth_sound P ufrag pwd pkt h) hno
  unfold classify
  split
  · simp [step, Inert]
  · split
    · split
      · split
        · rw [hacc, unauth_request_inert_step s sock src _ hw rfl]; simp [Inert]
        · exact (response_needs_pending s sock src _ false).2.2.1
        · exact (response_needs_pending s sock src _ true).2.2.1
        · simp [step, Inert]
      · simp [step, Inert]
    · simp [step, Inert]

/-- **first_message_integrity_decides** (the malformed-credential shapes, for all values): in a datagram
`20-byte header ++ attributes without MESSAGE-INTEGRITY ++ MESSAGE-INTEGRITY(value v) ++ anything`, the check
passes only if `v` is exactly 20 bytes and equals the HMAC under the local password of the bytes before it
(length field rewritten). Hence a zero-length value, any 1..19-byte prefix of the right HMAC, 21 / 24-byte
values, a second (even correct) MESSAGE-INTEGRITY after a wrong first one, or anything placed after the
attribute can never make an otherwise unauthenticated request pass. -/
theorem first_message_integrity_decides (P : Prims) (ufrag pwd hdr : Bytes) (pre : List (Nat × Bytes)) (v rest : Bytes)
    (hh : hdr.length = 20) (hb : ∀ p ∈ pre, p.1 < 65536 ∧ p.2.length < 65536 ∧ p.1 ≠ 8) (hv : v.length < 65536)
    (hbad : v.length ≠ 20 ∨ v ≠ P.hmac pwd (writeLen (hdr ++ StunRfc.flat pre) ((StunRfc.flat pre).length + 24))) :
    codeAuth P ufrag pwd (hdr ++ StunRfc.flat pre ++ (tlv 8 v ++ rest)) = false := by
  apply codeAuth_le_verifyMI
  unfold verifyMI
  have hd : (hdr ++ StunRfc.flat pre ++ (tlv 8 v ++ rest)).drop 20 = StunRfc.flat pre ++ (tlv 8 v ++ rest) := by
    rw [List.append_assoc]; exact C16Bytes.drop_append_len hh
  have ht : (hdr ++ StunRfc.flat pre ++ (tlv 8 v ++ rest)).take (20 + (StunRfc.flat pre).length) = hdr ++ StunRfc.flat pre :=
    C16Bytes.take_append_len (by simp [hh])
  rw [hd]
  rw [verifyLoop_first_mi P pwd _ 20 pre v rest hb hv, ht]
  rcases hbad with h | h
  · simp [h]
  · have e : 20 + (StunRfc.flat pre).length - 20 + 24 = (StunRfc.flat pre).length + 24 := by omega
    rw [e]; simp [h]

/-- non-vacuity of `unauth_request_inert`: e.g. no datagram shorter than 24 bytes carries credentials -/
example (P : Prims) (ufrag pwd : Bytes) : ¬ Credentials P ufrag pwd [0, 1, 0, 0] := by
  intro ⟨_, off, mac, ⟨hb, t0, t1, l0, l1, body, hd, _⟩, _⟩
  have h20 : 20 ≤ off := hb.ge20
  have := congrArg List.length hd
  simp only [List.length_drop, List.length_cons, List.length_nil] at this
  omega

/-- **genuine_check_accepted**: the repair does not lock out conforming peers — every request whose first
USERNAME is `<ufrag>:<anything>` and whose MESSAGE-INTEGRITY is computed with the local password, whatever
other attributes it carries, with or without FINGERPRINT, passes the credential check. -/
theorem genuine_check_accepted (P : Prims) (ufrag pwd tail : Bytes) (m : Msg) (fp : Bool) (pre post : List Attr)
    (hattrs : m.attrs = pre ++ Attr.username (ufrag ++ 58 :: tail) :: post)
    (hpre : ∀ a ∈ pre, isUsername a = false) (hcolon : (58 : UInt8) ∉ ufrag)
    (hutf : validUtf8 (ufrag ++ 58 :: tail) = true) (hm : m.Wf) (hs : StunRfc.Sized m) :
    codeAuth P ufrag pwd (encode P m (some pwd) fp) = true :=
  codeAuth_complete P ufrag pwd tail m fp pre post hattrs hpre hcolon hutf hm hs

/-- non-vacuity of both directions: the connectivity check rustrtc itself sends (SOFTWARE, USERNAME,
PRIORITY, ICE-CONTROLLING, USE-CANDIDATE) meets the hypotheses of `genuine_check_accepted` -/
example : let ufrag : Bytes := [97, 98, 99, 100]
    let m : Msg := ⟨.request, .binding, C16Bytes.zeros 12,
      [.software [114, 116, 99], .username (ufrag ++ 58 :: [120, 121]), .priority 1845501695, .iceControlling 7, .useCandidate]⟩
    m.attrs = [Attr.software [114, 116, 99]] ++ Attr.username (ufrag ++ 58 :: [120, 121]) ::
        [.priority 1845501695, .iceControlling 7, .useCandidate] ∧
    (∀ a ∈ [Attr.software [114, 116, 99]], isUsername a = false) ∧ (58 : UInt8) ∉ ufrag ∧
    validUtf8 (ufrag ++ 58 :: [120, 121]) = true ∧ m.Wf ∧ StunRfc.Sized m := by
  refine ⟨rfl, by decide, by decide, by decide, ⟨rfl, by decide⟩, ⟨by decide, by decide⟩⟩

/-- what an *accepted* (or non-WebRTC-mode) request can do at most: outstanding transactions, role,
local candidates are never touched; the remote candidate list grows by at most one peer-reflexive entry
for the source; nomination only becomes `Some(true)`, the state only Connected; a controlling agent
without latching keeps pair, nomination and state. -/
theorem request_effects_bounded (s : St) (sock : Sock) (src : Addr) (r : Req) :
    (step s sock src (.request r)).1.pending = s.pending ∧ (step s sock src (.request r)).1.role = s.role ∧
    (step s sock src (.request r)).1.locals = s.locals ∧
    ((step s sock src (.request r)).1.remotes = s.remotes ∨
     (step s sock src (.request r)).1.remotes = s.remotes ++ [prflxCand sock src]) ∧
    ((step s sock src (.request r)).1.nominated = s.nominated ∨ (step s sock src (.request r)).1.nominated = some true) ∧
    ((step s sock src (.request r)).1.state = s.state ∨ (step s sock src (.request r)).1.state = .connected) ∧
    (s.role = .controlling → s.latching = false →
      (step s sock src (.request r)).1.selected = s.selected ∧ (step s sock src (.request r)).1.nominated = s.nominated ∧
      (step s sock src (.request r)).1.state = s.state) := by
  by_cases hg : s.webrtc = true ∧ r.accepted = false
  · rw [unauth_request_inert_step s sock src r hg.1 hg.2]; simp
  · have hauth : handleRequest s sock src r = handleAuthenticated s sock src r :=
      handleRequest_auth s sock src r (by
        by_cases hw : s.webrtc = true
        · right; cases hr : r.accepted with
          | true => rfl
          | false => exact absurd ⟨hw, hr⟩ hg
        · left; simpa using hw)
    refine ⟨by simp [step], by simp [step], by simp [step], ?_, ?_, ?_, ?_⟩
    · simp only [step, hauth, handleAuthenticated_remotes, learn_remotes]; split <;> simp
    · simp only [step, hauth, handleAuthenticated]
      have h1 : ∀ (x : St) k a, (tcpNominate x k a).nominated = x.nominated ∨ (tcpNominate x k a).nominated = some true := by
        intro x k a; unfold tcpNominate; repeat' split
        all_goals simp
      have h2 : ∀ (x : St) k a, (useCandidate x k a).nominated = x.nominated ∨ (useCandidate x k a).nominated = some true := by
        intro x k a; unfold useCandidate; repeat' split
        all_goals simp
      have e : (latch (learn s sock src) src).nominated = s.nominated := by simp
      split
      · rcases h2 (tcpNominate (latch (learn s sock src) src) sock src) sock src with h | h
        · rcases h1 (latch (learn s sock src) src) sock src with h' | h'
          · left; rw [h, h', e]
          · right; rw [h, h']
        · right; exact h
      · rcases h1 (latch (learn s sock src) src) sock src with h' | h'
        · left; rw [h', e]
        · right; exact h'
    · simp only [step, hauth, handleAuthenticated]
      have h1 : ∀ (x : St) k a, (tcpNominate x k a).state = x.state ∨ (tcpNominate x k a).state = .connected := by
        intro x k a; unfold tcpNominate withPairConnected; repeat' split
        all_goals simp
      have h2 : ∀ (x : St) k a, (useCandidate x k a).state = x.state ∨ (useCandidate x k a).state = .connected := by
        intro x k a; unfold useCandidate; repeat' split
        all_goals simp
      have e : (latch (learn s sock src) src).state = s.state := by simp
      split
      · rcases h2 (tcpNominate (latch (learn s sock src) src) sock src) sock src with h | h
        · rcases h1 (latch (learn s sock src) src) sock src with h' | h'
          · left; rw [h, h', e]
          · right; rw [h, h']
        · right; exact h
      · rcases h1 (latch (learn s sock src) src) sock src with h' | h'
        · left; rw [h', e]
        · right; exact h'
    · intro hr hl
      simp only [step, hauth, handleAuthenticated]
      have hl' : (learn s sock src).latching = false := by simp [hl]
      rw [latch_off _ _ hl']
      have hr' : (learn s sock src).role = .controlling := by simp [hr]
      rw [tcpNominate_id _ _ _ (Or.inl hr'), useCandidate_id _ _ _ (Or.inl hr')]
      simp

/-! ### the behaviour before the repair, still in force outside WebRTC mode (RTP / SRTP modes answer and
honour unauthenticated probes by design) -/

def loopback (p : Nat) : Addr := .v4 [127, 0, 0, 1] p
def hostCand (a : Addr) : Cand := ⟨a, a, .host, false, false, priorityFor .host 1⟩
/-- an agent that has gathered one UDP host candidate and knows no remote candidate yet -/
def fresh (role : Role) (st : IceState) (webrtc : Bool) : St :=
  { role, state := st, remotes := [], locals := [hostCand (loopback 5000)], selected := none, nominated := none,
    pending := [], latching := false, webrtc }
def stranger : Addr := .v4 [203, 0, 113, 66] 6666
def unauth (uc : Bool) : Req := ⟨[0, 1, 2, 3, 4, 5, 6, 7, 8, 9, 10, 11], uc, false⟩

/-- **stranger_use_candidate_connects** — the defect as found (every mode), now only outside WebRTC mode:
a controlled agent in state New receives ONE request without credentials carrying USE-CANDIDATE from an
address it has never heard of ⇒ remote candidate added, pair selected, nomination complete, Connected. -/
theorem legacy_stranger_use_candidate_connects :
    let s' := (step (fresh .controlled .new false) (.udp (loopback 5000)) stranger (.request (unauth true))).1
    s'.remotes = [prflxCand (.udp (loopback 5000)) stranger] ∧
    s'.selected = some ⟨hostCand (loopback 5000), prflxCand (.udp (loopback 5000)) stranger⟩ ∧
    s'.nominated = some true ∧ s'.state = .connected := by decide

/-- the same datagram in WebRTC mode is inert (the repaired behaviour, concrete instance) -/
theorem webrtc_stranger_use_candidate_inert :
    (step (fresh .controlled .new true) (.udp (loopback 5000)) stranger (.request (unauth true))).1 =
      fresh .controlled .new true := by decide

/-- datagrams that are not requests or responses never touch anything -/
theorem other_datagrams_inert (s : St) (sock : Sock) (src : Addr) (i : Inp)
    (h : i = .empty ∨ i = .data ∨ i = .undecodable ∨ i = .indication) : (step s sock src i).1 = s := by
  rcases h with rfl | rfl | rfl | rfl <;> rfl

end RtcModel.Theorems.C06
