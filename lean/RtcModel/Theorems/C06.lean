/-
C06 — only authenticated STUN connectivity checks can influence ICE state.
Property theorems only; the model is `RtcModel/IceAuth.lean`.

Reading used here: a datagram *carries the session's credentials* (`IceAuth.Credentials`) when it has a
USERNAME attribute `<local ufrag>:…` and a MESSAGE-INTEGRITY attribute whose value is HMAC-SHA1 under the
local ICE password of the message up to that attribute (RFC 5389 §15.4 / RFC 8445 §7.3), both at attribute
boundaries reached from the header.  "Influence" = any change of the remote candidate list, the selected
pair, the nomination flag or the transport state.  HMAC is abstract (`Prims`).

The code as found violated the property (no check at all; see `legacy_*` below and known_findings.d);
it was repaired by the `fix:` commit "in WebRTC mode let only STUN requests with our ufrag and a valid
MESSAGE-INTEGRITY influence ICE state"; the model is the repaired code and the full statement is proved.
-/
import RtcModel.Lemmas.IceAuthCred

namespace RtcModel.Theorems.C06
open RtcModel.IceAuth RtcModel.Stun RtcModel.IcePrio RtcModel.C16Bytes

/-- the four things an inbound check must not touch unless authenticated -/
def Inert (s s' : St) : Prop :=
  s'.remotes = s.remotes ∧ s'.selected = s.selected ∧ s'.nominated = s.nominated ∧ s'.state = s.state

/-! ### responses -/

/-- **response_needs_pending** (one datagram; "matches an outstanding transaction" is by the 96-bit transaction
id ALONE — the code keeps one map for all sockets, sources and request kinds, so a response arriving on any
socket from any source completes the transaction with that id; what the waiter then does with it is outside
C06): a success or error response whose transaction id is not outstanding changes nothing and completes nothing; one whose id is outstanding is delivered to exactly
that waiter, the id is consumed (so a replayed copy is inert), and in neither case is any ICE state
(candidates, selected pair, nomination, transport state) touched. -/
theorem response_needs_pending (s : St) (sock : Sock) (src : Addr) (tx : Bytes) (e : Bool) :
    (tx ∉ s.pending → step s sock src (.response tx e) = (s, {})) ∧
    (tx ∈ s.pending →
      (step s sock src (.response tx e)).2.delivered = some tx ∧
      tx ∉ (step s sock src (.response tx e)).1.pending ∧
      (∀ t, t ≠ tx → (t ∈ (step s sock src (.response tx e)).1.pending ↔ t ∈ s.pending)) ∧
      step (step s sock src (.response tx e)).1 sock src (.response tx e) =
        ((step s sock src (.response tx e)).1, {})) ∧
    Inert s (step s sock src (.response tx e)).1 ∧
    (step s sock src (.response tx e)).1.role = s.role ∧ (step s sock src (.response tx e)).1.locals = s.locals ∧
    (step s sock src (.response tx e)).1.selSock = s.selSock := by
  by_cases h : tx ∈ s.pending
  · simp [step, handleResponse, h, Inert, List.mem_filter]
    intro t ht; simp [ht]
  · simp [step, handleResponse, h, Inert]

/-- all datagrams of a history, with who sent them on which socket -/
abbrev Ev := Sock × Addr × Inp

def run (s : St) (evs : List Ev) : St × List Bytes :=
  evs.foldl (fun (acc : St × List Bytes) ev =>
    let (s', o) := step acc.1 ev.1 ev.2.1 ev.2.2
    (s', match o.delivered with | some tx => acc.2 ++ [tx] | none => acc.2)) (s, [])

/-- **response_needs_pending** (all histories): over any sequence of datagrams of any kind — requests
authenticated or not, responses genuine, forged or replayed, garbage — every delivered response
belongs to a transaction that was outstanding at the start, and no transaction is completed twice. -/
theorem responses_consume_pending_once (s : St) (evs : List Ev) (hn : s.pending.Nodup) :
    (∀ tx ∈ (run s evs).2, tx ∈ s.pending) ∧ (run s evs).2.Nodup ∧
    (∀ tx ∈ (run s evs).2, tx ∉ (run s evs).1.pending) ∧ (∀ t ∈ (run s evs).1.pending, t ∈ s.pending) := by
  -- invariant over the fold, generalised over the accumulated deliveries
  have key : ∀ (evs : List Ev) (s0 : St) (acc : List Bytes), s0.pending.Nodup → acc.Nodup →
      (∀ tx ∈ acc, tx ∉ s0.pending) →
      let r := evs.foldl (fun (a : St × List Bytes) ev =>
        let (s', o) := step a.1 ev.1 ev.2.1 ev.2.2
        (s', match o.delivered with | some tx => a.2 ++ [tx] | none => a.2)) (s0, acc)
      (∀ tx ∈ r.2, tx ∈ acc ∨ tx ∈ s0.pending) ∧ r.2.Nodup ∧ (∀ tx ∈ r.2, tx ∉ r.1.pending) ∧
      (∀ t ∈ r.1.pending, t ∈ s0.pending) := by
    intro evs
    induction evs with
    | nil => intro s0 acc _ ha hd; exact ⟨fun tx h => Or.inl h, ha, hd, fun t h => h⟩
    | cons ev rest ih =>
      intro s0 acc hn0 ha hd
      obtain ⟨h1, h2, h3⟩ := step_pending_subset s0 ev.1 ev.2.1 ev.2.2
      simp only [List.foldl_cons]
      cases hdel : (step s0 ev.1 ev.2.1 ev.2.2).2.delivered with
      | none =>
        have := ih (step s0 ev.1 ev.2.1 ev.2.2).1 acc (h3 hn0) ha (fun tx htx hp => hd tx htx (h1 tx hp))
        simp only [hdel] at this ⊢
        refine ⟨fun tx htx => ?_, this.2.1, this.2.2.1, fun t ht => h1 t (this.2.2.2 t ht)⟩
        rcases this.1 tx htx with h | h
        · exact Or.inl h
        · exact Or.inr (h1 tx h)
      | some tx0 =>
        obtain ⟨hin, hout⟩ := h2 tx0 hdel
        have hacc : (acc ++ [tx0]).Nodup := by
          rw [List.nodup_append]
          exact ⟨ha, by simp, fun a haa b hb => by
            simp only [List.mem_singleton] at hb; subst hb; intro hab; subst hab; exact hd a haa hin⟩
        have := ih (step s0 ev.1 ev.2.1 ev.2.2).1 (acc ++ [tx0]) (h3 hn0) hacc (by
          intro tx htx hp
          simp only [List.mem_append, List.mem_singleton] at htx
          rcases htx with htx | htx
          · exact hd tx htx (h1 tx hp)
          · subst htx; exact hout hp)
        simp only [hdel] at this ⊢
        refine ⟨fun tx htx => ?_, this.2.1, this.2.2.1, fun t ht => h1 t (this.2.2.2 t ht)⟩
        rcases this.1 tx htx with h | h
        · simp only [List.mem_append, List.mem_singleton] at h
          rcases h with h | h
          · exact Or.inl h
          · subst h; exact Or.inr hin
        · exact Or.inr (h1 tx h)
  have := key evs s [] hn List.nodup_nil (by simp)
  simp only [run]
  refine ⟨fun tx htx => ?_, this.2.1, this.2.2.1, this.2.2.2⟩
  rcases this.1 tx htx with h | h
  · simp at h
  · exact h

example : let s : St := { role := .controlled, state := .checking, remotes := [], locals := [], selected := none,
                          nominated := none, pending := [[1], [2]], latching := false, webrtc := true }
    s.pending.Nodup ∧ (run s [(.udp (.v4 [127, 0, 0, 1] 1), .v4 [127, 0, 0, 1] 2, .response [1] false),
                              (.udp (.v4 [127, 0, 0, 1] 1), .v4 [127, 0, 0, 1] 2, .response [1] false),
                              (.udp (.v4 [127, 0, 0, 1] 1), .v4 [127, 0, 0, 1] 2, .response [9] true)]).2 = [[1]] := by
  decide


/-- the other consumer of STUN responses in the anchored code, `probe_stun` (server-reflexive gathering).
A reading of the definition of `probeAccept` (the content is in the `probe` correspondence stream and its
oracle on the real `probe_stun`): a mapped address is taken only from a datagram that came from the server's IP
and decodes to a Binding *success* response carrying the probe's own transaction id (since the `fix:`
commit; before, any decodable datagram from the server's IP with an XOR-MAPPED-ADDRESS was taken). -/
theorem probe_needs_own_transaction (tx resp : Bytes) (a : Addr) (same : Bool) (h : probeAccept tx resp same = some a) :
    same = true ∧ ∃ d, decode resp = .ok d ∧ d.tx = tx ∧ d.cls = .success ∧ d.method = .binding ∧ d.mapped = some a := by
  unfold probeAccept at h
  split at h
  · simp at h
  rename_i hs
  refine ⟨by simpa using hs, ?_⟩
  split at h
  · rename_i d hd
    split at h
    · rename_i hc; exact ⟨d, hd, hc.1, hc.2.1, hc.2.2, h⟩
    · simp at h
  · simp at h

/-! ### requests -/

/-- **unauth_request_inert** (abstract step): in WebRTC mode a request the credential check does not
accept is answered and otherwise ignored — for every state, role, socket kind, source address, with or
without USE-CANDIDATE. -/
theorem unauth_request_inert_step (s : St) (sock : Sock) (src : Addr) (r : Req) (hw : s.webrtc = true)
    (hr : r.accepted = false) : step s sock src (.request r) = (s, { replied := sock.canSend }) := by
  simp [step, handleRequest_unauth s sock src r hw hr]

/-- "noise": what must be without influence — unaccepted requests (WebRTC mode), responses whose
transaction is not outstanding, undecodable STUN-range datagrams, empty datagrams, and Binding indications and
media datagrams that do not come from the remote address of the selected pair. It leaves the WHOLE state
unchanged, including the liveness timestamp `last_received` and the published socket. -/
def noise (s : St) (src : Addr) : Inp → Bool
  | .request r => s.webrtc && !r.accepted
  | .response tx _ => !(s.pending.contains tx)
  | .undecodable | .empty => true
  | .indication | .data => !fromSelectedPeer s src

theorem stun_noise_is_identity (s : St) (sock : Sock) (src : Addr) (i : Inp) (h : noise s src i = true) :
    (step s sock src i).1 = s := by
  cases i with
  | request r =>
    simp only [noise, Bool.and_eq_true, Bool.not_eq_eq_eq_not, Bool.not_true] at h
    rw [unauth_request_inert_step s sock src r h.1 h.2]
  | response tx e =>
    have hn : tx ∉ s.pending := by simpa [noise] using h
    simp [step, handleResponse, hn]
  | data | indication =>
    have hn : fromSelectedPeer s src = false := by simpa [noise] using h
    simp [step, hn]
  | undecodable | empty => rfl

/-! ### histories with keepalive ticks -/

/-- is this event noise in the state it meets? -/
def noiseAt (s : St) : HEv → Bool
  | .pkt _ src i => noise s src i
  | _ => false

/-- the history with every noise event erased (each judged in the state it would have met) -/
def eraseNoise (s : St) : List HEv → List HEv
  | [] => []
  | e :: es => if noiseAt s e then eraseNoise s es else e :: eraseNoise (hstep s e) es

/-- **unauth_history_inert** (the property over histories, ticks included): ERASING every noise event —
unauthenticated requests, unmatched responses, garbage, indications and media from anyone but the selected
peer — from an arbitrary history of datagrams, keepalive ticks and clock advances does not change the
resulting state at all: not the remote candidates, the selected pair, the nomination flag, the transport
state (so no Disconnected → Connected through the liveness timer either), the published socket or the
outstanding transactions. -/
theorem unauth_history_inert (s : St) (evs : List HEv) : hrun s evs = hrun s (eraseNoise s evs) := by
  induction evs generalizing s with
  | nil => rfl
  | cons e es ih =>
    by_cases hu : noiseAt s e = true
    · have he : hstep s e = s := by
        cases e with
        | pkt sock src i => exact stun_noise_is_identity s sock src i hu
        | tick _ => simp [noiseAt] at hu
        | advance _ => simp [noiseAt] at hu
      simp only [hrun, List.foldl_cons, he, eraseNoise, hu, ↓reduceIte]
      exact ih s
    · simp only [hrun, List.foldl_cons, eraseNoise, hu, Bool.false_eq_true, ↓reduceIte]
      exact ih (hstep s e)

/-- the same on RAW datagrams: a history of byte strings (each with its socket and source), ticks and clock
advances; `sel` marks any set of datagrams that do not carry this session's credentials (`Credentials` is
the specification on bytes; responses and media are not marked by it unless they also fail to be requests —
see `hsel`). In WebRTC mode erasing the marked datagrams leaves the final state unchanged. -/
inductive REv where
  | pkt (sock : Sock) (src : Addr) (bytes : Bytes)
  | tick (tx : Bytes)
  | advance (t : Nat)

def REv.toHEv (P : Prims) (ufrag pwd : Bytes) : REv → HEv
  | .pkt sock src b => .pkt sock src (classify P ufrag pwd b)
  | .tick tx => .tick tx
  | .advance t => .advance t

def rrun (P : Prims) (ufrag pwd : Bytes) (s : St) (evs : List REv) : St :=
  hrun s (evs.map (REv.toHEv P ufrag pwd))

/-- the marked datagram is a STUN request (decodes, class Request) without the session's credentials -/
def REv.UnauthRequest (P : Prims) (ufrag pwd : Bytes) : REv → Prop
  | .pkt _ _ b => (∃ r, classify P ufrag pwd b = .request r) ∧ ¬ Credentials P ufrag pwd b
  | _ => False

theorem unauth_history_inert_raw (P : Prims) (ufrag pwd : Bytes) (s : St) (evs : List REv) (sel : REv → Bool)
    (hw : s.webrtc = true) (hsel : ∀ e ∈ evs, sel e = true → e.UnauthRequest P ufrag pwd) :
    rrun P ufrag pwd s evs = rrun P ufrag pwd s (evs.filter (fun e => !sel e)) := by
  unfold rrun
  induction evs generalizing s with
  | nil => rfl
  | cons e es ih =>
    have hes : ∀ e' ∈ es, sel e' = true → e'.UnauthRequest P ufrag pwd := fun e' h' => hsel e' (List.mem_cons_of_mem _ h')
    by_cases hu : sel e = true
    · have hreq := hsel e List.mem_cons_self hu
      have he : hstep s (e.toHEv P ufrag pwd) = s := by
        cases e with
        | pkt sock src b =>
          obtain ⟨⟨r, hr⟩, hno⟩ := hreq
          have hacc : r.accepted = false := by
            rw [classify_request_accepted P ufrag pwd b r hr]
            cases h : codeAuth P ufrag pwd b with
            | false => rfl
            | true => exact absurd (codeAuth_sound P ufrag pwd b h) hno
          simp only [REv.toHEv, hstep, hr]
          rw [unauth_request_inert_step s sock src r hw hacc]
        | tick _ => exact absurd hreq (by simp [REv.UnauthRequest])
        | advance _ => exact absurd hreq (by simp [REv.UnauthRequest])
      simp only [List.map_cons, hrun, List.foldl_cons, he, List.filter_cons, hu, Bool.not_true, Bool.false_eq_true, ↓reduceIte]
      exact ih s hw hes
    · simp only [List.map_cons, hrun, List.foldl_cons, List.filter_cons, hu, Bool.not_false, ↓reduceIte]
      exact ih _ (by rw [hstep_webrtc]; exact hw) hes

/-- what a keepalive tick can do (the first five conjuncts are the frame of the model's `tick` — true by its
definition, listed so that the statement is complete; the content is in the last three): it looks only at state / mode / `now − last_received` / thresholds; it can
move only a Connected or Disconnected WebRTC transport, and only to Connected, Disconnected or Failed; it
never touches candidates, pair, nomination or socket; it registers at most its own transaction id. -/
theorem tick_effects (s : St) (tx : Bytes) :
    (tick s tx).1.remotes = s.remotes ∧ (tick s tx).1.selected = s.selected ∧ (tick s tx).1.nominated = s.nominated ∧
    (tick s tx).1.selSock = s.selSock ∧ (tick s tx).1.lastRx = s.lastRx ∧
    ((tick s tx).1.pending = s.pending ∨ (tick s tx).1.pending = s.pending ++ [tx]) ∧
    ((tick s tx).1.state ≠ s.state → s.webrtc = true ∧ (s.state = .connected ∨ s.state = .disconnected) ∧
      ((tick s tx).1.state = .connected ∨ (tick s tx).1.state = .disconnected ∨ (tick s tx).1.state = .failed)) ∧
    -- a Disconnected transport comes back only if something counted as received recently enough
    (s.state = .disconnected → (tick s tx).1.state = .connected →
      s.now - s.lastRx ≤ (if tcpSelected s then s.connTimeout - 1000 else s.discThreshold)) := by
  refine ⟨rfl, rfl, rfl, rfl, rfl, ?_, ?_, ?_⟩
  · simp only [tick]; split <;> simp
  · intro hne
    simp only [tick, tickState, tickNewState] at hne ⊢
    split at hne
    · rename_i hc
      refine ⟨hc.2, hc.1, ?_⟩
      simp only [hc, and_self, ↓reduceIte]
      repeat' split
      all_goals simp
    · exact absurd rfl hne
  · intro hd hc
    simp only [tick, tickState] at hc
    unfold tickNewState at hc
    by_cases h1 : (s.state = .connected ∨ s.state = .disconnected) ∧ s.webrtc = true
    · rw [if_pos h1] at hc
      by_cases h2 : s.now - s.lastRx > s.connTimeout
      · rw [if_pos h2] at hc; simp at hc
      · rw [if_neg h2] at hc
        by_cases h3 : s.now - s.lastRx > (if tcpSelected s then s.connTimeout - 1000 else s.discThreshold)
        · rw [if_pos h3] at hc; simp at hc
        · exact Nat.le_of_not_gt h3
    · rw [if_neg h1, hd] at hc; simp at hc

/-- what is NOT excluded, stated for honesty: traffic that is not part of a STUN transaction — a media
datagram (first byte ≥ 2) or a Binding indication (the RFC 8445 §11 keepalive) — is unauthenticated at this
layer and refreshes the liveness timestamp when its source address is the remote address of the selected
pair; so whoever can send from (spoof) that address can keep the transport Connected or bring a
Disconnected one back at the next tick. From every other address the same datagram is inert
(`stun_noise_is_identity`). The media path is authenticated by DTLS / SRTP above ICE, not here. -/
theorem peer_address_traffic_refreshes_liveness_witness :
    let peer : Addr := .v4 [203, 0, 113, 66] 6666
    let l : Cand := ⟨.v4 [127, 0, 0, 1] 1, .v4 [127, 0, 0, 1] 1, .host, false, false, 1, true⟩
    let r : Cand := ⟨peer, peer, .host, false, false, 1, false⟩
    let s : St := { role := .controlled, state := .disconnected, remotes := [r], locals := [l], selected := some ⟨l, r⟩,
                    nominated := some true, pending := [], latching := false, webrtc := true, now := 100000, lastRx := 0 }
    (tick s []).1.state = .disconnected ∧
    (tick (step s (.udp (.v4 [127, 0, 0, 1] 1)) peer .data).1 []).1.state = .connected ∧
    (tick (step s (.udp (.v4 [127, 0, 0, 1] 1)) peer .indication).1 []).1.state = .connected ∧
    (tick (step s (.udp (.v4 [127, 0, 0, 1] 1)) (.v4 [198, 51, 100, 7] 6666) .data).1 []).1.state = .disconnected := by
  decide

/-! ### known finding: the TCP stream table is written before authentication

Full statement one would want (an unauthenticated TCP connection has no influence on where the agent sends for
the selected pair): `∀ t L G X, resolveTcp (acceptTcp t L X) G L = resolveTcp t G L`. It is FALSE for the code
(`tcp_stream_table_overwrite_witness`, reproduced on the implementation as
`preauth:tcp-stream-table:{listen-loop,attach-demuxed}:…`, status `known`); what holds is `_partial`. -/

/-- the genuine peer `G` connected to listener `L` and was nominated; a stranger `X` merely opens a TCP
connection to `L`: `resolve_socket` for the pair (L, G) now yields the stranger's connection. -/
theorem tcp_stream_table_overwrite_witness :
    let L : Addr := .v4 [127, 0, 0, 1] 5000
    let G : Addr := .v4 [203, 0, 113, 5] 40000
    let X : Addr := .v4 [198, 51, 100, 66] 6666
    ¬ (resolveTcp (acceptTcp (acceptTcp [] L G) L X) G L = resolveTcp (acceptTcp [] L G) G L) ∧
    resolveTcp (acceptTcp (acceptTcp [] L G) L X) G L = some X := by
  decide

/-- what holds: a connection accepted on ANOTHER key (another listener, an outbound connection) does not
change what is resolved for a pair whose peer's stream is in the table -/
theorem tcp_stream_table_partial (t : TcpTable) (K L G X : Addr) (hk : K ≠ L)
    (hg : (L, G) ∈ t) :
    resolveTcp (acceptTcp t K X) G L = some G := by
  have hmem : (L, G) ∈ t.filter (fun e => e.1 ≠ K) := by
    simp only [List.mem_filter, ne_eq, decide_not, Bool.not_eq_eq_eq_not, Bool.not_true, decide_eq_false_iff_not]
    exact ⟨hg, fun e => hk e.symm⟩
  unfold resolveTcp acceptTcp storeTcpStream
  have hfind : ∃ e, ((K, X) :: t.filter (fun e => e.1 ≠ K)).find? (fun e => e.2 = G) = some e := by
    cases h : ((K, X) :: t.filter (fun e => e.1 ≠ K)).find? (fun e => e.2 = G) with
    | some e => exact ⟨e, rfl⟩
    | none =>
      have := List.find?_eq_none.mp h (L, G) (List.mem_cons_of_mem _ hmem)
      simp at this
  obtain ⟨e, he⟩ := hfind
  rw [he]
  have := List.find?_some he
  simp only [decide_eq_true_eq] at this
  simp [this]

/-- **nudge_needs_known_peer** (holds since the `fix:` commit "nudge_passive_tcp_nomination honours only a TCP
connection whose peer is a remote candidate"; before, a bare TCP connect followed by the nudge completed
nomination and published the stranger's connection): whatever connections strangers have opened — the table is
written on accept, before authentication — the nudge changes nothing unless some registered connection's peer is
a remote candidate; and connections accepted from addresses that are no remote candidate never change its result. -/
theorem nudge_needs_known_peer (s : St) (t : TcpTable)
    (h : ∀ e ∈ t, s.remotes.any (fun c => c.address = e.2) = false) : nudge s t = s := by
  unfold nudge
  split
  · rfl
  · have : t.find? (fun e => s.remotes.any (fun c => c.address = e.2)) = none :=
      List.find?_eq_none.mpr (fun e he => by simp [h e he])
    rw [this]

/-- the credential check is sound: it accepts only datagrams whose FIRST USERNAME is `<ufrag>:…` and whose FIRST
MESSAGE-INTEGRITY is the HMAC under the local password (`Credentials`; see its comment for the one respect
in which this is weaker than RFC 8445 §7.3: USERNAME need not precede MESSAGE-INTEGRITY) -/
theorem accepted_implies_credentials (P : Prims) (ufrag pwd pkt : Bytes) (h : codeAuth P ufrag pwd pkt = true) :
    Credentials P ufrag pwd pkt :=
  codeAuth_sound P ufrag pwd pkt h

/-- **unauth_request_inert** (the property, on raw datagrams): in WebRTC mode, for EVERY byte string
arriving from any source on any socket in any ICE state and role: if it does not carry this session's
USERNAME and a MESSAGE-INTEGRITY computed with the local ICE password, then handling it adds no remote
candidate, does not change the selected pair, does not complete nomination and does not change the
transport state. (Holds for any HMAC function `P.hmac`; no assumption on what the attacker knows.) -/
theorem unauth_request_inert (P : Prims) (ufrag pwd : Bytes) (s : St) (sock : Sock) (src : Addr) (pkt : Bytes)
    (hw : s.webrtc = true) (hno : ¬ Credentials P ufrag pwd pkt) :
    Inert s (step s sock src (classify P ufrag pwd pkt)).1 := by
  have hacc : codeAuth P ufrag pwd pkt = false := by
    cases h : codeAuth P ufrag pwd pkt with
    | false => rfl
    | true => exact absurd (codeAuth_sound P ufrag pwd pkt h) hno
  unfold classify
  split
  · simp [step, Inert]
  · split
    · split
      · split
        · rw [hacc, unauth_request_inert_step s sock src _ hw rfl]; simp [Inert]
        · exact (response_needs_pending s sock src _ false).2.2.1
        · exact (response_needs_pending s sock src _ true).2.2.1
        · simp only [step]; split <;> simp [Inert]
      · simp [step, Inert]
    · simp only [step]; split <;> simp [Inert]

/-- **first_message_integrity_decides** (the malformed-credential shapes, for all values): in a datagram
`20-byte header ++ attributes without MESSAGE-INTEGRITY ++ MESSAGE-INTEGRITY(value v) ++ anything`, the check
passes only if `v` is exactly 20 bytes and equals the HMAC under the local password of the bytes before it
(length field rewritten). Hence a zero-length value, any 1..19-byte prefix of the right HMAC, 21 / 24-byte
values, a second (even correct) MESSAGE-INTEGRITY after a wrong first one, or anything placed after the
attribute can never make an otherwise unauthenticated request pass. -/
theorem first_message_integrity_decides (P : Prims) (ufrag pwd hdr : Bytes) (pre : List (Nat × Bytes)) (v rest : Bytes)
    (hh : hdr.length = 20) (hb : ∀ p ∈ pre, p.1 < 65536 ∧ p.2.length < 65536 ∧ p.1 ≠ 8) (hv : v.length < 65536)
    (hbad : v.length ≠ 20 ∨ v ≠ P.hmac pwd (writeLen (hdr ++ StunRfc.flat pre) ((StunRfc.flat pre).length + 24))) :
    codeAuth P ufrag pwd (hdr ++ StunRfc.flat pre ++ (tlv 8 v ++ rest)) = false := by
  apply codeAuth_le_verifyMI
  unfold verifyMI
  have hd : (hdr ++ StunRfc.flat pre ++ (tlv 8 v ++ rest)).drop 20 = StunRfc.flat pre ++ (tlv 8 v ++ rest) := by
    rw [List.append_assoc]; exact C16Bytes.drop_append_len hh
  have ht : (hdr ++ StunRfc.flat pre ++ (tlv 8 v ++ rest)).take (20 + (StunRfc.flat pre).length) = hdr ++ StunRfc.flat pre :=
    C16Bytes.take_append_len (by simp [hh])
  rw [hd]
  rw [verifyLoop_first_mi P pwd _ 20 pre v rest hb hv, ht]
  rcases hbad with h | h
  · simp [h]
  · have e : 20 + (StunRfc.flat pre).length - 20 + 24 = (StunRfc.flat pre).length + 24 := by omega
    rw [e]; simp [h]

/-- non-vacuity of `unauth_request_inert`: e.g. no datagram shorter than 24 bytes carries credentials -/
example (P : Prims) (ufrag pwd : Bytes) : ¬ Credentials P ufrag pwd [0, 1, 0, 0] := by
  intro ⟨_, off, mac, ⟨⟨sk, hb, _⟩, t0, t1, l0, l1, body, hd, _⟩, _⟩
  have h20 : 20 ≤ off := hb.ge20
  have := congrArg List.length hd
  simp only [List.length_drop, List.length_cons, List.length_nil] at this
  omega

/-- **genuine_check_accepted**: the repair does not lock out conforming peers — every request whose first
USERNAME is `<ufrag>:<anything>` and whose MESSAGE-INTEGRITY is computed with the local password, whatever
other attributes it carries, with or without FINGERPRINT, passes the credential check. -/
theorem genuine_check_accepted (P : Prims) (ufrag pwd tail : Bytes) (m : Msg) (fp : Bool) (pre post : List Attr)
    (hattrs : m.attrs = pre ++ Attr.username (ufrag ++ 58 :: tail) :: post)
    (hpre : ∀ a ∈ pre, isUsername a = false) (hcolon : (58 : UInt8) ∉ ufrag)
    (hutf : validUtf8 (ufrag ++ 58 :: tail) = true) (hm : m.Wf) (hs : StunRfc.Sized m) :
    codeAuth P ufrag pwd (encode P m (some pwd) fp) = true :=
  codeAuth_complete P ufrag pwd tail m fp pre post hattrs hpre hcolon hutf hm hs

/-- non-vacuity of both directions: the connectivity check rustrtc itself sends (SOFTWARE, USERNAME,
PRIORITY, ICE-CONTROLLING, USE-CANDIDATE) meets the hypotheses of `genuine_check_accepted` -/
example : let ufrag : Bytes := [97, 98, 99, 100]
    let m : Msg := ⟨.request, .binding, C16Bytes.zeros 12,
      [.software [114, 116, 99], .username (ufrag ++ 58 :: [120, 121]), .priority 1845501695, .iceControlling 7, .useCandidate]⟩
    m.attrs = [Attr.software [114, 116, 99]] ++ Attr.username (ufrag ++ 58 :: [120, 121]) ::
        [.priority 1845501695, .iceControlling 7, .useCandidate] ∧
    (∀ a ∈ [Attr.software [114, 116, 99]], isUsername a = false) ∧ (58 : UInt8) ∉ ufrag ∧
    validUtf8 (ufrag ++ 58 :: [120, 121]) = true ∧ m.Wf ∧ StunRfc.Sized m := by
  refine ⟨rfl, by decide, by decide, by decide, ⟨rfl, by decide⟩, ⟨by decide, by decide⟩⟩

/-- what an *accepted* (or non-WebRTC-mode) request can do at most: outstanding transactions, role,
local candidates are never touched; the remote candidate list grows by at most one peer-reflexive entry
for the source; nomination only becomes `Some(true)`, the state only Connected; a controlling agent
without latching keeps pair, nomination and state. -/
theorem request_effects_bounded (s : St) (sock : Sock) (src : Addr) (r : Req) :
    (step s sock src (.request r)).1.pending = s.pending ∧ (step s sock src (.request r)).1.role = s.role ∧
    (step s sock src (.request r)).1.locals = s.locals ∧
    ((step s sock src (.request r)).1.remotes = s.remotes ∨
     (step s sock src (.request r)).1.remotes = s.remotes ++ [prflxCand sock src r.priority]) ∧
    ((step s sock src (.request r)).1.nominated = s.nominated ∨ (step s sock src (.request r)).1.nominated = some true) ∧
    ((step s sock src (.request r)).1.state = s.state ∨ (step s sock src (.request r)).1.state = .connected) ∧
    (s.role = .controlling → s.latching = false →
      (step s sock src (.request r)).1.selected = s.selected ∧ (step s sock src (.request r)).1.nominated = s.nominated ∧
      (step s sock src (.request r)).1.state = s.state ∧ (step s sock src (.request r)).1.selSock = s.selSock) := by
  by_cases hg : s.webrtc = true ∧ r.accepted = false
  · rw [unauth_request_inert_step s sock src r hg.1 hg.2]; simp
  · have hauth : handleRequest s sock src r = handleAuthenticated { s with lastRx := s.now } sock src r :=
      handleRequest_auth s sock src r (by
        by_cases hw : s.webrtc = true
        · right; cases hr : r.accepted with
          | true => rfl
          | false => exact absurd ⟨hw, hr⟩ hg
        · left; simpa using hw)
    refine ⟨by simp [step], by simp [step], by simp [step], ?_, ?_, ?_, ?_⟩
    · simp only [step, hauth, handleAuthenticated_remotes, learn_remotes]; split <;> simp
    · simpa [step, hauth] using handleAuthenticated_nominated_mono { s with lastRx := s.now } sock src r
    · simpa [step, hauth] using handleAuthenticated_state_mono { s with lastRx := s.now } sock src r
    · intro hr hl
      simp only [step, hauth]
      rw [handleAuthenticated_controlling { s with lastRx := s.now } sock src r hr hl]
      simp

/-! ### the behaviour before the repair, still in force outside WebRTC mode (RTP / SRTP modes answer and
honour unauthenticated probes by design) -/

def loopback (p : Nat) : Addr := .v4 [127, 0, 0, 1] p
def hostCand (a : Addr) : Cand := ⟨a, a, .host, false, false, priorityFor .host 1, true⟩
/-- an agent that has gathered one UDP host candidate and knows no remote candidate yet -/
def fresh (role : Role) (st : IceState) (webrtc : Bool) : St :=
  { role, state := st, remotes := [], locals := [hostCand (loopback 5000)], selected := none, nominated := none,
    pending := [], latching := false, webrtc }
def stranger : Addr := .v4 [203, 0, 113, 66] 6666
def unauth (uc : Bool) : Req := { tx := [0, 1, 2, 3, 4, 5, 6, 7, 8, 9, 10, 11], useCandidate := uc, accepted := false }

/-- outside WebRTC mode (RTP / SRTP modes answer and learn from unauthenticated probes by design) a credential-less
USE-CANDIDATE request from a stranger still adds a peer-reflexive candidate, but — since the `fix:` commit "a STUN
nomination (USE-CANDIDATE) is honoured only when the request carries our ufrag and a valid MESSAGE-INTEGRITY, in every
transport mode" — it no longer selects a pair, completes nomination or moves the state (before that commit the same
datagram ended Connected: the defect as found in round 1, every mode). -/
theorem legacy_stranger_use_candidate_only_learns :
    let s' := (step (fresh .controlled .new false) (.udp (loopback 5000)) stranger (.request (unauth true))).1
    s'.remotes = [prflxCand (.udp (loopback 5000)) stranger] ∧
    s'.selected = none ∧ s'.nominated = none ∧ s'.state = .new := by decide

/-- **nomination_needs_credentials** (every transport mode): a request that does not pass the credential check, on any
socket other than an accepted TCP stream, never completes nomination and never changes the transport state, whatever
the mode, role, state and source. (On an accepted TCP stream `complete_controlled_inbound_tcp_nomination` still runs
for unauthenticated requests outside WebRTC mode — by design of those modes, not covered here.) -/
theorem nomination_needs_credentials (s : St) (sock : Sock) (src : Addr) (r : Req)
    (hr : r.accepted = false) (hs : sock.isTcpStream = false) :
    (step s sock src (.request r)).1.nominated = s.nominated ∧ (step s sock src (.request r)).1.state = s.state := by
  by_cases hw : s.webrtc = true
  · rw [unauth_request_inert_step s sock src r hw hr]; exact ⟨rfl, rfl⟩
  · have hauth : handleRequest s sock src r = handleAuthenticated { s with lastRx := s.now } sock src r :=
      handleRequest_auth s sock src r (Or.inl (by simpa using hw))
    simp only [step, hauth, handleAuthenticated, hr, Bool.and_false, Bool.false_eq_true, ↓reduceIte]
    have ht : ∀ x : St, tcpNominate x sock src = x := by
      intro x; unfold tcpNominate; simp [hs]
    rw [ht]
    simp

/-- the same datagram in WebRTC mode is inert (the repaired behaviour, concrete instance) -/
theorem webrtc_stranger_use_candidate_inert :
    (step (fresh .controlled .new true) (.udp (loopback 5000)) stranger (.request (unauth true))).1 =
      fresh .controlled .new true := by decide

/-- a media datagram or a Binding indication changes nothing but the liveness timestamp, and that only when it
comes from the selected peer address -/
theorem data_datagram_effect (s : St) (sock : Sock) (src : Addr) (i : Inp) (hi : i = .data ∨ i = .indication) :
    (step s sock src i).1 = if fromSelectedPeer s src then { s with lastRx := s.now } else s := by
  rcases hi with rfl | rfl <;> rfl

end RtcModel.Theorems.C06
