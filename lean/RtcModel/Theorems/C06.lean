/-
C06 — only authenticated STUN connectivity checks can influence ICE state.
Property theorems only; the model is `RtcModel/IceAuth.lean`.

Reading used here: a request is *authentic* when it carries `USERNAME = <local ufrag>:…` and a
MESSAGE-INTEGRITY that verifies under the local ICE password (`IceAuth.isAuthentic`, computed from the
bytes by the independent RFC 5389 reader).  "Influence" = any change of the remote candidate list, the
selected pair, the nomination flag or the transport state.
-/
import RtcModel.Lemmas.IceAuth

namespace RtcModel.Theorems.C06
open RtcModel.IceAuth RtcModel.Stun RtcModel.IcePrio RtcModel.C16Bytes

/-- the four things an inbound check must not touch unless authenticated -/
def Inert (s s' : St) : Prop :=
  s'.remotes = s.remotes ∧ s'.selected = s.selected ∧ s'.nominated = s.nominated ∧ s'.state = s.state

/-! ### responses -/

/-- **response_needs_pending** (one datagram): a success or error response whose transaction id is not
outstanding changes nothing and completes nothing; one whose id is outstanding is delivered to exactly
that waiter, the id is consumed (so a replayed copy is inert), and in neither case is any ICE state
(candidates, selected pair, nomination, transport state) touched. -/
theorem response_needs_pending (s : St) (sock : Sock) (src : Addr) (tx : Bytes) (e : Bool) :
    (tx ∉ s.pending → step s sock src (.response tx e) = (s, {})) ∧
    (tx ∈ s.pending →
      (step s sock src (.response tx e)).2.delivered = some tx ∧
      tx ∉ (step s sock src (.response tx e)).1.pending ∧
      (∀ t, t ≠ tx → (t ∈ (step s sock src (.response tx e)).1.pending ↔ t ∈ s.pending)) ∧
      step (step s sock src (.response tx e)).1 sock src (.response tx e) =
        ((step s sock src (.response tx e)).1, {})) ∧
    Inert s (step s sock src (.response tx e)).1 ∧
    (step s sock src (.response tx e)).1.role = s.role ∧ (step s sock src (.response tx e)).1.locals = s.locals := by
  by_cases h : tx ∈ s.pending
  · simp [step, handleResponse, h, Inert, List.mem_filter]
    intro t ht; simp [ht]
  · simp [step, handleResponse, h, Inert]

/-- all datagrams of a history, with who sent them on which socket -/
abbrev Ev := Sock × Addr × Inp

def run (s : St) (evs : List Ev) : St × List Bytes :=
  evs.foldl (fun (acc : St × List Bytes) ev =>
    let (s', o) := step acc.1 ev.1 ev.2.1 ev.2.2
    (s', match o.delivered with | some tx => acc.2 ++ [tx] | none => acc.2)) (s, [])

theorem step_pending_subset (s : St) (sock : Sock) (src : Addr) (i : Inp) :
    (∀ t, t ∈ (step s sock src i).1.pending → t ∈ s.pending) ∧
    (∀ tx, (step s sock src i).2.delivered = some tx → tx ∈ s.pending ∧ tx ∉ (step s sock src i).1.pending) ∧
    (s.pending.Nodup → (step s sock src i).1.pending.Nodup) := by
  cases i with
  | response tx e =>
    by_cases h : tx ∈ s.pending
    · simp only [step, handleResponse, h, ↓reduceIte]
      refine ⟨fun t ht => (List.mem_filter.mp ht).1, ?_, fun hn => hn.filter _⟩
      intro tx' htx'
      simp only [Option.some.injEq] at htx'
      subst htx'
      exact ⟨h, by simp [List.mem_filter]⟩
    · simp [step, handleResponse, h]
  | request r => simp [step]
  | empty | data | undecodable | indication => simp [step]

/-- **response_needs_pending** (all histories): over any sequence of datagrams of any kind — requests
authenticated or not, responses genuine, forged or replayed, garbage — every delivered response
belongs to a transaction that was outstanding at the start, and no transaction is completed twice. -/
theorem responses_consume_pending_once (s : St) (evs : List Ev) (hn : s.pending.Nodup) :
    (∀ tx ∈ (run s evs).2, tx ∈ s.pending) ∧ (run s evs).2.Nodup ∧
    (∀ tx ∈ (run s evs).2, tx ∉ (run s evs).1.pending) ∧ (∀ t ∈ (run s evs).1.pending, t ∈ s.pending) := by
  -- invariant over the fold, generalised over the accumulated deliveries
  have key : ∀ (evs : List Ev) (s0 : St) (acc : List Bytes), s0.pending.Nodup → acc.Nodup →
      (∀ tx ∈ acc, tx ∉ s0.pending) →
      let r := evs.foldl (fun (a : St × List Bytes) ev =>
        let (s', o) := step a.1 ev.1 ev.2.1 ev.2.2
        (s', match o.delivered with | some tx => a.2 ++ [tx] | none => a.2)) (s0, acc)
      (∀ tx ∈ r.2, tx ∈ acc ∨ tx ∈ s0.pending) ∧ r.2.Nodup ∧ (∀ tx ∈ r.2, tx ∉ r.1.pending) ∧
      (∀ t ∈ r.1.pending, t ∈ s0.pending) := by
    intro evs
    induction evs with
    | nil => intro s0 acc _ ha hd; exact ⟨fun tx h => Or.inl h, ha, hd, fun t h => h⟩
    | cons ev rest ih =>
      intro s0 acc hn0 ha hd
      obtain ⟨h1, h2, h3⟩ := step_pending_subset s0 ev.1 ev.2.1 ev.2.2
      simp only [List.foldl_cons]
      cases hdel : (step s0 ev.1 ev.2.1 ev.2.2).2.delivered with
      | none =>
        have := ih (step s0 ev.1 ev.2.1 ev.2.2).1 acc (h3 hn0) ha (fun tx htx hp => hd tx htx (h1 tx hp))
        simp only [hdel] at this ⊢
        refine ⟨fun tx htx => ?_, this.2.1, this.2.2.1, fun t ht => h1 t (this.2.2.2 t ht)⟩
        rcases this.1 tx htx with h | h
        · exact Or.inl h
        · exact Or.inr (h1 tx h)
      | some tx0 =>
        obtain ⟨hin, hout⟩ := h2 tx0 hdel
        have hacc : (acc ++ [tx0]).Nodup := by
          rw [List.nodup_append]
          exact ⟨ha, by simp, fun a haa b hb => by
            simp only [List.mem_singleton] at hb; subst hb; intro hab; subst hab; exact hd a haa hin⟩
        have := ih (step s0 ev.1 ev.2.1 ev.2.2).1 (acc ++ [tx0]) (h3 hn0) hacc (by
          intro tx htx hp
          simp only [List.mem_append, List.mem_singleton] at htx
          rcases htx with htx | htx
          · exact hd tx htx (h1 tx hp)
          · subst htx; exact hout hp)
        simp only [hdel] at this ⊢
        refine ⟨fun tx htx => ?_, this.2.1, this.2.2.1, fun t ht => h1 t (this.2.2.2 t ht)⟩
        rcases this.1 tx htx with h | h
        · simp only [List.mem_append, List.mem_singleton] at h
          rcases h with h | h
          · exact Or.inl h
          · subst h; exact Or.inr hin
        · exact Or.inr (h1 tx h)
  have := key evs s [] hn List.nodup_nil (by simp)
  simp only [run]
  refine ⟨fun tx htx => ?_, this.2.1, this.2.2.1, this.2.2.2⟩
  rcases this.1 tx htx with h | h
  · simp at h
  · exact h

example : let s : St := { role := .controlled, state := .checking, remotes := [], locals := [], selected := none,
                          nominated := none, pending := [[1], [2]], latching := false }
    s.pending.Nodup ∧ (run s [(.udp (.v4 [127, 0, 0, 1] 1), .v4 [127, 0, 0, 1] 2, .response [1] false),
                              (.udp (.v4 [127, 0, 0, 1] 1), .v4 [127, 0, 0, 1] 2, .response [1] false),
                              (.udp (.v4 [127, 0, 0, 1] 1), .v4 [127, 0, 0, 1] 2, .response [9] true)]).2 = [[1]] := by
  decide


/-! ### requests

The property's statement for requests, at full strength: -/

/-- **unauth_request_inert** (the property): a request that does not carry this session's USERNAME and a
valid MESSAGE-INTEGRITY never adds a remote candidate, changes the selected pair, completes nomination
or changes the transport state — whatever the source address, socket kind, ICE state or role. -/
def UnauthRequestInert : Prop :=
  ∀ (s : St) (sock : Sock) (src : Addr) (r : Req), r.authentic = false →
    Inert s (step s sock src (.request r)).1

/-- the code never consults the credentials: the effect of a request does not depend on `authentic`
(nor on its transaction id) — this is the defect, stated positively. -/
theorem credentials_never_consulted (s : St) (sock : Sock) (src : Addr) (r r' : Req)
    (h : r.useCandidate = r'.useCandidate) :
    step s sock src (.request r) = step s sock src (.request r') := by
  simp [step, handleRequest, h]

def loopback (p : Nat) : Addr := .v4 [127, 0, 0, 1] p
def hostCand (a : Addr) : Cand := ⟨a, a, .host, false, false, priorityFor .host 1⟩
/-- a controlled agent that has gathered one UDP host candidate and knows no remote candidate yet -/
def fresh (role : Role) (st : IceState) : St :=
  { role, state := st, remotes := [], locals := [hostCand (loopback 5000)], selected := none, nominated := none,
    pending := [], latching := false }
def stranger : Addr := .v4 [203, 0, 113, 66] 6666
def unauth (uc : Bool) : Req := ⟨[0, 1, 2, 3, 4, 5, 6, 7, 8, 9, 10, 11], uc, false⟩

/-- **stranger_use_candidate_connects** (witness, replayed on the implementation): a controlled agent in
state New receives ONE Binding request without USERNAME / MESSAGE-INTEGRITY carrying USE-CANDIDATE from an
address it has never heard of, on its UDP host socket ⇒ the stranger becomes a remote candidate, the pair
(local host, stranger) is selected, nomination is complete and the transport reports Connected. -/
theorem stranger_use_candidate_connects :
    let s' := (step (fresh .controlled .new) (.udp (loopback 5000)) stranger (.request (unauth true))).1
    s'.remotes = [prflxCand (.udp (loopback 5000)) stranger] ∧
    s'.selected = some ⟨hostCand (loopback 5000), prflxCand (.udp (loopback 5000)) stranger⟩ ∧
    s'.nominated = some true ∧ s'.state = .connected := by decide

/-- without USE-CANDIDATE and for either role the stranger is still added as a remote candidate (and
connectivity checks towards it are scheduled) -/
theorem stranger_request_adds_candidate (role : Role) (st : IceState) :
    (step (fresh role st) (.udp (loopback 5000)) stranger (.request (unauth false))).1.remotes =
      [prflxCand (.udp (loopback 5000)) stranger] := by
  cases role <;> cases st <;> decide

/-- on an accepted TCP stream a controlled agent completes nomination on ANY unauthenticated request,
no USE-CANDIDATE needed -/
theorem stranger_tcp_request_nominates :
    let s := { (fresh .controlled .checking) with locals := [⟨loopback 9, loopback 9, .host, true, true, 1⟩] }
    let s' := (step s (.tcpStream (loopback 9)) stranger (.request (unauth false))).1
    s'.nominated = some true ∧ s'.state = .connected ∧ s'.selected.isSome = true := by decide

/-- with `enable_latching` even a *controlling*, already connected agent has its selected pair's remote
address rewritten by an unauthenticated request from another IP with the same port -/
theorem stranger_latching_moves_selected_pair :
    let victim : Cand := ⟨.v4 [198, 51, 100, 1] 6666, .v4 [198, 51, 100, 1] 6666, .host, false, false, 5⟩
    let s : St := { role := .controlling, state := .connected, remotes := [victim], locals := [hostCand (loopback 5000)],
                    selected := some ⟨hostCand (loopback 5000), victim⟩, nominated := some true, pending := [],
                    latching := true }
    let s' := (step s (.udp (loopback 5000)) stranger (.request (unauth false))).1
    (s'.selected.map (·.rem.address)) = some stranger := by decide

/-- **unauth_request_inert_witness**: the property is FALSE for the code as it is. -/
theorem unauth_request_inert_witness : ¬ UnauthRequestInert := by
  intro h
  have := (h (fresh .controlled .new) (.udp (loopback 5000)) stranger (unauth true) rfl).2.2.2
  revert this
  decide

/-- the exact circumstances under which an unauthenticated request IS inert in the current code: the
source is already a known remote candidate, latching is off, and either the agent is controlling, or the
request carries no USE-CANDIDATE and did not arrive on an accepted TCP stream (or nomination is done). -/
def Guarded (s : St) (sock : Sock) (src : Addr) (r : Req) : Prop :=
  s.remotes.any (fun c => c.address = src) = true ∧ s.latching = false ∧
  (s.role = .controlling ∨
    (r.useCandidate = false ∧ (sock.isTcpStream = false ∨ s.nominated.isSome = true)))

/-- **unauth_request_inert_partial**: what does hold (for every request, authenticated or not). -/
theorem unauth_request_inert_partial (s : St) (sock : Sock) (src : Addr) (r : Req) :
    -- never touched by any request: outstanding transactions, role, local candidates, configuration
    (step s sock src (.request r)).1.pending = s.pending ∧ (step s sock src (.request r)).1.role = s.role ∧
    (step s sock src (.request r)).1.locals = s.locals ∧
    -- the remote candidate list only grows, by at most one peer-reflexive entry for the source
    ((step s sock src (.request r)).1.remotes = s.remotes ∨
     (step s sock src (.request r)).1.remotes = s.remotes ++ [prflxCand sock src]) ∧
    -- nomination only ever becomes `Some(true)`, the state only ever becomes Connected
    ((step s sock src (.request r)).1.nominated = s.nominated ∨ (step s sock src (.request r)).1.nominated = some true) ∧
    ((step s sock src (.request r)).1.state = s.state ∨ (step s sock src (.request r)).1.state = .connected) ∧
    -- a controlling agent without latching keeps pair, nomination and state
    (s.role = .controlling → s.latching = false →
      (step s sock src (.request r)).1.selected = s.selected ∧ (step s sock src (.request r)).1.nominated = s.nominated ∧
      (step s sock src (.request r)).1.state = s.state) ∧
    -- full inertness under `Guarded`
    (Guarded s sock src r → step s sock src (.request r) = (s, { replied := true })) := by
  refine ⟨by simp [step], by simp [step], by simp [step], ?_, ?_, ?_, ?_, ?_⟩
  · simp only [step, handleRequest_remotes, learn_remotes]; split <;> simp
  · simp only [step, handleRequest]
    have h1 : ∀ (x : St) k a, (tcpNominate x k a).nominated = x.nominated ∨ (tcpNominate x k a).nominated = some true := by
      intro x k a; unfold tcpNominate; repeat' split
      all_goals simp
    have h2 : ∀ (x : St) k a, (useCandidate x k a).nominated = x.nominated ∨ (useCandidate x k a).nominated = some true := by
      intro x k a; unfold useCandidate; repeat' split
      all_goals simp
    have e : (latch (learn s sock src) src).nominated = s.nominated := by simp
    split
    · rcases h2 (tcpNominate (latch (learn s sock src) src) sock src) sock src with h | h
      · rcases h1 (latch (learn s sock src) src) sock src with h' | h'
        · left; rw [h, h', e]
        · right; rw [h, h']
      · right; exact h
    · rcases h1 (latch (learn s sock src) src) sock src with h' | h'
      · left; rw [h', e]
      · right; exact h'
  · simp only [step, handleRequest]
    have h1 : ∀ (x : St) k a, (tcpNominate x k a).state = x.state ∨ (tcpNominate x k a).state = .connected := by
      intro x k a; unfold tcpNominate withPairConnected; repeat' split
      all_goals simp
    have h2 : ∀ (x : St) k a, (useCandidate x k a).state = x.state ∨ (useCandidate x k a).state = .connected := by
      intro x k a; unfold useCandidate; repeat' split
      all_goals simp
    have e : (latch (learn s sock src) src).state = s.state := by simp
    split
    · rcases h2 (tcpNominate (latch (learn s sock src) src) sock src) sock src with h | h
      · rcases h1 (latch (learn s sock src) src) sock src with h' | h'
        · left; rw [h, h', e]
        · right; rw [h, h']
      · right; exact h
    · rcases h1 (latch (learn s sock src) src) sock src with h' | h'
      · left; rw [h', e]
      · right; exact h'
  · intro hr hl
    simp only [step, handleRequest]
    have hl' : (learn s sock src).latching = false := by simp [hl]
    rw [latch_off _ _ hl']
    have hr' : (learn s sock src).role = .controlling := by simp [hr]
    rw [tcpNominate_id _ _ _ (Or.inl hr'), useCandidate_id _ _ _ (Or.inl hr')]
    simp
  · intro ⟨hk, hl, hg⟩
    simp only [step, handleRequest, learn_known s sock src hk, latch_off s src hl]
    rcases hg with hc | ⟨hu, ht⟩
    · rw [tcpNominate_id _ _ _ (Or.inl hc), useCandidate_id _ _ _ (Or.inl hc)]; simp
    · rw [tcpNominate_id _ _ _ (Or.inr ht)]; simp [hu]

/-- non-vacuity of `Guarded`: a keep-alive check from the already-known selected remote on a connected,
nominated controlled agent -/
example : let known : Cand := ⟨stranger, stranger, .host, false, false, 5⟩
    Guarded { (fresh .controlled .connected) with remotes := [known], nominated := some true }
      (.udp (loopback 5000)) stranger (unauth false) := by
  intro known
  exact ⟨by decide, by decide, Or.inr ⟨by decide, Or.inl (by decide)⟩⟩

/-- datagrams that are not requests or responses never touch anything -/
theorem other_datagrams_inert (s : St) (sock : Sock) (src : Addr) (i : Inp)
    (h : i = .empty ∨ i = .data ∨ i = .undecodable ∨ i = .indication) : (step s sock src i).1 = s := by
  rcases h with rfl | rfl | rfl | rfl <;> rfl

end RtcModel.Theorems.C06
