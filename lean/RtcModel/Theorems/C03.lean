/-
C03 — Only authenticated DTLS records are acted on; nothing leaves in clear; no nonce reuse.
Property theorems only; helper lemmas live in `RtcModel/Lemmas/DtlsRecord.lean` and
`RtcModel/Lemmas/DtlsHs.lean`.

Reading of the property used here:
* "acted on" = bytes handed to the upper layer (`Out.deliver`) or a change of the connection state
  (`Ep.conn`, i.e. `DtlsState`).  A ChangeCipherSpec record is clear text by protocol design; it only
  bumps the (otherwise unused) `read_epoch` counter and a duplicate ClientHello only makes a server
  re-send its last flight — neither hands bytes up nor changes the connection state.
* "authenticates under the negotiated keys" = the record has epoch ≠ 0 and the AEAD opens it under
  the read-direction key with nonce = iv ‖ explicit nonce and AAD = epoch ‖ seq ‖ type ‖ version ‖ length.
* The AEAD is a structure parameter (`Aead`): the theorems hold for every AEAD satisfying the two law
  fields; that forging a record which opens is infeasible is the AEAD's security property, not
  assumed here (the statement is "acted on ⇒ opens", which is the most the code can guarantee).

The model is the code *after* the two `fix:` commits recorded in `known_findings.d/C03.json`
(clear-text ApplicationData / alerts / new handshake messages were honoured after the handshake,
and the close-notify alert re-used the first application record's nonce).  The superseded alert
rule is kept as `Tx.allocAlertFromCtx` only to exhibit that collision.
-/
import RtcModel.Lemmas.DtlsHs
import RtcModel.Lemmas.DtlsNonce
import RtcModel.Lemmas.DtlsTerm
import RtcModel.DtlsFlights

namespace RtcModel.Theorems.C03
open RtcModel.Generated RtcModel.DtlsRecord RtcModel.DtlsHs

/-! ### generated-constant obligations -/

/-- the content-type codes the model's dispatch relies on are pairwise distinct and are bytes -/
theorem const_content_types :
    dtlsCtChangeCipherSpec = 20 ∧ dtlsCtAlert = 21 ∧ dtlsCtHandshake = 22 ∧
    dtlsCtApplicationData = 23 ∧ dtlsCtHeartbeat = 24 := by decide

/-- send side and receive side agree on the framing: 13-byte header, 8-byte explicit nonce, 16-byte
tag, the same 48-bit shift on both sides, and a full record stays below the IPv6 minimum MTU payload -/
theorem const_framing :
    dtlsSendHeaderLen = dtlsRecordHeaderSize ∧ dtlsSendExplicitNonceLen = dtlsOpenMinExplicit ∧
    dtlsSendTagLen = dtlsOpenMinTag ∧ dtlsSeqShift = 48 ∧ dtlsRxSeqShift = dtlsSeqShift ∧
    dtlsMaxAppDataRecordSize + dtlsSendHeaderLen + dtlsSendExplicitNonceLen + dtlsSendTagLen ≤ 1252 ∧
    0 < dtlsMaxAppDataRecordSize ∧ dtlsMaxAppDataRecordSize + dtlsSendExplicitNonceLen + dtlsSendTagLen < 65536 := by
  decide

/-! ### receive side -/

/-- the records a datagram parses into (`DtlsRecord::decode` applied repeatedly) -/
def recordsOf : Nat → Bytes → List Rec
  | 0, _ => []
  | fuel + 1, bs =>
    match decodeRec bs with
    | .ok r rest => r :: recordsOf fuel rest
    | _ => []

/-- "this record authenticates under the negotiated keys and carries `p`" -/
def Authentic (A : DecFn) (isClient : Bool) (k : Keys) (r : Rec) (p : Bytes) : Prop :=
  r.epoch ≠ 0 ∧ openRec A (readKeys isClient k) r = some p

/-- The invariant proved by induction over the records of a datagram. -/
theorem datagram_acts_only_on_authentic (A : DecFn) (C : Crypto) (L : Loc) (k : Keys) :
    ∀ (fuel : Nat) (e : Ep) (bs : Bytes), e.ctx.keys = some k →
    let r := onDatagram A C L fuel e bs
    (r.ep.isClient = e.isClient ∧ r.ep.ctx.keys = some k) ∧
    (∀ p, Out.deliver p ∈ r.out →
        ∃ rec ∈ recordsOf fuel bs, rec.ctype = dtlsCtApplicationData ∧ Authentic A e.isClient k rec p) ∧
    (r.ep.conn ≠ e.conn →
        ∃ rec ∈ recordsOf fuel bs, (rec.ctype = dtlsCtAlert ∨ rec.ctype = dtlsCtHandshake) ∧
          ∃ p, Authentic A e.isClient k rec p) := by
  intro fuel
  induction fuel with
  | zero => intro e bs hk; simp [onDatagram, ok, hk]
  | succ f ih =>
    intro e bs hk
    unfold onDatagram
    split
    · simp [ok, hk]
    · split
      · simp [ok, hk]
      · simp [ok, hk]
      · rename_i rc rest hdec
        have hrec : recordsOf (f + 1) bs = rc :: recordsOf f rest := by simp [recordsOf, hdec]
        rw [hrec]
        split
        · -- dropped clear-text record
          obtain ⟨h1, h2, h3⟩ := ih e rest hk
          refine ⟨h1, ?_, ?_⟩
          · intro p hp
            obtain ⟨rec, hm, hh⟩ := h2 p hp
            exact ⟨rec, List.mem_cons_of_mem _ hm, hh⟩
          · intro hc
            obtain ⟨rec, hm, hh⟩ := h3 hc
            exact ⟨rec, List.mem_cons_of_mem _ hm, hh⟩
        · rename_i hdrop
          have hrx : rxKeys e = some (readKeys e.isClient k) := by simp [rxKeys, hk]
          rw [hrx]
          split
          · simp [ok, hk]
          · rename_i payload hdecr
            have hfr := onRecord_frame C L e rc.ctype (rc.epoch != 0) payload
            have hk1 := hfr.2 k hk
            -- whatever the first record does is justified by the first record
            have hauth : rc.epoch ≠ 0 → Authentic A e.isClient k rc payload := by
              intro he
              refine ⟨he, ?_⟩
              simpa [tryDecrypt, he] using hdecr
            have hdel : ∀ p, Out.deliver p ∈ (onRecord C L e rc.ctype (rc.epoch != 0) payload).out →
                rc.ctype = dtlsCtApplicationData ∧ Authentic A e.isClient k rc p := by
              intro p hp
              obtain ⟨hct, hpp⟩ := onRecord_deliver C L e _ _ _ p hp
              subst hpp
              refine ⟨hct, hauth ?_⟩
              intro he
              apply hdrop
              simp [dropClear, he, hct]
            have hconn : (onRecord C L e rc.ctype (rc.epoch != 0) payload).ep.conn ≠ e.conn →
                (rc.ctype = dtlsCtAlert ∨ rc.ctype = dtlsCtHandshake) ∧ Authentic A e.isClient k rc payload := by
              intro hc
              have hct := onRecord_conn C L e _ _ _ hc
              refine ⟨hct, hauth ?_⟩
              intro he
              rcases hct with hct | hct
              · apply hdrop
                simp [dropClear, he, hct, hk]
              · have hq := onRecord_unauth_hs C L e payload (by simp [hk])
                apply hc
                have : (rc.epoch != 0) = false := by simp [he]
                rw [hct, this]
                exact hq.1
            dsimp only
            split
            · -- the handler returned an error: the result is the first record's
              refine ⟨⟨hfr.1, hk1⟩, ?_, ?_⟩
              · intro p hp
                exact ⟨rc, List.mem_cons_self, hdel p hp⟩
              · intro hc
                exact ⟨rc, List.mem_cons_self, (hconn hc).1, payload, (hconn hc).2⟩
            · obtain ⟨h1, h2, h3⟩ := ih (onRecord C L e rc.ctype (rc.epoch != 0) payload).ep rest hk1
              rw [hfr.1] at h1 h2 h3
              refine ⟨h1, ?_, ?_⟩
              · intro p hp
                simp only [List.mem_append] at hp
                rcases hp with hp | hp
                · exact ⟨rc, List.mem_cons_self, hdel p hp⟩
                · obtain ⟨rec, hm, hh⟩ := h2 p hp
                  exact ⟨rec, List.mem_cons_of_mem _ hm, hh⟩
              · intro hc
                by_cases hc1 : (onRecord C L e rc.ctype (rc.epoch != 0) payload).ep.conn = e.conn
                · obtain ⟨rec, hm, hh⟩ := h3 (by rw [hc1]; exact hc)
                  exact ⟨rec, List.mem_cons_of_mem _ hm, hh⟩
                · exact ⟨rc, List.mem_cons_self, (hconn hc1).1, payload, (hconn hc1).2⟩

/-- **per record**: the datagram loop treats a decoded record `rc` in one of three ways — it skips it (`dropClear`), it
stops (`tryDecrypt` fails), or it calls `onRecord` with the state *at that record*.  Once keys exist, that one call
hands bytes up only if `rc` itself is an ApplicationData record that authenticates, and changes the connection state
only if `rc` itself is an Alert or Handshake record that authenticates.  (So in a datagram
`[authenticated duplicate Finished, clear-text close_notify]` the state change, if any, is on account of a record
that opens — the clear-text alert is skipped by `dropClear`.  `acted_only_if_authentic` below is the datagram-level
corollary, which only names *some* record of the datagram.) -/
theorem record_acts_only_if_authentic (A : DecFn) (C : Crypto) (L : Loc) (e : Ep) (k : Keys) (rc : Rec) (payload : Bytes)
    (hk : e.ctx.keys = some k) (hdrop : ¬ dropClear e rc = true)
    (hdecr : tryDecrypt A (some (readKeys e.isClient k)) rc = some payload) :
    (∀ p, Out.deliver p ∈ (onRecord C L e rc.ctype (rc.epoch != 0) payload).out →
        rc.ctype = dtlsCtApplicationData ∧ Authentic A e.isClient k rc p) ∧
    ((onRecord C L e rc.ctype (rc.epoch != 0) payload).ep.conn ≠ e.conn →
        (rc.ctype = dtlsCtAlert ∨ rc.ctype = dtlsCtHandshake) ∧ Authentic A e.isClient k rc payload) := by
  have hauth : rc.epoch ≠ 0 → Authentic A e.isClient k rc payload := by
    intro he
    refine ⟨he, ?_⟩
    simpa [tryDecrypt, he] using hdecr
  constructor
  · intro p hp
    obtain ⟨hct, hpp⟩ := onRecord_deliver C L e _ _ _ p hp
    subst hpp
    refine ⟨hct, hauth ?_⟩
    intro he
    apply hdrop
    simp [dropClear, he, hct]
  · intro hc
    have hct := onRecord_conn C L e _ _ _ hc
    refine ⟨hct, hauth ?_⟩
    intro he
    rcases hct with hct | hct
    · apply hdrop
      simp [dropClear, he, hct, hk]
    · have hq := onRecord_unauth_hs C L e payload (by simp [hk])
      apply hc
      have : (rc.epoch != 0) = false := by simp [he]
      rw [hct, this]
      exact hq.1

/-- **acted_only_if_authentic** (full).  Once keys are negotiated, for every datagram (any bytes,
so any content type, epoch, bit-flip, truncation, wrong key; the source address is not even an
input of the DTLS layer): bytes are handed up only out of an ApplicationData record of that datagram
that has epoch ≠ 0 and opens under the negotiated read key, and the connection state changes only
if the datagram contains an Alert or Handshake record that does. -/
theorem acted_only_if_authentic (A : DecFn) (C : Crypto) (L : Loc) (e : Ep) (k : Keys)
    (hk : e.ctx.keys = some k) (bs : Bytes) :
    (∀ p, Out.deliver p ∈ (onPacket A C L e bs).2 →
        ∃ rec ∈ recordsOf (bs.length + 1) bs, rec.ctype = dtlsCtApplicationData ∧ Authentic A e.isClient k rec p) ∧
    ((onPacket A C L e bs).1.conn ≠ e.conn →
        ∃ rec ∈ recordsOf (bs.length + 1) bs, (rec.ctype = dtlsCtAlert ∨ rec.ctype = dtlsCtHandshake) ∧
          ∃ p, Authentic A e.isClient k rec p) := by
  obtain ⟨_, h2, h3⟩ := datagram_acts_only_on_authentic A C L k (bs.length + 1) e bs hk
  unfold onPacket
  split
  · simp
  · dsimp only
    split
    · exact ⟨h2, h3⟩
    · exact ⟨h2, h3⟩

/-- Contrapositive form used by the harness oracle: a datagram none of whose records authenticates
(plaintext, truncated, bit-flipped, wrongly keyed, …) hands nothing up and leaves the connection
state alone. -/
theorem unauthenticated_datagram_discarded (A : DecFn) (C : Crypto) (L : Loc) (e : Ep) (k : Keys)
    (hk : e.ctx.keys = some k) (bs : Bytes)
    (hno : ∀ rec ∈ recordsOf (bs.length + 1) bs, ∀ p, ¬ Authentic A e.isClient k rec p) :
    (∀ p, Out.deliver p ∉ (onPacket A C L e bs).2) ∧ (onPacket A C L e bs).1.conn = e.conn := by
  obtain ⟨h1, h2⟩ := acted_only_if_authentic A C L e k hk bs
  constructor
  · intro p hp
    obtain ⟨rec, hm, _, ha⟩ := h1 p hp
    exact hno rec hm p ha
  · by_cases hc : (onPacket A C L e bs).1.conn = e.conn
    · exact hc
    · obtain ⟨rec, hm, _, p, ha⟩ := h2 hc
      exact absurd ha (hno rec hm p)

/-- Failed decodes and failed opens leave the *whole* endpoint state unchanged (not only the
connection state) and produce no output: a datagram whose first record does not parse, or is
protected (epoch ≠ 0) and does not open, is a no-op. -/
theorem rejected_record_no_effect (A : DecFn) (C : Crypto) (L : Loc) (e : Ep) (bs : Bytes) (fuel : Nat)
    (h : (∀ r rest, decodeRec bs ≠ .ok r rest) ∨
         (∃ r rest, decodeRec bs = .ok r rest ∧ r.epoch ≠ 0 ∧ tryDecrypt A (rxKeys e) r = none)) :
    (onDatagram A C L fuel e bs).ep = e ∧ (onDatagram A C L fuel e bs).out = [] := by
  cases fuel with
  | zero => simp [onDatagram, ok]
  | succ f =>
    unfold onDatagram
    split
    · simp [ok]
    · rcases h with h | ⟨r, rest, hd, he, ht⟩
      · split
        · simp [ok]
        · simp [ok]
        · rename_i r rest hd; exact absurd hd (h r rest)
      · rw [hd]
        dsimp only
        have : dropClear e r = false := by simp [dropClear, he]
        simp [this, ht, ok]

/-- The nonce and the AAD bind every header field: two records (with the field ranges `decodeRec`
guarantees) that are opened under the same (nonce, AAD) have the same type, version, epoch,
sequence number and length, and the same explicit nonce.  So any change to the header of a genuine
record changes what the AEAD is asked to verify. -/
theorem header_bound_by_nonce_aad (k : DirKeys) (r r' : Rec)
    (ht : r.ctype < 256) (ht' : r'.ctype < 256) (he : r.epoch < 2 ^ 16) (he' : r'.epoch < 2 ^ 16)
    (hs : r.seq < 2 ^ 48) (hs' : r'.seq < 2 ^ 48)
    (hl : 24 ≤ r.body.length ∧ r.body.length < 65536) (hl' : 24 ≤ r'.body.length ∧ r'.body.length < 65536)
    (hn : rxNonce k r = rxNonce k r') (ha : rxAad r = rxAad r') :
    r.ctype = r'.ctype ∧ r.vmaj = r'.vmaj ∧ r.vmin = r'.vmin ∧ r.epoch = r'.epoch ∧ r.seq = r'.seq ∧
    r.body.length = r'.body.length ∧ r.body.take 8 = r'.body.take 8 := by
  unfold rxAad mkAad at ha
  have h1 := List.append_inj ha (by simp)
  have h2 := List.append_inj h1.1 (by simp)
  have hfull := be64_inj (fullSeq_lt he hs) (fullSeq_lt he' hs') h2.1
  obtain ⟨hee, hss⟩ := fullSeq_inj hs hs' hfull
  have hlen := be16_inj (by simp; omega) (by simp; omega) h1.2
  simp only [List.cons.injEq, and_true] at h2
  obtain ⟨_, hct, hma, hmi⟩ := h2
  have hct' := u8_ofNat_inj ht ht' hct
  simp only [dtlsOpenMinExplicit_val, dtlsOpenMinTag_val] at hlen
  refine ⟨hct', hma, hmi, hee, hss, by omega, ?_⟩
  unfold rxNonce mkNonce at hn
  simpa [explicitLen] using List.append_cancel_left hn

/-- what `decodeRec` returns is within those ranges -/
theorem decodeRec_ranges (bs : Bytes) (r : Rec) (rest : Bytes) (h : decodeRec bs = .ok r rest) :
    r.ctype < 256 ∧ r.epoch < 2 ^ 16 ∧ r.seq < 2 ^ 48 ∧ r.body.length < 65536 := by
  unfold decodeRec at h
  split at h
  · rename_i t ma mi e0 e1 s0 s1 s2 s3 s4 s5 l0 l1 rest'
    split at h
    · dsimp only at h
      split at h
      · cases h
      · injection h with h1 h2
        subst h1
        have b : ∀ x : UInt8, x.toNat < 256 := fun x => x.toNat_lt
        have := b t; have := b e0; have := b e1; have := b s0; have := b s1; have := b s2
        have := b s3; have := b s4; have := b s5; have := b l0; have := b l1
        simp [beVal, List.length_take]
        omega
    · cases h
  · cases h

/-! ### send side -/

/-- **records_fit_and_concat**: for every payload, `send` cuts it into chunks of at most
`MAX_APP_DATA_RECORD_SIZE` bytes, none empty, whose concatenation is the payload; every chunk goes
out as one AEAD-sealed record that the peer's `openRec` maps back to exactly that chunk, and whose
wire size is header + explicit nonce + chunk + tag (≤ 1237 bytes). -/
theorem records_fit_and_concat (A : Aead) (k : DirKeys) (epoch : Nat) (d : Bytes) :
    (appChunks d).flatten = d ∧
    (∀ c ∈ appChunks d, c.length ≤ dtlsMaxAppDataRecordSize ∧ 0 < c.length) ∧
    (∀ c ∈ appChunks d, ∀ s,
        openRec A.dec k (sealedRec A k dtlsCtApplicationData epoch s c) = some c ∧
        (encodeRec (sealedRec A k dtlsCtApplicationData epoch s c)).length
          = dtlsRecordHeaderSize + dtlsSendExplicitNonceLen + c.length + dtlsSendTagLen ∧
        (encodeRec (sealedRec A k dtlsCtApplicationData epoch s c)).length ≤ 1237) := by
  refine ⟨chunks_flatten _ (by decide) _ _ (by omega), chunks_bound _ (by decide) _ _, ?_⟩
  intro c hc s
  have hb := (chunks_bound _ (by decide) _ _ c hc).1
  have hl : (sealedRec A k dtlsCtApplicationData epoch s c).body.length = 8 + c.length + 16 :=
    sealed_body_length A k dtlsCtApplicationData (fullSeq epoch s) c
  have hlen : (encodeRec (sealedRec A k dtlsCtApplicationData epoch s c)).length
      = 13 + (sealedRec A k dtlsCtApplicationData epoch s c).body.length := by
    simp only [encodeRec, List.length_append, List.length_cons, List.length_nil, be16_length, be48_length]
  simp only [dtlsMaxAppDataRecordSize_val] at hb
  refine ⟨open_sealed A k _ epoch s c, ?_, ?_⟩
  · rw [hlen, hl]; simp only [dtlsRecordHeaderSize_val, dtlsSendExplicitNonceLen_val, dtlsSendTagLen_val]; omega
  · rw [hlen, hl]; omega

/-- **send_nonce_unique**: sequence numbers come from one atomic counter, so for *every*
interleaving `sched` of allocation steps of any number of sender threads (and the Finished record
and the close alert, which draw from the same counter), no two records of the connection are sealed
under the same `(epoch, sequence number)`. -/
theorem send_nonce_unique (epoch0 : Nat) (sched : List Who) :
    ((Tx.afterCcs epoch0).run sched).log.Pairwise (fun a b => ¬ (a.epoch = b.epoch ∧ a.seq = b.seq)) :=
  ((Tx.afterCcs_inv epoch0).run sched).nodup

/-- … and distinct `(epoch, seq)` pairs give distinct AEAD nonces under one write IV, as long as
fewer than 2^48 records are sent in the epoch (the counter is then also what the 48-bit header
field carries, untruncated). -/
theorem nonce_injective (iv : Bytes) (e s e' s' : Nat) (he : e < 2 ^ 16) (he' : e' < 2 ^ 16)
    (hs : s < 2 ^ 48) (hs' : s' < 2 ^ 48)
    (h : mkNonce iv (be64 (fullSeq e s)) = mkNonce iv (be64 (fullSeq e' s'))) : e = e' ∧ s = s' := by
  unfold mkNonce at h
  exact fullSeq_inj hs hs' (be64_inj (fullSeq_lt he hs) (fullSeq_lt he' hs') (List.append_cancel_left h))

/-- **all_records_nonce_unique** (Finished, application records of all senders, close alert): every
schedule that sends fewer than 2^48 records uses pairwise distinct nonces. -/
theorem all_records_nonce_unique (iv : Bytes) (sched : List Who) (hn : sched.length ≤ 2 ^ 48) :
    ((Tx.afterCcs 0).run sched).log.Pairwise
      (fun a b => mkNonce iv (be64 (fullSeq a.epoch a.seq)) ≠ mkNonce iv (be64 (fullSeq b.epoch b.seq))) := by
  have hinv := (Tx.afterCcs_inv 0).run sched
  have hnext := Tx.run_next (Tx.afterCcs 0) sched
  have hep := Tx.run_epoch (Tx.afterCcs 0) sched
  have hrange : ∀ a ∈ ((Tx.afterCcs 0).run sched).log, a.epoch < 2 ^ 16 ∧ a.seq < 2 ^ 48 := by
    intro a ha
    have := hinv.below a ha
    have hae := Tx.run_log_epoch (Tx.afterCcs 0) sched (by simp [Tx.afterCcs]) a ha
    rw [hep, hnext] at this
    have h0 : (Tx.afterCcs 0).next = 0 := rfl
    have h1 : (Tx.afterCcs 0).epoch = 1 := rfl
    rw [h0, h1] at this
    omega
  refine List.Pairwise.imp_of_mem ?_ hinv.nodup
  intro a b ha hb hne heq
  have ra := hrange a ha
  have rb := hrange b hb
  exact hne (nonce_injective iv _ _ _ _ ra.1 rb.1 ra.2 rb.2 heq)

/-- Why the alert has to draw from the shared counter: with the superseded rule (the handshake
context's own `sequence_number`, still 1 after the Finished record) one application record followed
by `close()` seals two different records under `(epoch 1, seq 1)`. -/
theorem close_alert_from_ctx_seq_reuses_nonce :
    ¬ (((Tx.afterCcs 0).run [.finished, .app 0]).allocAlertFromCtx 1).log.Pairwise
        (fun a b => ¬ (a.epoch = b.epoch ∧ a.seq = b.seq)) := by
  decide

/-- **all_records_nonce_unique at the endpoint** (what ties the counter model `Tx` to the code's
two counters): take any endpoint — either role, any expected fingerprint — and *any* history of
datagrams (arbitrary bytes, arbitrary AEAD behaviour), `send`s of any payloads in any number, ticks,
`close`, deadline.  Among all records it ever sealed — the Finished, every application record, the
close alert, retransmitted flights — two with the same `(epoch, sequence number)` are the same record
(same type, same plaintext: a byte-identical retransmission), never two different ones.  The proof is
an invariant (`NInv`) over both counters (`ctx.sequence_number`, `write_seq`), their hand-over when
`Connected` is published, and the epoch switch; it is what fails when the alert takes the context's
counter after publication or when a second Finished re-publishes the counters. -/
theorem endpoint_nonce_unique (C : Crypto) (L : Loc) (isClient : Bool) (fp : Option Bytes) (ops : List Op) :
    ∀ a ∈ sealedOf ((start L isClient fp).2 ++ (runOps C L (start L isClient fp).1 ops).2),
    ∀ b ∈ sealedOf ((start L isClient fp).2 ++ (runOps C L (start L isClient fp).1 ops).2),
      a.epoch = b.epoch → a.seq = b.seq → a = b := by
  have h := runOps_ninv C L ops _ _ (start_ninv L isClient fp)
  rw [← sealedOf_append] at h
  exact h.uniq

/-- **send_nonce_unique at the moment of publication**: the run loop publishes `write_epoch`, then
`write_seq`, then the state `Connected`; sender threads check the state, load the epoch, `fetch_add`
the sequence number; once it has published, the run loop may also take a number for its close_notify alert
(`fetch_add` on the same counter, `PAct.alert`).  For *every* interleaving of these atomic steps, with any
number of senders doing any number of sends, every record so sealed carries the published epoch `E` and a sequence number
≥ `S` (the first one after the Finished record, which used `S - 1`), and no `(epoch, seq)` occurs
twice. -/
theorem publication_race_free (E S : Nat) (acts : List PAct) :
    let s := (PSys.run E S { rest := pubOrder } acts)
    (∀ p ∈ s.log, p.1 = E ∧ S ≤ p.2) ∧ s.log.Pairwise (· ≠ ·) := by
  have h := (PInv.init E S).run acts
  exact ⟨fun p hp => ⟨(h.range p hp).1, (h.range p hp).2.1⟩, h.nodup⟩

/-- Why the order matters: publishing the state first (the superseded order) lets a sender that is
scheduled between the stores seal a record under `(epoch 1, seq 0)` — the Finished record's nonce. -/
theorem publication_state_first_races :
    (1, 0) ∈ (PSys.run 1 1 { rest := pubOrderStateFirst } [.pub, .snd 0, .pub, .snd 0, .snd 0]).log := by
  decide

/-- **a clear-text record leaves the whole endpoint untouched** once keys exist (not only the connection
state): for an endpoint with keys, outside a cookie exchange (`post_hvr` false) and — for a server —
with its random chosen, an epoch-0 record of *any* content type is either dropped before decryption
(ApplicationData, Alert) or processed with the endpoint state — sequence counters, reassembly buffer,
transcript, last flight, everything — exactly as before; at most the last flight is re-sent (duplicate
ClientHello). -/
theorem clear_text_record_whole_state_noop (C : Crypto) (L : Loc) (e : Ep) (r : Rec)
    (hk : e.ctx.keys.isSome = true) (hp : e.ctx.postHvr = false) (hsr : e.ctx.serverRandom.isSome = true)
    (h0 : r.epoch = 0) :
    dropClear e r = true ∨
    ((onRecord C L e r.ctype false r.body).ep = e ∧ (onRecord C L e r.ctype false r.body).err = false ∧
      ∀ p, Out.deliver p ∉ (onRecord C L e r.ctype false r.body).out) := by
  by_cases hd : dropClear e r = true
  · exact Or.inl hd
  · right
    have hct : r.ctype ≠ dtlsCtApplicationData ∧ r.ctype ≠ dtlsCtAlert := by
      simp only [dropClear, h0, hk] at hd
      simp at hd
      exact hd
    unfold onRecord
    split
    · simp [ok]
    · rw [if_neg hct.1]
      split
      · have h := procPayload_unauth_whole C L (r.body.length + 1) e r.body hk hp hsr
        exact ⟨h.1, h.2, (procPayload_good C L false _ e r.body).2.2⟩
      · rw [if_neg hct.2]; simp [ok]

open RtcModel.DtlsFlights in
/-- **on the wire, application data exists only as AEAD output**: every datagram `send` hands to the
socket is `header ‖ explicit nonce ‖ A.enc key (iv ‖ explicit nonce) aad chunk` for a chunk of the
payload — the plaintext enters the wire bytes through `A.enc` only, under the endpoint's write key, with
the explicit nonce equal to the 64-bit epoch‖sequence value that is also in the header and the AAD. -/
theorem send_wire_is_aead_output (A : Aead) (e : Ep) (k : Keys) (d : Bytes) (hk : e.ctx.keys = some k) :
    ∀ dg ∈ datagrams A e (onSend e d).2, ∃ i c, c ∈ appChunks d ∧
      dg = encodeRec ⟨dtlsCtApplicationData, dtls12Major.toUInt8, dtls12Minor.toUInt8, e.writeEpoch, e.writeSeq + i,
        be64 (fullSeq e.writeEpoch (e.writeSeq + i)) ++
          A.enc (writeKeys e.isClient k).key (mkNonce (writeKeys e.isClient k).iv (be64 (fullSeq e.writeEpoch (e.writeSeq + i))))
            (mkAad (fullSeq e.writeEpoch (e.writeSeq + i)) dtlsCtApplicationData dtls12Major.toUInt8 dtls12Minor.toUInt8 c.length) c⟩ := by
  intro dg hdg
  unfold onSend at hdg
  split at hdg
  · simp only [datagrams, List.mem_filterMap] at hdg
    obtain ⟨o, ho, hw⟩ := hdg
    rw [List.mem_iff_getElem] at ho
    obtain ⟨n, hn, rfl⟩ := ho
    simp only [List.length_zipWith, List.length_range, Nat.min_self] at hn
    simp only [List.getElem_zipWith, List.getElem_range, Option.some.injEq] at hw
    refine ⟨n, (appChunks d)[n], List.getElem_mem hn, ?_⟩
    rw [← hw]
    simp [wireOf, hk, sealedRec, sealPayload]
  · simp [datagrams] at hdg

/-- **nonce (not only counter) uniqueness at the endpoint**: two different records an endpoint ever sealed,
both with epoch < 2^16 and sequence number < 2^48 (the ranges of the header fields; beyond 2^48 the
code's `(epoch << 48) | seq` would overlap), are sealed under different AEAD nonces `iv ‖ be64(epoch‖seq)`. -/
theorem endpoint_wire_nonce_unique (C : Crypto) (L : Loc) (isClient : Bool) (fp : Option Bytes) (ops : List Op) (iv : Bytes) :
    ∀ a ∈ sealedOf ((start L isClient fp).2 ++ (runOps C L (start L isClient fp).1 ops).2),
    ∀ b ∈ sealedOf ((start L isClient fp).2 ++ (runOps C L (start L isClient fp).1 ops).2),
      a.epoch < 2 ^ 16 → b.epoch < 2 ^ 16 → a.seq < 2 ^ 48 → b.seq < 2 ^ 48 → a ≠ b →
      mkNonce iv (be64 (fullSeq a.epoch a.seq)) ≠ mkNonce iv (be64 (fullSeq b.epoch b.seq)) := by
  intro a ha b hb h1 h2 h3 h4 hne heq
  obtain ⟨he, hs⟩ := nonce_injective iv _ _ _ _ h1 h2 h3 h4 heq
  exact hne (endpoint_nonce_unique C L isClient fp ops a ha b hb he hs)

/-! ### after a local close() -/

/-- **nothing follows a local `close()`**: the close branch of a running loop seals at most the
close_notify alert, stores and publishes `Closed` and ends the task; from then on the transport sends
nothing, delivers nothing and never changes again — in particular every `send()` that *starts* after
`close()` is refused (`send()` checks the state first), so no record is ever sealed after the alert and
the alert's sequence number is the last one used under the key.  (A `send()` that had already passed its
state check when `close()` ran may still seal its records concurrently; their numbers come from the same
`fetch_add` counter as the alert's — `publication_race_free`.) -/
theorem nothing_follows_local_close (C : Crypto) (L : Loc) (e : Ep) (ha : e.alive = true) (ops : List Op) :
    (onClose e).1.conn = .closed ∧ (onClose e).1.alive = false ∧
    (sealedOf (onClose e).2).length ≤ 1 ∧ (∀ w ∈ sealedOf (onClose e).2, w.ctype = dtlsCtAlert) ∧
    runOps C L (onClose e).1 ops = ((onClose e).1, []) := by
  have hst : (onClose e).1.conn = .closed ∧ (onClose e).1.alive = false ∧
      (sealedOf (onClose e).2).length ≤ 1 ∧ (∀ w ∈ sealedOf (onClose e).2, w.ctype = dtlsCtAlert) := by
    unfold onClose
    simp only [ha, Bool.not_true, Bool.false_eq_true, if_false]
    split
    · simp [sealedOf]
    · split <;> simp [sealedOf]
  refine ⟨hst.1, hst.2.1, hst.2.2.1, hst.2.2.2, ?_⟩
  exact dead_and_not_connected_is_final C L _ hst.2.1 (by rw [hst.1]; decide) ops
/-! ### non-vacuity -/

/-- a (toy) AEAD satisfying the law fields: tag = 16 bytes depending on key, nonce and AAD lengths -/
def toyAead : Aead where
  enc k n a p := p ++ List.replicate 16 (UInt8.ofNat (k.length + n.length + a.length))
  dec k n a c :=
    if c.length < 16 then none
    else if c.drop (c.length - 16) = List.replicate 16 (UInt8.ofNat (k.length + n.length + a.length))
      then some (c.take (c.length - 16)) else none
  dec_enc := by intro k n a p; simp
  enc_length := by intro k n a p; simp [tagLen]

example : appChunks [1, 2, 3] = [[1, 2, 3]] ∧ appChunks [] = [] := by decide

example : ∃ e : Ep, ∃ k, e.ctx.keys = some k := ⟨{ isClient := true, ctx := { keys := some ⟨[], [], [], [], [], [], []⟩ } }, _, rfl⟩

end RtcModel.Theorems.C03
