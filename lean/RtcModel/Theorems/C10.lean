/-
C10 — any two compatibly configured endpoints connect; complementary DTLS roles, identical SRTP keys.
Property theorems only (helpers: `RtcModel/Lemmas/Negotiate.lean`).

Claimed **partial**: these theorems cover the negotiation *decision logic* (roles, use_srtp profile,
key/salt split, SDES split, data-channel stream ids, transport plan of the direct modes).  That two
endpoints actually reach `Connected` within the timeouts on loopback and that a message / an RTP packet
arrive is runtime behaviour measured by the harness lattice run (`vh c10`), not a theorem.
-/
import RtcModel.Lemmas.Negotiate

namespace RtcModel.Theorems.C10
open RtcModel.Negotiate RtcModel.Generated

/-! ### generated-constant obligations -/

/-- the key / salt lengths `setup_srtp` slices with are the ones RFC 3711 / RFC 7714 profiles need
(and `srtp.rs` checks: `key_len() = 16`, `salt_len() = 14 | 12`) -/
theorem const_srtp_lengths :
    keyLen .aes80 = 16 ∧ saltLen .aes80 = 14 ∧ keyLen .aes32 = 16 ∧ saltLen .aes32 = 14 ∧
    keyLen .gcm = 16 ∧ saltLen .gcm = 12 ∧ totalLen .aes80 = 60 ∧ totalLen .gcm = 56 := by decide

/-- the three known use_srtp ids are distinct, so the `match` in `setup_srtp` is a function of the id -/
theorem const_profile_ids_distinct :
    srtpIdAes80 ≠ srtpIdAes32 ∧ srtpIdAes80 ≠ srtpIdGcm ∧ srtpIdAes32 ≠ srtpIdGcm := by decide

/-- SDES lengths agree with the DTLS-SRTP ones per profile and the generated `inline:` key is long enough
for every suite rustrtc can answer with -/
theorem const_sdes_lengths :
    sdesLens .aes80 = (keyLen .aes80, saltLen .aes80) ∧ sdesLens .aes32 = (keyLen .aes32, saltLen .aes32) ∧
    sdesLens .gcm = (keyLen .gcm, saltLen .gcm) ∧
    (∀ p : Profile, (sdesLens p).1 + (sdesLens p).2 ≤ sdesGeneratedLen) := by
  refine ⟨by decide, by decide, by decide, ?_⟩
  intro p; cases p <;> decide

/-- every profile the client offers is one `setup_srtp` knows, and the server's preferred one is offered -/
theorem const_client_profiles_known :
    (∀ p ∈ clientProfiles, p = srtpIdAes80 ∨ p = srtpIdAes32 ∨ p = srtpIdGcm) ∧
    dtlsServerPreferredProfile ∈ clientProfiles ∧ dtlsServerPreferredProfileSel = dtlsServerPreferredProfile := by
  decide

/-- client and server data-channel id classes differ in parity -/
theorem const_dc_offsets : dcIdOffsetClient % 2 ≠ dcIdOffsetServer % 2 ∧ dcIdStep = 2 := by decide

/-! ### roles -/

/-- **roles_complementary** (rustrtc ↔ rustrtc): after one complete offer/answer exchange between two
fresh WebRTC-mode endpoints, with any positive number of media sections, the offerer is the DTLS client
and the answerer the DTLS server. -/
theorem roles_complementary (n : Nat) (hn : 0 < n) :
    exchange ⟨.webrtc, none⟩ ⟨.webrtc, none⟩ n = (⟨.webrtc, some true⟩, ⟨.webrtc, some false⟩) :=
  exchange_fresh n hn

/-- **roles_complementary_any_offer**: whatever `a=setup` value the (possibly foreign) offer carries —
`active`, `passive`, `actpass`, `holdconn`, garbage — as long as some section has one, the answer that
rustrtc builds makes the two roles opposite: the answerer takes `isClientOfRemoteSetup v`, the offerer
(reading rustrtc's answer) the negation. All offers, all section layouts, all strings. -/
theorem roles_complementary_any_offer (offer : List (List Attr)) (v : String) (n : Nat) (hn : 0 < n)
    (hv : firstSetup offer = some v) :
    exchangeForeignOffer ⟨.webrtc, none⟩ ⟨.webrtc, none⟩ offer n =
      (⟨.webrtc, some (!isClientOfRemoteSetup v)⟩, ⟨.webrtc, some (isClientOfRemoteSetup v)⟩) := by
  simp [exchangeForeignOffer, Ep.setRemote, roleAfterRemote, roleAfterRemoteFull, hv, firstSetup_localDesc _ _ n hn,
    isClient_of_answer_setup]

example : firstSetup [[⟨"mid", some "0"⟩, ⟨"setup", none⟩], [⟨"setup", some "holdconn"⟩]] = some "holdconn" := by
  decide

/-- An offer without any `a=setup` value leaves the answerer without a role (it then never starts DTLS):
the hypothesis of `roles_complementary_any_offer` is necessary. rustrtc's own WebRTC offers always carry
one (`firstSetup_localDesc`). -/
theorem no_setup_no_role (offer : List (List Attr)) (n : Nat) (h : firstSetup offer = none) :
    (exchangeForeignOffer ⟨.webrtc, none⟩ ⟨.webrtc, none⟩ offer n).2.role = none := by
  simp [exchangeForeignOffer, Ep.setRemote, roleAfterRemote, roleAfterRemoteFull, h]

/-- **roles_fixed_once_started**: once a role is set and the DTLS transport exists, no later remote
description — any sections, any session-level `a=setup`, any mode — changes it (the guard
`current_role.is_none() || dtls_transport.is_none()` of the role block). -/
theorem roles_fixed_once_started (m : Mode) (r : Bool) (sections : List (List Attr)) (sess : Option String) :
    roleAfterRemoteFull m (some r) true sections sess = some r := by
  simp [roleAfterRemoteFull]

/-- **roles_follow_latest_offer**: until the DTLS transport exists the role follows the latest description
(SDP fix "the DTLS role follows a later description until the DTLS transport exists"; before it the first
value won for good): after every complete exchange, whatever roles earlier exchanges left, the offerer of
*that* exchange is the client and its answerer the server. -/
theorem roles_follow_latest_offer (ro ra : Option Bool) (n : Nat) (hn : 0 < n) :
    exchange ⟨.webrtc, ro⟩ ⟨.webrtc, ra⟩ n = (⟨.webrtc, some true⟩, ⟨.webrtc, some false⟩) :=
  exchange_any ro ra n hn

/-- **roles_complementary_forever**: from two fresh endpoints, after a first exchange and any further
history of re-negotiations (either side offering, ≥ 1 section each) before the transport exists, the roles
are complementary after every exchange. -/
theorem roles_complementary_forever (x y : Ep) (hx : x.mode = .webrtc) (hy : y.mode = .webrtc)
    (h : List (Bool × Nat)) (hne : h ≠ []) (hpos : ∀ e ∈ h, 0 < e.2) :
    ∃ r : Bool, exchanges x y h = (⟨.webrtc, some r⟩, ⟨.webrtc, some (!r)⟩) := by
  induction h generalizing x y with
  | nil => exact absurd rfl hne
  | cons e rest ih =>
    obtain ⟨d, n⟩ := e
    have hn : 0 < n := hpos (d, n) (by simp)
    obtain ⟨mx, rx⟩ := x
    obtain ⟨my, ry⟩ := y
    simp only at hx hy
    subst hx; subst hy
    cases d
    · -- y offers
      simp only [exchanges, exchange_any ry rx n hn]
      by_cases hr : rest = []
      · subst hr; exact ⟨false, by simp [exchanges]⟩
      · simpa using ih ⟨.webrtc, some false⟩ ⟨.webrtc, some true⟩ rfl rfl hr (fun e he => hpos e (by simp [he]))
    · simp only [exchanges, exchange_any rx ry n hn, if_true]
      by_cases hr : rest = []
      · subst hr; exact ⟨true, by simp [exchanges]⟩
      · simpa using ih ⟨.webrtc, some true⟩ ⟨.webrtc, some false⟩ rfl rfl hr (fun e he => hpos e (by simp [he]))

/-- the direct modes never consult `a=setup`: both ends are `Some(true)` and no DTLS runs -/
theorem direct_modes_role (m : Mode) (hm : m ≠ .webrtc) (n : Nat) :
    exchange ⟨m, none⟩ ⟨m, none⟩ n = (⟨m, some true⟩, ⟨m, some true⟩) := by
  cases m <;> simp_all [exchange, Ep.setRemote, roleAfterRemote, roleAfterRemoteFull]

/-! ### data-channel stream ids -/

/-- **dc_ids_disjoint** — stated for the role *at allocation time* (`dtls_role.borrow().unwrap_or(true)`):
whenever the two ends allocate with different effective roles they can never pick the same stream id,
whatever ids are in use on either side. -/
theorem dc_ids_disjoint (ra rb : Option Bool) (h : ra.getD true ≠ rb.getD true) (usedA usedB : List Nat) :
    dcAlloc ra usedA ≠ dcAlloc rb usedB := by
  intro he
  have ha := dcAllocFrom_parity usedA (dcOffset ra) (usedA.length + 1)
  have hb := dcAllocFrom_parity usedB (dcOffset rb) (usedB.length + 1)
  unfold dcAlloc at he
  rw [he] at ha
  rw [ha] at hb
  cases hra : ra.getD true <;> cases hrb : rb.getD true <;> simp_all [dcOffset]

/-- **Witness (an observation recorded in the evidence, not a C10 finding: with equal ids a message still
arrives intact in each direction — the two channels are fused into one stream)**: the role is `None` until the first
remote description arrives, and `None` allocates like the client. An answerer that creates a channel before
`set_remote_description` therefore gets a client-parity id although it becomes the DTLS *server*: both ends
allocate stream id 0. The full statement "complementary roles ⇒ disjoint ids" is false for channels created
before negotiation — the state in which applications normally create them. -/
theorem dc_ids_collide_before_negotiation_witness :
    dcAlloc none [] = dcAlloc (some true) [] ∧
    (exchange ⟨.webrtc, none⟩ ⟨.webrtc, none⟩ 1).2.role = some false ∧
    dcAlloc none [] ≠ dcAlloc (exchange ⟨.webrtc, none⟩ ⟨.webrtc, none⟩ 1).2.role [] := by decide

/-- **dc_alloc_free**: the id `create_data_channel` returns is never one of the ids in use — for every
role and every set of used ids (the `used.length + 1` iterations of the model's loop always suffice; the
code's `loop` is unbounded, its `u16` overflow beyond 32768 live channels of one parity is outside the model). -/
theorem dc_alloc_free (role : Option Bool) (used : List Nat) : dcAlloc role used ∉ used := by
  unfold dcAlloc
  exact dcAllocFrom_free used _ _ (by have := usedFrom_le_length used (dcOffset role); omega)

/-! ### use_srtp profile -/

/-- the server recovers exactly the client's profile list from the ClientHello extension bytes -/
theorem server_parses_client_list (l : List Nat) (hl : ∀ x ∈ l, x < 65536) (hlen : 2 * l.length < 65536) :
    serverParseProfiles (clientUseSrtpExt l) = l := by
  have h := be16_flatMap_parse l hl [0] 0
  simp only [Nat.add_zero] at h
  have hhi : (UInt8.ofNat (2 * l.length / 256)).toNat * 256 + (UInt8.ofNat (2 * l.length % 256)).toNat
      = 2 * l.length := by
    simp [UInt8.toNat_ofNat']; omega
  simp only [serverParseProfiles, clientUseSrtpExt, be16, List.cons_append, List.nil_append, hhi, h]
  cases hk : 2 * l.length <;> simp [parseProfilesAux]

/-- **profile_agreed**: for every non-empty list of 16-bit profiles a client may offer, the profile the
server stores is one the client offered, the client reads exactly that profile back from the ServerHello
extension, and therefore both ends map it to the same `SrtpProfile` in `setup_srtp`. -/
theorem profile_agreed (l : List Nat) (hne : l ≠ []) (hl : ∀ x ∈ l, x < 65536) :
    ∃ sel, serverSelect l = some sel ∧ sel ∈ l ∧
      clientParseSelected (serverUseSrtpExt sel) = some sel ∧
      profileOfId (clientParseSelected (serverUseSrtpExt sel)) = profileOfId (serverSelect l) := by
  cases l with
  | nil => exact absurd rfl hne
  | cons first rest =>
    have hparse : ∀ s, s < 65536 → clientParseSelected (serverUseSrtpExt s) = some s := by
      intro s hs
      simp [clientParseSelected, serverUseSrtpExt, be16, UInt8.toNat_ofNat']
      omega
    by_cases hc : (1 = first ∨ 1 ∈ rest)
    · refine ⟨1, by simp [serverSelect, hc], ?_, hparse 1 (by decide), ?_⟩
      · rcases hc with h | h
        · simp [h]
        · simp [h]
      · simp [serverSelect, hc, hparse 1 (by decide)]
    · have hf := hl first (by simp)
      refine ⟨first, by simp [serverSelect, hc], by simp, hparse _ hf, ?_⟩
      simp [serverSelect, hc, hparse _ hf]

/-- rustrtc ↔ rustrtc: the negotiated profile is `Aes128Sha1_80` -/
theorem profile_rustrtc_pair :
    serverSelect (serverParseProfiles (clientUseSrtpExt clientProfiles)) = some srtpIdAes80 ∧
    profileOfId (clientParseSelected (serverUseSrtpExt srtpIdAes80)) = .aes80 := by decide

/-! ### SRTP keys -/

/-- with material of the exported length the four parts have exactly the profile's key / salt length -/
theorem srtp_key_lengths (profileOpt : Option Nat) (isClient : Bool) (mat : List UInt8)
    (h : matOk (profileOfId profileOpt) mat) :
    let k := splitKeys (profileOfId profileOpt) isClient mat
    k.txKey.length = keyLen (profileOfId profileOpt) ∧ k.rxKey.length = keyLen (profileOfId profileOpt) ∧
    k.txSalt.length = saltLen (profileOfId profileOpt) ∧ k.rxSalt.length = saltLen (profileOfId profileOpt) := by
  unfold matOk totalLen at h
  cases isClient <;> simp [splitKeys, slice] <;> omega

example : matOk (profileOfId (some 7)) (List.replicate 56 0) := by decide

/-- Complementary roles are *necessary*: with equal roles there is keying material for which the
transmit key of one end is not the receive key of the other (so `roles_complementary` carries weight). -/
theorem srtp_keys_need_complementary_roles (r : Bool) :
    ∃ mat : List UInt8, matOk .aes80 mat ∧
      (splitKeys .aes80 r mat).txKey ≠ (splitKeys .aes80 r mat).rxKey := by
  refine ⟨List.replicate 16 1 ++ List.replicate 44 2, by decide, ?_⟩
  cases r <;> decide

/-- what the DTLS layer owes the key derivation and this model does **not** prove: both ends of one DTLS
session export the same keying material (RFC 5705 exporter over the shared master secret). The harness
checks it per connected pair; here it is a named hypothesis. -/
structure SameSession (expO expA : Nat → List UInt8) : Prop where
  same : ∀ n, expO n = expA n

/-- **negotiated_keys_cross**: composition for a rustrtc pair, through every modelled step — the offer/answer
exchange fixes the roles (`roles_complementary`), the server parses the client's use_srtp list *from the
extension bytes* and selects, the client parses the selection back (`profile_agreed`), both run `setup_srtp`
on their own exporter output: under `SameSession` the two ends install the same profile and crossed
key/salt pairs — for every client profile list of 16-bit ids and every exporter. (The split itself is
`splitKeys`; that it is the code's split is the `srtp` correspondence stream.) -/
theorem negotiated_keys_cross (n : Nat) (hn : 0 < n) (expO expA : Nat → List UInt8) (hs : SameSession expO expA)
    (cl : List Nat) (hne : cl ≠ []) (hl : ∀ x ∈ cl, x < 65536) (hlen : 2 * cl.length < 65536) :
    let eps := exchange ⟨.webrtc, none⟩ ⟨.webrtc, none⟩ n
    let l := serverParseProfiles (clientUseSrtpExt cl)
    ∃ ro ra sel, eps.1.role = some ro ∧ eps.2.role = some ra ∧ serverSelect l = some sel ∧
      let o := setupSrtp (clientParseSelected (serverUseSrtpExt sel)) ro expO
      let a := setupSrtp (serverSelect l) ra expA
      o.1 = a.1 ∧ o.2.txKey = a.2.rxKey ∧ o.2.txSalt = a.2.rxSalt ∧
      a.2.txKey = o.2.rxKey ∧ a.2.txSalt = o.2.rxSalt := by
  simp only [server_parses_client_list cl hl hlen]
  obtain ⟨sel, hsel, _, hp, hprof⟩ := profile_agreed cl hne hl
  refine ⟨true, false, sel, ?_, ?_, hsel, ?_⟩
  · simp [exchange_fresh n hn]
  · simp [exchange_fresh n hn]
  · simp only [setupSrtp, hp, hsel, hs.same]
    simp [splitKeys]

example : SameSession (fun n => List.replicate n 7) (fun n => List.replicate n 7) := ⟨fun _ => rfl⟩
example : clientProfiles ≠ [] ∧ (∀ x ∈ clientProfiles, x < 65536) ∧ 2 * clientProfiles.length < 65536 := by decide

/-! ### SDES (Srtp mode) -/

/-- **sdes_keys_cross**: when `setup_sdes` succeeds at one end with (remote, local) crypto lines, it
succeeds at the other end (which sees the same two lines swapped) with the same profile and crossed keys.
All suite strings, all key strings. -/
theorem sdes_keys_cross (sa sb : String) (ka kb : List UInt8) (p : Profile) (K : Keys)
    (h : setupSdes sb sa kb ka = .ok (p, K)) :
    ∃ K', setupSdes sa sb ka kb = .ok (p, K') ∧
      K.txKey = K'.rxKey ∧ K.txSalt = K'.rxSalt ∧ K'.txKey = K.rxKey ∧ K'.txSalt = K.rxSalt := by
  unfold setupSdes at h ⊢
  cases hb : mapCryptoSuite sb with
  | none => simp [hb] at h
  | some pb =>
    cases ha : mapCryptoSuite sa with
    | none => simp [hb, ha] at h
    | some pa =>
      simp only [hb, ha] at h ⊢
      by_cases hne : pb ≠ pa
      · simp [hne] at h
      · have heq : pb = pa := by simpa using hne
        subst heq
        simp only [ne_eq, not_true_eq_false, if_false] at h ⊢
        by_cases hlen : kb.length < (sdesLens pb).1 + (sdesLens pb).2 ∨ ka.length < (sdesLens pb).1 + (sdesLens pb).2
        · simp [hlen] at h
        · have hlen' : ¬ (ka.length < (sdesLens pb).1 + (sdesLens pb).2 ∨ kb.length < (sdesLens pb).1 + (sdesLens pb).2) := by
            intro hh; exact hlen (hh.symm)
          simp only [hlen, if_false, Except.ok.injEq, Prod.mk.injEq] at h
          obtain ⟨hp, hK⟩ := h
          subst hp; subst hK
          simp [hlen']

/-- rustrtc ↔ rustrtc in Srtp mode: the offer carries the default suite, the answerer echoes the first
suite it can map, so both `setup_sdes` calls succeed with `Aes128Sha1_80` for all generated keys. -/
theorem sdes_rustrtc_pair (ka kb : List UInt8) (ha : ka.length = sdesGeneratedLen) (hb : kb.length = sdesGeneratedLen) :
    let offerSuite := localSdesSuite .offer []
    let answerSuite := localSdesSuite .answer [offerSuite]
    ∃ K K', setupSdes answerSuite offerSuite kb ka = .ok (.aes80, K) ∧
            setupSdes offerSuite answerSuite ka kb = .ok (.aes80, K') ∧
            K.txKey = K'.rxKey ∧ K.txSalt = K'.rxSalt ∧ K'.txKey = K.rxKey ∧ K'.txSalt = K.rxSalt := by
  simp [localSdesSuite, mapCryptoSuite, setupSdes, sdesLens, ha, hb]

/-! ### transport plan of the direct modes -/

/-- *Lemma (four definitional unfoldings, not a property theorem)*: for independent policies and
compatibility modes of the two ends the answer carries `a=rtcp-mux` only if the offer does (the `retain`),
iff additionally the answerer's own policy puts it there; the offerer binds an RTCP socket exactly when it
does not offer mux, the answerer exactly when the *offer* had no mux (`needs_rtcp`). What the property needs
— "multiplexing agreed, or both ends have an RTCP socket" — is `mux_agreed_same_policy` (true) and
`mux_mixed_policy_no_rtcp_socket_witness` (false for mixed policies). -/
theorem lemma_mux_answer_follows_offer (muxO legacyO muxA legacyA : Bool) :
    let offerMux := sectionHasMux muxO legacyO .offer false
    let answerMux := sectionHasMux muxA legacyA .answer offerMux
    (answerMux = true → offerMux = true) ∧
    (answerMux = (localOffersMux muxA legacyA && offerMux)) ∧
    needsRtcpSocket muxO legacyO .offer false = !offerMux ∧
    needsRtcpSocket muxA legacyA .answer offerMux = !offerMux := by
  cases muxO <;> cases legacyO <;> cases muxA <;> cases legacyA <;> decide

/-- same policy and compatibility mode on both ends (the lattice's points): both agree on multiplexing and
each end has an RTCP socket exactly when RTCP is not multiplexed -/
theorem mux_agreed_same_policy (muxRequire legacySip : Bool) :
    let offerMux := sectionHasMux muxRequire legacySip .offer false
    let answerMux := sectionHasMux muxRequire legacySip .answer offerMux
    answerMux = offerMux ∧
    needsRtcpSocket muxRequire legacySip .offer false = !offerMux ∧
    needsRtcpSocket muxRequire legacySip .answer offerMux = !answerMux := by
  cases muxRequire <;> cases legacySip <;> decide

/-- **Witness (an observation recorded in the evidence, not a C10 finding: no clause of the property mentions
RTCP)**: "each end has an RTCP socket exactly when RTCP is
not multiplexed" is false for mixed policies: a `Require` offerer facing a `Negotiate` (or LegacySip)
answerer offers mux, the answer drops it, and *neither* end has bound an RTCP socket — the answerer because
the offer had mux, the offerer because it offered mux: RTCP has no port to go to. -/
theorem mux_mixed_policy_no_rtcp_socket_witness :
    let offerMux := sectionHasMux true false .offer false
    let answerMux := sectionHasMux false false .answer offerMux
    answerMux = false ∧ needsRtcpSocket true false .offer false = false ∧
    needsRtcpSocket false false .answer offerMux = false := by decide

/-- **plan_rtp_delivers**: in Rtp mode, bundled or not, every media section's packets are sent to a
remote socket that has a receiver, and it is the socket that section's receiver listens on. Any number of
sections. -/
theorem plan_rtp_delivers (bundle : Bool) (n i : Nat) (hi : i < n) :
    sectionDelivered .rtp bundle n i = true := by
  cases bundle
  · by_cases h0 : 0 < i <;> simp [sectionDelivered, sendTargetSection, advertisedSocket, socketServed, h0, hi]
  · simp [sectionDelivered, sendTargetSection, advertisedSocket, socketServed]

/-- The same statement for Srtp (SDES) mode, **as the code is, is false**: with two non-BUNDLE sections
(LegacySip compatibility) the second advertised socket has no receiver and `start_direct` targets the
last section's port. Full statement kept here:
`∀ bundle n i, i < n → sectionDelivered .srtp bundle n i = true`. -/
theorem plan_srtp_delivers_witness :
    ¬ (∀ (bundle : Bool) (n i : Nat), i < n → sectionDelivered .srtp bundle n i = true) := by
  intro h
  have := h false 2 0 (by decide)
  revert this
  decide

/-- the part that holds: a single section, or BUNDLE -/
theorem plan_srtp_delivers_partial (bundle : Bool) (n i : Nat) (hi : i < n) (h : bundle = true ∨ n = 1) :
    sectionDelivered .srtp bundle n i = true := by
  rcases h with h | h
  · subst h; simp [sectionDelivered, sendTargetSection, advertisedSocket, socketServed]
  · subst h
    have : i = 0 := by omega
    subst this
    cases bundle <;> simp [sectionDelivered, sendTargetSection, advertisedSocket, socketServed]

example : sectionDelivered .srtp true 2 1 = true ∧ sectionDelivered .srtp false 1 0 = true := by decide

/-- offers bundle exactly when there are ≥ 2 sections and the mode is not LegacySip; answers echo -/
theorem bundle_agreed (legacySip : Bool) (n : Nat) :
    let ob := willBundle legacySip .offer n false
    willBundle legacySip .answer n ob = ob := by
  cases legacySip <;> simp [willBundle]

/-- **Witness (known findings `cfgmix:{rtp,srtp}-av-stdofferer-legacyanswerer:rtp-not-delivered:…`)**: with
different compatibility modes the two ends do NOT agree on BUNDLE: a Standard offerer with two sections offers
one bundled transport, a LegacySip answerer answers with per-section transports — the hypothesis "one `bundle`
flag for both ends" of `plan_rtp_delivers` / `sectionDelivered` fails, and on the implementation the second
section's RTP is then delivered in neither direction (Rtp mode). -/
theorem mixed_compat_bundle_disagrees_witness :
    willBundle false .offer 2 false = true ∧ willBundle true .answer 2 (willBundle false .offer 2 false) = false ∧
    advertisedSocket true 1 ≠ advertisedSocket false 1 := by decide

/-- **bundle_answer_follows_offer**, independent compatibility modes of the two ends: the answer groups the
sections only if the offer did, and does so exactly when the answerer is not in LegacySip mode — a LegacySip
answerer never BUNDLEs even when a Standard peer offers it (the `!LegacySip` conjunct of the answer arm,
compared with the code by the `muxsdp2` stream). -/
theorem bundle_answer_follows_offer (legacyO legacyA : Bool) (n : Nat) :
    let ob := willBundle legacyO .offer n false
    let ab := willBundle legacyA .answer n ob
    (ab = true → ob = true) ∧ ab = (!legacyA && ob) := by
  cases legacyO <;> cases legacyA <;> simp [willBundle]

end RtcModel.Theorems.C10
