/-
C01 — reliable ordered data channels deliver every message exactly once, in order.
Property theorems only; helper lemmas live in `RtcModel/Lemmas/Sctp*.lean`.

Reading used here (see DESIGN.md §C01 and NOTES/C01.md):
* the *workload* is any list of messages submitted with `send_data(sid, ·)` on an ordered channel
  (`sendAll` = repeated `send_data_raw`, then `transmit`'s TSN assignment, any initial TSN);
* an *arrival history* is any list of indices into the resulting DATA chunk stream: every pattern of
  loss (index absent), duplication (index repeated), reordering and delay;
* the receiver is `handle_data` + `process_data_payload` of the code, started in the state the
  handshake leaves it in (cumulative TSN = peer's initial TSN − 1, empty receive queue).
-/
import RtcModel.Lemmas.SctpFrag

namespace RtcModel.Theorems.C01
open RtcModel.Sctp RtcModel.Generated

/-- generated-constant obligation: the duplicate test of `handle_data` and the dedup invariant
need the DATA value header to be the 12 bytes `process_data_payload` skips/reads -/
theorem const_data_header : sctpDataHdr = 12 ∧ sctpHandleDataMin = sctpDataHdr := by decide

/-- generated-constant obligation: data PPIDs are not the DCEP PPID (so user messages are never
routed to `handle_dcep`) -/
theorem const_ppids : dcPpidString ≠ dcPpidDcep ∧ dcPpidBinary ≠ dcPpidDcep := by decide

/-- **frag_reassemble**: for every payload (the empty one included), every positive fragment
size, every stream/SSN and every initial TSN, the fragments `send_data_raw` produces, processed in
order by `process_data_payload` on an ordered channel whose stream expects that SSN, deliver
exactly the payload (one event), leave the reassembly buffer empty and advance the SSN by one. -/
theorem frag_reassemble (mps : Nat) (hmps : 0 < mps) (sid : UInt16) (ppid : UInt32) (ssn : UInt16)
    (m : Bytes) (pl : Pl) (dc : Chan) (t : UInt32)
    (hfind : findChan pl.chans sid = some dc) (hord : dc.ordered = true) (hst : dc.state = 1)
    (hstr : getStream pl.streams sid = ⟨ssn, []⟩) :
    let pl' := plRun procDataP pl (assignTsn t ((fragMsg mps 0 m).map (fragChunk sid ppid ssn)))
    findChan pl'.chans sid = some { dc with reasm := [], events := dc.events ++ [ChanEv.msg m] } ∧
    getStream pl'.streams sid = ⟨ssn + 1, []⟩ := by
  obtain ⟨pl', h1, h2, h3⟩ := msgRun mps hmps sid ppid ssn m pl dc t hfind hord hst hstr
  subst h1
  exact ⟨h2, h3⟩

example : (fragMsg 3 0 [1, 2, 3, 4, 5, 6, 7]).map (·.2) = [[1, 2, 3], [4, 5, 6], [7]] ∧
    (fragMsg 3 0 [1, 2, 3, 4, 5, 6, 7]).map (·.1) = [2, 0, 1] ∧ fragMsg 3 0 [] = [(3, [])] := by decide

/-! ### the workload on the wire -/

/-- DATA chunks of the workload `msgs` sent on channel `sid`, first TSN `tsn0` -/
def wire (cs : List TxChan) (sid : UInt16) (ppid : UInt32) (msgs : List Bytes) (tsn0 : UInt32) : List DChunk :=
  assignTsn tsn0 (sendAll cs sid ppid msgs).2

/-- the receiver after the arrival history `arr` (indices into the chunk stream) -/
def recvAll (chunks : List DChunk) (s0 : Rx) (arr : List (Fin chunks.length)) : Rx :=
  arr.foldl (fun s i => handleData s chunks[i]) s0

/-- the TSN-layer result for the model's `handle_data`: after any arrival history the payload
state is the one obtained by processing the first `k` chunks of the stream, in order, once -/
theorem tsn_layer (cs : List TxChan) (sid : UInt16) (ppid : UInt32) (hp : ppid.toNat ≠ dcPpidDcep)
    (msgs : List Bytes) (tsn0 : UInt32) (s0 : Rx) (hcum : s0.cum = tsn0 - 1) (hrq : s0.rq = [])
    (hlen : (wire cs sid ppid msgs tsn0).length < 2147483648)
    (arr : List (Fin (wire cs sid ppid msgs tsn0).length)) :
    ∃ k, k ≤ (wire cs sid ppid msgs tsn0).length ∧
      (recvAll _ s0 arr).pl = plRun procDataP s0.pl ((wire cs sid ppid msgs tsn0).take k) ∧
      (recvAll _ s0 arr).cum = tsn0 + UInt32.ofNat k - 1 ∧
      ((∀ i : Fin (wire cs sid ppid msgs tsn0).length, i ∈ arr) → k = (wire cs sid ppid msgs tsn0).length) := by
  have hppid : ∀ c ∈ wire cs sid ppid msgs tsn0, c.ppid.toNat ≠ dcPpidDcep := by
    intro c hc
    rw [assignTsn_ppid tsn0 _ ppid (sendAll_ppid sid ppid msgs cs) c hc]; exact hp
  have hok : ∀ pl c, c ∈ wire cs sid ppid msgs tsn0 → (procPayload pl c).2 = true := by
    intro pl c hc; rw [procPayload_data pl c (hppid c hc)]; rfl
  have hts : ∀ i (h : i < (wire cs sid ppid msgs tsn0).length),
      (wire cs sid ppid msgs tsn0)[i].tsn = tsn0 + UInt32.ofNat i := fun i h => assignTsn_tsn tsn0 _ i h
  have inv0 : Inv procPayload (wire cs sid ppid msgs tsn0) tsn0 s0.pl 0 s0 :=
    ⟨Nat.zero_le _, by rw [hcum, u32_add_zero], by simp, by rw [hrq]; intro e he; simp at he⟩
  obtain ⟨k, _, inv, hseen⟩ := handleData_fold procPayload _ tsn0 s0.pl hts hlen hok arr 0 s0 [] inv0
    (by intro i hi; simp at hi)
  refine ⟨k, inv.hk, ?_, inv.cum, ?_⟩
  · show (List.foldl (fun s i => handleDataWith procPayload s (wire cs sid ppid msgs tsn0)[i]) s0 arr).pl = _
    rw [inv.pl]
    exact plRun_data _ (fun c hc => hppid c (List.mem_of_mem_take hc)) _
  · intro hall
    have hk := inv.hk
    by_cases hlt : k < (wire cs sid ppid msgs tsn0).length
    · exfalso
      have hmem : k ∈ [] ++ arr.map (·.val) := by
        simp only [List.nil_append, List.mem_map]
        exact ⟨⟨k, hlt⟩, hall ⟨k, hlt⟩, rfl⟩
      obtain ⟨_, hh⟩ := hseen k hmem
      cases hh with
      | inl h => omega
      | inr h =>
        obtain ⟨e, he, heq⟩ := h
        obtain ⟨j, hj, hjl, hje, _⟩ := inv.rq e he
        have : j = k := u32_off_inj tsn0 j k (by omega) (by omega) (hje.symm.trans heq)
        omega
    · omega

/-- **recv_prefix** (safety): for every workload `msgs` on an ordered channel, every initial TSN
(wrap-around included), every arrival history of its DATA chunks — arbitrary loss, duplication,
reordering, delay — the events delivered to the application on that channel are the events it
had before followed by a *prefix of the submitted messages*, bytes-exact: nothing inside the
prefix is lost, duplicated, reordered, truncated or altered. (Stream length `< 2^31` chunks: the
serial-number window.) -/
theorem recv_prefix (cs : List TxChan) (sid : UInt16) (ppid : UInt32) (hp : ppid.toNat ≠ dcPpidDcep)
    (tc : TxChan) (hf : findTx cs sid = some tc) (ho : tc.ordered = true) (hmp : 0 < tc.maxPayload)
    (msgs : List Bytes) (tsn0 : UInt32)
    (s0 : Rx) (dc : Chan) (hfind : findChan s0.pl.chans sid = some dc) (hord : dc.ordered = true) (hst : dc.state = 1)
    (hstr : getStream s0.pl.streams sid = ⟨tc.nextSsn, []⟩)
    (hcum : s0.cum = tsn0 - 1) (hrq : s0.rq = [])
    (hlen : (wire cs sid ppid msgs tsn0).length < 2147483648)
    (arr : List (Fin (wire cs sid ppid msgs tsn0).length)) :
    ∃ dc' j, findChan (recvAll _ s0 arr).pl.chans sid = some dc' ∧ j ≤ msgs.length ∧
      dc'.events = dc.events ++ (msgs.take j).map ChanEv.msg := by
  obtain ⟨k, _, hpl, _, _⟩ := tsn_layer cs sid ppid hp msgs tsn0 s0 hcum hrq hlen arr
  obtain ⟨dcF, hF, hFe⟩ := sendAll_run sid ppid hp msgs cs tc s0.pl dc tsn0 hf ho hmp hfind hord hst hstr
  obtain ⟨dck, hk1, hk2⟩ := plRun_mono ((wire cs sid ppid msgs tsn0).take k) s0.pl sid dc hfind
  have hsplit : plRun procDataP s0.pl (wire cs sid ppid msgs tsn0) =
      plRun procDataP (plRun procDataP s0.pl ((wire cs sid ppid msgs tsn0).take k))
        ((wire cs sid ppid msgs tsn0).drop k) := by
    rw [← plRun_append, List.take_append_drop]
  obtain ⟨dcF', hF1, hF2⟩ := plRun_mono ((wire cs sid ppid msgs tsn0).drop k) _ sid dck hk1
  have : dcF' = dcF := by
    have := hF1
    rw [← hsplit] at this
    exact Option.some.inj (this.symm.trans hF)
  subst this
  rw [hFe] at hF2
  obtain ⟨j, hj, hje⟩ := prefix_sandwich dc.events dck.events (msgs.map ChanEv.msg) hk2 hF2
  refine ⟨dck, j, by rw [hpl]; exact hk1, by simpa using hj, ?_⟩
  rw [hje, List.map_take]

/-- **recv_complete**: if every chunk of the stream arrives at least once (in any order, with any
duplication), everything submitted has been delivered, in order, exactly once. -/
theorem recv_complete (cs : List TxChan) (sid : UInt16) (ppid : UInt32) (hp : ppid.toNat ≠ dcPpidDcep)
    (tc : TxChan) (hf : findTx cs sid = some tc) (ho : tc.ordered = true) (hmp : 0 < tc.maxPayload)
    (msgs : List Bytes) (tsn0 : UInt32)
    (s0 : Rx) (dc : Chan) (hfind : findChan s0.pl.chans sid = some dc) (hord : dc.ordered = true) (hst : dc.state = 1)
    (hstr : getStream s0.pl.streams sid = ⟨tc.nextSsn, []⟩)
    (hcum : s0.cum = tsn0 - 1) (hrq : s0.rq = [])
    (hlen : (wire cs sid ppid msgs tsn0).length < 2147483648)
    (arr : List (Fin (wire cs sid ppid msgs tsn0).length))
    (hall : ∀ i : Fin (wire cs sid ppid msgs tsn0).length, i ∈ arr) :
    ∃ dc', findChan (recvAll _ s0 arr).pl.chans sid = some dc' ∧
      dc'.events = dc.events ++ msgs.map ChanEv.msg := by
  obtain ⟨k, _, hpl, _, hk⟩ := tsn_layer cs sid ppid hp msgs tsn0 s0 hcum hrq hlen arr
  obtain ⟨dcF, hF, hFe⟩ := sendAll_run sid ppid hp msgs cs tc s0.pl dc tsn0 hf ho hmp hfind hord hst hstr
  refine ⟨dcF, ?_, hFe⟩
  rw [hpl, hk hall, List.take_length]
  exact hF

/-- the cumulative TSN acknowledged after any history is `tsn0 − 1 + k` for the processed prefix
length `k` — it never runs ahead of what was delivered to the payload layer (the SACK's cumulative
field is this value, `createSack`). -/
theorem cum_is_processed_prefix (cs : List TxChan) (sid : UInt16) (ppid : UInt32) (hp : ppid.toNat ≠ dcPpidDcep)
    (msgs : List Bytes) (tsn0 : UInt32) (s0 : Rx) (hcum : s0.cum = tsn0 - 1) (hrq : s0.rq = [])
    (hlen : (wire cs sid ppid msgs tsn0).length < 2147483648)
    (arr : List (Fin (wire cs sid ppid msgs tsn0).length)) :
    ∃ k, k ≤ (wire cs sid ppid msgs tsn0).length ∧
      (createSack (recvAll _ s0 arr)).1.cum = tsn0 + UInt32.ofNat k - 1 ∧
      (recvAll _ s0 arr).pl = plRun procDataP s0.pl ((wire cs sid ppid msgs tsn0).take k) := by
  obtain ⟨k, hk, hpl, hc, _⟩ := tsn_layer cs sid ppid hp msgs tsn0 s0 hcum hrq hlen arr
  exact ⟨k, hk, hc, hpl⟩

/-! ### non-vacuity: a concrete workload across the TSN wrap, with loss, duplication, reordering -/

def exTx : List TxChan := [{ id := 1, ordered := true, maxPayload := 2 }]
def exRx : Rx := { cum := 0xFFFFFFFD, pl := { chans := [{ id := 1, ordered := true, state := 1 }] } }
def exMsgs : List Bytes := [[1, 2, 3], [], [4]]

example : (wire exTx 1 53 exMsgs 0xFFFFFFFE).map (·.tsn) = [0xFFFFFFFE, 0xFFFFFFFF, 0, 1] := by decide

example : findTx exTx 1 = some { id := 1, ordered := true, maxPayload := 2 } ∧
    findChan exRx.pl.chans 1 = some { id := 1, ordered := true, state := 1 } ∧
    getStream exRx.pl.streams 1 = ⟨0, []⟩ ∧ exRx.cum = (0xFFFFFFFE : UInt32) - 1 ∧ exRx.rq = [] := by decide

/-- chunks arrive as 2,2,0,3,1 : everything is delivered once, in order -/
example : ((findChan (recvAll (wire exTx 1 53 exMsgs 0xFFFFFFFE) exRx [⟨2, by decide⟩, ⟨2, by decide⟩,
    ⟨0, by decide⟩, ⟨3, by decide⟩, ⟨1, by decide⟩]).pl.chans 1).map (·.events)) =
    some [.msg [1, 2, 3], .msg [], .msg [4]] := by decide

/-- chunk 1 is lost: only a prefix (here: nothing) is delivered, later chunks are held -/
example : ((findChan (recvAll (wire exTx 1 53 exMsgs 0xFFFFFFFE) exRx [⟨3, by decide⟩, ⟨0, by decide⟩,
    ⟨2, by decide⟩]).pl.chans 1).map (·.events)) = some [] := by decide

end RtcModel.Theorems.C01
