/-
C01 — reliable ordered data channels deliver every message exactly once, in order.
Property theorems only; helper lemmas live in `RtcModel/Lemmas/Sctp*.lean`.

Reading used here (see DESIGN.md §C01 and NOTES/C01.md):
* the *workload* is any list of messages submitted with `send_data(sid, ·)` on an ordered channel
  (`sendAll` = repeated `send_data_raw`, then `transmit`'s TSN assignment, any initial TSN);
* an *arrival history* is any list of indices into the resulting DATA chunk stream: every pattern of
  loss (index absent), duplication (index repeated), reordering and delay;
* the receiver is `handle_data` + `process_data_payload` of the code, started in the state the
  handshake leaves it in (cumulative TSN = peer's initial TSN − 1, empty receive queue).
-/
import RtcModel.Lemmas.SctpFrag
import RtcModel.Lemmas.SctpEndpoint
import RtcModel.Lemmas.SctpGap
import RtcModel.Lemmas.SctpSend
import RtcModel.Lemmas.SctpStale

namespace RtcModel.Theorems.C01
open RtcModel.Sctp RtcModel.Generated

/-- generated-constant obligation: the duplicate test of `handle_data` and the dedup invariant
need the DATA value header to be the 12 bytes `process_data_payload` skips/reads -/
theorem const_data_header : sctpDataHdr = 12 ∧ sctpHandleDataMin = sctpDataHdr := by decide

/-- generated-constant obligation: data PPIDs are not the DCEP PPID (so user messages are never
routed to `handle_dcep`) -/
theorem const_ppids : dcPpidString ≠ dcPpidDcep ∧ dcPpidBinary ≠ dcPpidDcep := by decide

/-- generated-constant obligation: the numbers the receive / setup model writes as literals are the
ones in the source (duplicate test half-range, default peer window, State-Cookie and RE-CONFIG
parameter types, the 7/8 receive-queue fill at which the advertised window becomes 0, the DCEP
message types). A change of any of them in `sctp.rs` / `datachannel.rs` breaks this proof, which
is the signal to revisit `SctpRecv.lean` / `SctpAssoc.lean` / `SctpDcep.lean`. -/
theorem const_model_literals :
    sctpDupHalf = 2147483648 ∧ sctpDefaultPeerRwnd * 1024 = 262144 ∧ sctpCookieParam = 7 ∧
    sctpReconfigOutSsnReset = 13 ∧ sctpRwndGuardNum = 7 ∧ sctpRwndGuardDen = 8 ∧
    dcepTypeOpen = 3 ∧ dcepTypeAck = 2 ∧ ctShutdownComplete = 14 := by decide

/-- **frag_reassemble**: for every payload (the empty one included), every positive fragment
size, every stream/SSN and every initial TSN, the fragments `send_data_raw` produces, processed in
order by `process_data_payload` on an ordered channel whose stream expects that SSN, deliver
exactly the payload (one event), leave the reassembly buffer empty and advance the SSN by one. -/
theorem frag_reassemble (mps : Nat) (hmps : 0 < mps) (sid : UInt16) (ppid : UInt32) (ssn : UInt16)
    (m : Bytes) (pl : Pl) (dc : Chan) (t : UInt32)
    (hfind : findChan pl.chans sid = some dc) (hord : dc.ordered = true) (hst : dc.state = 1)
    (hstr : getStream pl.streams sid = ⟨ssn, []⟩) :
    let pl' := plRun procDataP pl (assignTsn t ((fragMsg mps 0 m).map (fragChunk sid ppid ssn)))
    findChan pl'.chans sid = some { dc with reasm := [], events := dc.events ++ [ChanEv.msg m] } ∧
    getStream pl'.streams sid = ⟨ssn + 1, []⟩ := by
  obtain ⟨pl', h1, h2, h3⟩ := msgRun mps hmps sid ppid ssn m pl dc t hfind hord hst hstr
  subst h1
  exact ⟨h2, h3⟩

example : (fragMsg 3 0 [1, 2, 3, 4, 5, 6, 7]).map (·.2) = [[1, 2, 3], [4, 5, 6], [7]] ∧
    (fragMsg 3 0 [1, 2, 3, 4, 5, 6, 7]).map (·.1) = [2, 0, 1] ∧ fragMsg 3 0 [] = [(3, [])] := by decide

/-! ### the workload on the wire -/

/-- DATA chunks of the workload `msgs` sent on channel `sid`, first TSN `tsn0` -/
def wire (cs : List TxChan) (sid : UInt16) (ppid : UInt32) (msgs : List Bytes) (tsn0 : UInt32) : List DChunk :=
  assignTsn tsn0 (sendAll cs sid ppid msgs).2

/-- the receiver after the arrival history `arr` (indices into the chunk stream) -/
def recvAll (chunks : List DChunk) (s0 : Rx) (arr : List (Fin chunks.length)) : Rx :=
  arr.foldl (fun s i => handleData s chunks[i]) s0

/-- the TSN-layer result for the model's `handle_data`: after any arrival history the payload
state is the one obtained by processing the first `k` chunks of the stream, in order, once -/
theorem tsn_layer (cs : List TxChan) (sid : UInt16) (ppid : UInt32) (hp : ppid.toNat ≠ dcPpidDcep)
    (msgs : List Bytes) (tsn0 : UInt32) (s0 : Rx) (hcum : s0.cum = tsn0 - 1) (hrq : s0.rq = [])
    (hlen : (wire cs sid ppid msgs tsn0).length < 2147483648)
    (arr : List (Fin (wire cs sid ppid msgs tsn0).length)) :
    ∃ k, k ≤ (wire cs sid ppid msgs tsn0).length ∧
      (recvAll _ s0 arr).pl = plRun procDataP s0.pl ((wire cs sid ppid msgs tsn0).take k) ∧
      (recvAll _ s0 arr).cum = tsn0 + UInt32.ofNat k - 1 ∧
      ((∀ i : Fin (wire cs sid ppid msgs tsn0).length, i ∈ arr) → k = (wire cs sid ppid msgs tsn0).length) := by
  have hppid : ∀ c ∈ wire cs sid ppid msgs tsn0, c.ppid.toNat ≠ dcPpidDcep := by
    intro c hc
    rw [assignTsn_ppid tsn0 _ ppid (sendAll_ppid sid ppid msgs cs) c hc]; exact hp
  have hok : ∀ pl c, c ∈ wire cs sid ppid msgs tsn0 → (procPayload pl c).2 = true := by
    intro pl c hc; rw [procPayload_data pl c (hppid c hc)]; rfl
  have hts : ∀ i (h : i < (wire cs sid ppid msgs tsn0).length),
      (wire cs sid ppid msgs tsn0)[i].tsn = tsn0 + UInt32.ofNat i := fun i h => assignTsn_tsn tsn0 _ i h
  have inv0 : Inv procPayload (wire cs sid ppid msgs tsn0) tsn0 s0.pl 0 s0 :=
    ⟨Nat.zero_le _, by rw [hcum, u32_add_zero], by simp, by rw [hrq]; intro e he; simp at he⟩
  obtain ⟨k, _, inv, hseen⟩ := handleData_fold procPayload _ tsn0 s0.pl hts hlen hok arr 0 s0 [] inv0
    (by intro i hi; simp at hi)
  refine ⟨k, inv.hk, ?_, inv.cum, ?_⟩
  · show (List.foldl (fun s i => handleDataWith procPayload s (wire cs sid ppid msgs tsn0)[i]) s0 arr).pl = _
    rw [inv.pl]
    exact plRun_data _ (fun c hc => hppid c (List.mem_of_mem_take hc)) _
  · intro hall
    have hk := inv.hk
    by_cases hlt : k < (wire cs sid ppid msgs tsn0).length
    · exfalso
      have hmem : k ∈ [] ++ arr.map (·.val) := by
        simp only [List.nil_append, List.mem_map]
        exact ⟨⟨k, hlt⟩, hall ⟨k, hlt⟩, rfl⟩
      obtain ⟨_, hh⟩ := hseen k hmem
      cases hh with
      | inl h => omega
      | inr h =>
        obtain ⟨e, he, heq⟩ := h
        obtain ⟨j, hj, hjl, hje, _⟩ := inv.rq e he
        have : j = k := u32_off_inj tsn0 j k (by omega) (by omega) (hje.symm.trans heq)
        omega
    · omega

-- (`procPayload_ok` was removed in round 3: in the model `procPayload` returns the literal `true`
-- (`procPayload_ok`, by construction since fix 549207d), so the statement said nothing about the
-- code; that the code's `process_data_payload` never returns `Err` rests on the rx replay.)

/-- **tsn_layer_any_stream** (round 2): the TSN layer for an *arbitrary* chunk stream — any mix of
channels, PPIDs, DCEP OPEN / ACK fragments, chunks for unknown streams, well-formed or not — with
consecutive TSNs from `tsn0`: after any arrival history (loss, duplication, reordering, delay) the
payload layer has processed exactly the first `k` chunks, in order, once; the cumulative TSN is
`tsn0 − 1 + k`; and `k` is the whole stream once every chunk has arrived. -/
theorem tsn_layer_any_stream (chunks : List DChunk) (tsn0 : UInt32)
    (hts : ∀ i (h : i < chunks.length), chunks[i].tsn = tsn0 + UInt32.ofNat i)
    (hlen : chunks.length < 2147483648) (s0 : Rx) (hcum : s0.cum = tsn0 - 1) (hrq : s0.rq = [])
    (arr : List (Fin chunks.length)) :
    ∃ k, k ≤ chunks.length ∧
      (arr.foldl (fun s i => handleData s chunks[i]) s0).pl = plRun procPayload s0.pl (chunks.take k) ∧
      (arr.foldl (fun s i => handleData s chunks[i]) s0).cum = tsn0 + UInt32.ofNat k - 1 ∧
      ((∀ i : Fin chunks.length, i ∈ arr) → k = chunks.length) := by
  have hok : ∀ pl c, c ∈ chunks → (procPayload pl c).2 = true := fun pl c _ => procPayload_ok pl c
  have inv0 : Inv procPayload chunks tsn0 s0.pl 0 s0 :=
    ⟨Nat.zero_le _, by rw [hcum, u32_add_zero], by simp, by rw [hrq]; intro e he; simp at he⟩
  obtain ⟨k, _, inv, hseen⟩ := handleData_fold procPayload _ tsn0 s0.pl hts hlen hok arr 0 s0 [] inv0
    (by intro i hi; simp at hi)
  refine ⟨k, inv.hk, inv.pl, inv.cum, ?_⟩
  intro hall
  have hk := inv.hk
  by_cases hlt : k < chunks.length
  · exfalso
    have hmem : k ∈ [] ++ arr.map (·.val) := by
      simp only [List.nil_append, List.mem_map]
      exact ⟨⟨k, hlt⟩, hall ⟨k, hlt⟩, rfl⟩
    obtain ⟨_, hh⟩ := hseen k hmem
    cases hh with
    | inl h => omega
    | inr h =>
      obtain ⟨e, he, heq⟩ := h
      obtain ⟨j, hj, hjl, hje, _⟩ := inv.rq e he
      have : j = k := u32_off_inj tsn0 j k (by omega) (by omega) (hje.symm.trans heq)
      omega
  · omega

/-- **recv_prefix** (safety): for every workload `msgs` on an ordered channel, every initial TSN
(wrap-around included), every arrival history of its DATA chunks — arbitrary loss, duplication,
reordering, delay — the events delivered to the application on that channel are the events it
had before followed by a *prefix of the submitted messages*, bytes-exact: nothing inside the
prefix is lost, duplicated, reordered, truncated or altered. (Stream length `< 2^31` chunks: the
serial-number window.) -/
theorem recv_prefix (cs : List TxChan) (sid : UInt16) (ppid : UInt32) (hp : ppid.toNat ≠ dcPpidDcep)
    (tc : TxChan) (hf : findTx cs sid = some tc) (ho : tc.ordered = true) (hmp : 0 < tc.maxPayload)
    (msgs : List Bytes) (tsn0 : UInt32)
    (s0 : Rx) (dc : Chan) (hfind : findChan s0.pl.chans sid = some dc) (hord : dc.ordered = true) (hst : dc.state = 1)
    (hstr : getStream s0.pl.streams sid = ⟨tc.nextSsn, []⟩)
    (hcum : s0.cum = tsn0 - 1) (hrq : s0.rq = [])
    (hlen : (wire cs sid ppid msgs tsn0).length < 2147483648)
    (arr : List (Fin (wire cs sid ppid msgs tsn0).length)) :
    ∃ dc' j, findChan (recvAll _ s0 arr).pl.chans sid = some dc' ∧ j ≤ msgs.length ∧
      dc'.events = dc.events ++ (msgs.take j).map ChanEv.msg := by
  obtain ⟨k, _, hpl, _, _⟩ := tsn_layer cs sid ppid hp msgs tsn0 s0 hcum hrq hlen arr
  obtain ⟨dcF, hF, hFe⟩ := sendAll_run sid ppid hp msgs cs tc s0.pl dc tsn0 hf ho hmp hfind hord hst hstr
  obtain ⟨dck, hk1, hk2⟩ := plRun_mono ((wire cs sid ppid msgs tsn0).take k) s0.pl sid dc hfind
  have hsplit : plRun procDataP s0.pl (wire cs sid ppid msgs tsn0) =
      plRun procDataP (plRun procDataP s0.pl ((wire cs sid ppid msgs tsn0).take k))
        ((wire cs sid ppid msgs tsn0).drop k) := by
    rw [← plRun_append, List.take_append_drop]
  obtain ⟨dcF', hF1, hF2⟩ := plRun_mono ((wire cs sid ppid msgs tsn0).drop k) _ sid dck hk1
  have : dcF' = dcF := by
    have := hF1
    rw [← hsplit] at this
    exact Option.some.inj (this.symm.trans hF)
  subst this
  rw [hFe] at hF2
  obtain ⟨j, hj, hje⟩ := prefix_sandwich dc.events dck.events (msgs.map ChanEv.msg) hk2 hF2
  refine ⟨dck, j, by rw [hpl]; exact hk1, by simpa using hj, ?_⟩
  rw [hje, List.map_take]

/-- **recv_complete**: if every chunk of the stream arrives at least once (in any order, with any
duplication), everything submitted has been delivered, in order, exactly once. -/
theorem recv_complete (cs : List TxChan) (sid : UInt16) (ppid : UInt32) (hp : ppid.toNat ≠ dcPpidDcep)
    (tc : TxChan) (hf : findTx cs sid = some tc) (ho : tc.ordered = true) (hmp : 0 < tc.maxPayload)
    (msgs : List Bytes) (tsn0 : UInt32)
    (s0 : Rx) (dc : Chan) (hfind : findChan s0.pl.chans sid = some dc) (hord : dc.ordered = true) (hst : dc.state = 1)
    (hstr : getStream s0.pl.streams sid = ⟨tc.nextSsn, []⟩)
    (hcum : s0.cum = tsn0 - 1) (hrq : s0.rq = [])
    (hlen : (wire cs sid ppid msgs tsn0).length < 2147483648)
    (arr : List (Fin (wire cs sid ppid msgs tsn0).length))
    (hall : ∀ i : Fin (wire cs sid ppid msgs tsn0).length, i ∈ arr) :
    ∃ dc', findChan (recvAll _ s0 arr).pl.chans sid = some dc' ∧
      dc'.events = dc.events ++ msgs.map ChanEv.msg := by
  obtain ⟨k, _, hpl, _, hk⟩ := tsn_layer cs sid ppid hp msgs tsn0 s0 hcum hrq hlen arr
  obtain ⟨dcF, hF, hFe⟩ := sendAll_run sid ppid hp msgs cs tc s0.pl dc tsn0 hf ho hmp hfind hord hst hstr
  refine ⟨dcF, ?_, hFe⟩
  rw [hpl, hk hall, List.take_length]
  exact hF

/-- the cumulative TSN acknowledged after any history is `tsn0 − 1 + k` for the processed prefix
length `k` — it never runs ahead of what was delivered to the payload layer (the SACK's cumulative
field is this value, `createSack`). -/
theorem cum_is_processed_prefix (cs : List TxChan) (sid : UInt16) (ppid : UInt32) (hp : ppid.toNat ≠ dcPpidDcep)
    (msgs : List Bytes) (tsn0 : UInt32) (s0 : Rx) (hcum : s0.cum = tsn0 - 1) (hrq : s0.rq = [])
    (hlen : (wire cs sid ppid msgs tsn0).length < 2147483648)
    (arr : List (Fin (wire cs sid ppid msgs tsn0).length)) :
    ∃ k, k ≤ (wire cs sid ppid msgs tsn0).length ∧
      (createSack (recvAll _ s0 arr)).1.cum = tsn0 + UInt32.ofNat k - 1 ∧
      (recvAll _ s0 arr).pl = plRun procDataP s0.pl ((wire cs sid ppid msgs tsn0).take k) := by
  obtain ⟨k, hk, hpl, hc, _⟩ := tsn_layer cs sid ppid hp msgs tsn0 s0 hcum hrq hlen arr
  exact ⟨k, hk, hc, hpl⟩

/-! ### acknowledgements -/

/-- **gap_blocks_sound**: every TSN a gap-ack block of `build_gap_ack_blocks_from_map` names
(`cum + o` for an offset `o` inside the block) is a TSN the receiver holds in its receive queue —
for every queue content, every cumulative TSN, wrap-around included. -/
theorem gap_blocks_sound (held : List UInt32) (cum : UInt32) :
    ∀ b ∈ gapBlocks held cum, ∀ o : Nat, b.1.toNat ≤ o → o ≤ b.2.toNat → cum + UInt32.ofNat o ∈ held := by
  intro b hb o h1 h2
  exact (mem_sortKeys _ _).mp (gapBlocksSorted_good (sortKeys held) cum b hb o h1 h2)

example : gapBlocks [0xFFFFFFFF, 1, 0, 5] 0xFFFFFFFD = [(3, 4), (8, 8), (2, 2)] := by decide

/-- **sack_sound**: `apply_sack_to_sent_queue` removes a record from the sent queue only if the
SACK's cumulative TSN covers its TSN (serially) — for every queue, SACK and time. -/
theorem sack_sound (q : List SRec) (cum : UInt32) (gaps : List (UInt16 × UInt16)) (now : Nat) (cm : Bool) (mx : Nat) :
    ∀ r ∈ q, r.tsn ∉ (applySack q cum gaps now cm mx).1.map (·.tsn) → i32NonPos (r.tsn - cum) = true := by
  intro r hr hgone
  by_cases hlate : lateSack q cum gaps = true
  · simp only [applySack, hlate, if_true] at hgone
    exact absurd (List.mem_map_of_mem hr) hgone
  · have hl : lateSack q cum gaps = false := by simpa using hlate
    simp only [applySack, hl, Bool.false_eq_true, if_false] at hgone
    have h2 : ∀ (gs : List (UInt16 × UInt16)) (st : List SRec × SackOutcome),
        (gs.foldl (gapBlockApply now cum) st).1.map (·.tsn) = st.1.map (·.tsn) := by
      intro gs
      induction gs with
      | nil => intro st; rfl
      | cons g rest ih => intro st; simp only [List.foldl_cons]; rw [ih]; exact gapBlockApply_tsns now cum g st
    rw [missingPass_tsns, h2] at hgone
    cases hc : i32NonPos (r.tsn - cum) with
    | true => rfl
    | false =>
      exfalso
      apply hgone
      apply List.mem_map_of_mem
      exact List.mem_filter.mpr ⟨hr, by simp [hc]⟩

/-- **no_loss_e2e**: composed with the receiver invariant — if the receiver is in the state reached
after any arrival history (cumulative TSN `tsn0 − 1 + k`, payload layer fed exactly the first `k`
chunks) and the sender applies the SACK built from that state, then a record for chunk `i` of the
stream leaves the sent queue only if the receiver has processed chunk `i` (`i < k`). -/
theorem no_loss_e2e (proc : Proc) (chunks : List DChunk) (tsn0 : UInt32) (pl0 : Pl) (k : Nat) (s : Rx)
    (inv : Inv proc chunks tsn0 pl0 k s) (hlen : chunks.length < 2147483648)
    (q : List SRec) (now : Nat) (cm : Bool) (mx : Nat) (r : SRec) (hr : r ∈ q)
    (i : Nat) (hi : i < chunks.length) (htsn : r.tsn = tsn0 + UInt32.ofNat i)
    (hgone : r.tsn ∉ (applySack q (createSack s).1.cum (createSack s).1.gaps now cm mx).1.map (·.tsn)) :
    i < k := by
  have hcov := sack_sound q _ _ now cm mx r hr hgone
  have hcum : (createSack s).1.cum = tsn0 + UInt32.ofNat k - 1 := by
    simp [createSack, inv.cum]
  rw [hcum, htsn] at hcov
  have hk := inv.hk
  have hd := diff_toNat tsn0 i k (by omega) (by omega)
  cases Nat.lt_or_ge i k with
  | inl h => exact h
  | inr h =>
    exfalso
    have hpos : i32Pos (tsn0 + UInt32.ofNat i - (tsn0 + UInt32.ofNat k - 1)) = true := by
      have hn : (tsn0 + UInt32.ofNat i - (tsn0 + UInt32.ofNat k - 1)).toNat = i + 1 - k := by rw [hd]; omega
      simp only [i32Pos, Bool.and_eq_true, bne_iff_ne, ne_eq, decide_eq_true_eq]
      refine ⟨fun h0 => ?_, UInt32.lt_iff_toNat_lt.mpr ?_⟩
      · have := (u32_eq_zero _).mp h0; omega
      · rw [hn]; show _ < 2147483648; omega
    simp [i32NonPos, hpos] at hcov

/-- **stale_sack_frees_only_held**: *whenever* it reaches the sender — at once, or overtaken by any
number of newer SACKs and after any further arrivals `later` at the receiver — a SACK built from a
receiver state reached by some arrival history makes `apply_sack_to_sent_queue` drop a record from
the sent queue, or mark it `acked` (payload freed, never retransmitted again), only if the
receiver has processed that chunk or still holds it in its receive queue. `q` is any sent queue
(whatever earlier SACKs did to it); the only premise on it is that the record in question was not
already marked. The gap-block offsets are applied relative to the SACK's own cumulative TSN — a
sender that re-based them on a newer cumulative TSN would falsify this (the `hsack` stream runs the
real `handle_sack` on such histories with this statement as oracle). -/
theorem stale_sack_frees_only_held (proc : Proc) (chunks : List DChunk) (tsn0 : UInt32) (pl0 : Pl)
    (hts : ∀ i (h : i < chunks.length), chunks[i].tsn = tsn0 + UInt32.ofNat i)
    (hlen : chunks.length < 2147483648) (hok : ∀ pl c, c ∈ chunks → (proc pl c).2 = true)
    (k : Nat) (s : Rx) (inv : Inv proc chunks tsn0 pl0 k s) (later : List (Fin chunks.length))
    (q : List SRec) (now : Nat) (cm : Bool) (mx : Nat)
    (i : Nat) (hi : i < chunks.length) (hin : ∃ r ∈ q, r.tsn = tsn0 + UInt32.ofNat i)
    (hun : ∀ r ∈ q, r.tsn = tsn0 + UInt32.ofNat i → r.acked = false)
    (hfreed : (tsn0 + UInt32.ofNat i) ∉ (applySack q (createSack s).1.cum (createSack s).1.gaps now cm mx).1.map (·.tsn) ∨
      ∃ x ∈ (applySack q (createSack s).1.cum (createSack s).1.gaps now cm mx).1,
        x.tsn = tsn0 + UInt32.ofNat i ∧ x.acked = true) :
    ∃ k', Inv proc chunks tsn0 pl0 k' (later.foldl (fun s j => handleDataWith proc s chunks[j]) s) ∧
      (i < k' ∨ ∃ e ∈ (later.foldl (fun s j => handleDataWith proc s chunks[j]) s).rq, e.1 = tsn0 + UInt32.ofNat i) := by
  -- at the time the SACK was built the receiver had processed the chunk or held it
  have hseen : Seen chunks.length tsn0 [i] k s := by
    intro j hj
    have : j = i := by simpa using hj
    subst this
    refine ⟨hi, ?_⟩
    cases hfreed with
    | inl hgone =>
      obtain ⟨r, hr, htsn⟩ := hin
      left
      exact no_loss_e2e proc chunks tsn0 pl0 k s inv hlen q now cm mx r hr j hi htsn (by rw [htsn]; exact hgone)
    | inr hack =>
      obtain ⟨x, hx, hxt, hxa⟩ := hack
      cases applySack_acked_named q _ _ now cm mx x hx hxa with
      | inl h =>
        obtain ⟨r, hr, h1, h2⟩ := h
        have := hun r hr (h1.trans hxt)
        rw [this] at h2; cases h2
      | inr h =>
        obtain ⟨g, hg, hsel⟩ := h
        right
        have hheld : x.tsn ∈ s.rq.map (·.1) := by
          have hg' : g ∈ gapBlocks (s.rq.map (·.1)) s.cum := by simpa [createSack] using hg
          have hsel' : selects s.cum g x.tsn := by simpa [createSack] using hsel
          exact gapBlocks_sel _ _ g hg' _ hsel'
        obtain ⟨e, he, heq⟩ := List.mem_map.mp hheld
        exact ⟨e, he, heq.trans hxt⟩
  obtain ⟨k', _, inv', hs'⟩ := handleData_fold proc chunks tsn0 pl0 hts hlen hok later k s [i] inv hseen
  exact ⟨k', inv', (hs' i (by simp)).2⟩

/-! ### liveness (partial: abstract retransmission rounds, no clock) -/

/-- **t3_round_progress_partial**: one T3 round on a reliable channel makes progress. If the oldest
record of the sent queue is unacknowledged and reliable then (a) the T3 marking of `handle_timeout`
marks it for retransmission, (b) the next `transmit()` puts it on the wire whatever the window, and
(c) once a SACK whose cumulative TSN covers it is applied (and is not discarded as late) the sent
queue is strictly shorter. Partial: the bound in seconds depends on RTO arithmetic and timers,
which are outside the model. -/
theorem t3_round_progress_partial (r0 : SRec) (rest : List SRec) (now mx flight : Nat)
    (hun : r0.acked = false) (hab : r0.abandoned = false) (hrel : r0.maxRetransmits = none ∧ r0.hasExpiry = false) :
    (∃ r1 rest1, t3Mark now mx (r0 :: rest) 0 = r1 :: rest1 ∧ r1.tsn = r0.tsn ∧ r1.needsRetransmit = true ∧
      TxItem.rexmit r0.tsn r1.len ∈ (rexmitPhase (t3Mark now mx (r0 :: rest) 0) flight now).2.2) ∧
    (∀ cum gaps cm, i32NonPos (r0.tsn - cum) = true → lateSack (r0 :: rest) cum gaps = false →
      (applySack (r0 :: rest) cum gaps now cm mx).1.length < (r0 :: rest).length) := by
  constructor
  · refine ⟨{ r0 with inFlight := false, needsRetransmit := true, transmitCount := r0.transmitCount + 1, sentMs := now },
      t3Mark now mx rest 1, ?_, rfl, rfl, ?_⟩
    · simp [t3Mark, hun, hab, hrel.1, hrel.2]
    · simp [t3Mark, hun, hab, hrel.1, hrel.2, rexmitPhase]
  · intro cum gaps cm hcov hlate
    simp only [applySack, hlate, Bool.false_eq_true, if_false]
    have h2 : ∀ (gs : List (UInt16 × UInt16)) (st : List SRec × SackOutcome),
        (gs.foldl (gapBlockApply now cum) st).1.map (·.tsn) = st.1.map (·.tsn) := by
      intro gs
      induction gs with
      | nil => intro st; rfl
      | cons g rest ih => intro st; simp only [List.foldl_cons]; rw [ih]; exact gapBlockApply_tsns now cum g st
    have hlen := congrArg List.length (missingPass_tsns now cm mx (maxReportedOf cum gaps)
      (gaps.foldl (gapBlockApply now cum) ((r0 :: rest).filter (fun r => !i32NonPos (r.tsn - cum)),
        ((r0 :: rest).filter (fun r => i32NonPos (r.tsn - cum))).foldl (cumAckRec now) { maxReported := maxReportedOf cum gaps })).1
      (gaps.foldl (gapBlockApply now cum) ((r0 :: rest).filter (fun r => !i32NonPos (r.tsn - cum)),
        ((r0 :: rest).filter (fun r => i32NonPos (r.tsn - cum))).foldl (cumAckRec now) { maxReported := maxReportedOf cum gaps })).2)
    have hlen2 := congrArg List.length (h2 gaps ((r0 :: rest).filter (fun r => !i32NonPos (r.tsn - cum)),
        ((r0 :: rest).filter (fun r => i32NonPos (r.tsn - cum))).foldl (cumAckRec now) { maxReported := maxReportedOf cum gaps }))
    simp only [List.length_map] at hlen hlen2
    rw [hlen, hlen2]
    apply List.length_filter_lt_length_iff_exists.mpr
    exact ⟨r0, by simp, by simp [hcov]⟩

/-- one retransmission round: the T3 marking, then the SACK the peer answers with -/
structure Round where
  cum  : UInt32
  gaps : List (UInt16 × UInt16) := []
  now  : Nat := 0
  cm   : Bool := true

def roundStep (mx : Nat) (q : List SRec) (r : Round) : List SRec :=
  (applySack (t3Mark r.now mx q 0) r.cum r.gaps r.now r.cm mx).1

/-- "the network delivers reliably from now on": in every round the retransmission of the first
record of the sent queue arrives and so does the SACK that acknowledges it (it covers that record
and is not discarded by the late-SACK filter); anything else may still be lost -/
def CoveringRun (mx : Nat) : List SRec → List Round → Prop
  | _, [] => True
  | q, r :: rest =>
    (match t3Mark r.now mx q 0 with
     | [] => True
     | r0 :: tl => i32NonPos (r0.tsn - r.cum) = true ∧ lateSack (r0 :: tl) r.cum r.gaps = false) ∧
    CoveringRun mx (roundStep mx q r) rest

/-- **t3_rounds_drain** (PARTIAL — liveness on an abstract round model; no clock; the hypothesis
`CoveringRun` *assumes* that each round's retransmission is delivered and SACKed — nothing here links a
round to `transmit`, the receiver, the RTO, its back-off or flow control; the content is "n covering
SACKs remove n records"): whatever the sent queue
holds — any number of records, any flags, any TSNs — once the network delivers reliably in the
sense of `CoveringRun`, as many retransmission rounds as there are records empty it: every record
is acknowledged and removed, none is retransmitted for ever. (`t3_round_progress_partial` says that
the first record is indeed retransmitted in each round when it is reliable and unacknowledged; that
the receiver then delivers is `recv_complete`.) What stays outside: real time (RTO back-off, the
T3 minimum-interval guard) and heartbeat failure closing the association. -/
theorem t3_rounds_drain (mx : Nat) : ∀ (rounds : List Round) (q : List SRec),
    CoveringRun mx q rounds → q.length ≤ rounds.length → rounds.foldl (roundStep mx) q = [] := by
  intro rounds
  induction rounds with
  | nil => intro q _ h; exact List.eq_nil_of_length_eq_zero (by simpa using h)
  | cons r rest ih =>
    intro q hc hl
    simp only [List.foldl_cons]
    obtain ⟨h1, h2⟩ := hc
    apply ih _ h2
    have hml := t3Mark_length r.now mx q 0
    unfold roundStep
    cases hm : t3Mark r.now mx q 0 with
    | nil =>
      have : (applySack [] r.cum r.gaps r.now r.cm mx).1 = [] := applySack_nil _ _ _ _ _
      rw [this]; simp
    | cons r0 tl =>
      rw [hm] at h1 hml
      have := covered_head_leaves r0 tl r.cum r.gaps r.now r.cm mx h1.1 h1.2
      simp only [List.length_cons] at this hml hl ⊢
      omega

/-! ### the whole endpoint: setup chunks, SACKs and heartbeats mixed in -/

/-- **dup_setup_ignored**: on an established association a duplicate of the INIT it was set up with,
any INIT-ACK, any COOKIE-ECHO and any COOKIE-ACK leave the endpoint exactly as it was (no re-seeded
cumulative TSN / next TSN / tags, no second `Open`). -/
theorem dup_setup_ignored (e : Ep) (c : RawChunk) (he : Established e) :
    (c.ty.toNat = ctInit → (∀ t a i p, parseInit c.value = some (t, a, i, p) → t = e.remoteTag) → handleChunk e c = (e, true)) ∧
    (c.ty.toNat = ctInitAck → handleChunk e c = (e, true)) ∧
    (c.ty.toNat = ctCookieEcho → handleChunk e c = (e, true)) ∧
    (c.ty.toNat = ctCookieAck → handleChunk e c = (e, true)) :=
  ⟨fun h1 h2 => dup_init_ignored e c he h1 h2, init_ack_ignored e c he, cookie_echo_ignored e c he, cookie_ack_ignored e c he⟩

/-- **endpoint_prefix_full**: the full statement over the endpoint model, setup chunks included.
For every workload on an ordered channel, every initial TSN and every history in which the DATA
chunks of the stream (lost, duplicated, reordered, delayed at will) are interleaved with duplicated
or late INIT (of this association) / INIT-ACK / COOKIE-ECHO / COOKIE-ACK, SACK and HEARTBEAT chunks,
an established endpoint delivers a bytes-exact prefix of the workload. -/
theorem endpoint_prefix_full (cs : List TxChan) (sid : UInt16) (ppid : UInt32) (hp : ppid.toNat ≠ dcPpidDcep)
    (tc : TxChan) (hf : findTx cs sid = some tc) (ho : tc.ordered = true) (hmp : 0 < tc.maxPayload)
    (msgs : List Bytes) (tsn0 : UInt32)
    (e0 : Ep) (he : Established e0) (dc : Chan) (hfind : findChan e0.rx.pl.chans sid = some dc)
    (hord : dc.ordered = true) (hst : dc.state = 1)
    (hstr : getStream e0.rx.pl.streams sid = ⟨tc.nextSsn, []⟩)
    (hcum : e0.rx.cum = tsn0 - 1) (hrq : e0.rx.rq = [])
    (hlen : (wire cs sid ppid msgs tsn0).length < 2147483648)
    (arr : List (Arrival (wire cs sid ppid msgs tsn0).length))
    (hben : ∀ a ∈ arr, ∀ c, a = Arrival.ctl c → benign e0.remoteTag c = true) :
    ∃ dc' j, findChan (arr.foldl (epArrive (wire cs sid ppid msgs tsn0)) e0).rx.pl.chans sid = some dc' ∧
      j ≤ msgs.length ∧ dc'.events = dc.events ++ (msgs.take j).map ChanEv.msg ∧
      Established (arr.foldl (epArrive (wire cs sid ppid msgs tsn0)) e0) := by
  have hppid : ∀ c ∈ wire cs sid ppid msgs tsn0, c.ppid.toNat ≠ dcPpidDcep := by
    intro c hc
    rw [assignTsn_ppid tsn0 _ ppid (sendAll_ppid sid ppid msgs cs) c hc]; exact hp
  have hok : ∀ pl c, c ∈ wire cs sid ppid msgs tsn0 → (procPayload pl c).2 = true := by
    intro pl c hc; rw [procPayload_data pl c (hppid c hc)]; rfl
  have hts : ∀ i (h : i < (wire cs sid ppid msgs tsn0).length),
      (wire cs sid ppid msgs tsn0)[i].tsn = tsn0 + UInt32.ofNat i := fun i h => assignTsn_tsn tsn0 _ i h
  have inv0 : Inv procPayload (wire cs sid ppid msgs tsn0) tsn0 e0.rx.pl 0 e0.rx :=
    ⟨Nat.zero_le _, by rw [hcum, u32_add_zero], by simp, by rw [hrq]; intro x hx; simp at hx⟩
  obtain ⟨k, _, inv, hest⟩ := endpoint_fold _ tsn0 e0.rx.pl e0.remoteTag hts hlen hok arr hben 0 e0 he rfl inv0
  obtain ⟨dc', j, h1, h2, h3⟩ := take_prefix_events cs sid ppid hp tc hf ho hmp msgs tsn0 e0.rx.pl dc hfind hord hst hstr k
  refine ⟨dc', j, ?_, h2, h3, hest⟩
  rw [inv.pl, plRun_data _ (fun c hc => hppid c (List.mem_of_mem_take hc))]
  exact h1

/-! non-vacuity of `endpoint_prefix_full`: an established endpoint, and a history mixing the DATA
chunks (reordered, duplicated) with a duplicate INIT of this association, an INIT-ACK, a COOKIE-ECHO,
a COOKIE-ACK, a SACK and a HEARTBEAT -/

def exE0 : Ep :=
  { rx := { cum := 0xFFFFFFFD, pl := { chans := [{ id := 1, ordered := true, state := 1 }] } },
    state := .connected, localTag := 7, remoteTag := 9 }
def exDupInit : RawChunk := { ty := 1, flags := 0, value := [0, 0, 0, 9, 0, 2, 0, 0, 0, 10, 0, 10, 0xFF, 0xFF, 0xFF, 0xFE] }
def exCtl (t : UInt8) : RawChunk := { ty := t, flags := 0, value := [1, 2, 3, 4, 5, 6, 7, 8, 9, 10, 11, 12] }
def exWire : List DChunk := wire [{ id := 1, ordered := true, maxPayload := 2 }] 1 53 [[1, 2, 3], [], [4]] 0xFFFFFFFE
def exArr : List (Arrival exWire.length) :=
  [.data ⟨2, by decide⟩, .ctl exDupInit, .data ⟨0, by decide⟩, .ctl (exCtl 2), .ctl (exCtl 10), .data ⟨2, by decide⟩,
   .ctl (exCtl 11), .ctl (exCtl 3), .data ⟨1, by decide⟩, .ctl (exCtl 4), .data ⟨3, by decide⟩]

example : Established exE0 ∧ benign exE0.remoteTag exDupInit = true ∧
    (∀ t ∈ [2, 10, 11, 3, 4, 5], benign exE0.remoteTag (exCtl t) = true) ∧
    (exArr.foldl (epArrive exWire) exE0).rx.pl.chans.map (·.events) = [[.msg [1, 2, 3], .msg [], .msg [4]]] := by
  refine ⟨⟨rfl, rfl, by decide⟩, by decide, by decide, by decide⟩

/-! ### non-vacuity: a concrete workload across the TSN wrap, with loss, duplication, reordering -/

def exTx : List TxChan := [{ id := 1, ordered := true, maxPayload := 2 }]
def exRx : Rx := { cum := 0xFFFFFFFD, pl := { chans := [{ id := 1, ordered := true, state := 1 }] } }
def exMsgs : List Bytes := [[1, 2, 3], [], [4]]

example : (wire exTx 1 53 exMsgs 0xFFFFFFFE).map (·.tsn) = [0xFFFFFFFE, 0xFFFFFFFF, 0, 1] := by decide

example : findTx exTx 1 = some { id := 1, ordered := true, maxPayload := 2 } ∧
    findChan exRx.pl.chans 1 = some { id := 1, ordered := true, state := 1 } ∧
    getStream exRx.pl.streams 1 = ⟨0, []⟩ ∧ exRx.cum = (0xFFFFFFFE : UInt32) - 1 ∧ exRx.rq = [] := by decide

/-- chunks arrive as 2,2,0,3,1 : everything is delivered once, in order -/
example : ((findChan (recvAll (wire exTx 1 53 exMsgs 0xFFFFFFFE) exRx [⟨2, by decide⟩, ⟨2, by decide⟩,
    ⟨0, by decide⟩, ⟨3, by decide⟩, ⟨1, by decide⟩]).pl.chans 1).map (·.events)) =
    some [.msg [1, 2, 3], .msg [], .msg [4]] := by decide

/-- chunk 1 is lost: only a prefix (here: nothing) is delivered, later chunks are held -/
example : ((findChan (recvAll (wire exTx 1 53 exMsgs 0xFFFFFFFE) exRx [⟨3, by decide⟩, ⟨0, by decide⟩,
    ⟨2, by decide⟩]).pl.chans 1).map (·.events)) = some [] := by decide

end RtcModel.Theorems.C01
