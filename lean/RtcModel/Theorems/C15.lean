/-
C15 — RTP and RTCP encode/decode are mutually inverse and standards-conformant.
Property theorems only; helper lemmas live in `RtcModel/Lemmas/C15*.lean`.

Reading of the property used here (see NOTES/C15.md):
* a *logical packet* is a value of the Rust types (`RtpPacket`, `RtcpPacket`); `String`s are their UTF-8 bytes;
  the "field ranges" of the property are the explicit, decidable `WF` predicates (no fixed-point conditions);
* **inverse laws** are proved in both directions (`*_parse_marshal`, `*_semantic_stable`, `rtp_marshal_parse`);
* **standards-conformant / independent implementation** is carried by `rfc_layout_*`: readers written from the RFC
  packet diagrams by absolute octet offsets (`RtcModel/C15Spec.lean`, independent of the model of the stack's
  parser) read every serialised packet as the packet that was sent — plus the three-way correspondence check
  (rustrtc / this model / webrtc-rs `rtp`+`rtcp`);
* what the marshaller does to values that do not fit the wire is stated exactly: errors are characterised by the
  lemmas `marshalPacket_ok_iff` / `marshalOne_ok_iff` (definitional for the model — their content is the
  correspondence — hence lemmas, not property theorems), lossy fields by `rtcp_marshal_canonical`;
* known defects are stated as witnesses: `rtp_marshal_into_masks_witness` (the unvalidated fast path),
  `is_rtcp_rtp_iff` (RFC 5761 payload-type collision).
-/
import RtcModel.Lemmas.C15Rtp
import RtcModel.Lemmas.C15Ext
import RtcModel.Lemmas.C15Rtcp
import RtcModel.Lemmas.C15NackBuf
import RtcModel.Lemmas.C15Utf8
import RtcModel.Lemmas.C15Apt
import RtcModel.Lemmas.C15Spec
import RtcModel.Lemmas.C15ParseDir
import RtcModel.Lemmas.C15RtcpStable
import RtcModel.Lemmas.C15RtxFlow

namespace RtcModel.Theorems.C15
open RtcModel.C15 RtcModel.Generated

/-! ### generated-constant obligation -/

/-- Every numeric constant of `src/rtp.rs`, `src/rtx.rs` and the NACK helpers that the models use is
regenerated from the source on each run; this single obligation pins the values the proofs below rely on
(RFC 3550 version and header size, CSRC / payload-type / count masks, IANA packet types and feedback
formats, RFC 8285 profiles and the id-15 stop, REMB and NACK field widths, the 24-bit loss clamp and wire mask,
the 24-bit TWCC reference-time mask (the models write `% 16777216`), the BYE cut,
cooldown and NACK-window constants). A changed constant makes it — and `Lemmas/C15Consts.lean` — stop
type-checking. -/
theorem const_values :
    c15RtpMinLen = 12 ∧ c15RtpVersion = 2 ∧ c15MaxCsrc = 15 ∧ c15PtMax = 127 ∧ c15PtMask = 127 ∧ c15CsrcMask = 15 ∧
    c15OneByteProfile = 0xBEDE ∧ c15TwoByteProfile = 0x1000 ∧ c15TwoByteMask = 0xFFF0 ∧ c15StopIdGet = 15 ∧ c15StopIdSet = 15 ∧
    c15ExtMaxData = 16 ∧ c15ExtIdLimit = 15 ∧
    c15RtcpSr = 200 ∧ c15RtcpRr = 201 ∧ c15RtcpSdes = 202 ∧ c15RtcpBye = 203 ∧ c15RtcpRtpfb = 205 ∧ c15RtcpPsfb = 206 ∧
    c15RtcpXr = 207 ∧ c15FmtNack = 1 ∧ c15FmtTwcc = 15 ∧ c15FmtPli = 1 ∧ c15FmtFir = 4 ∧ c15FmtApp = 15 ∧
    c15RtcpCountMask = 31 ∧ c15RtcpMaxCount = 31 ∧ c15LossClampBits = 23 ∧
    c15RembMantissaMax = 2 ^ 18 - 1 ∧ c15RembExpMask = 63 ∧ c15RembMaxSsrcs = 255 ∧ c15NackBlpSpan = 16 ∧ c15BlpBits = 16 ∧
    c15ByeMaxReason = 255 ∧ c15CooldownMs = 25 ∧ c15RecentFactor = 2 ∧ c15MaxReceiverNackGap = 128 ∧ c15PendingFactor = 2 ∧
    c15GapHalf = 2 ^ 15 ∧ c15IsRtcpLo = 192 ∧ c15IsRtcpHi = 208 ∧ c15RtxPtLo = 96 ∧ c15RtxPtHi = 127 ∧
    c15TwccRefMask + 1 = 2 ^ 24 ∧ c15LossWireMask + 1 = 2 ^ 24 := by decide

/-! ### RTP -/

/-- **rtp_parse_marshal**: every logical packet inside the wire ranges (7-bit PT, ≤ 15 CSRCs, extension
32-bit aligned and at most 65535 words; any payload, any padding length 0..255) serialises without error and
parsing the bytes returns exactly that packet. -/
theorem rtp_parse_marshal (p : Packet) (w : p.hdr.WF) :
    ∃ bs, marshalPacket p = .ok bs ∧ parsePacket bs = .ok p := by
  obtain ⟨h, payload, pad⟩ := p
  have w' : h.WF := w
  refine ⟨writeHeader h (pad != 0) ++ (payload ++ List.replicate pad.toNat pad),
    by simp [marshalPacket, validate_ok_of_wf w'], ?_⟩
  simp only [parsePacket, parseHeader_writeHeader h _ _ w']
  by_cases hz : pad = 0
  · subst hz; simp
  · have hne : (pad != 0) = true := by simp [hz]
    have hpos : 0 < pad.toNat := by
      rcases Nat.eq_zero_or_pos pad.toNat with h0 | h0
      · exact absurd (UInt8.toNat_inj.mp (by simpa using h0)) hz
      · exact h0
    have hlast : (payload ++ List.replicate pad.toNat pad).getLast? = some pad := by
      obtain ⟨k, hk⟩ : ∃ k, pad.toNat = k + 1 := ⟨pad.toNat - 1, by omega⟩
      rw [hk, List.replicate_succ']
      simp [← List.append_assoc]
    simp only [hne, if_true, hlast, List.length_append, List.length_replicate]
    rw [if_neg (by omega)]
    simp

example : Header.WF { Header.new 96 1000 42 7 with csrcs := [1, 2], ext := some ⟨0xBEDE, [0x10, 0xAA, 0, 0]⟩ } :=
  ⟨by decide, by decide, by intro e he; cases he; decide, by intro e he; cases he; decide⟩

/-- **rtp_semantic_stable**: for every byte string the parser accepts, serialising the parsed packet
succeeds and parses back to the same logical packet (`parse ∘ marshal ∘ parse = parse`). -/
theorem rtp_semantic_stable (bs : Bytes) (p : Packet) (hp : parsePacket bs = .ok p) :
    ∃ bs', marshalPacket p = .ok bs' ∧ parsePacket bs' = .ok p := by
  apply rtp_parse_marshal
  unfold parsePacket at hp
  split at hp
  · cases hp
  · next h padding body hh =>
    have w := parseHeader_wf hh
    split at hp
    · split at hp
      · cases hp
      · split at hp
        · cases hp
        · cases hp; exact w
    · cases hp; exact w

/-- **rtp_marshal_parse** (the inverse law in the other direction, for canonical wire encodings): if the
parser accepts `bs` and — in case the P bit is set — the padding count is non-zero and every padding byte
carries the count (the way this stack writes padding), then serialising the parsed packet reproduces
`bs` byte for byte. Everything else in the encoding (version, CSRC list, extension block of any profile,
payload) is already canonical because the format has no other freedom. -/
theorem rtp_marshal_parse (bs : Bytes) (p : Packet) (hp : parsePacket bs = .ok p)
    (hc : ∀ h body, parseHeader bs = .ok (h, true, body) →
      p.padLen ≠ 0 ∧ body.drop (body.length - p.padLen.toNat) = List.replicate p.padLen.toNat p.padLen) :
    marshalPacket p = .ok bs := by
  unfold parsePacket at hp
  split at hp
  · cases hp
  · next h padding body hh =>
    have w := parseHeader_wf hh
    have hb := parseHeader_inv hh
    cases padding with
    | false =>
      simp only [Bool.false_eq_true, if_false, Except.ok.injEq] at hp
      subst hp
      simp only [marshalPacket, validate_ok_of_wf w]
      rw [hb]; simp
    | true =>
      simp only [if_true] at hp
      split at hp
      · cases hp
      · next pl hlast =>
        split at hp
        · cases hp
        · next hle =>
          simp only [Except.ok.injEq] at hp
          subst hp
          obtain ⟨hne, hrep⟩ := hc h body hh
          simp only at hne hrep
          have hne' : (pl != 0) = true := by simp [hne]
          simp only [marshalPacket, validate_ok_of_wf w, hne']
          rw [hb, ← hrep, List.append_assoc, List.take_append_drop]

example : parsePacket [0xA0, 0x60, 0, 1, 0, 0, 0, 2, 0, 0, 0, 3, 0x55, 2, 2] =
    .ok ⟨Header.new 96 1 2 3, [0x55], 2⟩ ∧
    marshalPacket ⟨Header.new 96 1 2 3, [0x55], 2⟩ = .ok [0xA0, 0x60, 0, 1, 0, 0, 0, 2, 0, 0, 0, 3, 0x55, 2, 2] := by
  constructor <;> rfl

/-- **rfc_layout_rtp** (conformance, RFC 3550 §5.1 / §5.3.1): an INDEPENDENT reader that indexes the datagram by
the octet offsets of the RFC's packet diagram (`Rfc.readRtp`: V/P/X/CC, M/PT, sequence number @2, timestamp @4,
SSRC @8, CSRCs @12, extension header and data, payload, padding count in the last octet) reads every packet the
stack serialises as the packet that was sent. -/
theorem rfc_layout_rtp (p : Packet) (bs : Bytes) (h : marshalPacket p = .ok bs) : Rfc.readRtp bs = some p :=
  Rfc.rfc_rtp p ((marshalPacket_ok_iff p).mp ⟨bs, h⟩) bs h

/-- **rtp_marshal_into_wellformed** — the part of the relay fast path `RtpPacket::marshal_into` that holds: on every
header the wire can carry (`Header.WF`, in particular on every parsed packet) it writes exactly the bytes `marshal`
returns, so all theorems about `marshal` apply to it. -/
theorem rtp_marshal_into_wellformed (p : Packet) (w : p.hdr.WF) : marshalPacket p = .ok (marshalInto p) := by
  simp only [marshalPacket, validate_ok_of_wf w, marshalInto]

/-- **rtp_marshal_into_masks_witness** (known finding `codec:rtp:marshal_into-masks:*`): outside `Header.WF` the fast
path does NOT fail like `marshal` does — it emits a packet that parses to something else. Witness: payload type
200 goes out as payload type 72. -/
theorem rtp_marshal_into_masks_witness :
    ∃ p q : Packet, (∀ bs, marshalPacket p ≠ .ok bs) ∧ parsePacket (marshalInto p) = .ok q ∧ q.hdr.pt ≠ p.hdr.pt :=
  ⟨⟨Header.new 200 1 2 3, [0x55], 0⟩, ⟨Header.new 72 1 2 3, [0x55], 0⟩,
    (by intro bs h; cases h), (by rfl), (by decide)⟩

/-! ### RTX (RFC 4588) -/

/-- **rtx_unwrap_wrap**: wrapping a packet as RTX (any RTX SSRC / PT / sequence number) and unwrapping it
with the primary SSRC and PT restores sequence number, timestamp, marker, SSRC, PT and payload
(CSRCs, extension and padding are deliberately not carried by RTX). -/
theorem rtx_unwrap_wrap (p : Packet) (rtxSsrc : UInt32) (rtxPt : UInt8) (rtxSeq : UInt16) :
    unwrapRtx (wrapRtx p rtxSsrc rtxPt rtxSeq) p.hdr.ssrc p.hdr.pt =
      some { hdr := { Header.new p.hdr.pt p.hdr.seq p.hdr.ts p.hdr.ssrc with marker := p.hdr.marker },
             payload := p.payload, padLen := 0 } := by
  simp [unwrapRtx, wrapRtx, be16, Header.new]

/-- **rtx_production_restore** — the clause "unwrapping restores sequence number, timestamp, marker and payload"
on the PRODUCTION path: a stored packet that the NACK responder wraps (`wrap_rtx_packet` with the negotiated RTX
SSRC / payload type and any RTX sequence number) and that the receiver passes to `maybe_unwrap_rtx` comes out with
the original sequence number, timestamp, marker and payload; the payload type is the one the negotiated `apt` map
associates with the RTX payload type and the SSRC is the receiver's latched primary SSRC, WHATEVER that is (the
original's SSRC only if the latch holds it — `rtx_loop_restore`). -/
theorem rtx_production_restore (orig : Packet) (rtxSsrc : UInt32) (rtxPt primaryPt : UInt8) (rtxSeq : UInt16)
    (apt : List (UInt8 × UInt8)) (negotiated : Option UInt32) (latched : UInt32)
    (hapt : aptLookup apt rtxPt = some primaryPt) (hlatched : latched ≠ 0) :
    maybeUnwrap apt negotiated latched (wrapRtx orig rtxSsrc rtxPt rtxSeq) =
      some { hdr := { Header.new primaryPt orig.hdr.seq orig.hdr.ts latched with marker := orig.hdr.marker },
             payload := orig.payload, padLen := 0 } := by
  have h1 : (wrapRtx orig rtxSsrc rtxPt rtxSeq).hdr.pt = rtxPt := rfl
  simp only [maybeUnwrap, h1, hapt, Option.isNone_some, Bool.false_and, Bool.false_eq_true, if_false, hlatched]
  simp [unwrapRtx, wrapRtx, be16, Header.new]

/-- **rtx_loop_restore** — the receive loop end to end: once a primary media packet `first` (payload type not an RTX
type, not on the RTX SSRC) has gone through the loop — which latches its SSRC — a retransmission of ANY packet
`orig` of that stream, wrapped by the sender with any RTX SSRC / sequence number and an RTX payload type the `apt`
map associates with `orig`'s payload type, is delivered as `orig`: same sequence number, timestamp, marker, SSRC,
payload type and payload. No assumption on what the receiver had latched before. -/
theorem rtx_loop_restore (st : RxState) (first orig : Packet) (rtxSsrc : UInt32) (rtxPt : UInt8) (rtxSeq : UInt16)
    (hfirst : aptLookup st.apt first.hdr.pt = none) (hnot : st.rtxSsrc ≠ some first.hdr.ssrc)
    (hsame : orig.hdr.ssrc = first.hdr.ssrc) (hnz : first.hdr.ssrc ≠ 0)
    (hapt : aptLookup st.apt rtxPt = some orig.hdr.pt) :
    (st.step first).2 = some first ∧
    ((st.step first).1.step (wrapRtx orig rtxSsrc rtxPt rtxSeq)).2 =
      some { hdr := { Header.new orig.hdr.pt orig.hdr.seq orig.hdr.ts orig.hdr.ssrc with marker := orig.hdr.marker },
             payload := orig.payload, padLen := 0 } := by
  have hpass : maybeUnwrap st.apt st.rtxSsrc st.ssrc first = some first := by
    simp only [maybeUnwrap, hfirst, Option.isNone_none, Bool.true_and]
    have : (st.rtxSsrc == some first.hdr.ssrc) = false := by simpa using hnot
    simp [this]
  have h1 : st.step first = ({ st with ssrc := first.hdr.ssrc }, some first) := by
    simp only [RxState.step, hpass]
  rw [h1]
  refine ⟨rfl, ?_⟩
  simp only [RxState.step]
  rw [rtx_production_restore orig rtxSsrc rtxPt orig.hdr.pt rtxSeq st.apt st.rtxSsrc first.hdr.ssrc hapt hnz, hsame]

/-- **rtx_alloc_spec**: `allocate_rtx_payload_type` returns the smallest dynamic payload type 96..127
that is not in use, and `None` only when all 32 are taken. -/
theorem rtx_alloc_spec (used : List UInt8) :
    (∀ pt, allocRtxPt used = some pt → 96 ≤ pt.toNat ∧ pt.toNat ≤ 127 ∧ pt ∉ used ∧
        ∀ q, 96 ≤ q → q < pt.toNat → u8 q ∈ used) ∧
    (allocRtxPt used = none → ∀ q, 96 ≤ q → q ≤ 127 → u8 q ∈ used) := by
  have key : ∀ (fuel lo : Nat), lo + fuel ≤ 256 →
      (∀ pt, allocRtxPtFrom used lo fuel = some pt → lo ≤ pt.toNat ∧ pt.toNat < lo + fuel ∧ pt ∉ used ∧
          ∀ q, lo ≤ q → q < pt.toNat → u8 q ∈ used) ∧
      (allocRtxPtFrom used lo fuel = none → ∀ q, lo ≤ q → q < lo + fuel → u8 q ∈ used) := by
    intro fuel
    induction fuel with
    | zero => intro lo _; exact ⟨by intro pt h; simp [allocRtxPtFrom] at h, by intro _ q h1 h2; omega⟩
    | succ f ih =>
      intro lo hlo
      simp only [allocRtxPtFrom]
      by_cases hc : used.contains (u8 lo) = true
      · rw [if_pos hc]
        obtain ⟨h1, h2⟩ := ih (lo + 1) (by omega)
        have hmem : u8 lo ∈ used := by simpa using hc
        refine ⟨fun pt hpt => ?_, fun hn q hq1 hq2 => ?_⟩
        · obtain ⟨a, b, c, d⟩ := h1 pt hpt
          refine ⟨by omega, by omega, c, fun q hq1 hq2 => ?_⟩
          by_cases hql : q = lo
          · subst hql; exact hmem
          · exact d q (by omega) hq2
        · by_cases hql : q = lo
          · subst hql; exact hmem
          · exact h2 hn q (by omega) (by omega)
      · rw [if_neg hc]
        have hnm : u8 lo ∉ used := by simpa using hc
        refine ⟨fun pt hpt => ?_, fun hn => by cases hn⟩
        simp only [Option.some.injEq] at hpt
        subst hpt
        have : (u8 lo).toNat = lo := u8_toNat_lt (by omega)
        exact ⟨by omega, by omega, hnm, fun q hq1 hq2 => by omega⟩
  have hlo : c15RtxPtLo = 96 := c15RtxPtLo_val
  have hhi : c15RtxPtHi = 127 := c15RtxPtHi_val
  have := key (c15RtxPtHi + 1 - c15RtxPtLo) c15RtxPtLo (by omega)
  unfold allocRtxPt
  refine ⟨fun pt hpt => ?_, fun hn q h1 h2 => ?_⟩
  · obtain ⟨a, b, c, d⟩ := this.1 pt hpt
    exact ⟨by omega, by omega, c, fun q hq1 hq2 => d q (by omega) hq2⟩
  · exact this.2 hn q (by omega) (by omega)

/-- **rtx_append_read_back**: after `append_rtx_to_section(primary, rtx, clock)` on ANY media section that did not
already carry the `rtpmap:<rtx> rtx/<clock>` line, `extract_rtx_apt_map` associates the RTX payload type with the
primary one (the appended `fmtp:<rtx> apt=<primary>` line wins over whatever the section said before), and the RTX
payload type is among the formats. -/
theorem rtx_append_read_back (s : Section) (primary rtx : Fin 256) (clock : Nat)
    (hnew : (s.attrs.any fun a => a.1 == rtpmapKey && a.2 == some (decNat rtx.val ++ rtxSlash ++ decNat clock)) = false) :
    aptLookup (extractApt (appendRtx s (u8 primary.val) (u8 rtx.val) clock).attrs []) (u8 rtx.val) = some (u8 primary.val) ∧
    decNat rtx.val ∈ (appendRtx s (u8 primary.val) (u8 rtx.val) clock).formats := by
  have hr : (u8 rtx.val).toNat = rtx.val := u8_toNat_lt rtx.isLt
  have hp : (u8 primary.val).toNat = primary.val := u8_toNat_lt primary.isLt
  constructor
  · simp only [appendRtx, hr, hp, hnew, Bool.false_eq_true, if_false]
    exact extract_appended s.attrs primary rtx clock
  · simp only [appendRtx, hr]
    by_cases hc : s.formats.contains (decNat rtx.val) = true
    · have hm : decNat rtx.val ∈ s.formats := by simpa using hc
      split <;> simp [hc, hm]
    · split <;> simp [hc]

/-- every RTCP packet this stack serialises is classified as RTCP by `is_rtcp` (the demultiplexer's test) -/
theorem is_rtcp_own_output (p : Rtcp) (bs : Bytes) (h : marshalOne p = .ok bs) : isRtcp bs = true := by
  have hw : ∀ fmt pt body, 192 ≤ pt → pt ≤ 208 → isRtcp (writeRtcp fmt pt body) = true := by
    intro fmt pt body h1 h2
    simp only [writeRtcp, isRtcp, u8_toNat, c15IsRtcpLo_val, c15IsRtcpHi_val]
    have : pt % 256 = pt := by omega
    simp [this, h1, h2]
  have he : ∀ fmt pt body, 192 ≤ pt → pt ≤ 208 → emit fmt pt body = .ok bs → isRtcp bs = true := by
    intro fmt pt body h1 h2 h3
    obtain ⟨_, rfl⟩ := emit_ok h3
    exact hw _ _ _ h1 h2
  cases p with
  | sr s m l t pc oc bl =>
    simp only [marshalOne] at h; split at h
    · cases h
    · exact he _ _ _ (by rw [c15RtcpSr_val]; omega) (by rw [c15RtcpSr_val]; omega) h
  | rr s bl =>
    simp only [marshalOne] at h; split at h
    · cases h
    · exact he _ _ _ (by rw [c15RtcpRr_val]; omega) (by rw [c15RtcpRr_val]; omega) h
  | sdes cs =>
    simp only [marshalOne] at h; split at h
    · cases h
    · split at h
      · cases h
      · exact he _ _ _ (by rw [c15RtcpSdes_val]; omega) (by rw [c15RtcpSdes_val]; omega) h
  | bye ss r =>
    simp only [marshalOne] at h; split at h
    · cases h
    · exact he _ _ _ (by rw [c15RtcpBye_val]; omega) (by rw [c15RtcpBye_val]; omega) h
  | pli s m =>
    simp only [marshalOne] at h
    exact he _ _ _ (by rw [c15RtcpPsfb_val]; omega) (by rw [c15RtcpPsfb_val]; omega) h
  | fir s rq =>
    simp only [marshalOne] at h
    exact he _ _ _ (by rw [c15RtcpPsfb_val]; omega) (by rw [c15RtcpPsfb_val]; omega) h
  | nack s m lost =>
    simp only [marshalOne] at h; split at h
    · cases h
    · exact he _ _ _ (by rw [c15RtcpRtpfb_val]; omega) (by rw [c15RtcpRtpfb_val]; omega) h
  | remb s br ss =>
    simp only [marshalOne] at h; split at h
    · cases h
    · exact he _ _ _ (by rw [c15RtcpPsfb_val]; omega) (by rw [c15RtcpPsfb_val]; omega) h
  | twcc s m b c r f pl =>
    simp only [marshalOne] at h
    unfold twccEmit at h
    split at h
    · injection h with h; subst h
      have h205 := hw c15FmtTwcc c15RtcpRtpfb
      simp only [twccWire]
      split
      · exact h205 _ (by rw [c15RtcpRtpfb_val]; omega) (by rw [c15RtcpRtpfb_val]; omega)
      · have := h205 (twccPadded (twccBody s m b c r f pl)) (by rw [c15RtcpRtpfb_val]; omega) (by rw [c15RtcpRtpfb_val]; omega)
        simp only [writeRtcp] at this ⊢
        simpa [isRtcp] using this
    · cases h

/-- the converse the demultiplexer relies on does NOT hold for every RTP packet this stack can serialise: with the
marker bit set, payload types 64..80 put 192..208 into the second octet (the RFC 5761 §4 collision). Exactly those: -/
theorem is_rtcp_rtp_iff (p : Packet) (bs : Bytes) (h : marshalPacket p = .ok bs) :
    isRtcp bs = true ↔ (p.hdr.marker = true ∧ 64 ≤ p.hdr.pt.toNat ∧ p.hdr.pt.toNat ≤ 80) := by
  have w := (marshalPacket_ok_iff p).mp ⟨bs, h⟩
  have hpt := w.pt
  simp only [marshalPacket, validate_ok_of_wf w, Except.ok.injEq] at h
  subst h
  simp only [writeHeader, c15PtMask_eq, be16, List.cons_append, isRtcp, c15IsRtcpLo_val, c15IsRtcpHi_val, u8_toNat,
    Bool.and_eq_true, decide_eq_true_eq]
  cases hm : p.hdr.marker <;> simp <;> omega

/-! ### header extensions (RFC 8285) -/

/-- **set_extension_total**: `set_extension` has no panic outcome on any header, id and data (an
overrunning element in a received block is an error since the `fix:` commit; the model keeps the
three-outcome type so that a regression shows up as a disagreement). -/
theorem set_extension_total (h : Header) (id : UInt8) (data : Bytes) : setExtension h id data ≠ .panic := by
  unfold setExtension
  by_cases h1 : id.toNat = 0 ∨ id.toNat ≥ c15ExtIdLimit
  · rw [if_pos h1]; simp
  · rw [if_neg h1]
    by_cases h2 : data.length > c15ExtMaxData ∨ data.isEmpty = true
    · rw [if_pos h2]; simp
    · rw [if_neg h2]
      simp only
      by_cases h3 : (h.ext.getD ⟨UInt16.ofNat c15OneByteProfile, []⟩).profile.toNat ≠ c15OneByteProfile
      · rw [if_pos h3]; simp
      · rw [if_neg h3]
        cases rebuild id.toNat (oneByteElem id data) (h.ext.getD ⟨UInt16.ofNat c15OneByteProfile, []⟩).data with
        | none => simp
        | some r => simp

/-- read `id` back from a header whose extension block is the rebuilt one -/
private theorem get_of_set {h h' : Header} {id : UInt8} {data : Bytes}
    (hs : setExtension h id data = .ok h') (id' : UInt8) :
    getExtension h' id' = if id' = id then some data else getExtension h id' := by
  obtain ⟨w, hprof, out, found, hr, rfl⟩ := setExtension_ok_inv hs
  have hp : (h.ext.getD ⟨UInt16.ofNat c15OneByteProfile, []⟩).profile.toNat = c15OneByteProfile := by
    cases he : h.ext with
    | none => simp [c15OneByteProfile_val]
    | some e => simpa using hprof e he
  have hold : getExtension h id' = getOne id'.toNat (h.ext.getD ⟨UInt16.ofNat c15OneByteProfile, []⟩).data := by
    cases he : h.ext with
    | none => simp [getExtension, he, getOne_nil]
    | some e => simp [getExtension, he, hprof e he]
  generalize hnd : ((if found = true then out else out ++ oneByteElem' id.toNat data) ++
    List.replicate (pad4 (if found = true then out else out ++ oneByteElem' id.toNat data).length) 0) = nd
  have hnew : getExtension { h with ext := some ⟨(h.ext.getD ⟨UInt16.ofNat c15OneByteProfile, []⟩).profile, nd⟩ } id'
      = getOne id'.toNat nd := by
    simp only [getExtension, hp, if_true]
  rw [hnew, ← hnd]
  by_cases hid : id' = id
  · subst hid
    rw [if_pos rfl]
    cases found with
    | true =>
      simp only [if_true]
      rw [getOne_rebuild_self _ _ w _ _ _ _ _ rfl hr]; rfl
    | false =>
      simp only [Bool.false_eq_true, if_false, List.append_assoc]
      rw [getOne_rebuild_self _ _ w _ _ _ _ _ rfl hr]
      simp only [Bool.false_eq_true, if_false, oneByteElem', List.cons_append]
      exact getOne_elem_self w _
  · rw [if_neg hid, hold]
    have hne : id'.toNat ≠ id.toNat := fun hh => hid (UInt8.toNat_inj.mp hh)
    cases found with
    | true =>
      simp only [if_true]
      rw [getOne_rebuild_other _ _ _ w hne _ _ _ _ _ rfl hr, getOne_zeros]
      cases getOne id'.toNat _ <;> rfl
    | false =>
      simp only [Bool.false_eq_true, if_false, List.append_assoc]
      rw [getOne_rebuild_other _ _ _ w hne _ _ _ _ _ rfl hr]
      simp only [oneByteElem', List.cons_append]
      rw [getOne_elem_other w hne, getOne_zeros]
      cases getOne id'.toNat _ <;> rfl

/-- **ext_get_set**: whenever `set_extension(id, data)` succeeds, `get_extension(id)` returns `data`
— for every prior header, including received blocks with padding, repeated ids, an id-15 stop marker
or a target element that itself overran the block. -/
theorem ext_get_set (h h' : Header) (id : UInt8) (data : Bytes) (hs : setExtension h id data = .ok h') :
    getExtension h' id = some data := by
  rw [get_of_set hs id, if_pos rfl]

/-- **ext_set_frame**: a successful `set_extension(id, …)` leaves what every other id reads unchanged
(all 255 other ids, not only 1..14) and touches no other header field. -/
theorem ext_set_frame (h h' : Header) (id id' : UInt8) (data : Bytes) (hs : setExtension h id data = .ok h')
    (hne : id' ≠ id) :
    getExtension h' id' = getExtension h id' ∧ h' = { h with ext := h'.ext } := by
  refine ⟨by rw [get_of_set hs id', if_neg hne], ?_⟩
  obtain ⟨_, _, _, _, _, rfl⟩ := setExtension_ok_inv hs
  rfl

/-- the rebuilt block is 32-bit aligned, so the header stays serialisable -/
theorem ext_set_aligned (h h' : Header) (id : UInt8) (data : Bytes) (hs : setExtension h id data = .ok h') :
    ∃ e, h'.ext = some e ∧ e.data.length % 4 = 0 := by
  obtain ⟨_, _, out, found, _, rfl⟩ := setExtension_ok_inv hs
  refine ⟨_, rfl, ?_⟩
  simp only [List.length_append, List.length_replicate]
  exact pad4_aligned _

/-- **ext_get_canonical** (conformance, RFC 8285 §4.2 / §4.3): on the canonical encoding of ANY element list —
one-byte form (ids 1..14, 1..16 data bytes, any number of padding octets in front of every element, optionally
ended by the id-15 stop element followed by arbitrary octets) or two-byte form under every profile
`0x1000..0x100F` (ids 1..255, 0..255 data bytes) — `get_extension(id)` returns the data of the first element
carrying that id, and nothing for an id that is absent. -/
theorem ext_get_canonical (h : Header) (id : UInt8) :
    (∀ (els : List (Nat × Nat × Bytes)) (k : Nat) (stop : Option (UInt8 × Bytes)),
      (∀ e ∈ els, ElemOk e.2.1 e.2.2) → (∀ b junk, stop = some (b, junk) → b.toNat / 16 = 15) →
      h.ext = some ⟨0xBEDE, encodeOnePadded els ++
        (match stop with | some (b, junk) => b :: junk | none => List.replicate k 0)⟩ →
      getExtension h id = lookupP id.toNat els) ∧
    (∀ (els : List (Nat × Bytes)) (k : Nat) (appbits : Fin 16),
      (∀ e ∈ els, Elem2Ok e.1 e.2) → h.ext = some ⟨UInt16.ofNat (0x1000 + appbits.val), encodeTwo els ++ List.replicate k 0⟩ →
      getExtension h id = lookup id.toNat els) := by
  constructor
  · intro els k stop hok hstop he
    simp only [getExtension, he]
    rw [if_pos (by rw [c15OneByteProfile_val]; rfl)]
    apply getOne_encodeOnePadded els hok
    cases stop with
    | none => exact getOne_zeros _ _
    | some bj => obtain ⟨b, junk⟩ := bj; exact getOne_stop _ b (hstop b junk rfl) junk
  · intro els k appbits hok he
    simp only [getExtension, he]
    have t1 : ∀ a : Fin 16, ¬ (UInt16.ofNat (0x1000 + a.val)).toNat = 0xBEDE := by decide
    have t2 : ∀ a : Fin 16, (UInt16.ofNat (0x1000 + a.val)).toNat &&& 0xFFF0 = 0x1000 := by decide
    have h1 : ¬ (UInt16.ofNat (0x1000 + appbits.val)).toNat = c15OneByteProfile := by
      rw [c15OneByteProfile_val]; exact t1 appbits
    have h2 : (UInt16.ofNat (0x1000 + appbits.val)).toNat &&& c15TwoByteMask = c15TwoByteProfile := by
      rw [c15TwoByteMask_val, c15TwoByteProfile_val]; exact t2 appbits
    rw [if_neg h1, if_pos h2]
    exact getTwo_encodeTwo els hok _ _

example : setExtension (Header.new 96 1 2 3) 5 [0xAA, 0xBB] =
    .ok { Header.new 96 1 2 3 with ext := some ⟨0xBEDE, [0x51, 0xAA, 0xBB, 0]⟩ } := by
  simp [setExtension, Header.new, rebuild_nil, oneByteElem, pad4, u8]

/-! ### NACK packing (RFC 4585 §6.2.1) -/

/-- **nack_pack_set**: packing any list of lost sequence numbers into (PID, BLP) pairs and expanding
the pairs again yields exactly the same *set* — for every list (unsorted, with duplicates, straddling
65535 → 0; all `2^16`-element sets, not samples). -/
theorem nack_pack_set (xs : List UInt16) (x : UInt16) : x ∈ unpackNack (packNack xs) ↔ x ∈ xs := by
  unfold packNack
  rw [mem_unpack_packSorted x _ _ rfl, mem_sortDedup]

/-- the 16-bit BLP field never overflows and a NACK never has more than 3856 (PID, BLP) pairs — for ANY input
list (successive PIDs are more than 16 apart), so a NACK always fits the RTCP length field -/
theorem nack_pack_fits (xs : List UInt16) :
    (∀ p ∈ packNack xs, p.2 < 65536) ∧ (packNack xs).length ≤ 3856 :=
  ⟨packSorted_blp_lt _ _ rfl, packNack_count xs⟩

/-- **nack_wire_order**: what comes back is the ascending, duplicate-free enumeration of the set — so a strictly
ascending list round-trips as a LIST (this replaces the fixed-point condition `unpack (pack l) = l`) -/
theorem nack_wire_order (xs : List UInt16) :
    unpackNack (packNack xs) = sortDedup xs ∧ Asc (sortDedup xs) ∧ (Asc xs → unpackNack (packNack xs) = xs) :=
  ⟨unpack_packSorted_asc _ _ rfl (sortDedup_sorted xs), sortDedup_sorted xs, unpack_pack_asc xs⟩

example : packNack [65535, 0, 1, 65534] = [(0, 1), (65534, 1)] ∧
    unpackNack (packNack [65535, 0, 1, 65534]) = [0, 1, 65534, 65535] := by
  simp [packNack, sortDedup, insertAsc, packSorted_cons, packSorted_nil, absorb, unpackNack, blpSeqs,
    c15NackBlpSpan_val, Nat.testBit]

/-! ### RTCP -/

/-- **rtcp_marshal_canonical** — the full-strength inverse law: for EVERY compound packet the marshaller accepts —
the only assumption is what the Rust types guarantee (`Dom`: SDES text and BYE reason are valid UTF-8, the REMB
bitrate is a `u64`) —
parsing the bytes succeeds, yields the same number of packets of the same types, and each packet is the explicit
canonical form `canon p`: identical except for the three fields the wire formats make lossy (loss count saturated
at 24-bit signed, REMB bitrate rounded to 18 significant bits, NACK list in ascending wire order), a BYE reason
longer than 255 bytes (cut to its longest prefix of whole characters that fits — `bye_reason_cut`; no `lossy`
involved any more) and a TWCC reference time beyond 24 bits (a wrapping counter: reduced modulo 2^24). No size bounds: a body that does not fit the 16-bit length field is an
error of the marshaller (lemma `marshalOne_ok_iff`), not a hypothesis. -/
theorem rtcp_marshal_canonical (ps : List Rtcp) (hd : ∀ p ∈ ps, Dom p) (bs : Bytes)
    (hm : marshalCompound ps = .ok bs) : parseCompound bs = .ok (ps.map canon) := by
  induction ps generalizing bs with
  | nil =>
    simp only [marshalCompound, Except.ok.injEq] at hm
    subst hm
    rw [parseCompound.eq_def]; rfl
  | cons p ps ih =>
    simp only [marshalCompound] at hm
    cases h1 : marshalOne p with
    | error e => rw [h1] at hm; cases hm
    | ok b =>
      rw [h1] at hm
      cases h2 : marshalCompound ps with
      | error e => rw [h2] at hm; cases hm
      | ok r =>
        rw [h2] at hm
        simp only [Except.ok.injEq] at hm
        subst hm
        have := parse_marshalOne p (hd p (List.mem_cons_self ..)) b h1 r
        unfold ReadsAs at this
        rw [this, ih (fun q hq => hd q (List.mem_cons_of_mem _ hq)) r h2]
        rfl

/-- **rtcp_compound_roundtrip** (`rtcp_parse_marshal` for compound packets of every supported report and
feedback format): a compound packet whose members are inside the property's ranges serialises
without error and parses back to exactly the same list of logical packets. -/
theorem rtcp_compound_roundtrip (ps : List Rtcp) (w : ∀ p ∈ ps, p.WF) :
    ∃ bs, marshalCompound ps = .ok bs ∧ parseCompound bs = .ok ps := by
  have hex : ∃ bs, marshalCompound ps = .ok bs := by
    induction ps with
    | nil => exact ⟨[], rfl⟩
    | cons p ps ih =>
      obtain ⟨b, hb⟩ := marshalOne_ok_of_wf (w p (List.mem_cons_self ..))
      obtain ⟨r, hr⟩ := ih (fun q hq => w q (List.mem_cons_of_mem _ hq))
      exact ⟨b ++ r, by simp only [marshalCompound, hb, hr]⟩
  obtain ⟨bs, hbs⟩ := hex
  refine ⟨bs, hbs, ?_⟩
  rw [rtcp_marshal_canonical ps (fun p hp => dom_of_wf (w p hp)) bs hbs]
  congr 1
  have : ∀ (l : List Rtcp), (∀ p ∈ l, p.WF) → l.map canon = l := by
    intro l hl
    induction l with
    | nil => rfl
    | cons q l ih =>
      simp only [List.map_cons]
      rw [canon_of_wf (hl q (List.mem_cons_self ..)), ih (fun x hx => hl x (List.mem_cons_of_mem _ hx))]
  exact this ps w

/-- per type, with the ranges spelled out — **SR / RR**: ≤ 31 report blocks, 24-bit signed loss counts -/
theorem rtcp_parse_marshal_sr (s m l t pc oc : UInt32) (bl : List ReportBlock) (hn : bl.length ≤ 31)
    (hl : ∀ b ∈ bl, -8388608 ≤ b.lost ∧ b.lost ≤ 8388607) :
    ∃ bs, marshalCompound [.sr s m l t pc oc bl] = .ok bs ∧ parseCompound bs = .ok [.sr s m l t pc oc bl] :=
  rtcp_compound_roundtrip _ (by intro p hp; simp only [List.mem_singleton] at hp; subst hp; exact ⟨hn, hl⟩)

theorem rtcp_parse_marshal_rr (s : UInt32) (bl : List ReportBlock) (hn : bl.length ≤ 31)
    (hl : ∀ b ∈ bl, -8388608 ≤ b.lost ∧ b.lost ≤ 8388607) :
    ∃ bs, marshalCompound [.rr s bl] = .ok bs ∧ parseCompound bs = .ok [.rr s bl] :=
  rtcp_compound_roundtrip _ (by intro p hp; simp only [List.mem_singleton] at hp; subst hp; exact ⟨hn, hl⟩)

/-- **SDES**: ≤ 31 chunks, every item of type ≠ END with ≤ 255 bytes of RFC 3629-valid UTF-8, body within the
16-bit length field -/
theorem rtcp_parse_marshal_sdes (cs : List SdesChunk) (hn : cs.length ≤ 31)
    (hi : ∀ c ∈ cs, ∀ i ∈ c.items, i.ty ≠ 0 ∧ i.text.length ≤ 255 ∧ utf8Valid i.text = true)
    (hsz : fits (sdesBody [] cs) = true) :
    ∃ bs, marshalCompound [.sdes cs] = .ok bs ∧ parseCompound bs = .ok [.sdes cs] :=
  rtcp_compound_roundtrip _ (by intro p hp; simp only [List.mem_singleton] at hp; subst hp; exact ⟨hn, hi, hsz⟩)

/-- **BYE**: ≤ 31 sources, optional reason of ≤ 255 bytes of valid UTF-8 (`Some("")` and `None` are distinct and
both preserved) -/
theorem rtcp_parse_marshal_bye (ss : List UInt32) (r : Option Bytes) (hn : ss.length ≤ 31)
    (hr : ∀ x, r = some x → x.length ≤ 255 ∧ utf8Valid x = true) :
    ∃ bs, marshalCompound [.bye ss r] = .ok bs ∧ parseCompound bs = .ok [.bye ss r] :=
  rtcp_compound_roundtrip _ (by intro p hp; simp only [List.mem_singleton] at hp; subst hp; exact ⟨hn, hr⟩)

/-- **PLI**: no condition at all -/
theorem rtcp_parse_marshal_pli (s m : UInt32) :
    ∃ bs, marshalCompound [.pli s m] = .ok bs ∧ parseCompound bs = .ok [.pli s m] :=
  rtcp_compound_roundtrip _ (by intro p hp; simp only [List.mem_singleton] at hp; subst hp; trivial)

/-- **FIR**: as many entries as the length field can describe (32766) -/
theorem rtcp_parse_marshal_fir (s : UInt32) (rq : List FirReq) (hn : rq.length ≤ 32766) :
    ∃ bs, marshalCompound [.fir s rq] = .ok bs ∧ parseCompound bs = .ok [.fir s rq] :=
  rtcp_compound_roundtrip _ (by intro p hp; simp only [List.mem_singleton] at hp; subst hp; exact hn)

/-- **generic NACK** through the wire: EVERY non-empty list (any length, any order, duplicates, across the wrap)
comes back as a list with exactly the same members -/
theorem rtcp_parse_marshal_nack (s m : UInt32) (lost : List UInt16) (hne : lost ≠ []) :
    ∃ bs lost', marshalCompound [.nack s m lost] = .ok bs ∧ parseCompound bs = .ok [.nack s m lost'] ∧
      ∀ x, x ∈ lost' ↔ x ∈ lost := by
  obtain ⟨b, hb⟩ := (marshalOne_ok_iff (.nack s m lost)).mpr hne
  have hm : marshalCompound [.nack s m lost] = .ok (b ++ []) := by simp only [marshalCompound, hb]
  refine ⟨_, unpackNack (packNack lost), hm, ?_, nack_pack_set lost⟩
  rw [rtcp_marshal_canonical _ (by intro p hp; simp only [List.mem_singleton] at hp; subst hp; trivial) _ hm]
  rfl

/-- **REMB**: ≤ 255 SSRCs and a bitrate of at most 18 significant bits (an 18-bit mantissa times a power of two) -/
theorem rtcp_parse_marshal_remb (s : UInt32) (br : Nat) (ss : List UInt32) (hn : ss.length ≤ 255)
    (hb : br < 2 ^ 64) (hrep : ∃ m e, m < 2 ^ 18 ∧ br = m * 2 ^ e) :
    ∃ bs, marshalCompound [.remb s br ss] = .ok bs ∧ parseCompound bs = .ok [.remb s br ss] :=
  rtcp_compound_roundtrip _ (by intro p hp; simp only [List.mem_singleton] at hp; subst hp; exact ⟨hn, hb, hrep⟩)

/-- **remb_representable_iff** — the REMB range characterised from both sides: a `u64` bitrate survives the
mantissa/exponent encoding unchanged exactly when it is an 18-bit mantissa times a power of two -/
theorem remb_representable_iff (br : Nat) (hb : br < 2 ^ 64) :
    rembCanon br = br ↔ ∃ m e, m < 2 ^ 18 ∧ br = m * 2 ^ e :=
  rembCanon_fixed_iff br hb

/-- **TWCC**: 24-bit reference time and an opaque status/delta payload of ANY length the length field can
describe (an unaligned payload is carried with RTCP padding since a `fix:` commit) -/
theorem rtcp_parse_marshal_twcc (s m : UInt32) (b c : UInt16) (r : UInt32) (f : UInt8) (pl : Bytes)
    (hr : r.toNat < 16777216) (hn : pl.length ≤ 262124) :
    ∃ bs, marshalCompound [.twcc s m b c r f pl] = .ok bs ∧ parseCompound bs = .ok [.twcc s m b c r f pl] :=
  rtcp_compound_roundtrip _ (by intro p hp; simp only [List.mem_singleton] at hp; subst hp; exact ⟨hr, hn⟩)

example : Rtcp.WF (.remb 1 750000 [2, 3]) := ⟨by decide, by decide, 187500, 2, by decide, by decide⟩

example : Rtcp.WF (.rr 7 [⟨1, 2, -8388608, 3, 4, 5, 6⟩, ⟨1, 2, 8388607, 3, 4, 5, 6⟩]) :=
  ⟨by decide, by intro b hb; simp at hb; rcases hb with rfl | rfl <;> decide⟩

/-- The naive full statement "whatever the marshaller accepts parses back unchanged" is FALSE — values
outside the field ranges are saturated / cut / rounded rather than rejected (by design: RFC 3550
prescribes the loss-count saturation). Witness: a report block with `packets_lost = 2^23`.
The part that holds is `rtcp_marshal_canonical` (+ `rtcp_compound_roundtrip` inside the ranges). -/
theorem rtcp_marshal_identity_all_witness :
    ¬ (∀ (p : Rtcp) (bs : Bytes), marshalOne p = .ok bs → parseCompound bs = .ok [p]) := by
  intro h
  let p : Rtcp := .rr 1 [⟨2, 0, 8388608, 0, 0, 0, 0⟩]
  obtain ⟨bs, hbs⟩ : ∃ bs, marshalOne p = .ok bs := ⟨_, rfl⟩
  have h1 := h p bs hbs
  have hm : marshalCompound [p] = .ok (bs ++ []) := by simp only [marshalCompound, hbs]
  have h2 := rtcp_marshal_canonical [p] (by intro q hq; simp only [List.mem_singleton] at hq; subst hq; trivial) _ hm
  rw [List.append_nil, h1] at h2
  have h3 : [p] = [p].map canon := by injection h2
  revert h3
  decide

/-- **bye_reason_cut** — what `build_goodbye_body` keeps of a reason (a Rust `String`, i.e. well-formed UTF-8): the
prefix of `n` bytes where `n ≤ 255`, `n` is a character boundary, NO boundary lies between `n` and `min(len, 255)`
(so it is the longest such prefix), and the prefix is again well-formed UTF-8 — never a cut inside a multi-byte
sequence (which `from_utf8_lossy` on the receiving side would turn into U+FFFD). This is the content of the
`fix:` commit "BYE reason cut at a character boundary". -/
theorem bye_reason_cut (r : Bytes) (hv : utf8Valid r = true) :
    let n := byeCut r (min r.length c15ByeMaxReason)
    n ≤ 255 ∧ n ≤ r.length ∧ isBoundary r n = true ∧
    (∀ j, n < j → j ≤ min r.length c15ByeMaxReason → isBoundary r j = false) ∧
    utf8Valid (r.take n) = true ∧ (r.length ≤ 255 → r.take n = r) := by
  intro n
  have hle := byeCut_le r (min r.length c15ByeMaxReason)
  have h255 := c15ByeMaxReason_eq
  have hb := byeCut_boundary r (min r.length c15ByeMaxReason)
  refine ⟨by omega, by omega, hb, byeCut_maximal r _, utf8Valid_take _ r rfl hv _ hb, ?_⟩
  intro hl
  show r.take (byeCut r (min r.length c15ByeMaxReason)) = r
  rw [Nat.min_eq_left (by omega), byeCut_full, List.take_length]

/-! ### received RTCP padding (RFC 3550 §6.4.1) -/

/-- **rtcp_padding_stripped**: a received packet of ANY type and format that carries RTCP padding (P bit, filler
octets of any value, count in the last octet) is handed to its per-type parser without the padding — SR, RR, SDES,
BYE, NACK, TWCC, PLI, FIR, REMB alike. `Rfc.withPadding` is written from the RFC text, not from the parser. -/
theorem rtcp_padding_stripped (fmt pt : Nat) (body z rest : Bytes) (hf : fmt < 32) (hpt : pt < 256)
    (hz : z.length < 255) (hal : (body.length + z.length + 1) % 4 = 0) (hlen : body.length + z.length + 1 < 262144) :
    parseCompound (Rfc.withPadding fmt pt body z ++ rest) =
      match parseOne pt fmt body with
      | .error e => .error e
      | .ok o =>
        match parseCompound rest with
        | .error e => .error e
        | .ok ps => .ok (match o with | some p => p :: ps | none => ps) :=
  Rfc.parseCompound_withPadding fmt pt body z rest hf hpt hz hal hlen

/-- **rtcp_padding_transparent**: hence a padded packet anywhere in a compound parses exactly like the same packet
without padding (whole compound: same result, same error) — in particular a padded NACK or FIR from a peer never
yields entries read out of the padding. -/
theorem rtcp_padding_transparent (fmt pt : Nat) (body z rest : Bytes) (hf : fmt < 32) (hpt : pt < 256)
    (hz : z.length < 255) (hb : body.length % 4 = 0) (hal : (z.length + 1) % 4 = 0)
    (hlen : body.length + z.length + 1 < 262144) :
    parseCompound (Rfc.withPadding fmt pt body z ++ rest) = parseCompound (writeRtcp fmt pt body ++ rest) :=
  Rfc.parseCompound_padding_transparent fmt pt body z rest hf hpt hz hb hal hlen

/-! ### conformance: the serialised bytes, read by the RFC diagrams -/

/-- **rfc_layout_sr / rr** (RFC 3550 §6.4.1/§6.4.2): V=2, P=0, RC = number of blocks, PT, length = words − 1; sender
SSRC @4; NTP @8/@12, RTP timestamp @16, packet and octet counts @20/@24; report block i at @28+24i (@8+24i for RR)
with SSRC, fraction lost (8), cumulative lost (24, two's complement, saturated), highest sequence, jitter, LSR, DLSR. -/
theorem rfc_layout_sr (s m l t pc oc : UInt32) (bl : List ReportBlock) (bs : Bytes)
    (h : marshalOne (.sr s m l t pc oc bl) = .ok bs) : Rfc.readSr bs = some (canon (.sr s m l t pc oc bl)) :=
  Rfc.rfc_sr s m l t pc oc bl bs h

theorem rfc_layout_rr (s : UInt32) (bl : List ReportBlock) (bs : Bytes) (h : marshalOne (.rr s bl) = .ok bs) :
    Rfc.readRr bs = some (canon (.rr s bl)) :=
  Rfc.rfc_rr s bl bs h

/-- **rfc_layout_sdes** (RFC 3550 §6.5): SC = number of chunks; each chunk is its SSRC, the items `type length text`,
then one to four null octets ending on a 32-bit boundary — chunk after chunk, nothing else. -/
theorem rfc_layout_sdes (cs : List SdesChunk) (bs : Bytes) (h : marshalOne (.sdes cs) = .ok bs) : Rfc.isSdes bs cs :=
  Rfc.rfc_sdes cs bs h

/-- **rfc_layout_bye** (RFC 3550 §6.6): SC SSRCs from @4; then nothing (no reason), or a length octet and that many
octets of reason (the possibly cut text), zero-filled to the boundary. -/
theorem rfc_layout_bye (ss : List UInt32) (r : Option Bytes) (bs : Bytes) (h : marshalOne (.bye ss r) = .ok bs) :
    Rfc.readBye bs = some (ss, r.map fun x => x.take (byeCut x (min x.length c15ByeMaxReason))) :=
  Rfc.rfc_bye ss r bs h

/-- **rfc_layout_pli / fir** (RFC 4585 §6.3.1, RFC 5104 §4.3.1.1): PT=206, FMT=1 resp. 4, sender SSRC @4, media
source @8 (for FIR: zero, as the RFC demands); FIR entries SSRC (32), sequence number (8), reserved (24) = 0. -/
theorem rfc_layout_pli (s m : UInt32) (bs : Bytes) (h : marshalOne (.pli s m) = .ok bs) : Rfc.readPli bs = some (.pli s m) :=
  Rfc.rfc_pli s m bs h

theorem rfc_layout_fir (s : UInt32) (rq : List FirReq) (bs : Bytes) (h : marshalOne (.fir s rq) = .ok bs) :
    Rfc.readFir bs = some (.fir s rq) :=
  Rfc.rfc_fir s rq bs h

/-- **rfc_layout_nack** (RFC 4585 §6.2.1): PT=205, FMT=1, sender / media SSRC @4/@8, and the (PID, BLP) pairs from
@12 — with BLP bit i (least significant = 0) standing for PID+i+1 — denote EXACTLY the set of lost sequence numbers. -/
theorem rfc_layout_nack (s m : UInt32) (lost : List UInt16) (bs : Bytes) (h : marshalOne (.nack s m lost) = .ok bs) :
    Rfc.isNack bs s m ∧ ∀ x, Rfc.nackDenotes bs x ↔ x ∈ lost :=
  Rfc.rfc_nack s m lost bs h

/-- **rfc_layout_remb** (draft-alvestrand-rmcat-remb §2): PT=206, FMT=15, media source 0, "REMB" @12, Num SSRC @16,
6-bit exponent and 18-bit mantissa @17..19 with bitrate = mantissa · 2^exp, SSRCs from @20. -/
theorem rfc_layout_remb (s : UInt32) (br : Nat) (ss : List UInt32) (hb : br < 2 ^ 64) (bs : Bytes)
    (h : marshalOne (.remb s br ss) = .ok bs) : Rfc.readRemb bs = some (canon (.remb s br ss)) :=
  Rfc.rfc_remb s br ss hb bs h

/-- **rfc_layout_twcc** (draft-holmer-rmcat-transport-wide-cc-extensions §3.1): PT=205, FMT=15, base sequence @12,
status count @14, 24-bit reference time @16 (the counter modulo 2^24), feedback count @19, chunks/deltas from @20, RTCP padding (P bit and
count octet) when the payload is not 32-bit aligned. -/
theorem rfc_layout_twcc (s m : UInt32) (b c : UInt16) (r : UInt32) (f : UInt8) (pl : Bytes) (bs : Bytes)
    (h : marshalOne (.twcc s m b c r f pl) = .ok bs) : Rfc.readTwcc bs = some (canon (.twcc s m b c r f pl)) :=
  Rfc.rfc_twcc s m b c r f pl bs h

/-! ### conformance, parse direction: what an independent implementation serialises -/

/-- **rfc_parse_framing**: a datagram the RFC header reader sees as ONE packet of type `pt` (V=2, P=0, length field =
the datagram) reaches the per-type parser as: that type, the count/format field, everything behind the 4-octet
header — and `parse_rtcp_packets` returns exactly what that parser returns (nothing for XR / unknown types). -/
theorem rfc_parse_framing (bs : Bytes) (pt : Nat) (h : Rfc.framed bs pt) :
    parseCompound bs =
      match parseOne pt (Rfc.hdr bs).count (bs.drop 4) with
      | .error e => .error e
      | .ok none => .ok []
      | .ok (some p) => .ok [p] :=
  Rfc.parseCompound_framed bs pt h

/-- **rfc_parse_sr / rr / pli / fir / twcc** — "the stack parses what an independent implementation serialises": for
EVERY byte string that the offset-based RFC reader of the type accepts (any field values, any number of report
blocks / FIR entries, any TWCC payload), `parse_rtcp_packets` returns exactly the packet the reader returns. -/
theorem rfc_parse_sr (bs : Bytes) (p : Rtcp) (h : Rfc.readSr bs = some p) : parseCompound bs = .ok [p] :=
  Rfc.parse_of_readSr bs p h

theorem rfc_parse_rr (bs : Bytes) (p : Rtcp) (h : Rfc.readRr bs = some p) : parseCompound bs = .ok [p] :=
  Rfc.parse_of_readRr bs p h

theorem rfc_parse_pli (bs : Bytes) (p : Rtcp) (h : Rfc.readPli bs = some p) : parseCompound bs = .ok [p] :=
  Rfc.parse_of_readPli bs p h

theorem rfc_parse_fir (bs : Bytes) (p : Rtcp) (h : Rfc.readFir bs = some p) : parseCompound bs = .ok [p] :=
  Rfc.parse_of_readFir bs p h

/-- (a TWCC packet WITH RTCP padding reaches the same parser stripped of it: `rtcp_padding_stripped`) -/
theorem rfc_parse_twcc (bs : Bytes) (p : Rtcp) (hp : (Rfc.hdr bs).padding = false) (h : Rfc.readTwcc bs = some p) :
    parseCompound bs = .ok [p] :=
  Rfc.parse_of_readTwcc bs p hp h

/-- **rfc_parse_bye**: the sources the reader sees; the reason octets come back as text (`from_utf8_lossy`) -/
theorem rfc_parse_bye (bs : Bytes) (ss : List UInt32) (r : Option Bytes) (h : Rfc.readBye bs = some (ss, r)) :
    parseCompound bs = .ok [.bye ss (r.map lossy)] :=
  Rfc.parse_of_readBye bs ss r h

/-- **rfc_parse_nack**: a NACK of `sender` for `media` comes back with exactly the sequence numbers its FCI denotes
(PID and every set BLP bit i as PID+i+1, modulo 2^16) -/
theorem rfc_parse_nack (bs : Bytes) (s m : UInt32) (h : Rfc.isNack bs s m) :
    ∃ lost, parseCompound bs = .ok [.nack s m lost] ∧ ∀ x, x ∈ lost ↔ Rfc.nackDenotes bs x :=
  Rfc.parse_of_isNack bs s m h

/-- **rfc_parse_remb**: mantissa · 2^exp as the RFC reader computes it, whenever it fits the stack's `u64` -/
theorem rfc_parse_remb (bs : Bytes) (s : UInt32) (br : Nat) (ss : List UInt32) (h : Rfc.readRemb bs = some (.remb s br ss))
    (hbr : br < 2 ^ 64) : parseCompound bs = .ok [.remb s br ss] :=
  Rfc.parse_of_readRemb bs s br ss h hbr

/-! ### the other direction: wire → packets → wire -/

/-- **rtcp_semantic_stable**: for EVERY byte string the RTCP parser accepts, if the parsed packets can be serialised
again, parsing that serialisation yields the canonical form of the parsed packets — nothing but `canon` can happen
to them (no hypothesis on the input: what the parser returns is always inside `Dom`). When re-serialisation is
refused is exactly lemma `marshalOne_ok_iff` (e.g. a received NACK without FCI, or ill-formed UTF-8 whose U+FFFD
replacement grows an SDES text beyond 255 bytes). -/
theorem rtcp_semantic_stable (bs bs' : Bytes) (ps : List Rtcp) (hp : parseCompound bs = .ok ps)
    (hm : marshalCompound ps = .ok bs') : parseCompound bs' = .ok (ps.map canon) :=
  rtcp_marshal_canonical ps (parseCompound_dom bs ps hp) bs' hm

/-- **rtcp_parsed_fields_canonical** — what a parse → marshal → parse cycle can change at all (`CanonFixed`): for
every parsed SR, RR, SDES, PLI, FIR and TWCC packet NOTHING (the canonical form is the packet: parsed loss counts
and reference times are 24-bit); a parsed NACK keeps its set of sequence numbers (the order becomes the packed
order); a parsed BYE is unchanged unless the lossy decoding grew the reason beyond 255 bytes; a parsed REMB
bitrate is `m·2^e mod 2^64` with an 18-bit `m`, 6-bit `e` and is unchanged unless `m·2^e` overflowed 64 bits. -/
theorem rtcp_parsed_fields_canonical (bs : Bytes) (ps : List Rtcp) (hp : parseCompound bs = .ok ps) :
    ∀ p ∈ ps, CanonFixed p :=
  parseCompound_canonFixed bs ps hp

/-! ### text fields -/

/-- **utf8_valid_lossy_id / utf8_lossy_valid**: RFC 3629 well-formedness (`utf8Valid`, an independent definition)
implies `from_utf8_lossy` is the identity — so the text hypothesis of the round-trip theorems is the plain type
invariant of a Rust `String` — and whatever `from_utf8_lossy` returns is well-formed. -/
theorem utf8_valid_lossy_id (bs : Bytes) (h : utf8Valid bs = true) : lossy bs = bs :=
  lossy_of_valid _ bs rfl h

theorem utf8_lossy_valid (bs : Bytes) : utf8Valid (lossy bs) = true :=
  utf8Valid_lossy _ bs rfl

example : utf8Valid [0x75, 0x73, 0x65, 0x72, 0x40, 0xC3, 0xA9, 0xE6, 0xBC, 0xA2, 0xF0, 0x9F, 0x98, 0x80] = true := by decide
example : utf8Valid [0xC0, 0x80] = false ∧ utf8Valid [0xED, 0xA0, 0x80] = false ∧ utf8Valid [0xE6, 0xBC] = false := by decide

/-! ### NACK send buffer and receiver gap detection (`src/peer_connection.rs`) -/

/-- **nackbuf_bounded**: after any sequence of sends and NACK queries on a handler created with any
`max_size`, the store holds at most `max(max_size, 1)` packets, the FIFO has no duplicates and the
map holds exactly the FIFO's sequence numbers (so `buffered_packet_count` = FIFO length). -/
theorem nackbuf_bounded (maxSize : Nat) (ops : List BufOp) :
    let b := bufFinal (NackBuf.new maxSize) ops
    b.packets.length ≤ max maxSize 1 ∧ b.packets.length = b.order.length ∧ b.order.Nodup ∧
      ∀ s, s ∈ b.order ↔ (mapGet b.packets s).isSome = true := by
  intro b
  have i : b.Inv := inv_final (inv_new maxSize) ops
  have hl := keysMatch_length _ _ i.nodup i.keys
  have hm : b.maxSize = max maxSize 1 := by
    have : ∀ (ops : List BufOp) (b0 : NackBuf), (bufFinal b0 ops).maxSize = b0.maxSize := by
      intro ops
      induction ops with
      | nil => intro b0; rfl
      | cons o os ih =>
        intro b0
        simp only [bufFinal]; rw [ih]
        cases o with
        | push s t => simp only [NackBuf.step, NackBuf.push]; split <;> rfl
        | sent ssrc s t => simp only [NackBuf.step, NackBuf.push]; split <;> (try split) <;> rfl
        | setRtx ssrc => rfl
        | query n q => rfl
        | nack n q => rfl
    exact this ops _
  exact ⟨by rw [hl, ← hm]; exact i.bounded, hl, i.nodup, mem_order_iff i⟩

/-- **nackbuf_latest**: the packet just sent is always retrievable, with its newest content (a re-sent
sequence number replaces the stored packet) — in every reachable state. -/
theorem nackbuf_latest (maxSize : Nat) (ops : List BufOp) (s : UInt16) (t : Nat) :
    mapGet ((bufFinal (NackBuf.new maxSize) ops).push s t).packets s = some t :=
  push_get_self (inv_final (inv_new maxSize) ops) s t

/-- **nackbuf_fifo**: one send changes the FIFO in exactly one of three ways — nothing (sequence number
already buffered), append, or append and drop the single OLDEST entry (only when the buffer is full). -/
theorem nackbuf_fifo (maxSize : Nat) (ops : List BufOp) (s : UInt16) (t : Nat) :
    let b := bufFinal (NackBuf.new maxSize) ops
    (b.push s t).order =
      if s ∈ b.order then b.order
      else if b.order.length < b.maxSize then b.order ++ [s]
      else b.order.tail ++ [s] :=
  push_order (inv_final (inv_new maxSize) ops) s t

example : (bufFinal (NackBuf.new 2) [.push 1 10, .push 2 20, .push 3 30]).order = [2, 3] := by decide

/-- **gap_lost_exact**: when a packet of the current stream arrives `d` (1 < d < 2^15, wrap-around
included) ahead of the last one and was not already requested, the NACK lists exactly the missing
sequence numbers `seq-1, seq-2, …` — all `d-1` of them if at most 128, otherwise the newest 128 — no
other number, and the detector moves on to `seq`. -/
theorem gap_lost_exact (st : GapSt) (ssrc : UInt32) (seq : UInt16)
    (hinit : st.initialized = true) (hs : st.lastSsrc = 0 ∨ st.lastSsrc = ssrc)
    (hp : st.pending.contains seq = false)
    (hd1 : 1 < (seq - st.lastSeq).toNat) (hd2 : (seq - st.lastSeq).toNat < 32768) :
    ∃ lost, (st.step ssrc seq).2 = some lost ∧
      lost.length = min ((seq - st.lastSeq).toNat - 1) 128 ∧
      (∀ x, x ∈ lost ↔ ∃ k, 1 ≤ k ∧ k ≤ min ((seq - st.lastSeq).toNat - 1) 128 ∧ x = seq - UInt16.ofNat k) ∧
      (st.step ssrc seq).1.lastSeq = seq := by
  have hH : c15GapHalf = 32768 := c15GapHalf_val
  have hG : c15MaxReceiverNackGap = 128 := c15MaxReceiverNackGap_val
  have h1 : ¬ (st.lastSsrc ≠ 0 ∧ st.lastSsrc ≠ ssrc) := by
    rcases hs with h | h <;> simp [h]
  have h4 : (seq - st.lastSeq).toNat > 1 ∧ (seq - st.lastSeq).toNat < c15GapHalf := ⟨hd1, by omega⟩
  unfold GapSt.step
  rw [if_neg h1]
  simp only [hinit, Bool.not_true, Bool.false_eq_true, if_false, hp]
  rw [if_pos h4]
  refine ⟨seqRun (st.lastSeq + 1 + UInt16.ofNat ((seq - st.lastSeq).toNat - 1 - c15MaxReceiverNackGap))
    ((seq - st.lastSeq).toNat - 1 - ((seq - st.lastSeq).toNat - 1 - c15MaxReceiverNackGap)), by split <;> rfl, ?_, ?_, by split <;> rfl⟩
  · rw [seqRun_length, hG]; omega
  · intro x
    rw [mem_seqRun, hG]
    have hseq := add_sub_cancel16 seq st.lastSeq
    have hd := (seq - st.lastSeq).toNat_lt
    generalize (seq - st.lastSeq).toNat = d at *
    have hl := st.lastSeq.toNat_lt
    constructor
    · rintro ⟨i, hi, rfl⟩
      refine ⟨(d - 1 - (d - 1 - 128)) - i, by omega, by omega, ?_⟩
      rw [← hseq]
      apply UInt16.toNat_inj.mp
      simp [UInt16.toNat_add, UInt16.toNat_sub]
      omega
    · rintro ⟨k, hk1, hk2, rfl⟩
      refine ⟨(d - 1 - (d - 1 - 128)) - k, by omega, ?_⟩
      rw [← hseq]
      apply UInt16.toNat_inj.mp
      simp [UInt16.toNat_add, UInt16.toNat_sub]
      omega

/-- **gap_no_spurious_nack**: a NACK is produced ONLY in the situation of `gap_lost_exact` — never for
the first packet, a stream switch, an in-order, duplicate, recovered or old packet. -/
theorem gap_no_spurious_nack (st : GapSt) (ssrc : UInt32) (seq : UInt16) (lost : List UInt16)
    (h : (st.step ssrc seq).2 = some lost) :
    st.initialized = true ∧ (st.lastSsrc = 0 ∨ st.lastSsrc = ssrc) ∧ st.pending.contains seq = false ∧
      1 < (seq - st.lastSeq).toNat ∧ (seq - st.lastSeq).toNat < 32768 := by
  have hH : c15GapHalf = 32768 := c15GapHalf_val
  unfold GapSt.step at h
  by_cases h1 : st.lastSsrc ≠ 0 ∧ st.lastSsrc ≠ ssrc
  · rw [if_pos h1] at h; cases h
  · rw [if_neg h1] at h
    cases hi : st.initialized with
    | false => simp [hi] at h
    | true =>
      simp only [hi, Bool.not_true, Bool.false_eq_true, if_false] at h
      by_cases hp : st.pending.contains seq = true
      · rw [if_pos hp] at h; cases h
      · rw [if_neg hp] at h
        have hp : st.pending.contains seq = false := by simpa using hp
        by_cases h4 : (seq - st.lastSeq).toNat > 1 ∧ (seq - st.lastSeq).toNat < c15GapHalf
        · refine ⟨rfl, ?_, hp, h4.1, by omega⟩
          by_cases h0 : st.lastSsrc = 0
          · exact Or.inl h0
          · right
            by_cases hh : st.lastSsrc = ssrc
            · exact hh
            · exact absurd ⟨h0, hh⟩ h1
        · rw [if_neg h4] at h
          split at h <;> cases h

/-- **gap_pending_bounded**: the set of requested-but-not-yet-recovered sequence numbers never exceeds
`2 · MAX_RECEIVER_NACK_GAP` = 256 entries, whatever arrives (when a step would exceed it the set is cut back to
128 entries — WHICH entries survive is the `HashSet`'s choice and not claimed). -/
theorem gap_pending_bounded (st : GapSt) (ssrc : UInt32) (seq : UInt16) (h : st.pending.length ≤ 256) :
    (st.step ssrc seq).1.pending.length ≤ 256 := by
  have hG := c15MaxReceiverNackGap_eq
  have hF := c15PendingFactor_eq
  unfold GapSt.step
  split
  · simp
  · split
    · exact h
    · split
      · exact Nat.le_trans (List.length_filter_le _ _) h
      · simp only
        split
        · split
          · simp only [List.length_drop]; rw [hG]; omega
          · next hle =>
            have h256 : c15MaxReceiverNackGap * c15PendingFactor = 256 := by rw [hG, hF]
            rw [h256] at hle; simp only; omega
        · split <;> exact h

end RtcModel.Theorems.C15
