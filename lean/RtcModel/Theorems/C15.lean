/-
C15 — RTP and RTCP encode/decode are mutually inverse and standards-conformant.
Property theorems only; helper lemmas live in `RtcModel/Lemmas/C15*.lean`.

Reading of the property used here (see NOTES/C15.md):
* a *logical packet* is a value of the Rust types (`RtpPacket`, `RtcpPacket`); `String`s are their
  UTF-8 bytes; the "field ranges" of the property are the explicit, decidable `WF` predicates below;
* "standards-conformant" is carried by the model itself being written from the RFC bit layouts and by
  the three-way correspondence check (rustrtc / this model / webrtc-rs `rtp`+`rtcp`).
-/
import RtcModel.Lemmas.C15Rtp
import RtcModel.Lemmas.C15Ext
import RtcModel.Lemmas.C15Rtcp
import RtcModel.Lemmas.C15NackBuf
import RtcModel.Lemmas.C15Utf8
import RtcModel.Lemmas.C15Apt

namespace RtcModel.Theorems.C15
open RtcModel.C15 RtcModel.Generated

/-! ### generated-constant obligations -/

/-- the 12-byte pattern of `parseHeader` is the code's minimum-length check -/
theorem const_rtp_header_len : c15RtpMinLen = 12 := by decide

/-- version, CSRC limit and the RFC 8285 profile / element limits the model's arithmetic relies on -/
theorem const_rtp_limits : c15RtpVersion = 2 ∧ c15MaxCsrc = 15 ∧ c15OneByteProfile = 0xBEDE ∧
    c15TwoByteProfile = 0x1000 ∧ c15ExtMaxData = 16 ∧ c15ExtIdLimit = 15 := by decide

/-- RTCP packet types / feedback formats are the IANA values (RFC 3550, 4585, 5104, 3611) -/
theorem const_rtcp_types : c15RtcpSr = 200 ∧ c15RtcpRr = 201 ∧ c15RtcpSdes = 202 ∧ c15RtcpBye = 203 ∧
    c15RtcpRtpfb = 205 ∧ c15RtcpPsfb = 206 ∧ c15RtcpXr = 207 ∧ c15FmtNack = 1 ∧ c15FmtTwcc = 15 ∧
    c15FmtPli = 1 ∧ c15FmtFir = 4 ∧ c15FmtApp = 15 := by decide

/-- REMB 18-bit mantissa, ≤ 255 SSRCs, 16-bit NACK bitmask, BYE reason cut, receiver NACK window -/
theorem const_feedback_limits : c15RembMantissaMax = 2 ^ 18 - 1 ∧ c15RembMaxSsrcs = 255 ∧
    c15NackBlpSpan = 16 ∧ c15ByeMaxReason = 255 ∧ c15MaxReceiverNackGap = 128 ∧ c15GapHalf = 2 ^ 15 := by decide

/-! ### RTP -/

/-- **rtp_parse_marshal**: every logical packet inside the wire ranges (7-bit PT, ≤ 15 CSRCs, extension
32-bit aligned and < 2^16 words; any payload, any padding length 0..255) serialises without error and
parsing the bytes returns exactly that packet. -/
theorem rtp_parse_marshal (p : Packet) (w : p.hdr.WF) :
    ∃ bs, marshalPacket p = .ok bs ∧ parsePacket bs = .ok p := by
  obtain ⟨h, payload, pad⟩ := p
  have w' : h.WF := w
  refine ⟨writeHeader h (pad != 0) ++ (payload ++ List.replicate pad.toNat pad),
    by simp [marshalPacket, validate_ok_of_wf w'], ?_⟩
  simp only [parsePacket, parseHeader_writeHeader h _ _ w']
  by_cases hz : pad = 0
  · subst hz; simp
  · have hne : (pad != 0) = true := by simp [hz]
    have hpos : 0 < pad.toNat := by
      rcases Nat.eq_zero_or_pos pad.toNat with h0 | h0
      · exact absurd (UInt8.toNat_inj.mp (by simpa using h0)) hz
      · exact h0
    have hlast : (payload ++ List.replicate pad.toNat pad).getLast? = some pad := by
      obtain ⟨k, hk⟩ : ∃ k, pad.toNat = k + 1 := ⟨pad.toNat - 1, by omega⟩
      rw [hk, List.replicate_succ']
      simp [← List.append_assoc]
    simp only [hne, if_true, hlast, List.length_append, List.length_replicate]
    rw [if_neg (by omega)]
    simp

example : Header.WF { Header.new 96 1000 42 7 with csrcs := [1, 2], ext := some ⟨0xBEDE, [0x10, 0xAA, 0, 0]⟩ } :=
  ⟨by decide, by decide, by intro e he; cases he; decide, by intro e he; cases he; decide⟩

/-- **rtp_semantic_stable**: for every byte string the parser accepts, serialising the parsed packet
succeeds and parses back to the same logical packet (`parse ∘ marshal ∘ parse = parse`). -/
theorem rtp_semantic_stable (bs : Bytes) (p : Packet) (hp : parsePacket bs = .ok p) :
    ∃ bs', marshalPacket p = .ok bs' ∧ parsePacket bs' = .ok p := by
  apply rtp_parse_marshal
  unfold parsePacket at hp
  split at hp
  · cases hp
  · next h padding body hh =>
    have w := parseHeader_wf hh
    split at hp
    · split at hp
      · cases hp
      · split at hp
        · cases hp
        · cases hp; exact w
    · cases hp; exact w

/-- **rtp_marshal_parse** (the inverse law in the other direction, for canonical wire encodings): if the
parser accepts `bs` and — in case the P bit is set — the padding count is non-zero and every padding byte
carries the count (the way this stack writes padding), then serialising the parsed packet reproduces
`bs` byte for byte. Everything else in the encoding (version, CSRC list, extension block of any profile,
payload) is already canonical because the format has no other freedom. -/
theorem rtp_marshal_parse (bs : Bytes) (p : Packet) (hp : parsePacket bs = .ok p)
    (hc : ∀ h body, parseHeader bs = .ok (h, true, body) →
      p.padLen ≠ 0 ∧ body.drop (body.length - p.padLen.toNat) = List.replicate p.padLen.toNat p.padLen) :
    marshalPacket p = .ok bs := by
  unfold parsePacket at hp
  split at hp
  · cases hp
  · next h padding body hh =>
    have w := parseHeader_wf hh
    have hb := parseHeader_inv hh
    cases padding with
    | false =>
      simp only [Bool.false_eq_true, if_false, Except.ok.injEq] at hp
      subst hp
      simp only [marshalPacket, validate_ok_of_wf w]
      rw [hb]; simp
    | true =>
      simp only [if_true] at hp
      split at hp
      · cases hp
      · next pl hlast =>
        split at hp
        · cases hp
        · next hle =>
          simp only [Except.ok.injEq] at hp
          subst hp
          obtain ⟨hne, hrep⟩ := hc h body hh
          simp only at hne hrep
          have hne' : (pl != 0) = true := by simp [hne]
          simp only [marshalPacket, validate_ok_of_wf w, hne']
          rw [hb, ← hrep, List.append_assoc, List.take_append_drop]

example : parsePacket [0xA0, 0x60, 0, 1, 0, 0, 0, 2, 0, 0, 0, 3, 0x55, 2, 2] =
    .ok ⟨Header.new 96 1 2 3, [0x55], 2⟩ ∧
    marshalPacket ⟨Header.new 96 1 2 3, [0x55], 2⟩ = .ok [0xA0, 0x60, 0, 1, 0, 0, 0, 2, 0, 0, 0, 3, 0x55, 2, 2] := by
  constructor <;> rfl

/-- **rtp_marshal_rejects_invalid**: the two structural ranges the wire cannot carry at all are errors,
never silent truncation: more than 15 CSRCs, or an extension payload that is not 32-bit aligned. -/
theorem rtp_marshal_rejects_invalid (p : Packet)
    (h : p.hdr.csrcs.length > 15 ∨ ∃ e, p.hdr.ext = some e ∧ e.data.length % 4 ≠ 0) :
    ∃ e, marshalPacket p = .error e := by
  unfold marshalPacket Header.validate
  by_cases hc : p.hdr.csrcs.length > c15MaxCsrc
  · exact ⟨_, by rw [if_pos hc]⟩
  · rw [if_neg hc]
    rcases h with h | ⟨e, he, hal⟩
    · exact absurd (by simpa [c15MaxCsrc_val] using h) hc
    · exact ⟨.hdr "header extension payload must be 32-bit aligned", by simp [he, hal]⟩

/-! ### RTX (RFC 4588) -/

/-- **rtx_unwrap_wrap**: wrapping a packet as RTX (any RTX SSRC / PT / sequence number) and unwrapping it
with the primary SSRC and PT restores sequence number, timestamp, marker, SSRC, PT and payload
(CSRCs, extension and padding are deliberately not carried by RTX). -/
theorem rtx_unwrap_wrap (p : Packet) (rtxSsrc : UInt32) (rtxPt : UInt8) (rtxSeq : UInt16) :
    unwrapRtx (wrapRtx p rtxSsrc rtxPt rtxSeq) p.hdr.ssrc p.hdr.pt =
      some { hdr := { Header.new p.hdr.pt p.hdr.seq p.hdr.ts p.hdr.ssrc with marker := p.hdr.marker },
             payload := p.payload, padLen := 0 } := by
  simp [unwrapRtx, wrapRtx, be16, Header.new]

/-- an RTX payload shorter than the 2-byte OSN is rejected, anything longer is accepted -/
theorem rtx_unwrap_none_iff (p : Packet) (s : UInt32) (t : UInt8) :
    unwrapRtx p s t = none ↔ p.payload.length < 2 := by
  unfold unwrapRtx
  match h : p.payload with
  | [] => simp
  | [_] => simp
  | _ :: _ :: _ => simp

/-- `decode_osn ∘ encode_osn = id`, whatever follows the two OSN bytes -/
theorem osn_roundtrip (v : UInt16) (rest : Bytes) : decodeOsn (encodeOsn v ++ rest) = some v := by
  simp [decodeOsn, encodeOsn, be16]

/-- **rtx_alloc_spec**: `allocate_rtx_payload_type` returns the smallest dynamic payload type 96..127
that is not in use, and `None` only when all 32 are taken. -/
theorem rtx_alloc_spec (used : List UInt8) :
    (∀ pt, allocRtxPt used = some pt → 96 ≤ pt.toNat ∧ pt.toNat ≤ 127 ∧ pt ∉ used ∧
        ∀ q, 96 ≤ q → q < pt.toNat → u8 q ∈ used) ∧
    (allocRtxPt used = none → ∀ q, 96 ≤ q → q ≤ 127 → u8 q ∈ used) := by
  have key : ∀ (fuel lo : Nat), lo + fuel ≤ 256 →
      (∀ pt, allocRtxPtFrom used lo fuel = some pt → lo ≤ pt.toNat ∧ pt.toNat < lo + fuel ∧ pt ∉ used ∧
          ∀ q, lo ≤ q → q < pt.toNat → u8 q ∈ used) ∧
      (allocRtxPtFrom used lo fuel = none → ∀ q, lo ≤ q → q < lo + fuel → u8 q ∈ used) := by
    intro fuel
    induction fuel with
    | zero => intro lo _; exact ⟨by intro pt h; simp [allocRtxPtFrom] at h, by intro _ q h1 h2; omega⟩
    | succ f ih =>
      intro lo hlo
      simp only [allocRtxPtFrom]
      by_cases hc : used.contains (u8 lo) = true
      · rw [if_pos hc]
        obtain ⟨h1, h2⟩ := ih (lo + 1) (by omega)
        have hmem : u8 lo ∈ used := by simpa using hc
        refine ⟨fun pt hpt => ?_, fun hn q hq1 hq2 => ?_⟩
        · obtain ⟨a, b, c, d⟩ := h1 pt hpt
          refine ⟨by omega, by omega, c, fun q hq1 hq2 => ?_⟩
          by_cases hql : q = lo
          · subst hql; exact hmem
          · exact d q (by omega) hq2
        · by_cases hql : q = lo
          · subst hql; exact hmem
          · exact h2 hn q (by omega) (by omega)
      · rw [if_neg hc]
        have hnm : u8 lo ∉ used := by simpa using hc
        refine ⟨fun pt hpt => ?_, fun hn => by cases hn⟩
        simp only [Option.some.injEq] at hpt
        subst hpt
        have : (u8 lo).toNat = lo := u8_toNat_lt (by omega)
        exact ⟨by omega, by omega, hnm, fun q hq1 hq2 => by omega⟩
  have hlo : c15RtxPtLo = 96 := c15RtxPtLo_val
  have hhi : c15RtxPtHi = 127 := c15RtxPtHi_val
  have := key (c15RtxPtHi + 1 - c15RtxPtLo) c15RtxPtLo (by omega)
  unfold allocRtxPt
  refine ⟨fun pt hpt => ?_, fun hn q h1 h2 => ?_⟩
  · obtain ⟨a, b, c, d⟩ := this.1 pt hpt
    exact ⟨by omega, by omega, c, fun q hq1 hq2 => d q (by omega) hq2⟩
  · exact this.2 hn q (by omega) (by omega)

/-- **apt_roundtrip**: the association `a=fmtp:<rtx> apt=<primary>` that `append_rtx_to_section` writes is
read back by `parse_apt` / `extract_rtx_apt_map` for every pair of payload types 0..255. -/
theorem apt_roundtrip (rtx primary : Fin 256) :
    parseApt (aptLower ++ dec3 primary.val) = some (u8 primary.val) ∧
    extractApt [(fmtpKey, some (dec3 rtx.val ++ 0x20 :: (aptLower ++ dec3 primary.val)))] [] =
      [(u8 rtx.val, u8 primary.val)] := by
  refine ⟨parseApt_dec3 primary, ?_⟩
  simp only [extractApt, ne_eq, not_true_eq_false, if_false, splitFirstSpace_dec3 rtx, parseU8_dec3 rtx,
    parseApt_dec3 primary, List.filter_nil]

/-- every RTCP packet this stack serialises is classified as RTCP by `is_rtcp` (the demultiplexer's test) -/
theorem is_rtcp_own_output (p : Rtcp) (bs : Bytes) (h : marshalOne p = .ok bs) : isRtcp bs = true := by
  have hw : ∀ fmt pt body, 192 ≤ pt → pt ≤ 208 → isRtcp (writeRtcp fmt pt body) = true := by
    intro fmt pt body h1 h2
    simp only [writeRtcp, isRtcp, u8_toNat, c15IsRtcpLo_val, c15IsRtcpHi_val]
    have : pt % 256 = pt := by omega
    simp [this, h1, h2]
  cases p with
  | sr s m l t pc oc bl =>
    simp only [marshalOne] at h; split at h
    · cases h
    · injection h with h; subst h; exact hw _ _ _ (by rw [c15RtcpSr_val]; omega) (by rw [c15RtcpSr_val]; omega)
  | rr s bl =>
    simp only [marshalOne] at h; split at h
    · cases h
    · injection h with h; subst h; exact hw _ _ _ (by rw [c15RtcpRr_val]; omega) (by rw [c15RtcpRr_val]; omega)
  | sdes cs =>
    simp only [marshalOne] at h; split at h
    · cases h
    · split at h
      · cases h
      · injection h with h; subst h; exact hw _ _ _ (by rw [c15RtcpSdes_val]; omega) (by rw [c15RtcpSdes_val]; omega)
  | bye ss r =>
    simp only [marshalOne] at h; split at h
    · cases h
    · injection h with h; subst h; exact hw _ _ _ (by rw [c15RtcpBye_val]; omega) (by rw [c15RtcpBye_val]; omega)
  | pli s m =>
    simp only [marshalOne] at h; injection h with h; subst h
    exact hw _ _ _ (by rw [c15RtcpPsfb_val]; omega) (by rw [c15RtcpPsfb_val]; omega)
  | fir s rq =>
    simp only [marshalOne] at h; injection h with h; subst h
    exact hw _ _ _ (by rw [c15RtcpPsfb_val]; omega) (by rw [c15RtcpPsfb_val]; omega)
  | nack s m lost =>
    simp only [marshalOne] at h; split at h
    · cases h
    · injection h with h; subst h; exact hw _ _ _ (by rw [c15RtcpRtpfb_val]; omega) (by rw [c15RtcpRtpfb_val]; omega)
  | remb s br ss =>
    simp only [marshalOne] at h; split at h
    · cases h
    · injection h with h; subst h; exact hw _ _ _ (by rw [c15RtcpPsfb_val]; omega) (by rw [c15RtcpPsfb_val]; omega)
  | twcc s m b c r f pl =>
    simp only [marshalOne] at h; injection h with h; subst h
    have h205 := hw c15FmtTwcc c15RtcpRtpfb
    simp only [twccWire]
    split
    · exact h205 _ (by rw [c15RtcpRtpfb_val]; omega) (by rw [c15RtcpRtpfb_val]; omega)
    · have := h205 (twccBody s m b c r f pl ++ List.replicate (pad4 (twccBody s m b c r f pl).length - 1) 0 ++
          [u8 (pad4 (twccBody s m b c r f pl).length)]) (by rw [c15RtcpRtpfb_val]; omega) (by rw [c15RtcpRtpfb_val]; omega)
      simp only [writeRtcp] at this ⊢
      simpa [isRtcp] using this

/-! ### header extensions (RFC 8285) -/

/-- **set_extension_total**: `set_extension` has no panic outcome on any header, id and data (an
overrunning element in a received block is an error since the `fix:` commit; the model keeps the
three-outcome type so that a regression shows up as a disagreement). -/
theorem set_extension_total (h : Header) (id : UInt8) (data : Bytes) : setExtension h id data ≠ .panic := by
  unfold setExtension
  by_cases h1 : id.toNat = 0 ∨ id.toNat ≥ c15ExtIdLimit
  · rw [if_pos h1]; simp
  · rw [if_neg h1]
    by_cases h2 : data.length > c15ExtMaxData ∨ data.isEmpty = true
    · rw [if_pos h2]; simp
    · rw [if_neg h2]
      simp only
      by_cases h3 : (h.ext.getD ⟨UInt16.ofNat c15OneByteProfile, []⟩).profile.toNat ≠ c15OneByteProfile
      · rw [if_pos h3]; simp
      · rw [if_neg h3]
        cases rebuild id.toNat (oneByteElem id data) (h.ext.getD ⟨UInt16.ofNat c15OneByteProfile, []⟩).data with
        | none => simp
        | some r => simp

/-- read `id` back from a header whose extension block is the rebuilt one -/
private theorem get_of_set {h h' : Header} {id : UInt8} {data : Bytes}
    (hs : setExtension h id data = .ok h') (id' : UInt8) :
    getExtension h' id' = if id' = id then some data else getExtension h id' := by
  obtain ⟨w, hprof, out, found, hr, rfl⟩ := setExtension_ok_inv hs
  have hp : (h.ext.getD ⟨UInt16.ofNat c15OneByteProfile, []⟩).profile.toNat = c15OneByteProfile := by
    cases he : h.ext with
    | none => simp [c15OneByteProfile_val]
    | some e => simpa using hprof e he
  have hold : getExtension h id' = getOne id'.toNat (h.ext.getD ⟨UInt16.ofNat c15OneByteProfile, []⟩).data := by
    cases he : h.ext with
    | none => simp [getExtension, he, getOne_nil]
    | some e => simp [getExtension, he, hprof e he]
  generalize hnd : ((if found = true then out else out ++ oneByteElem' id.toNat data) ++
    List.replicate (pad4 (if found = true then out else out ++ oneByteElem' id.toNat data).length) 0) = nd
  have hnew : getExtension { h with ext := some ⟨(h.ext.getD ⟨UInt16.ofNat c15OneByteProfile, []⟩).profile, nd⟩ } id'
      = getOne id'.toNat nd := by
    simp only [getExtension, hp, if_true]
  rw [hnew, ← hnd]
  by_cases hid : id' = id
  · subst hid
    rw [if_pos rfl]
    cases found with
    | true =>
      simp only [if_true]
      rw [getOne_rebuild_self _ _ w _ _ _ _ _ rfl hr]; rfl
    | false =>
      simp only [Bool.false_eq_true, if_false, List.append_assoc]
      rw [getOne_rebuild_self _ _ w _ _ _ _ _ rfl hr]
      simp only [Bool.false_eq_true, if_false, oneByteElem', List.cons_append]
      exact getOne_elem_self w _
  · rw [if_neg hid, hold]
    have hne : id'.toNat ≠ id.toNat := fun hh => hid (UInt8.toNat_inj.mp hh)
    cases found with
    | true =>
      simp only [if_true]
      rw [getOne_rebuild_other _ _ _ w hne _ _ _ _ _ rfl hr, getOne_zeros]
      cases getOne id'.toNat _ <;> rfl
    | false =>
      simp only [Bool.false_eq_true, if_false, List.append_assoc]
      rw [getOne_rebuild_other _ _ _ w hne _ _ _ _ _ rfl hr]
      simp only [oneByteElem', List.cons_append]
      rw [getOne_elem_other w hne, getOne_zeros]
      cases getOne id'.toNat _ <;> rfl

/-- **ext_get_set**: whenever `set_extension(id, data)` succeeds, `get_extension(id)` returns `data`
— for every prior header, including received blocks with padding, repeated ids, an id-15 stop marker
or a target element that itself overran the block. -/
theorem ext_get_set (h h' : Header) (id : UInt8) (data : Bytes) (hs : setExtension h id data = .ok h') :
    getExtension h' id = some data := by
  rw [get_of_set hs id, if_pos rfl]

/-- **ext_set_frame**: a successful `set_extension(id, …)` leaves what every other id reads unchanged
(all 255 other ids, not only 1..14) and touches no other header field. -/
theorem ext_set_frame (h h' : Header) (id id' : UInt8) (data : Bytes) (hs : setExtension h id data = .ok h')
    (hne : id' ≠ id) :
    getExtension h' id' = getExtension h id' ∧ h' = { h with ext := h'.ext } := by
  refine ⟨by rw [get_of_set hs id', if_neg hne], ?_⟩
  obtain ⟨_, _, _, _, _, rfl⟩ := setExtension_ok_inv hs
  rfl

/-- the rebuilt block is 32-bit aligned, so the header stays serialisable -/
theorem ext_set_aligned (h h' : Header) (id : UInt8) (data : Bytes) (hs : setExtension h id data = .ok h') :
    ∃ e, h'.ext = some e ∧ e.data.length % 4 = 0 := by
  obtain ⟨_, _, out, found, _, rfl⟩ := setExtension_ok_inv hs
  refine ⟨_, rfl, ?_⟩
  simp only [List.length_append, List.length_replicate]
  exact pad4_aligned _

/-- **ext_get_canonical**: on the canonical RFC 8285 encoding of ANY element list — one-byte form
(ids 1..14, 1..16 data bytes) or two-byte form (ids 1..255, 0..255 data bytes), followed by any amount of
padding — `get_extension(id)` returns the data of the first element carrying that id, and nothing for an
id that is absent. -/
theorem ext_get_canonical (h : Header) (id : UInt8) (els : List (Nat × Bytes)) (k : Nat) :
    ((∀ e ∈ els, ElemOk e.1 e.2) → h.ext = some ⟨0xBEDE, encodeOne els ++ List.replicate k 0⟩ →
      getExtension h id = lookup id.toNat els) ∧
    ((∀ e ∈ els, Elem2Ok e.1 e.2) → h.ext = some ⟨0x1000, encodeTwo els ++ List.replicate k 0⟩ →
      getExtension h id = lookup id.toNat els) := by
  constructor
  · intro hok he
    simp only [getExtension, he]
    rw [if_pos (by rw [c15OneByteProfile_val]; rfl)]
    exact getOne_encodeOne els hok _ _
  · intro hok he
    simp only [getExtension, he]
    rw [if_neg (by rw [c15OneByteProfile_val]; decide), if_pos (by rw [c15TwoByteProfile_val]; rfl)]
    exact getTwo_encodeTwo els hok _ _

example : setExtension (Header.new 96 1 2 3) 5 [0xAA, 0xBB] =
    .ok { Header.new 96 1 2 3 with ext := some ⟨0xBEDE, [0x51, 0xAA, 0xBB, 0]⟩ } := by
  simp [setExtension, Header.new, rebuild_nil, oneByteElem, pad4, u8]

/-! ### NACK packing (RFC 4585 §6.2.1) -/

/-- **nack_pack_set**: packing any list of lost sequence numbers into (PID, BLP) pairs and expanding
the pairs again yields exactly the same *set* — for every list (unsorted, with duplicates, straddling
65535 → 0; all `2^16`-element sets, not samples). -/
theorem nack_pack_set (xs : List UInt16) (x : UInt16) : x ∈ unpackNack (packNack xs) ↔ x ∈ xs := by
  unfold packNack
  rw [mem_unpack_packSorted x _ _ rfl, mem_sortDedup]

/-- the 16-bit BLP field never overflows: every mask `pack_nack_pairs` produces is below 2^16 and there
are at most as many pairs as input sequence numbers -/
theorem nack_pack_fits (xs : List UInt16) :
    (∀ p ∈ packNack xs, p.2 < 65536) ∧ (packNack xs).length ≤ xs.length :=
  ⟨packSorted_blp_lt _ _ rfl, packNack_length_le xs⟩

example : packNack [65535, 0, 1, 65534] = [(0, 1), (65534, 1)] ∧
    unpackNack (packNack [65535, 0, 1, 65534]) = [0, 1, 65534, 65535] := by
  simp [packNack, sortDedup, insertAsc, packSorted_cons, packSorted_nil, absorb, unpackNack, blpSeqs,
    c15NackBlpSpan_val, Nat.testBit]

/-! ### RTCP -/

/-- **rtcp_marshal_canonical** — the full-strength inverse law: for EVERY compound packet the
marshaller accepts (inside `Dom`: Rust-type invariants, SDES item type ≠ END, bodies that fit the 16-bit
length field), parsing the bytes succeeds, yields the same number of packets of the same types, and
each packet is the explicit canonical form `canon p` of what was sent (saturated loss count, BYE reason
cut at 255 bytes, NACK list in wire order, REMB rounded to 18 significant bits, TWCC reference time mod
2^24). -/
theorem rtcp_marshal_canonical (ps : List Rtcp) (hd : ∀ p ∈ ps, Dom p) (bs : Bytes)
    (hm : marshalCompound ps = .ok bs) : parseCompound bs = .ok (ps.map canon) := by
  induction ps generalizing bs with
  | nil =>
    simp only [marshalCompound, Except.ok.injEq] at hm
    subst hm
    rw [parseCompound.eq_def]; rfl
  | cons p ps ih =>
    simp only [marshalCompound] at hm
    cases h1 : marshalOne p with
    | error e => rw [h1] at hm; cases hm
    | ok b =>
      rw [h1] at hm
      cases h2 : marshalCompound ps with
      | error e => rw [h2] at hm; cases hm
      | ok r =>
        rw [h2] at hm
        simp only [Except.ok.injEq] at hm
        subst hm
        have := parse_marshalOne p (hd p (List.mem_cons_self ..)) b h1 r
        unfold ReadsAs at this
        rw [this, ih (fun q hq => hd q (List.mem_cons_of_mem _ hq)) r h2]
        rfl

/-- **rtcp_compound_roundtrip** (`rtcp_parse_marshal` for compound packets of every supported report and
feedback format): a compound packet whose members are inside the property's ranges serialises
without error and parses back to exactly the same list of logical packets. -/
theorem rtcp_compound_roundtrip (ps : List Rtcp) (w : ∀ p ∈ ps, p.WF) :
    ∃ bs, marshalCompound ps = .ok bs ∧ parseCompound bs = .ok ps := by
  have hex : ∃ bs, marshalCompound ps = .ok bs := by
    induction ps with
    | nil => exact ⟨[], rfl⟩
    | cons p ps ih =>
      obtain ⟨b, hb⟩ := marshalOne_ok_of_wf (w p (List.mem_cons_self ..))
      obtain ⟨r, hr⟩ := ih (fun q hq => w q (List.mem_cons_of_mem _ hq))
      exact ⟨b ++ r, by simp only [marshalCompound, hb, hr]⟩
  obtain ⟨bs, hbs⟩ := hex
  refine ⟨bs, hbs, ?_⟩
  rw [rtcp_marshal_canonical ps (fun p hp => dom_of_wf (w p hp)) bs hbs]
  congr 1
  have : ∀ (l : List Rtcp), (∀ p ∈ l, p.WF) → l.map canon = l := by
    intro l hl
    induction l with
    | nil => rfl
    | cons q l ih =>
      simp only [List.map_cons]
      rw [canon_of_wf (hl q (List.mem_cons_self ..)), ih (fun x hx => hl x (List.mem_cons_of_mem _ hx))]
  exact this ps w

/-- per type, with the ranges spelled out — **SR / RR**: ≤ 31 report blocks, 24-bit signed loss counts -/
theorem rtcp_parse_marshal_sr (s m l t pc oc : UInt32) (bl : List ReportBlock) (hn : bl.length ≤ 31)
    (hl : ∀ b ∈ bl, -8388608 ≤ b.lost ∧ b.lost ≤ 8388607) :
    ∃ bs, marshalCompound [.sr s m l t pc oc bl] = .ok bs ∧ parseCompound bs = .ok [.sr s m l t pc oc bl] :=
  rtcp_compound_roundtrip _ (by intro p hp; simp only [List.mem_singleton] at hp; subst hp; exact ⟨hn, hl⟩)

theorem rtcp_parse_marshal_rr (s : UInt32) (bl : List ReportBlock) (hn : bl.length ≤ 31)
    (hl : ∀ b ∈ bl, -8388608 ≤ b.lost ∧ b.lost ≤ 8388607) :
    ∃ bs, marshalCompound [.rr s bl] = .ok bs ∧ parseCompound bs = .ok [.rr s bl] :=
  rtcp_compound_roundtrip _ (by intro p hp; simp only [List.mem_singleton] at hp; subst hp; exact ⟨hn, hl⟩)

/-- **SDES**: ≤ 31 chunks, every item of type ≠ END with ≤ 255 bytes of valid UTF-8, body fits the length field -/
theorem rtcp_parse_marshal_sdes (cs : List SdesChunk) (hn : cs.length ≤ 31)
    (hi : ∀ c ∈ cs, ∀ i ∈ c.items, i.ty ≠ 0 ∧ i.text.length ≤ 255 ∧ lossy i.text = i.text)
    (hsz : (sdesBody [] cs).length + 3 < 262144) :
    ∃ bs, marshalCompound [.sdes cs] = .ok bs ∧ parseCompound bs = .ok [.sdes cs] :=
  rtcp_compound_roundtrip _ (by intro p hp; simp only [List.mem_singleton] at hp; subst hp; exact ⟨hn, hi, hsz⟩)

/-- **BYE**: ≤ 31 sources, optional reason of ≤ 255 bytes of valid UTF-8 (`Some("")` and `None` are distinct and both preserved) -/
theorem rtcp_parse_marshal_bye (ss : List UInt32) (r : Option Bytes) (hn : ss.length ≤ 31)
    (hr : ∀ x, r = some x → x.length ≤ 255 ∧ lossy x = x) :
    ∃ bs, marshalCompound [.bye ss r] = .ok bs ∧ parseCompound bs = .ok [.bye ss r] :=
  rtcp_compound_roundtrip _ (by intro p hp; simp only [List.mem_singleton] at hp; subst hp; exact ⟨hn, hr⟩)

/-- **PLI**: no condition at all -/
theorem rtcp_parse_marshal_pli (s m : UInt32) :
    ∃ bs, marshalCompound [.pli s m] = .ok bs ∧ parseCompound bs = .ok [.pli s m] :=
  rtcp_compound_roundtrip _ (by intro p hp; simp only [List.mem_singleton] at hp; subst hp; trivial)

/-- **FIR**: any number of entries that fits the length field -/
theorem rtcp_parse_marshal_fir (s : UInt32) (rq : List FirReq) (hn : rq.length ≤ 30000) :
    ∃ bs, marshalCompound [.fir s rq] = .ok bs ∧ parseCompound bs = .ok [.fir s rq] :=
  rtcp_compound_roundtrip _ (by intro p hp; simp only [List.mem_singleton] at hp; subst hp; exact hn)

/-- **generic NACK** through the wire: a non-empty list comes back as a list with exactly the same
members (wrap-around included) -/
theorem rtcp_parse_marshal_nack (s m : UInt32) (lost : List UInt16) (hne : lost ≠ []) (hn : lost.length ≤ 60000) :
    ∃ bs lost', marshalCompound [.nack s m lost] = .ok bs ∧ parseCompound bs = .ok [.nack s m lost'] ∧
      ∀ x, x ∈ lost' ↔ x ∈ lost := by
  have hemp : lost.isEmpty = false := by cases lost with | nil => exact absurd rfl hne | cons _ _ => rfl
  have hm : marshalCompound [.nack s m lost] = .ok (writeRtcp c15FmtNack c15RtcpRtpfb
      (be32 s ++ be32 m ++ (packNack lost).flatMap pairBytes) ++ []) := by
    simp only [marshalCompound, marshalOne, hemp]; rfl
  refine ⟨_, unpackNack (packNack lost), hm, ?_, nack_pack_set lost⟩
  rw [rtcp_marshal_canonical _ (by intro p hp; simp only [List.mem_singleton] at hp; subst hp; exact hn) _ hm]
  rfl

/-- **REMB**: ≤ 255 SSRCs and a representable bitrate (`rembCanon br = br`: at most 18 significant bits) -/
theorem rtcp_parse_marshal_remb (s : UInt32) (br : Nat) (ss : List UInt32) (hn : ss.length ≤ 255)
    (hb : br < 2 ^ 64) (hrep : rembCanon br = br) :
    ∃ bs, marshalCompound [.remb s br ss] = .ok bs ∧ parseCompound bs = .ok [.remb s br ss] :=
  rtcp_compound_roundtrip _ (by intro p hp; simp only [List.mem_singleton] at hp; subst hp; exact ⟨hn, hb, hrep⟩)

/-- **remb_wire_values_representable**: every bitrate the REMB wire format can express — an 18-bit
mantissa times a power of two, below 2^64 — satisfies the representability hypothesis of
`rtcp_parse_marshal_remb` (so e.g. every bitrate below 262 144 bps and every such value scaled by 2^e). -/
theorem remb_wire_values_representable (m e : Nat) (hm : m < 2 ^ 18) (hv : m * 2 ^ e < 2 ^ 64) :
    rembCanon (m * 2 ^ e) = m * 2 ^ e :=
  rembCanon_wire m e (by omega) hv

/-- **TWCC**: 24-bit reference time and an opaque status/delta payload of ANY length (an unaligned
payload is carried with RTCP padding since the `fix:` commit; before it the payload came back
zero-extended) -/
theorem rtcp_parse_marshal_twcc (s m : UInt32) (b c : UInt16) (r : UInt32) (f : UInt8) (pl : Bytes)
    (hr : r.toNat < 16777216) (hn : pl.length ≤ 200000) :
    ∃ bs, marshalCompound [.twcc s m b c r f pl] = .ok bs ∧ parseCompound bs = .ok [.twcc s m b c r f pl] :=
  rtcp_compound_roundtrip _ (by intro p hp; simp only [List.mem_singleton] at hp; subst hp; exact ⟨hr, hn⟩)

example : Rtcp.WF (.remb 1 750000 [2, 3]) := by
  refine ⟨by decide, by decide, ?_⟩
  simp [rembCanon, rembNorm, c15RembMantissaMax_val]

example : Rtcp.WF (.rr 7 [⟨1, 2, -8388608, 3, 4, 5, 6⟩, ⟨1, 2, 8388607, 3, 4, 5, 6⟩]) :=
  ⟨by decide, by intro b hb; simp at hb; rcases hb with rfl | rfl <;> decide⟩

/-- out-of-range inputs that cannot be put on the wire at all -/
def OutOfRange : Rtcp → Prop
  | .sr _ _ _ _ _ _ bl => bl.length > 31
  | .rr _ bl => bl.length > 31
  | .sdes cs => cs.length > 31 ∨ ∃ c ∈ cs, ∃ i ∈ c.items, i.text.length > 255
  | .bye ss _ => ss.length > 31
  | .nack _ _ lost => lost = []
  | .remb _ _ ss => ss.length > 255
  | _ => False

/-- **rtcp_marshal_rejects_out_of_range**: the marshaller returns an error exactly for the inputs whose
count or length field would overflow (more than 31 report blocks / chunks / sources, SDES text above 255
bytes, more than 255 REMB SSRCs) and for an empty NACK — never a silently mis-framed packet
(true since the `fix:` commit; before it the first three classes were serialised with `count & 0x1F`
/ `len as u8`). Everything else is serialised, and `rtcp_marshal_canonical` says what comes back. -/
theorem rtcp_marshal_rejects_out_of_range (p : Rtcp) : (∃ e, marshalOne p = .error e) ↔ OutOfRange p := by
  have hMax : c15RtcpMaxCount = 31 := c15RtcpMaxCount_val
  have h255 : c15RembMaxSsrcs = 255 := c15RembMaxSsrcs_val
  cases p with
  | sr s m l t pc oc bl =>
    simp only [marshalOne, OutOfRange]
    by_cases hc : bl.length > c15RtcpMaxCount
    · rw [if_pos hc]; exact ⟨fun _ => by omega, fun _ => ⟨_, rfl⟩⟩
    · rw [if_neg hc]; exact ⟨(fun ⟨e, he⟩ => by cases he), fun h => by omega⟩
  | rr s bl =>
    simp only [marshalOne, OutOfRange]
    by_cases hc : bl.length > c15RtcpMaxCount
    · rw [if_pos hc]; exact ⟨fun _ => by omega, fun _ => ⟨_, rfl⟩⟩
    · rw [if_neg hc]; exact ⟨(fun ⟨e, he⟩ => by cases he), fun h => by omega⟩
  | sdes cs =>
    simp only [marshalOne, OutOfRange]
    by_cases hc : cs.length > c15RtcpMaxCount
    · rw [if_pos hc]; exact ⟨fun _ => Or.inl (by omega), fun _ => ⟨_, rfl⟩⟩
    · rw [if_neg hc]
      cases htl : sdesTextTooLong cs with
      | true =>
        simp only [if_true]
        refine ⟨fun _ => Or.inr ?_, fun _ => ⟨_, rfl⟩⟩
        simp only [sdesTextTooLong, List.any_eq_true, decide_eq_true_eq] at htl
        exact htl
      | false =>
        simp only [Bool.false_eq_true, if_false]
        refine ⟨(fun ⟨e, he⟩ => by cases he), ?_⟩
        rintro (h | ⟨c, hc', i, hi, hgt⟩)
        · omega
        · have := sdesTextTooLong_false htl c hc' i hi; omega
  | bye ss r =>
    simp only [marshalOne, OutOfRange]
    by_cases hc : ss.length > c15RtcpMaxCount
    · rw [if_pos hc]; exact ⟨fun _ => by omega, fun _ => ⟨_, rfl⟩⟩
    · rw [if_neg hc]; exact ⟨(fun ⟨e, he⟩ => by cases he), fun h => by omega⟩
  | pli s m => simp only [marshalOne, OutOfRange]; exact ⟨(fun ⟨e, he⟩ => by cases he), False.elim⟩
  | fir s rq => simp only [marshalOne, OutOfRange]; exact ⟨(fun ⟨e, he⟩ => by cases he), False.elim⟩
  | nack s m lost =>
    simp only [marshalOne, OutOfRange]
    cases lost with
    | nil => exact ⟨fun _ => rfl, fun _ => ⟨_, rfl⟩⟩
    | cons a as => exact ⟨(fun ⟨e, he⟩ => by simp at he), fun h => by cases h⟩
  | remb s br ss =>
    simp only [marshalOne, OutOfRange]
    by_cases hc : ss.length > c15RembMaxSsrcs
    · rw [if_pos hc]; exact ⟨fun _ => by omega, fun _ => ⟨_, rfl⟩⟩
    · rw [if_neg hc]; exact ⟨(fun ⟨e, he⟩ => by cases he), fun h => by omega⟩
  | twcc s m b c r f pl => simp only [marshalOne, OutOfRange]; exact ⟨(fun ⟨e, he⟩ => by cases he), False.elim⟩

/-- The naive full statement "whatever the marshaller accepts parses back unchanged" is FALSE — values
outside the field ranges are saturated / cut / rounded rather than rejected (by design: RFC 3550
prescribes the loss-count saturation). Witness: a report block with `packets_lost = 2^23`.
The part that holds is `rtcp_marshal_canonical` (+ `rtcp_compound_roundtrip` inside the ranges). -/
theorem rtcp_marshal_identity_all_witness :
    ¬ (∀ (p : Rtcp) (bs : Bytes), marshalOne p = .ok bs → parseCompound bs = .ok [p]) := by
  intro h
  let p : Rtcp := .rr 1 [⟨2, 0, 8388608, 0, 0, 0, 0⟩]
  obtain ⟨bs, hbs⟩ : ∃ bs, marshalOne p = .ok bs := ⟨_, rfl⟩
  have h1 := h p bs hbs
  have hm : marshalCompound [p] = .ok (bs ++ []) := by simp only [marshalCompound, hbs]
  have h2 := rtcp_marshal_canonical [p] (by intro q hq; simp only [List.mem_singleton] at hq; subst hq; trivial) _ hm
  rw [List.append_nil, h1] at h2
  have h3 : [p] = [p].map canon := by injection h2
  revert h3
  decide

/-! ### text fields -/

/-- **utf8_valid_lossy_id**: the hypothesis `lossy t = t` used for SDES / BYE text above is implied by
RFC 3629 well-formedness — which every Rust `String` satisfies — so the round-trip theorems apply to
every logical packet the Rust types can hold. -/
theorem utf8_valid_lossy_id (bs : Bytes) (h : utf8Valid bs = true) : lossy bs = bs :=
  lossy_of_valid _ bs rfl h

example : utf8Valid [0x75, 0x73, 0x65, 0x72, 0x40, 0xC3, 0xA9, 0xE6, 0xBC, 0xA2, 0xF0, 0x9F, 0x98, 0x80] = true := by decide
example : utf8Valid [0xC0, 0x80] = false ∧ utf8Valid [0xED, 0xA0, 0x80] = false ∧ utf8Valid [0xE6, 0xBC] = false := by decide

/-! ### NACK send buffer and receiver gap detection (`src/peer_connection.rs`) -/

/-- **nackbuf_bounded**: after any sequence of sends and NACK queries on a handler created with any
`max_size`, the store holds at most `max(max_size, 1)` packets, the FIFO has no duplicates and the
map holds exactly the FIFO's sequence numbers (so `buffered_packet_count` = FIFO length). -/
theorem nackbuf_bounded (maxSize : Nat) (ops : List BufOp) :
    let b := bufFinal (NackBuf.new maxSize) ops
    b.packets.length ≤ max maxSize 1 ∧ b.packets.length = b.order.length ∧ b.order.Nodup ∧
      ∀ s, s ∈ b.order ↔ (mapGet b.packets s).isSome = true := by
  intro b
  have i : b.Inv := inv_final (inv_new maxSize) ops
  have hl := keysMatch_length _ _ i.nodup i.keys
  have hm : b.maxSize = max maxSize 1 := by
    have : ∀ (ops : List BufOp) (b0 : NackBuf), (bufFinal b0 ops).maxSize = b0.maxSize := by
      intro ops
      induction ops with
      | nil => intro b0; rfl
      | cons o os ih =>
        intro b0
        simp only [bufFinal]; rw [ih]
        cases o with
        | push s t => simp only [NackBuf.step, NackBuf.push]; split <;> rfl
        | sent ssrc s t => simp only [NackBuf.step, NackBuf.push]; split <;> (try split) <;> rfl
        | setRtx ssrc => rfl
        | query n q => rfl
    exact this ops _
  exact ⟨by rw [hl, ← hm]; exact i.bounded, hl, i.nodup, mem_order_iff i⟩

/-- **nackbuf_latest**: the packet just sent is always retrievable, with its newest content (a re-sent
sequence number replaces the stored packet) — in every reachable state. -/
theorem nackbuf_latest (maxSize : Nat) (ops : List BufOp) (s : UInt16) (t : Nat) :
    mapGet ((bufFinal (NackBuf.new maxSize) ops).push s t).packets s = some t :=
  push_get_self (inv_final (inv_new maxSize) ops) s t

/-- RTX retransmissions (packets carrying the configured RTX SSRC) are never stored in the send buffer,
so a NACK can never be answered with an RTX packet wrapped in RTX again. -/
theorem nackbuf_never_buffers_rtx (b : NackBuf) (seq : UInt16) (tag : Nat) (h : b.rtxSsrc ≠ 0) :
    (b.step (.sent b.rtxSsrc seq tag)).1 = b := by
  simp [NackBuf.step, h]

/-- **nackbuf_fifo**: one send changes the FIFO in exactly one of three ways — nothing (sequence number
already buffered), append, or append and drop the single OLDEST entry (only when the buffer is full). -/
theorem nackbuf_fifo (maxSize : Nat) (ops : List BufOp) (s : UInt16) (t : Nat) :
    let b := bufFinal (NackBuf.new maxSize) ops
    (b.push s t).order =
      if s ∈ b.order then b.order
      else if b.order.length < b.maxSize then b.order ++ [s]
      else b.order.tail ++ [s] :=
  push_order (inv_final (inv_new maxSize) ops) s t

example : (bufFinal (NackBuf.new 2) [.push 1 10, .push 2 20, .push 3 30]).order = [2, 3] := by decide

/-- **gap_lost_exact**: when a packet of the current stream arrives `d` (1 < d < 2^15, wrap-around
included) ahead of the last one and was not already requested, the NACK lists exactly the missing
sequence numbers `seq-1, seq-2, …` — all `d-1` of them if at most 128, otherwise the newest 128 — no
other number, and the detector moves on to `seq`. -/
theorem gap_lost_exact (st : GapSt) (ssrc : UInt32) (seq : UInt16)
    (hinit : st.initialized = true) (hs : st.lastSsrc = 0 ∨ st.lastSsrc = ssrc)
    (hp : st.pending.contains seq = false)
    (hd1 : 1 < (seq - st.lastSeq).toNat) (hd2 : (seq - st.lastSeq).toNat < 32768) :
    ∃ lost, (st.step ssrc seq).2 = some lost ∧
      lost.length = min ((seq - st.lastSeq).toNat - 1) 128 ∧
      (∀ x, x ∈ lost ↔ ∃ k, 1 ≤ k ∧ k ≤ min ((seq - st.lastSeq).toNat - 1) 128 ∧ x = seq - UInt16.ofNat k) ∧
      (st.step ssrc seq).1.lastSeq = seq := by
  have hH : c15GapHalf = 32768 := c15GapHalf_val
  have hG : c15MaxReceiverNackGap = 128 := c15MaxReceiverNackGap_val
  have h1 : ¬ (st.lastSsrc ≠ 0 ∧ st.lastSsrc ≠ ssrc) := by
    rcases hs with h | h <;> simp [h]
  have h4 : (seq - st.lastSeq).toNat > 1 ∧ (seq - st.lastSeq).toNat < c15GapHalf := ⟨hd1, by omega⟩
  unfold GapSt.step
  rw [if_neg h1]
  simp only [hinit, Bool.not_true, Bool.false_eq_true, if_false, hp]
  rw [if_pos h4]
  refine ⟨_, rfl, ?_, ?_, rfl⟩
  · rw [seqRun_length, hG]; omega
  · intro x
    rw [mem_seqRun, hG]
    have hseq := add_sub_cancel16 seq st.lastSeq
    have hd := (seq - st.lastSeq).toNat_lt
    generalize (seq - st.lastSeq).toNat = d at *
    have hl := st.lastSeq.toNat_lt
    constructor
    · rintro ⟨i, hi, rfl⟩
      refine ⟨(d - 1 - (d - 1 - 128)) - i, by omega, by omega, ?_⟩
      rw [← hseq]
      apply UInt16.toNat_inj.mp
      simp [UInt16.toNat_add, UInt16.toNat_sub]
      omega
    · rintro ⟨k, hk1, hk2, rfl⟩
      refine ⟨(d - 1 - (d - 1 - 128)) - k, by omega, ?_⟩
      rw [← hseq]
      apply UInt16.toNat_inj.mp
      simp [UInt16.toNat_add, UInt16.toNat_sub]
      omega

/-- **gap_no_spurious_nack**: a NACK is produced ONLY in the situation of `gap_lost_exact` — never for
the first packet, a stream switch, an in-order, duplicate, recovered or old packet. -/
theorem gap_no_spurious_nack (st : GapSt) (ssrc : UInt32) (seq : UInt16) (lost : List UInt16)
    (h : (st.step ssrc seq).2 = some lost) :
    st.initialized = true ∧ (st.lastSsrc = 0 ∨ st.lastSsrc = ssrc) ∧ st.pending.contains seq = false ∧
      1 < (seq - st.lastSeq).toNat ∧ (seq - st.lastSeq).toNat < 32768 := by
  have hH : c15GapHalf = 32768 := c15GapHalf_val
  unfold GapSt.step at h
  by_cases h1 : st.lastSsrc ≠ 0 ∧ st.lastSsrc ≠ ssrc
  · rw [if_pos h1] at h; cases h
  · rw [if_neg h1] at h
    cases hi : st.initialized with
    | false => simp [hi] at h
    | true =>
      simp only [hi, Bool.not_true, Bool.false_eq_true, if_false] at h
      by_cases hp : st.pending.contains seq = true
      · rw [if_pos hp] at h; cases h
      · rw [if_neg hp] at h
        have hp : st.pending.contains seq = false := by simpa using hp
        by_cases h4 : (seq - st.lastSeq).toNat > 1 ∧ (seq - st.lastSeq).toNat < c15GapHalf
        · refine ⟨rfl, ?_, hp, h4.1, by omega⟩
          by_cases h0 : st.lastSsrc = 0
          · exact Or.inl h0
          · right
            by_cases hh : st.lastSsrc = ssrc
            · exact hh
            · exact absurd ⟨h0, hh⟩ h1
        · rw [if_neg h4] at h
          split at h <;> cases h

end RtcModel.Theorems.C15
