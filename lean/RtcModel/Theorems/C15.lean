/-
C15 — RTP and RTCP encode/decode are mutually inverse and standards-conformant.
Property theorems only; helper lemmas live in `RtcModel/Lemmas/C15*.lean`.

Reading of the property used here (see NOTES/C15.md):
* a *logical packet* is a value of the Rust types (`RtpPacket`, `RtcpPacket`); `String`s are their
  UTF-8 bytes; the "field ranges" of the property are the explicit, decidable `WF` predicates below;
* "standards-conformant" is carried by the model itself being written from the RFC bit layouts and by
  the three-way correspondence check (rustrtc / this model / webrtc-rs `rtp`+`rtcp`).
-/
import RtcModel.Lemmas.C15Rtp
import RtcModel.Lemmas.C15Ext

namespace RtcModel.Theorems.C15
open RtcModel.C15 RtcModel.Generated

/-! ### generated-constant obligations -/

/-- the 12-byte pattern of `parseHeader` is the code's minimum-length check -/
theorem const_rtp_header_len : c15RtpMinLen = 12 := by decide

/-- version, CSRC limit and the RFC 8285 profile / element limits the model's arithmetic relies on -/
theorem const_rtp_limits : c15RtpVersion = 2 ∧ c15MaxCsrc = 15 ∧ c15OneByteProfile = 0xBEDE ∧
    c15TwoByteProfile = 0x1000 ∧ c15ExtMaxData = 16 ∧ c15ExtIdLimit = 15 := by decide

/-- RTCP packet types / feedback formats are the IANA values (RFC 3550, 4585, 5104, 3611) -/
theorem const_rtcp_types : c15RtcpSr = 200 ∧ c15RtcpRr = 201 ∧ c15RtcpSdes = 202 ∧ c15RtcpBye = 203 ∧
    c15RtcpRtpfb = 205 ∧ c15RtcpPsfb = 206 ∧ c15RtcpXr = 207 ∧ c15FmtNack = 1 ∧ c15FmtTwcc = 15 ∧
    c15FmtPli = 1 ∧ c15FmtFir = 4 ∧ c15FmtApp = 15 := by decide

/-- REMB 18-bit mantissa, ≤ 255 SSRCs, 16-bit NACK bitmask, BYE reason cut, receiver NACK window -/
theorem const_feedback_limits : c15RembMantissaMax = 2 ^ 18 - 1 ∧ c15RembMaxSsrcs = 255 ∧
    c15NackBlpSpan = 16 ∧ c15ByeMaxReason = 255 ∧ c15MaxReceiverNackGap = 128 ∧ c15GapHalf = 2 ^ 15 := by decide

/-! ### RTP -/

/-- **rtp_parse_marshal**: every logical packet inside the wire ranges (7-bit PT, ≤ 15 CSRCs, extension
32-bit aligned and < 2^16 words; any payload, any padding length 0..255) serialises without error and
parsing the bytes returns exactly that packet. -/
theorem rtp_parse_marshal (p : Packet) (w : p.hdr.WF) :
    ∃ bs, marshalPacket p = .ok bs ∧ parsePacket bs = .ok p := by
  obtain ⟨h, payload, pad⟩ := p
  have w' : h.WF := w
  refine ⟨writeHeader h (pad != 0) ++ (payload ++ List.replicate pad.toNat pad),
    by simp [marshalPacket, validate_ok_of_wf w'], ?_⟩
  simp only [parsePacket, parseHeader_writeHeader h _ _ w']
  by_cases hz : pad = 0
  · subst hz; simp
  · have hne : (pad != 0) = true := by simp [hz]
    have hpos : 0 < pad.toNat := by
      rcases Nat.eq_zero_or_pos pad.toNat with h0 | h0
      · exact absurd (UInt8.toNat_inj.mp (by simpa using h0)) hz
      · exact h0
    have hlast : (payload ++ List.replicate pad.toNat pad).getLast? = some pad := by
      obtain ⟨k, hk⟩ : ∃ k, pad.toNat = k + 1 := ⟨pad.toNat - 1, by omega⟩
      rw [hk, List.replicate_succ']
      simp [← List.append_assoc]
    simp only [hne, if_true, hlast, List.length_append, List.length_replicate]
    rw [if_neg (by omega)]
    simp

example : Header.WF { Header.new 96 1000 42 7 with csrcs := [1, 2], ext := some ⟨0xBEDE, [0x10, 0xAA, 0, 0]⟩ } :=
  ⟨by decide, by decide, by intro e he; cases he; decide, by intro e he; cases he; decide⟩

/-- **rtp_semantic_stable**: for every byte string the parser accepts, serialising the parsed packet
succeeds and parses back to the same logical packet (`parse ∘ marshal ∘ parse = parse`). -/
theorem rtp_semantic_stable (bs : Bytes) (p : Packet) (hp : parsePacket bs = .ok p) :
    ∃ bs', marshalPacket p = .ok bs' ∧ parsePacket bs' = .ok p := by
  apply rtp_parse_marshal
  unfold parsePacket at hp
  split at hp
  · cases hp
  · next h padding body hh =>
    have w := parseHeader_wf hh
    split at hp
    · split at hp
      · cases hp
      · split at hp
        · cases hp
        · cases hp; exact w
    · cases hp; exact w

/-- **rtp_marshal_rejects_invalid**: the two structural ranges the wire cannot carry at all are errors,
never silent truncation: more than 15 CSRCs, or an extension payload that is not 32-bit aligned. -/
theorem rtp_marshal_rejects_invalid (p : Packet)
    (h : p.hdr.csrcs.length > 15 ∨ ∃ e, p.hdr.ext = some e ∧ e.data.length % 4 ≠ 0) :
    ∃ e, marshalPacket p = .error e := by
  unfold marshalPacket Header.validate
  by_cases hc : p.hdr.csrcs.length > c15MaxCsrc
  · exact ⟨_, by rw [if_pos hc]⟩
  · rw [if_neg hc]
    rcases h with h | ⟨e, he, hal⟩
    · exact absurd (by simpa [c15MaxCsrc_val] using h) hc
    · exact ⟨.hdr "header extension payload must be 32-bit aligned", by simp [he, hal]⟩

/-! ### RTX (RFC 4588) -/

/-- **rtx_unwrap_wrap**: wrapping a packet as RTX (any RTX SSRC / PT / sequence number) and unwrapping it
with the primary SSRC and PT restores sequence number, timestamp, marker, SSRC, PT and payload
(CSRCs, extension and padding are deliberately not carried by RTX). -/
theorem rtx_unwrap_wrap (p : Packet) (rtxSsrc : UInt32) (rtxPt : UInt8) (rtxSeq : UInt16) :
    unwrapRtx (wrapRtx p rtxSsrc rtxPt rtxSeq) p.hdr.ssrc p.hdr.pt =
      some { hdr := { Header.new p.hdr.pt p.hdr.seq p.hdr.ts p.hdr.ssrc with marker := p.hdr.marker },
             payload := p.payload, padLen := 0 } := by
  simp [unwrapRtx, wrapRtx, be16, Header.new]

/-- an RTX payload shorter than the 2-byte OSN is rejected, anything longer is accepted -/
theorem rtx_unwrap_none_iff (p : Packet) (s : UInt32) (t : UInt8) :
    unwrapRtx p s t = none ↔ p.payload.length < 2 := by
  unfold unwrapRtx
  match h : p.payload with
  | [] => simp
  | [_] => simp
  | _ :: _ :: _ => simp

/-! ### header extensions (RFC 8285) -/

/-- **set_extension_total**: `set_extension` has no panic outcome on any header, id and data (an
overrunning element in a received block is an error since the `fix:` commit; the model keeps the
three-outcome type so that a regression shows up as a disagreement). -/
theorem set_extension_total (h : Header) (id : UInt8) (data : Bytes) : setExtension h id data ≠ .panic := by
  unfold setExtension
  by_cases h1 : id.toNat = 0 ∨ id.toNat ≥ c15ExtIdLimit
  · rw [if_pos h1]; simp
  · rw [if_neg h1]
    by_cases h2 : data.length > c15ExtMaxData ∨ data.isEmpty = true
    · rw [if_pos h2]; simp
    · rw [if_neg h2]
      simp only
      by_cases h3 : (h.ext.getD ⟨UInt16.ofNat c15OneByteProfile, []⟩).profile.toNat ≠ c15OneByteProfile
      · rw [if_pos h3]; simp
      · rw [if_neg h3]
        cases rebuild id.toNat (oneByteElem id data) (h.ext.getD ⟨UInt16.ofNat c15OneByteProfile, []⟩).data with
        | none => simp
        | some r => simp

/-- read `id` back from a header whose extension block is the rebuilt one -/
private theorem get_of_set {h h' : Header} {id : UInt8} {data : Bytes}
    (hs : setExtension h id data = .ok h') (id' : UInt8) :
    getExtension h' id' = if id' = id then some data else getExtension h id' := by
  obtain ⟨w, hprof, out, found, hr, rfl⟩ := setExtension_ok_inv hs
  have hp : (h.ext.getD ⟨UInt16.ofNat c15OneByteProfile, []⟩).profile.toNat = c15OneByteProfile := by
    cases he : h.ext with
    | none => simp [c15OneByteProfile_val]
    | some e => simpa using hprof e he
  have hold : getExtension h id' = getOne id'.toNat (h.ext.getD ⟨UInt16.ofNat c15OneByteProfile, []⟩).data := by
    cases he : h.ext with
    | none => simp [getExtension, he, getOne_nil]
    | some e => simp [getExtension, he, hprof e he]
  generalize hnd : ((if found = true then out else out ++ oneByteElem' id.toNat data) ++
    List.replicate (pad4 (if found = true then out else out ++ oneByteElem' id.toNat data).length) 0) = nd
  have hnew : getExtension { h with ext := some ⟨(h.ext.getD ⟨UInt16.ofNat c15OneByteProfile, []⟩).profile, nd⟩ } id'
      = getOne id'.toNat nd := by
    simp only [getExtension, hp, if_true]
  rw [hnew, ← hnd]
  by_cases hid : id' = id
  · subst hid
    rw [if_pos rfl]
    cases found with
    | true =>
      simp only [if_true]
      rw [getOne_rebuild_self _ _ w _ _ _ _ _ rfl hr]; rfl
    | false =>
      simp only [Bool.false_eq_true, if_false, List.append_assoc]
      rw [getOne_rebuild_self _ _ w _ _ _ _ _ rfl hr]
      simp only [Bool.false_eq_true, if_false, oneByteElem', List.cons_append]
      exact getOne_elem_self w _
  · rw [if_neg hid, hold]
    have hne : id'.toNat ≠ id.toNat := fun hh => hid (UInt8.toNat_inj.mp hh)
    cases found with
    | true =>
      simp only [if_true]
      rw [getOne_rebuild_other _ _ _ w hne _ _ _ _ _ rfl hr, getOne_zeros]
      cases getOne id'.toNat _ <;> rfl
    | false =>
      simp only [Bool.false_eq_true, if_false, List.append_assoc]
      rw [getOne_rebuild_other _ _ _ w hne _ _ _ _ _ rfl hr]
      simp only [oneByteElem', List.cons_append]
      rw [getOne_elem_other w hne, getOne_zeros]
      cases getOne id'.toNat _ <;> rfl

/-- **ext_get_set**: whenever `set_extension(id, data)` succeeds, `get_extension(id)` returns `data`
— for every prior header, including received blocks with padding, repeated ids, an id-15 stop marker
or a target element that itself overran the block. -/
theorem ext_get_set (h h' : Header) (id : UInt8) (data : Bytes) (hs : setExtension h id data = .ok h') :
    getExtension h' id = some data := by
  rw [get_of_set hs id, if_pos rfl]

/-- **ext_set_frame**: a successful `set_extension(id, …)` leaves what every other id reads unchanged
(all 255 other ids, not only 1..14) and touches no other header field. -/
theorem ext_set_frame (h h' : Header) (id id' : UInt8) (data : Bytes) (hs : setExtension h id data = .ok h')
    (hne : id' ≠ id) :
    getExtension h' id' = getExtension h id' ∧ h' = { h with ext := h'.ext } := by
  refine ⟨by rw [get_of_set hs id', if_neg hne], ?_⟩
  obtain ⟨_, _, _, _, _, rfl⟩ := setExtension_ok_inv hs
  rfl

/-- the rebuilt block is 32-bit aligned, so the header stays serialisable -/
theorem ext_set_aligned (h h' : Header) (id : UInt8) (data : Bytes) (hs : setExtension h id data = .ok h') :
    ∃ e, h'.ext = some e ∧ e.data.length % 4 = 0 := by
  obtain ⟨_, _, out, found, _, rfl⟩ := setExtension_ok_inv hs
  refine ⟨_, rfl, ?_⟩
  simp only [List.length_append, List.length_replicate]
  exact pad4_aligned _

example : setExtension (Header.new 96 1 2 3) 5 [0xAA, 0xBB] =
    .ok { Header.new 96 1 2 3 with ext := some ⟨0xBEDE, [0x51, 0xAA, 0xBB, 0]⟩ } := by
  simp [setExtension, Header.new, rebuild_nil, oneByteElem, pad4, u8]

end RtcModel.Theorems.C15
