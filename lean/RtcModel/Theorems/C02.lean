/-
C02 — DTLS connects only to the peer whose certificate matches the SDP fingerprint.
Property theorems only; the refinement to the abstract authentication steps (`VStep`) is in
`RtcModel/Lemmas/DtlsAuth.lean`.

Shape of the statements.  An endpoint history is any list of `Op`s (datagrams of arbitrary bytes
together with an arbitrary behaviour of the AEAD on them, sends, ticks, close, deadline): whatever
an on-path party substitutes, omits, reorders, duplicates or modifies is just another list.  The
cryptographic functions are the parameters `C : Crypto` (arbitrary functions).  The theorems state
the *primitive-level facts* that must have held in the same handshake for `Connected` to be reached:
digest equality with the expected fingerprint, a ServerKeyExchange signature valid under that
certificate's key over this client's own random, key derivation from the share in that signed
message, and a Finished that matched under those keys.  (That a valid signature over a fresh random
proves possession of the private key, and that nobody without the ECDH secret can produce the
matching verify_data, are ECDSA's / the PRF's security.  Neither is assumed in this file: the statements
stop at the facts the code checks.  The binding of verify_data to its inputs is a `Prop` over `Crypto` in
`Theorems/C11.lean` (`VdInjective`, with `AcceptedFinishedWasSent` and `MasterSecretDeterminesKeys`), where
it is a hypothesis of the agreement theorem and shown satisfiable; unforgeability of ECDSA signatures is not
formalised at all.)
-/
import RtcModel.Lemmas.DtlsAuth
import RtcModel.Lemmas.Fingerprint
import RtcModel.Lemmas.DtlsTerm

namespace RtcModel.Theorems.C02
open RtcModel.Generated RtcModel.DtlsRecord RtcModel.DtlsHs

/-! ### role-independent invariant: keys and Finished -/

structure BaseInv (C : Crypto) (L : Loc) (v : View) : Prop where
  keysEv : ∀ pub pk cr sr ems tr k, Ev.keys pub pk cr sr ems tr k ∈ v.evs →
    pub = L.pub ∧ C.derive L.pub pk cr sr ems tr = some k
  keys : ∀ k, v.keys = some k → ∃ pk cr sr ems tr, Ev.keys L.pub pk cr sr ems tr k ∈ v.evs
  /-- an accepted Finished: the keys are the endpoint's keys and the verify_data that arrived equals the
  value computed from their master secret, the peer's label and the transcript -/
  fins : ∀ k tr body, Ev.finished k tr body ∈ v.evs → v.keys = some k ∧ body = C.vd k.ms (!v.isClient) tr
  /-- an emitted Finished carries verify_data computed from the endpoint's keys -/
  sents : ∀ k tr body, Ev.sentFinished k tr body ∈ v.evs → v.keys = some k ∧ ∃ label, body = C.vd k.ms label tr
  conn : v.conn = .connected → ∃ k tr body, v.connKeys = some k ∧ Ev.finished k tr body ∈ v.evs

theorem BaseInv.step {C : Crypto} {L : Loc} {a b : View} (h : BaseInv C L a) (s : VStep C L a b) : BaseInv C L b := by
  obtain ⟨h1, h2, h3, h5, h4⟩ := h
  cases s with
  | conn c hc => exact ⟨h1, h2, h3, h5, fun hh => absurd hh hc⟩
  | cert leaf hfp hpk =>
    refine ⟨?_, ?_, ?_, ?_, ?_⟩
    · intro pub pk cr sr ems tr k hm; simp at hm; exact h1 _ _ _ _ _ _ _ hm
    · intro k hk; obtain ⟨pk, cr, sr, ems, tr, hm⟩ := h2 k hk; exact ⟨pk, cr, sr, ems, tr, by simp [hm]⟩
    · intro k tr body hm; simp at hm; exact h3 k tr body hm
    · intro k tr body hm; simp at hm; exact h5 k tr body hm
    · intro hc; obtain ⟨k, tr, body, hk, hm⟩ := h4 hc; exact ⟨k, tr, body, hk, by simp [hm]⟩
  | ske leaf cr sr body share hc hcert hcr hdec hsig =>
    refine ⟨?_, ?_, ?_, ?_, ?_⟩
    · intro pub pk cr sr ems tr k hm; simp at hm; exact h1 _ _ _ _ _ _ _ hm
    · intro k hk; obtain ⟨pk, cr, sr, ems, tr, hm⟩ := h2 k hk; exact ⟨pk, cr, sr, ems, tr, by simp [hm]⟩
    · intro k tr body hm; simp at hm; exact h3 k tr body hm
    · intro k tr body hm; simp at hm; exact h5 k tr body hm
    · intro hc; obtain ⟨k, tr, body, hk, hm⟩ := h4 hc; exact ⟨k, tr, body, hk, by simp [hm]⟩
  | peerPub pk hs => exact ⟨h1, h2, h3, h5, h4⟩
  | clientRandom cr hs => exact ⟨h1, h2, h3, h5, h4⟩
  | keys pk cr sr tr ems k hnone hver hpk hcr hd =>
    refine ⟨?_, ?_, ?_, ?_, ?_⟩
    · intro pub pk' cr' sr' ems' tr' k' hm
      simp at hm
      rcases hm with ⟨rfl, rfl, rfl, rfl, rfl, rfl, rfl⟩ | hm
      · exact ⟨rfl, hd⟩
      · exact h1 _ _ _ _ _ _ _ hm
    · intro k' hk'
      simp at hk'
      subst hk'
      exact ⟨pk, cr, sr, ems, tr, by simp⟩
    · intro k' tr' body' hm
      simp at hm
      have := (h3 k' tr' body' hm).1
      rw [hnone] at this
      cases this
    · intro k' tr' body' hm
      simp at hm
      have := (h5 k' tr' body' hm).1
      rw [hnone] at this
      cases this
    · intro hc; obtain ⟨k', tr', body', hk', hm⟩ := h4 hc; exact ⟨k', tr', body', hk', by simp [hm]⟩
  | connect k tr body hk hvd =>
    refine ⟨?_, ?_, ?_, ?_, ?_⟩
    · intro pub pk cr sr ems tr k hm; simp at hm; exact h1 _ _ _ _ _ _ _ hm
    · intro k' hk'; obtain ⟨pk, cr, sr, ems, tr, hm⟩ := h2 k' hk'; exact ⟨pk, cr, sr, ems, tr, by simp [hm]⟩
    · intro k' tr' body' hm
      simp at hm
      rcases hm with ⟨rfl, rfl, rfl⟩ | hm
      · exact ⟨hk, hvd⟩
      · exact h3 k' tr' body' hm
    · intro k' tr' body' hm; simp at hm; exact h5 k' tr' body' hm
    · intro _; exact ⟨k, tr, body, rfl, by simp⟩
  | sent k tr body label hk hvd =>
    refine ⟨?_, ?_, ?_, ?_, ?_⟩
    · intro pub pk cr sr ems tr k hm; simp at hm; exact h1 _ _ _ _ _ _ _ hm
    · intro k' hk'; obtain ⟨pk, cr, sr, ems, tr, hm⟩ := h2 k' hk'; exact ⟨pk, cr, sr, ems, tr, by simp [hm]⟩
    · intro k' tr' body' hm; simp at hm; exact h3 k' tr' body' hm
    · intro k' tr' body' hm
      simp at hm
      rcases hm with ⟨rfl, rfl, rfl⟩ | hm
      · exact ⟨hk, label, hvd⟩
      · exact h5 k' tr' body' hm
    · intro hc; obtain ⟨k', tr', body', hk', hm⟩ := h4 hc; exact ⟨k', tr', body', hk', by simp [hm]⟩

theorem BaseInv.steps {C : Crypto} {L : Loc} {a b : View} (h : BaseInv C L a) (s : VSteps C L a b) : BaseInv C L b := by
  induction s with
  | refl => exact h
  | step _ s ih => exact ih.step s

/-! ### client invariant: the certificate / signature chain -/

structure ClientInv (C : Crypto) (L : Loc) (f : Bytes) (v : View) : Prop where
  role : v.isClient = true
  fp : v.expectedFp = some f
  cr : v.clientRandom = some L.clientRandom
  certs : ∀ leaf, Ev.cert leaf ∈ v.evs → C.digest leaf = f ∧ C.pkOk leaf = true
  peerCert : ∀ leaf, v.peerCert = some leaf → Ev.cert leaf ∈ v.evs
  skes : ∀ leaf cr sr body, Ev.ske leaf cr sr body ∈ v.evs →
    Ev.cert leaf ∈ v.evs ∧ C.sigOk leaf cr sr body = true ∧ cr = L.clientRandom
  verified : v.skeVerified = true → ∃ leaf sr body share,
    Ev.ske leaf L.clientRandom sr body ∈ v.evs ∧ C.skeDecode body = some share ∧ v.peerPub = some share
  keyChain : ∀ pub pk cr sr ems tr k, Ev.keys pub pk cr sr ems tr k ∈ v.evs →
    cr = L.clientRandom ∧ ∃ leaf sr0 body, Ev.ske leaf L.clientRandom sr0 body ∈ v.evs ∧ C.skeDecode body = some pk

theorem fpMismatch_false {f a : Bytes} (h : fpMismatch (some f) a = false) : a = f := by
  simpa [fpMismatch] using h

theorem ClientInv.step {C : Crypto} {L : Loc} {f : Bytes} {a b : View} (h : ClientInv C L f a) (s : VStep C L a b) :
    ClientInv C L f b := by
  obtain ⟨h1, h2, h3, h4, h5, h6, h7, h8⟩ := h
  cases s with
  | conn c hc => exact ⟨h1, h2, h3, h4, h5, h6, h7, h8⟩
  | cert leaf hfp hpk =>
    rw [h2] at hfp
    have hd := fpMismatch_false hfp
    refine ⟨h1, h2, h3, ?_, ?_, ?_, ?_, ?_⟩
    · intro l hm
      simp at hm
      rcases hm with rfl | hm
      · exact ⟨hd, hpk⟩
      · exact h4 l hm
    · intro l hl; simp at hl; subst hl; simp
    · intro l cr sr body hm
      simp at hm
      obtain ⟨x, y, z⟩ := h6 l cr sr body hm
      exact ⟨by simp [x], y, z⟩
    · intro hv
      obtain ⟨l, sr, body, share, x, y, z⟩ := h7 hv
      exact ⟨l, sr, body, share, by simp [x], y, z⟩
    · intro pub pk cr sr ems tr k hm
      simp at hm
      obtain ⟨x, l, sr0, body, y, z⟩ := h8 _ _ _ _ _ _ _ hm
      exact ⟨x, l, sr0, body, by simp [y], z⟩
  | ske leaf cr sr body share hc hcert hcr hdec hsig =>
    rw [h3] at hcr
    cases hcr
    have hcertEv := h5 leaf hcert
    refine ⟨h1, h2, h3, ?_, ?_, ?_, ?_, ?_⟩
    · intro l hm; simp at hm; exact h4 l hm
    · intro l hl; simp [h5 l hl]
    · intro l cr' sr' body' hm
      simp at hm
      rcases hm with ⟨rfl, rfl, rfl, rfl⟩ | hm
      · exact ⟨by simp [hcertEv], hsig, rfl⟩
      · obtain ⟨x, y, z⟩ := h6 l cr' sr' body' hm
        exact ⟨by simp [x], y, z⟩
    · intro _
      exact ⟨leaf, sr, body, share, by simp, hdec, rfl⟩
    · intro pub pk cr' sr' ems tr k hm
      simp at hm
      obtain ⟨x, l, sr0, body0, y, z⟩ := h8 _ _ _ _ _ _ _ hm
      exact ⟨x, l, sr0, body0, by simp [y], z⟩
  | peerPub pk hs => rw [h1] at hs; cases hs
  | clientRandom cr hs => rw [h1] at hs; cases hs
  | keys pk cr sr tr ems k hnone hver hpk hcr hd =>
    rw [h3] at hcr
    cases hcr
    obtain ⟨leaf, sr0, body, share, x, y, z⟩ := h7 (hver h1)
    rw [hpk] at z
    cases z
    refine ⟨h1, h2, h3, ?_, ?_, ?_, ?_, ?_⟩
    · intro l hm; simp at hm; exact h4 l hm
    · intro l hl; simp [h5 l hl]
    · intro l cr' sr' body' hm
      simp at hm
      obtain ⟨a1, a2, a3⟩ := h6 l cr' sr' body' hm
      exact ⟨by simp [a1], a2, a3⟩
    · intro hv
      obtain ⟨l, sr1, body1, share1, a1, a2, a3⟩ := h7 hv
      exact ⟨l, sr1, body1, share1, by simp [a1], a2, a3⟩
    · intro pub pk' cr' sr' ems' tr' k' hm
      simp at hm
      rcases hm with ⟨rfl, rfl, rfl, rfl, rfl, rfl, rfl⟩ | hm
      · exact ⟨rfl, leaf, sr0, body, by simp [x], y⟩
      · obtain ⟨a1, l, s0, b0, a2, a3⟩ := h8 _ _ _ _ _ _ _ hm
        exact ⟨a1, l, s0, b0, by simp [a2], a3⟩
  | connect k tr fbody hk hvd =>
    refine ⟨h1, h2, h3, ?_, ?_, ?_, ?_, ?_⟩
    · intro l hm; simp at hm; exact h4 l hm
    · intro l hl; simp [h5 l hl]
    · intro l cr' sr' body' hm
      simp at hm
      obtain ⟨a1, a2, a3⟩ := h6 l cr' sr' body' hm
      exact ⟨by simp [a1], a2, a3⟩
    · intro hv
      obtain ⟨l, sr1, body1, share1, a1, a2, a3⟩ := h7 hv
      exact ⟨l, sr1, body1, share1, by simp [a1], a2, a3⟩
    · intro pub pk' cr' sr' ems' tr' k' hm
      simp at hm
      obtain ⟨a1, l, s0, b0, a2, a3⟩ := h8 _ _ _ _ _ _ _ hm
      exact ⟨a1, l, s0, b0, by simp [a2], a3⟩
  | sent k tr fbody label hk hvd =>
    refine ⟨h1, h2, h3, ?_, ?_, ?_, ?_, ?_⟩
    · intro l hm; simp at hm; exact h4 l hm
    · intro l hl; simp [h5 l hl]
    · intro l cr' sr' body' hm
      simp at hm
      obtain ⟨a1, a2, a3⟩ := h6 l cr' sr' body' hm
      exact ⟨by simp [a1], a2, a3⟩
    · intro hv
      obtain ⟨l, sr1, body1, share1, a1, a2, a3⟩ := h7 hv
      exact ⟨l, sr1, body1, share1, by simp [a1], a2, a3⟩
    · intro pub pk' cr' sr' ems' tr' k' hm
      simp at hm
      obtain ⟨a1, l, s0, b0, a2, a3⟩ := h8 _ _ _ _ _ _ _ hm
      exact ⟨a1, l, s0, b0, by simp [a2], a3⟩

theorem ClientInv.steps {C : Crypto} {L : Loc} {f : Bytes} {a b : View} (h : ClientInv C L f a) (s : VSteps C L a b) :
    ClientInv C L f b := by
  induction s with
  | refl => exact h
  | step _ s ih => exact ih.step s

theorem start_base (C : Crypto) (L : Loc) (isClient : Bool) (fp : Option Bytes) :
    BaseInv C L (view (start L isClient fp).1) := by
  unfold start
  split <;> exact ⟨by simp [view], by simp [view, emitMsg, hsRecord], by simp [view], by simp [view], by simp [view]⟩

theorem start_client (C : Crypto) (L : Loc) (f : Bytes) : ClientInv C L f (view (start L true (some f)).1) := by
  unfold start
  simp only [if_true]
  exact ⟨rfl, rfl, rfl, by simp [view], by simp [view, emitMsg, hsRecord], by simp [view],
    by simp [view, emitMsg, hsRecord], by simp [view]⟩

/-- the endpoint a history leads to -/
def after (C : Crypto) (L : Loc) (isClient : Bool) (fp : Option Bytes) (ops : List Op) : Ep :=
  (runOps C L (start L isClient fp).1 ops).1

/-- **client_auth**.  A client that was given the expected fingerprint `f`, after *any* history:
if it is Connected then in that same handshake (ghost events of this endpoint)
* a Certificate was processed whose leaf has digest `f` (and a usable key),
* a ServerKeyExchange was processed whose signature verifies under that leaf's key over this
  client's own random, the server random then in force and the key-exchange parameters,
* the session keys were derived from this client's ECDH share and the share inside that signed
  message, and
* a Finished arrived whose verify_data `vdata` **equals** `C.vd k.ms false tr'` — the value computed from
  those keys' master secret, the label "server finished" and the client's transcript — and these are the
  keys published in `Connected`.  (That the record carrying it was protected follows from
  `connect_needs_protected_record` below.)

Not claimed: the server random `sr` covered by the signature and the one (`sr'`) used in the key
derivation may differ — a second ServerHello accepted after the ServerKeyExchange overwrites
`server_random` (the code has no "already set" guard); such a handshake can only complete if the
Finished check passes for keys derived with `sr'`. -/
theorem client_auth (C : Crypto) (L : Loc) (f : Bytes) (ops : List Op)
    (hc : (after C L true (some f) ops).conn = .connected) :
    ∃ leaf sr body share sr' ems tr k tr' vdata,
      Ev.cert leaf ∈ (after C L true (some f) ops).evs ∧ C.digest leaf = f ∧ C.pkOk leaf = true ∧
      Ev.ske leaf L.clientRandom sr body ∈ (after C L true (some f) ops).evs ∧
      C.sigOk leaf L.clientRandom sr body = true ∧ C.skeDecode body = some share ∧
      Ev.keys L.pub share L.clientRandom sr' ems tr k ∈ (after C L true (some f) ops).evs ∧
      C.derive L.pub share L.clientRandom sr' ems tr = some k ∧
      Ev.finished k tr' vdata ∈ (after C L true (some f) ops).evs ∧ vdata = C.vd k.ms false tr' ∧
      (after C L true (some f) ops).connKeys = some k := by
  have hs := runOps_vstep C L ops (start L true (some f)).1
  have hb := (start_base C L true (some f)).steps hs
  have hcl := (start_client C L f).steps hs
  obtain ⟨k, tr', vdata, hck, hfin⟩ := hb.conn hc
  obtain ⟨hkeys, hvd⟩ := hb.fins k tr' vdata hfin
  have hrole : (view (runOps C L (start L true (some f)).1 ops).1).isClient = true := hcl.role
  rw [hrole] at hvd
  obtain ⟨pk, cr, sr', ems, tr, hkev⟩ := hb.keys k hkeys
  obtain ⟨_, hder⟩ := hb.keysEv _ _ _ _ _ _ _ hkev
  obtain ⟨hcr, leaf, sr, body, hske, hdec⟩ := hcl.keyChain _ _ _ _ _ _ _ hkev
  subst hcr
  obtain ⟨hcert, hsig, _⟩ := hcl.skes _ _ _ _ hske
  obtain ⟨hdig, hpk⟩ := hcl.certs _ hcert
  exact ⟨leaf, sr, body, pk, sr', ems, tr, k, tr', vdata, hcert, hdig, hpk, hske, hsig, hdec, hkev, hder, hfin, by simpa using hvd, hck⟩

/-- **the expectation is never consumed and `peer_certificate` always honours it**: for a client given the
expected fingerprint `f`, after *any* history — any number of Certificate messages, in any order, with any bodies,
repeated at consecutive message_seq or not — the expectation is still `f`, and whatever certificate is currently
stored as the peer's (the one a later ServerKeyExchange signature is verified under) hashes to `f` and has a usable
key.  A Certificate message can overwrite `peer_certificate` only with another certificate of the same digest.
(`client_auth` adds that the signature that was checked, was checked under such a leaf.) -/
theorem peer_certificate_always_matches (C : Crypto) (L : Loc) (f : Bytes) (ops : List Op) :
    (after C L true (some f) ops).ctx.expectedFp = some f ∧
    ∀ leaf, (after C L true (some f) ops).ctx.peerCert = some leaf → C.digest leaf = f ∧ C.pkOk leaf = true := by
  have hcl := (start_client C L f).steps (runOps_vstep C L ops (start L true (some f)).1)
  refine ⟨hcl.fp, ?_⟩
  intro leaf h
  exact hcl.certs leaf (hcl.peerCert leaf h)

/-- The certificate the checks are about is the *first* one of the Certificate message (the leaf):
`handle_certificate` records a checked certificate only for the head of the decoded list, and it is
that same `leaf` whose key `client_auth` says verified the ServerKeyExchange signature.  (A message
`[attacker certificate, pinned certificate]` therefore fails the digest test: the pinned one is not the
leaf.) -/
theorem certificate_checked_is_first (C : Crypto) (e : Ep) (body : Bytes) (leaf : Bytes)
    (h : Ev.cert leaf ∈ (handleCertificate C e body).ep.evs) :
    Ev.cert leaf ∈ e.evs ∨ ∃ rest, C.certDecode body = some (leaf :: rest) := by
  unfold handleCertificate at h
  split at h
  · exact Or.inl h
  · exact Or.inl (by simpa [failed] using h)
  · rename_i l rest hdec
    split at h
    · exact Or.inl (by simpa [failed] using h)
    · split at h
      · exact Or.inl (by simpa [failed] using h)
      · simp only [ok, List.mem_cons, Ev.cert.injEq] at h
        rcases h with rfl | h
        · exact Or.inr ⟨rest, hdec⟩
        · exact Or.inl h

/-- **no keying material unless Connected**: `export_keying_material` answers only in state
Connected, and then from keys under which an arrived Finished matched (`vdata = C.vd …` for the peer's
label and the endpoint's transcript). -/
theorem export_only_when_connected (C : Crypto) (L : Loc) (isClient : Bool) (fp : Option Bytes) (ops : List Op) (k : Keys)
    (h : exporter (after C L isClient fp ops) = some k) :
    (after C L isClient fp ops).conn = .connected ∧
    ∃ tr vdata, Ev.finished k tr vdata ∈ (after C L isClient fp ops).evs ∧
      vdata = C.vd k.ms (!(after C L isClient fp ops).isClient) tr := by
  unfold exporter at h
  split at h
  · rename_i hc
    have hb := (start_base C L isClient fp).steps (runOps_vstep C L ops (start L isClient fp).1)
    obtain ⟨k', tr, vdata, hk', hf⟩ := hb.conn hc
    have hk'' : (after C L isClient fp ops).connKeys = some k' := hk'
    rw [h] at hk''
    cases hk''
    exact ⟨hc, tr, vdata, hf, (hb.fins k tr vdata hf).2⟩
  · cases h

/-- **application data only while Connected**: whatever datagram arrives after any history, every
payload handed to the upper layer is handed up at a moment — an intermediate state `e'` of processing
that datagram, reached from the state before it and leading to the state after it — at which the
connection state *is* `Connected`.  A Handshaking, Failed or Closed endpoint therefore accepts no
application data unless the same datagram first completes the handshake (see
`no_app_data_once_completed_and_not_connected` for why that cannot happen twice). -/
theorem app_data_only_while_connected (C : Crypto) (L : Loc) (isClient : Bool) (fp : Option Bytes) (ops : List Op)
    (dec : DecFn) (bs p : Bytes)
    (h : Out.deliver p ∈ (onPacket dec C L (after C L isClient fp ops) bs).2) :
    ∃ e', VSteps C L (view (after C L isClient fp ops)) (view e') ∧ e'.conn = .connected ∧
      VSteps C L (view e') (view (onPacket dec C L (after C L isClient fp ops) bs).1) ∧
      ∃ k tr vdata, Ev.finished k tr vdata ∈ e'.evs ∧ vdata = C.vd k.ms (!e'.isClient) tr := by
  have hb0 := (start_base C L isClient fp).steps (runOps_vstep C L ops (start L isClient fp).1)
  unfold onPacket at h ⊢
  split at h
  · simp at h
  · rename_i halive
    simp only [halive]
    dsimp only at h ⊢
    have key : ∀ q, Out.deliver q ∈ (onDatagram dec C L (bs.length + 1) (after C L isClient fp ops) bs).out →
        ∃ e', VSteps C L (view (after C L isClient fp ops)) (view e') ∧ e'.conn = .connected ∧
          VSteps C L (view e') (view (onDatagram dec C L (bs.length + 1) (after C L isClient fp ops) bs).ep) ∧
          ∃ k tr vdata, Ev.finished k tr vdata ∈ e'.evs ∧ vdata = C.vd k.ms (!e'.isClient) tr := by
      intro q hq
      obtain ⟨e', h1, h2, h3⟩ := onDatagram_deliver_mid dec C L _ _ bs q hq
      have hb' := hb0.steps h1
      obtain ⟨k, tr, vdata, _, hf⟩ := hb'.conn h3
      exact ⟨e', h1, h3, h2, k, tr, vdata, hf, (hb'.fins k tr vdata hf).2⟩
    split at h
    · rename_i hc
      simp only [hc, if_true]
      obtain ⟨e', a1, a2, a3, a4⟩ := key p h
      exact ⟨e', a1, a2, a3, a4⟩
    · rename_i hc
      simp only [hc]
      exact key p h

/-- **server_auth, the part that holds**: a Connected server has accepted a Finished whose verify_data
equals the value for keys derived from its own ECDH share and *some* peer share — it talks to whoever
sent that ClientKeyExchange; nothing ties that party to the expected fingerprint (see the witness). -/
theorem server_auth_partial (C : Crypto) (L : Loc) (fp : Option Bytes) (ops : List Op)
    (hc : (after C L false fp ops).conn = .connected) :
    ∃ k pk cr sr ems tr tr' vdata, (after C L false fp ops).connKeys = some k ∧
      Ev.keys L.pub pk cr sr ems tr k ∈ (after C L false fp ops).evs ∧ C.derive L.pub pk cr sr ems tr = some k ∧
      Ev.finished k tr' vdata ∈ (after C L false fp ops).evs ∧
      vdata = C.vd k.ms (!(after C L false fp ops).isClient) tr' := by
  have hb := (start_base C L false fp).steps (runOps_vstep C L ops (start L false fp).1)
  obtain ⟨k, tr', vdata, hck, hfin⟩ := hb.conn hc
  obtain ⟨hkeys, hvd⟩ := hb.fins k tr' vdata hfin
  obtain ⟨pk, cr, sr, ems, tr, hkev⟩ := hb.keys k hkeys
  exact ⟨k, pk, cr, sr, ems, tr, tr', vdata, hck, hkev, (hb.keysEv _ _ _ _ _ _ _ hkev).2, hfin, hvd⟩

/-! ### "otherwise the transport ends in Failed" -/

/-- **the delivering record finds the endpoint Connected**: `onRecord` is what the datagram loop calls for each
record with the state *at that record*; if that call hands a payload up, that state is Connected.  (So in a datagram
`[close_notify, ApplicationData]` received while Connected the second record delivers nothing: the state at it is
Closed.  `app_data_only_while_connected` above is the history-level corollary and only names *some* intermediate
Connected state.) -/
theorem delivering_record_finds_endpoint_connected (C : Crypto) (L : Loc) (e : Ep) (ct : Nat) (auth : Bool) (pl p : Bytes)
    (h : Out.deliver p ∈ (onRecord C L e ct auth pl).out) : e.conn = .connected :=
  onRecord_deliver_connected C L e ct auth pl p h

/-- **Failed is final, for every history**: an endpoint in state Failed has no running loop
(`alive = false`); it processes nothing further, hands nothing up and sends nothing on ticks. -/
theorem failed_is_dead (C : Crypto) (L : Loc) (isClient : Bool) (fp : Option Bytes) (ops : List Op) :
    (after C L isClient fp ops).conn = .failed → (after C L isClient fp ops).alive = false := by
  unfold after
  have h0 : (start L isClient fp).1.conn = .failed → (start L isClient fp).1.alive = false := by
    unfold start; split <;> simp
  generalize (start L isClient fp).1 = e at h0
  induction ops generalizing e with
  | nil => exact h0
  | cons o os ih =>
    simp only [runOps]
    apply ih
    cases o with
    | packet dec bs =>
      simp only [stepOp, onPacket]
      split
      · exact h0
      · rename_i ha
        have ht := onDatagram_term dec C L (bs.length + 1) e bs
        split
        · intro _; rfl
        · rename_i hcond
          intro hf
          have hne : e.conn ≠ .failed := by
            intro hh; have := h0 hh; simp [this] at ha
          have herr := ht.failing hne hf
          simp [herr] at hcond
          exact absurd hf hcond
    | send d => simp only [stepOp, onSend]; split <;> simpa using h0
    | close =>
      simp only [stepOp, onClose]
      split
      · exact h0
      · split
        · intro _; rfl
        · split <;> (intro _; rfl)
    | tick => exact h0
    | deadline => simp only [stepOp, onDeadline]; split <;> simp_all

theorem dead_endpoint_is_inert (A : DecFn) (C : Crypto) (L : Loc) (e : Ep) (bs : Bytes) (h : e.alive = false) :
    onPacket A C L e bs = (e, []) ∧ onTick e = [] := by
  simp [onPacket, onTick, h]

/-- **"otherwise the transport ends in Failed" — and stays there**: for every history `ops`, if the endpoint is
Failed after it, then after *any* continuation `ops'` (datagrams with any AEAD behaviour, `send`, `close`, timer
ticks, the deadline) it is the very same endpoint and the continuation produced no output: nothing is sent, nothing
is delivered, the state never changes again.  (The per-handler facts that a non-matching Certificate, a bad
ServerKeyExchange signature, a ServerHelloDone without verified key exchange, a wrong verify_data and the deadline
lead to Failed are lemmas: `Lemmas/DtlsTerm.lean`, `certificate_mismatch_fails` … `deadline_ends_handshake`; the
message-sequence filter that decides whether a given datagram reaches a handler is compared on the implementation,
not summarised in a theorem.) -/
theorem failed_forever (C : Crypto) (L : Loc) (isClient : Bool) (fp : Option Bytes) (ops ops' : List Op)
    (h : (after C L isClient fp ops).conn = .failed) :
    after C L isClient fp (ops ++ ops') = after C L isClient fp ops ∧
    (runOps C L (after C L isClient fp ops) ops').2 = [] := by
  have hdead := failed_is_dead C L isClient fp ops h
  have hfin := dead_and_not_connected_is_final C L (after C L isClient fp ops) hdead (by rw [h]; decide) ops'
  refine ⟨?_, by rw [hfin]⟩
  unfold after at hfin ⊢
  rw [runOps_append_fst, hfin]

/-- **once the handshake has completed, an endpoint that is no longer Connected (Closed by an
authenticated close_notify, Failed) never hands application data up again** — whatever arrives. -/
theorem no_app_data_once_completed_and_not_connected (A : DecFn) (C : Crypto) (L : Loc) (e : Ep) (bs : Bytes)
    (hw : e.writeEpoch ≠ 0) (hc : e.conn ≠ .connected) : ∀ p, Out.deliver p ∉ (onPacket A C L e bs).2 := by
  intro p h
  unfold onPacket at h
  split at h
  · simp at h
  · dsimp only at h
    split at h <;> exact onDatagram_no_delivery_after_completion A C L _ e bs hw hc p h

/-- **Connected is only ever reached through a protected record**: a handshake message that arrived in
clear text (anybody can send one) never turns a not-Connected endpoint into a Connected one — before
keys exist because the Finished handlers connect only with keys, afterwards because the gate skips it. -/
theorem connect_needs_protected_record (C : Crypto) (L : Loc) (e : Ep) (m : HsMsg)
    (h : (procMsg C L e false m).ep.conn = .connected) : e.conn = .connected :=
  unauthenticated_message_never_connects C L e m h

/-! ### server role: the full statement fails -/

/-- The property for the server role: Connected only if a certificate with the expected digest was
presented in this handshake. -/
def ServerAuth : Prop :=
  ∀ (C : Crypto) (L : Loc) (f : Bytes) (ops : List Op),
    (after C L false (some f) ops).conn = .connected →
    ∃ leaf, Ev.cert leaf ∈ (after C L false (some f) ops).evs ∧ C.digest leaf = f

/-- a toy instantiation: every ClientHello / ClientKeyExchange decodes, one fixed key set, verify_data `[7]` -/
def wKeys : Keys := ⟨[1], [2], [3], [4], [5], [6], [7]⟩
def wCrypto : Crypto where
  chDecode _ := some ([2], false, [])
  shDecode _ := none
  hvrOk _ := false
  certDecode _ := none
  digest _ := []
  pkOk _ := false
  skeDecode _ := none
  sigOk _ _ _ _ := false
  ckeDecode _ := some [9]
  derive _ _ _ _ _ _ := some wKeys
  vd _ _ _ := [7]
def wLoc : Loc := ⟨[8], [], [], [], [3], [], [], [], []⟩

/-- a record carrying one unfragmented handshake message -/
def wRecord (epoch : Nat) (typ msgSeq : Nat) (body : Bytes) : Bytes :=
  encodeRec ⟨dtlsCtHandshake, 254, 253, epoch, 0, rawMsg typ msgSeq body⟩

/-- the AEAD "opens" the third datagram to the Finished message (the attacker holds the keys it
negotiated itself) -/
def wDec : DecFn := fun _ _ _ _ => some (rawMsg dtlsHtFinished 2 [7])

/-- ClientHello, ClientKeyExchange, Finished — no Certificate at all — from anybody -/
def wOps : List Op :=
  [.packet wDec (wRecord 0 dtlsHtClientHello 0 []),
   .packet wDec (wRecord 0 dtlsHtClientKeyExchange 1 []),
   .packet wDec (encodeRec ⟨dtlsCtHandshake, 254, 253, 1, 0, List.replicate 24 0⟩)]

set_option maxRecDepth 8000 in
theorem server_connects_unauthenticated :
    (after wCrypto wLoc false (some [0xAA]) wOps).conn = .connected ∧
    (after wCrypto wLoc false (some [0xAA]) wOps).evs.all (fun ev => match ev with | .cert _ => false | _ => true) = true := by
  decide

/-- **server_auth is false** for the code as it is: witness-of-failure.  (Finding
`role:server:no-client-certificate`: the server's flight has no CertificateRequest and
`expected_remote_fingerprint` is consulted only when a Certificate message happens to arrive.) -/
theorem server_auth_witness : ¬ ServerAuth := by
  intro h
  obtain ⟨leaf, hm, _⟩ := h wCrypto wLoc [0xAA] wOps server_connects_unauthenticated.1
  have hall := server_connects_unauthenticated.2
  rw [List.all_eq_true] at hall
  have := hall _ hm
  simp at this

/-- If a Certificate message *is* fed to a server that has an expected fingerprint, the same check
as on the client applies: every accepted leaf has the expected digest. -/
theorem server_checks_certificate_if_presented (C : Crypto) (L : Loc) (f : Bytes) (ops : List Op) :
    ∀ leaf, Ev.cert leaf ∈ (after C L false (some f) ops).evs → C.digest leaf = f := by
  have hs := runOps_vstep C L ops (start L false (some f)).1
  suffices h : ∀ v, VSteps C L (view (start L false (some f)).1) v →
      v.expectedFp = some f ∧ ∀ leaf, Ev.cert leaf ∈ v.evs → C.digest leaf = f from (h _ hs).2
  intro v hv
  induction hv with
  | refl => exact ⟨by simp [start, view], by simp [start, view]⟩
  | step _ s ih =>
    obtain ⟨hf, hc⟩ := ih
    cases s with
    | cert leaf hfp hpk =>
      rw [hf] at hfp
      refine ⟨hf, ?_⟩
      intro l hm
      simp at hm
      rcases hm with rfl | hm
      · exact fpMismatch_false hfp
      · exact hc l hm
    | conn c hne => exact ⟨hf, hc⟩
    | ske leaf cr sr body share h1 h2 h3 h4 h5 => exact ⟨hf, by intro l hm; simp at hm; exact hc l hm⟩
    | peerPub pk hs' => exact ⟨hf, hc⟩
    | clientRandom cr hs' => exact ⟨hf, hc⟩
    | keys pk cr sr tr ems k a1 a2 a3 a4 a5 => exact ⟨hf, by intro l hm; simp at hm; exact hc l hm⟩
    | connect k tr fb hk hvd => exact ⟨hf, by intro l hm; simp at hm; exact hc l hm⟩
    | sent k tr fb lb hk hvd => exact ⟨hf, by intro l hm; simp at hm; exact hc l hm⟩

/-! ### non-vacuity: the client really can connect (so `client_auth` is not vacuous) -/

def cCrypto : Crypto where
  chDecode _ := none
  shDecode _ := some ([3], true, some 1)
  hvrOk _ := false
  certDecode _ := some [[5, 5]]
  digest _ := [0xAA]
  pkOk _ := true
  skeDecode _ := some [9]
  sigOk _ _ _ _ := true
  ckeDecode _ := none
  derive _ _ _ _ _ _ := some wKeys
  vd _ _ _ := [7]

def cOps : List Op :=
  [.packet wDec (wRecord 0 dtlsHtServerHello 0 []),
   .packet wDec (wRecord 0 dtlsHtCertificate 1 [1]),
   .packet wDec (wRecord 0 dtlsHtServerKeyExchange 2 [1]),
   .packet wDec (wRecord 0 dtlsHtServerHelloDone 3 []),
   .packet (fun _ _ _ _ => some (rawMsg dtlsHtFinished 4 [7])) (encodeRec ⟨dtlsCtHandshake, 254, 253, 1, 0, List.replicate 24 0⟩)]

set_option maxRecDepth 8000 in
example : (after cCrypto wLoc true (some [0xAA]) cOps).conn = .connected := by decide

/-- … and with a certificate whose digest differs, the same history ends in Failed. -/
def cCryptoBad : Crypto := { cCrypto with digest := fun _ => [0xBB] }
set_option maxRecDepth 8000 in
example : (after cCryptoBad wLoc true (some [0xAA]) cOps).conn = .failed ∧
    (after cCryptoBad wLoc true (some [0xAA]) cOps).alive = false := by decide

/-! ### fingerprint text -/

section Fingerprint
open RtcModel.Fingerprint

/-- the normal form of an accepted fingerprint text is exactly what `fingerprint_from_der` prints for
the bytes the text denotes (upper-case hex pairs joined by ':') -/
theorem normalize_is_from_der_format (s a : RtcModel.Fingerprint.Bytes) (h : normalize s = some a) : a = format (value s) := by
  unfold normalize at h
  dsimp only at h
  split at h
  · cases h
  · rename_i h1
    split at h
    · cases h
    · rename_i h2
      simp only [Bool.or_eq_true, bne_iff_ne, ne_eq, not_or, Decidable.not_not] at h1
      simp only [Bool.not_eq_true', Bool.not_eq_false] at h2
      have hup := strip_all_upHex s (by simpa using h2)
      have := hexPairs_decodePairs (strip s) h1.2 hup
      cases h
      simp [format, value, this]

/-- what `fingerprint_from_der` prints is accepted and is its own normal form -/
theorem format_is_normal (d : RtcModel.Fingerprint.Bytes) (hd : d ≠ []) : normalize (format d) = some (format d) := by
  have hs : strip (format d) = hexPairs d := strip_joinPairs _ (hexPairs_all_upHex d)
  have hlen : ∀ x : RtcModel.Fingerprint.Bytes, (hexPairs x).length = 2 * x.length := by
    intro x
    induction x with
    | nil => rfl
    | cons b r ih => simp only [hexPairs, List.length_cons, ih]; omega
  have hne : (hexPairs d).isEmpty = false := by
    cases d with
    | nil => exact absurd rfl hd
    | cons b r => rfl
  have hall : (hexPairs d).all isHex = true := by
    have := hexPairs_all_upHex d
    simp only [List.all_eq_true] at this ⊢
    intro x hx
    exact upHex_isHex x (this x hx)
  unfold normalize
  simp only [hs, hne, hlen d, hall]
  simp [format]

/-- the bytes denoted by the printed form are the digest -/
theorem value_format (d : RtcModel.Fingerprint.Bytes) : value (format d) = d := by
  simp [value, format, strip_joinPairs _ (hexPairs_all_upHex d), decodePairs_hexPairs]

/-- **fingerprint_normalise**: two accepted fingerprint texts have the same normal form iff they
denote the same bytes (case, colons and their placement do not matter; nothing else is tolerated). -/
theorem fingerprint_normalise (s t a b : RtcModel.Fingerprint.Bytes) (hs : normalize s = some a) (ht : normalize t = some b) :
    a = b ↔ value s = value t := by
  rw [normalize_is_from_der_format s a hs, normalize_is_from_der_format t b ht]
  constructor
  · intro h
    have := congrArg value h
    simpa [value_format] using this
  · intro h
    rw [h]

/-- hence the comparison `handle_certificate` makes (normalised SDP text == printed digest of the
presented certificate) holds iff the SDP text denotes exactly the digest bytes -/
theorem fingerprint_compare_iff_digest (s a d : RtcModel.Fingerprint.Bytes) (hs : normalize s = some a) :
    a = format d ↔ value s = d := by
  rw [normalize_is_from_der_format s a hs]
  constructor
  · intro h
    have := congrArg value h
    simpa [value_format] using this
  · intro h
    rw [h]

-- "aa:Bb:0c" and "aabb0c" both normalise to "AA:BB:0C"; odd length, non-hex and empty are rejected
example : normalize [97, 97, 58, 66, 98, 58, 48, 99] = some [65, 65, 58, 66, 66, 58, 48, 67] := by decide
example : normalize [97, 97, 98, 98, 48, 99] = some [65, 65, 58, 66, 66, 58, 48, 67] := by decide
example : normalize [97, 97, 58, 98] = none ∧ normalize [122, 122] = none ∧ normalize [58, 58] = none := by decide

/-- **the accepted set is exactly the canonical text of the 32-byte digest.**  `handle_certificate`
compares the expected string with what `fingerprint_from_der` prints for the leaf (`format d`, `d` the
SHA-256 digest) *as strings*.  So for every expected text `f` whatsoever — shorter, longer, other case,
other separators, non-hex characters, odd digit count, empty — a Certificate message is accepted only if
`f` is literally the canonical text; then `f` is its own normal form and denotes exactly the digest bytes.
In every other case the transport fails on the spot. -/
theorem certificate_accepted_only_for_canonical_digest (C : Crypto) (e : Ep) (body leaf f : RtcModel.Fingerprint.Bytes) (d : RtcModel.Fingerprint.Bytes)
    (rest : List RtcModel.Fingerprint.Bytes) (hexp : e.ctx.expectedFp = some f) (hdec : C.certDecode body = some (leaf :: rest))
    (hdig : C.digest leaf = format d) (hd : d ≠ []) :
    (handleCertificate C e body ≠ failed e → f = format d ∧ normalize f = some f ∧ value f = d) ∧
    (f ≠ format d → handleCertificate C e body = failed e) := by
  have h2 : f ≠ format d → handleCertificate C e body = failed e := by
    intro hne
    exact certificate_mismatch_fails C e body leaf f rest hexp hdec (by rw [hdig]; exact fun h => hne h.symm)
  refine ⟨?_, h2⟩
  intro hacc
  have hf : f = format d := by
    by_cases h : f = format d
    · exact h
    · exact absurd (h2 h) hacc
  subst hf
  exact ⟨rfl, format_is_normal d hd, value_format d⟩

/-- hence an expected value that does not denote exactly the digest's 32 bytes never gets past the
Certificate message — a truncation (`AB`, 16 bytes, 31 bytes), an extension, the empty string … -/
theorem wrong_length_fingerprint_never_accepted (C : Crypto) (e : Ep) (body leaf f : RtcModel.Fingerprint.Bytes) (d : RtcModel.Fingerprint.Bytes)
    (rest : List RtcModel.Fingerprint.Bytes) (hexp : e.ctx.expectedFp = some f) (hdec : C.certDecode body = some (leaf :: rest))
    (hdig : C.digest leaf = format d) (hlen : d.length = 32) (hv : (value f).length ≠ 32) :
    handleCertificate C e body = failed e := by
  have hd : d ≠ [] := by intro h; rw [h] at hlen; cases hlen
  apply (certificate_accepted_only_for_canonical_digest C e body leaf f d rest hexp hdec hdig hd).2
  intro h
  apply hv
  rw [h, value_format]; exact hlen

/-- … and through SDP: if the expected text is what `SdpFingerprint::parse` made of an attribute value
`s`, acceptance means `s` denotes exactly the digest. -/
theorem sdp_fingerprint_accepted_iff_denotes_digest (C : Crypto) (e : Ep) (body leaf s f : RtcModel.Fingerprint.Bytes) (d : RtcModel.Fingerprint.Bytes)
    (rest : List RtcModel.Fingerprint.Bytes) (hs : normalize s = some f) (hexp : e.ctx.expectedFp = some f)
    (hdec : C.certDecode body = some (leaf :: rest)) (hdig : C.digest leaf = format d) (hd : d ≠ [])
    (hacc : handleCertificate C e body ≠ failed e) : value s = d := by
  have := (certificate_accepted_only_for_canonical_digest C e body leaf f d rest hexp hdec hdig hd).1 hacc
  exact (fingerprint_compare_iff_digest s f d hs).mp this.1


end Fingerprint

end RtcModel.Theorems.C02
