/-
C20 — track sample queues never duplicate, reorder, corrupt or leak samples; no interleaving causes
a data race or memory error.   Property theorems only (helpers: `Lemmas/Spsc.lean`, `Lemmas/SpscTrack.lean`).

Scope (claimed *partial*): every theorem is about the sequentially consistent interleaving model
(`RtcModel.Spsc`, `RtcModel.SpscTrack`): one step = one shared-memory access, any interleaving, any
capacity `cap` with `2·cap ≤ 2^k` (the range in which `capacity.next_power_of_two()` does not
overflow), any number of operations, any word size `W = 2^k` (so index wrap-around is included). The
C++11-style weak memory model (sufficiency of the Acquire/Release orderings) is NOT covered; the
orderings are only pinned by the translator anchors. Sample values are atomic in the model: a torn
slot access is inexpressible; what IS proved is that the two non-atomic accesses (slot write, slot
read) never address the same slot at the same time (`ring_write_read_disjoint`, `no_slot_race`).

Obligation classes: *property* theorems speak about the current code; *auxiliary* ones are the
generated-constant obligation and the witnesses that document why the four fixes were needed
(they are about superseded code versions and say so).
-/
import RtcModel.Lemmas.Spsc
import RtcModel.Lemmas.SpscTrack
import RtcModel.Lemmas.SpscPipe

namespace RtcModel.Theorems.C20
open RtcModel.Spsc RtcModel.SpscTrack RtcModel.C20Word RtcModel.Generated

/-! ### generated-constant obligation (auxiliary) -/

/-- `push`/`pop`/`Drop` advance their index by exactly one, a fresh ring starts empty at 0, the
mask is `slots - 1`; one initial sender, clone adds one, drop removes one, the sender that saw
count 1 closes -/
theorem const_obligations :
    spscPushInc = 1 ∧ spscPopInc = 1 ∧ spscDropInc = 1 ∧ spscInitHead = 0 ∧ spscInitTail = 0 ∧
    spscMaskDec = 1 ∧ trackInitSenders = 1 ∧ trackCloneInc = 1 ∧ trackDropDec = 1 ∧
    trackCloseWhenPrev = 1 := by decide

/-! ### the ring with one pusher role and one popper role (SPSC discipline) -/

/-- **ring_invariant**: for every capacity, every word size `2^k` and every interleaving of the
individual accesses of one `push` sequence and one `pop` sequence (unbounded, across any number of
index wrap-arounds), the ring invariant holds. -/
theorem ring_invariant (cap k : Nat) (h0 : 0 < cap) (h1 : 2 * cap ≤ 2 ^ k) (ls : List RLabel) :
    RingInv (rrun (RSys.init cap (2 ^ k)) ls).ring (rrun (RSys.init cap (2 ^ k)) ls).pu
      (rrun (RSys.init cap (2 ^ k)) ls).po :=
  rrun_inv _ ls (RingInv.init cap k h0 (by omega))

/-- **ring_slot_safety** + FIFO: no access ever reads an uninitialised slot or overwrites an
initialised one, and the values handed out by `pop` are exactly the first `hcount` values written
by `push`, in order (nothing duplicated, reordered, invented or skipped). -/
theorem ring_slot_safety (cap k : Nat) (h0 : 0 < cap) (h1 : 2 * cap ≤ 2 ^ k) (ls : List RLabel) :
    let r := (rrun (RSys.init cap (2 ^ k)) ls).ring
    r.bad = [] ∧ r.outs = r.log.take r.hcount :=
  ⟨(ring_invariant cap k h0 h1 ls).noBad, (ring_invariant cap k h0 h1 ls).outsEq⟩

/-- **ring_write_read_disjoint** ("no data race" inside the SC model): whenever the pusher is about
to write its slot and the popper is about to read (move out of) its slot — the only two accesses of
the real code that are not atomic — they address different slots. -/
theorem ring_write_read_disjoint (cap k : Nat) (h0 : 0 < cap) (h1 : 2 * cap ≤ 2 ^ k) (ls : List RLabel)
    (tl hl : Nat) (v : Val)
    (hp : (rrun (RSys.init cap (2 ^ k)) ls).pu = some (.write tl, v))
    (hq : (rrun (RSys.init cap (2 ^ k)) ls).po = some (.read hl)) :
    (rrun (RSys.init cap (2 ^ k)) ls).ring.idx tl ≠ (rrun (RSys.init cap (2 ^ k)) ls).ring.idx hl := by
  have h := ring_invariant cap k h0 h1 ls
  rw [hp, hq] at h
  exact write_read_disjoint h

/-- **ring_drop_drains**: whenever nobody is inside `push`/`pop` (which `&mut self` of `Drop`
guarantees), `Drop for SpscRing` drops exactly the values still queued — each once, oldest first —
never touches an uninitialised slot and leaves no slot of the buffer initialised. -/
theorem ring_drop_drains (cap k : Nat) (h0 : 0 < cap) (h1 : 2 * cap ≤ 2 ^ k) (ls : List RLabel)
    (hq : (rrun (RSys.init cap (2 ^ k)) ls).pu = none ∧ (rrun (RSys.init cap (2 ^ k)) ls).po = none) :
    let r := (rrun (RSys.init cap (2 ^ k)) ls).ring
    r.drop.2 = r.log.drop r.hcount ∧ r.drop.1.bad = [] ∧ ∀ i, i < r.mask + 1 → r.drop.1.slots i = none := by
  have h := ring_invariant cap k h0 h1 ls
  rw [hq.1, hq.2] at h
  exact ring_drop_spec h

/-- non-vacuity: a concrete interleaved run (capacity 2, two pushes overlapping a pop) ends with one
value delivered and one queued -/
example :
    let s := rrun (RSys.init 2 (2 ^ 64))
      [.push (0, 7), .push (0, 7), .pop, .push (0, 7), .push (0, 7), .push (0, 7), .pop, .pop, .pop, .pop,
       .push (0, 8), .push (0, 8), .push (0, 8), .push (0, 8), .push (0, 8)]
    s.ring.outs = [(0, 7)] ∧ s.ring.drop.2 = [(0, 8)] ∧ s.pu = none ∧ s.po = none := by
  refine ⟨by decide, by decide, by decide, by decide⟩

/-- the wrap-around schedule: capacity 3 on a 2-bit machine word (`W = 4`); three push/pop pairs bring
`tail` to 3, the fourth push wraps `tail` to 0, a fifth push follows while the fourth value is queued -/
def wrapSchedule : List RLabel :=
  let push (v : Val) : List RLabel := List.replicate 5 (.push v)
  let pop : List RLabel := List.replicate 5 .pop
  push (0, 1) ++ pop ++ push (0, 2) ++ pop ++ push (0, 3) ++ pop ++ push (0, 4) ++ push (0, 5)

/-- non-vacuity across the index wrap-around with a capacity that is not a power of two (the former
finding `sched:wrap-npot`, fixed by `fix: SpscRing slot index stays consistent …`): with 4 slots behind
capacity 3 the fifth value goes to its own slot and both queued values are drained by `Drop` -/
example :
    let s := rrun (RSys.init 3 (2 ^ 2)) wrapSchedule
    s.ring.bad = [] ∧ s.ring.tail = 1 ∧ s.ring.tcount = 5 ∧ s.ring.drop.2 = [(0, 4), (0, 5)] := by
  refine ⟨by decide, by decide, by decide, by decide⟩

/-! ### the track queue: any number of producers (cloned / shared handles), one consumer, `stop()` -/

/-- the initial state of the current code: `sample_track(kind, cap)` on a machine with `k`-bit words -/
abbrev init (cap k : Nat) : St := St.init Variant.cur cap (2 ^ k) 0

/-- **track_invariant**: after ANY interleaving (`ls`) of the individual shared-memory accesses of any
number of producer threads (each label names a producer index; handles are created by `cloneTo` and
dropped by `dropSrc` at arbitrary points; operations `send`, `send_many`, `try_send`), the consumer's
`recv` and `stop()`, for every capacity: the lock discipline holds (at most one thread is inside
`push`, at most one inside `pop`) and the ring invariant holds for the two lock holders. -/
theorem track_invariant (cap k : Nat) (h0 : 0 < cap) (h1 : 2 * cap ≤ 2 ^ k) (ls : List Label) :
    TInv (run (init cap k) ls) :=
  run_TInv _ ls (TInv.init cap k h0 (by omega))

/-- **multi_producer_safe** (which contains **slot_safety** for one producer): for every number of
producers, every capacity and every schedule, no access ever reads an uninitialised slot or
overwrites an initialised one, and the values handed out by `pop` (to the consumer or to a
drop-oldest producer) are exactly the first `hcount` values written, in order. -/
theorem multi_producer_safe (cap k : Nat) (h0 : 0 < cap) (h1 : 2 * cap ≤ 2 ^ k) (ls : List Label) :
    (run (init cap k) ls).ring.bad = [] ∧
    (run (init cap k) ls).ring.outs = (run (init cap k) ls).ring.log.take (run (init cap k) ls).ring.hcount :=
  ⟨(track_invariant cap k h0 h1 ls).ring.noBad, (track_invariant cap k h0 h1 ls).ring.outsEq⟩

/-- **mutual_exclusion**: in every reachable state at most one thread is between the accesses of a
`push` (it holds `push_lock`), at most one producer is between the accesses of a drop-oldest `pop`,
and never a producer and the consumer at once (they hold `pop_lock`). -/
theorem mutual_exclusion (cap k : Nat) (ls : List Label) (i j : Nat) :
    let s := run (init cap k) ls
    (holdsPush (s.pp i) = true → holdsPush (s.pp j) = true → i = j) ∧
    (holdsPopP (s.pp i) = true → holdsPopP (s.pp j) = true → i = j) ∧
    (holdsPopP (s.pp i) = true → holdsPopC s.cp = false) := by
  have h : LInv (run (init cap k) ls) := run_induct LInv step_LInv _ ls (LInv.init cap (2 ^ k))
  refine ⟨fun a b => ?_, fun a b => ?_, fun a => ?_⟩
  · have := (h.plockIff i).1 a; have := (h.plockIff j).1 b; simp_all
  · have := (h.poplockP i).1 a; have := (h.poplockP j).1 b; simp_all
  · have := (h.poplockP i).1 a
    cases hc : holdsPopC (run (init cap k) ls).cp with
    | false => rfl
    | true => have := h.poplockC.1 hc; simp_all

/-- **no_slot_race** ("no data race" inside the SC model, track level): whenever some producer is
about to write a slot (`MaybeUninit::write`), nobody else is about to write one, and whoever is about
to read a slot (`assume_init_read`: the consumer, or — vacuously — a drop-oldest producer) addresses
a different slot. -/
theorem no_slot_race (cap k : Nat) (h0 : 0 < cap) (h1 : 2 * cap ≤ 2 ^ k) (ls : List Label)
    (i tl v : Nat) (c : Ctx) (rest : List Nat)
    (hw : (run (init cap k) ls).pp i = .push c v rest (.write tl)) :
    (∀ j c' v' rest' tl', (run (init cap k) ls).pp j = .push c' v' rest' (.write tl') → j = i) ∧
    (∀ j v' rest' hl, (run (init cap k) ls).pp j ≠ .pop v' rest' (.read hl)) ∧
    (∀ g cl hl, (run (init cap k) ls).cp = .pop g cl (.read hl) →
      (run (init cap k) ls).ring.idx tl ≠ (run (init cap k) ls).ring.idx hl) :=
  no_slot_race_of_inv _ (track_invariant cap k h0 h1 ls) i tl v c rest hw

/-- **slot_safety_drop**: whenever no thread is inside `push`/`pop` (in particular when the last
`Arc` of the ring is released), `Drop for SpscRing` drops exactly the queued samples, each once. -/
theorem slot_safety_drop (cap k : Nat) (h0 : 0 < cap) (h1 : 2 * cap ≤ 2 ^ k) (ls : List Label)
    (hq : (run (init cap k) ls).plock = none ∧ (run (init cap k) ls).poplock = none) :
    let r := (run (init cap k) ls).ring
    r.drop.2 = r.log.drop r.hcount ∧ r.drop.1.bad = [] ∧ ∀ i, i < r.mask + 1 → r.drop.1.slots i = none := by
  have h := (track_invariant cap k h0 h1 ls).ring
  have e1 : (run (init cap k) ls).puView = none := by simp [St.puView, hq.1]
  have e2 : (run (init cap k) ls).poView = none := by simp [St.poView, hq.2]
  rw [e1, e2] at h
  exact ring_drop_spec h

/-- **conservation**: in every reachable state, the values handed out by `pop` so far (`outs`, a prefix
of the pushed values `log`) are an *interleaving* of what `recv` returned (`recvd`) and what the
drop-oldest path of `send` discarded (`droppedOld`): each popped sample went to exactly one of the
two, nothing popped vanished, nothing was delivered that was not popped, orders kept. -/
theorem conservation (cap k : Nat) (h0 : 0 < cap) (h1 : 2 * cap ≤ 2 ^ k) (ls : List Label) :
    let s := run (init cap k) ls
    Interleave s.recvd s.droppedOld (s.ring.log.take s.ring.hcount) := by
  intro s
  have hg : GInv s := run_GInv _ ls (GInv.init _ cap (2 ^ k))
  have ho := (track_invariant cap k h0 h1 ls).ring.outsEq
  unfold GInv at hg
  rw [ho] at hg
  exact hg

/-- **no_dup_no_reorder**: `log` is the sequence of successful pushes (slot writes) in execution
order, each entry tagged with the pushing thread and its payload; `recvd` is what `recv` returned.
For every number of producers, capacity and schedule, with overflow (drop-oldest, rejected
`try_send`), `stop()` and source drops anywhere: the received samples are a *subsequence* of the
pushed ones — every received sample is one pushed sample (same tag and payload), none is received
twice, and the samples of each producer arrive in the order that producer pushed them. -/
theorem no_dup_no_reorder (cap k : Nat) (h0 : 0 < cap) (h1 : 2 * cap ≤ 2 ^ k) (ls : List Label) :
    let s := run (init cap k) ls
    List.Sublist s.recvd s.ring.log ∧
    ∀ i : Nat, List.Sublist (s.recvd.filter (fun x => x.1 == i)) (s.ring.log.filter (fun x => x.1 == i)) := by
  have hsub : List.Sublist (run (init cap k) ls).recvd (run (init cap k) ls).ring.log :=
    (conservation cap k h0 h1 ls).sub_left.trans (List.take_sublist _ _)
  exact ⟨hsub, fun i => hsub.filter _⟩

/-- **drain_then_eos** (safety half): for every schedule in which `stop()` was never called, whenever
`recv` has returned end-of-stream (and whenever the `ended` flag is set), every source handle has been
dropped (`closed`), every sample ever pushed has been popped, and the pushed samples are exactly an
interleaving of the received ones and the ones discarded by drop-oldest overflow: every sample that
was still queued when the source closed has been *delivered* (after the close no producer exists that
could discard anything). -/
theorem eos_only_when_drained (cap k : Nat) (h0 : 0 < cap) (h1 : 2 * cap ≤ 2 ^ k) (ls : List Label) :
    let s := run (init cap k) ls
    s.stopCalled = false → (CRes.eos ∈ s.cres ∨ s.ended = true) →
      s.closed = true ∧ s.ring.hcount = s.ring.tcount ∧ Interleave s.recvd s.droppedOld s.ring.log := by
  intro s hs he
  have hF : FInv s := run_FInv _ ls (FInv.init cap k h0 (by omega))
  have hd : Drained s := by
    cases he with
    | inl h => exact (hF.e.eos h).resolve_left (by simp [hs])
    | inr h => exact (hF.e.ended h).resolve_left (by simp [hs])
  refine ⟨hd.1, hd.2, ?_⟩
  have hr := hF.t.ring
  have hnh : s.plock = none := by
    cases hpl : s.plock with
    | none => rfl
    | some i =>
      have h1 := (hF.t.l.plockIff i).2 hpl
      have h2 := closed_no_holder s hF.t.l hd.1 i
      cases hpc : s.pp i <;> simp [hpc, holdsPush, hasHandle] at h1 h2
  have hlen : s.ring.log.length = s.ring.tcount := by
    have := hr.logLen
    simpa [St.puView, hnh, pendW] using this
  have hc := conservation cap k h0 h1 ls
  have e : s.ring.log.take s.ring.hcount = s.ring.log := by rw [hd.2, ← hlen, List.take_length]
  rw [← e]; exact hc

/-- **no_discard_after_close**: in every reachable state in which the source is closed, no step of any
thread discards a sample (`droppedOld` is frozen): together with `eos_only_when_drained` — at
end-of-stream the pushed samples are an interleaving of the received and the discarded ones — every
sample that was queued when the source closed has been delivered by `recv`. -/
theorem no_discard_after_close (cap k : Nat) (ls : List Label) (l : Label)
    (hc : (run (init cap k) ls).closed = true) :
    (step (run (init cap k) ls) l).droppedOld = (run (init cap k) ls).droppedOld :=
  no_discard_after_close_of_inv _ (run_induct LInv step_LInv _ ls (LInv.init cap (2 ^ k))) hc l

/-- **no_lost_wakeup_after_close** (drain_then_eos, liveness ingredient): in every
reachable state in which every source handle has been dropped and the closing thread has finished
(so nothing will ever notify again), the consumer is NOT blocked — neither on `pop_lock` nor in
`notified.await` — so each of its steps makes progress through `recv`, whose only exits are a sample
or end-of-stream (`eos_only_when_drained` says what end-of-stream then means). A bound on the number
of consumer steps to the next `recv` result is not proved (see NOTES). -/
theorem no_lost_wakeup_after_close (cap W : Nat) (ls : List Label) :
    let s := run (St.init Variant.cur cap W 0) ls
    s.closed = true → (∀ i, s.pp i = .none ∨ s.pp i = .reserved ∨ s.pp i = .gone) →
      blocked s (.cons false) = false := by
  intro s hc hg
  exact not_blocked_after_close s (run_WInv _ ls ⟨LInv.init cap W, NInv.init cap W⟩) hc hg

/-- non-vacuity of `no_lost_wakeup_after_close`: the close lands exactly in the old lost-wake-up window
(after the consumer read `source_closed = false`), and the consumer's next step is enabled -/
example :
    let s := run (init 1 64) [.cons true, .cons false, .cons false, .cons false, .cons false, .cons false,
      .cons false, .cons false, .prod 0 (some .dropSrc), .prod 0 none, .prod 0 none, .prod 0 none]
    s.closed = true ∧ s.pp 0 = .gone ∧ s.cp = .await1 0 ∧ blocked s (.cons false) = false := by
  decide

/-- non-vacuity: three producers (two clones), a full capacity-1 queue with drop-oldest, a consumer:
the run delivers a sample, rejects one and discards none -/
example :
    let s := run (init 1 64)
      [.prod 0 (some (.cloneTo 1)), .prod 0 none, .prod 1 (some (.cloneTo 2)), .prod 1 none,
       .prod 0 (some (.send [1])), .prod 2 (some (.trySend 1)), .prod 0 none, .prod 2 none, .prod 0 none,
       .prod 0 none, .prod 0 none, .cons true, .prod 0 none, .prod 0 none, .prod 0 none,
       .prod 2 none, .prod 2 none, .prod 2 none, .prod 2 none, .cons false, .cons false, .cons false,
       .cons false, .cons false, .cons false, .cons false, .cons false, .cons false]
    s.recvd = [(0, 1)] ∧ s.rejected = [(2, 1)] ∧ s.droppedOld = [] := by
  refine ⟨by decide, by decide, by decide⟩

/-! ### the pipeline.rs queue pair (`SampleQueueSender` shared by reference / `SampleQueueReceiver`) -/

/-- initial state of the pipeline pair: `sample_queue_channel(cap)` -/
abbrev pinit (cap k : Nat) : St := St.init Variant.pipeCur cap (2 ^ k) 0

/-- **pipe_invariant**: after ANY interleaving of the accesses of any number of producer threads
sharing the one sender (`send`, `try_send`, release of their reference — the last release runs
`Drop for SampleQueueSender`) and of the receiver (`recv`, `Drop for SampleQueueReceiver`): lock
discipline and the ring invariant for the two lock holders. (Labels of the track-only machines —
the track consumer and `stop()` — do not exist for this pair and are excluded.) -/
theorem pipe_invariant (cap k : Nat) (h0 : 0 < cap) (h1 : 2 * cap ≤ 2 ^ k) (ls : List Label)
    (hl : ∀ l ∈ ls, PipeLabel l) : PTInv (run (pinit cap k) ls) :=
  run_PTInv _ ls hl (PTInv.init cap k h0 (by omega))

/-- **pipe_multi_producer_safe**: slot safety and FIFO hand-out for the pipeline pair, any number
of producer threads on the shared sender; mutual exclusion inside `push`, among drop-oldest producers
inside `pop`, and between a producer and the receiver inside `pop`. -/
theorem pipe_multi_producer_safe (cap k : Nat) (h0 : 0 < cap) (h1 : 2 * cap ≤ 2 ^ k) (ls : List Label)
    (hl : ∀ l ∈ ls, PipeLabel l) (i j : Nat) :
    let s := run (pinit cap k) ls
    s.ring.bad = [] ∧ s.ring.outs = s.ring.log.take s.ring.hcount ∧
    (holdsPush (s.pp i) = true → holdsPush (s.pp j) = true → i = j) ∧
    (holdsPopP (s.pp i) = true → holdsPopP (s.pp j) = true → i = j) ∧
    (holdsPopP (s.pp i) = true → holdsPopR s.rp = false) := by
  have h := pipe_invariant cap k h0 h1 ls hl
  refine ⟨h.ring.noBad, h.ring.outsEq, fun a b => ?_, fun a b => ?_, fun a => ?_⟩
  · have := (h.l.plockIff i).1 a; have := (h.l.plockIff j).1 b; simp_all
  · have := (h.l.poplockP i).1 a; have := (h.l.poplockP j).1 b; simp_all
  · have := (h.l.poplockP i).1 a
    cases hc : holdsPopR (run (pinit cap k) ls).rp with
    | false => rfl
    | true => have := h.l.poplockR.1 hc; simp_all

/-- **pipe_no_slot_race**: the producer about to write a slot is the only writer, no producer is
reading, and the receiver, if about to read, addresses a different slot. -/
theorem pipe_no_slot_race (cap k : Nat) (h0 : 0 < cap) (h1 : 2 * cap ≤ 2 ^ k) (ls : List Label)
    (hl : ∀ l ∈ ls, PipeLabel l) (i tl v : Nat) (c : Ctx) (rest : List Nat)
    (hw : (run (pinit cap k) ls).pp i = .push c v rest (.write tl)) :
    (∀ j c' v' rest' tl', (run (pinit cap k) ls).pp j = .push c' v' rest' (.write tl') → j = i) ∧
    (∀ j v' rest' hl', (run (pinit cap k) ls).pp j ≠ .pop v' rest' (.read hl')) ∧
    (∀ cl hl', (run (pinit cap k) ls).rp = .pop cl (.read hl') →
      (run (pinit cap k) ls).ring.idx tl ≠ (run (pinit cap k) ls).ring.idx hl') :=
  pipe_no_slot_race_of_inv _ (pipe_invariant cap k h0 h1 ls hl) i tl v c rest hw

/-- **pipe_no_dup_no_reorder** + conservation for the pipeline pair: what `pop` handed out (a prefix
of the pushed values) is an interleaving of what `recv` returned and what drop-oldest discarded;
the received samples are a subsequence of the pushed ones, and so is each producer's projection. -/
theorem pipe_no_dup_no_reorder (cap k : Nat) (h0 : 0 < cap) (h1 : 2 * cap ≤ 2 ^ k) (ls : List Label)
    (hl : ∀ l ∈ ls, PipeLabel l) :
    let s := run (pinit cap k) ls
    Interleave s.recvd s.droppedOld (s.ring.log.take s.ring.hcount) ∧ List.Sublist s.recvd s.ring.log ∧
    ∀ i : Nat, List.Sublist (s.recvd.filter (fun x => x.1 == i)) (s.ring.log.filter (fun x => x.1 == i)) := by
  intro s
  have hg : GInv s := run_GInv _ ls (GInv.init _ cap (2 ^ k))
  have ho := (pipe_invariant cap k h0 h1 ls hl).ring.outsEq
  unfold GInv at hg
  rw [ho] at hg
  have hsub := hg.sub_left.trans (List.take_sublist _ _)
  exact ⟨hg, hsub, fun i => hsub.filter _⟩

/-- **pipe_slot_safety_drop**: pipeline pair — whenever no thread is inside `push`/`pop`, `Drop for
SpscRing` drops exactly the queued samples, each once, and leaves no slot initialised. -/
theorem pipe_slot_safety_drop (cap k : Nat) (h0 : 0 < cap) (h1 : 2 * cap ≤ 2 ^ k) (ls : List Label)
    (hl : ∀ l ∈ ls, PipeLabel l)
    (hq : (run (pinit cap k) ls).plock = none ∧ (run (pinit cap k) ls).poplock = none) :
    let r := (run (pinit cap k) ls).ring
    r.drop.2 = r.log.drop r.hcount ∧ r.drop.1.bad = [] ∧ ∀ i, i < r.mask + 1 → r.drop.1.slots i = none := by
  have h := (pipe_invariant cap k h0 h1 ls hl).ring
  have e1 : (run (pinit cap k) ls).puView = none := by simp [St.puView, hq.1]
  have e2 : (run (pinit cap k) ls).poViewR = none := by simp [St.poViewR, hq.2]
  rw [e1, e2] at h
  exact ring_drop_spec h

/-- non-vacuity for the pipeline pair: two producers on the shared sender, capacity 1 (the second
send overflows: drop-oldest), the receiver gets the newer sample -/
example :
    let s := run (pinit 1 64) ([.prod 0 (some (.cloneTo 1)), .prod 0 none, .prod 0 (some (.send [1]))] ++
      List.replicate 7 (.prod 0 none) ++ [.prod 1 (some (.send [2]))] ++ List.replicate 15 (.prod 1 none) ++
      [.rcv (some .recv)] ++ List.replicate 6 (.rcv none))
    s.recvd = [(1, 2)] ∧ s.droppedOld = [(0, 1)] ∧ s.ring.bad = [] := by
  refine ⟨by decide, by decide, by decide⟩

/-! ### auxiliary: witnesses about SUPERSEDED code versions (why the fixes were needed) -/

/-- The schedule of the design-time finding: two producers (cloned handles), no producer lock.
Both load `tail = 0`, both pass the full-check, both write slot 0. -/
def twoProducerSchedule : List Label :=
  [.prod 0 (some (.cloneTo 1)), .prod 0 none,
   .prod 0 (some (.send [1])), .prod 0 none, .prod 0 none,
   .prod 1 (some (.send [1])), .prod 1 none, .prod 1 none,
   .prod 0 none, .prod 1 none,
   .prod 0 none, .prod 1 none]

/-- **multi_producer_unsafe_without_lock_witness**: on the code before commit "fix: serialise
producers of the sample queues" (`plock = false`) slot safety is FALSE: the schedule above makes the
second producer overwrite the initialised slot 0 (first sample lost and leaked; replayed on the real
code: `sched:2:leaked-sample`, and with a stalled producer `sched:2:crash-signal-11`). -/
theorem multi_producer_unsafe_without_lock_witness :
    ¬ (∀ ls : List Label, (run (St.init ⟨false, false, false⟩ 2 (2 ^ 64) 0) ls).ring.bad = []) := by
  intro h
  have := h twoProducerSchedule
  revert this
  decide

/-- The schedule of the second finding: the consumer finds the queue empty, then the producer pushes
its last sample and drops the source, then the consumer reads `source_closed`. -/
def lateCloseSchedule : List Label :=
  [.cons true, .cons false, .cons false, .cons false, .cons false, .cons false,       -- recv: … pop → None
   .prod 0 (some (.send [1])), .prod 0 none, .prod 0 none, .prod 0 none, .prod 0 none,
   .prod 0 none, .prod 0 none, .prod 0 none,                                            -- send completes
   .prod 0 (some .dropSrc), .prod 0 none, .prod 0 none, .prod 0 none,                   -- source dropped
   .cons false, .cons false]                                                            -- closed → EOS

/-- **eos_before_drained_witness**: on the code before commit "fix: SampleStreamTrack::recv …"
(`rfix = false`, with the producer lock) `eos_only_when_drained` is FALSE: end-of-stream is returned
while a pushed sample is still queued and is never delivered (replayed on the real code:
`sched:1:eos-before-drained`). -/
theorem eos_before_drained_witness :
    ¬ (∀ ls : List Label, let s := run (St.init ⟨true, false, false⟩ 1 (2 ^ 64) 0) ls
        s.stopCalled = false → CRes.eos ∈ s.cres → s.ring.hcount = s.ring.tcount) := by
  intro h
  have := h lateCloseSchedule
  revert this
  decide

/-- The schedule of the third finding: the source is dropped after the consumer has read
`source_closed = false` but before it creates its `Notified`. -/
def lostWakeupSchedule : List Label :=
  [.cons true, .cons false, .cons false, .cons false, .cons false, .cons false, .cons false,  -- … closed? no → unlock
   .prod 0 (some .dropSrc), .prod 0 none, .prod 0 none, .prod 0 none,                   -- drop: closed, notify_waiters
   .cons false]                                                                         -- notified().await

/-- **lost_wakeup_witness**: on the code before the `recv` fix the consumer can end up blocked
forever: every source is dropped and `notify_waiters` has run, yet the consumer's waiter is
registered and was never woken (replayed on the real code: `sched:1:close-never-wakes-consumer`;
same window for `stop()`: `sched:1:stop-never-wakes-consumer`). -/
theorem lost_wakeup_witness :
    let s := run (St.init ⟨true, false, false⟩ 1 (2 ^ 64) 0) lostWakeupSchedule
    s.closed = true ∧ s.live = [] ∧ s.pp 0 = .gone ∧ s.cp = .await2 ∧ s.ntf.woken = false ∧
    blocked s (.cons false) = true := by
  decide

/-- on the current code the same two schedules end correctly: the late sample is delivered before
end-of-stream, and the closing `notify_waiters` reaches the `Notified` created first -/
example :
    let s := run (init 1 64) ([.cons true, .cons false, .cons false, .cons false, .cons false, .cons false, .cons false, .cons false] ++
      [.prod 0 (some .dropSrc), .prod 0 none, .prod 0 none, .prod 0 none] ++
      [.cons false, .cons false, .cons false, .cons false])
    s.cres = [CRes.eos] ∧ blocked s (.cons false) = false := by
  decide

end RtcModel.Theorems.C20
