/-
C20 — track sample queues never duplicate, reorder, corrupt or leak samples; no interleaving causes
a data race or memory error.   Property theorems only (helpers: `Lemmas/Spsc.lean`, `Lemmas/SpscTrack.lean`).

Scope (claimed *partial*): every theorem is about the sequentially consistent interleaving model
(`RtcModel.Spsc`, `RtcModel.SpscTrack`): one step = one shared-memory access, any interleaving, any
capacity, any number of operations. The C++11-style weak memory model (sufficiency of the
Acquire/Release orderings) is NOT covered; the orderings are only pinned by the translator anchors.
-/
import RtcModel.Lemmas.Spsc
import RtcModel.Lemmas.SpscTrack

namespace RtcModel.Theorems.C20
open RtcModel.Spsc RtcModel.SpscTrack RtcModel.C20Word RtcModel.Generated

/-! ### generated-constant obligations -/

/-- `push`/`pop`/`Drop` advance their index by exactly one and a fresh ring starts empty at 0 -/
theorem const_ring_increments :
    spscPushInc = 1 ∧ spscPopInc = 1 ∧ spscDropInc = 1 ∧ spscInitHead = 0 ∧ spscInitTail = 0 := by decide

/-- one initial sender; clone adds one, drop removes one, the sender that saw count 1 closes -/
theorem const_sender_counting :
    trackInitSenders = 1 ∧ trackCloneInc = 1 ∧ trackDropDec = 1 ∧ trackCloseWhenPrev = 1 := by decide

/-! ### the ring with one pusher role and one popper role (SPSC discipline) -/

/-- **ring_invariant**: for every capacity, every word size and every interleaving of the individual
accesses of one `push` sequence and one `pop` sequence (unbounded), the ring invariant holds. -/
theorem ring_invariant (cap W : Nat) (h0 : 0 < cap) (h1 : cap < W) (ls : List RLabel)
    (hw : NoWrap (rrun (RSys.init cap W) ls).ring) :
    RingInv (rrun (RSys.init cap W) ls).ring (rrun (RSys.init cap W) ls).pu (rrun (RSys.init cap W) ls).po :=
  rrun_inv _ ls (RingInv.init cap W h0 h1) hw

/-- **ring_slot_safety**: no access ever reads an uninitialised slot or overwrites an initialised one. -/
theorem ring_slot_safety (cap W : Nat) (h0 : 0 < cap) (h1 : cap < W) (ls : List RLabel)
    (hw : NoWrap (rrun (RSys.init cap W) ls).ring) :
    (rrun (RSys.init cap W) ls).ring.bad = [] :=
  (ring_invariant cap W h0 h1 ls hw).noBad

/-- **ring_fifo**: the values handed out by `pop` are exactly the first `hcount` values written by
`push`, in order (nothing duplicated, reordered, invented or skipped). -/
theorem ring_fifo (cap W : Nat) (h0 : 0 < cap) (h1 : cap < W) (ls : List RLabel)
    (hw : NoWrap (rrun (RSys.init cap W) ls).ring) :
    (rrun (RSys.init cap W) ls).ring.outs =
      (rrun (RSys.init cap W) ls).ring.log.take (rrun (RSys.init cap W) ls).ring.hcount :=
  (ring_invariant cap W h0 h1 ls hw).outsEq

/-- **ring_drop_drains**: whenever nobody is inside `push`/`pop` (which `&mut self` of `Drop`
guarantees), `Drop for SpscRing` drops exactly the values still queued — each once, oldest first —
never touches an uninitialised slot and leaves no initialised slot behind. -/
theorem ring_drop_drains (cap W : Nat) (h0 : 0 < cap) (h1 : cap < W) (ls : List RLabel)
    (hw : NoWrap (rrun (RSys.init cap W) ls).ring)
    (hq : (rrun (RSys.init cap W) ls).pu = none ∧ (rrun (RSys.init cap W) ls).po = none) :
    let r := (rrun (RSys.init cap W) ls).ring
    r.drop.2 = r.log.drop r.hcount ∧ r.drop.1.bad = [] ∧ ∀ i, i < r.cap → r.drop.1.slots i = none := by
  have h := ring_invariant cap W h0 h1 ls hw
  rw [hq.1, hq.2] at h
  exact ring_drop_spec h hw

/-- non-vacuity: a concrete interleaved run (capacity 2, two pushes overlapping a pop) satisfies the
hypotheses and ends with one value delivered and one queued -/
example :
    let s := rrun (RSys.init 2 (2 ^ 64))
      [.push (0, 7), .push (0, 7), .pop, .push (0, 7), .push (0, 7), .push (0, 7), .pop, .pop, .pop, .pop,
       .push (0, 8), .push (0, 8), .push (0, 8), .push (0, 8), .push (0, 8)]
    NoWrap s.ring ∧ s.ring.outs = [(0, 7)] ∧ s.ring.drop.2 = [(0, 8)] ∧ s.pu = none ∧ s.po = none := by
  refine ⟨Or.inl (by decide), by decide, by decide, by decide, by decide⟩

/-- the wrap-around schedule: capacity 3 on a 2-bit machine word (`W = 4`); three push/pop pairs bring
`tail` to 3, the fourth push writes slot `3 % 3 = 0` and wraps `tail` to 0, the fifth push then
computes slot `0 % 3 = 0` again although that slot still holds the fourth value -/
def wrapSchedule : List RLabel :=
  let push (v : Val) : List RLabel := List.replicate 5 (.push v)
  let pop : List RLabel := List.replicate 5 .pop
  push (0, 1) ++ pop ++ push (0, 2) ++ pop ++ push (0, 3) ++ pop ++ push (0, 4) ++ push (0, 5)

/-- **slot_safety_needs_nowrap_witness** (KNOWN FINDING `sched:wrap-npot:*`): without the `NoWrap`
hypothesis `ring_slot_safety` is FALSE — the full statement "for all capacities, word sizes and
schedules no slot is overwritten or read uninitialised" fails once the indices wrap, for a capacity
that does not divide the word modulus, even with a single producer and a single consumer.
(`ring_slot_safety` is the part that holds: power-of-two capacities always, any capacity for the
first `W` pushes.) -/
theorem slot_safety_needs_nowrap_witness :
    ¬ (∀ (cap W : Nat) (ls : List RLabel), 0 < cap → cap < W → (rrun (RSys.init cap W) ls).ring.bad = []) := by
  intro h
  have := h 3 4 wrapSchedule (by decide) (by decide)
  revert this
  decide

/-! ### the track queue: any number of producers (cloned / shared handles), one consumer, `stop()` -/

/-- the initial state of the current code: `sample_track(kind, cap)` on a machine with word modulus `W` -/
abbrev init (cap W : Nat) : St := St.init Variant.cur cap W 0

/-- **track_invariant**: after ANY interleaving (`ls`) of the individual shared-memory accesses of any
number of producer threads (each label names a producer index; handles are created by `cloneTo` and
dropped by `dropSrc` at arbitrary points; operations `send`, `send_many`, `try_send`), the consumer's
`recv` and `stop()`, for every capacity: the lock discipline holds (at most one thread is inside
`push`, at most one inside `pop`) and the ring invariant holds for the two lock holders. -/
theorem track_invariant (cap W : Nat) (h0 : 0 < cap) (h1 : cap < W) (ls : List Label)
    (hw : NoWrap (run (init cap W) ls).ring) : TInv (run (init cap W) ls) :=
  run_TInv _ ls (TInv.init cap W h0 h1) hw

/-- **multi_producer_safe** (which contains **slot_safety** for one producer): for every number of
producers, every capacity and every schedule, no access ever reads an uninitialised slot or
overwrites an initialised one, and the values handed out by `pop` (to the consumer or to a
drop-oldest producer) are exactly the first `hcount` values written, in order. -/
theorem multi_producer_safe (cap W : Nat) (h0 : 0 < cap) (h1 : cap < W) (ls : List Label)
    (hw : NoWrap (run (init cap W) ls).ring) :
    (run (init cap W) ls).ring.bad = [] ∧
    (run (init cap W) ls).ring.outs = (run (init cap W) ls).ring.log.take (run (init cap W) ls).ring.hcount :=
  ⟨(track_invariant cap W h0 h1 ls hw).ring.noBad, (track_invariant cap W h0 h1 ls hw).ring.outsEq⟩

/-- **mutual_exclusion**: in every reachable state at most one thread is between the accesses of a
`push` (it holds `push_lock`) and at most one between the accesses of a `pop` (it holds `pop_lock`). -/
theorem mutual_exclusion (cap W : Nat) (h0 : 0 < cap) (h1 : cap < W) (ls : List Label)
    (hw : NoWrap (run (init cap W) ls).ring) (i j : Nat) :
    let s := run (init cap W) ls
    (holdsPush (s.pp i) = true → holdsPush (s.pp j) = true → i = j) ∧
    (holdsPopP (s.pp i) = true → holdsPopC s.cp = false) := by
  have h := (track_invariant cap W h0 h1 ls hw).l
  refine ⟨fun a b => ?_, fun a => ?_⟩
  · have := (h.plockIff i).1 a; have := (h.plockIff j).1 b; simp_all
  · have := (h.poplockP i).1 a
    cases hc : holdsPopC (run (init cap W) ls).cp with
    | false => rfl
    | true => have := h.poplockC.1 hc; simp_all

/-- **slot_safety_drop**: whenever no thread is inside `push`/`pop` (in particular when the last
`Arc` of the ring is released), `Drop for SpscRing` drops exactly the queued samples, each once. -/
theorem slot_safety_drop (cap W : Nat) (h0 : 0 < cap) (h1 : cap < W) (ls : List Label)
    (hw : NoWrap (run (init cap W) ls).ring)
    (hq : (run (init cap W) ls).plock = none ∧ (run (init cap W) ls).poplock = none) :
    let r := (run (init cap W) ls).ring
    r.drop.2 = r.log.drop r.hcount ∧ r.drop.1.bad = [] ∧ ∀ i, i < r.cap → r.drop.1.slots i = none := by
  have h := (track_invariant cap W h0 h1 ls hw).ring
  have e1 : (run (init cap W) ls).puView = none := by simp [St.puView, hq.1]
  have e2 : (run (init cap W) ls).poView = none := by simp [St.poView, hq.2]
  rw [e1, e2] at h
  exact ring_drop_spec h hw

/-- **no_dup_no_reorder**: `log` is the sequence of successful pushes (slot writes) in execution
order, each entry tagged with the pushing thread and its payload; `recvd` is what `recv` returned.
For every number of producers, capacity and schedule, with overflow (drop-oldest, rejected
`try_send`), `stop()` and source drops anywhere: the received samples are a *subsequence* of the
pushed ones — every received sample is one pushed sample (same tag and payload), none is received
twice, and the samples of each producer arrive in the order that producer pushed them. -/
theorem no_dup_no_reorder (cap W : Nat) (h0 : 0 < cap) (h1 : cap < W) (ls : List Label)
    (hw : NoWrap (run (init cap W) ls).ring) :
    let s := run (init cap W) ls
    List.Sublist s.recvd s.ring.log ∧
    ∀ i : Nat, List.Sublist (s.recvd.filter (fun x => x.1 == i)) (s.ring.log.filter (fun x => x.1 == i)) := by
  have hg : GInv (run (init cap W) ls) := run_GInv _ ls (GInv.init _ cap W)
  have ho := (track_invariant cap W h0 h1 ls hw).ring.outsEq
  have hsub : List.Sublist (run (init cap W) ls).recvd (run (init cap W) ls).ring.log := by
    unfold GInv at hg
    rw [ho] at hg
    exact hg.trans (List.take_sublist _ _)
  exact ⟨hsub, fun i => hsub.filter _⟩

/-- **drain_then_eos** (safety half): for every schedule in which `stop()` was never called, whenever
`recv` has returned end-of-stream (and whenever the `ended` flag is set), every source handle has been
dropped (`closed`) and the queue has been drained completely: every sample ever pushed has been
popped (`hcount = tcount`), and that remains so. -/
theorem eos_only_when_drained (cap W : Nat) (h0 : 0 < cap) (h1 : cap < W) (ls : List Label)
    (hw : NoWrap (run (init cap W) ls).ring) :
    let s := run (init cap W) ls
    s.stopCalled = false → (CRes.eos ∈ s.cres ∨ s.ended = true) →
      s.closed = true ∧ s.ring.hcount = s.ring.tcount ∧ s.ring.outs = s.ring.log := by
  intro s hs he
  have hF : FInv s := run_FInv _ ls (FInv.init cap W h0 h1) hw
  have hd : Drained s := by
    cases he with
    | inl h => exact (hF.e.eos h).resolve_left (by simp [hs])
    | inr h => exact (hF.e.ended h).resolve_left (by simp [hs])
  refine ⟨hd.1, hd.2, ?_⟩
  have hr := hF.t.ring
  have hnh : s.plock = none := by
    cases hpl : s.plock with
    | none => rfl
    | some i =>
      have h1 := (hF.t.l.plockIff i).2 hpl
      have h2 := closed_no_holder s hF.t.l hd.1 i
      cases hpc : s.pp i <;> simp [hpc, holdsPush, hasHandle] at h1 h2
  have hlen : s.ring.log.length = s.ring.tcount := by
    have := hr.logLen
    simpa [St.puView, hnh, pendW] using this
  rw [hr.outsEq, hd.2, ← hlen, List.take_length]

/-- **no_lost_wakeup_after_close** (drain_then_eos, liveness ingredient; needs no `NoWrap`): in every
reachable state in which every source handle has been dropped and the closing thread has finished
(so nothing will ever notify again), the consumer is NOT blocked — neither on `pop_lock` nor in
`notified.await` — so each of its steps makes progress through `recv`, whose only exits are a sample
or end-of-stream (`eos_only_when_drained` says what end-of-stream then means). A bound on the number
of consumer steps to the next `recv` result is not proved (see NOTES). -/
theorem no_lost_wakeup_after_close (cap W : Nat) (ls : List Label) :
    let s := run (init cap W) ls
    s.closed = true → (∀ i, s.pp i = .none ∨ s.pp i = .reserved ∨ s.pp i = .gone) →
      blocked s (.cons false) = false := by
  intro s hc hg
  exact not_blocked_after_close s (run_WInv _ ls ⟨LInv.init cap W, NInv.init cap W⟩) hc hg

/-- non-vacuity of `no_lost_wakeup_after_close`: the close lands exactly in the old lost-wake-up window
(after the consumer read `source_closed = false`), and the consumer's next step is enabled -/
example :
    let s := run (init 1 (2 ^ 64)) [.cons true, .cons false, .cons false, .cons false, .cons false, .cons false,
      .cons false, .prod 0 (some .dropSrc), .prod 0 none, .prod 0 none, .prod 0 none]
    s.closed = true ∧ s.pp 0 = .gone ∧ s.cp = .await1 0 ∧ blocked s (.cons false) = false := by
  decide

/-- non-vacuity: three producers (two clones), a full capacity-1 queue with drop-oldest, a consumer:
the hypotheses hold and the run delivers a sample -/
example :
    let s := run (init 1 (2 ^ 64))
      [.prod 0 (some (.cloneTo 1)), .prod 0 none, .prod 1 (some (.cloneTo 2)), .prod 1 none,
       .prod 0 (some (.send [1])), .prod 2 (some (.trySend 1)), .prod 0 none, .prod 2 none, .prod 0 none,
       .prod 0 none, .prod 0 none, .cons true, .prod 0 none, .prod 0 none, .prod 0 none,
       .prod 2 none, .prod 2 none, .prod 2 none, .prod 2 none, .cons false, .cons false, .cons false,
       .cons false, .cons false, .cons false, .cons false, .cons false, .cons false]
    NoWrap s.ring ∧ s.recvd = [(0, 1)] ∧ s.rejected = [(2, 1)] := by
  refine ⟨Or.inl (by decide), by decide, by decide⟩

/-! ### findings (earlier code versions) -/

/-- The schedule of the design-time finding: two producers (cloned handles), no producer lock.
Both load `tail = 0`, both pass the full-check, both write slot 0. -/
def twoProducerSchedule : List Label :=
  [.prod 0 (some (.cloneTo 1)), .prod 0 none,
   .prod 0 (some (.send [1])), .prod 0 none, .prod 0 none,
   .prod 1 (some (.send [1])), .prod 1 none, .prod 1 none,
   .prod 0 none, .prod 1 none,
   .prod 0 none, .prod 1 none]

/-- **multi_producer_unsafe_without_lock_witness**: on the code before commit "fix: serialise
producers of the sample queues" (`plock = false`) slot safety is FALSE: the schedule above makes the
second producer overwrite the initialised slot 0 (first sample lost and leaked; replayed on the real
code: `sched:2:leaked-sample`, and with a stalled producer `sched:2:crash-signal-11`). -/
theorem multi_producer_unsafe_without_lock_witness :
    ¬ (∀ ls : List Label, (run (St.init ⟨false, false⟩ 2 (2 ^ 64) 0) ls).ring.bad = []) := by
  intro h
  have := h twoProducerSchedule
  revert this
  decide

/-- The schedule of the second finding: the consumer finds the queue empty, then the producer pushes
its last sample and drops the source, then the consumer reads `source_closed`. -/
def lateCloseSchedule : List Label :=
  [.cons true, .cons false, .cons false, .cons false, .cons false,                    -- recv: … pop → None
   .prod 0 (some (.send [1])), .prod 0 none, .prod 0 none, .prod 0 none, .prod 0 none,
   .prod 0 none, .prod 0 none, .prod 0 none,                                            -- send completes
   .prod 0 (some .dropSrc), .prod 0 none, .prod 0 none, .prod 0 none,                   -- source dropped
   .cons false, .cons false]                                                            -- closed → EOS

/-- **eos_before_drained_witness**: on the code before commit "fix: SampleStreamTrack::recv …"
(`rfix = false`, with the producer lock) `eos_only_when_drained` is FALSE: end-of-stream is returned
while a pushed sample is still queued and is never delivered (replayed on the real code:
`sched:1:eos-before-drained`). -/
theorem eos_before_drained_witness :
    ¬ (∀ ls : List Label, let s := run (St.init ⟨true, false⟩ 1 (2 ^ 64) 0) ls
        s.stopCalled = false → CRes.eos ∈ s.cres → s.ring.hcount = s.ring.tcount) := by
  intro h
  have := h lateCloseSchedule
  revert this
  decide

/-- The schedule of the third finding: the source is dropped after the consumer has read
`source_closed = false` but before it creates its `Notified`. -/
def lostWakeupSchedule : List Label :=
  [.cons true, .cons false, .cons false, .cons false, .cons false, .cons false,        -- … closed? no → unlock
   .prod 0 (some .dropSrc), .prod 0 none, .prod 0 none, .prod 0 none,                   -- drop: closed, notify_waiters
   .cons false]                                                                         -- notified().await

/-- **lost_wakeup_witness**: on the code before the `recv` fix the consumer can end up blocked
forever: every source is dropped and `notify_waiters` has run, yet the consumer's waiter is
registered and was never woken (replayed on the real code: `sched:1:close-never-wakes-consumer`;
same window for `stop()`: `sched:1:stop-never-wakes-consumer`). -/
theorem lost_wakeup_witness :
    let s := run (St.init ⟨true, false⟩ 1 (2 ^ 64) 0) lostWakeupSchedule
    s.closed = true ∧ s.live = [] ∧ s.pp 0 = .gone ∧ s.cp = .await2 ∧ s.ntf.woken = false ∧
    blocked s (.cons false) = true := by
  decide

/-- on the current code the same two schedules end correctly: the late sample is delivered before
end-of-stream, and the closing `notify_waiters` reaches the `Notified` created first -/
example :
    let s := run (init 1 (2 ^ 64)) ([.cons true, .cons false, .cons false, .cons false, .cons false, .cons false, .cons false] ++
      [.prod 0 (some .dropSrc), .prod 0 none, .prod 0 none, .prod 0 none] ++
      [.cons false, .cons false, .cons false, .cons false])
    s.cres = [CRes.eos] ∧ blocked s (.cons false) = false := by
  decide

end RtcModel.Theorems.C20
