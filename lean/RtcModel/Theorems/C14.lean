/-
C14 — SRTP-mandatory modes never send or accept cleartext media.
Property theorems only; the model is `RtcModel/Gate.lean`, helper lemmas `RtcModel/Lemmas/Gate.lean`.

All statements quantify over an arbitrary initial system `s : Tid → Tr` (any number of transports,
any `srtp_required` flags, sessions, bridges, listeners, observers) and an arbitrary, unbounded
sequence of operations `ops` (install keys, send_rtp, raw send, send_rtcp, sync BYE, receive
clear / protected(ok?) / garbage RTP and RTCP, install / clear bridge, close — on any transport of
the system, in any order).  Task interleavings are such sequences because every gate reads the
session slot exactly once per call (see `Gate.lean`).
-/
import RtcModel.Lemmas.Gate

namespace RtcModel.Theorems.C14
open RtcModel.Gate

/-! ### step-level facts (one gate evaluation from an arbitrary state) -/

/-- Outbound, one step: whatever the operation and whatever path produced it (own send, raw send,
RTCP, close-time BYE, bridge relay from ANY other transport), a datagram put on the connection of a
mandatory transport `c` is the output of `c`'s own session under the keys currently in `c`'s slot. -/
theorem out_step (s : St) (o : Op) (c : Tid) (m : Media) (f : Form) (src : Src)
    (hreq : (s c).required = true) (hev : Ev.emit c m f src ∈ (step s o).2) :
    ∃ k, (s c).keys = some k ∧ f = .prot c k := by
  cases o with
  | installKeys t k => simp [step] at hev
  | setBridge t b => simp [step] at hev
  | clearBridge t => simp [step] at hev
  | sendRtp t =>
    simp only [step, sendRtpGate] at hev
    split at hev <;> (try split at hev) <;> simp at hev
    all_goals (obtain ⟨rfl, rfl, rfl, rfl⟩ := hev; simp_all)
  | sendRaw t p =>
    simp only [step, sendRawGate] at hev
    split at hev <;> (try split at hev) <;> simp at hev
    all_goals (obtain ⟨rfl, rfl, rfl, rfl⟩ := hev; simp_all)
  | sendRtcp t =>
    simp only [step, sendRtcpGate] at hev
    split at hev <;> (try split at hev) <;> simp at hev
    all_goals (obtain ⟨rfl, rfl, rfl, rfl⟩ := hev; simp_all)
  | syncBye t =>
    simp only [step, syncByeGate] at hev
    split at hev <;> (try split at hev) <;> simp at hev
    all_goals (obtain ⟨rfl, rfl, rfl, rfl⟩ := hev; simp_all)
  | close t =>
    simp only [step, syncByeGate] at hev
    split at hev <;> (try split at hev) <;> simp at hev
    all_goals (obtain ⟨rfl, rfl, rfl, rfl⟩ := hev; simp_all)
  | recvRtcp t w =>
    simp only [step, recvRtcp] at hev
    split at hev <;> (try split at hev) <;> simp at hev
  | recvRtp t w v =>
    simp only [step, recvRtp] at hev
    split at hev
    · simp at hev
    · rename_i p _
      simp only [afterAccept, List.mem_append] at hev
      rcases hev with hev | hev
      · split at hev <;> simp at hev
      · split at hev
        · rename_i b _
          simp only [List.mem_append] at hev
          rcases hev with hev | hev
          · split at hev <;> simp at hev
          · simp only [bridgeGate] at hev
            split at hev <;> (try split at hev) <;> simp at hev
            all_goals (obtain ⟨hc, rfl, rfl, rfl⟩ := hev; subst hc; simp_all)
        · split at hev <;> simp at hev

/-- Inbound, one step: a plaintext packet handed to a listener / observer / RTCP listener / a bridge
target's observer on behalf of mandatory transport `t` came out of a successful `unprotect` of a
datagram protected under the keys currently in `t`'s slot. -/
theorem in_step (s : St) (o : Op) (t : Tid) (sink : Sink) (p : Prov)
    (hreq : (s t).required = true) (hev : Ev.deliver t sink p ∈ (step s o).2) :
    ∃ k, (s t).keys = some k ∧ p = .auth k ∧
      ((∃ v a, o = .recvRtp t (.prot k true a) v) ∨ ∃ a, o = .recvRtcp t (.prot k true a)) := by
  cases o with
  | installKeys t k => simp [step] at hev
  | setBridge t b => simp [step] at hev
  | clearBridge t => simp [step] at hev
  | sendRtp t' =>
    simp only [step, sendRtpGate] at hev
    split at hev <;> (try split at hev) <;> simp at hev
  | sendRaw t' p' =>
    simp only [step, sendRawGate] at hev
    split at hev <;> (try split at hev) <;> simp at hev
  | sendRtcp t' =>
    simp only [step, sendRtcpGate] at hev
    split at hev <;> (try split at hev) <;> simp at hev
  | syncBye t' =>
    simp only [step, syncByeGate] at hev
    split at hev <;> (try split at hev) <;> simp at hev
  | close t' =>
    simp only [step, syncByeGate] at hev
    split at hev <;> (try split at hev) <;> simp at hev
  | recvRtcp t' w =>
    simp only [step, recvRtcp] at hev
    split at hev
    · simp at hev
    · rename_i p' hg
      split at hev <;> simp at hev
      obtain ⟨rfl, rfl, rfl⟩ := hev
      simp only [recvRtcpGate] at hg
      split at hg
      · rename_i k hk
        split at hg <;> simp at hg
        obtain ⟨⟨rfl, rfl⟩, rfl⟩ := hg
        exact ⟨_, hk, rfl, Or.inr ⟨_, rfl⟩⟩
      · simp [hreq] at hg
  | recvRtp t' w v =>
    simp only [step, recvRtp] at hev
    split at hev
    · simp at hev
    · rename_i p' hg
      have hsrc : t' = t ∧ p' = p := by
        simp only [afterAccept, List.mem_append] at hev
        rcases hev with hev | hev
        · split at hev <;> simp at hev
          exact ⟨hev.1.symm, hev.2.2.symm⟩
        · split at hev
          · simp only [List.mem_append] at hev
            rcases hev with hev | hev
            · split at hev <;> simp at hev
              exact ⟨hev.1.symm, hev.2.2.symm⟩
            · simp only [bridgeGate] at hev
              split at hev <;> (try split at hev) <;> simp at hev
          · split at hev <;> simp at hev
            exact ⟨hev.1.symm, hev.2.2.symm⟩
      obtain ⟨rfl, rfl⟩ := hsrc
      simp only [recvRtpGate] at hg
      split at hg
      · rename_i k hk
        split at hg <;> simp at hg
        obtain ⟨⟨rfl, rfl⟩, rfl⟩ := hg
        exact ⟨_, hk, rfl, Or.inl ⟨v, _, rfl⟩⟩
      · simp [hreq] at hg

/-- Relay, one step: a datagram emitted as a bridge relay of an inbound packet of mandatory
transport `t` carries an authenticated packet. -/
theorem relay_step (s : St) (o : Op) (t c : Tid) (m : Media) (f : Form) (p : Prov)
    (hreq : (s t).required = true) (hev : Ev.emit c m f (.relay t p) ∈ (step s o).2) :
    ∃ k v a, (s t).keys = some k ∧ p = .auth k ∧ o = .recvRtp t (.prot k true a) v := by
  cases o with
  | installKeys t k => simp [step] at hev
  | setBridge t b => simp [step] at hev
  | clearBridge t => simp [step] at hev
  | sendRtp t' =>
    simp only [step, sendRtpGate] at hev
    split at hev <;> (try split at hev) <;> simp at hev
  | sendRaw t' p' =>
    simp only [step, sendRawGate] at hev
    split at hev <;> (try split at hev) <;> simp at hev
  | sendRtcp t' =>
    simp only [step, sendRtcpGate] at hev
    split at hev <;> (try split at hev) <;> simp at hev
  | syncBye t' =>
    simp only [step, syncByeGate] at hev
    split at hev <;> (try split at hev) <;> simp at hev
  | close t' =>
    simp only [step, syncByeGate] at hev
    split at hev <;> (try split at hev) <;> simp at hev
  | recvRtcp t' w =>
    simp only [step, recvRtcp] at hev
    split at hev <;> (try split at hev) <;> simp at hev
  | recvRtp t' w v =>
    simp only [step, recvRtp] at hev
    split at hev
    · simp at hev
    · rename_i p' hg
      have hsrc : t' = t ∧ p' = p := by
        simp only [afterAccept, List.mem_append] at hev
        rcases hev with hev | hev
        · split at hev <;> simp at hev
        · split at hev
          · simp only [List.mem_append] at hev
            rcases hev with hev | hev
            · split at hev <;> simp at hev
            · simp only [bridgeGate] at hev
              split at hev <;> (try split at hev) <;> simp at hev
              all_goals exact ⟨hev.2.2.2.1.symm, hev.2.2.2.2.symm⟩
          · split at hev <;> simp at hev
      obtain ⟨rfl, rfl⟩ := hsrc
      simp only [recvRtpGate] at hg
      split at hg
      · rename_i k hk
        split at hg <;> simp at hg
        obtain ⟨⟨rfl, rfl⟩, rfl⟩ := hg
        exact ⟨_, v, _, hk, rfl, rfl⟩
      · simp [hreq] at hg

/-! ### the property, for every operation sequence -/

/-- **required_never_clear_out**: in a mandatory-SRTP transport `c`, for every sequence of
operations on the whole system, every RTP or RTCP datagram that reaches `c`'s connection — by
`send_rtp`, raw `send`, `send_rtcp`, the close-time BYE or the rewrite bridge of any other
transport — is SRTP/SRTCP-protected by `c`'s own session under the session keys, i.e. the key set
most recently installed on `c` before that moment. -/
theorem required_never_clear_out (s : St) (ops : List Op) (c : Tid) (m : Media) (f : Form) (src : Src)
    (hreq : (s c).required = true) (hev : Ev.emit c m f src ∈ trace s ops) :
    ∃ pre o post k, ops = pre ++ o :: post ∧ Ev.emit c m f src ∈ (step (run s pre) o).2 ∧
      lastInstalled c (s c).keys pre = some k ∧ f = .prot c k := by
  obtain ⟨pre, o, post, he, hm⟩ := (mem_trace_iff s ops _).1 hev
  have hr : ((run s pre) c).required = true := by rw [run_required]; exact hreq
  obtain ⟨k, hk, hf⟩ := out_step (run s pre) o c m f src hr hm
  rw [run_keys] at hk
  exact ⟨pre, o, post, k, he, hm, hk, hf⟩

/-- **nothing_before_keys**: while no keys have been installed on mandatory transport `c`, nothing at
all is emitted on its connection, whatever else happens in the system. -/
theorem nothing_before_keys (s : St) (ops : List Op) (c : Tid)
    (hreq : (s c).required = true) (hk : (s c).keys = none)
    (hno : ∀ k, Op.installKeys c k ∉ ops) (m : Media) (f : Form) (src : Src) :
    Ev.emit c m f src ∉ trace s ops := by
  intro hev
  obtain ⟨pre, o, post, k, he, _, hl, _⟩ := required_never_clear_out s ops c m f src hreq hev
  have hpre : ∀ k, Op.installKeys c k ∉ pre := fun k hk' => hno k (by rw [he]; simp [hk'])
  rw [hk, lastInstalled_none c pre hpre] at hl
  exact absurd hl (by simp)

/-- **required_never_clear_in**: for every operation sequence, a packet delivered on behalf of
mandatory transport `t` to a track listener, an ingress observer, the RTCP listener or a bridge
target's observer is the result of successfully authenticating an inbound datagram protected under
the key set most recently installed on `t`; cleartext, wrongly keyed, forged (`ok = false`),
replayed and unparsable datagrams are never delivered, and nothing is delivered before keys exist. -/
theorem required_never_clear_in (s : St) (ops : List Op) (t : Tid) (sink : Sink) (p : Prov)
    (hreq : (s t).required = true) (hev : Ev.deliver t sink p ∈ trace s ops) :
    ∃ pre o post k, ops = pre ++ o :: post ∧ lastInstalled t (s t).keys pre = some k ∧ p = .auth k ∧
      ((∃ v a, o = .recvRtp t (.prot k true a) v) ∨ ∃ a, o = .recvRtcp t (.prot k true a)) := by
  obtain ⟨pre, o, post, he, hm⟩ := (mem_trace_iff s ops _).1 hev
  have hr : ((run s pre) t).required = true := by rw [run_required]; exact hreq
  obtain ⟨k, hk, hp, ho⟩ := in_step (run s pre) o t sink p hr hm
  rw [run_keys] at hk
  exact ⟨pre, o, post, k, he, hk, hp, ho⟩

/-- **required_never_relays_clear**: for every operation sequence, whatever a mandatory transport `t`
hands to a bridged peer (a datagram emitted on any connection as a relay of `t`'s inbound traffic)
is an authenticated inbound packet of `t`. -/
theorem required_never_relays_clear (s : St) (ops : List Op) (t c : Tid) (m : Media) (f : Form) (p : Prov)
    (hreq : (s t).required = true) (hev : Ev.emit c m f (.relay t p) ∈ trace s ops) :
    ∃ pre v a post k, ops = pre ++ Op.recvRtp t (.prot k true a) v :: post ∧
      lastInstalled t (s t).keys pre = some k ∧ p = .auth k := by
  obtain ⟨pre, o, post, he, hm⟩ := (mem_trace_iff s ops _).1 hev
  have hr : ((run s pre) t).required = true := by rw [run_required]; exact hreq
  obtain ⟨k, v, a, hk, hp, ho⟩ := relay_step (run s pre) o t c m f p hr hm
  rw [run_keys] at hk
  subst ho
  exact ⟨pre, v, a, post, k, he, hk, hp⟩

/-- what the bridge must put on the wire for a target in state `y` (written from the property text,
not from `bridgeGate`): protected by the target's own session when it has keys; nothing when the
target is mandatory and has no keys; clear only for a non-mandatory target without keys. -/
def bridgeSpec (tgt : Tid) (y : Tr) : Option Form :=
  if y.keys.isSome then y.keys.map (Form.prot tgt)
  else if y.required then none else some .clear

/-- **bridge_respects_target**: for every operation sequence and every inbound packet that reaches an
installed bridge, (1) the only datagrams emitted by that step are relays on the connection of the
target selected from the packet's ORIGINAL payload type (video target for video payload types,
else the main target), never on the source's or any other connection; (2) each is produced exactly
as `bridgeSpec` prescribes for the target's keys at that moment; (3) the packet is not also handed to a
local listener (fast-path early return). -/
theorem bridge_respects_target (s : St) (pre : List Op) (t : Tid) (w : Wire) (v : Bool) (b : Bridge)
    (hb : ((run s pre) t).bridge = some b) (ev : Ev)
    (hev : ev ∈ (step (run s pre) (.recvRtp t w v)).2) :
    (∀ c m f src, ev = .emit c m f src →
        c = b.pick v ∧ m = .rtp ∧ (∃ p, src = .relay t p) ∧
        bridgeSpec c { (run s pre) c with keys := lastInstalled c (s c).keys pre } = some f) ∧
    (∀ o sink p, ev = .deliver o sink p → sink ≠ .listener) := by
  have hkeys : ∀ c, { (run s pre) c with keys := lastInstalled c (s c).keys pre } = (run s pre) c := by
    intro c; rw [← run_keys]
  simp only [step, recvRtp] at hev
  split at hev
  · simp at hev
  · rename_i p hg
    simp only [afterAccept, hb, List.mem_append] at hev
    constructor
    · intro c m f src he
      subst he
      rcases hev with hev | hev | hev
      · split at hev <;> simp at hev
      · split at hev <;> simp at hev
      · simp only [bridgeGate] at hev
        rw [hkeys]
        split at hev <;> (try split at hev) <;> simp at hev
        all_goals (obtain ⟨rfl, rfl, rfl, rfl⟩ := hev)
        all_goals simp_all [bridgeSpec]
    · intro o sink p' he
      subst he
      rcases hev with hev | hev | hev
      · split at hev <;> simp at hev
        simp [hev.2.1]
      · split at hev <;> simp at hev
        simp [hev.2.1]
      · simp only [bridgeGate] at hev
        split at hev <;> (try split at hev) <;> simp at hev

/-- **bridge_drops_without_target_keys**: a mandatory target without keys receives nothing from
any bridge, for every operation sequence that installs no keys on it. -/
theorem bridge_drops_without_target_keys (s : St) (ops : List Op) (tgt : Tid)
    (hreq : (s tgt).required = true) (hk : (s tgt).keys = none)
    (hno : ∀ k, Op.installKeys tgt k ∉ ops) (m : Media) (f : Form) (t : Tid) (p : Prov) :
    Ev.emit tgt m f (.relay t p) ∉ trace s ops :=
  nothing_before_keys s ops tgt hreq hk hno m f (.relay t p)

/-- **mode_sections_use_mandatory_transports**: in WebRTC (DTLS-SRTP) and SDES-SRTP modes every
transport object a media section can be attached to is created with `srtp_required = true`
(the non-mandatory per-section transports exist only in plain-RTP mode). -/
theorem mode_sections_use_mandatory_transports (m : Mode) (h : m ≠ .rtp) :
    ∀ r ∈ sectionTransportFlags m, r = true := by
  cases m <;> simp_all [sectionTransportFlags, primaryRequired, extraTransportsCreated]

/-! ### non-vacuity: a concrete system in which the hypotheses hold and traffic does flow -/

/-- transports 0 (source, WebRTC), 1 (WebRTC bridge target), 2 (plain-RTP target) -/
def demo : St := fun i =>
  { required := i ≤ 1, keys := none, bridge := none, listener := true, rtcpListener := true, observer := true }

example : (demo 0).required = true ∧ (demo 1).required = true ∧ (demo 2).required = false := by decide

/-- keys, then traffic: protected datagrams do leave and authenticated packets are delivered -/
example :
    trace demo [.installKeys 0 7, .sendRtp 0, .recvRtp 0 (.prot 7 true true) false, .recvRtp 0 .clear false,
                .recvRtcp 0 (.prot 7 true true)] =
      [.emit 0 .rtp (.prot 0 7) .loc, .ret true,
       .deliver 0 .ingressObs (.auth 7), .deliver 0 .listener (.auth 7),
       .deliver 0 .rtcpListener (.auth 7)] := by decide

/-- before keys: every send path is refused and inbound traffic of every kind is dropped -/
example :
    trace demo [.sendRtp 0, .sendRaw 0 true, .sendRtcp 0, .syncBye 0, .close 0,
                .recvRtp 0 .clear false, .recvRtp 0 (.prot 7 true true) false, .recvRtcp 0 .clear] =
      [.ret false, .ret false, .ret false] := by decide

/-- bridge: source 0 (keys 7) → target 1 first without keys (dropped), then with keys 9 (protected
by 1's session), and → plain-RTP target 2 (clear) -/
example :
    trace demo [.installKeys 0 7, .setBridge 0 ⟨1, some 2⟩, .recvRtp 0 (.prot 7 true true) false,
                .installKeys 1 9, .recvRtp 0 (.prot 7 true true) false, .recvRtp 0 (.prot 7 true true) true] =
      [.deliver 0 .ingressObs (.auth 7), .deliver 0 (.relayObs 1) (.auth 7),
       .deliver 0 .ingressObs (.auth 7), .deliver 0 (.relayObs 1) (.auth 7),
       .emit 1 .rtp (.prot 1 9) (.relay 0 (.auth 7)),
       .deliver 0 .ingressObs (.auth 7), .deliver 0 (.relayObs 2) (.auth 7),
       .emit 2 .rtp .clear (.relay 0 (.auth 7))] := by decide

example : sectionTransportFlags .rtp = [false, false] ∧ sectionTransportFlags .webrtc = [true] := by decide

end RtcModel.Theorems.C14
