/-
C14 — SRTP-mandatory modes never send or accept cleartext media.
Property theorems only; the model is `RtcModel/Gate.lean`, helper lemmas `RtcModel/Lemmas/Gate.lean`.

Everything is stated for an ARBITRARY SRTP suite `S : Suite` (abstract session state, `protect_*` /
`unprotect_*` that may fail, plain parsers, the security notion `Authentic*` and its law fields), an
arbitrary initial system `s : Tid → Tr S` (any number of transports, any `srtp_required` flags,
sessions, bridges, listeners, observers) and an arbitrary, unbounded sequence of operations `ops`
(install keys, send_rtp, raw send, send_rtcp, sync BYE, receive any datagram as RTP or RTCP, install
/ clear bridge, close, (re-)register listeners and observers — on any transport, in any order).
The cryptographic hypothesis is explicit: it is the `unprotect*_sound` law of the suite
("a session accepts only datagrams that are authentic under its key set").  It is a HYPOTHESIS: no
instance for rustrtc's SRTP code is constructed (see the header of `Gate.lean` for the C05 theorems
of matching content and what is missing); the inbound theorems conclude `S.Authentic* k w` through it.
The outbound theorems have no cryptographic content: `Form.prot c k` says the protect branch of `c`'s
gate was taken under key set `k` and returned Ok — never the clear arm, never an error arm.

What these theorems are: statements about which branch each of the seven gate copies takes in
every reachable state.  They are deliberately simple; the tie to the code is the correspondence run.
-/
import RtcModel.Lemmas.Gate

namespace RtcModel.Theorems.C14
open RtcModel.Gate
variable {S : Suite}

/-! ### one step from an arbitrary state (gate-by-gate facts are in `Lemmas/Gate.lean`) -/

/-- **Outbound, one step**: whatever the operation and whatever path produced it (own send, raw send,
RTCP, close-time BYE, bridge relay from ANY other transport), a datagram put on the connection of a
mandatory transport `c` is the `Ok` output of `c`'s own session under the key set currently in
`c`'s slot — in particular not the plain-marshal arm and not a `protect_*` error arm. -/
theorem out_step (s : St S) (o : Op S) (c : Tid) (m : Media) (f : Form) (src : Src)
    (hreq : (s c).required = true) (hev : Ev.emit c m f src ∈ (step s o).2) :
    ∃ k, (s c).key = some k ∧ f = .prot c k := by
  cases o with
  | installKeys t k => simp [step] at hev
  | setBridge t b => simp [step] at hev
  | clearBridge t => simp [step] at hev
  | setFlags t l r ob => simp [step] at hev
  | setAbsSendTime t on => simp [step] at hev
  | sendRtp t => obtain ⟨rfl, h, _⟩ := sendRtpGate_ok t (s t) c m f src hev; exact h hreq
  | sendRaw t p e => obtain ⟨rfl, h, _⟩ := sendRawGate_ok t (s t) p e c m f src hev; exact h hreq
  | sendRtcp t => obtain ⟨rfl, h, _⟩ := sendRtcpGate_ok t (s t) c m f src hev; exact h hreq
  | syncBye t => obtain ⟨rfl, h, _⟩ := syncByeGate_ok t (s t) c m f src hev; exact h hreq
  | close t =>
    obtain ⟨rfl, h, _⟩ := syncByeGate_ok t (closed (s t)) c m f src hev
    exact h hreq
  | recvRtcp t w =>
    simp only [step, recvRtcp] at hev
    split at hev <;> (try split at hev) <;> simp at hev
  | recvRtp t w v =>
    simp only [step, recvRtp] at hev
    split at hev
    · simp at hev
    · rename_i p _
      have hpre := withSess_frame s t (recvRtpGate (s t) w).1 (recvRtpGate_key (s t) w)
      rcases afterAccept_events _ t p v _ hev with h | ⟨h, _⟩ | ⟨b, _, h | h⟩
      · simp at h
      · simp at h
      · simp at h
      · obtain ⟨rfl, hk, _⟩ := bridgeGate_ok _ _ t p c m f src h
        rw [(hpre _).1, (hpre _).2.1] at hk
        exact hk hreq

/-- **Inbound, one step**: a plaintext packet handed to a listener / observer / RTCP listener / a bridge
target's observer on behalf of mandatory transport `t` was accepted by `unprotect_*` of the session
currently in `t`'s slot, from the datagram this very operation received. -/
theorem in_step (s : St S) (o : Op S) (t : Tid) (sink : Sink) (p : Prov)
    (hreq : (s t).required = true) (hev : Ev.deliver t sink p ∈ (step s o).2) :
    ∃ se, (s t).sess = some se ∧ p = .auth (S.keyOf se) ∧
      ((∃ w v, o = .recvRtp t w v ∧ (S.unprotectRtp se w).2 = true) ∨
       (∃ w, o = .recvRtcp t w ∧ (S.unprotectRtcp se w).2 = true)) := by
  cases o with
  | installKeys t k => simp [step] at hev
  | setBridge t b => simp [step] at hev
  | clearBridge t => simp [step] at hev
  | setFlags t l r ob => simp [step] at hev
  | setAbsSendTime t on => simp [step] at hev
  | sendRtp t' =>
    simp only [step, own, sendRtpGate] at hev
    split at hev <;> (try split at hev) <;> simp at hev
  | sendRaw t' p' e' =>
    simp only [step, own, sendRawGate] at hev
    split at hev <;> (try split at hev) <;> (try split at hev) <;> simp at hev
  | sendRtcp t' =>
    simp only [step, own, sendRtcpGate] at hev
    split at hev <;> (try split at hev) <;> simp at hev
  | syncBye t' =>
    simp only [step, own, syncByeGate] at hev
    split at hev <;> (try split at hev) <;> simp at hev
  | close t' =>
    simp only [step, own, syncByeGate] at hev
    split at hev <;> (try split at hev) <;> simp at hev
  | recvRtcp t' w =>
    simp only [step, recvRtcp] at hev
    split at hev
    · simp at hev
    · rename_i p' hg
      split at hev <;> simp at hev
      obtain ⟨e1, _, e3⟩ := hev
      subst e1 e3
      obtain ⟨se, hse, hp, hu⟩ := recvRtcpGate_ok (s t) w p hg hreq
      exact ⟨se, hse, hp, Or.inr ⟨w, rfl, hu⟩⟩
  | recvRtp t' w v =>
    simp only [step, recvRtp] at hev
    split at hev
    · simp at hev
    · rename_i p' hg
      have hsrc : t' = t ∧ p' = p := by
        rcases afterAccept_events _ t' p' v _ hev with h | ⟨h, _⟩ | ⟨b, _, h | h⟩
        · simp at h; exact ⟨h.1.symm, h.2.2.symm⟩
        · simp at h; exact ⟨h.1.symm, h.2.2.symm⟩
        · simp at h; exact ⟨h.1.symm, h.2.2.symm⟩
        · obtain ⟨f, hf⟩ := bridgeGate_shape _ _ _ _ _ h; cases hf
      obtain ⟨rfl, rfl⟩ := hsrc
      obtain ⟨se, hse, hp, hu⟩ := recvRtpGate_ok (s t') w p' hg hreq
      exact ⟨se, hse, hp, Or.inl ⟨w, v, rfl, hu⟩⟩

/-- **Relay, one step**: a datagram emitted (on any connection) as a bridge relay of an inbound packet
of mandatory transport `t` carries a packet `t`'s session accepted in this very operation. -/
theorem relay_step (s : St S) (o : Op S) (t c : Tid) (m : Media) (f : Form) (p : Prov)
    (hreq : (s t).required = true) (hev : Ev.emit c m f (.relay t p) ∈ (step s o).2) :
    ∃ se w v, (s t).sess = some se ∧ p = .auth (S.keyOf se) ∧ o = .recvRtp t w v ∧
      (S.unprotectRtp se w).2 = true := by
  cases o with
  | installKeys t k => simp [step] at hev
  | setBridge t b => simp [step] at hev
  | clearBridge t => simp [step] at hev
  | setFlags t l r ob => simp [step] at hev
  | setAbsSendTime t on => simp [step] at hev
  | sendRtp t' =>
    simp only [step, own, sendRtpGate] at hev
    split at hev <;> (try split at hev) <;> simp at hev
  | sendRaw t' p' e' =>
    simp only [step, own, sendRawGate] at hev
    split at hev <;> (try split at hev) <;> (try split at hev) <;> simp at hev
  | sendRtcp t' =>
    simp only [step, own, sendRtcpGate] at hev
    split at hev <;> (try split at hev) <;> simp at hev
  | syncBye t' =>
    simp only [step, own, syncByeGate] at hev
    split at hev <;> (try split at hev) <;> simp at hev
  | close t' =>
    simp only [step, own, syncByeGate] at hev
    split at hev <;> (try split at hev) <;> simp at hev
  | recvRtcp t' w =>
    simp only [step, recvRtcp] at hev
    split at hev <;> (try split at hev) <;> simp at hev
  | recvRtp t' w v =>
    simp only [step, recvRtp] at hev
    split at hev
    · simp at hev
    · rename_i p' hg
      have hsrc : t' = t ∧ p' = p := by
        rcases afterAccept_events _ t' p' v _ hev with h | ⟨h, _⟩ | ⟨b, _, h | h⟩
        · simp at h
        · simp at h
        · simp at h
        · obtain ⟨f', hf⟩ := bridgeGate_shape _ _ _ _ _ h
          simp at hf; exact ⟨hf.2.2.2.1.symm, hf.2.2.2.2.symm⟩
      obtain ⟨rfl, rfl⟩ := hsrc
      obtain ⟨se, hse, hp, hu⟩ := recvRtpGate_ok (s t') w p' hg hreq
      exact ⟨se, w, v, hse, hp, rfl, hu⟩

/-! ### the property, for every operation sequence -/

/-- **required_never_clear_out**: in a mandatory-SRTP transport `c`, for every sequence of
operations on the whole system, every RTP or RTCP datagram that reaches `c`'s connection — by
`send_rtp`, raw `send`, `send_rtcp`, the close-time BYE or the rewrite bridge of any other
transport — is the `Ok` output of `c`'s own session, keyed with the key set most recently
installed on `c` before that moment (never plain bytes, never the product of a failed protect). -/
theorem required_never_clear_out (s : St S) (ops : List (Op S)) (c : Tid) (m : Media) (f : Form) (src : Src)
    (hreq : (s c).required = true) (hev : Ev.emit c m f src ∈ trace s ops) :
    ∃ pre o post k, ops = pre ++ o :: post ∧ Ev.emit c m f src ∈ (step (run s pre) o).2 ∧
      lastInstalled c (s c).key pre = some k ∧ f = .prot c k := by
  obtain ⟨pre, o, post, he, hm⟩ := (mem_trace_iff s ops _).1 hev
  have hr : ((run s pre) c).required = true := by rw [run_required]; exact hreq
  obtain ⟨k, hk, hf⟩ := out_step (run s pre) o c m f src hr hm
  rw [run_keys] at hk
  exact ⟨pre, o, post, k, he, hm, hk, hf⟩

/-- **nothing_before_keys**: while no keys have been installed on mandatory transport `c`, nothing at
all is emitted on its connection, whatever else happens in the system. -/
theorem nothing_before_keys (s : St S) (ops : List (Op S)) (c : Tid)
    (hreq : (s c).required = true) (hk : (s c).sess = none)
    (hno : ∀ k, Op.installKeys c k ∉ ops) (m : Media) (f : Form) (src : Src) :
    Ev.emit c m f src ∉ trace s ops := by
  intro hev
  obtain ⟨pre, o, post, k, he, _, hl, _⟩ := required_never_clear_out s ops c m f src hreq hev
  have hpre : ∀ k, Op.installKeys c k ∉ pre := fun k hk' => hno k (by rw [he]; simp [hk'])
  have : (s c).key = none := by simp [Tr.key, hk]
  rw [this, lastInstalled_none c pre hpre] at hl
  exact absurd hl (by simp)

/-- **required_never_clear_in** ("delivered ⇒ authentic"): for every operation sequence, a packet
delivered on behalf of mandatory transport `t` to a track listener, an ingress observer, the RTCP
listener or a bridge target's observer stems from a datagram `w` received by that very operation
which is AUTHENTIC (`S.AuthenticRtp k w` / `S.AuthenticRtcp k w`) under the key set `k` most
recently installed on `t`.  The step from "the session accepted it" to "authentic" is the suite's
law `unprotect*_sound` — the named cryptographic hypothesis.  Nothing is delivered before keys exist. -/
theorem required_never_clear_in (s : St S) (ops : List (Op S)) (t : Tid) (sink : Sink) (p : Prov)
    (hreq : (s t).required = true) (hev : Ev.deliver t sink p ∈ trace s ops) :
    ∃ pre o post k, ops = pre ++ o :: post ∧ lastInstalled t (s t).key pre = some k ∧ p = .auth k ∧
      ((∃ w v, o = .recvRtp t w v ∧ S.AuthenticRtp k w) ∨ (∃ w, o = .recvRtcp t w ∧ S.AuthenticRtcp k w)) := by
  obtain ⟨pre, o, post, he, hm⟩ := (mem_trace_iff s ops _).1 hev
  have hr : ((run s pre) t).required = true := by rw [run_required]; exact hreq
  obtain ⟨se, hse, hp, ho⟩ := in_step (run s pre) o t sink p hr hm
  have hk : lastInstalled t (s t).key pre = some (S.keyOf se) := by
    rw [← run_keys]; simp [Tr.key, hse]
  refine ⟨pre, o, post, S.keyOf se, he, hk, hp, ?_⟩
  rcases ho with ⟨w, v, rfl, hu⟩ | ⟨w, rfl, hu⟩
  · exact Or.inl ⟨w, v, rfl, S.unprotectRtp_sound se w hu⟩
  · exact Or.inr ⟨w, rfl, S.unprotectRtcp_sound se w hu⟩

/-- **required_never_relays_clear**: for every operation sequence, whatever a mandatory transport `t`
hands to a bridged peer (a datagram emitted on any connection as a relay of `t`'s inbound traffic)
stems from a datagram authentic under `t`'s current key set. -/
theorem required_never_relays_clear (s : St S) (ops : List (Op S)) (t c : Tid) (m : Media) (f : Form) (p : Prov)
    (hreq : (s t).required = true) (hev : Ev.emit c m f (.relay t p) ∈ trace s ops) :
    ∃ pre w v post k, ops = pre ++ Op.recvRtp t w v :: post ∧
      lastInstalled t (s t).key pre = some k ∧ p = .auth k ∧ S.AuthenticRtp k w := by
  obtain ⟨pre, o, post, he, hm⟩ := (mem_trace_iff s ops _).1 hev
  have hr : ((run s pre) t).required = true := by rw [run_required]; exact hreq
  obtain ⟨se, w, v, hse, hp, ho, hu⟩ := relay_step (run s pre) o t c m f p hr hm
  have hk : lastInstalled t (s t).key pre = some (S.keyOf se) := by
    rw [← run_keys]; simp [Tr.key, hse]
  subst ho
  exact ⟨pre, w, v, post, S.keyOf se, he, hk, hp, S.unprotectRtp_sound se w hu⟩

/-- what the bridge may put on the wire for a target in state `y` (written from the property text,
not from `bridgeGate`): with keys only the target's own protected form; without keys nothing if the
target is mandatory, plain bytes otherwise. -/
def bridgeAllows (tgt : Tid) (required : Bool) (key : Option KeyId) (f : Form) : Prop :=
  match key with
  | some k => f = .prot tgt k
  | none => required = false ∧ f = .clear

/-- **bridge_respects_target**: for every operation sequence and every inbound packet that reaches an
installed bridge, (1) the only datagrams emitted by that step are relays on the connection of the
target selected from the packet's ORIGINAL payload type (video target for video payload types,
else the main target), never on the source's or any other connection; (2) each is what
`bridgeAllows` permits for the target's flag and the key set most recently installed on the TARGET
(a failed protect emits nothing); (3) the packet is not also handed to a local listener. -/
theorem bridge_respects_target (s : St S) (pre : List (Op S)) (t : Tid) (w : S.W) (v : Bool) (b : Bridge)
    (hb : ((run s pre) t).bridge = some b) (ev : Ev)
    (hev : ev ∈ (step (run s pre) (.recvRtp t w v)).2) :
    (∀ c m f src, ev = .emit c m f src →
        c = b.pick v ∧ m = .rtp ∧ (∃ p, src = .relay t p) ∧
        bridgeAllows c (s c).required (lastInstalled c (s c).key pre) f) ∧
    (∀ o sink p, ev = .deliver o sink p → sink ≠ .listener) := by
  simp only [step, recvRtp] at hev
  split at hev
  · simp at hev
  · rename_i p hg
    have hpre := withSess_frame (run s pre) t (recvRtpGate ((run s pre) t) w).1 (recvRtpGate_key _ w)
    have hb' := (hpre t).2.2.1.trans hb
    rcases afterAccept_events _ t p v _ hev with h | ⟨_, h⟩ | ⟨b', hb2, h | h⟩
    · subst h; exact ⟨(by intro c m f src he; cases he), (by intro o sink p' he; cases he; simp)⟩
    · rw [hb'] at h; cases h
    · rw [hb'] at hb2; cases hb2
      subst h; exact ⟨(by intro c m f src he; cases he), (by intro o sink p' he; cases he; simp)⟩
    · rw [hb'] at hb2; cases hb2
      obtain ⟨f0, hf0⟩ := bridgeGate_shape _ _ _ _ _ h
      constructor
      · intro c m f src he
        subst he
        obtain ⟨rfl, _, hk1, hk2⟩ := bridgeGate_ok _ _ t p _ _ _ _ h
        simp at hf0
        refine ⟨rfl, hf0.1, ⟨p, hf0.2.2⟩, ?_⟩
        rw [(hpre _).1, (hpre _).2.1, run_keys, run_required] at *
        unfold bridgeAllows
        cases hl : lastInstalled (b.pick v) (s (b.pick v)).key pre with
        | some k => exact hk1 k hl
        | none => obtain ⟨h1, h2⟩ := hk2 hl; exact ⟨h2, h1⟩
      · intro o sink p' he
        subst he; cases hf0

/-! ### non-vacuity: the symbolic suite `Sym` satisfies the laws, and traffic does flow -/

/-- transports 0 (source, WebRTC), 1 (WebRTC bridge target), 2 (plain-RTP target) -/
def demo : St Sym := fun i =>
  { required := i ≤ 1, sess := none, bridge := none, listener := true, rtcpListener := true, observer := true }

example : (demo 0).required = true ∧ (demo 1).required = true ∧ (demo 2).required = false := by decide

/-- keys, then traffic: protected datagrams do leave and authenticated packets are delivered -/
example :
    trace demo [.installKeys 0 7, .sendRtp 0, .recvRtp 0 (.prot 7 true true) false, .recvRtp 0 .clear false,
                .recvRtcp 0 (.prot 7 true true)] =
      [.emit 0 .rtp (.prot 0 7) .loc, .ret true,
       .deliver 0 .ingressObs (.auth 7), .deliver 0 .listener (.auth 7),
       .deliver 0 .rtcpListener (.auth 7)] := by decide

/-- before keys: every send path is refused and inbound traffic of every kind is dropped -/
example :
    trace demo [.sendRtp 0, .sendRaw 0 true true, .sendRtcp 0, .syncBye 0, .close 0,
                .recvRtp 0 .clear false, .recvRtp 0 (.prot 7 true true) false, .recvRtcp 0 .clear] =
      [.ret false, .ret false, .ret false] := by decide

/-- unusable key material (key id 5): every protect / unprotect fails — nothing leaves, nothing is
accepted, and nothing falls back to clear -/
example :
    trace demo [.installKeys 0 5, .sendRtp 0, .sendRaw 0 true true, .sendRtcp 0, .syncBye 0,
                .recvRtp 0 (.prot 5 true true) false, .setBridge 2 ⟨0, none⟩, .recvRtp 2 .clear false] =
      [.ret false, .ret false, .ret false, .deliver 2 .ingressObs .unauth, .deliver 2 (.relayObs 0) .unauth] := by
  decide

/-- bridge: source 0 (keys 7) → target 1 first without keys (dropped), then with keys 9 (protected
by 1's session), and → plain-RTP target 2 (clear) -/
example :
    trace demo [.installKeys 0 7, .setBridge 0 ⟨1, some 2⟩, .recvRtp 0 (.prot 7 true true) false,
                .installKeys 1 9, .recvRtp 0 (.prot 7 true true) false, .recvRtp 0 (.prot 7 true true) true] =
      [.deliver 0 .ingressObs (.auth 7), .deliver 0 (.relayObs 1) (.auth 7),
       .deliver 0 .ingressObs (.auth 7), .deliver 0 (.relayObs 1) (.auth 7),
       .emit 1 .rtp (.prot 1 9) (.relay 0 (.auth 7)),
       .deliver 0 .ingressObs (.auth 7), .deliver 0 (.relayObs 2) (.auth 7),
       .emit 2 .rtp .clear (.relay 0 (.auth 7))] := by decide

end RtcModel.Theorems.C14
