/-
C17 — closing or losing a connection at any moment ends it cleanly and visibly.
Property theorems only (helpers: `RtcModel/Lemmas/Lifecycle.lean`).

Claimed **partial**: the theorems are about the propagation rules of the model (`RtcModel.Lifecycle`):
all states, all actions, all schedules (arbitrary `List Act`, every interleaving of the application,
the driving loop, the SCTP runner, the DTLS task and the environment).  Release of tokio tasks and socket
descriptors and "promptly" are runtime facts measured by the harness (`vh c17`), not theorems.

"Terminal" is read leniently (DESIGN C17): `peer_state ∈ {Disconnected, Failed, Closed}` with a reason.
-/
import RtcModel.Lemmas.Lifecycle

namespace RtcModel.Theorems.C17
open RtcModel.Lifecycle RtcModel.Generated

/-- generated-constant obligation: the chunk types the harness injects are the ones the code dispatches on -/
theorem const_chunk_types :
    sctpCtAbort = 6 ∧ sctpCtShutdown = 7 ∧ sctpCtShutdownAck = 8 ∧ sctpCtShutdownComplete = 14 := by decide

/-! ### the disconnect reason: first reason wins -/

/-- **reason_first_wins_step**: no action of any actor, in any state, changes a reason once it is set.
(The model's check-and-set is one step; so is the code's since fix 3b14b84 — `close_with_reason` used
`borrow().is_none()` … `send()` before.) -/
theorem reason_first_wins_step (s : St) (a : Act) (r : Reason) (h : s.reason = some r) :
    (step s a).reason = some r := by
  unfold step
  split
  · exact apply_reason_keeps s a r h
  · exact h

/-- **reason_first_wins**: along every schedule (any length, any interleaving) the reason that was set
first is the one reported at the end. -/
theorem reason_first_wins (s : St) (as : List Act) (r : Reason) (h : s.reason = some r) :
    (run s as).reason = some r := by
  induction as generalizing s with
  | nil => exact h
  | cons a rest ih =>
    simp only [run, List.foldl_cons]
    exact ih (step s a) (reason_first_wins_step s a r h)

/-! ### `Closed` is final (fix 0e0d29e) -/

/-- **closed_is_final**: once `peer_state` is `Closed` (and signaling `Closed`), no action of any actor
along any schedule changes either — in particular not the driving loop finishing a transport start
(`Connected`), a DTLS start failure (`Failed`) or a late DTLS / ICE event (`Disconnected`). -/
theorem closed_is_final (s : St) (as : List Act) (hp : s.peer = .closed) :
    (run s as).peer = .closed ∧ (s.sig = .closed → (run s as).sig = .closed) := by
  induction as generalizing s with
  | nil => exact ⟨hp, id⟩
  | cons a rest ih =>
    simp only [run, List.foldl_cons]
    have h1 : (step s a).peer = .closed := by
      unfold step; split
      · exact apply_peer_closed s a hp
      · exact hp
    have h2 : s.sig = .closed → (step s a).sig = .closed := by
      intro hs; unfold step; split
      · exact apply_sig_closed s a hs
      · exact hs
    exact ⟨(ih (step s a) h1).1, fun hs => (ih (step s a) h1).2 (h2 hs)⟩

/-- **close_reaches_terminal** — the `close()` half of `reaches_terminal_with_reason`, at full strength:
in **every** state (every phase, every component state, any in-flight activity) in which `close()` can be
called, and along **every** later schedule of all actors (the remaining blocks of this close, the driving
loop, the SCTP runner, the DTLS task, the environment, further closes and drops), the connection is
`Closed` with signaling `Closed` and a reason, `wait_for_connected`, `create_offer` and
`set_remote_description(offer)` fail at once, and the reason never changes.
(False before fixes 0e0d29e / f59957e: see the superseded witnesses at the end of this file.) -/
theorem close_reaches_terminal (s : St) (arg : Reason) (as : List Act)
    (hen : enabled s (.callClose arg) = true)
    (hinv : s.peer = .closed → s.sig = .closed ∧ s.reason.isSome = true) :
    let t := run (step s (.callClose arg)) as
    t.peer = .closed ∧ t.sig = .closed ∧ terminal t = true ∧
    call t .waitForConnected = .errNow ∧ call t .createOffer = .errNow ∧ call t .setRemoteOffer = .errNow ∧
    (∀ r, (step s (.callClose arg)).reason = some r → t.reason = some r) := by
  have hA : step s (.callClose arg) = closeA s arg := by simp [step, hen, apply]
  have h1 : (closeA s arg).peer = .closed := by
    by_cases hc : s.peer = .closed <;> simp [closeA, hc]
  have h2 : (closeA s arg).sig = .closed := by
    by_cases hc : s.peer = .closed
    · simp [closeA, hc, (hinv hc).1]
    · simp [closeA, hc]
  have h3 : (closeA s arg).reason.isSome = true := by
    by_cases hc : s.peer = .closed
    · simp [closeA, hc, (hinv hc).2]
    · simp [closeA, hc, setReasonIfNone_isSome]
  obtain ⟨r, hr⟩ : ∃ r, (closeA s arg).reason = some r := by
    cases h : (closeA s arg).reason with
    | none => simp [h] at h3
    | some r => exact ⟨r, rfl⟩
  simp only [hA]
  have hf := closed_is_final (closeA s arg) as h1
  have hr' := reason_first_wins (closeA s arg) as r hr
  refine ⟨hf.1, hf.2 h2, ?_, ?_, ?_, ?_, ?_⟩
  · rw [terminal_iff]; exact ⟨Or.inr (Or.inr hf.1), r, hr'⟩
  · simp [call, hf.1]
  · simp [call, hf.2 h2]
  · simp [call, hf.2 h2]
  · intro r2 h; rw [hr] at h; cases h; exact hr'

example : enabled (phaseState .webrtc true 2 .dtlsHandshaking) (.callClose .localClose) = true := by decide

/-! ### data channels: Close exactly once -/

/-- every action except the raw `close_data_channel` leaves the channel list alone or runs the close-once
step over it -/
theorem chans_step (s : St) (a : Act) (hne : ∀ i, a ≠ .closeChannel i) : ChansStep s.chans (step s a).chans := by
  unfold step
  split
  · exact apply_chans s a hne
  · exact .refl _

/-- a channel is either open with no Close delivered, or closed with exactly one and its sender dropped -/
def ChanOk (c : Chan) : Prop :=
  (c.closed = false ∧ c.events = 0 ∧ c.senderDropped = false) ∨ (c.closed = true ∧ c.events = 1 ∧ c.senderDropped = true)

theorem closeChan_ok (c : Chan) (h : ChanOk c) : ChanOk (closeChan c) ∧ (closeChan c).closed = true := by
  unfold closeChan
  rcases h with ⟨h1, h2, h3⟩ | ⟨h1, h2, h3⟩ <;> simp [h1, h2, h3, ChanOk]

/-- **channel_close_exactly_once** (safety half; the hypothesis is only used for the *monotonicity* and
*length* clauses through `ChansStep` — the per-channel invariant itself holds on every schedule:
`channel_close_exactly_once_all_schedules`): every channel has seen `Close` at most once, exactly once iff it
is closed — and then a pending `recv()` returns —, a closed channel is never reopened, the number of channels
never changes. -/
theorem channel_close_exactly_once (s : St) (as : List Act) (h : ∀ c ∈ s.chans, ChanOk c)
    (hne : ∀ a ∈ as, ∀ i, a ≠ .closeChannel i) :
    (run s as).chans.length = s.chans.length ∧
    (∀ c ∈ (run s as).chans, ChanOk c) ∧
    (∀ i : Nat, (s.chans[i]?).map (fun c : Chan => c.closed) = some true → ((run s as).chans[i]?).map (fun c : Chan => c.closed) = some true) := by
  induction as generalizing s with
  | nil => exact ⟨rfl, h, fun _ hh => hh⟩
  | cons a rest ih =>
    have hs := chans_step s a (hne a (by simp))
    have hok : ∀ c ∈ (step s a).chans, ChanOk c := by
      rcases hs with e | e
      · rw [e]; exact h
      · rw [e]; intro c hc
        simp only [List.mem_map] at hc
        obtain ⟨c0, hc0, rfl⟩ := hc
        exact (closeChan_ok c0 (h c0 hc0)).1
    have hlen : (step s a).chans.length = s.chans.length := by
      rcases hs with e | e <;> simp [e]
    have hmono : ∀ i : Nat, (s.chans[i]?).map (fun c : Chan => c.closed) = some true → ((step s a).chans[i]?).map (fun c : Chan => c.closed) = some true := by
      intro i hi
      rcases hs with e | e
      · rw [e]; exact hi
      · rw [e]
        cases hci : s.chans[i]? with
        | none => simp [hci] at hi
        | some c =>
          simp only [hci, Option.map_some, Option.some.injEq] at hi
          simp [List.getElem?_map, hci, closeChan, hi]
    obtain ⟨l, o, m⟩ := ih (step s a) hok (fun b hb => hne b (by simp [hb]))
    simp only [run, List.foldl_cons] at *
    exact ⟨l.trans hlen, o, fun i hi => m i (hmono i hi)⟩

example : ∀ c ∈ (base .webrtc true 3).chans, ChanOk c := by
  intro c hc; simp [base] at hc; subst hc; left; exact ⟨rfl, rfl, rfl⟩

/-- **channel_close_on_close** (liveness half for `close()`): once block B of `close_with_reason` has run
— in any state, SCTP association or not — every channel is closed, has seen exactly one `Close` and its
sender is dropped, and that stays so along every later schedule. -/
theorem channel_close_on_close (s : St) (as : List Act) (h : ∀ c ∈ s.chans, ChanOk c)
    (hne : ∀ a ∈ as, ∀ i, a ≠ .closeChannel i) :
    ∀ c ∈ (run (closeB s) as).chans, c.closed = true ∧ c.events = 1 ∧ c.senderDropped = true := by
  have hB : ∀ c ∈ (closeB s).chans, ChanOk c ∧ c.closed = true := by
    intro c hc
    simp only [closeB_chans, List.mem_map] at hc
    obtain ⟨c0, hc0, rfl⟩ := hc
    exact closeChan_ok c0 (h c0 hc0)
  obtain ⟨hl, hok, hm⟩ := channel_close_exactly_once (closeB s) as (fun c hc => (hB c hc).1) hne
  intro c hc
  obtain ⟨i, hi, rfl⟩ := List.mem_iff_getElem.mp hc
  have hi' : i < (closeB s).chans.length := by omega
  have hc0 := hB ((closeB s).chans[i]) (List.getElem_mem hi')
  have := hm i (by simp [List.getElem?_eq_getElem hi', hc0.2])
  simp [List.getElem?_eq_getElem hi] at this
  rcases hok _ (List.getElem_mem hi) with ⟨h1, _⟩ | ⟨h1, h2, h3⟩
  · simp [h1] at this
  · exact ⟨h1, h2, h3⟩

theorem rawCloseAt_ok (l : List Chan) (i : Nat) (h : ∀ c ∈ l, ChanOk c) : ∀ c ∈ rawCloseAt l i, ChanOk c := by
  induction l generalizing i with
  | nil => simp [rawCloseAt]
  | cons x xs ih =>
    cases i with
    | zero =>
      intro c hc
      simp only [rawCloseAt, List.mem_cons] at hc
      rcases hc with rfl | hc
      · exact (closeChan_ok x (h x (by simp))).1
      · exact h c (by simp [hc])
    | succ n =>
      intro c hc
      simp only [rawCloseAt, List.mem_cons] at hc
      rcases hc with rfl | hc
      · exact h _ (by simp)
      · exact ih n (fun d hd => h d (by simp [hd])) c hc

/-- **channel_close_exactly_once_all_schedules** — no hypothesis on the schedule (the raw
`SctpTransport::close_data_channel` included, since the SCTP fix "announces Close at most once" and fix
2390d12): along **every** schedule of all actors every channel is either open with no `Close` delivered, or
closed with exactly one `Close` and its event sender dropped (a pending `recv()` returns). -/
theorem channel_close_exactly_once_all_schedules (s : St) (as : List Act) (h : ∀ c ∈ s.chans, ChanOk c) :
    ∀ c ∈ (run s as).chans, ChanOk c := by
  induction as generalizing s with
  | nil => exact h
  | cons a rest ih =>
    simp only [run, List.foldl_cons]
    apply ih
    by_cases hraw : ∃ i, a = .closeChannel i
    · obtain ⟨i, rfl⟩ := hraw
      unfold step
      split
      · exact rawCloseAt_ok s.chans i h
      · exact h
    · have hs := chans_step s a (fun i hi => hraw ⟨i, hi⟩)
      rcases hs with e | e
      · rw [e]; exact h
      · rw [e]; intro c hc
        simp only [List.mem_map] at hc
        obtain ⟨c0, hc0, rfl⟩ := hc
        exact (closeChan_ok c0 (h c0 hc0)).1

/-- was the known finding `chan:…closeChannelTwice:close-delivered-2-times` (the third Close emitter was
unguarded); fixed in the SCTP layer: the second call is a no-op -/
theorem close_data_channel_twice_now_once :
    (run (connectedSt .webrtc true 1) [.closeChannel 0, .closeChannel 0]).chans = [⟨true, 1, true⟩] := by decide

/-- was the known finding `hang:…closeChannelThenClose:pending-dc-recv-never-returns` (the channel was left
`Closed` with its sender alive, so every teardown path skipped it); since fix 2390d12 the reader returns -/
theorem close_data_channel_then_close_recv_now_returns :
    let t := run (connectedSt .webrtc true 1)
      [.closeChannel 0, .callClose .localClose, .closeStep, .closeStep, .sctpClose, .dtlsExit, .drvIce]
    quiescent t = true ∧ t.peer = .closed ∧ call t (.dcRecv 0) = .okNow := by decide

/-! ### close is idempotent -/

/-- the three blocks of one `close()` call, run back to back -/
def closeSeq (s : St) (arg : Reason) : St := run s [.callClose arg, .closeStep, .closeStep]

/-- **close_idempotent**: after a completed `close()`, a second complete `close()` — with any reason
argument — changes nothing at all. -/
theorem close_idempotent (s : St) (arg : Reason) (hp : s.peer = .closed) (hc : s.close = .finished) :
    closeSeq s arg = s := by
  have h1 : step s (.callClose arg) = s := by
    simp [step, enabled, hc, apply, closeA, hp]
    cases s; simp_all
  have h2 : step s .closeStep = s := by simp [step, enabled, hc]
  show step (step (step s (.callClose arg)) .closeStep) .closeStep = s
  rw [h1, h2, h2]

/-- a completed `close()` from any state that was not yet closed ends `Closed`, signaling `Closed`,
`sctp_transport` taken, every channel closed, with a reason; so `close_idempotent` applies to it -/
theorem closeSeq_result (s : St) (arg : Reason) (hp : s.peer ≠ .closed) (hc : s.close = .none) :
    let t := closeSeq s arg
    t.peer = .closed ∧ t.sig = .closed ∧ t.held = false ∧ t.close = .finished ∧ t.reason.isSome = true ∧
    t.ice = .closed ∧ (∀ c ∈ t.chans, c.closed = true) := by
  have hA : step s (.callClose arg) = closeA s arg := by simp [step, enabled, hc, apply]
  have hAc : (closeA s arg).close = .a := by simp [closeA, hp]
  have hB : step (closeA s arg) .closeStep = closeB (closeA s arg) := by simp [step, enabled, hAc, apply]
  have hC : step (closeB (closeA s arg)) .closeStep = closeC (closeB (closeA s arg)) := by
    simp [step, enabled, apply, closeB]
  simp only [closeSeq, run, List.foldl_cons, List.foldl_nil, hA, hB, hC]
  refine ⟨?_, ?_, ?_, ?_, ?_, ?_, ?_⟩
  · simp [closeC, closeB, closeA, hp]
  · simp [closeC, closeB, closeA, hp]
  · simp [closeC, closeB]
  · simp [closeC]
  · simp [closeC, closeB, closeA, hp, setReasonIfNone_isSome]
  · simp [closeC]
  · have hBc : ∀ c ∈ (closeB (closeA s arg)).chans, c.closed = true := by
      intro c hc'
      simp only [closeB_chans, closeA_chans, List.mem_map] at hc'
      obtain ⟨c0, _, rfl⟩ := hc'
      unfold closeChan; split <;> simp_all
    exact (closeC_chans_step _).all_closed hBc

/-- *Lemma (definitional; not a property theorem)*: a second `close()` that arrives after block A of the
first has published `Closed` takes the early return and changes no observable field. **Not covered**: two
first closes that both pass the `Closed` check before either writes it (the code's check, PC `close_with_reason`
top, and its write are ~60 lines apart and not one atomic step; the model's `closeA` is): both then run the
whole body. Every block is idempotent (`take()`, `swap`, `send_if_modified`), which is why the harness'
barrier-started `closeTwice` observes nothing, but that interleaving is neither modelled nor proved. -/
theorem lemma_second_close_is_early_return (s : St) (a1 a2 : Reason) (hp : s.peer ≠ .closed) :
    let t := closeA s a1
    (closeA t a2).peer = t.peer ∧ (closeA t a2).sig = t.sig ∧ (closeA t a2).reason = t.reason ∧
    (closeA t a2).chans = t.chans ∧ (closeA t a2).held = t.held ∧ (closeA t a2).ice = t.ice ∧
    (closeA (closeB t) a2).chans = (closeB t).chans ∧ (closeA (closeB t) a2).reason = (closeB t).reason := by
  have key : ∀ t : St, t.peer = .closed → closeA t a2 = { t with close := .finished } := by
    intro t ht; simp [closeA, ht]
  have h1 : (closeA s a1).peer = .closed := by simp [closeA, hp]
  have h2 : (closeB (closeA s a1)).peer = .closed := by simp [closeB, h1]
  intro t
  rw [key t h1, key (closeB t) h2]
  exact ⟨rfl, rfl, rfl, rfl, rfl, rfl, rfl, rfl⟩

/-- the driving loop's / `Drop`'s uninterleaved teardown is idempotent too -/
theorem teardown_idempotent (s : St) (a b : Reason) : teardown (teardown s a) b = teardown s a := by
  have h := teardown_peer s a
  generalize teardown s a = t at h
  simp [teardown, h]

/-! ### calls fail fast after close -/

/-- **calls_fail_fast_after_close**: in every state in which a `close()` has completed, `send_data`,
`create_offer`, `set_remote_description(offer)` and `wait_for_connected` return an error at once,
`create_data_channel` is refused (round-4 fix), and a pending `DataChannel::recv` on any channel returns.
(`wait_for_connected`, `create_offer`, `set_remote_description` already after block A and for every
schedule: `close_reaches_terminal`.) -/
theorem calls_fail_fast_after_close (s : St) (arg : Reason) (hp : s.peer ≠ .closed) (hc : s.close = .none)
    (hch : ∀ c ∈ s.chans, ChanOk c) :
    let t := closeSeq s arg
    call t .sendData = .errNow ∧ call t .createOffer = .errNow ∧ call t .setRemoteOffer = .errNow ∧
    call t .waitForConnected = .errNow ∧ call t .createDataChannel = .errNow ∧
    ∀ i, call t (.dcRecv i) ≠ .pending := by
  obtain ⟨h1, h2, h3, _, _, _, _⟩ := closeSeq_result s arg hp hc
  refine ⟨by simp [call, h3], by simp [call, h2], by simp [call, h2], by simp [call, h1], by simp [call, h1], ?_⟩
  intro i
  have hA : step s (.callClose arg) = closeA s arg := by simp [step, enabled, hc, apply]
  have hAc : (closeA s arg).close = .a := by simp [closeA, hp]
  have hB : step (closeA s arg) .closeStep = closeB (closeA s arg) := by simp [step, enabled, hAc, apply]
  have hrun : closeSeq s arg = run (closeB (closeA s arg)) [.closeStep] := by
    simp [closeSeq, run, hA, hB]
  have := channel_close_on_close (closeA s arg) [.closeStep] (by simpa using hch) (by simp)
  rw [← hrun] at this
  simp only [call]
  cases hi : (closeSeq s arg).chans[i]? with
  | none => simp
  | some c =>
    have := this c (List.mem_of_getElem? hi)
    simp [this.2.2]

/-- after a lower-layer end (no `close()`): `wait_for_connected` answers at once in every terminal state
**except** `Disconnected` + `IceDisconnected` — the "cycling transport" state after the ICE disconnect grace,
from which an ICE recovery returns to `Connected` (`terminal_not_final_while_driver_alive_witness`); there it
keeps waiting until `Connected`, or `Failed` when ICE gives up (round-3 refinement of fix 3448715) -/
theorem wait_for_connected_answers_when_terminal (s : St) (h : terminal s = true)
    (hne : ¬ (s.peer = .disconnected ∧ s.reason = some .iceDisconnected)) :
    call s .waitForConnected = .errNow := by
  obtain ⟨hp, r, hr⟩ := (terminal_iff s).mp h
  rcases hp with h | h | h
  · have : r ≠ .iceDisconnected := fun e => hne ⟨h, by rw [hr, e]⟩
    simp [call, h, hr, this]
  · simp [call, h]
  · simp [call, h]

/-- … and in that state it is pending, by design -/
theorem wait_for_connected_waits_across_ice_disconnect :
    let t := run (connectedSt .webrtc true 1) [.iceDisconnect, .drvIce, .drvGrace, .sctpClose]
    quiescent t = true ∧ terminal t = true ∧ t.reason = some .iceDisconnected ∧
    call t .waitForConnected = .pending ∧ call t (.dcRecv 0) = .okNow := by decide

/-- `PeerConnection::recv()` (event queue drained) ends exactly when the connection is `Closed`; in the
other terminal states it keeps waiting for events (the application learns about `Failed` / `Disconnected`
through the state watches) -/
theorem pc_recv_ends_iff_closed (s : St) : call s .pcRecv = .okNow ↔ s.peer = .closed := by
  simp [call]

/-! ### terminal state: all schedules -/

/-- **terminal_stable_after_driver_exit**: once the driving loop has exited in a terminal state, *no*
action of any actor — including ICE recovery, late packets, further `close()` calls — takes the connection
out of the terminal set or clears the reason ("no later return to Connecting/Connected"). -/
theorem terminal_stable_after_driver_exit (s : St) (as : List Act) (ht : terminal s = true) (hd : s.drv = .done) :
    terminal (run s as) = true ∧ (run s as).drv = .done := by
  induction as generalizing s with
  | nil => exact ⟨ht, hd⟩
  | cons a rest ih =>
    simp only [run, List.foldl_cons]
    have key := step_done_terminal s a ht hd
    exact ih (step s a) key.1 key.2

/-- every channel saw exactly one Close and lost its sender, and no `send_data` is left parked -/
def chansDone (s : St) : Bool := s.chans.all (fun c => c.closed && c.events == 1 && c.senderDropped) && s.blocked == 0

/-- what a settled state must look like: quiescent states (no action of the implementation's own tasks
enabled — the DTLS handshake deadline `dtlsTimeout` is one of them, so a handshake in flight is never
quiescent) are terminal and, when asked, every channel has seen exactly one Close -/
def okState (needChans : Bool) (s : St) : Bool :=
  !quiescent s || (terminal s && (!needChans || chansDone s))

/-- certificate check: the closure of `{s1}` under `acts` is closed and all its members satisfy `ok` -/
def certified (ok : St → Bool) (acts : List Act) (n : Nat) (s1 : St) : Bool :=
  let V := closure acts n [s1]
  V.contains s1 && closedUnder acts V && V.all ok

/-- soundness of the certificate: the end state of **every** schedule over `acts` from `s1` satisfies `ok` -/
theorem certified_sound (ok : St → Bool) (acts : List Act) (n : Nat) (s1 : St)
    (h : certified ok acts n s1 = true) (as : List Act) (has : ∀ a ∈ as, a ∈ acts) :
    ok (run s1 as) = true := by
  simp only [certified, Bool.and_eq_true] at h
  obtain ⟨⟨h0, hcl⟩, hall⟩ := h
  have hm := closedUnder_sound acts _ hcl s1 (by simpa using h0) as has
  rw [List.all_eq_true] at hall
  exact hall _ hm

/-! #### termination of the implementation's own tasks ("reaches" is not only safety)

`Settles s`: every run of internal actions from `s` is finite (accessibility). The certificate adds the
members of the closure one by one to a list `Q`, a state only when each of its enabled internal successors
is already in `Q`; if all of `V` ends up in `Q`, every reachable state settles. -/

inductive Settles : St → Prop
  | intro (s : St) (h : ∀ a ∈ internalActs, enabled s a = true → Settles (apply s a)) : Settles s

def settleStep (Q : List St) (s : St) : List St :=
  if Q.contains s then Q
  else if internalActs.all (fun a => !enabled s a || Q.contains (apply s a)) then s :: Q else Q

theorem settleStep_sound (Q : List St) (s : St) (hQ : ∀ t ∈ Q, Settles t) : ∀ t ∈ settleStep Q s, Settles t := by
  unfold settleStep
  split
  · exact hQ
  · split
    · rename_i _ hall
      intro t ht
      rcases List.mem_cons.mp ht with rfl | ht
      · refine .intro _ (fun a ha hen => ?_)
        rw [List.all_eq_true] at hall
        have := hall a ha
        simp only [hen, Bool.not_true, Bool.false_or] at this
        exact hQ _ (by simpa using this)
      · exact hQ t ht
    · exact hQ

theorem settleFold_sound (V Q : List St) (hQ : ∀ t ∈ Q, Settles t) : ∀ t ∈ V.foldl settleStep Q, Settles t := by
  induction V generalizing Q with
  | nil => exact hQ
  | cons v vs ih => exact ih _ (settleStep_sound Q v hQ)

/-- `n` passes over the closure, newest states first (successors are mostly discovered after their
predecessors, so the reverse order is nearly topological; too few passes make the check fail, never unsound) -/
def settlePasses (W : List St) : Nat → List St → List St
  | 0, Q => Q
  | n + 1, Q => settlePasses W n (W.foldl settleStep Q)

theorem settlePasses_sound (W : List St) (n : Nat) (Q : List St) (hQ : ∀ t ∈ Q, Settles t) :
    ∀ t ∈ settlePasses W n Q, Settles t := by
  induction n generalizing Q with
  | zero => exact hQ
  | succ n ih => exact ih _ (settleFold_sound W Q hQ)

def settlesAll (V : List St) : Bool :=
  let Q := settlePasses V 3 []   -- `closure` lists the newest states first
  V.all Q.contains

theorem settlesAll_sound (V : List St) (h : settlesAll V = true) : ∀ s ∈ V, Settles s := by
  intro s hs
  simp only [settlesAll, List.all_eq_true] at h
  have hm := h s hs
  exact settlePasses_sound _ 3 [] (by simp) s (by simpa using hm)

/-- a quiescent state: nothing left to settle; an enabled internal action always exists otherwise -/
theorem Settles.not_stuck {s : St} (_ : Settles s) : quiescent s = true ∨ ∃ a ∈ internalActs, enabled s a = true := by
  by_cases hq : quiescent s = true
  · exact Or.inl hq
  · right
    simp only [quiescent, List.all_eq_true, Bool.not_eq_true'] at hq
    obtain ⟨a, ha⟩ := Classical.not_forall.mp hq
    obtain ⟨ha, hen⟩ := Classical.not_imp.mp ha
    exact ⟨a, ha, by simpa using hen⟩

/-- from a settling state some finite run of the implementation's own tasks reaches a quiescent state -/
theorem Settles.reaches_quiescent {s : St} (h : Settles s) :
    ∃ as : List Act, (∀ a ∈ as, a ∈ internalActs) ∧ quiescent (run s as) = true := by
  induction h with
  | intro s _ ih =>
    by_cases hq : quiescent s = true
    · exact ⟨[], by simp, hq⟩
    · simp only [quiescent, List.all_eq_true, Bool.not_eq_true'] at hq
      obtain ⟨a, ha⟩ := Classical.not_forall.mp hq
      obtain ⟨ha, hen⟩ := Classical.not_imp.mp ha
      have hen' : enabled s a = true := by simpa using hen
      obtain ⟨as, has, hqq⟩ := ih a ha hen'
      refine ⟨a :: as, ?_, ?_⟩
      · intro b hb
        rcases List.mem_cons.mp hb with rfl | hb
        · exact ha
        · exact has b hb
      · simpa [run, step, hen'] using hqq

/-- certificate with termination: closed set, all members OK, all members settle -/
def certifiedLive (ok : St → Bool) (acts : List Act) (n : Nat) (s1 : St) : Bool :=
  let V := closure acts n [s1]
  V.contains s1 && closedUnder acts V && V.all ok && settlesAll V

theorem certifiedLive_sound (ok : St → Bool) (acts : List Act) (n : Nat) (s1 : St)
    (h : certifiedLive ok acts n s1 = true) (as : List Act) (has : ∀ a ∈ as, a ∈ acts) :
    ok (run s1 as) = true ∧ Settles (run s1 as) := by
  simp only [certifiedLive, Bool.and_eq_true] at h
  obtain ⟨⟨⟨h0, hcl⟩, hall⟩, hset⟩ := h
  have hm := closedUnder_sound acts _ hcl s1 (by simpa using h0) as has
  rw [List.all_eq_true] at hall
  exact ⟨hall _ hm, settlesAll_sound _ hset _ hm⟩

def settledOK (acts : List Act) (needChans : Bool) (n : Nat) (s1 : St) : Bool :=
  certified (okState needChans) acts n s1

def settledLive (acts : List Act) (needChans : Bool) (n : Nat) (s1 : St) : Bool :=
  certifiedLive (okState needChans) acts n s1

theorem settledOK_sound (acts : List Act) (needChans : Bool) (n : Nat) (s1 : St)
    (h : settledOK acts needChans n s1 = true) (as : List Act) (has : ∀ a ∈ as, a ∈ acts) :
    okState needChans (run s1 as) = true := certified_sound _ acts n s1 h as has

/-- connection-progress actions of the environment that may race an event -/
def progressActs : List Act := [.iceConnect, .dtlsConnect, .roleSet, .descsSet]

/-- the terminating events of the property (application and lower layers) -/
def terminatingEvents : List Act :=
  [.callClose .localClose, .appDrop, .peerCloseNotify, .peerAbort, .peerShutdown, .peerShutdownAck, .hbTimeout,
   .iceFail, .iceStop, .iceDisconnect, .dtlsFail]

def allPhases : List Phase :=
  [.created, .offerMade, .remoteOfferSet, .checking, .iceConnected, .dtlsHandshaking, .dtlsConnected,
   .sctpConnecting, .channelsOpen, .mediaFlowing, .renegotiating]

/-- which (mode, association) × phase combinations exist: the direct modes have no DTLS phases and no
data-channel association -/
def phaseExists (m : Mode) (app : Bool) (ph : Phase) : Bool :=
  match m with
  | .webrtc => true
  | .direct => !app && ph != .dtlsHandshaking && ph != .dtlsConnected

/-- is `e` a terminating event at this phase boundary? It must be able to occur there (`enabled`), and an
ICE *disconnect* terminates only through the grace timer of the connected loop (before that it is transient
ICE loss handled by the ICE layer's own failure timeout, i.e. by `iceFail`). -/
def eventApplies (s0 : St) (e : Act) : Bool :=
  enabled s0 e && (e != .iceDisconnect || s0.drv == .running)

/-- the three kinds of connection of the table: WebRTC, direct RTP, and direct SDES-SRTP (`needDescs`: the
driving loop first waits for both descriptions — `waitDescs` / `drvDescs`; before the connection is up the
descriptions are not both set yet, `descsSet` is one of the racing progress actions) -/
inductive Kind | webrtc | rtp | sdes
deriving DecidableEq, Repr

def Kind.mode : Kind → Mode
  | .webrtc => .webrtc | .rtp => .direct | .sdes => .direct

def earlyPhase (ph : Phase) : Bool :=
  ph == .created || ph == .offerMade || ph == .remoteOfferSet || ph == .checking || ph == .iceConnected

/-- start state of a table row; one registered data channel everywhere (also on connections that will
never have an SCTP association: audit r2-A4) -/
def startState (k : Kind) (app : Bool) (ph : Phase) : St :=
  let s := phaseState k.mode app 1 ph
  match k with
  | .sdes =>
    -- SDES at `iceConnected`: the driving loop is parked in its description poll
    if earlyPhase ph then { s with needDescs := true, descs := false } else { s with needDescs := true }
  | _ => s

/-- the kind × phase × event table of certificates -/
def phaseEventTable : List (Kind × Bool × Phase × Act) :=
  [Kind.webrtc, Kind.rtp, Kind.sdes].flatMap fun k => [true, false].flatMap fun app =>
    (allPhases.filter (phaseExists k.mode app)).flatMap fun ph =>
      (terminatingEvents.filter (eventApplies (startState k app ph))).map fun e => (k, app, ph, e)

set_option maxRecDepth 1000000 in
/-- **reaches_terminal_with_reason** — full statement, all schedules: for every kind of connection (WebRTC
with or without a data-channel association, direct RTP, direct SDES-SRTP), at **every phase boundary**, for
**every terminating event** that can occur there (`close()`, drop, peer close_notify, SCTP ABORT / SHUTDOWN /
SHUTDOWN-ACK / heartbeat timeout, ICE failure / stop / disconnect, DTLS failure) the certificate holds, i.e.
(by `certifiedLive_sound`) along **every schedule** of the implementation's own tasks — the DTLS handshake
deadline included: no exemption for a handshake in flight — *and* of racing connection progress (ICE
connecting, DTLS completing, role / descriptions arriving):
* every quiescent state is terminal — peer state in {Disconnected, Failed, Closed} with a reason — **and the
  registered data channel has seen exactly one `Close`, its pending `recv()` returns, no `send_data` is left
  parked** (also when the connection never had an SCTP association);
* every reachable state **settles**: every run of the implementation's own tasks from it is finite
  (`Settles`), so a quiescent — hence terminal — state is actually reached (`Settles.reaches_quiescent`).
(False before the round-2 / round-3 fixes: witnesses below.) -/
theorem reaches_terminal_with_reason :
    phaseEventTable.all (fun (k, app, ph, e) =>
      settledLive (internalActs ++ progressActs) true 40 (step (startState k app ph) e)) = true := by
  decide +kernel

/-- the statement in the usual form, from the table and the soundness lemma -/
theorem reaches_terminal_with_reason_all_schedules (k : Kind) (app : Bool) (ph : Phase) (e : Act)
    (hmem : (k, app, ph, e) ∈ phaseEventTable) (as : List Act)
    (has : ∀ a ∈ as, a ∈ internalActs ++ progressActs) :
    let t := run (step (startState k app ph) e) as
    (quiescent t = true → terminal t = true ∧ chansDone t = true) ∧
    (∃ more : List Act, (∀ a ∈ more, a ∈ internalActs) ∧ quiescent (run t more) = true) := by
  have htab := reaches_terminal_with_reason
  rw [List.all_eq_true] at htab
  have hlive := htab _ hmem
  have h2 := certifiedLive_sound _ _ 40 _ hlive as has
  refine ⟨fun hq => ?_, h2.2.reaches_quiescent⟩
  have h3 := h2.1
  simp only [okState, hq, Bool.not_true, Bool.false_or, Bool.and_eq_true] at h3
  exact ⟨h3.1, by simpa using h3.2⟩

example : (Kind.webrtc, true, Phase.dtlsHandshaking, Act.callClose .localClose) ∈ phaseEventTable := by decide

set_option maxRecDepth 1000000 in
/-- **channels_closed_when_connection_ends**: from the settled connected state with an open channel,
for every terminating event and **every schedule** of the implementation's tasks, the quiescent end state
is terminal *and* the channel has seen exactly one `Close` and a pending `recv()` returns. -/
theorem channels_closed_when_connection_ends :
    (terminatingEvents.filter fun e => enabled (connectedSt .webrtc true 1) e).all (fun e =>
      settledOK internalActs true 40 (step (connectedSt .webrtc true 1) e)) = true := by
  decide +kernel

/-- settled states after a drop: `Closed` with a reason -/
def okDropped (s : St) : Bool :=
  !quiescent s || (s.peer == .closed && s.reason.isSome)

set_option maxRecDepth 1000000 in
/-- **drop_reaches_closed**: dropping the last handle at any phase boundary — including while the driving
loop is inside `start_dtls` and holds the only remaining strong handle (audit A5: the drop is then deferred,
not lost) — ends `Closed` with a reason along every schedule of the implementation's tasks and of racing
connection progress. -/
theorem drop_reaches_closed :
    ([Kind.webrtc, Kind.rtp, Kind.sdes].all fun k => [true, false].all fun app => (allPhases.filter (phaseExists k.mode app)).all fun ph =>
      certified okDropped (internalActs ++ progressActs) 40 (step (startState k app ph) .appDrop)) = true := by
  decide +kernel

set_option maxRecDepth 1000000 in
/-- **all_pending_calls_released**: from the connected state with an open channel, with up to three
`send_data` calls parking in SCTP flow control at any moment (before or after the event, as long as the
association accepts sends), for every terminating event and **every schedule**: the quiescent end state is
terminal, the channel has seen exactly one Close, its pending `recv()` returns, and **no send is left
parked** (`blocked = 0`) — every terminating path drains the pending calls. (False before fix b5ed730 for
the paths that do not go through `SctpTransport::close()`: peer ABORT / SHUTDOWN, heartbeat timeout, DTLS
closed, ICE failed.) -/
theorem all_pending_calls_released :
    (terminatingEvents.filter fun e => enabled (connectedSt .webrtc true 1) e).all (fun e =>
      settledOK (.senderBlocks :: internalActs) true 60
        (step (run (connectedSt .webrtc true 1) [.senderBlocks, .senderBlocks]) e)) = true := by
  decide +kernel

set_option maxRecDepth 1000000 in
/-- **ice_failure_after_grace_expiry_reaches_failed** (audit r3-M3 / 2.9) — the second half of the
"recoverable" exemption, a two-event row: after ICE `Disconnected` and the grace expiry (the parked "cycling
transport" state in which `wait_for_connected` keeps waiting), an ICE failure — the consent time-out — ends
it: along **every** schedule of the implementation's own tasks every quiescent state is `Failed` with a reason,
the channel closed, and `wait_for_connected` errors at once. (The driving loop must still be watching ICE for
this: a loop that returned at the grace expiry leaves `Disconnected` for good — driven by `peerVanishThenIceFail`.) -/
theorem ice_failure_after_grace_expiry_reaches_failed :
    ([true, false].all fun app =>
      certified (fun s => !quiescent s || (s.peer == .failed && s.reason.isSome && chansDone s && call s .waitForConnected == .errNow))
        internalActs 40 (step (run (connectedSt .webrtc app 1) [.iceDisconnect, .drvIce, .drvGrace]) .iceFail)) = true := by
  decide +kernel

/-- While the driving loop is still alive the lenient terminal state is **not** final: after the ICE
disconnect grace expired (`Disconnected` + `IceDisconnected`, SCTP closed) the loop is parked at its top and
an ICE recovery makes it start DTLS again and report `Connected` — with the stale reason still set.
(Model-level witness of the "cycling transport" design; not replayed on the implementation — it needs a
network blackhole that heals.) -/
theorem terminal_not_final_while_driver_alive_witness :
    ∃ (s : St) (as : List Act), terminal s = true ∧ s.drv ≠ .done ∧ terminal (run s as) = false := by
  refine ⟨run (connectedSt .webrtc false 0) [.iceDisconnect, .drvIce, .drvGrace],
    [.iceRecover, .drvTop, .dtlsConnect, .drvStart], by decide, by decide, by decide⟩

/-! ### superseded witnesses (the code as it was before the round-2 fixes)

Kept as regression examples: the schedules that used to refute `reaches_terminal_with_reason` now end
terminal. -/

/-- was `reaches_terminal_drop_witness` (drop of a connected WebRTC connection did nothing); since the
WebRTC loop holds the connection weakly the drop tears it down -/
theorem drop_of_connected_webrtc_now_closes :
    let t := run (connectedSt .webrtc true 1) [.appDrop, .dtlsExit]
    quiescent t = true ∧ t.peer = .closed ∧ t.reason = some .dropped ∧ t.chans = [⟨true, 1, true⟩] := by decide

/-- was `reaches_terminal_close_race_witness` (`close()` racing the end of the DTLS handshake left
`Connected` for good); `Closed` is final now -/
theorem close_race_now_stays_closed :
    let t := run (phaseState .webrtc false 0 .dtlsHandshaking)
      [.callClose .localClose, .dtlsConnect, .drvStart, .closeStep, .drvLoops, .closeStep, .dtlsExit]
    quiescent t = true ∧ terminal t = true ∧ t.peer = .closed ∧ t.reason = some .localClose ∧ t.drv = .done := by decide

/-- was `close_during_handshake_driver_stuck_witness` (the DTLS task left without a final state and
`start_dtls` waited forever); it publishes `Closed` now and the driving loop returns -/
theorem close_during_handshake_driver_now_returns :
    let t := run (phaseState .webrtc false 0 .dtlsHandshaking)
      [.callClose .localClose, .closeStep, .closeStep, .dtlsExit, .drvStart]
    quiescent t = true ∧ terminal t = true ∧ t.drv = .done := by decide

end RtcModel.Theorems.C17
