/-
C17 — closing or losing a connection at any moment ends it cleanly and visibly.
Property theorems only (helpers: `RtcModel/Lemmas/Lifecycle.lean`).

Claimed **partial**: the theorems are about the propagation rules of the model (`RtcModel.Lifecycle`):
all states, all actions, all schedules (arbitrary `List Act`, every interleaving of the application,
the driving loop, the SCTP runner, the DTLS task and the environment).  Release of tokio tasks and socket
descriptors and "promptly" are runtime facts measured by the harness (`vh c17`), not theorems.

"Terminal" is read leniently (DESIGN C17): `peer_state ∈ {Disconnected, Failed, Closed}` with a reason.
-/
import RtcModel.Lemmas.Lifecycle

namespace RtcModel.Theorems.C17
open RtcModel.Lifecycle RtcModel.Generated

/-- generated-constant obligation: the chunk types the harness injects are the ones the code dispatches on -/
theorem const_chunk_types :
    sctpCtAbort = 6 ∧ sctpCtShutdown = 7 ∧ sctpCtShutdownAck = 8 ∧ sctpCtShutdownComplete = 14 := by decide

/-! ### the disconnect reason: first reason wins -/

/-- **reason_first_wins_step**: no action of any actor, in any state, changes a reason once it is set. -/
theorem reason_first_wins_step (s : St) (a : Act) (r : Reason) (h : s.reason = some r) :
    (step s a).reason = some r := by
  unfold step
  split
  · exact apply_reason_keeps s a r h
  · exact h

/-- **reason_first_wins**: along every schedule (any length, any interleaving) the reason that was set
first is the one reported at the end. -/
theorem reason_first_wins (s : St) (as : List Act) (r : Reason) (h : s.reason = some r) :
    (run s as).reason = some r := by
  induction as generalizing s with
  | nil => exact h
  | cons a rest ih =>
    simp only [run, List.foldl_cons]
    exact ih (step s a) (reason_first_wins_step s a r h)

/-- `close()` always leaves a reason behind: the first block of `close_with_reason` sets one unless one is
already there (a connection that is already `Closed` got its reason from whoever closed it), and then —
first wins — it survives every later schedule. -/
theorem close_sets_reason (s : St) (arg : Reason) (as : List Act) (hen : enabled s (.callClose arg) = true)
    (hinv : s.peer = .closed → s.reason.isSome = true) :
    (run (step s (.callClose arg)) as).reason.isSome = true := by
  have h1 : (step s (.callClose arg)).reason.isSome = true := by
    simp only [step, hen, if_true, apply]
    unfold closeA
    split
    · rename_i hc; simpa using hinv hc
    · simp [setReasonIfNone_isSome]
  cases hr : (step s (.callClose arg)).reason with
  | none => simp [hr] at h1
  | some r => simp [reason_first_wins _ as r hr]

/-! ### data channels: Close exactly once -/

/-- every action leaves the channel list alone or runs the close-once step over it -/
theorem chans_step (s : St) (a : Act) : ChansStep s.chans (step s a).chans := by
  unfold step
  split
  · exact apply_chans s a
  · exact .refl _

/-- a channel is either open with no Close delivered, or closed with exactly one -/
def ChanOk (c : Chan) : Prop := (c.closed = false ∧ c.events = 0) ∨ (c.closed = true ∧ c.events = 1)

theorem closeChan_ok (c : Chan) (h : ChanOk c) : ChanOk (closeChan c) ∧ (closeChan c).closed = true := by
  unfold closeChan
  rcases h with ⟨h1, h2⟩ | ⟨h1, h2⟩ <;> simp [h1, h2, ChanOk]

/-- **channel_close_exactly_once** (safety half, all schedules): along every schedule from a state whose
channels are consistent, every channel has seen `Close` at most once, and exactly once iff it is closed;
a closed channel is never reopened and the number of channels never changes. -/
theorem channel_close_exactly_once (s : St) (as : List Act) (h : ∀ c ∈ s.chans, ChanOk c) :
    (run s as).chans.length = s.chans.length ∧
    (∀ c ∈ (run s as).chans, ChanOk c) ∧
    (∀ i : Nat, (s.chans[i]?).map (fun c : Chan => c.closed) = some true → ((run s as).chans[i]?).map (fun c : Chan => c.closed) = some true) := by
  induction as generalizing s with
  | nil => exact ⟨rfl, h, fun _ hh => hh⟩
  | cons a rest ih =>
    have hs := chans_step s a
    have hok : ∀ c ∈ (step s a).chans, ChanOk c := by
      rcases hs with e | e
      · rw [e]; exact h
      · rw [e]; intro c hc
        simp only [List.mem_map] at hc
        obtain ⟨c0, hc0, rfl⟩ := hc
        exact (closeChan_ok c0 (h c0 hc0)).1
    have hlen : (step s a).chans.length = s.chans.length := by
      rcases hs with e | e <;> simp [e]
    have hmono : ∀ i : Nat, (s.chans[i]?).map (fun c : Chan => c.closed) = some true → ((step s a).chans[i]?).map (fun c : Chan => c.closed) = some true := by
      intro i hi
      rcases hs with e | e
      · rw [e]; exact hi
      · rw [e]
        cases hci : s.chans[i]? with
        | none => simp [hci] at hi
        | some c =>
          simp only [hci, Option.map_some, Option.some.injEq] at hi
          simp [List.getElem?_map, hci, closeChan, hi]
    obtain ⟨l, o, m⟩ := ih (step s a) hok
    simp only [run, List.foldl_cons] at *
    exact ⟨l.trans hlen, o, fun i hi => m i (hmono i hi)⟩

example : ∀ c ∈ (base .webrtc true 3).chans, ChanOk c := by
  intro c hc; simp [base] at hc; subst hc; left; exact ⟨rfl, rfl⟩

/-- **channel_close_on_close** (liveness half for `close()`): once block B of `close_with_reason` has run
— in any state, SCTP association or not — every channel is closed and has seen exactly one `Close`, and
that stays so along every later schedule. (False before fix 78635d3 for channels without an association.) -/
theorem channel_close_on_close (s : St) (as : List Act) (h : ∀ c ∈ s.chans, ChanOk c) :
    ∀ c ∈ (run (closeB s) as).chans, c.closed = true ∧ c.events = 1 := by
  have hB : ∀ c ∈ (closeB s).chans, ChanOk c ∧ c.closed = true := by
    intro c hc
    simp only [closeB_chans, List.mem_map] at hc
    obtain ⟨c0, hc0, rfl⟩ := hc
    exact closeChan_ok c0 (h c0 hc0)
  obtain ⟨hl, hok, hm⟩ := channel_close_exactly_once (closeB s) as (fun c hc => (hB c hc).1)
  intro c hc
  obtain ⟨i, hi, rfl⟩ := List.mem_iff_getElem.mp hc
  have hi' : i < (closeB s).chans.length := by omega
  have hc0 := hB ((closeB s).chans[i]) (List.getElem_mem hi')
  have := hm i (by simp [List.getElem?_eq_getElem hi', hc0.2])
  simp [List.getElem?_eq_getElem hi] at this
  rcases hok _ (List.getElem_mem hi) with ⟨h1, _⟩ | ⟨h1, h2⟩
  · simp [h1] at this
  · exact ⟨h1, h2⟩

/-! ### close is idempotent -/

/-- the three blocks of one `close()` call, run back to back -/
def closeSeq (s : St) (arg : Reason) : St := run s [.callClose arg, .closeStep, .closeStep]

/-- **close_idempotent**: after a completed `close()`, a second complete `close()` — with any reason
argument — changes nothing at all. -/
theorem close_idempotent (s : St) (arg : Reason) (hp : s.peer = .closed) (hc : s.close = .finished) :
    closeSeq s arg = s := by
  have h1 : step s (.callClose arg) = s := by
    simp [step, enabled, hc, apply, closeA, hp]
    cases s; simp_all
  have h2 : step s .closeStep = s := by simp [step, enabled, hc]
  show step (step (step s (.callClose arg)) .closeStep) .closeStep = s
  rw [h1, h2, h2]

/-- a completed `close()` from any state that was not yet closed ends `Closed`, signaling `Closed`,
`sctp_transport` taken, every channel closed, with a reason; so `close_idempotent` applies to it -/
theorem closeSeq_result (s : St) (arg : Reason) (hp : s.peer ≠ .closed) (hc : s.close = .none) :
    let t := closeSeq s arg
    t.peer = .closed ∧ t.sig = .closed ∧ t.held = false ∧ t.close = .finished ∧ t.reason.isSome = true ∧
    t.ice = .closed ∧ (∀ c ∈ t.chans, c.closed = true) := by
  have hA : step s (.callClose arg) = closeA s arg := by simp [step, enabled, hc, apply]
  have hAc : (closeA s arg).close = .a := by simp [closeA, hp]
  have hB : step (closeA s arg) .closeStep = closeB (closeA s arg) := by simp [step, enabled, hAc, apply]
  have hC : step (closeB (closeA s arg)) .closeStep = closeC (closeB (closeA s arg)) := by
    simp [step, enabled, apply, closeB]
  simp only [closeSeq, run, List.foldl_cons, List.foldl_nil, hA, hB, hC]
  refine ⟨?_, ?_, ?_, ?_, ?_, ?_, ?_⟩
  · simp [closeC, closeB, closeA, hp]
  · simp [closeC, closeB, closeA, hp]
  · simp [closeC, closeB]
  · simp [closeC]
  · simp [closeC, closeB, closeA, hp, setReasonIfNone_isSome]
  · simp [closeC]
  · intro c hc'
    simp only [closeC_chans, closeB_chans, closeA_chans, List.mem_map] at hc'
    obtain ⟨c0, _, rfl⟩ := hc'
    unfold closeChan; split <;> simp_all

/-- closing twice in a row: the second call is a no-op -/
theorem close_twice (s : St) (a1 a2 : Reason) (hp : s.peer ≠ .closed) (hc : s.close = .none) :
    closeSeq (closeSeq s a1) a2 = closeSeq s a1 := by
  obtain ⟨h1, _, _, h4, _⟩ := closeSeq_result s a1 hp hc
  exact close_idempotent _ a2 h1 h4

/-- the driving loop's / `Drop`'s uninterleaved teardown is idempotent too -/
theorem teardown_idempotent (s : St) (a b : Reason) : teardown (teardown s a) b = teardown s a := by
  have h := teardown_peer s a
  generalize teardown s a = t at h
  simp [teardown, h]

/-! ### calls fail fast after close -/

/-- **calls_fail_fast_after_close**: in every state in which `close()` has completed, `send_data`,
`create_offer`, `set_remote_description(offer)` and `wait_for_connected` return an error at once,
`create_data_channel` does not block, and a pending `DataChannel::recv` on any channel returns. -/
theorem calls_fail_fast_after_close (s : St) (arg : Reason) (hp : s.peer ≠ .closed) (hc : s.close = .none) :
    let t := closeSeq s arg
    call t .sendData = .errNow ∧ call t .createOffer = .errNow ∧ call t .setRemoteOffer = .errNow ∧
    call t .waitForConnected = .errNow ∧ call t .createDataChannel ≠ .pending ∧
    ∀ i, call t (.dcRecv i) ≠ .pending := by
  obtain ⟨h1, h2, h3, _, _, _, h7⟩ := closeSeq_result s arg hp hc
  refine ⟨by simp [call, h3], by simp [call, h2], by simp [call, h2], by simp [call, h1], by simp [call], ?_⟩
  intro i
  simp only [call]
  cases hi : (closeSeq s arg).chans[i]? with
  | none => simp
  | some c =>
    have := h7 c (List.mem_of_getElem? hi)
    simp [this]

/-- before fix 78635d3 the last clause failed for channels that never had an SCTP association; the model
of the guard alone (`sctpEnd`) shows why: without an association nothing maps over the channels -/
example : (closeC (closeB (closeA (base .webrtc true 1) .localClose))).chans = [⟨true, 1⟩] := by decide

/-! ### terminal state -/

/-- **terminal_stable_after_driver_exit**: once the driving loop has exited in a terminal state, *no*
action of any actor — including ICE recovery, late packets, further `close()` calls — takes the connection
out of the terminal set or clears the reason ("no later return to Connecting/Connected"). -/
theorem terminal_stable_after_driver_exit (s : St) (as : List Act) (ht : terminal s = true) (hd : s.drv = .done) :
    terminal (run s as) = true ∧ (run s as).drv = .done := by
  induction as generalizing s with
  | nil => exact ⟨ht, hd⟩
  | cons a rest ih =>
    simp only [run, List.foldl_cons]
    have key := step_done_terminal s a ht hd
    exact ih (step s a) key.1 key.2

example : terminal (run (connectedSt .webrtc true 2) [.peerCloseNotify, .drvDtls]) = true ∧
    (run (connectedSt .webrtc true 2) [.peerCloseNotify, .drvDtls]).drv = .done := by decide

/-- While the driving loop is still alive the lenient terminal state is **not** final: after the ICE
disconnect grace expired (`Disconnected` + `IceDisconnected`, SCTP closed) the loop is parked at its top and
an ICE recovery makes it start DTLS again and report `Connected` — with the stale reason still set.
(Model-level witness of the "cycling transport" design; not replayed on the implementation — it needs a
network blackhole that heals.) -/
theorem terminal_not_final_while_driver_alive_witness :
    ∃ (s : St) (as : List Act), terminal s = true ∧ s.drv ≠ .done ∧ terminal (run s as) = false := by
  refine ⟨run (connectedSt .webrtc false 0) [.iceDisconnect, .drvIce, .drvGrace],
    [.iceRecover, .drvTop, .dtlsConnect, .drvStart], by decide, by decide, by decide⟩

/-- Sequential use — the events of `DESIGN C17` injected into a settled connected state and the
implementation's own tasks then running to quiescence in the listed order — ends terminal with the reason
of the first event. One representative schedule per event; *all* interleavings are explored by the Lean
driver for every harness run (stream `life`) and compared with the real connection. -/
theorem settled_events_reach_terminal :
    let s := connectedSt .webrtc true 1
    (let t := run s [.callClose .localClose, .closeStep, .closeStep, .sctpClose, .dtlsExit, .drvIce];
      quiescent t = true ∧ t.peer = .closed ∧ t.reason = some .localClose ∧ t.chans = [⟨true, 1⟩]) ∧
    (let t := run s [.peerCloseNotify, .drvDtls]; quiescent t = true ∧ t.peer = .disconnected ∧ t.reason = some .dtlsClosed ∧ t.chans = [⟨true, 1⟩]) ∧
    (let t := run s [.peerAbort, .drvLoops]; quiescent t = true ∧ t.peer = .disconnected ∧ t.reason = some .sctpRemoteAbort ∧ t.chans = [⟨true, 1⟩]) ∧
    (let t := run s [.peerShutdown, .drvLoops]; quiescent t = true ∧ t.peer = .disconnected ∧ t.reason = some .sctpRemoteShutdown) ∧
    (let t := run s [.hbTimeout, .drvLoops]; quiescent t = true ∧ t.peer = .disconnected ∧ t.reason = some .sctpHeartbeatTimeout) ∧
    (let t := run s [.iceFail, .drvIce]; quiescent t = true ∧ t.peer = .failed ∧ t.reason = some .iceFailed ∧ t.chans = [⟨true, 1⟩]) ∧
    (let t := run s [.iceStop, .drvIce, .sctpClose, .dtlsExit]; quiescent t = true ∧ t.peer = .closed ∧ t.sig = .closed ∧ t.reason = some .iceDisconnected) ∧
    (let t := run s [.iceDisconnect, .drvIce, .drvGrace]; quiescent t = true ∧ t.peer = .disconnected ∧ t.reason = some .iceDisconnected) := by
  decide

/-- **reaches_terminal_with_reason — full statement is false in the model of the code as it is.**
Full statement: `∀ phase schedule, quiescent (run (phaseState …) schedule) → a terminating event occurred →
terminal`. Witness 1 (application drop while the WebRTC driving loop holds its strong handle): nothing
happens at all — replayed on the implementation, known finding `term:webrtc/established/drop:…`. -/
theorem reaches_terminal_drop_witness :
    let t := run (connectedSt .webrtc true 1) [.appDrop]
    quiescent t = true ∧ t.peer = .connected ∧ t.reason = none ∧ t.chans = [⟨false, 0⟩] := by decide

/-- Witness 2 (`close()` racing the end of the DTLS handshake): block A sets `Closed`, the driving loop
then sees DTLS `Connected` and overwrites it with `Connected`, the cleared listeners end its loop before ICE
is stopped, and the connection is left `Connected` (reason `LocalClose`, signaling `Closed`) for good.
(Found by the proof attempt; a narrow scheduling window — later observed on the implementation in a loaded
run: known finding `term:*/connecting/close:connected-localClose`.) -/
theorem reaches_terminal_close_race_witness :
    let t := run (phaseState .webrtc false 0 .dtlsHandshaking)
      [.callClose .localClose, .dtlsConnect, .drvStart, .closeStep, .drvLoops, .closeStep, .dtlsExit]
    quiescent t = true ∧ terminal t = false ∧ t.peer = .connected ∧ t.reason = some .localClose := by decide

/-- Witness 3 (`close()` during the DTLS handshake of a connection without data channels): the DTLS task
leaves on the close notification without publishing a final state, `start_dtls` keeps waiting for one, so
the driving loop never returns (it still holds the connection strongly): terminal state reported, tasks
leaked — measured on the implementation, known finding `leak:webrtc-audio/connecting/close:…`. -/
theorem close_during_handshake_driver_stuck_witness :
    let t := run (phaseState .webrtc false 0 .dtlsHandshaking) [.callClose .localClose, .closeStep, .closeStep, .dtlsExit]
    quiescent t = true ∧ terminal t = true ∧ t.drv = .starting := by decide

/-- **reaches_terminal_with_reason_partial**: what holds for every state and every schedule —
(1) an executed `close()` yields `Closed` + reason + signaling `Closed` at once (block A), whatever the
phase; (2) from then on the reason never changes; (3) once the driving loop has exited in a terminal state
the state stays terminal under every action of every actor. -/
theorem reaches_terminal_with_reason_partial (s : St) (arg : Reason) (hen : enabled s (.callClose arg) = true)
    (hp : s.peer ≠ .closed) :
    let t := step s (.callClose arg)
    t.peer = .closed ∧ t.sig = .closed ∧ terminal t = true ∧
    (∀ as r, t.reason = some r → (run t as).reason = some r) ∧
    (t.drv = .done → ∀ as, terminal (run t as) = true) := by
  have ht : step s (.callClose arg) = closeA s arg := by simp [step, hen, apply]
  simp only [ht]
  have h1 : (closeA s arg).peer = .closed := by simp [closeA, hp]
  have h2 : (closeA s arg).sig = .closed := by simp [closeA, hp]
  have h3 : terminal (closeA s arg) = true := by
    rw [terminal_iff]
    refine ⟨Or.inr (Or.inr h1), ?_⟩
    have : (closeA s arg).reason.isSome = true := by simp [closeA, hp, setReasonIfNone_isSome]
    cases h : (closeA s arg).reason with
    | none => simp [h] at this
    | some r => exact ⟨r, rfl⟩
  exact ⟨h1, h2, h3, fun as r hr => reason_first_wins _ as r hr,
    fun hd as => (terminal_stable_after_driver_exit _ as h3 hd).1⟩

end RtcModel.Theorems.C17
