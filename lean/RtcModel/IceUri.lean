/-
Model of `IceServerUri::parse` (`src/transports/ice/mod.rs`): RFC 7064 / 7065 `stun:` / `turn:` URIs with
rustrtc's string operations (`split_once`, `rsplit_once`, `split('&')`, `to_ascii_lowercase`,
`starts_with`, substring `contains`) and its order of checks. Strings are `List Char`. Core Lean only.
-/
import RtcModel.IceCand
import RtcModel.Generated.Consts

namespace RtcModel.IceUri
open RtcModel.IceCand RtcModel.Generated

inductive Kind where | stun | turn
deriving DecidableEq, Repr
inductive Tr where | udp | tcp
deriving DecidableEq, Repr

structure Uri where
  kind : Kind
  host : Str
  port : Nat
  transport : Tr
deriving DecidableEq, Repr

inductive UriErr where
  | noScheme | port | scheme | transport | stunTransport
deriving DecidableEq, Repr

/-- `str::split_once(c)` : split at the first `c` -/
def splitOnce (c : Char) : Str → Option (Str × Str)
  | [] => none
  | x :: xs =>
    if x = c then some ([], xs)
    else match splitOnce c xs with
      | some (a, b) => some (x :: a, b)
      | none => none

/-- `str::rsplit_once(c)` : split at the last `c` -/
def rsplitOnce (c : Char) (s : Str) : Option (Str × Str) :=
  match splitOnce c s.reverse with
  | some (b, a) => some (a.reverse, b.reverse)
  | none => none

/-- `str::split(c)` -/
def splitAll (c : Char) : Str → List Str
  | [] => [[]]
  | x :: xs =>
    match splitAll c xs with
    | [] => [[]]            -- unreachable
    | h :: t => if x = c then [] :: h :: t else (x :: h) :: t

/-- `str::contains(&str)` (substring) -/
def containsSub (pat : Str) : Str → Bool
  | [] => pat.isEmpty
  | x :: xs => pat.isPrefixOf (x :: xs) || containsSub pat xs

def defaultPort (scheme : Str) : Option Nat :=
  if scheme = ['s', 't', 'u', 'n'] ∨ scheme = ['t', 'u', 'r', 'n'] then some iceUriDefaultPortPlain
  else if scheme = ['s', 't', 'u', 'n', 's'] ∨ scheme = ['t', 'u', 'r', 'n', 's'] then some iceUriDefaultPortSecure else none

def defaultTransport (scheme : Str) : Option Tr :=
  if scheme = ['s', 't', 'u', 'n'] ∨ scheme = ['t', 'u', 'r', 'n'] then some .udp
  else if scheme = ['s', 't', 'u', 'n', 's'] ∨ scheme = ['t', 'u', 'r', 'n', 's'] then some .tcp else none

/-- the `for pair in query.split('&')` loop -/
def queryLoop (pairs : List Str) (tr : Tr) : Except UriErr Tr :=
  match pairs with
  | [] => .ok tr
  | p :: rest =>
    match splitOnce '=' p with
    | some (k, v) =>
      if k = ['t', 'r', 'a', 'n', 's', 'p', 'o', 'r', 't'] then
        let lv := toAsciiLower v
        if lv = ['u', 'd', 'p'] then queryLoop rest .udp
        else if lv = ['t', 'c', 'p'] then queryLoop rest .tcp
        else .error .transport
      else queryLoop rest tr
    | none => queryLoop rest tr

/-- `match rest.split_once('?')` -/
def splitQuery (rest : Str) : Str × Str :=
  match splitOnce '?' rest with
  | some p => p
  | none => (rest, [])

/-- host and port: explicit port after the LAST `:` of the host part, else the scheme's default -/
def hostPort (scheme hostPart : Str) : Except UriErr (Str × Nat) :=
  match rsplitOnce ':' hostPart with
  | some (h, p) => match parseUInt 65535 p with
    | some port => .ok (h, port)
    | none => .error .port
  | none => match defaultPort scheme with
    | some port => .ok (hostPart, port)
    | none => .error .scheme

/-- the optional `transport=` query parameter -/
def queryTransport (query : Str) (tr0 : Tr) : Except UriErr Tr :=
  if query.isEmpty then .ok tr0 else queryLoop (splitAll '&' query) tr0

/-- the last two checks -/
def finish (scheme host : Str) (port : Nat) (tr : Tr) (query : Str) : Except UriErr Uri :=
  if ['s', 't', 'u', 'n'].isPrefixOf scheme ∧ containsSub ['t', 'r', 'a', 'n', 's', 'p', 'o', 'r', 't'] query then .error .stunTransport
  else .ok ⟨if scheme = ['s', 't', 'u', 'n'] ∨ scheme = ['s', 't', 'u', 'n', 's'] then Kind.stun else Kind.turn, host, port, tr⟩

/-- `IceServerUri::parse` -/
def parse (input : Str) : Except UriErr Uri :=
  match splitOnce ':' input with
  | none => .error .noScheme
  | some (scheme, rest) =>
    match hostPort scheme (splitQuery rest).1 with
    | .error e => .error e
    | .ok (host, port) =>
      match defaultTransport scheme with
      | none => .error .scheme
      | some tr0 =>
        match queryTransport (splitQuery rest).2 tr0 with
        | .error e => .error e
        | .ok tr => finish scheme host port tr (splitQuery rest).2

end RtcModel.IceUri
