/-
C07 — stateful model of the SCTP receive path of `SctpInner` (src/transports/sctp.rs) for whole packet HISTORIES on one
association: the byte walkers of `C07Sctp.lean` plus exactly the association state that decides which bytes are
walked and in which order — the cumulative TSN / `received_queue` logic of `handle_data` (duplicate test, in-order fast
path, queue insert, in-order drain, `process_data_payload` on queued chunks), the T1 gate of `handle_init_ack` /
`handle_cookie_ack`, duplicate-INIT handling, COOKIE-ECHO acceptance, FORWARD-TSN (`new > old`, queue `retain`),
RE-CONFIG request numbering, DCEP channel creation. Queued chunk values are re-parsed when they are drained (`advance(4)`,
`get_u16`, `get_u32` on the stored bytes), so totality over histories needs the invariant "every queued chunk value has
≥ 12 bytes" — proved in Lemmas/C07SctpSt.lean.
Not modelled: the sender side (`sent_queue`, SACK processing beyond `a_rwnd`, congestion control, timers), message
reassembly / `InboundStream` ordering, the cookie HMAC (cookies issued by the implementation are an input).
Per packet the model yields the digest the harness reads off the real association: control chunks sent in reply
(from the hook trace), data channels created, then `[cumulative_tsn_ack, |received_queue|, peer_rwnd]`.
-/
import RtcModel.C07Sctp
namespace RtcModel.C07.SctpSt
open RtcModel.C07 RtcModel.Generated RtcModel.C07.Sctp

/-- `x.wrapping_sub(1)` / `x.wrapping_add(k)` / `a.wrapping_sub(b)` on u32 values (arguments are < 2^32: they come from
`get_u32` or from these functions). Written without `variable + huge literal` so that the kernel never has to normalise
such a sum when it compares association states. -/
def u32pred (x : Nat) : Nat := if x = 0 then 4294967295 else x - 1
def u32add (x k : Nat) : Nat := (x + k) % 4294967296
def u32sub (a b : Nat) : Nat := if b ≤ a then a - b else 4294967296 - (b - a)

structure St where
  cum : Nat := 0
  queue : List (Nat × Nat × Array UInt8) := []      -- received_queue: (tsn, flags, chunk value)
  t1 : Nat := 0                                     -- T1 timer chunk: 0 none, 1 INIT, 2 COOKIE-ECHO
  hasTag : Bool := false                            -- verification_tag ≠ 0
  remoteTag : Nat := 0
  state : Nat := 0                                  -- 0 not connected, 1 Connected, 2 Closed
  peerRwnd : Nat := 262144
  cookies : List (Array UInt8) := []                -- cookies this endpoint issued (valid for COOKIE-ECHO)
  chans : List Nat := []                            -- stream ids that have a data channel
  lastReconfSn : Nat := 4294967295
  seed : Nat := 0                                   -- the initial TSN this endpoint draws (harness-seeded, constant)
  nextTsn : Nat := 0                                -- `next_tsn` (nothing is transmitted while the harness feeds packets)
  peerCumAck : Nat := 0                             -- highest cumulative TSN the peer acknowledged
  dcepBuf : List (Nat × Array UInt8) := []          -- `dcep_reassembly`: stream → partial DCEP message (absent = empty)
  txPlan : List Nat := []                           -- DATA chunks each `transmit()` call of the current packet took from the outbound queue (implementation-supplied, see `Pkt.sent`)
  ev : List (List Nat) := []                        -- events of the current packet (reversed)

def St.emit (s : St) (e : List Nat) : St := { s with ev := e :: s.ev }

/-- `handle_dcep(stream_id, data)` with channel creation -/
def handleDcepSt (s : St) (sid : Nat) : Cur St := do
  if (← remaining) = 0 then pure s else
  let mt ← peek 0
  if mt = c07DcepTypeOpen then
    let body ← restSlice
    let r ← attemptD (onBuf (Buf.ofArray body) dcepOpenUnmarshal) ([], Buf.ofArray #[])
    if ¬ r.1 then pure s else                               -- `DataChannelOpen::unmarshal(&data)?` — the caller drops the error
    match r.2.1 with
    | [ct, _prio, rel, labelLen, protoLen] =>
      -- an OPEN on an unused stream id is refused once `MAX_DATA_CHANNELS` channels are live (the error is dropped by the caller)
      if ¬ s.chans.contains sid ∧ s.chans.length ≥ c07MaxDataChannels then pure s else
      let s : St := if s.chans.contains sid then s else
        { s with chans := sid :: s.chans }.emit
          [1000, sid, labelLen, protoLen, if ct / 128 % 2 = 0 then 1 else 0,
           if ct % 4 = 1 then rel % 65536 + 1 else 0, if ct % 4 = 2 then rel % 65536 + 1 else 0]
      -- `send_dcep_ack(stream_id).await?`: refused on a Closed association, but the caller only logs a DCEP error
      pure s
    | _ => pure s
  else pure s

/-- `process_data_payload(flags, chunk)` on a chunk value (TSN included) -/
def dcepGet (l : List (Nat × Array UInt8)) (sid : Nat) : Array UInt8 :=
  match l.find? (fun e => e.1 = sid) with | some e => e.2 | none => #[]
def dcepSet (l : List (Nat × Array UInt8)) (sid : Nat) (v : Array UInt8) : List (Nat × Array UInt8) :=
  (sid, v) :: l.filter (fun e => e.1 ≠ sid)

def processData (s : St) (flags : Nat) (v : Array UInt8) : Cur St := do
  let r ← onBuf (Buf.ofArray v) (do
    advance 4
    let sid ← getU16
    let _ssn ← getU16
    let ppid ← getU32
    if ppid = c07PpidDcep then
      -- a DCEP message is collected from its B fragment to its E fragment
      let bBit := flags / 2 % 2 = 1
      let eBit := flags % 2 = 1
      if bBit ∧ eBit then handleDcepSt s sid
      else
        let data ← restSlice
        let cur := if bBit then #[] else dcepGet s.dcepBuf sid
        if ¬ bBit ∧ cur.size = 0 then pure s else          -- a middle / end fragment without a beginning
        alloc data.size
        let msg := cur ++ data
        if ¬ eBit then pure { s with dcepBuf := dcepSet s.dcepBuf sid msg }
        else
          let r ← onBuf (Buf.ofArray msg) (handleDcepSt { s with dcepBuf := s.dcepBuf.filter (fun e => e.1 ≠ sid) } sid)
          pure r.1
    else
      alloc (← remaining)                               -- reassembly append when the channel exists
      pure s)
  pure r.1

/-- the in-order drain of `received_queue`; state = (entries taken (reversed), remaining queue) -/
def drainBody (cum : Nat) (st : List (Nat × Nat × Array UInt8) × List (Nat × Nat × Array UInt8)) :
    Cur ((List (Nat × Nat × Array UInt8) × List (Nat × Nat × Array UInt8)) ⊕
         (List (Nat × Nat × Array UInt8) × List (Nat × Nat × Array UInt8))) :=
  let next := u32add cum (1 + st.1.length)
  match st.2.find? (fun e => e.1 = next) with
  | some e => pure (.inl (e :: st.1, st.2.filter (fun x => x.1 ≠ next)))
  | none => pure (.inr (st.1.reverse, st.2))

/-- `for (flags, chunk) in to_process { process_data_payload(..)?; cum = cum + 1 }` -/
def processBatch : St → List (Nat × Nat × Array UInt8) → Cur St
  | s, [] => pure s
  | s, e :: rest => do
    let s ← processData s e.2.1 e.2.2
    processBatch { s with cum := u32add s.cum 1 } rest

/-- `handle_data(flags, chunk)` -/
def handleDataSt (s : St) (flags : Nat) (v : Array UInt8) : Cur St := do
  if v.size < 12 then pure s else
  let tsn ← be32 v 0
  let diff := u32sub tsn s.cum
  if diff = 0 ∨ diff > 2147483648 then pure s else
  if diff = 1 ∧ s.queue.isEmpty then
    let s ← processData s flags v
    pure { s with cum := tsn }
  else
    let q := if s.queue.any (fun e => e.1 = tsn) then s.queue else (tsn, flags, v) :: s.queue
    let r ← loopM (drainBody s.cum) (q.length + 1) ([], q)
    processBatch { s with queue := r.2 } r.1

/-- INIT-ACK parameter walk collecting the last State Cookie (type 7); state = cookie found so far -/
def cookieWalkBody (c : Option (Array UInt8)) : Cur (Option (Array UInt8) ⊕ Option (Array UInt8)) := do
  if ¬ ((← remaining) ≥ 4) then pure (.inr c) else
  let pt ← getU16
  let pl ← getU16
  if pl < 4 ∨ (← remaining) < pl - 4 then pure (.inr c) else
  let v ← splitTo (pl - 4)
  let padding := (4 - pl % 4) % 4
  if (← remaining) ≥ padding then advance padding else pure ()
  pure (.inl (if pt = 7 then some v.rest else c))

/-- `handle_init(_, chunk)` -/
def handleInitSt (s : St) : Cur St := do
  if (← remaining) < 16 then pure s else
  let tag ← getU32
  let rwnd ← getU32
  let _os ← getU16
  let _is ← getU16
  let tsn ← getU32
  let duplicate := s.hasTag ∧ s.remoteTag = tag
  if duplicate ∧ s.state = 1 then pure s else
  pure ({ s with peerRwnd := rwnd, remoteTag := tag, cum := u32pred tsn, hasTag := true, nextTsn := s.seed }.emit [2])

/-- `handle_init_ack(chunk)`: only while the T1 timer holds our INIT -/
def handleInitAckSt (s : St) : Cur St := do
  if s.t1 ≠ 1 then pure s else
  if (← remaining) < 16 then pure { s with t1 := 0 } else
  let tag ← getU32
  let rwnd ← getU32
  let _os ← getU16
  let _is ← getU16
  let tsn ← getU32
  let fuel := (← remaining) + 1
  let c ← loopM cookieWalkBody fuel none
  match c with
  | some ck => pure ({ s with t1 := 2, peerRwnd := rwnd, remoteTag := tag, cum := u32pred tsn }.emit [10, foldA ck, ck.size])
  | none => pure { s with t1 := 0, peerRwnd := rwnd, remoteTag := tag, cum := u32pred tsn }

/-- `tsn_gt(a, b)`: `(a.wrapping_sub(b) as i32) > 0` -/
def tsnGt (a b : Nat) : Bool := 0 < u32sub a b ∧ u32sub a b < 2147483648

def handleSackSt (s : St) : Cur St := do
  if (← remaining) ≥ 12 then
    let cumAck ← getU32
    let rwnd ← getU32
    let num ← getU16
    let _dups ← getU16
    let _ ← loopM (sackGapsBody num) (num + 1) 0
    -- a SACK whose cumulative TSN is behind the one already acknowledged was overtaken: its a_rwnd is old news
    -- `handle_sack` ends with `transmit()`: whatever it sends (queued DCEP ACKs; since 134f6f2 one chunk as a zero-window probe) takes
    -- TSNs from `next_tsn`. The send side (cwnd, flight, burst limit) is not modelled: the number is read from the endpoint's trace.
    pure { s with peerRwnd := if tsnGt s.peerCumAck cumAck then s.peerRwnd else rwnd,
                  peerCumAck := if tsnGt cumAck s.peerCumAck then cumAck else s.peerCumAck,
                  nextTsn := u32add s.nextTsn (s.txPlan.headD 0 % 4294967296), txPlan := s.txPlan.tail }
  else pure s

/-- after FORWARD-TSN: "chunks that were waiting behind the skipped TSNs are in order now" -/
def fwdDrainBody (s : St) : Cur (St ⊕ St) := do
  let next := u32add s.cum 1
  match s.queue.find? (fun e => e.1 = next) with
  | none => pure (.inr s)
  | some e =>
    let s' ← processData { s with queue := s.queue.filter (fun x => x.1 ≠ next) } e.2.1 e.2.2
    pure (.inl { s' with cum := next })

def handleForwardTsnSt (s : St) : Cur St := do
  if (← remaining) < 4 then pure s else
  let new ← getU32
  let fuel := (← remaining) + 1
  let _ ← loopM fwdPairsBody fuel 0
  if tsnGt new s.cum then
    let s : St := { s with cum := new, queue := s.queue.filter (fun e => tsnGt e.1 new) }
    loopM fwdDrainBody (s.queue.length + 1) s
  else pure s

/-- RE-CONFIG parameter walk with request numbering; state = association state -/
def reconfigBodySt (s : St) : Cur (St ⊕ St) := do
  if ¬ ((← remaining) ≥ 4) then pure (.inr s) else
  let pt ← getU16
  let pl ← getU16
  if pl < 4 ∨ (← remaining) < pl - 4 then pure (.inr s) else
  let v ← splitTo (pl - 4)
  let padding := (4 - pl % 4) % 4
  if (← remaining) ≥ padding then advance padding else pure ()
  if pt = c07ReconfigOutgoing then
    let r ← onBuf v (do
      if (← remaining) < 12 then pure s else
      let req ← getU32
      let _b ← getU32
      let _c ← getU32
      if req ≤ s.lastReconfSn ∧ s.lastReconfSn ≠ 4294967295 then pure (s.emit [130, req, 0]) else
      let _ ← getU16sAll ((← remaining) + 1)
      pure ({ s with lastReconfSn := req }.emit [130, req, 1]))
    pure (.inl r.1)
  else if pt = c07ReconfigResponse then
    let _ ← onBuf v (do
      if (← remaining) < 8 then pure () else
      let _a ← getU32
      let _b ← getU32
      pure ())
    pure (.inl s)
  else pure (.inl s)

/-- dispatch of one chunk -/
def handleChunkSt (s : St) (ct flags : Nat) (v : Buf) : Cur St := do
  let r ← onBuf v (
    if ct = c07CtInit then handleInitSt s
    else if ct = c07CtInitAck then handleInitAckSt s
    else if ct = 10 then do                              -- COOKIE-ECHO
      let ck ← restSlice
      if ¬ s.cookies.contains ck then pure s else
      let s := s.emit [11]
      pure (if s.state = 1 then s else { s with state := 1, peerCumAck := u32pred s.nextTsn })
    else if ct = 11 then                                 -- COOKIE-ACK
      pure (if s.t1 ≠ 2 then s else { s with t1 := 0, state := 1, peerCumAck := u32pred s.nextTsn })
    else if ct = c07CtData then do
      let body ← restSlice
      handleDataSt s flags body
    else if ct = c07CtSack then handleSackSt s
    else if ct = 4 then do                               -- HEARTBEAT → HEARTBEAT-ACK with the same value
      let body ← restSlice
      pure (s.emit [5, foldA body, body.size])
    else if ct = c07CtForwardTsn then handleForwardTsnSt s
    else if ct = c07CtReconfig then do
      let fuel := (← remaining) + 1
      loopM reconfigBodySt fuel s
    else if ct = 6 then pure { s with state := 2 }        -- ABORT
    else if ct = 7 then pure (s.emit [8])                 -- SHUTDOWN → SHUTDOWN-ACK
    else if ct = 8 ∨ ct = 14 then pure { s with state := 2 }
    else pure s)
  pure r.1

def chunkWalkBodySt (s : St) : Cur (St ⊕ St) := do
  if (← remaining) = 0 then pure (.inr s) else
  if (← remaining) < c07ChunkHeaderSize then pure (.inr s) else
  let ct ← getU8
  let flags ← getU8
  let cl ← getU16
  if cl < c07ChunkHeaderSize ∨ (← remaining) < cl - c07ChunkHeaderSize then pure (.inr s) else
  let v ← splitTo (cl - c07ChunkHeaderSize)
  let padding := (4 - cl % 4) % 4
  if (← remaining) ≥ padding then advance padding else pure ()
  let s ← handleChunkSt s ct flags v
  pure (.inl s)

/-- one packet on the association. A handler `Err` (`?`) would end the packet; after main's change that drops DCEP errors the only
source of one is a failed send on a closed DTLS transport, which this model does not contain (the fixture keeps the link open; the
harness prints `9999` for a handler error, so one would show as a disagreement). -/
def handlePacketSt (s : St) (crcOk : Bool) : Cur St := do
  if (← remaining) < c07SctpCommonHeader then pure s else
  let _sp ← getU16
  let _dp ← getU16
  let _vt ← getU32
  let _ck ← getU32
  if ¬ crcOk then pure s else
  let fuel := (← remaining) + 1
  loopM chunkWalkBodySt fuel s

/-- a packet of a history: bytes, checksum verdict, cookies the implementation issued while handling it -/
structure Pkt where
  bytes : List UInt8
  crcOk : Bool
  issued : List (Array UInt8)
  sent : List Nat := []      -- per `transmit()` call made while handling this packet: number of new DATA chunks it sent (each takes one TSN)

/-- control replies first, then channel creations (the harness reads the two from different sources) -/
def St.digest (s : St) : List (List Nat) :=
  let evs := s.ev.reverse
  evs.filter (fun e => e.head? ≠ some 1000) ++ evs.filter (fun e => e.head? = some 1000) ++
    [[s.cum, s.queue.length, s.peerRwnd]]

/-- run a history -/
def runHistory : St → List Pkt → Cur (List (List (List Nat)))
  | _, [] => pure []
  | s, p :: rest => do
    let r ← onBuf (Buf.ofList p.bytes) (handlePacketSt { s with ev := [], txPlan := p.sent } p.crcOk)
    let s1 : St := { r.1 with cookies := p.issued ++ r.1.cookies }
    let more ← runHistory s1 rest
    pure (s1.digest :: more)

end RtcModel.C07.SctpSt
