/-
RTP header parsing and re-serialisation as used by SRTP (`RtpHeader::parse`, `write_to`,
`encoded_len`, `validate` in src/rtp.rs; `SrtpPacket::parse`, `marshal_header_into` in src/srtp.rs).
-/
import RtcModel.Base.C04Bytes
import RtcModel.Generated.Consts
namespace RtcModel.Srtp
open RtcModel.C04 RtcModel.Generated

structure Ext where
  profile : Nat
  data : Bytes
deriving DecidableEq, Repr

structure Hdr where
  marker : Bool
  pt : UInt8
  seq : Nat
  ts : Nat
  ssrc : Nat
  csrcs : List Nat
  ext : Option Ext
deriving DecidableEq, Repr

inductive ParseErr
  | tooShort
  | version (v : Nat)
deriving DecidableEq, Repr

/-- `n` big-endian `u32`s from the front of a byte string (caller has checked the length). -/
def readU32s : Nat → Bytes → List Nat × Bytes
  | n + 1, a :: b :: c :: d :: rest =>
    let (vs, r) := readU32s n rest
    (dec32 a b c d :: vs, r)
  | _, bs => ([], bs)

def writeU32s (vs : List Nat) : Bytes := vs.flatMap be32

/-- the extension block, after the CSRC list -/
def parseExt (x : Bool) (rest : Bytes) : Except ParseErr (Option Ext × Bytes) :=
  if x then
    match rest with
    | p0 :: p1 :: l0 :: l1 :: rest' =>
      let len := dec16 l0 l1 * 4
      if rest'.length < len then .error .tooShort
      else .ok (some ⟨dec16 p0 p1, rest'.take len⟩, rest'.drop len)
    | _ => .error .tooShort
  else .ok (none, rest)

/-- `RtpHeader::parse`: header, padding bit, remaining bytes (the body). -/
def parseHdr (raw : Bytes) : Except ParseErr (Hdr × Bool × Bytes) :=
  match raw with
  | b0 :: b1 :: s0 :: s1 :: t0 :: t1 :: t2 :: t3 :: x0 :: x1 :: x2 :: x3 :: rest =>
    if (b0 >>> 6).toNat ≠ rtpVersion then .error (.version (b0 >>> 6).toNat)
    else
      let cc := (b0 &&& 0x0F).toNat
      if rest.length < cc * 4 then .error .tooShort
      else
        let (csrcs, rest1) := readU32s cc rest
        match parseExt (b0 &&& 0x10 != 0) rest1 with
        | .error e => .error e
        | .ok (ext, body) =>
          .ok (⟨b1 &&& 0x80 != 0, b1 &&& 0x7F, dec16 s0 s1, dec32 t0 t1 t2 t3, dec32 x0 x1 x2 x3,
                csrcs, ext⟩, b0 &&& 0x20 != 0, body)
  | _ => .error .tooShort

def extBytes : Option Ext → Bytes
  | none => []
  | some e => be16 e.profile ++ be16 (e.data.length / 4) ++ e.data

def firstByte (h : Hdr) (hasPadding : Bool) : UInt8 :=
  (UInt8.ofNat rtpVersion <<< 6) ||| (if hasPadding then 0x20 else 0) |||
    (if h.ext.isSome then 0x10 else 0) ||| byteOf (h.csrcs.length % 16)

def secondByte (h : Hdr) : UInt8 := (h.pt &&& 0x7F) ||| (if h.marker then 0x80 else 0)

/-- `RtpHeader::write_to` into a buffer of `encoded_len()` bytes. -/
def writeHdr (h : Hdr) (hasPadding : Bool) : Bytes :=
  firstByte h hasPadding :: secondByte h :: (be16 h.seq ++ be32 h.ts ++ be32 h.ssrc) ++
    writeU32s h.csrcs ++ extBytes h.ext

/-- `RtpHeader::encoded_len` -/
def encodedLen (h : Hdr) : Nat :=
  12 + h.csrcs.length * 4 + (match h.ext with | none => 0 | some e => 4 + e.data.length)

/-- `RtpHeader::validate` (what `protect` checks before writing) -/
def validHdr (h : Hdr) : Bool :=
  h.pt.toNat ≤ 0x7F &&                       -- fix 3e6a870 (was masked to 7 bits)
  h.csrcs.length ≤ rtpMaxCsrc && (match h.ext with | none => true | some e => e.data.length % 4 == 0) &&
  (match h.ext with | none => true | some e => e.data.length / 4 ≤ 65535)   -- fix 7264ebc

/-- what a header must satisfy to be representable on the wire (beyond `validHdr`): field
ranges of the Rust integer types, a 7-bit payload type and an extension length that fits `u16`. -/
structure Hdr.WF (h : Hdr) : Prop where
  pt : h.pt < 128
  seq : h.seq < 65536
  ts : h.ts < 4294967296
  ssrc : h.ssrc < 4294967296
  csrcs : ∀ c ∈ h.csrcs, c < 4294967296
  ncsrc : h.csrcs.length ≤ 15
  extProfile : ∀ e, h.ext = some e → e.profile < 65536
  extAligned : ∀ e, h.ext = some e → e.data.length % 4 = 0
  extLen : ∀ e, h.ext = some e → e.data.length / 4 < 65536

end RtcModel.Srtp
