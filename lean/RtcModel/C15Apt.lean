/-
C15 — RTX `apt=` association (RFC 4588 §8.1), mirroring `parse_apt` / `extract_rtx_apt_map` of
`src/rtx.rs` (strings are the UTF-8 byte lists of Rust `str`s; `str::trim` strips Unicode White_Space;
`u8::from_str` accepts an optional `+` and decimal digits up to 255).
-/
import RtcModel.Base.C15Bytes

namespace RtcModel.C15

def isWs (b : UInt8) : Bool := b = 0x20 || b = 0x09 || b = 0x0A || b = 0x0B || b = 0x0C || b = 0x0D

/-- number of octets of a leading Unicode `White_Space` character (what `char::is_whitespace` accepts):
U+0009..000D, U+0020, U+0085, U+00A0, U+1680, U+2000..200A, U+2028, U+2029, U+202F, U+205F, U+3000 -/
def wsLen : Bytes → Nat
  | b :: rest =>
    if isWs b then 1
    else match b.toNat, rest with
      | 0xC2, c :: _ => if c.toNat = 0x85 || c.toNat = 0xA0 then 2 else 0
      | 0xE1, c :: d :: _ => if c.toNat = 0x9A && d.toNat = 0x80 then 3 else 0
      | 0xE2, c :: d :: _ =>
        if c.toNat = 0x80 && ((0x80 ≤ d.toNat && d.toNat ≤ 0x8A) || d.toNat = 0xA8 || d.toNat = 0xA9 || d.toNat = 0xAF) then 3
        else if c.toNat = 0x81 && d.toNat = 0x9F then 3 else 0
      | 0xE3, c :: d :: _ => if c.toNat = 0x80 && d.toNat = 0x80 then 3 else 0
      | _, _ => 0
  | [] => 0

/-- the same for a trailing character, on the reversed string -/
def wsLenRev : Bytes → Nat
  | b :: rest =>
    if isWs b then 1
    else match rest with
      | c :: rest2 =>
        if wsLen [c, b] = 2 then 2
        else match rest2 with
          | d :: _ => if wsLen [d, c, b] = 3 then 3 else 0
          | [] => 0
      | [] => 0
  | [] => 0

def trimStartF : Nat → Bytes → Bytes
  | 0, s => s
  | fuel + 1, s => let k := wsLen s; if k = 0 then s else trimStartF fuel (s.drop k)

def trimEndRevF : Nat → Bytes → Bytes
  | 0, s => s
  | fuel + 1, s => let k := wsLenRev s; if k = 0 then s else trimEndRevF fuel (s.drop k)

def trimStart (s : Bytes) : Bytes := trimStartF s.length s

/-- `str::trim` on the UTF-8 bytes of a string -/
def trim (s : Bytes) : Bytes := (trimEndRevF s.length (trimStart s).reverse).reverse

/-- `str::split(sep)` -/
def splitOnByte (sep : UInt8) : Bytes → List Bytes
  | [] => [[]]
  | b :: rest =>
    match splitOnByte sep rest with
    | [] => [[]]                                  -- unreachable
    | cur :: more => if b = sep then [] :: cur :: more else (b :: cur) :: more

/-- digits → value, `none` on a non-digit or on overflow past 255 -/
def digitsU8 : Bytes → Nat → Option Nat
  | [], acc => some acc
  | d :: rest, acc =>
    if 0x30 ≤ d.toNat ∧ d.toNat ≤ 0x39 then
      let v := acc * 10 + (d.toNat - 0x30)
      if v > 255 then none else digitsU8 rest v
    else none

/-- `str::parse::<u8>()` -/
def parseU8 (s : Bytes) : Option UInt8 :=
  let ds := match s with | 0x2B :: rest => rest | _ => s
  if ds.isEmpty then none else (digitsU8 ds 0).map u8

def stripPrefix (p s : Bytes) : Option Bytes := if p.isPrefixOf s then some (s.drop p.length) else none

def aptLower : Bytes := [0x61, 0x70, 0x74, 0x3D]   -- "apt="
def aptUpper : Bytes := [0x41, 0x50, 0x54, 0x3D]   -- "APT="

def parseAptParts : List Bytes → Option UInt8
  | [] => none
  | part :: more =>
    let p := trim part
    match (stripPrefix aptLower p).orElse (fun _ => stripPrefix aptUpper p) with
    | some rest => parseU8 (trim rest)            -- the first `apt=` part decides
    | none => parseAptParts more

/-- `parse_apt` -/
def parseApt (fmtp : Bytes) : Option UInt8 := parseAptParts (splitOnByte 0x3B fmtp)

/-- `splitn(2, ' ')` → (payload type text, rest) if there is a space -/
def splitFirstSpace : Bytes → Option (Bytes × Bytes)
  | [] => none
  | b :: rest =>
    if b = 0x20 then some ([], rest)
    else (splitFirstSpace rest).map fun r => (b :: r.1, r.2)

def fmtpKey : Bytes := [0x66, 0x6D, 0x74, 0x70]    -- "fmtp"

/-- `extract_rtx_apt_map` as an association list, later lines overriding earlier ones -/
def extractApt : List (Bytes × Option Bytes) → List (UInt8 × UInt8) → List (UInt8 × UInt8)
  | [], m => m
  | (k, v) :: rest, m =>
    if k ≠ fmtpKey then extractApt rest m
    else match v with
      | none => extractApt rest m
      | some val =>
        match splitFirstSpace val with
        | none => extractApt rest m
        | some (ptStr, fmtp) =>
          match parseU8 ptStr with
          | none => extractApt rest m
          | some pt =>
            match parseApt fmtp with
            | none => extractApt rest m
            | some primary => extractApt rest ((pt, primary) :: m.filter (·.1 != pt))

end RtcModel.C15
