/-
C15 — `String::from_utf8_lossy` on byte level (Rust `core::str::lossy::Utf8Chunks`): Rust strings
are modelled as their UTF-8 byte sequence; every maximal invalid prefix of an ill-formed sequence
is replaced by U+FFFD (EF BF BD).  Used for SDES item text and the BYE reason.
-/
import RtcModel.Base.C15Bytes

set_option linter.unusedVariables false
namespace RtcModel.C15

/-- continuation byte `10xxxxxx` -/
def isCont (b : UInt8) : Bool := 128 ≤ b.toNat && b.toNat ≤ 191

def repl : Bytes := [0xEF, 0xBF, 0xBD]

/-- admissible second byte after a three-byte lead (RFC 3629 §4, no overlongs, no surrogates) -/
def second3 (b c : UInt8) : Bool :=
  (b.toNat = 0xE0 && 0xA0 ≤ c.toNat && c.toNat ≤ 0xBF) ||
  (0xE1 ≤ b.toNat && b.toNat ≤ 0xEC && 0x80 ≤ c.toNat && c.toNat ≤ 0xBF) ||
  (b.toNat = 0xED && 0x80 ≤ c.toNat && c.toNat ≤ 0x9F) ||
  (0xEE ≤ b.toNat && b.toNat ≤ 0xEF && 0x80 ≤ c.toNat && c.toNat ≤ 0xBF)

/-- admissible second byte after a four-byte lead (≤ U+10FFFF) -/
def second4 (b c : UInt8) : Bool :=
  (b.toNat = 0xF0 && 0x90 ≤ c.toNat && c.toNat ≤ 0xBF) ||
  (0xF1 ≤ b.toNat && b.toNat ≤ 0xF3 && 0x80 ≤ c.toNat && c.toNat ≤ 0xBF) ||
  (b.toNat = 0xF4 && 0x80 ≤ c.toNat && c.toNat ≤ 0x8F)

/-- bytes of `String::from_utf8_lossy(bs)` -/
def lossy : Bytes → Bytes
  | [] => []
  | b :: rest =>
    if b.toNat < 128 then b :: lossy rest
    else if 0xC2 ≤ b.toNat ∧ b.toNat ≤ 0xDF then
      match hrest : rest with
      | c :: r => if isCont c then b :: c :: lossy r else repl ++ lossy rest
      | [] => repl
    else if 0xE0 ≤ b.toNat ∧ b.toNat ≤ 0xEF then
      match hrest : rest with
      | c :: r =>
        if second3 b c then
          match hr : r with
          | d :: r2 => if isCont d then b :: c :: d :: lossy r2 else repl ++ lossy r
          | [] => repl
        else repl ++ lossy rest
      | [] => repl
    else if 0xF0 ≤ b.toNat ∧ b.toNat ≤ 0xF4 then
      match hrest : rest with
      | c :: r =>
        if second4 b c then
          match hr : r with
          | d :: r2 =>
            if isCont d then
              match hr2 : r2 with
              | e :: r3 => if isCont e then b :: c :: d :: e :: lossy r3 else repl ++ lossy r2
              | [] => repl
            else repl ++ lossy r
          | [] => repl
        else repl ++ lossy rest
      | [] => repl
    else repl ++ lossy rest
termination_by bs => bs.length
decreasing_by all_goals (subst_vars; simp only [List.length_cons]; omega)

end RtcModel.C15
