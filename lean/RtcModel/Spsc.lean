/-
C20 — executable model of `SpscRing<T>` (src/media/spsc.rs).

Shared state: `head`, `tail` (machine words, wrapping arithmetic modulo `W`), `slots` with a ghost
"initialised" flag (`some v` = initialised and holding `v`, `none` = uninitialised / moved out).
`push` and `pop` are split into their individual shared-memory accesses (one `PushPc`/`PopPc`
value per access, in program order; the locals `tail`/`head` live in the program counter):

  push:  ldTail  `let tail = self.tail.load(Relaxed)`
         ldHead  `let head = self.head.load(Acquire); if tail.wrapping_sub(head) >= cap { return Err }`
         write   `(*self.buffer[tail & mask].get()).write(value)`
         stTail  `self.tail.store(tail.wrapping_add(1), Release)`
  pop:   ldHead  `let head = self.head.load(Relaxed)`
         ldTail  `let tail = self.tail.load(Acquire); if head == tail { …`
         retNone `… return None }`   (no access; a preemption point so that schedules can separate an
                 empty `pop` from the caller's next access)
         read    `(*self.buffer[head & mask].get()).assume_init_read()`
         stHead  `self.head.store(head.wrapping_add(1), Release)`

Atomics are sequentially consistent here (each access is one indivisible step on one shared state);
the Acquire/Release orderings of the code are NOT modelled (out of scope, see NOTES/C20.md).

Ghost fields (`log`, `tcount`, `hcount`, `outs`, `bad`) do not influence the computation:
`bad` records slot-safety violations (write over an initialised slot = leak/overwrite; read of an
uninitialised slot = use of uninitialised / already moved-out memory, i.e. duplicate + double free).
Core Lean only.
-/
import RtcModel.Base.C20Word
import RtcModel.Generated.Consts

namespace RtcModel.Spsc
open RtcModel.C20Word RtcModel.Generated

/-- a sample: (producer tag, payload) — the tag is what the harness writes into the payload too -/
abbrev Val := Nat × Nat

inductive Bad
  | overwrite (idx : Nat)     -- `write` into a slot that still holds an initialised value
  | readUninit (idx : Nat)    -- `assume_init_read`/`assume_init_drop` on an uninitialised slot
deriving DecidableEq, Repr

def upd {α : Type} (f : Nat → α) (i : Nat) (x : α) : Nat → α := fun j => if j = i then x else f j

@[simp] theorem upd_same {α : Type} (f : Nat → α) (i : Nat) (x : α) : upd f i x i = x := by simp [upd]
theorem upd_other {α : Type} (f : Nat → α) (i j : Nat) (x : α) (h : j ≠ i) : upd f i x j = f j := by
  simp [upd, h]

structure Ring where
  cap : Nat
  /-- `buffer.len() - 1`: the slot count is `capacity.next_power_of_two()` -/
  mask : Nat
  W : Nat
  head : Nat
  tail : Nat
  slots : Nat → Option Val
  /-- ghost: every value written into a slot, in write order -/
  log : List Val
  /-- ghost: number of `tail` stores / `head` stores so far (unbounded counters) -/
  tcount : Nat
  hcount : Nat
  /-- ghost: values handed out by completed pops, in order -/
  outs : List Val
  bad : List Bad

/-- `SpscRing::with_capacity(cap)` on a machine with word modulus `W`; `start` is 0 in the code
(the `verif_with_start` hook starts both indices elsewhere to reach the wrap-around). -/
def Ring.init (cap W start : Nat) : Ring :=
  { cap, mask := nextPow2 cap - spscMaskDec, W, head := (start + spscInitHead) % W, tail := (start + spscInitTail) % W, slots := fun _ => none,
    log := [], tcount := start + spscInitTail, hcount := start + spscInitHead, outs := [], bad := [] }

inductive PushPc
  | ldTail
  | ldHead (tl : Nat)
  | write (tl : Nat)
  | stTail (tl : Nat)
deriving DecidableEq, Repr

inductive PushOut
  | cont (p : PushPc)
  | full
  | done
deriving DecidableEq, Repr

/-- number of slots (`buffer.len()`) -/
def Ring.n (r : Ring) : Nat := r.mask + 1
/-- slot index of a (wrapped) position: `index & self.mask` -/
def Ring.idx (r : Ring) (x : Nat) : Nat := x &&& r.mask

def Ring.writeSlot (r : Ring) (i : Nat) (v : Val) : Ring :=
  { r with slots := upd r.slots i (some v), log := r.log ++ [v],
           bad := if (r.slots i).isSome then r.bad ++ [Bad.overwrite i] else r.bad }

def Ring.storeTail (r : Ring) (tl : Nat) : Ring :=
  { r with tail := wadd r.W tl spscPushInc, tcount := r.tcount + 1 }

/-- one shared-memory access of `SpscRing::push(v)` -/
def pushStep (r : Ring) (v : Val) : PushPc → Ring × PushOut
  | .ldTail => (r, .cont (.ldHead r.tail))
  | .ldHead tl => if wsub r.W tl r.head ≥ r.cap then (r, .full) else (r, .cont (.write tl))
  | .write tl => (r.writeSlot (r.idx tl) v, .cont (.stTail tl))
  | .stTail tl => (r.storeTail tl, .done)

inductive PopPc
  | ldHead
  | ldTail (hl : Nat)
  | retNone                     -- queue found empty; pure preemption point before `return None`
  | read (hl : Nat)
  | stHead (hl : Nat) (v : Val)
deriving DecidableEq, Repr

inductive PopOut
  | cont (p : PopPc)
  | empty
  | done (v : Val)
deriving DecidableEq, Repr

/-- value the model hands out for a read of an uninitialised slot (the real code reads garbage) -/
def junk : Val := (0, 0)

def Ring.readSlot (r : Ring) (i : Nat) : Ring × Val :=
  match r.slots i with
  | some v => ({ r with slots := upd r.slots i none }, v)
  | none => ({ r with bad := r.bad ++ [Bad.readUninit i] }, junk)

def Ring.storeHead (r : Ring) (hl : Nat) (v : Val) : Ring :=
  { r with head := wadd r.W hl spscPopInc, hcount := r.hcount + 1, outs := r.outs ++ [v] }

/-- one shared-memory access of `SpscRing::pop()` -/
def popStep (r : Ring) : PopPc → Ring × PopOut
  | .ldHead => (r, .cont (.ldTail r.head))
  | .ldTail hl => if hl = r.tail then (r, .cont .retNone) else (r, .cont (.read hl))
  | .retNone => (r, .empty)
  | .read hl => let (r', v) := r.readSlot (r.idx hl); (r', .cont (.stHead hl v))
  | .stHead hl v => (r.storeHead hl v, .done v)

/-- `SpscRing::is_empty()` (both loads in one step; see NOTES) -/
def Ring.isEmpty (r : Ring) : Bool := r.head == r.tail

/-- `SpscRing::len()` -/
def Ring.len (r : Ring) : Nat := r.tail - r.head

/-- `impl Drop for SpscRing`: `while head != tail { slot[head & mask].assume_init_drop(); head += 1 }`.
Returns the ring after the loop and the values dropped, in order. The loop runs at most `W`
times (`fuel`), because `head` returns to its start after `W` wrapping increments. -/
def dropLoop (r : Ring) (acc : List Val) : Nat → Nat → Ring × List Val
  | 0, _ => (r, acc)
  | fuel + 1, h =>
    if h = r.tail then (r, acc) else
      let (r', v) := r.readSlot (r.idx h)
      dropLoop r' (acc ++ [v]) fuel (wadd r.W h spscDropInc)

def Ring.drop (r : Ring) : Ring × List Val := dropLoop r [] r.W r.head

/-! ### the ring alone: one pusher role and one popper role, any interleaving -/

/-- ring + the pusher role's and the popper role's program counters (`none` = not inside the call) -/
structure RSys where
  ring : Ring
  pu : Option (PushPc × Val)
  po : Option PopPc

inductive RLabel
  | push (v : Val)   -- pusher role: enter `push(v)` if outside, else perform its next access
  | pop              -- popper role: enter `pop()` if outside, else perform its next access
deriving DecidableEq, Repr

def rstep (s : RSys) : RLabel → RSys
  | .push v =>
    match s.pu with
    | none => { s with pu := some (.ldTail, v) }
    | some (p, v') =>
      match pushStep s.ring v' p with
      | (r, .cont p') => { s with ring := r, pu := some (p', v') }
      | (r, _) => { s with ring := r, pu := none }
  | .pop =>
    match s.po with
    | none => { s with po := some .ldHead }
    | some p =>
      match popStep s.ring p with
      | (r, .cont p') => { s with ring := r, po := some p' }
      | (r, _) => { s with ring := r, po := none }

def rrun (s : RSys) (ls : List RLabel) : RSys := ls.foldl rstep s

def RSys.init (cap W : Nat) : RSys := ⟨Ring.init cap W 0, none, none⟩

end RtcModel.Spsc
