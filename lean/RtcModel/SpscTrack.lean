/-
C20 — interleaving model of the track sample queue (src/media/track.rs):
`SampleStreamSource::{send, send_many, try_send}` (all through `try_send_drop_oldest` / `try_send`),
`Clone` and `Drop` of sources, `SampleStreamTrack::{recv, stop}` over one `SpscRing` (RtcModel.Spsc).

Threads are program counters; ONE step = ONE shared-memory access (an atomic load/store/RMW, a slot
access, a lock operation, a `Notify` call), i.e. the access that follows one `verif_yield(point)` in
the instrumented code; the thread then runs (thread-local computation only, incl. dropping lock
guards at the end of a scope) up to its next yield point. Any interleaving of steps is a `List Label`.
Sequentially consistent: every step acts on one global state.

`Variant` selects the code version: `plock` = producers take `push_lock` (commit "fix: serialise
producers…"), `rfix` = `recv` creates its `Notified` first and reads `source_closed` before `pop`
(commit "fix: SampleStreamTrack::recv…"). The current code is `Variant.cur = ⟨true, true⟩`; the
earlier versions are kept only for the witness theorems that show why the fixes are needed.

`tokio::sync::Notify` is modelled from its documented behaviour (one stored permit, `notify_waiters`
stores none but wakes every `Notified` created before it), with the consumer as the only waiter.
Core Lean only.
-/
import RtcModel.Spsc

namespace RtcModel.SpscTrack
open RtcModel.Spsc RtcModel.C20Word RtcModel.Generated

structure Variant where
  plock : Bool
  rfix : Bool
  /-- `false`: the track pair of track.rs; `true`: the `SampleQueueSender`/`SampleQueueReceiver`
  pair of pipeline.rs (same producer paths; no sender counting — the one sender is shared by
  reference; its own receiver loop `stepR`, receiver drop also sets `closed`) -/
  pipe : Bool
deriving DecidableEq, Repr

def Variant.cur : Variant := ⟨true, true, false⟩
/-- the pipeline.rs queue pair, current code -/
def Variant.pipeCur : Variant := ⟨true, true, true⟩

/-- which `push` inside which function: first/second attempt of `try_send_drop_oldest`, or `try_send` -/
inductive Ctx | first | second | try_
deriving DecidableEq, Repr

inductive OpKind | send | try_
deriving DecidableEq, Repr

/-- producer operations (`send v` = `send [v]`; `send vs` = `send_many vs`) -/
inductive POp
  | send (vs : List Nat)
  | trySend (v : Nat)
  | cloneTo (j : Nat)
  | dropSrc
deriving DecidableEq, Repr

inductive PRes | ok | closed | wouldBlock | cloned | dropped
deriving DecidableEq, Repr

/-- producer thread program counter (with its locals) -/
inductive PPc
  | none                                     -- never had a handle
  | reserved                                 -- a clone for this thread is being made
  | gone                                     -- handle dropped
  | idle
  | acq (k : OpKind) (v : Nat) (rest : List Nat)        -- y20 `push_lock.lock()`
  | chk (k : OpKind) (v : Nat) (rest : List Nat)        -- y21 `source_closed.load()`
  | push (c : Ctx) (v : Nat) (rest : List Nat) (p : PushPc)   -- y1..y4
  | ntf (c : Ctx) (rest : List Nat)                     -- y23 `notify_one()`
  | tryLock (v : Nat) (rest : List Nat)                 -- y22 `pop_lock.try_lock()`
  | pop (v : Nat) (rest : List Nat) (p : PopPc)         -- y5..y8 (drop-oldest)
  | clone (j : Nat)                                     -- y33 `active_senders.fetch_add(1)`
  | fetchSub                                            -- y30 `active_senders.fetch_sub(1) == 1`
  | stClosed                                            -- y31 `source_closed.store(true)`
  | ntfW                                                -- y32 `notify_waiters()`
deriving DecidableEq, Repr

inductive CRes | ok (v : Val) | eos
deriving DecidableEq, Repr

/-- consumer program counter -/
inductive CPc
  | idle
  | mkNtf                                   -- y47 `self.notify.notified()`            (rfix)
  | ldEnded (g : Nat)                       -- y40 `ended.load()`
  | lock (g : Nat)                          -- y41 `pop_lock.lock()`
  | ldClosed1 (g : Nat)                     -- y42 `source_closed.load()` before pop   (rfix)
  | pop (g : Nat) (cl : Bool) (p : PopPc)   -- y5..y8
  | ldClosedOld                             -- y42 `source_closed.load()` after pop    (¬rfix)
  | stEnded                                 -- y43 `ended.store(true)`
  | await1 (g : Nat)                        -- y44 first poll of the `Notified`
  | await2                                  -- registered waiter, pending
  | ldClosed2                               -- y45
  | isEmpty                                 -- y9
  | stEnded2                                -- y46
deriving DecidableEq, Repr

inductive SPc | idle | stStore | stNotify      -- `stop()`: y50, y51
deriving DecidableEq, Repr

/-- operations of the pipeline.rs receiver -/
inductive ROp | recv | dropRecv
deriving DecidableEq, Repr

/-- program counter of `ChannelMediaSource::next_sample` → `SampleQueueReceiver::recv` and of
`Drop for SampleQueueReceiver` (pipeline.rs) -/
inductive RPc
  | idle
  | dead                                   -- receiver dropped
  | lock                                   -- y41 `pop_lock.lock()`
  | ldClosed                               -- y42 `closed.load()` before pop
  | pop (cl : Bool) (p : PopPc)            -- y5..y8
  | mkNtf                                  -- y47 `notify.notified()`
  | emptyClosed (g : Nat)                  -- y9 `queue.is_empty() && !closed.load()` (one step, see NOTES)
  | await1 (g : Nat)                       -- y44 first poll
  | await2                                 -- registered, pending
  | stClosed                               -- y34 `closed.store(true)` (receiver drop)
  | ntfW                                   -- y35 `notify_waiters()`
deriving DecidableEq, Repr

structure Notify where
  permit : Bool
  gen : Nat           -- number of `notify_waiters` calls
  reg : Bool          -- the consumer's waiter is in the list, not yet notified
  woken : Bool        -- the consumer's waiter has been notified (its waker was invoked)
deriving DecidableEq, Repr

def Notify.one (n : Notify) : Notify :=
  if n.reg then { n with reg := false, woken := true } else { n with permit := true }

def Notify.waiters (n : Notify) : Notify :=
  { n with gen := n.gen + 1, reg := false, woken := n.woken || n.reg }

inductive Tid | prod (i : Nat) | cons | stop
deriving DecidableEq, Repr

structure St where
  v : Variant
  ring : Ring
  plock : Option Nat
  poplock : Option Tid
  closed : Bool
  ended : Bool
  senders : Nat
  ntf : Notify
  pp : Nat → PPc
  cp : CPc
  sp : SPc
  rp : RPc
  /-- `ChannelMediaSource::ended`: the wrapper's own end-of-stream latch (pipeline.rs) -/
  rended : Bool
  -- ghost
  live : List Nat                 -- producers holding a handle (`fetch_sub` not yet executed)
  attempts : List Val             -- samples whose processing started (at lock acquisition), in order
  rejected : List Val             -- new samples dropped (queue full / pop lock busy / WouldBlock)
  droppedOld : List Val           -- oldest samples discarded by drop-oldest
  recvd : List Val                -- samples returned by `recv`
  pres : List (Nat × PRes)        -- producer operation results, in completion order
  cres : List CRes                -- consumer results
  stopCalled : Bool

def St.init (v : Variant) (cap W start : Nat) : St :=
  { v, ring := Ring.init cap W start, plock := none, poplock := none, closed := false, ended := false,
    senders := trackInitSenders, ntf := ⟨false, 0, false, false⟩,
    pp := fun i => if i = 0 then .idle else .none, cp := .idle, sp := .idle, rp := .idle, rended := false,
    live := [0], attempts := [], rejected := [], droppedOld := [], recvd := [], pres := [], cres := [],
    stopCalled := false }

inductive Label
  | prod (i : Nat) (op : Option POp)
  | cons (start : Bool)
  | stop (start : Bool)
  | rcv (op : Option ROp)
deriving DecidableEq, Repr

/-! ### producer steps -/

def St.setP (s : St) (i : Nat) (pc : PPc) : St := { s with pp := upd s.pp i pc }

/-- begin processing sample `v` (then `rest`): take the producer lock if this version has one -/
def St.beginSample (s : St) (i : Nat) (k : OpKind) (v : Nat) (rest : List Nat) : St :=
  if s.v.plock then s.setP i (.acq k v rest)
  else { s.setP i (.chk k v rest) with attempts := s.attempts ++ [(i, v)] }

/-- end of one `try_send_drop_oldest` / `try_send` call: guards dropped, next sample or return -/
def St.endSample (s : St) (i : Nat) (c : Ctx) (res : PRes) (rest : List Nat) : St :=
  let s := { s with plock := if s.v.plock then none else s.plock,
                    poplock := if c = Ctx.second then none else s.poplock }
  match res, rest with
  | .ok, v :: rest' => s.beginSample i .send v rest'
  | res, _ => { s.setP i .idle with pres := s.pres ++ [(i, res)] }

def startP (s : St) (i : Nat) : POp → St
  | .send [] => { s with pres := s.pres ++ [(i, .ok)] }
  | .send (v :: rest) => s.beginSample i .send v rest
  | .trySend v => s.beginSample i .try_ v []
  | .cloneTo j =>
    if j ≠ i ∧ s.pp j = .none then { s with pp := upd (upd s.pp j .reserved) i (.clone j) } else s
  | .dropSrc =>
    if s.v.pipe then
      -- pipeline.rs: the sender is shared by reference (`Arc`); releasing a reference is not a
      -- yield point, the last release runs `Drop for SampleQueueSender`
      let s' := { s with senders := s.senders - trackDropDec, live := s.live.erase i }
      if s.senders = trackCloseWhenPrev then s'.setP i .stClosed
      else { s'.setP i .gone with pres := s.pres ++ [(i, .dropped)] }
    else s.setP i .fetchSub

def stepP (s : St) (i : Nat) (op : Option POp) : St :=
  match s.pp i with
  | .none | .reserved | .gone => s
  | .idle => match op with
    | some o => startP s i o
    | none => s
  | .acq k v rest =>
    if s.plock = none then
      { s.setP i (.chk k v rest) with plock := some i, attempts := s.attempts ++ [(i, v)] }
    else s
  | .chk k v rest =>
    if s.closed then
      let s := { s with rejected := s.rejected ++ [(i, v)] }
      s.endSample i .first .closed rest
    else match k with
      | .send => s.setP i (.push .first v rest .ldTail)
      | .try_ => s.setP i (.push .try_ v rest .ldTail)
  | .push c v rest p =>
    match pushStep s.ring (i, v) p with
    | (r, .cont p') => { s.setP i (.push c v rest p') with ring := r }
    | (r, .done) => { s.setP i (.ntf c rest) with ring := r }
    | (r, .full) =>
      let s := { s with ring := r }
      match c with
      | .first => s.setP i (.tryLock v rest)
      | .second => { s with rejected := s.rejected ++ [(i, v)] }.endSample i .second .ok rest
      | .try_ => { s with rejected := s.rejected ++ [(i, v)] }.endSample i .try_ .wouldBlock rest
  | .ntf c rest => { s with ntf := s.ntf.one }.endSample i c .ok rest
  | .tryLock v rest =>
    if s.poplock = none then { s.setP i (.pop v rest .ldHead) with poplock := some (.prod i) }
    else { s with rejected := s.rejected ++ [(i, v)] }.endSample i .first .ok rest
  | .pop v rest p =>
    match popStep s.ring p with
    | (r, .cont p') => { s.setP i (.pop v rest p') with ring := r }
    | (r, .empty) => { s.setP i (.push .second v rest .ldTail) with ring := r }
    | (r, .done x) => { s.setP i (.push .second v rest .ldTail) with ring := r, droppedOld := s.droppedOld ++ [x] }
  | .clone j =>
    { s with senders := s.senders + trackCloneInc, live := s.live ++ [j],
             pp := upd (upd s.pp j .idle) i .idle, pres := s.pres ++ [(i, .cloned)] }
  | .fetchSub =>
    let s' := { s with senders := s.senders - trackDropDec, live := s.live.erase i }
    if s.senders = trackCloseWhenPrev then s'.setP i .stClosed
    else { s'.setP i .gone with pres := s.pres ++ [(i, .dropped)] }
  | .stClosed => { s.setP i .ntfW with closed := true }
  | .ntfW => { s.setP i .gone with ntf := s.ntf.waiters, pres := s.pres ++ [(i, .dropped)] }

/-! ### consumer steps -/

def St.loopTop (s : St) : St := { s with cp := if s.v.rfix then .mkNtf else .ldEnded 0 }

def St.retC (s : St) (r : CRes) : St := { s with cp := .idle, cres := s.cres ++ [r] }

def stepC (s : St) (start : Bool) : St :=
  match s.cp with
  | .idle => if start then s.loopTop else s
  | .mkNtf => { s with cp := .ldEnded s.ntf.gen }
  | .ldEnded g => if s.ended then s.retC .eos else { s with cp := .lock g }
  | .lock g =>
    if s.poplock = none then
      { s with poplock := some .cons, cp := if s.v.rfix then .ldClosed1 g else .pop g false .ldHead }
    else s
  | .ldClosed1 g => { s with cp := .pop g s.closed .ldHead }
  | .pop g cl p =>
    match popStep s.ring p with
    | (r, .cont p') => { s with ring := r, cp := .pop g cl p' }
    | (r, .done x) => { s with ring := r, poplock := none, recvd := s.recvd ++ [x] }.retC (.ok x)
    | (r, .empty) =>
      let s := { s with ring := r }
      if s.v.rfix then
        if cl then { s with cp := .stEnded } else { s with poplock := none, cp := .await1 g }
      else { s with cp := .ldClosedOld }
  | .ldClosedOld =>
    if s.closed then { s with cp := .stEnded } else { s with poplock := none, cp := .await1 0 }
  | .stEnded => { s with ended := true, poplock := none }.retC .eos
  | .await1 g =>
    let g := if s.v.rfix then g else s.ntf.gen
    if s.ntf.gen ≠ g then { s with cp := .ldClosed2 }
    else if s.ntf.permit then { s with ntf := { s.ntf with permit := false }, cp := .ldClosed2 }
    else { s with ntf := { s.ntf with reg := true }, cp := .await2 }
  | .await2 =>
    if s.ntf.woken then { s with ntf := { s.ntf with woken := false }, cp := .ldClosed2 } else s
  | .ldClosed2 => if s.closed then { s with cp := .isEmpty } else s.loopTop
  | .isEmpty => if s.ring.isEmpty then { s with cp := .stEnded2 } else s.loopTop
  | .stEnded2 => { s with ended := true }.retC .eos

/-! ### `stop()` -/

def stepS (s : St) (start : Bool) : St :=
  match s.sp with
  | .idle => if start then { s with sp := .stStore } else s
  | .stStore => { s with ended := true, stopCalled := true, sp := .stNotify }
  | .stNotify => { s with ntf := s.ntf.waiters, sp := .idle }

/-! ### pipeline.rs receiver (only in the `pipe` variant) -/

def stepR (s : St) (op : Option ROp) : St :=
  if s.v.pipe = false then s else
  match s.rp with
  | .idle => match op with
    | some .recv =>
      -- `ChannelMediaSource::next_sample`: `if self.ended { return Err(EndOfStream) }` (a local of the
      -- consumer, no shared access), else `self.receiver.recv().await`
      if s.rended then { s with cres := s.cres ++ [.eos] } else { s with rp := .lock }
    | some .dropRecv => { s with rp := .stClosed }
    | none => s
  | .dead => s
  | .lock => if s.poplock = none then { s with poplock := some .cons, rp := .ldClosed } else s
  | .ldClosed => { s with rp := .pop s.closed .ldHead }
  | .pop cl p =>
    match popStep s.ring p with
    | (r, .cont p') => { s with ring := r, rp := .pop cl p' }
    | (r, .done x) => { s with ring := r, poplock := none, recvd := s.recvd ++ [x], rp := .idle, cres := s.cres ++ [.ok x] }
    | (r, .empty) =>
      if cl then { s with ring := r, poplock := none, rp := .idle, rended := true, cres := s.cres ++ [.eos] }
      else { s with ring := r, poplock := none, rp := .mkNtf }
  | .mkNtf => { s with rp := .emptyClosed s.ntf.gen }
  | .emptyClosed g => if s.ring.isEmpty && !s.closed then { s with rp := .await1 g } else { s with rp := .lock }
  | .await1 g =>
    if s.ntf.gen ≠ g then { s with rp := .lock }
    else if s.ntf.permit then { s with ntf := { s.ntf with permit := false }, rp := .lock }
    else { s with ntf := { s.ntf with reg := true }, rp := .await2 }
  | .await2 => if s.ntf.woken then { s with ntf := { s.ntf with woken := false }, rp := .lock } else s
  | .stClosed => { s with closed := true, rp := .ntfW }
  | .ntfW => { s with ntf := s.ntf.waiters, rp := .dead }

def step (s : St) : Label → St
  | .prod i op => stepP s i op
  | .cons start => stepC s start
  | .stop start => stepS s start
  | .rcv op => stepR s op

def run (s : St) (ls : List Label) : St := ls.foldl step s

/-! ### what the harness can see of a thread: the yield point it is parked at -/

def pushPoint : PushPc → Nat
  | .ldTail => 1 | .ldHead _ => 2 | .write _ => 3 | .stTail _ => 4
def popPoint : PopPc → Nat
  | .ldHead => 5 | .ldTail _ => 6 | .retNone => 10 | .read _ => 7 | .stHead _ _ => 8

def PPc.point : PPc → Nat
  | .acq .. => 20 | .chk .. => 21 | .push _ _ _ p => pushPoint p | .ntf .. => 23 | .tryLock .. => 22
  | .pop _ _ p => popPoint p | .clone _ => 33 | .fetchSub => 30 | .stClosed => 31 | .ntfW => 32
  | _ => 0

def CPc.point : CPc → Nat
  | .mkNtf => 47 | .ldEnded _ => 40 | .lock _ => 41 | .ldClosed1 _ => 42 | .pop _ _ p => popPoint p
  | .ldClosedOld => 42 | .stEnded => 43 | .await1 _ => 44 | .ldClosed2 => 45 | .isEmpty => 9
  | .stEnded2 => 46 | _ => 0

def SPc.point : SPc → Nat
  | .stStore => 50 | .stNotify => 51 | .idle => 0

def RPc.point : RPc → Nat
  | .lock => 41 | .ldClosed => 42 | .pop _ p => popPoint p | .mkNtf => 47 | .emptyClosed _ => 9
  | .await1 _ => 44 | .stClosed => 34 | .ntfW => 35 | _ => 0

/-- would granting this thread a step be a no-op because it waits for a lock / a wake-up? -/
def blocked (s : St) : Label → Bool
  | .prod i _ => match s.pp i with
    | .acq .. => s.plock.isSome
    | _ => false
  | .cons _ => match s.cp with
    | .lock _ => s.poplock.isSome
    | .await2 => !s.ntf.woken
    | _ => false
  | .stop _ => false
  | .rcv _ => match s.rp with
    | .lock => s.poplock.isSome
    | .await2 => !s.ntf.woken
    | _ => false

end RtcModel.SpscTrack
