/-
Model of `src/transports/ice/stun.rs`: `encode_stun_message` (attribute encoders, padding, the
length fix-ups around MESSAGE-INTEGRITY and FINGERPRINT), `decode_stun_message`,
`parse_xor_address`.  Statement-by-statement mirror of the Rust, including the truncating
`as u16` casts of lengths and the buffer-length based `pad_four_bytes`.

HMAC-SHA1 and CRC-32 are *parameters* (`Prims`); theorems quantify over all `Prims`, the driver
instantiates them with `RtcModel.C16Crypto`.  Core Lean only (linked into `rtcdrv`).
-/
import RtcModel.Generated.Consts
import RtcModel.Base.C16Bytes

namespace RtcModel.Stun
open RtcModel.Generated RtcModel.C16Bytes

/-- The two primitives `encode` calls. `hmac key data` is HMAC-SHA1 (20 bytes), `crc data` is CRC-32. -/
structure Prims where
  hmac : Bytes → Bytes → Bytes
  crc : Bytes → Nat
  hmac_len : ∀ k d, (hmac k d).length = 20
  crc_lt : ∀ d, crc d < 4294967296

inductive Method where
  | binding | allocate | refresh | createPermission | channelBind | send | data
deriving DecidableEq, Repr, Inhabited

inductive Class where
  | request | indication | success | error
deriving DecidableEq, Repr, Inhabited

/-- `SocketAddr` (flowinfo / scope id of V6 are not part of the wire format and not modelled). -/
inductive Addr where
  | v4 (ip : Bytes) (port : Nat)
  | v6 (ip : Bytes) (port : Nat)
deriving DecidableEq, Repr, Inhabited

def Addr.Wf : Addr → Prop
  | .v4 ip port => ip.length = 4 ∧ port < 65536
  | .v6 ip port => ip.length = 16 ∧ port < 65536

instance (a : Addr) : Decidable a.Wf := by
  cases a <;> simp only [Addr.Wf] <;> exact inferInstance

/-- `StunAttribute`; strings are their UTF-8 bytes, integers `Nat` (encoded with truncating casts). -/
inductive Attr where
  | username (v : Bytes)
  | realm (v : Bytes)
  | nonce (v : Bytes)
  | software (v : Bytes)
  | requestedTransport (v : Nat)       -- u8
  | lifetime (v : Nat)                 -- u32
  | priority (v : Nat)                 -- u32
  | iceControlling (v : Nat)           -- u64
  | iceControlled (v : Nat)            -- u64
  | useCandidate
  | xorPeer (a : Addr)
  | xorMapped (a : Addr)
  | channelNumber (v : Nat)            -- u16
  | data (v : Bytes)
deriving DecidableEq, Repr, Inhabited

structure Msg where
  cls : Class
  method : Method
  tx : Bytes                            -- [u8; 12]
  attrs : List Attr
deriving DecidableEq, Repr, Inhabited

/-! ### encode -/

def encMethodBits : Method → Nat
  | .binding => stunEncMethodBinding
  | .allocate => stunEncMethodAllocate
  | .refresh => stunEncMethodRefresh
  | .createPermission => stunEncMethodCreatePermission
  | .channelBind => stunEncMethodChannelBind
  | .send => stunEncMethodSend
  | .data => stunEncMethodData

def encClassBits : Class → Nat
  | .request => stunEncClassRequest
  | .indication => stunEncClassIndication
  | .success => stunEncClassSuccessResponse
  | .error => stunEncClassErrorResponse

/-- `(MAGIC_COOKIE >> 16) as u16` -/
def cookieHi : Nat := stunMagicCookie / 65536 % 65536
/-- `MAGIC_COOKIE.to_be_bytes()` -/
def cookieBytes : Bytes := be32 stunMagicCookie

/-- `pad_four_bytes`: pads according to the *buffer* length. -/
def padBuf (buf : Bytes) : Bytes := buf ++ zeros (pad4 buf.length)

/-- `append_raw_attribute` -/
def appendRaw (buf : Bytes) (typ : Nat) (value : Bytes) : Bytes :=
  padBuf (buf ++ be16 typ ++ be16 value.length ++ value)

/-- `append_xor_address` -/
def appendXor (buf : Bytes) (typ : Nat) (a : Addr) (tx : Bytes) : Bytes :=
  match a with
  | .v4 ip port =>
    padBuf (buf ++ be16 typ ++ be16 8 ++ [0, 1] ++ be16 (port ^^^ cookieHi) ++ xorBytes ip cookieBytes)
  | .v6 ip port =>
    padBuf (buf ++ be16 typ ++ be16 20 ++ [0, 2] ++ be16 (port ^^^ cookieHi)
      ++ xorBytes (ip.take 4) cookieBytes ++ xorBytes (ip.drop 4) tx)

/-- `append_attribute` (the two XOR-address arms `return` before the final `pad_four_bytes`) -/
def appendAttr (buf : Bytes) (a : Attr) (tx : Bytes) : Bytes :=
  match a with
  | .username v => padBuf (appendRaw buf stunEncAttrUsername v)
  | .realm v => padBuf (appendRaw buf stunEncAttrRealm v)
  | .nonce v => padBuf (appendRaw buf stunEncAttrNonce v)
  | .software v => padBuf (appendRaw buf stunEncAttrSoftware v)
  | .requestedTransport v =>
    padBuf (buf ++ be16 stunEncAttrRequestedTransport ++ be16 4 ++ [UInt8.ofNat v] ++ [0, 0, 0])
  | .lifetime v => padBuf (buf ++ be16 stunEncAttrLifetime ++ be16 4 ++ be32 v)
  | .priority v => padBuf (buf ++ be16 stunEncAttrPriority ++ be16 4 ++ be32 v)
  | .iceControlling v => padBuf (buf ++ be16 stunEncAttrIceControlling ++ be16 8 ++ be64 v)
  | .iceControlled v => padBuf (buf ++ be16 stunEncAttrIceControlled ++ be16 8 ++ be64 v)
  | .useCandidate => padBuf (buf ++ be16 stunEncAttrUseCandidate ++ be16 0)
  | .xorPeer a => appendXor buf stunEncAttrXorPeer a tx
  | .xorMapped a => appendXor buf stunEncAttrXorMapped a tx
  | .channelNumber v => padBuf (buf ++ be16 stunEncAttrChannelNumber ++ be16 4 ++ be16 v ++ [0, 0])
  | .data v => padBuf (appendRaw buf stunEncAttrData v)

/-- `write_length_field` (`buffer[2..4] = (length as u16).to_be_bytes()`) -/
def writeLen (buf : Bytes) (n : Nat) : Bytes :=
  match buf with
  | b0 :: b1 :: _ :: _ :: rest => b0 :: b1 :: UInt8.ofNat (n / 256) :: UInt8.ofNat n :: rest
  | _ => buf     -- Rust would panic; the buffer always starts with the 20-byte header

/-- `update_length_field` -/
def updLen (buf : Bytes) : Bytes := writeLen buf (buf.length - 20)

/-- the 20-byte header before any length is written (`vec![0u8; 20]` + the three `copy_from_slice`) -/
def header (m : Msg) : Bytes :=
  be16 (encMethodBits m.method ||| encClassBits m.cls) ++ [0, 0] ++ cookieBytes ++ m.tx

def appendAttrs (buf : Bytes) (attrs : List Attr) (tx : Bytes) : Bytes :=
  attrs.foldl (fun b a => appendAttr b a tx) buf

/-- MESSAGE-INTEGRITY step of `encode_stun_message` -/
def addIntegrity (P : Prims) (buf : Bytes) (key : Option Bytes) : Bytes :=
  match key with
  | none => buf
  | some k =>
    let b := writeLen buf (buf.length - 20 + stunEncMiAttrLen)
    updLen (appendRaw b stunEncAttrMessageIntegrity (P.hmac k b))

/-- FINGERPRINT step of `encode_stun_message` -/
def addFingerprint (P : Prims) (buf : Bytes) (fp : Bool) : Bytes :=
  if fp then
    let b := writeLen buf (buf.length - 20 + stunEncFpAttrLen)
    appendRaw b stunEncAttrFingerprint (be32 (P.crc b ^^^ stunFingerprintXor))
  else buf

/-- `encode_stun_message` -/
def encode (P : Prims) (m : Msg) (key : Option Bytes) (fp : Bool) : Bytes :=
  let b1 := updLen (appendAttrs (header m) m.attrs m.tx)
  updLen (addFingerprint P (addIntegrity P b1 key) fp)

/-! ### decode -/

structure Decoded where
  cls : Class
  method : Method
  tx : Bytes
  mapped : Option Addr
  relayed : Option Addr
  peer : Option Addr
  errorCode : Option Nat
  realm : Option Bytes
  nonce : Option Bytes
  data : Option Bytes
  useCandidate : Bool
  lifetime : Option Nat
  priority : Option Nat := none          -- PRIORITY of a connectivity check (RFC 8445 §7.1.1)
deriving DecidableEq, Repr, Inhabited

inductive DecErr where
  | tooShort | lengthMismatch | badMethod | badClass
deriving DecidableEq, Repr

/-- `parse_xor_address` (its `Result` is always `Ok`, so only the `Option` is modelled) -/
def parseXor (value : Bytes) (tx : Bytes) : Option Addr :=
  match value with
  | _ :: family :: p0 :: p1 :: rest =>
    let port := rd16 p0 p1 ^^^ cookieHi
    if family = 1 then
      if value.length < 8 then none
      else some (.v4 (xorBytes (rest.take 4) cookieBytes) port)
    else if family = 2 then
      if value.length < 20 then none
      else some (.v6 (xorBytes (rest.take 4) cookieBytes ++ xorBytes ((rest.drop 4).take 12) tx) port)
    else none
  | _ => none

/-- continuation bytes -/
def isCont (b : UInt8) : Bool := 0x80 ≤ b && b ≤ 0xBF

/-- `std::str::from_utf8(..).is_ok()` — well-formed UTF-8 (Unicode Table 3-7). -/
def validUtf8 : Bytes → Bool
  | [] => true
  | b0 :: rest =>
    if b0 ≤ 0x7F then validUtf8 rest
    else if 0xC2 ≤ b0 && b0 ≤ 0xDF then
      match rest with
      | b1 :: r => isCont b1 && validUtf8 r
      | _ => false
    else if 0xE0 ≤ b0 && b0 ≤ 0xEF then
      match rest with
      | b1 :: b2 :: r =>
        (if b0 = 0xE0 then 0xA0 ≤ b1 && b1 ≤ 0xBF
         else if b0 = 0xED then 0x80 ≤ b1 && b1 ≤ 0x9F
         else isCont b1) && isCont b2 && validUtf8 r
      | _ => false
    else if 0xF0 ≤ b0 && b0 ≤ 0xF4 then
      match rest with
      | b1 :: b2 :: b3 :: r =>
        (if b0 = 0xF0 then 0x90 ≤ b1 && b1 ≤ 0xBF
         else if b0 = 0xF4 then 0x80 ≤ b1 && b1 ≤ 0x8F
         else isCont b1) && isCont b2 && isCont b3 && validUtf8 r
      | _ => false
    else false

/-- body of the `match typ` in the decode loop -/
def attrStep (tx : Bytes) (d : Decoded) (typ : Nat) (value : Bytes) : Decoded :=
  if typ = stunDecAttrXorMapped then
    match parseXor value tx with | some a => { d with mapped := some a } | none => d
  else if typ = stunDecAttrXorRelayed then
    match parseXor value tx with | some a => { d with relayed := some a } | none => d
  else if typ = stunDecAttrXorPeer then
    match parseXor value tx with | some a => { d with peer := some a } | none => d
  else if typ = stunDecAttrErrorCode then
    match value with
    | _ :: _ :: c :: n :: _ => { d with errorCode := some (c.toNat % 8 * 100 + n.toNat) }   -- `(value[2] & 0x07) * 100 + value[3]`
    | _ => d
  else if typ = stunDecAttrRealm then
    if validUtf8 value then { d with realm := some value } else d
  else if typ = stunDecAttrNonce then
    if validUtf8 value then { d with nonce := some value } else d
  else if typ = stunDecAttrData then { d with data := some value }
  else if typ = stunDecAttrLifetime then
    match value with
    | a :: b :: c :: e :: _ => { d with lifetime := some (rd32 a b c e) }
    | _ => d
  else if typ = stunDecAttrPriority then
    match value with
    | a :: b :: c :: e :: _ => { d with priority := some (rd32 a b c e) }
    | _ => d
  else if typ = stunDecAttrUseCandidate then { d with useCandidate := true }
  else d

/-- the `while offset + 4 <= bytes.len()` loop, on the bytes from `offset` on -/
def decodeLoop (tx : Bytes) (d : Decoded) (rest : Bytes) : Decoded :=
  match rest with
  | t0 :: t1 :: l0 :: l1 :: body =>
    if rd16 l0 l1 > body.length then d
    else
      decodeLoop tx (attrStep tx d (rd16 t0 t1) (body.take (rd16 l0 l1)))
        (body.drop (rd16 l0 l1 + pad4 (rd16 l0 l1)))
  | _ => d
termination_by rest.length
decreasing_by simp only [List.length_drop, List.length_cons]; omega

def decMethod (bits : Nat) : Option Method :=
  if bits = stunDecMethodBinding then some .binding
  else if bits = stunDecMethodAllocate then some .allocate
  else if bits = stunDecMethodRefresh then some .refresh
  else if bits = stunDecMethodCreatePermission then some .createPermission
  else if bits = stunDecMethodChannelBind then some .channelBind
  else if bits = stunDecMethodSend then some .send
  else if bits = stunDecMethodData then some .data
  else none

def decClass (bits : Nat) : Option Class :=
  if bits = stunDecClassRequest then some .request
  else if bits = stunDecClassIndication then some .indication
  else if bits = stunDecClassSuccessResponse then some .success
  else if bits = stunDecClassErrorResponse then some .error
  else none

def emptyDecoded (c : Class) (m : Method) (tx : Bytes) : Decoded :=
  { cls := c, method := m, tx, mapped := none, relayed := none, peer := none, errorCode := none,
    realm := none, nonce := none, data := none, useCandidate := false, lifetime := none }

/-- `decode_stun_message` -/
def decode (bytes : Bytes) : Except DecErr Decoded :=
  match bytes with
  | b0 :: b1 :: b2 :: b3 :: rest =>
    if rest.length < 16 then .error .tooShort
    else if rd16 b2 b3 + 20 ≠ bytes.length then .error .lengthMismatch
    else
      match decMethod (rd16 b0 b1 &&& stunDecMethodMask) with
      | none => .error .badMethod
      | some m =>
        match decClass (rd16 b0 b1 &&& stunDecClassMask) with
        | none => .error .badClass
        | some c =>
          let tx := (rest.drop 4).take 12
          .ok (decodeLoop tx (emptyDecoded c m tx) (rest.drop 16))
  | _ => .error .tooShort

end RtcModel.Stun
