/-
Endpoint model of `src/transports/sctp.rs`: `handle_packet` dispatch and the association-setup
handlers (`handle_init`, `handle_init_ack`, `handle_cookie_echo`, `handle_cookie_ack`),
`handle_reconfig`, ABORT / SHUTDOWN-ACK, the run-loop's delayed-SACK flush and the teardown guard,
on top of the receive-path model (`SctpRecv`, `SctpDcep`).  Core Lean only.

External choices become inputs: the random tags / TSNs and the HMAC cookie an endpoint chooses are
read off the INIT / INIT-ACK it emitted (`noteTx`); a COOKIE-ECHO validates iff it echoes a cookie
this endpoint issued (the HMAC is abstract; cookie lifetime 60 s exceeds every run).
-/
import RtcModel.SctpWire

namespace RtcModel.Sctp
open RtcModel.Generated

inductive AState where
  | new | connecting | connected | closed
deriving DecidableEq, Repr, Inhabited

structure Ep where
  rx       : Rx
  state    : AState := .connecting
  /-- `t1_chunk` chunk type while T1 is armed (`CT_INIT` in COOKIE-WAIT, `CT_COOKIE_ECHO` in COOKIE-ECHOED) -/
  t1       : Option Nat := none
  /-- cookies issued in INIT-ACKs this endpoint sent -/
  cookies  : List Bytes := []
  /-- `peer_reconfig_request_sn` (`u32::MAX` initially) -/
  peerReconfigSn : UInt32 := 0xFFFFFFFF
  /-- `next_tsn` as last chosen in an emitted INIT / INIT-ACK (then advanced by the sender model) -/
  nextTsn  : UInt32 := 0
  remoteTag : UInt32 := 0
  /-- `verification_tag` (own tag; 0 until an INIT / INIT-ACK was emitted) -/
  localTag : UInt32 := 0
  peerRwnd : UInt32 := 262144
  /-- the teardown guard has run -/
  cleaned  : Bool := false
  /-- every SACK `transmit()` has created, oldest first -/
  sacks    : List Sack := []
  /-- `transmit()` calls made from inside `handle_sack` whose trace mark is still to come -/
  skipW    : Nat := 0
deriving DecidableEq, Repr, Inhabited

/-- `handle_data` returned `Ok` -/
def handleDataOk (proc : Proc) (s : Rx) (c : DChunk) : Bool :=
  let diff := c.tsn - s.cum
  if diff == 0 || diff > 0x80000000 then true
  else if diff == 1 && s.rq.isEmpty then (proc s.pl c).2
  else
    let has := rqHas s.rq c.tsn
    let rq1 := if has then s.rq else s.rq ++ [(c.tsn, c)]
    let d := drainRq rq1.length (s.cum + 1) rq1 []
    (procList proc { s with rq := d.1 } d.2).2

/-- the loop over the data channels at the end of `handle_cookie_ack` / `handle_cookie_echo`:
negotiated channels are set Open and get an `Open` event; in-band ones in state Connecting get
their DCEP OPEN (re)sent -/
def openChannels (pl : Pl) : Pl :=
  let chans := pl.chans.map (fun c => if c.negotiated then openOnce c else c)
  -- `send_dcep_open` refuses a label / protocol that does not fit DCEP's 16-bit lengths
  let acts := pl.acts ++ (pl.chans.filter (fun c => !c.negotiated && c.state == 0 && c.label.length ≤ 65535 && c.protocol.length ≤ 65535)).map (fun c => Act.dcepOpen c.id)
  { pl with chans := chans, acts := acts }

/-- State Cookie parameter (type 7) of an INIT-ACK value, as `handle_init_ack` finds it (last one wins) -/
def findCookie : Nat → Bytes → Option Bytes → Option Bytes
  | 0, _, acc => acc
  | fuel + 1, buf, acc =>
    match buf with
    | t0 :: t1 :: l0 :: l1 :: rest =>
      let ty := (rd16 t0 t1).toNat
      let len := (rd16 l0 l1).toNat
      if len < 4 || rest.length < len - 4 then acc
      else
        let v := rest.take (len - 4)
        let rest1 := rest.drop (len - 4)
        let p := pad4 len
        let rest2 := if rest1.length ≥ p then rest1.drop p else rest1
        findCookie fuel rest2 (if ty == 7 then some v else acc)
    | _ => acc

/-- fixed part of INIT / INIT-ACK: (initiate tag, a_rwnd, initial TSN, parameters) -/
def parseInit (v : Bytes) : Option (UInt32 × UInt32 × UInt32 × Bytes) :=
  match v with
  | g0 :: g1 :: g2 :: g3 :: r0 :: r1 :: r2 :: r3 :: _ :: _ :: _ :: _ :: t0 :: t1 :: t2 :: t3 :: params =>
    some (rd32 g0 g1 g2 g3, rd32 r0 r1 r2 r3, rd32 t0 t1 t2 t3, params)
  | _ => none

/-- `handle_init`. A duplicate of the INIT the association was set up with (same initiate tag,
own tag already chosen) is ignored once established; during setup it is answered again with the
same tag / initial TSN (the re-sent INIT-ACK is observed by `noteTx`). -/
def handleInit (e : Ep) (v : Bytes) : Ep :=
  match parseInit v with
  | none => e
  | some (tag, arwnd, itsn, _) =>
    let duplicate := e.localTag != 0 && e.remoteTag == tag
    if duplicate && e.state == .connected then e
    else { e with rx := { e.rx with cum := itsn - 1 }, remoteTag := tag, peerRwnd := arwnd }

/-- `handle_init_ack`: discarded outside COOKIE-WAIT (T1 armed with INIT) -/
def handleInitAck (e : Ep) (v : Bytes) : Ep :=
  if e.t1 != some ctInit then e
  else
    let e := { e with t1 := none }
    match parseInit v with
    | none => e
    | some (tag, arwnd, itsn, params) =>
      let e := { e with rx := { e.rx with cum := itsn - 1 }, remoteTag := tag, peerRwnd := arwnd }
      match findCookie params.length params none with
      | some _ => { e with t1 := some ctCookieEcho }
      | none => e

/-- `handle_cookie_echo`: a valid cookie is (re-)acknowledged; only the first one establishes the
association and opens the channels -/
def handleCookieEcho (e : Ep) (v : Bytes) : Ep :=
  if e.cookies.contains v then
    if e.state == .connected then e
    else { e with state := .connected, rx := { e.rx with pl := openChannels e.rx.pl } }
  else e

/-- `handle_cookie_ack`: discarded outside COOKIE-ECHOED (T1 armed with COOKIE-ECHO) -/
def handleCookieAck (e : Ep) : Ep :=
  if e.t1 != some ctCookieEcho then e
  else { e with t1 := none, state := .connected, rx := { e.rx with pl := openChannels e.rx.pl } }

def parsePairs : Bytes → List (UInt16 × UInt16)
  | a :: b :: c :: d :: rest => (rd16 a b, rd16 c d) :: parsePairs rest
  | _ => []

def parseU16s : Bytes → List UInt16
  | a :: b :: rest => rd16 a b :: parseU16s rest
  | _ => []

/-- `handle_reconfig_outgoing_ssn_reset` (effect on the inbound streams; the `next_ssn` reset of
the local sending side and the response chunk are sender-side) -/
def handleSsnReset (e : Ep) (p : Bytes) : Ep :=
  match p with
  | q0 :: q1 :: q2 :: q3 :: _ :: _ :: _ :: _ :: _ :: _ :: _ :: _ :: rest =>
    let reqSn := rd32 q0 q1 q2 q3
    if reqSn ≤ e.peerReconfigSn && e.peerReconfigSn != 0xFFFFFFFF then e
    else
      let streams := parseU16s rest
      let ss := if streams.isEmpty then [] else streams.foldl removeStream e.rx.pl.streams
      { e with peerReconfigSn := reqSn, rx := { e.rx with pl := { e.rx.pl with streams := ss } } }
  | _ => e

/-- `handle_reconfig`'s parameter walk: (type, value) of every parameter in order. The value is the
declared length minus the 4 header bytes; the padding to a multiple of 4 is skipped *after* it (it is
not part of the value). The walk stops at a parameter whose length is < 4 or exceeds what is left. -/
def rcParams : Nat → Bytes → List (Nat × Bytes)
  | 0, _ => []
  | fuel + 1, buf =>
    match buf with
    | t0 :: t1 :: l0 :: l1 :: rest =>
      let ty := (rd16 t0 t1).toNat
      let len := (rd16 l0 l1).toNat
      if len < 4 || rest.length < len - 4 then []
      else
        let v := rest.take (len - 4)
        let rest1 := rest.drop (len - 4)
        let p := pad4 len
        let rest2 := if rest1.length ≥ p then rest1.drop p else rest1
        (ty, v) :: rcParams fuel rest2
    | _ => []

/-- `handle_reconfig`: every Outgoing SSN Reset Request parameter (type 13) is handled, in order -/
def handleReconfig (fuel : Nat) (e : Ep) (buf : Bytes) : Ep :=
  (rcParams fuel buf).foldl (fun e p => if p.1 == 13 then handleSsnReset e p.2 else e) e

/-- what one RE-CONFIG chunk makes `handle_reconfig` do on the sending side too: per Outgoing SSN
Reset Request either "performed" (the request's serial number and the streams it names — the
channels with these ids restart their outgoing SSN at 0, the inbound streams with these ids are
forgotten; an empty list means every stream) or "duplicate" (only answered again) -/
inductive RcEv where
  | performed (sn : UInt32) (streams : List UInt16)
  | duplicate (sn : UInt32)
deriving DecidableEq, Repr, Inhabited

def rcRun : UInt32 → List (Nat × Bytes) → UInt32 × List RcEv
  | peerSn, [] => (peerSn, [])
  | peerSn, p :: rest =>
    if p.1 == 13 then
      match p.2 with
      | q0 :: q1 :: q2 :: q3 :: _ :: _ :: _ :: _ :: _ :: _ :: _ :: _ :: ids =>
        let sn := rd32 q0 q1 q2 q3
        if sn ≤ peerSn && peerSn != 0xFFFFFFFF then
          let r := rcRun peerSn rest
          (r.1, RcEv.duplicate sn :: r.2)
        else
          let r := rcRun sn rest
          (r.1, RcEv.performed sn (parseU16s ids) :: r.2)
      | _ => rcRun peerSn rest
    else rcRun peerSn rest

/-- `send_reconfig_ssn_reset`'s parameter: type 13, length 16 + 2·#streams, the three serial numbers,
the stream ids, zero padding to a multiple of 4 -/
def encSsnReset (reqSn respSn nextTsn : UInt32) (ids : List UInt16) : Bytes :=
  be16 13 ++ be16 (UInt16.ofNat (16 + 2 * ids.length)) ++ (be32 reqSn ++ be32 respSn ++ be32 nextTsn ++ (ids.map be16).flatten) ++
    List.replicate (pad4 (16 + 2 * ids.length)) 0

/-- the SACK part of a `transmit()` call -/
def epTransmit (e : Ep) : Ep :=
  let r := transmitSack e.rx
  { e with rx := r.2, sacks := e.sacks ++ r.1.toList }

/-- a `transmit()` mark in the trace: either the one `handle_sack` already accounted for, or a
run-loop level call -/
def onTransmitMark (e : Ep) : Ep :=
  if e.skipW > 0 then { e with skipW := e.skipW - 1 } else epTransmit e

/-- one chunk of `handle_packet`'s dispatch; `false` = the handler returned `Err` (the rest of
the packet is skipped) -/
def handleChunk (e : Ep) (c : RawChunk) : Ep × Bool :=
  let ty := c.ty.toNat
  if ty == ctInit then (handleInit e c.value, true)
  else if ty == ctInitAck then (handleInitAck e c.value, true)
  else if ty == ctCookieEcho then (handleCookieEcho e c.value, true)
  else if ty == ctCookieAck then (handleCookieAck e, true)
  else if ty == ctData then
    match parseData c.flags c.value with
    | none => (e, true)
    | some d => ({ e with rx := handleData e.rx d }, handleDataOk procPayload e.rx d)
  else if ty == ctSack then
    -- `handle_sack` ends with `self.transmit()` (sender side not modelled here; a pending SACK goes out)
    if c.value.length ≥ 12 then ({ (epTransmit e) with skipW := e.skipW + 1 }, true) else (e, true)
  else if ty == ctForwardTsn then
    match c.value with
    | a :: b :: c' :: d :: rest =>
      let r := handleForwardTsnWith procPayload e.rx (rd32 a b c' d) (parsePairs rest)
      ({ e with rx := r.1 }, r.2)
    | _ => (e, true)
  else if ty == ctReconfig then (handleReconfig c.value.length e c.value, true)
  else if ty == ctAbort then ({ e with state := .closed }, true)
  else if ty == ctShutdownAck || ty == ctShutdownComplete then ({ e with state := .closed }, true)
  else (e, true)

def handleChunks : Ep → List RawChunk → Ep
  | e, [] => e
  | e, c :: rest =>
    let r := handleChunk e c
    if r.2 then handleChunks r.1 rest else r.1

/-- `handle_packet` -/
def handlePacket (e : Ep) (p : Bytes) : Ep :=
  match parsePacket p with
  | none => e
  | some pk => handleChunks e pk.chunks

/-- `state.swap(Closed) != Closed → send_event(Close)` -/
def swapClosed (c : Chan) : Chan := if c.state != 3 then ({ c with state := 3 }.emit .close) else c

/-- `SctpCleanupGuard::drop`: every channel not already Closed is closed and gets `Close` -/
def cleanup (e : Ep) : Ep :=
  let chans := e.rx.pl.chans.map swapClosed
  { e with state := .closed, cleaned := true, rx := { e.rx with pl := { e.rx.pl with chans := chans } } }

/-- `close_data_channel(id)` called by the application: a channel that is already Closed is left
alone (nothing is sent); otherwise Closing → RE-CONFIG SSN reset sent → inbound stream state
dropped → Closed, with `Close` announced iff the channel was not Closed meanwhile -/
def closeDataChannel (e : Ep) (id : UInt16) : Ep :=
  let pl := e.rx.pl
  match findChan pl.chans id with
  | some dc =>
    if dc.state == 3 then e
    else
      let chans := setChan pl.chans ({ dc with state := 3 }.emit .close)
      { e with rx := { e.rx with pl := { pl with chans := chans, streams := removeStream pl.streams id } } }
  | none => { e with rx := { e.rx with pl := { pl with streams := removeStream pl.streams id } } }

/-- the atomic steps by which the three `Close` emitters touch one channel's state, for reasoning
about their interleavings: `close_data_channel` is two steps (Closed? stop : Closing — then, after
the RE-CONFIG was sent, swap to Closed), the association's cleanup guard and
`PeerConnection::close` are one swap each -/
inductive CloseStep where
  | cdcBegin | cdcEnd | guard | pcClose
deriving DecidableEq, Repr

def closeStep (c : Chan) : CloseStep → Chan
  | .cdcBegin => if c.state == 3 then c else { c with state := 2 }
  | .cdcEnd => swapClosed c
  | .guard => swapClosed c
  | .pcClose => swapClosed c

/-- top of a run-loop iteration: leave (and tear down) when Closed, else flush the delayed SACK -/
def loopTop (e : Ep) : Ep :=
  if e.cleaned then e
  else if e.state == .closed then cleanup e
  else { e with rx := flushSackDelay e.rx }

/-- `SctpTransport::close()`: the state is set to Closed and the run loop is told to leave -/
def localClose (e : Ep) : Ep := { e with state := .closed }

/-- end of the observation: a run loop that found the state Closed has left and its guard has run -/
def finishEp (e : Ep) : Ep := if e.state == .closed && !e.cleaned then cleanup e else e

/-- the endpoint observed one of its own packets going out: remember the choices it made -/
def noteTx (e : Ep) (p : Bytes) : Ep :=
  match parsePacket p with
  | none => e
  | some pk =>
    pk.chunks.foldl (fun e c =>
      if c.ty.toNat == ctInit then
        match parseInit c.value with
        | some (tag, _, itsn, _) => { e with nextTsn := itsn, t1 := some ctInit, localTag := tag }
        | none => e
      else if c.ty.toNat == ctInitAck then
        match parseInit c.value with
        | some (tag, _, itsn, params) =>
          match findCookie params.length params none with
          | some ck => { e with nextTsn := itsn, localTag := tag, cookies := ck :: e.cookies }
          | none => { e with nextTsn := itsn, localTag := tag }
        | none => e
      else e) e

end RtcModel.Sctp
