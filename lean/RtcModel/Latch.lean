/-
Model of `IceConn::receive` address/latching logic and the latch API
(`src/transports/ice/conn.rs`).  Core Lean only (no Mathlib): this file is
linked into the `rtcdrv` executable.

The model follows the code statement by statement (one atomic step per call; the interleaving
of a call with a concurrent `receive` is `RtcModel.LatchRace`).

Round 2: the model follows three `fix:` commits of the latch agent —
(1) the unconditional adoption at the top of `receive` is skipped while latching is enabled,
(2) rule 2 is evaluated before rule 3 (the documented order),
(3) `set_expected_ssrc` with a changed value restarts the probation window,
(4) latch state changes happen under the probation mutex and `receive` re-reads the destination there.
Byte offsets, the marker mask and the counter widths are generated constants.
-/
import RtcModel.Generated.Consts

namespace RtcModel.Latch
open RtcModel.Generated

structure Addr where
  ip   : Nat
  port : Nat
deriving DecidableEq, Repr, Inhabited

/-- `RtpCandidateState` (the unused `ssrc` field is omitted). Counters are `u8`
with saturating adds, sequence numbers `u16`, timestamps `u32`; all as `Nat`
with the code's arithmetic written out. -/
structure Cand where
  addr        : Addr
  firstSeq    : Nat
  lastSeq     : Nat
  firstTs     : Nat
  packetCount : Nat
  consecutive : Nat
  hasMarker   : Bool
deriving DecidableEq, Repr

structure Prob where
  cands : List Cand
  total : Nat
  max   : Nat
deriving DecidableEq, Repr

structure St where
  remote      : Addr
  rtcpRemote  : Option Addr
  latchOn     : Bool
  rtpLatched  : Bool
  rtcpLatched : Bool
  expected    : Nat            -- expected_ssrc (0 = none)
  maxPackets  : Nat            -- probation_max_packets
  prob        : Option Prob
  tcp         : Bool           -- selected socket is an accepted TCP stream
deriving DecidableEq, Repr

def init (remote : Addr) (maxp : Nat) (tcp : Bool) : St :=
  { remote, rtcpRemote := none, latchOn := false, rtpLatched := false,
    rtcpLatched := false, expected := 0, maxPackets := maxp, prob := none, tcp }

/-- ceilings of the saturating counters (`u8::MAX` for the generated field widths) -/
def totalMax : Nat := 2 ^ probTotalBits - 1
def countMax : Nat := 2 ^ candCountBits - 1
def consecMax : Nat := 2 ^ candConsecBits - 1
def seqMod : Nat := 2 ^ candSeqBits

/-- `saturating_add(1)` with ceiling `m` -/
def satInc (m x : Nat) : Nat := if x ≥ m then m else x + 1
/-- `u16::wrapping_add(1)` -/
def wrapInc (x : Nat) : Nat := (x + 1) % seqMod

/-- What `receive` reads out of the packet bytes. -/
inductive Kind where
  | empty
  | other                       -- first byte in none of the ranges
  | dtls
  | rtcp
  | rtpShort                    -- RTP range, not RTCP, shorter than the latching minimum
  | rtp (ssrc seq ts : Nat) (marker : Bool)
deriving DecidableEq, Repr

/-- `packet[i]`; only used below indices that the length tests guarantee (theorem
`const_layout` in `Theorems/C18.lean`), so the default is never observed. -/
def byteAt (p : List UInt8) (i : Nat) : Nat := (p.getD i 0).toNat

/-- big-endian read of `n` bytes starting at `off` -/
def beAt (p : List UInt8) (off : Nat) : Nat → Nat
  | 0 => 0
  | n + 1 => beAt p off n * 256 + byteAt p (off + n)

def classify (p : List UInt8) : Kind :=
  match p with
  | [] => .empty
  | b0 :: _ =>
    if dtlsLo ≤ b0.toNat ∧ b0.toNat < dtlsHi then .dtls
    else if rtpLo ≤ b0.toNat ∧ b0.toNat < rtpHi then
      if p.length ≥ latchRtcpMinLen ∧ rtcpPtLo ≤ byteAt p latchRtcpPtOff ∧ byteAt p latchRtcpPtOff ≤ rtcpPtHi then .rtcp
      else if p.length ≥ latchMinRtpLen then
        .rtp (beAt p latchSsrcOff (latchSsrcEnd + 1 - latchSsrcOff))
             (beAt p latchSeqOff (latchSeqEnd + 1 - latchSeqOff))
             (beAt p latchTsOff (latchTsEnd + 1 - latchTsOff))
             (byteAt p latchMarkerOff &&& latchMarkerMask != 0)
      else .rtpShort
    else .other

/-- Which upper-layer receiver slot the packet is forwarded to. -/
inductive Fwd where | none | dtls | rtp
deriving DecidableEq, Repr

def fwdOf : Kind → Fwd
  | .dtls => .dtls
  | .rtcp | .rtpShort | .rtp .. => .rtp
  | _ => .none

/-- update-or-push of the candidate table -/
def updCand (c : Cand) (seq ts : Nat) (marker : Bool) : Cand :=
  { c with
    consecutive := if seq = wrapInc c.lastSeq then satInc consecMax c.consecutive else 0
    lastSeq := seq
    packetCount := satInc countMax c.packetCount
    hasMarker := c.hasMarker || marker
    firstTs := if ts < c.firstTs then ts else c.firstTs
    firstSeq := if seq < c.firstSeq then seq else c.firstSeq }

def newCand (a : Addr) (seq ts : Nat) (marker : Bool) : Cand :=
  { addr := a, firstSeq := seq, lastSeq := seq, firstTs := ts, packetCount := 1,
    consecutive := 0, hasMarker := marker }

def observe (cs : List Cand) (a : Addr) (seq ts : Nat) (marker : Bool) : List Cand :=
  match cs with
  | [] => [newCand a seq ts marker]
  | c :: rest =>
    if c.addr = a then updCand c seq ts marker :: rest
    else c :: observe rest a seq ts marker

/-- `Iterator::min_by_key(first_seq)`: first minimal element. -/
def minByFirstSeq : List Cand → Option Cand
  | [] => none
  | c :: rest =>
    match minByFirstSeq rest with
    | none => some c
    | some m => if m.firstSeq < c.firstSeq then some m else some c

/-- comparison used by rule 3: `a.packet_count.cmp(b.packet_count).then(b.first_seq.cmp(a.first_seq))`,
`true` iff `a > b` strictly. -/
def rule3Gt (a b : Cand) : Bool :=
  a.packetCount > b.packetCount ∨ (a.packetCount = b.packetCount ∧ a.firstSeq < b.firstSeq)

/-- `Iterator::max_by`: last maximal element. -/
def maxByRule3 : List Cand → Option Cand
  | [] => none
  | c :: rest =>
    match maxByRule3 rest with
    | none => some c
    | some m => if rule3Gt c m then some c else some m

/-- `run_winner`: `if total >= 3 { candidates.iter().find(|c| c.consecutive_count >= 2) } else { None }` -/
def runWinner (p : Prob) : Option Cand :=
  if p.total ≥ probationRule2MinTotal then
    p.cands.find? (fun c => c.consecutive ≥ probationRule2MinConsecutive)
  else none

/-- the decision taken after every probation packet (branch order of the code after the
rule-order fix: marker, run, timeout) -/
def winner (p : Prob) : Option Addr :=
  match minByFirstSeq (p.cands.filter (·.hasMarker)) with
  | some mw => some mw.addr
  | none =>
    match runWinner p with
    | some rw => some rw.addr
    | none => if p.total ≥ p.max then (maxByRule3 p.cands).map (·.addr) else none

/-- top of `receive`: adoption of the packet source while the destination is unset (port 0) or
on an accepted TCP stream — only while latching is NOT enabled (`cur` = `current_remote`). -/
def adopt (s : St) (addr : Addr) : St :=
  if ¬ s.latchOn ∧ (s.remote.port = 0 ∨ (s.tcp ∧ s.remote ≠ addr)) then { s with remote := addr } else s

/-- the `is_rtcp` arm under `latch_on_rtp` -/
def rtcpLearn (s1 : St) (addr : Addr) : St :=
  if s1.latchOn then
    match s1.rtcpRemote with
    | some r => if addr ≠ r ∧ ¬ s1.rtcpLatched then
                  { s1 with rtcpRemote := some addr, rtcpLatched := true } else s1
    | none => s1
  else s1

/-- the probation move: `if addr != current_remote { *remote_addr = addr }` -/
def moveTo (s1 : St) (cur addr : Addr) : St :=
  if addr ≠ cur then { s1 with remote := addr } else s1

/-- the commit write: `if win_addr != addr { *remote_addr = win_addr }` -/
def commitTo (s2 : St) (addr w : Addr) : St :=
  if w ≠ addr then { s2 with remote := w } else s2

/-- the RTP arm (`!rtp_latched && len >= 12`); `cur` is `current_remote`, which since the
lock-discipline fix is re-read under the probation mutex (it used to be the copy taken at the
top of `receive`, before the adoption) -/
def rtpLatch (s1 : St) (cur addr : Addr) (ssrc seq ts : Nat) (marker : Bool) : St :=
  if s1.latchOn ∧ ¬ s1.rtpLatched ∧ (s1.expected = 0 ∨ ssrc = s1.expected) then
    match s1.prob with
    | some p =>
      let p1 : Prob := { p with total := satInc totalMax p.total, cands := observe p.cands addr seq ts marker }
      let s2 := moveTo s1 cur addr
      match winner p1 with
      | some w =>
        { commitTo s2 addr w with prob := none, rtpLatched := true }
      | none => { s2 with prob := some p1 }
    | none => { moveTo s1 cur addr with rtpLatched := true }
  else s1

/-- `IceConn::receive` — state part. -/
def receive (s : St) (addr : Addr) (k : Kind) : St :=
  match k with
  | .empty => s
  | .rtcp => rtcpLearn (adopt s addr) addr
  | .rtp ssrc seq ts marker => rtpLatch (adopt s addr) (adopt s addr).remote addr ssrc seq ts marker
  | _ => adopt s addr

def freshProb (s : St) : Option Prob :=
  if s.latchOn ∧ s.maxPackets > 0 then some { cands := [], total := 0, max := s.maxPackets } else none

def enableLatch (s : St) : St :=
  let s1 := { s with latchOn := true }
  if s.maxPackets > 0 then
    match s.prob with
    | none => { s1 with prob := some { cands := [], total := 0, max := s.maxPackets } }
    | some _ => s1
  else { s1 with prob := none }

def resetLatch (s : St) : St :=
  { s with rtpLatched := false, rtcpLatched := false, prob := freshProb s }

def setFromSignaling (s : St) (a : Addr) : St := { resetLatch s with remote := a }

def setFromPair (s : St) (a : Addr) : St :=
  if s.latchOn ∧ s.rtpLatched ∧ s.remote ≠ a then s else { s with remote := a }

def setRtcpAddr (s : St) (a : Option Addr) : St := { s with rtcpRemote := a, rtcpLatched := false }

/-- `set_expected_ssrc`: a changed expectation restarts the probation window (keeps its size) -/
def setExpectedSsrc (s : St) (v : Nat) : St :=
  if s.expected ≠ v then
    { s with expected := v, prob := s.prob.map (fun p => { p with cands := [], total := 0 }) }
  else s

inductive Op where
  | pkt (addr : Addr) (k : Kind)
  | enable
  | reset
  | sig (a : Addr)
  | pair (a : Addr)
  | ssrc (v : Nat)
  | maxp (v : Nat)
  | rtcpAddr (a : Option Addr)
deriving DecidableEq, Repr

def step (s : St) : Op → St
  | .pkt a k => receive s a k
  | .enable => enableLatch s
  | .reset => resetLatch s
  | .sig a => setFromSignaling s a
  | .pair a => setFromPair s a
  | .ssrc v => setExpectedSsrc s v
  | .maxp v => { s with maxPackets := v }
  | .rtcpAddr a => setRtcpAddr s a

def run (s : St) (ops : List Op) : St := ops.foldl step s

/-- Structural tie: the number of `remote_addr.write()` sites in the non-test part of each source
file that this model accounts for — `conn.rs`: `set_remote_addr_from_selected_pair` (`setFromPair`),
`set_remote_addr_from_signaling` (`setFromSignaling`), and in `receive` the adoption (`adopt`), the
probation move and the immediate-latch move (`moveTo`) and the commit write (`commitTo`).
Every other file: none (all callers go through the two setters). The harness counts the sites in
the source tree on every run. -/
def modelledWriters (file : String) : Option Nat :=
  if file = "src/transports/ice/conn.rs" then some 6 else some 0

/-- `IceConn::new…` call sites in non-test code outside `conn.rs` that the `pc` stream drives:
`start_dtls` (primary transport) and `ensure_direct_rtp_media_transport` (extra transport). -/
def modelledCreators (file : String) : Option Nat :=
  if file = "src/peer_connection.rs" then some 2 else some 0

end RtcModel.Latch
