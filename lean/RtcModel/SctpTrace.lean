/-
Decidable trace predicates for C13, evaluated by the driver on what really happened:
* `wireCheck` — on every datagram captured between two endpoints, in emission order: size, CRC-32C,
  verification tag (INIT carries 0, everything else the peer's initiate tag), new DATA TSNs
  consecutive per sender;
* `epCheck` — on one endpoint's own trace (packets processed / emitted and `transmit()` marks in
  run-loop order): an accounting of the bytes on the wire that is independent of the code's
  `flight_size` (DATA chunks sent and not acknowledged by any processed SACK) — new data only while
  it stays within the newest advertised window plus one packet; no DATA chunk is sent again after a
  processed SACK covered it; once everything is acknowledged and nothing is queued only heartbeats,
  answers and owed SACKs leave; and, as a correspondence, the window arithmetic of each `transmit()`.
Core Lean only.
-/
import RtcModel.SctpSend
import RtcModel.SctpAssoc

namespace RtcModel.Sctp
open RtcModel.Generated

/-! ### wire -/

structure SideW where
  /-- initiate tag announced in this side's INIT / INIT-ACK -/
  tag      : Option UInt32 := none
  /-- next new TSN expected from this side -/
  nextTsn  : Option UInt32 := none
  newData  : Nat := 0
  rexmit   : Nat := 0
deriving Repr, Inhabited

structure WireSt where
  a : SideW := {}
  b : SideW := {}
  packets : Nat := 0
  maxLen  : Nat := 0
  viol    : Option String := none
deriving Repr, Inhabited

def WireSt.side (w : WireSt) (s : Nat) : SideW := if s == 0 then w.a else w.b
def WireSt.setSide (w : WireSt) (s : Nat) (x : SideW) : WireSt := if s == 0 then { w with a := x } else { w with b := x }

def wireChunk (idx : Nat) (s : Nat) (w : WireSt) (c : RawChunk) : WireSt :=
  if w.viol.isSome then w else
  let me := w.side s
  let ty := c.ty.toNat
  if ty == ctInit || ty == ctInitAck then
    match parseInit c.value with
    | some (tag, _, itsn, _) =>
      -- a re-sent INIT / INIT-ACK must repeat the tag; the first one fixes the TSN origin
      match me.tag with
      | some t0 => if t0 != tag then { w with viol := some s!"tag-changed@{idx}" } else w
      | none => w.setSide s { me with tag := some tag, nextTsn := some itsn }
    | none => w
  else if ty == ctData then
    match parseData c.flags c.value with
    | none => { w with viol := some s!"short-data@{idx}" }
    | some d =>
      match me.nextTsn with
      | none => { w with viol := some s!"data-before-init@{idx}" }
      | some nx =>
        if d.tsn == nx then w.setSide s { me with nextTsn := some (nx + 1), newData := me.newData + 1 }
        else if tsnGt nx d.tsn then w.setSide s { me with rexmit := me.rexmit + 1 }
        else { w with viol := some s!"tsn-gap@{idx}" }
  else w

/-- the datagram starts with an INIT chunk -/
def isInitPacket : List RawChunk → Bool
  | c :: _ => c.ty.toNat == ctInit
  | [] => false

/-- tag rule and chunk walk for a datagram that passed the size and CRC checks -/
def wirePacket (w : WireSt) (idx : Nat) (s : Nat) (pk : Packet) : WireSt :=
  let isInit := isInitPacket pk.chunks
  let peer := w.side (1 - s)
  let tagOk := if isInit then pk.vtag == 0 else peer.tag == some pk.vtag
  if !tagOk then { w with viol := some s!"vtag@{idx}" }
  else pk.chunks.foldl (wireChunk idx s) w

/-- one captured datagram `p` emitted by side `s` (0 = A, 1 = B) -/
def wireStep (w : WireSt) (idx : Nat) (s : Nat) (p : Bytes) : WireSt :=
  if w.viol.isSome then w else
  let w := { w with packets := w.packets + 1, maxLen := max w.maxLen p.length }
  if p.length > sctpMaxPacket then { w with viol := some s!"size@{idx}" }
  else
    match parsePacket p with
    | none => { w with viol := some s!"crc@{idx}" }
    | some pk => wirePacket w idx s pk

def wireCheck (pkts : List (Nat × Bytes)) : WireSt :=
  (pkts.foldl (fun (st : WireSt × Nat) p => (wireStep st.1 st.2 p.1 p.2, st.2 + 1)) ({}, 0)).1

/-! ### endpoint trace -/

inductive TEv where
  | loop
  | rx (p : Bytes)
  | tx (p : Bytes)
  | win (cwnd flight rwnd burst eff : Nat)
  | new (available batchLen dequeued : Nat) (windowLimited : Bool)
  | enq (chan : UInt16) (ppid : UInt32) (len : Nat)
  | t3
deriving Repr, Inhabited

structure EpSt where
  /-- payload sizes of the chunks in the outbound queue -/
  outQ      : List Nat := []
  /-- `peer_rwnd` as last received (INIT / INIT-ACK / SACK): what the code's variable holds -/
  rwnd      : Nat := 262144
  /-- the serially newest cumulative TSN a processed SACK carried, and that SACK's `a_rwnd`
  (before any SACK: the window announced in the peer's INIT / INIT-ACK) -/
  cumAcked  : Option UInt32 := none
  bestRwnd  : Nat := 262144
  /-- next new TSN this endpoint will use -/
  nextTsn   : Option UInt32 := none
  /-- independent accounting: DATA chunks put on the wire and not yet cumulatively acknowledged,
  oldest first: (tsn, wire length, gap-acked) -/
  unacked   : List (UInt32 × Nat × Bool) := []
  /-- at least one DATA chunk was sent -/
  everSent  : Bool := false
  /-- a T3 expiry happened while data was outstanding and not everything has been acknowledged since
  (the code then restarts its `flight_size` from 0, RFC 4960 §6.3.3: outstanding chunks presumed lost) -/
  afterT3   : Bool := false
  /-- T3 expiries since everything was last acknowledged; the largest window ever advertised -/
  t3Count   : Nat := 0
  maxRwnd   : Nat := 0
  /-- a DATA / FORWARD-TSN chunk was received since the last SACK went out -/
  owesSack  : Bool := false
  /-- SACKs sent without owing one since the last datagram came in (the delayed-SACK logic may repeat
  a SACK once; more is chatter) -/
  freeSacks : Nat := 0
  /-- per `transmit()`: what the model computes -/
  out       : List String := []
  viol      : Option String := none
  rexmits   : Nat := 0
  /-- datagrams emitted while everything was acknowledged and nothing queued -/
  quietTx   : Nat := 0
  /-- largest number of unacknowledged, not gap-acked bytes on the wire beyond the newest advertised window -/
  maxOver   : Nat := 0
deriving Repr, Inhabited

/-- bytes on the wire that no processed SACK has acknowledged (cumulatively or by a gap block) -/
def EpSt.outstanding (st : EpSt) : Nat := (st.unacked.filter (fun e => !e.2.2)).foldl (fun a e => a + e.2.1) 0

/-- everything submitted has been sent and cumulatively acknowledged -/
def EpSt.idle (st : EpSt) : Bool := st.everSent && st.unacked.isEmpty && st.outQ.isEmpty

def setViol (st : EpSt) (v : String) : EpSt := if st.viol.isNone then { st with viol := some v } else st

/-- `max_payload_size` per channel id for the fragment sizes (default when absent) -/
def mpsOf (cfg : List (UInt16 × Nat)) (chan : UInt16) : Nat :=
  match cfg.find? (fun e => e.1 == chan) with
  | some e => min e.2 sctpMaxPayload
  | none => sctpMaxPayload

def fragSizes (mps len : Nat) : List Nat := (fragMsg mps 0 (List.replicate len 0)).map (·.2.length)

/-- the budget loop on payload sizes -/
def popSizes : List Nat → Nat → Nat → List Nat × List Nat
  | [], _, _ => ([], [])
  | c :: rest, budget, cnt =>
    if budget > 0 && cnt < 1000 then
      let r := popSizes rest (budget - paddedSize c) (cnt + 1)
      (c :: r.1, r.2)
    else ([], c :: rest)

/-- a TSN is named by one of the gap blocks of a SACK with cumulative TSN `cum` -/
def inGaps (cum : UInt32) (gaps : List (UInt16 × UInt16)) (t : UInt32) : Bool :=
  gaps.any (fun g => let o := t - cum; g.1.toUInt32 ≤ o && o ≤ g.2.toUInt32)

def epRxChunk (st : EpSt) (c : RawChunk) : EpSt :=
  let ty := c.ty.toNat
  if ty == ctInit || ty == ctInitAck then
    match parseInit c.value with
    | some (_, arwnd, _, _) => { st with rwnd := arwnd.toNat, maxRwnd := max st.maxRwnd arwnd.toNat, bestRwnd := if st.cumAcked.isNone then arwnd.toNat else st.bestRwnd }
    | none => st
  else if ty == ctSack then
    match parseSack c.value with
    | some (cum, arwnd, gaps, _) =>
      -- a SACK serially older than one already processed carries stale news about the receiver
      let newer := match st.cumAcked with
        | some old => !tsnGt old cum
        | none => true
      -- the code keeps its `peer_rwnd` when the SACK is serially behind the newest one (RFC 4960 §6.2.1 D i)
      let overtaken := match st.cumAcked with
        | some old => tsnGt old cum
        | none => false
      let st := if overtaken then st else { st with rwnd := arwnd.toNat }
      let st := { st with maxRwnd := max st.maxRwnd arwnd.toNat }
      if newer then
        -- at an unchanged cumulative TSN the receiver's window can only have shrunk (more is queued)
        let rw := if st.cumAcked == some cum then min st.bestRwnd arwnd.toNat else arwnd.toNat
        let un := (st.unacked.filter (fun e => tsnGt e.1 cum)).map (fun e => (e.1, e.2.1, e.2.2 || inGaps cum gaps e.1))
        { st with cumAcked := some cum, bestRwnd := rw, unacked := un, afterT3 := st.afterT3 && !un.isEmpty,
                  -- the T3 excuse counts expiries since the last SACK that moved the cumulative TSN
                  t3Count := if un.isEmpty || st.cumAcked != some cum then 0 else st.t3Count }
      else
        { st with unacked := st.unacked.map (fun e => (e.1, e.2.1, e.2.2 || inGaps cum gaps e.1)) }
    | none => st
  else if ty == ctData || ty == ctForwardTsn then { st with owesSack := true }
  else st

def epTxChunk (idx : Nat) (st : EpSt) (c : RawChunk) : EpSt :=
  let ty := c.ty.toNat
  -- quiescence: once everything is acknowledged and nothing is queued, no retransmitted DATA, no
  -- FORWARD-TSN, no INIT / COOKIE-ECHO, and at most one SACK that is not owed per incoming datagram
  let isNewData := ty == ctData && (match parseData c.flags c.value with | some d => st.nextTsn == some d.tsn | none => false)
  let freeSack := ty == ctSack && !st.owesSack
  let st := if freeSack then { st with freeSacks := st.freeSacks + 1 } else st
  let st :=
    if st.idle && ((ty == ctData && !isNewData) || ty == ctForwardTsn || ty == ctInit || ty == ctCookieEcho || (freeSack && st.freeSacks > 1)) then
      setViol st s!"not-quiescent:{ty}@{idx}"
    else st
  if ty == ctInit || ty == ctInitAck then
    match parseInit c.value with
    | some (_, _, itsn, _) => { st with nextTsn := some itsn }
    | none => st
  else if ty == ctSack then { st with owesSack := false }
  else if ty == ctData then
    match parseData c.flags c.value with
    | none => st
    | some d =>
      let wire := sctpChunkHdr + c.value.length + pad4 (sctpChunkHdr + c.value.length)
      let isNew := st.nextTsn == some d.tsn
      let st := if isNew then { st with nextTsn := some (d.tsn + 1), everSent := true, unacked := st.unacked ++ [(d.tsn, wire, false)] }
                else { st with rexmits := st.rexmits + 1 }
      -- the window clause against the independent accounting: new data only while what is on the
      -- wire, unacknowledged, stays within the newest advertised window plus one packet
      let st := if isNew then
          let over := st.outstanding - st.bestRwnd
          let st := { st with maxOver := max st.maxOver over }
          if over > sctpMaxPacket then
            -- the two recorded causes excuse a *bounded* overshoot only: each T3 restarts the flight count, i.e. lets one
            -- more window (plus the one-chunk overshoot) leave; a stale SACK is believed up to the window it advertised
            let t3Excuse := st.afterT3 && over ≤ st.t3Count * (st.maxRwnd + sctpMaxPacket) + sctpMaxPacket
            let staleExcuse := st.rwnd > st.bestRwnd && st.outstanding ≤ st.rwnd + sctpMaxPacket
            setViol st (if t3Excuse then s!"window-overshoot-after-t3:{st.outstanding}>{st.bestRwnd}@{idx}"
                        else if staleExcuse then s!"window-overshoot-stale-sack:{st.outstanding}>{st.bestRwnd}@{idx}"
                        else s!"window-overshoot:{st.outstanding}>{st.bestRwnd}@{idx}")
          else st
        else st
      -- a chunk with user data for a TSN that a delivered gap block covers must not leave again either
      let st := if !isNew && !d.data.isEmpty && st.unacked.any (fun e => e.1 == d.tsn && e.2.2) then
          setViol st s!"rexmit-after-gap-ack:{d.tsn}@{idx}" else st
      match st.cumAcked with
      | some ca => if !tsnGt d.tsn ca then setViol st s!"rexmit-after-sack:{d.tsn}@{idx}" else st
      | none => st
  else st

def epStep (cfg : List (UInt16 × Nat)) (st : EpSt) (idx : Nat) (ev : TEv) : EpSt :=
  match ev with
  | .loop => st
  | .t3 => { st with afterT3 := !st.unacked.isEmpty, t3Count := if st.unacked.isEmpty then 0 else st.t3Count + 1 }
  | .enq chan _ len => { st with outQ := st.outQ ++ fragSizes (mpsOf cfg chan) len }
  | .rx p =>
    let st := { st with freeSacks := 0 }
    match parsePacket p with
    | some pk => pk.chunks.foldl epRxChunk st
    | none => st
  | .tx p =>
    let st := if st.idle then { st with quietTx := st.quietTx + 1 } else st
    match parsePacket p with
    | some pk => pk.chunks.foldl (epTxChunk idx) st
    | none => st
  | .win cwnd flight _ burst _ =>
    -- correspondence (not an oracle): the window the code computes from its own variables, with the
    -- advertised window the model believes the code holds (the last one received)
    let eff := if st.rwnd = 0 ∧ flight = 0 then 1 else min (min (flight + burst) cwnd) st.rwnd   -- (zero-window probe)
    { st with out := st.out ++ [s!"w{eff}"] }
  | .new available _ _ _ =>
    let r := popSizes st.outQ available 0
    let wl := !r.2.isEmpty || r.1.length ≥ 1000
    { st with outQ := r.2, out := st.out ++ [s!"n{r.1.length},{r.1.sum},{if wl then 1 else 0}"] }

def epCheck (cfg : List (UInt16 × Nat)) (evs : List TEv) : EpSt :=
  (evs.foldl (fun (st : EpSt × Nat) ev => (epStep cfg st.1 st.2 ev, st.2 + 1)) ({}, 0)).1

end RtcModel.Sctp
