/-
Decidable trace predicates for C13, evaluated by the driver on what really happened:
* `wireCheck` — on every datagram captured between two endpoints, in emission order: size, CRC-32C,
  verification tag (INIT carries 0, everything else the peer's initiate tag), new DATA TSNs
  consecutive per sender;
* `epCheck` — on one endpoint's own trace (packets processed / emitted and `transmit()` marks in
  run-loop order): the window arithmetic of each `transmit()`, the advertised window in use is the
  last one received, no DATA chunk is sent again after a processed SACK covered it, nothing but
  heartbeats leaves once everything is acknowledged.
Core Lean only.
-/
import RtcModel.SctpSend
import RtcModel.SctpAssoc

namespace RtcModel.Sctp
open RtcModel.Generated

/-! ### wire -/

structure SideW where
  /-- initiate tag announced in this side's INIT / INIT-ACK -/
  tag      : Option UInt32 := none
  /-- next new TSN expected from this side -/
  nextTsn  : Option UInt32 := none
  newData  : Nat := 0
  rexmit   : Nat := 0
deriving Repr, Inhabited

structure WireSt where
  a : SideW := {}
  b : SideW := {}
  packets : Nat := 0
  maxLen  : Nat := 0
  viol    : Option String := none
deriving Repr, Inhabited

def WireSt.side (w : WireSt) (s : Nat) : SideW := if s == 0 then w.a else w.b
def WireSt.setSide (w : WireSt) (s : Nat) (x : SideW) : WireSt := if s == 0 then { w with a := x } else { w with b := x }

def wireChunk (idx : Nat) (s : Nat) (w : WireSt) (c : RawChunk) : WireSt :=
  if w.viol.isSome then w else
  let me := w.side s
  let ty := c.ty.toNat
  if ty == ctInit || ty == ctInitAck then
    match parseInit c.value with
    | some (tag, _, itsn, _) =>
      -- a re-sent INIT / INIT-ACK must repeat the tag; the first one fixes the TSN origin
      match me.tag with
      | some t0 => if t0 != tag then { w with viol := some s!"tag-changed@{idx}" } else w
      | none => w.setSide s { me with tag := some tag, nextTsn := some itsn }
    | none => w
  else if ty == ctData then
    match parseData c.flags c.value with
    | none => { w with viol := some s!"short-data@{idx}" }
    | some d =>
      match me.nextTsn with
      | none => { w with viol := some s!"data-before-init@{idx}" }
      | some nx =>
        if d.tsn == nx then w.setSide s { me with nextTsn := some (nx + 1), newData := me.newData + 1 }
        else if tsnGt nx d.tsn then w.setSide s { me with rexmit := me.rexmit + 1 }
        else { w with viol := some s!"tsn-gap@{idx}" }
  else w

/-- the datagram starts with an INIT chunk -/
def isInitPacket : List RawChunk → Bool
  | c :: _ => c.ty.toNat == ctInit
  | [] => false

/-- tag rule and chunk walk for a datagram that passed the size and CRC checks -/
def wirePacket (w : WireSt) (idx : Nat) (s : Nat) (pk : Packet) : WireSt :=
  let isInit := isInitPacket pk.chunks
  let peer := w.side (1 - s)
  let tagOk := if isInit then pk.vtag == 0 else peer.tag == some pk.vtag
  if !tagOk then { w with viol := some s!"vtag@{idx}" }
  else pk.chunks.foldl (wireChunk idx s) w

/-- one captured datagram `p` emitted by side `s` (0 = A, 1 = B) -/
def wireStep (w : WireSt) (idx : Nat) (s : Nat) (p : Bytes) : WireSt :=
  if w.viol.isSome then w else
  let w := { w with packets := w.packets + 1, maxLen := max w.maxLen p.length }
  if p.length > sctpMaxPacket then { w with viol := some s!"size@{idx}" }
  else
    match parsePacket p with
    | none => { w with viol := some s!"crc@{idx}" }
    | some pk => wirePacket w idx s pk

def wireCheck (pkts : List (Nat × Bytes)) : WireSt :=
  (pkts.foldl (fun (st : WireSt × Nat) p => (wireStep st.1 st.2 p.1 p.2, st.2 + 1)) ({}, 0)).1

/-! ### endpoint trace -/

inductive TEv where
  | loop
  | rx (p : Bytes)
  | tx (p : Bytes)
  | win (cwnd flight rwnd burst eff : Nat)
  | new (available batchLen dequeued : Nat) (windowLimited : Bool)
  | enq (chan : UInt16) (ppid : UInt32) (len : Nat)
  | t3
deriving Repr, Inhabited

structure EpSt where
  /-- payload sizes of the chunks in the outbound queue -/
  outQ      : List Nat := []
  /-- `peer_rwnd` as last received (INIT / INIT-ACK / SACK) -/
  rwnd      : Nat := 262144
  /-- highest cumulative TSN a processed SACK carried (serially) -/
  cumAcked  : Option UInt32 := none
  /-- next new TSN this endpoint will use -/
  nextTsn   : Option UInt32 := none
  /-- per `transmit()`: what the model computes -/
  out       : List String := []
  viol      : Option String := none
  rexmits   : Nat := 0
  quietTx   : Nat := 0
deriving Repr, Inhabited

/-- `max_payload_size` per channel id for the fragment sizes (default when absent) -/
def mpsOf (cfg : List (UInt16 × Nat)) (chan : UInt16) : Nat :=
  match cfg.find? (fun e => e.1 == chan) with
  | some e => min e.2 sctpMaxPayload
  | none => sctpMaxPayload

def fragSizes (mps len : Nat) : List Nat := (fragMsg mps 0 (List.replicate len 0)).map (·.2.length)

/-- the budget loop on payload sizes -/
def popSizes : List Nat → Nat → Nat → List Nat × List Nat
  | [], _, _ => ([], [])
  | c :: rest, budget, cnt =>
    if budget > 0 && cnt < 1000 then
      let r := popSizes rest (budget - paddedSize c) (cnt + 1)
      (c :: r.1, r.2)
    else ([], c :: rest)

def epRxChunk (st : EpSt) (c : RawChunk) : EpSt :=
  let ty := c.ty.toNat
  if ty == ctInit || ty == ctInitAck then
    match parseInit c.value with
    | some (_, arwnd, _, _) => { st with rwnd := arwnd.toNat }
    | none => st
  else if ty == ctSack then
    match parseSack c.value with
    | some (cum, arwnd, _, _) =>
      let ca := match st.cumAcked with
        | some old => if tsnGt cum old then some cum else some old
        | none => some cum
      { st with rwnd := arwnd.toNat, cumAcked := ca }
    | none => st
  else st

def epTxChunk (idx : Nat) (st : EpSt) (c : RawChunk) : EpSt :=
  let ty := c.ty.toNat
  if ty == ctInit || ty == ctInitAck then
    match parseInit c.value with
    | some (_, _, itsn, _) => { st with nextTsn := some itsn }
    | none => st
  else if ty == ctData then
    match parseData c.flags c.value with
    | none => st
    | some d =>
      let st := match st.nextTsn with
        | some nx => if d.tsn == nx then { st with nextTsn := some (nx + 1) } else { st with rexmits := st.rexmits + 1 }
        | none => st
      match st.cumAcked with
      | some ca => if !tsnGt d.tsn ca && st.viol.isNone then { st with viol := some s!"rexmit-after-sack:{d.tsn}@{idx}" } else st
      | none => st
  else st

def epStep (cfg : List (UInt16 × Nat)) (st : EpSt) (idx : Nat) (ev : TEv) : EpSt :=
  match ev with
  | .loop => st
  | .t3 => st
  | .enq chan _ len => { st with outQ := st.outQ ++ fragSizes (mpsOf cfg chan) len }
  | .rx p =>
    match parsePacket p with
    | some pk => pk.chunks.foldl epRxChunk st
    | none => st
  | .tx p =>
    match parsePacket p with
    | some pk => pk.chunks.foldl (epTxChunk idx) st
    | none => st
  | .win cwnd flight rwnd burst _ =>
    let eff := min (min (flight + burst) cwnd) rwnd
    let st := if rwnd != st.rwnd && st.viol.isNone then { st with viol := some s!"stale-rwnd:{rwnd}!={st.rwnd}@{idx}" } else st
    { st with out := st.out ++ [s!"w{eff}"] }
  | .new available _ _ _ =>
    let r := popSizes st.outQ available 0
    let wl := !r.2.isEmpty || r.1.length ≥ 1000
    { st with outQ := r.2, out := st.out ++ [s!"n{r.1.length},{r.1.sum},{if wl then 1 else 0}"] }

def epCheck (cfg : List (UInt16 × Nat)) (evs : List TEv) : EpSt :=
  (evs.foldl (fun (st : EpSt × Nat) ev => (epStep cfg st.1 st.2 ev, st.2 + 1)) ({}, 0)).1

end RtcModel.Sctp
