/-
C15 — RTCP compound packet codec, written from RFC 3550 §6 (SR, RR, SDES, BYE), RFC 4585 §6
(generic NACK, PLI), RFC 5104 §4.3.1 (FIR), draft-alvestrand-rmcat-remb (REMB) and
draft-holmer-rmcat-transport-wide-cc-extensions (TWCC header; the status/delta payload is opaque),
following `parse_rtcp_packets` / `marshal_rtcp_packets` of `src/rtp.rs` check by check.
Rust `String`s are modelled by their UTF-8 bytes (`C15Utf8.lossy` = `from_utf8_lossy`).
-/
import RtcModel.C15Utf8
import RtcModel.C15Nack

namespace RtcModel.C15
open RtcModel.Generated

structure ReportBlock where
  ssrc : UInt32
  fractionLost : UInt8
  lost : Int            -- i32 in the code
  hseq : UInt32
  jitter : UInt32
  lsr : UInt32
  dlsr : UInt32
  deriving DecidableEq, Repr

structure SdesItem where
  ty : UInt8
  text : Bytes          -- UTF-8 bytes of the Rust `String`
  deriving DecidableEq, Repr

structure SdesChunk where
  ssrc : UInt32
  items : List SdesItem
  deriving DecidableEq, Repr

structure FirReq where
  ssrc : UInt32
  seq : UInt8
  deriving DecidableEq, Repr

inductive Rtcp where
  | sr (ssrc ntpMost ntpLeast rtpTs pktCount octCount : UInt32) (blocks : List ReportBlock)
  | rr (ssrc : UInt32) (blocks : List ReportBlock)
  | sdes (chunks : List SdesChunk)
  | bye (sources : List UInt32) (reason : Option Bytes)
  | pli (sender media : UInt32)
  | fir (sender : UInt32) (reqs : List FirReq)
  | nack (sender media : UInt32) (lost : List UInt16)
  | remb (sender : UInt32) (bitrate : Nat) (ssrcs : List UInt32)   -- bitrate: u64
  | twcc (sender media : UInt32) (baseSeq statusCount : UInt16) (refTime : UInt32)
         (fbCount : UInt8) (payload : Bytes)
  deriving DecidableEq, Repr

/-! ### sub-parsers (each gets `fmt` and the body with RTCP padding already removed) -/

/-- `parse_report_block` on exactly 24 bytes; the 24-bit loss count is sign-extended -/
def parseBlock : Bytes → Option ReportBlock
  | s0 :: s1 :: s2 :: s3 :: fl :: l0 :: l1 :: l2 :: h0 :: h1 :: h2 :: h3 :: j0 :: j1 :: j2 :: j3 ::
    a0 :: a1 :: a2 :: a3 :: d0 :: d1 :: d2 :: d3 :: _ =>
    let v := rd24n l0 l1 l2
    some { ssrc := rd32 s0 s1 s2 s3, fractionLost := fl,
           lost := if v ≥ 8388608 then (v : Int) - 16777216 else (v : Int),
           hseq := rd32 h0 h1 h2 h3, jitter := rd32 j0 j1 j2 j3,
           lsr := rd32 a0 a1 a2 a3, dlsr := rd32 d0 d1 d2 d3 }
  | _ => none

/-- the `for _ in 0..fmt` loop over report blocks -/
def parseBlocks : Nat → Bytes → Except Err (List ReportBlock)
  | 0, _ => .ok []
  | n + 1, bs =>
    if bs.length < 24 then .error .len
    else match parseBlock bs with
      | none => .error .len
      | some b =>
        match parseBlocks n (bs.drop 24) with
        | .error e => .error e
        | .ok r => .ok (b :: r)

def parseSr (fmt : Nat) (body : Bytes) : Except Err Rtcp :=
  match body with
  | s0 :: s1 :: s2 :: s3 :: m0 :: m1 :: m2 :: m3 :: l0 :: l1 :: l2 :: l3 :: t0 :: t1 :: t2 :: t3 ::
    p0 :: p1 :: p2 :: p3 :: o0 :: o1 :: o2 :: o3 :: rest =>
    match parseBlocks fmt rest with
    | .error e => .error e
    | .ok bl => .ok (.sr (rd32 s0 s1 s2 s3) (rd32 m0 m1 m2 m3) (rd32 l0 l1 l2 l3) (rd32 t0 t1 t2 t3)
                         (rd32 p0 p1 p2 p3) (rd32 o0 o1 o2 o3) bl)
  | _ => .error (.rtcp "sender report too short")

def parseRr (fmt : Nat) (body : Bytes) : Except Err Rtcp :=
  match body with
  | s0 :: s1 :: s2 :: s3 :: rest =>
    match parseBlocks fmt rest with
    | .error e => .error e
    | .ok bl => .ok (.rr (rd32 s0 s1 s2 s3) bl)
  | _ => .error (.rtcp "receiver report too short")

/-- item loop of one SDES chunk.  `off` is the offset of `bs` inside the body (the code aligns on
`offset % 4` of the body).  Returns the items, the new offset and the unread rest. -/
def sdesItems (off : Nat) : Bytes → Except Err (List SdesItem × Nat × Bytes)
  | [] => .ok ([], off, [])
  | ty :: rest =>
    if ty = 0 then
      let k := min (pad4 (off + 1)) rest.length
      .ok ([], off + 1 + k, rest.drop k)
    else match rest with
      | [] => .error .short
      | l :: rest2 =>
        if rest2.length < l.toNat then .error .short
        else match sdesItems (off + 2 + l.toNat) (rest2.drop l.toNat) with
          | .error e => .error e
          | .ok (its, o, r) => .ok (⟨ty, lossy (rest2.take l.toNat)⟩ :: its, o, r)
termination_by bs => bs.length
decreasing_by simp only [List.length_cons, List.length_drop]; omega

def sdesChunks : Nat → Nat → Bytes → Except Err (List SdesChunk)
  | 0, _, _ => .ok []
  | n + 1, off, bs =>
    match bs with
    | s0 :: s1 :: s2 :: s3 :: rest =>
      match sdesItems (off + 4) rest with
      | .error e => .error e
      | .ok (its, o, r) =>
        match sdesChunks n o r with
        | .error e => .error e
        | .ok cs => .ok (⟨rd32 s0 s1 s2 s3, its⟩ :: cs)
    | _ => .error .short

def parseSdes (count : Nat) (body : Bytes) : Except Err Rtcp :=
  match sdesChunks count 0 body with
  | .error e => .error e
  | .ok cs => .ok (.sdes cs)

def parseBye (count : Nat) (body : Bytes) : Except Err Rtcp :=
  if body.length < count * 4 then .error .short
  else
    let s := readU32s count body
    match s.2 with
    | [] => .ok (.bye s.1 none)
    | l :: rest =>
      if rest.length < l.toNat then .error .short
      else .ok (.bye s.1 (some (lossy (rest.take l.toNat))))

def parsePli (body : Bytes) : Except Err Rtcp :=
  match body with
  | s0 :: s1 :: s2 :: s3 :: m0 :: m1 :: m2 :: m3 :: _ => .ok (.pli (rd32 s0 s1 s2 s3) (rd32 m0 m1 m2 m3))
  | _ => .error (.rtcp "payload feedback body too short")

/-- `while offset + 8 <= body.len()` over FIR entries -/
def firEntries : Bytes → List FirReq
  | s0 :: s1 :: s2 :: s3 :: q :: _ :: _ :: _ :: rest => ⟨rd32 s0 s1 s2 s3, q⟩ :: firEntries rest
  | _ => []

def parseFir (body : Bytes) : Except Err Rtcp :=
  match body with
  | s0 :: s1 :: s2 :: s3 :: _ :: _ :: _ :: _ :: rest => .ok (.fir (rd32 s0 s1 s2 s3) (firEntries rest))
  | _ => .error (.rtcp "FIR body too short")

/-- `while offset + 4 <= body.len()` over (PID, BLP) pairs -/
def nackPairs : Bytes → List (UInt16 × Nat)
  | p0 :: p1 :: b0 :: b1 :: rest => (rd16 p0 p1, (rd16 b0 b1).toNat) :: nackPairs rest
  | _ => []

def parseNack (body : Bytes) : Except Err Rtcp :=
  match body with
  | s0 :: s1 :: s2 :: s3 :: m0 :: m1 :: m2 :: m3 :: rest =>
    .ok (.nack (rd32 s0 s1 s2 s3) (rd32 m0 m1 m2 m3) (unpackNack (nackPairs rest)))
  | _ => .error (.rtcp "NACK body too short")

def rembTag : Bytes := [0x52, 0x45, 0x4D, 0x42]   -- "REMB"

def parseRemb (body : Bytes) : Except Err Rtcp :=
  match body with
  | s0 :: s1 :: s2 :: s3 :: _ :: _ :: _ :: _ :: r :: e :: m :: b :: n :: x :: y :: z :: rest =>
    if [r, e, m, b] ≠ rembTag then .error (.rtcp "invalid REMB payload")
    else
      let exponent := x.toNat / 4
      let mantissa := (x.toNat % 4) * 65536 + y.toNat * 256 + z.toNat
      let bitrate := (mantissa * 2 ^ exponent) % 2 ^ 64          -- u64 `<<`
      if rest.length < n.toNat * 4 then .error .len
      else .ok (.remb (rd32 s0 s1 s2 s3) bitrate (readU32s n.toNat rest).1)
  | _ => .error (.rtcp "invalid REMB payload")

def parseTwcc (body : Bytes) : Except Err Rtcp :=
  match body with
  | s0 :: s1 :: s2 :: s3 :: m0 :: m1 :: m2 :: m3 :: b0 :: b1 :: c0 :: c1 :: r0 :: r1 :: r2 :: f :: rest =>
    .ok (.twcc (rd32 s0 s1 s2 s3) (rd32 m0 m1 m2 m3) (rd16 b0 b1) (rd16 c0 c1) (rd32 0 r0 r1 r2) f rest)
  | _ => .error (.rtcp "TWCC body too short")

/-- dispatch on the packet type; `none` = packet skipped (XR, unknown types) -/
def parseOne (pt fmt : Nat) (body : Bytes) : Except Err (Option Rtcp) :=
  if pt = c15RtcpSr then (parseSr fmt body).map some
  else if pt = c15RtcpRr then (parseRr fmt body).map some
  else if pt = c15RtcpSdes then (parseSdes fmt body).map some
  else if pt = c15RtcpBye then (parseBye fmt body).map some
  else if pt = c15RtcpRtpfb then
    if fmt = c15FmtNack then (parseNack body).map some
    else if fmt = c15FmtTwcc then (parseTwcc body).map some
    else .error (.rtcp "unsupported RTP feedback format")
  else if pt = c15RtcpPsfb then
    if fmt = c15FmtPli then (parsePli body).map some
    else if fmt = c15FmtFir then (parseFir body).map some
    else if fmt = c15FmtApp then (parseRemb body).map some
    else .error (.rtcp "unsupported payload feedback format")
  else .ok none

/-- `parse_rtcp_packets` -/
def parseCompound : Bytes → Except Err (List Rtcp)
  | vrc :: pt :: l0 :: l1 :: rest =>
    if vrc.toNat / 64 ≠ c15RtpVersion then .error (.rtcp "invalid RTCP version") else
    let padding := vrc.toNat / 32 % 2 == 1
    let fmt := vrc.toNat % 32
    let bodyLen := (rd16 l0 l1).toNat * 4           -- packet_len - 4
    if rest.length < bodyLen then .error .len else
    let bodyAll := rest.take bodyLen
    -- `raw[body_end - 1]`: the last body byte, or the low length byte when the body is empty
    let pad := if padding then (bodyAll.getLast?.getD l1).toNat else 0
    if padding && (pad = 0 || pad > bodyLen) then .error (.rtcp "invalid padding in RTCP packet") else
    match parseOne pt.toNat fmt (bodyAll.take (bodyLen - pad)) with
    | .error e => .error e
    | .ok o =>
      match parseCompound (rest.drop bodyLen) with
      | .error e => .error e
      | .ok ps => .ok (match o with | some p => p :: ps | none => ps)
  | _ => .ok []
termination_by bs => bs.length
decreasing_by simp only [List.length_cons, List.length_drop]; omega

/-! ### marshal -/

/-- 2^23: bound of the 24-bit signed cumulative loss (`1 << 23` in `build_report_block`) -/
def lossLim : Int := 2 ^ c15LossClampBits

/-- `build_report_block`: loss count clamped to 24-bit signed and stored two's complement -/
def blockBytes (b : ReportBlock) : Bytes :=
  let clamped : Int := if b.lost < -lossLim then -lossLim else if b.lost > lossLim - 1 then lossLim - 1 else b.lost
  be32 b.ssrc ++ [b.fractionLost] ++ be24n (clamped % 16777216).toNat ++
    be32 b.hseq ++ be32 b.jitter ++ be32 b.lsr ++ be32 b.dlsr

def itemBytes (i : SdesItem) : Bytes := i.ty :: u8 (i.text.length % 256) :: i.text

/-- the per-item checks of `build_sdes_body`, in build order: type 0 (END) first, then the length -/
def itemsErr : List SdesItem → Option String
  | [] => none
  | i :: is =>
    if i.ty = 0 then some "SDES item type 0 is the END marker"
    else if i.text.length > 255 then some "SDES item text too long"      -- u8::MAX
    else itemsErr is

def sdesItemErr : List SdesChunk → Option String
  | [] => none
  | c :: cs => match itemsErr c.items with | some e => some e | none => sdesItemErr cs

/-- `build_sdes_body` appends chunk after chunk to ONE buffer and pads on the buffer length -/
def sdesBody (acc : Bytes) : List SdesChunk → Bytes
  | [] => acc
  | c :: cs =>
    let a := acc ++ be32 c.ssrc ++ c.items.flatMap itemBytes ++ [0]
    sdesBody (a ++ List.replicate (pad4 a.length) 0) cs

/-- `str::is_char_boundary(i)` for `0 < i ≤ len`: the end, or a byte that is not a continuation byte -/
def isBoundary (r : Bytes) (i : Nat) : Bool :=
  i = 0 || i ≥ r.length || (let b := (r.getD i 0).toNat; b < 128 || b ≥ 192)

/-- `while !reason.is_char_boundary(len) { len -= 1 }` -/
def byeCut (r : Bytes) : Nat → Nat
  | 0 => 0
  | n + 1 => if isBoundary r (n + 1) then n + 1 else byeCut r n

def byeBody (sources : List UInt32) (reason : Option Bytes) : Bytes :=
  be32s sources ++
    match reason with
    | none => []
    | some r =>
      let n := byeCut r (min r.length c15ByeMaxReason)
      u8 n :: r.take n

def firBody (sender : UInt32) (reqs : List FirReq) : Bytes :=
  be32 sender ++ be32 0 ++ reqs.flatMap (fun r => be32 r.ssrc ++ [r.seq, 0, 0, 0])

def pairBytes (p : UInt16 × Nat) : Bytes := be16 p.1 ++ be16n p.2

/-- the `while mantissa > 0x3FFFF` loop of `build_remb_body` (64 iterations suffice for a u64) -/
def rembNorm : Nat → Nat → Nat → Nat × Nat
  | 0, m, e => (m, e)
  | fuel + 1, m, e => if m > c15RembMantissaMax then rembNorm fuel (m / 2) (e + 1) else (m, e)

def rembBody (sender : UInt32) (bitrate : Nat) (ssrcs : List UInt32) : Bytes :=
  let me := rembNorm 64 bitrate 0
  let m := me.1 % 4294967296                     -- `mantissa as u32`
  be32 sender ++ be32 0 ++ rembTag ++
    [u8 (ssrcs.length % 256), u8 ((me.2 % (c15RembExpMask + 1)) * 4 % 256 + m / 65536 % 4), u8 (m / 256 % 256), u8 (m % 256)] ++
    be32s ssrcs

def twccBody (sender media : UInt32) (baseSeq statusCount : UInt16) (refTime : UInt32)
    (fbCount : UInt8) (payload : Bytes) : Bytes :=
  be32 sender ++ be32 media ++ be16 baseSeq ++ be16 statusCount ++
    be24n (refTime.toNat % 16777216) ++ [fbCount] ++ payload      -- `& 0x00FF_FFFF` = c15TwccRefMask (pinned by const_values)

/-- the bytes `write_rtcp_packet` appends (when the length fits) -/
def writeRtcp (fmt pt : Nat) (body : Bytes) : Bytes :=
  let b := body ++ List.replicate (pad4 body.length) 0
  u8 (c15RtpVersion * 64 + fmt % (c15RtcpCountMask + 1)) :: u8 pt :: (be16n (b.length / 4) ++ b)

/-- `u16::try_from(body.len() / 4)` on the padded body succeeds -/
def fits (body : Bytes) : Bool := (body.length + pad4 body.length) / 4 ≤ 65535

/-- `write_rtcp_packet` -/
def emit (fmt pt : Nat) (body : Bytes) : Except Err Bytes :=
  if fits body then .ok (writeRtcp fmt pt body) else .error (.rtcp "RTCP packet too long for the length field")

/-- the TWCC arm: a body that is not 32-bit aligned gets RFC 3550 padding (zero bytes, the count in
the last byte) and the P bit is set on the first header byte afterwards (`out[start] |= 0x20`) -/
def twccPadded (body : Bytes) : Bytes :=
  let pad := pad4 body.length
  if pad = 0 then body else body ++ List.replicate (pad - 1) 0 ++ [u8 pad]

def twccWire (body : Bytes) : Bytes :=
  if pad4 body.length = 0 then writeRtcp c15FmtTwcc c15RtcpRtpfb body
  else
    match writeRtcp c15FmtTwcc c15RtcpRtpfb (twccPadded body) with
    | b0 :: rest => (b0 ||| 0x20) :: rest
    | [] => []

def twccEmit (body : Bytes) : Except Err Bytes :=
  if fits (twccPadded body) then .ok (twccWire body) else .error (.rtcp "RTCP packet too long for the length field")

/-- one arm of `marshal_rtcp_packets` -/
def marshalOne : Rtcp → Except Err Bytes
  | .sr s m l t p o bl =>
    if bl.length > c15RtcpMaxCount then .error (.rtcp "too many report blocks")
    else emit (bl.length % 256) c15RtcpSr
      (be32 s ++ be32 m ++ be32 l ++ be32 t ++ be32 p ++ be32 o ++ bl.flatMap blockBytes)
  | .rr s bl =>
    if bl.length > c15RtcpMaxCount then .error (.rtcp "too many report blocks")
    else emit (bl.length % 256) c15RtcpRr (be32 s ++ bl.flatMap blockBytes)
  | .sdes cs =>
    if cs.length > c15RtcpMaxCount then .error (.rtcp "too many SDES chunks")
    else match sdesItemErr cs with
      | some e => .error (.rtcp e)
      | none => emit (cs.length % 256) c15RtcpSdes (sdesBody [] cs)
  | .bye ss r =>
    if ss.length > c15RtcpMaxCount then .error (.rtcp "too many BYE sources")
    else emit (ss.length % 256) c15RtcpBye (byeBody ss r)
  | .pli s m => emit c15FmtPli c15RtcpPsfb (be32 s ++ be32 m)
  | .fir s rq => emit c15FmtFir c15RtcpPsfb (firBody s rq)
  | .nack s m lost =>
    if lost.isEmpty then .error (.rtcp "NACK requires at least one packet")
    else emit c15FmtNack c15RtcpRtpfb (be32 s ++ be32 m ++ (packNack lost).flatMap pairBytes)
  | .remb s br ss =>
    if ss.length > c15RembMaxSsrcs then .error (.rtcp "too many REMB SSRC entries")
    else emit c15FmtApp c15RtcpPsfb (rembBody s br ss)
  | .twcc s m b c r f pl => twccEmit (twccBody s m b c r f pl)   -- the reference time wraps modulo 2^24

/-- `marshal_rtcp_packets` -/
def marshalCompound : List Rtcp → Except Err Bytes
  | [] => .ok []
  | p :: ps =>
    match marshalOne p with
    | .error e => .error e
    | .ok b =>
      match marshalCompound ps with
      | .error e => .error e
      | .ok r => .ok (b ++ r)

end RtcModel.C15
