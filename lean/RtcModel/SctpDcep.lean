/-
Model of DCEP (`src/transports/datachannel.rs` `DataChannelOpen::{marshal,unmarshal}`,
`DataChannelAck`) and of `handle_dcep` / the DCEP branch of `process_data_payload`
(`src/transports/sctp.rs`).  Core Lean only.
-/
import RtcModel.SctpRecv

namespace RtcModel.Sctp
open RtcModel.Generated

structure DcepOpen where
  channelType : UInt8
  priority    : UInt16
  reliability : UInt32
  label       : Bytes
  protocol    : Bytes
deriving DecidableEq, Repr, Inhabited

/-! big-endian codecs, written with `Nat` arithmetic (same functions as the shift/or forms) -/
def be16 (x : UInt16) : Bytes := [UInt8.ofNat (x.toNat / 256), UInt8.ofNat (x.toNat % 256)]
def be32 (x : UInt32) : Bytes :=
  [UInt8.ofNat (x.toNat / 16777216), UInt8.ofNat (x.toNat / 65536 % 256), UInt8.ofNat (x.toNat / 256 % 256),
   UInt8.ofNat (x.toNat % 256)]
def rd16 (a b : UInt8) : UInt16 := UInt16.ofNat (a.toNat * 256 + b.toNat)
def rd32 (a b c d : UInt8) : UInt32 :=
  UInt32.ofNat (a.toNat * 16777216 + b.toNat * 65536 + c.toNat * 256 + d.toNat)

/-- `DataChannelOpen::marshal` (`label.len() as u16`: lengths are truncated to 16 bits) -/
def DcepOpen.marshal (o : DcepOpen) : Bytes :=
  [0x03, o.channelType] ++ be16 o.priority ++ be32 o.reliability ++
    be16 (UInt16.ofNat o.label.length) ++ be16 (UInt16.ofNat o.protocol.length) ++ o.label ++ o.protocol

/-- `std::str::from_utf8(..).is_ok()` (RFC 3629 well-formedness, as checked by Rust) -/
def utf8Valid : Bytes → Bool
  | [] => true
  | b0 :: rest =>
    let cont (b : UInt8) : Bool := 0x80 ≤ b && b ≤ 0xBF
    if b0 ≤ 0x7F then utf8Valid rest
    else if 0xC2 ≤ b0 && b0 ≤ 0xDF then
      match rest with
      | b1 :: r => cont b1 && utf8Valid r
      | _ => false
    else if 0xE0 ≤ b0 && b0 ≤ 0xEF then
      match rest with
      | b1 :: b2 :: r =>
        (if b0 == 0xE0 then 0xA0 ≤ b1 && b1 ≤ 0xBF
         else if b0 == 0xED then 0x80 ≤ b1 && b1 ≤ 0x9F
         else cont b1) && cont b2 && utf8Valid r
      | _ => false
    else if 0xF0 ≤ b0 && b0 ≤ 0xF4 then
      match rest with
      | b1 :: b2 :: b3 :: r =>
        (if b0 == 0xF0 then 0x90 ≤ b1 && b1 ≤ 0xBF
         else if b0 == 0xF4 then 0x80 ≤ b1 && b1 ≤ 0x8F
         else cont b1) && cont b2 && cont b3 && utf8Valid r
      | _ => false
    else false

/-- `DataChannelOpen::unmarshal` (`none` = `Err`) -/
def DcepOpen.unmarshal (d : Bytes) : Option DcepOpen :=
  match d with
  | t :: ct :: p0 :: p1 :: r0 :: r1 :: r2 :: r3 :: l0 :: l1 :: q0 :: q1 :: rest =>
    if t != 0x03 then none
    else
      let ll := (rd16 l0 l1).toNat
      let pl := (rd16 q0 q1).toNat
      if rest.length < ll + pl then none
      else
        let label := rest.take ll
        let proto := (rest.drop ll).take pl
        if utf8Valid label && utf8Valid proto then
          some { channelType := ct, priority := rd16 p0 p1, reliability := rd32 r0 r1 r2 r3,
                 label := label, protocol := proto }
        else none
  | _ => none

/-- channel-type byte chosen by `send_dcep_open` -/
def chanTypeOf (ordered : Bool) (maxRetransmits maxLifetime : Option UInt16) : UInt8 :=
  if ordered then
    if maxRetransmits.isSome then 0x01 else if maxLifetime.isSome then 0x02 else 0x00
  else
    if maxRetransmits.isSome then 0x81 else if maxLifetime.isSome then 0x82 else 0x80

/-- reliability parameter chosen by `send_dcep_open` -/
def reliabilityOf (maxRetransmits maxLifetime : Option UInt16) : UInt32 :=
  match maxRetransmits with
  | some r => r.toUInt32
  | none => match maxLifetime with
    | some t => t.toUInt32
    | none => 0

/-- the `DataChannelOpen` `send_dcep_open(dc)` marshals -/
def openOf (ordered : Bool) (mr ml : Option UInt16) (label protocol : Bytes) : DcepOpen :=
  { channelType := chanTypeOf ordered mr ml, priority := 0, reliability := reliabilityOf mr ml, label, protocol }

/-- the channel `handle_dcep` creates from a received OPEN (state Open, `Open` event emitted) -/
def chanOfOpen (sid : UInt16) (o : DcepOpen) : Chan :=
  { id := sid, ordered := (o.channelType &&& 0x80) == 0, negotiated := false, state := 1,
    label := o.label, protocol := o.protocol,
    maxRetransmits := if (o.channelType &&& 0x03) == 0x01 then some o.reliability.toUInt16 else none,
    maxLifetime := if (o.channelType &&& 0x03) == 0x02 then some o.reliability.toUInt16 else none,
    reasm := [], events := [.open_] }

/-- `handle_dcep(stream_id, data)` on the parts of the endpoint it touches (channel table, requested
actions); `false` = `Err` -/
def dcepCore (chans : List Chan) (acts : List Act) (sid : UInt16) (data : Bytes) : (List Chan × List Act) × Bool :=
  match data with
  | [] => ((chans, acts), true)
  | t :: _ =>
    if t == 0x03 then
      match DcepOpen.unmarshal data with
      | none => ((chans, acts), false)
      | some o =>
        if chans.any (fun c => c.id == sid) then ((chans, acts ++ [.dcepAck sid]), true)
        else ((chans ++ [chanOfOpen sid o], acts ++ [.newChannel sid, .dcepAck sid]), true)
    else if t == 0x02 then
      match findChan chans sid with
      | some dc =>
        if dc.state == 0 then ((setChan chans ({ dc with state := 1 }.emit .open_), acts), true)
        else ((chans, acts), true)
      | none => ((chans, acts), true)
    else ((chans, acts), true)

/-- `handle_dcep(stream_id, data)`; `false` = `Err` -/
def handleDcep (pl : Pl) (sid : UInt16) (data : Bytes) : Pl × Bool :=
  let r := dcepCore pl.chans pl.acts sid data
  ({ pl with chans := r.1.1, acts := r.1.2 }, r.2)

def getDcepBuf (bs : List (UInt16 × Bytes)) (sid : UInt16) : Bytes :=
  match bs.find? (fun e => e.1 == sid) with
  | some e => e.2
  | none => []

def setDcepBuf (bs : List (UInt16 × Bytes)) (sid : UInt16) (b : Bytes) : List (UInt16 × Bytes) :=
  (sid, b) :: bs.filter (fun e => e.1 != sid)

/-- the DCEP branch of `process_data_payload` after the SSN placeholder: a message is collected
from its B fragment to its E fragment (an orphan fragment is dropped), then handed to `handle_dcep`;
a `handle_dcep` error only drops the message (the chunk still counts as processed) -/
def procDcep (pl : Pl) (c : DChunk) : Pl :=
  if c.bBit && c.eBit then (handleDcep pl c.sid c.data).1
  else
    let cur := getDcepBuf pl.dcepBuf c.sid
    if !c.bBit && cur.isEmpty then pl
    else
      let buf := (if c.bBit then [] else cur) ++ c.data
      if !c.eBit then { pl with dcepBuf := setDcepBuf pl.dcepBuf c.sid buf }
      else (handleDcep { pl with dcepBuf := setDcepBuf pl.dcepBuf c.sid [] } c.sid buf).1

/-- `process_data_payload` (never returns `Err` any more: the second component is always `true`) -/
def procPayload : Proc := fun pl c =>
  if c.ppid.toNat == dcPpidDcep then
    let pl1 :=
      if !c.uBit then
        let r := (getStream pl.streams c.sid).enqueue c.ssn []
        { pl with streams := setStream pl.streams c.sid r.1 }
      else pl
    (procDcep pl1 c, true)
  else (procData pl c, true)

theorem procPayload_ok (pl : Pl) (c : DChunk) : (procPayload pl c).2 = true := by
  unfold procPayload; split <;> rfl

/-- `handle_data` -/
def handleData (s : Rx) (c : DChunk) : Rx := handleDataWith procPayload s c

/-- `handle_forward_tsn` -/
def handleForwardTsn (s : Rx) (newCum : UInt32) (pairs : List (UInt16 × UInt16)) : Rx :=
  (handleForwardTsnWith procPayload s newCum pairs).1

end RtcModel.Sctp
