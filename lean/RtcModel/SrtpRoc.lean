/-
SRTP rollover-counter estimation and state update (`SrtpContext::estimate_roc` / `update`,
src/srtp.rs). Values are `Nat`s holding the Rust integer (`roc : u32`, sequence numbers `u16`);
wrapping `u32` arithmetic is written out with `% 2^32`.
-/
import RtcModel.Generated.Consts
namespace RtcModel.Srtp
open RtcModel.Generated

/-- `(roc as u64) << 16 | seq as u64` for `seq < 2^16` -/
def index48 (roc seq : Nat) : Nat := roc * 65536 + seq

/-- `estimate_roc`: `last = none` is `last_sequence: None`. -/
def estimateRoc (roc : Nat) (last : Option Nat) (seq : Nat) : Nat :=
  match last with
  | none => roc
  | some l =>
    if (seq : Int) - (l : Int) < -(rocAheadThreshold : Int) then (roc + 1) % 4294967296
    else if (seq : Int) - (l : Int) > (rocBehindThreshold : Int) then (roc + 4294967295) % 4294967296
    else roc

/-- `update`: returns the new `(rollover_counter, last_sequence)`. -/
def updateRoc (roc : Nat) (last : Option Nat) (seq r : Nat) : Nat × Option Nat :=
  match last with
  | none => (r, some seq)
  | some l => if index48 r seq > index48 roc l then (r, some seq) else (roc, some l)

end RtcModel.Srtp
