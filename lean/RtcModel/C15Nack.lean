/-
C15 — generic NACK FCI packing (RFC 4585 §6.2.1), mirroring `pack_nack_pairs` /
`parse_nack_body` of `src/rtp.rs`.  Sequence numbers are `UInt16`; the bitmask is kept as a `Nat`
(`Nat.testBit` is literally `(blp >> bit) & 1 != 0`; only bits 0..15 are ever set, so no 16-bit
truncation can occur — proved in `Lemmas/C15Nack.lean`).
-/
import RtcModel.Base.C15Bytes
import RtcModel.Generated.Consts

namespace RtcModel.C15
open RtcModel.Generated

/-- insert into a strictly ascending list, dropping duplicates (`sort_unstable` + `dedup`) -/
def insertAsc (x : UInt16) : List UInt16 → List UInt16
  | [] => [x]
  | y :: ys => if x < y then x :: y :: ys else if x = y then y :: ys else y :: insertAsc x ys

def sortDedup : List UInt16 → List UInt16
  | [] => []
  | x :: xs => insertAsc x (sortDedup xs)

/-- inner loop of `pack_nack_pairs`: absorb following sequence numbers into the bitmask of `pid`;
returns the mask and the unconsumed rest -/
def absorb (pid : UInt16) (blp : Nat) : List UInt16 → Nat × List UInt16
  | [] => (blp, [])
  | s :: rest =>
    let diff := (s - pid).toNat          -- wrapping_sub
    if diff = 0 then absorb pid blp rest
    else if diff > c15NackBlpSpan then (blp, s :: rest)
    else absorb pid (blp ||| (1 <<< (diff - 1))) rest

theorem absorb_length (pid : UInt16) (blp : Nat) (xs : List UInt16) :
    (absorb pid blp xs).2.length ≤ xs.length := by
  induction xs generalizing blp with
  | nil => simp [absorb]
  | cons s rest ih =>
    simp only [absorb]
    split
    · exact Nat.le_trans (ih _) (by simp)
    · split
      · simp
      · exact Nat.le_trans (ih _) (by simp)

/-- outer loop of `pack_nack_pairs` over the sorted, de-duplicated list -/
def packSorted : List UInt16 → List (UInt16 × Nat)
  | [] => []
  | pid :: rest =>
    let r := absorb pid 0 rest
    (pid, r.1) :: packSorted r.2
termination_by xs => xs.length
decreasing_by
  have := absorb_length pid 0 rest
  simp only [List.length_cons]; omega

/-- `pack_nack_pairs` -/
def packNack (xs : List UInt16) : List (UInt16 × Nat) := packSorted (sortDedup xs)

/-- sequence numbers named by bits `bit, bit+1, …, 15` of the mask (inner loop of `parse_nack_body`) -/
def blpSeqs (pid : UInt16) (blp : Nat) : Nat → Nat → List UInt16
  | _, 0 => []
  | bit, fuel + 1 =>
    if blp.testBit bit then (pid + UInt16.ofNat (bit + 1)) :: blpSeqs pid blp (bit + 1) fuel
    else blpSeqs pid blp (bit + 1) fuel

/-- the lost-packet list `parse_nack_body` produces for a list of (PID, BLP) pairs -/
def unpackNack : List (UInt16 × Nat) → List UInt16
  | [] => []
  | (pid, blp) :: rest => pid :: (blpSeqs pid blp 0 c15BlpBits ++ unpackNack rest)

end RtcModel.C15
