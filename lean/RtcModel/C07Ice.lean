/-
C07 — totality models of the STUN/TURN/ICE byte handling:
`decode_stun_message` + `parse_xor_address` (src/transports/ice/stun.rs:293-443),
`username_from_stun_bytes` / `peer_ufrag_from_binding_request` (shared_tcp.rs:184-226, used by the
shared UDP/TCP demux), the pure part of `IceTransport::handle_turn_packet` + the first-byte classifier of
`handle_packet` (src/transports/ice/mod.rs:1594-1649, 2235-2250, after the `fix:` commit that drops empty
payloads), the TURN/TCP frame read of `TurnClient::recv` (turn.rs:363-386, after the `fix:` commit that
rejects frames larger than the receive buffer), and `unwrap_rtx_packet` (src/rtx.rs:49-74).
-/
import RtcModel.Base.C07Cursor
import RtcModel.Generated.Consts
namespace RtcModel.C07.Ice
open RtcModel.C07 RtcModel.Generated

def foldBytes (l : List Nat) : Nat := l.foldl (fun a x => (a * 31 + x) % 4294967296) 7
def arrNats (a : Array UInt8) : List Nat := a.toList.map (·.toNat)

/-- big-endian bytes of the magic cookie -/
def cookieBytes : List Nat :=
  [c07MagicCookie / 16777216 % 256, c07MagicCookie / 65536 % 256, c07MagicCookie / 256 % 256, c07MagicCookie % 256]

/-- `parse_xor_address(value, tid)`: `[]` = `None`, else `[port, fold(ip bytes)]` -/
def xorAddr (value tid : Array UInt8) : Cur (List Nat) := do
  if value.size < 4 then pure [] else
  let family ← idx value 1
  let p ← be16 value 2
  let port := Nat.xor p (c07MagicCookie / 65536)
  if family = 1 then
    if value.size < 8 then pure [] else
    let a ← slice value 4 8
    pure [port, foldBytes (List.zipWith Nat.xor (arrNats a) cookieBytes)]
  else if family = 2 then
    if value.size < 20 then pure [] else
    let a ← slice value 4 20
    let _ ← idx tid 11                                   -- `transaction_id[i]`, i < 12, on a `[u8; 12]`
    pure [port, foldBytes (List.zipWith Nat.xor (arrNats a) (cookieBytes ++ arrNats tid))]
  else pure []

structure StunAcc where
  xm : List Nat := []
  xr : List Nat := []
  xp : List Nat := []
  err : Nat := 0        -- 0 = none, else code + 1
  realm : Nat := 0      -- 0 = none, else len + 1
  nonce : Nat := 0
  data : Nat := 0
  dataBytes : Array UInt8 := #[]
  useCand : Nat := 0
  lifetime : Nat := 0

def validUtf8 (a : Array UInt8) : Bool := ByteArray.validateUTF8 ⟨a⟩

/-- one attribute of the decode loop -/
def stunAttr (typ : Nat) (value tid : Array UInt8) (acc : StunAcc) : Cur StunAcc := do
  if typ = 0x0020 then
    let a ← xorAddr value tid
    pure (if a = [] then acc else { acc with xm := a })
  else if typ = 0x0016 then
    let a ← xorAddr value tid
    pure (if a = [] then acc else { acc with xr := a })
  else if typ = 0x0012 then
    let a ← xorAddr value tid
    pure (if a = [] then acc else { acc with xp := a })
  else if typ = 0x0009 then
    if value.size ≥ 4 then
      let c ← idx value 2
      let d ← idx value 3
      pure { acc with err := (c % 8) * 100 + d + 1 }       -- RFC 5389 §15.6: class = low three bits
    else pure acc
  else if typ = 0x0014 then
    if validUtf8 value then
      alloc value.size
      pure { acc with realm := value.size + 1 }
    else pure acc
  else if typ = 0x0015 then
    if validUtf8 value then
      alloc value.size
      pure { acc with nonce := value.size + 1 }
    else pure acc
  else if typ = 0x0013 then
    alloc value.size
    pure { acc with data := value.size + 1, dataBytes := value }
  else if typ = 0x000D then
    if value.size ≥ 4 then
      let v ← be32 value 0
      pure { acc with lifetime := v + 1 }
    else pure acc
  else if typ = 0x0025 then pure { acc with useCand := 1 }
  else pure acc

def stunAttrBody (bytes tid : Array UInt8) (s : Nat × StunAcc) : Cur ((Nat × StunAcc) ⊕ StunAcc) := do
  let offset := s.1
  if ¬ (offset + 4 ≤ bytes.size) then pure (.inr s.2) else
  let typ ← be16 bytes offset
  let len ← be16 bytes (offset + 2)
  let offset := offset + 4
  if offset + len > bytes.size then pure (.inr s.2) else
  let value ← slice bytes offset (offset + len)
  let acc ← stunAttr typ value tid s.2
  pure (.inl (offset + len + (4 - len % 4) % 4, acc))

structure StunMsg where
  method : Nat
  cls : Nat
  tid : Array UInt8
  acc : StunAcc

def stunMethodOk (m : Nat) : Bool := m = 1 ∨ m = 3 ∨ m = 4 ∨ m = 8 ∨ m = 9 ∨ m = 6 ∨ m = 7

/-- `decode_stun_message(bytes)` -/
def stunDecode (bytes : Array UInt8) : Cur StunMsg := do
  if bytes.size < 20 then bail "STUN_message_too_short" else
  let msgType ← be16 bytes 0
  let length ← be16 bytes 2
  if length + 20 ≠ bytes.size then bail "STUN_message_length_mismatch" else
  let method := Nat.land msgType 0x3EEF
  if ¬ stunMethodOk method then bail "unsupported_STUN_method" else
  let cls := Nat.land msgType 0x0110
  let tid ← slice bytes 8 20
  let acc ← loopM (stunAttrBody bytes tid) (bytes.size + 1) (20, {})
  pure ⟨method, cls, tid, acc⟩

def lp (l : List Nat) : List Nat := l.length :: l

def StunMsg.digest (m : StunMsg) : List Nat :=
  [m.method, m.cls, foldBytes (arrNats m.tid)] ++ lp m.acc.xm ++ lp m.acc.xr ++ lp m.acc.xp ++
  [m.acc.err, m.acc.realm, m.acc.nonce, m.acc.data, m.acc.useCand, m.acc.lifetime]

/-! ### username_from_stun_bytes / peer_ufrag_from_binding_request -/

/-- state = offset; result: `(found, value)` — found only when the USERNAME value is valid UTF-8 -/
def usernameBody (bytes : Array UInt8) (offset : Nat) : Cur (Nat ⊕ (Bool × Array UInt8)) := do
  if ¬ (offset + 4 ≤ bytes.size) then pure (.inr (false, #[])) else
  let typ ← be16 bytes offset
  let len ← be16 bytes (offset + 2)
  let offset := offset + 4
  if offset + len > bytes.size then pure (.inr (false, #[])) else
  if typ = 0x0006 then
    let value ← slice bytes offset (offset + len)
    if validUtf8 value then
      alloc len
      pure (.inr (true, value))
    else pure (.inr (false, #[]))
  else pure (.inl (offset + len + (4 - len % 4) % 4))

def usernameFromStun (bytes : Array UInt8) : Cur (Bool × Array UInt8) := do
  if bytes.size < 20 then pure (false, #[]) else
  let length ← be16 bytes 2
  if length + 20 ≠ bytes.size then pure (false, #[]) else
  loopM (usernameBody bytes) (bytes.size + 1) 20

/-- index of the first ':' (or the length when there is none) -/
def colonIdx (a : Array UInt8) : Nat := (a.toList.takeWhile (· ≠ 0x3A)).length

/-- `peer_ufrag_from_binding_request`: the part of USERNAME before the first ':' -/
def peerUfrag (data : Array UInt8) : Cur (Bool × Array UInt8) := do
  if data.size < 20 then pure (false, #[]) else
  let msgType ← be16 data 0
  if Nat.land msgType 0x3EEF ≠ 1 ∨ Nat.land msgType 0x0110 ≠ 0 then pure (false, #[]) else
  let u ← usernameFromStun data
  if ¬ u.1 then pure (false, #[]) else
  let i := colonIdx u.2
  if i ≥ u.2.size then pure (false, #[]) else            -- `split_once(':')?`
  alloc i
  pure (true, u.2.extract 0 i)

/-! ### verify_message_integrity (stun.rs, added on main with the ICE request authentication) -/

/-- attribute walk of `verify_message_integrity`; state = offset; result 0 = no MESSAGE-INTEGRITY (false),
1 = MESSAGE-INTEGRITY of the wrong length (false), 2 = the HMAC comparison decides -/
def verifyMiBody (bytes : Array UInt8) (offset : Nat) : Cur (Nat ⊕ Nat) := do
  if ¬ (offset + 4 ≤ bytes.size) then pure (.inr 0) else
  let typ ← be16 bytes offset
  let len ← be16 bytes (offset + 2)
  if offset + 4 + len > bytes.size then pure (.inr 0) else
  if typ = 0x0008 then
    let covered ← slice bytes 0 offset                    -- `bytes[..offset].to_vec()`
    alloc offset
    let _ ← sliceLen covered.size 2 4                     -- `write_length_field`: `buffer[2..4]`
    if len = 20 then
      let _ ← slice bytes (offset + 4) (offset + 24)
      pure (.inr 2)
    else pure (.inr 1)
  else pure (.inl (offset + 4 + len + (4 - len % 4) % 4))

def verifyMi (bytes : Array UInt8) : Cur Nat := loopM (verifyMiBody bytes) (bytes.size + 1) 20

/-! ### handle_packet / handle_turn_packet classification -/

/-- `handle_packet(packet, …)`: 0 = dropped (empty), 1 = STUN path (`b < 2`), 2 = DTLS/RTP path.
Before the fix this was `packet[0]` (panic on an empty slice). -/
def handlePacketClass (packet : Array UInt8) : Cur Nat := do
  if packet.size = 0 then pure 0 else
  let b ← idx packet 0
  if b < 2 then
    alloc 0
    pure 1
  else pure 2

/-- `IceTransport::handle_turn_packet(packet, …)` with `peerKnown` = `client.get_peer(channel)` is `Some`.
Result: `[kind, class-of-inner-packet, inner length]`; kind 1 = ChannelData, 2 = Data indication,
3 = other STUN forwarded whole, 4 = ignored. -/
def turnPacket (packet : Array UInt8) (peerKnown : Bool) : Cur (List Nat) := do
  let isChan ← (if packet.size ≥ 4 then do
      let ch ← be16 packet 0
      pure (decide (0x4000 ≤ ch ∧ ch ≤ 0x7FFF))
    else pure false : Cur Bool)
  if isChan then
    let len ← be16 packet 2
    if packet.size ≥ 4 + len then
      let data ← slice packet 4 (4 + len)
      if peerKnown then
        let c ← handlePacketClass data
        pure [1, c, len]
      else pure [1, 9, len]
    else pure [1, 8, len]
  else
    -- `if let Ok(msg) = StunMessage::decode(packet)`: a decode error is ignored, not propagated
    let r ← attemptD (stunDecode packet) ⟨0, 0, #[], {}⟩
    if ¬ r.1 then pure [4, 0, 0] else
    let msg := r.2
    if msg.cls = 0x0010 ∧ msg.method = 7 then
      if msg.acc.data ≠ 0 ∧ msg.acc.xp ≠ [] then
        let c ← handlePacketClass msg.acc.dataBytes
        pure [2, c, msg.acc.dataBytes.size]
      else pure [2, 9, 0]
    else
      let c ← handlePacketClass packet
      pure [3, c, packet.size]

/-! ### TURN over TCP: `TurnClient::recv` (turn.rs ~369-387, current tree: messages are self-delimiting) -/

/-- `stream.read_exact(k bytes)` on the bytes the connection will still deliver before EOF: `err` when fewer remain -/
def readExact (k : Nat) : Cur Unit := do
  if (← remaining) < k then bail "early_eof" else advance k

/-- one message read from the TCP stream (cursor = bytes the peer sends before closing) into a `bufLen`-byte buffer:
4-byte header, length from the message's own length field (STUN: 20 + len; ChannelData: 4 + len, padded to four on the
wire), `on_wire > buf.len()` rejected, then `buf[..4]` / `buf[4..on_wire]`. Result = message length. -/
def turnTcpTail (bufLen len onWire : Nat) : Cur Nat := do
  if onWire > bufLen then bail "TURN_TCP_message_exceeds_receive_buffer" else
  let _ ← sliceLen bufLen 0 4                            -- `buf[..4].copy_from_slice(&header)`
  let _ ← sliceLen bufLen 4 onWire                       -- `&mut buf[4..on_wire]`
  readExact (onWire - 4)
  pure len

def turnTcpRecv (bufLen : Nat) : Cur Nat := do
  if (← remaining) < 4 then bail "early_eof" else
  let h0 ← peek 0
  let b2 ← peek 2
  let b3 ← peek 3
  advance 4
  let body := b2 * 256 + b3
  if h0 / 64 = 1 then                                     -- `header[0] & 0xC0 == 0x40`: ChannelData
    turnTcpTail bufLen (4 + body) (4 + (body + 3) / 4 * 4)
  else turnTcpTail bufLen (20 + body) (20 + body)

/-! ### the other TCP frame readers: RFC 4571 framing of `IceSocketWrapper::recv_from` (ice/mod.rs ~4682-4697) and
`read_tcp_framed_packet` of the shared passive TCP listener (shared_tcp.rs:164-180) -/

/-- `IceSocketWrapper::TcpStream(..).recv_from(buf)`: 2-byte length, rejected when larger than the buffer, body -/
def tcp4571Recv (bufLen : Nat) : Cur Nat := do
  if (← remaining) < 2 then bail "early_eof" else
  let len ← getU16
  if len > bufLen then bail "TCP_STUN_message_too_large" else
  let _ ← sliceLen bufLen 0 len                           -- `&mut buf[..len]`
  readExact len
  pure len

/-- `read_tcp_framed_packet(stream)`: first frame of an inbound TCP connection -/
def sharedTcpFirstFrame : Cur Nat := do
  if (← remaining) < 2 then bail "early_eof" else
  let len ← getU16
  if len = 0 ∨ len > c07MaxStunMessage then bail "invalid_TCP_STUN_frame_length" else
  alloc len                                               -- `vec![0u8; len]`
  readExact len
  pure len

/-! ### RTX (src/rtx.rs:49-74) -/

/-- `unwrap_rtx_packet`: `none`, or `(osn, remaining payload length)` -/
def unwrapRtx (payload : Array UInt8) : Cur (Option (Nat × Nat)) := do
  if payload.size < 2 then pure none else
  let osn ← be16 payload 0
  let rest ← slice payload 2 payload.size
  pure (some (osn, rest.size))

end RtcModel.C07.Ice
