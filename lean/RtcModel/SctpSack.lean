/-
Model of `apply_sack_to_sent_queue` (`src/transports/sctp.rs` l.509-711): the sender's reaction to a
SACK on its `sent_queue : BTreeMap<u32, ChunkRecord>`.  The queue is a list of records sorted by
`tsn.toNat` with unique TSNs — the BTreeMap's *numeric* key order, so behaviour around the TSN
wrap is the code's.  Times are milliseconds.  Core Lean only.
-/
import RtcModel.Generated.Consts
import RtcModel.Base.C01Serial

namespace RtcModel.Sctp
open RtcModel.Generated

/-- `ChunkRecord` (the payload is represented by its length; gap-acked records drop it) -/
structure SRec where
  tsn            : UInt32
  len            : Nat
  sentMs         : Nat := 0
  transmitCount  : Nat := 1
  missingReports : Nat := 0
  abandoned      : Bool := false
  fastRetransmit : Bool := false
  needsRetransmit : Bool := false
  frMs           : Option Nat := none
  inFlight       : Bool := true
  acked          : Bool := false
  sid            : UInt16 := 0
  ssn            : UInt16 := 0
  flags          : UInt8 := 3
  maxRetransmits : Option UInt16 := none
  hasExpiry      : Bool := false
deriving DecidableEq, Repr, Inhabited

structure SackOutcome where
  flightReduction : Nat := 0
  bytesCum        : Nat := 0
  bytesGap        : Nat := 0
  /-- milliseconds -/
  rttSamples      : List Nat := []
  /-- (tsn, payload length) -/
  retransmit      : List (UInt32 × Nat) := []
  headMoved       : Bool := false
  maxReported     : UInt32 := 0
deriving DecidableEq, Repr, Inhabited

/-- `max_reported`: the cumulative TSN raised by every gap block end that is serially beyond it -/
def maxReportedOf (cum : UInt32) (gaps : List (UInt16 × UInt16)) : UInt32 :=
  gaps.foldl (fun m g => let be := cum + g.2.toUInt32; if i32Pos (be - m) then be else m) cum

/-- step 1 on one record that is cumulatively acknowledged -/
def cumAckRec (now : Nat) (o : SackOutcome) (r : SRec) : SackOutcome :=
  { o with
    flightReduction := if r.inFlight then o.flightReduction + r.len else o.flightReduction,
    bytesCum := o.bytesCum + r.len,
    rttSamples := if r.transmitCount == 1 && !r.acked then o.rttSamples ++ [now - r.sentMs] else o.rttSamples }

/-- step 2 on one record named by a gap block -/
def gapAckRec (now : Nat) (o : SackOutcome) (r : SRec) : SackOutcome × SRec :=
  if r.acked then (o, r)
  else
    ({ o with
       bytesGap := o.bytesGap + r.len,
       flightReduction := if r.inFlight then o.flightReduction + r.len else o.flightReduction,
       rttSamples := if r.transmitCount == 1 then o.rttSamples ++ [now - r.sentMs] else o.rttSamples },
     { r with acked := true, inFlight := false, len := 0 })

/-- TSNs a gap block `[s, e]` selects, in the order the code visits them:
`range(s..=e)` when `s <= e` numerically, else `range(s..)` then `range(..=e)` -/
def gapSelect (q : List SRec) (s e : UInt32) : List UInt32 :=
  if s ≤ e then (q.filter (fun r => s ≤ r.tsn && r.tsn ≤ e)).map (·.tsn)
  else (q.filter (fun r => s ≤ r.tsn)).map (·.tsn) ++ (q.filter (fun r => r.tsn ≤ e)).map (·.tsn)

/-- apply `gapAckRec` to the record with TSN `t` -/
def gapAckAt (now : Nat) (t : UInt32) : List SRec → SackOutcome → List SRec × SackOutcome
  | [], o => ([], o)
  | r :: rest, o =>
    if r.tsn == t then
      let x := gapAckRec now o r
      (x.2 :: rest, x.1)
    else
      let y := gapAckAt now t rest o
      (r :: y.1, y.2)

def gapBlockApply (now : Nat) (cum : UInt32) (st : List SRec × SackOutcome) (g : UInt16 × UInt16) :
    List SRec × SackOutcome :=
  let s := cum + g.1.toUInt32
  let e := cum + g.2.toUInt32
  (gapSelect st.1 s e).foldl (fun st t => gapAckAt now t st.1 st.2) st

/-- step 3 on one record -/
def missingRec (now : Nat) (countMissing : Bool) (maxTsnRetransmits : Nat) (maxRep : UInt32)
    (o : SackOutcome) (r : SRec) : SackOutcome × SRec :=
  if i32NonPos (r.tsn - maxRep) && !r.acked then
    if !countMissing then (o, r)
    else
      let mr := if r.missingReports ≥ 255 then 255 else r.missingReports + 1
      let can :=
        if r.fastRetransmit then
          if r.transmitCount ≥ maxTsnRetransmits then false
          else match r.frMs with
            | some fr => if now - fr < 50 then false else decide (mr ≥ sctpDupThresh)
            | none => true
        else true
      if mr ≥ sctpDupThresh && !r.abandoned && can then
        ({ o with flightReduction := if r.inFlight then o.flightReduction + r.len else o.flightReduction,
                  retransmit := o.retransmit ++ [(r.tsn, r.len)] },
         { r with missingReports := 0, transmitCount := r.transmitCount + 1, sentMs := now,
                  fastRetransmit := true, needsRetransmit := true, frMs := some now, inFlight := false })
      else (o, { r with missingReports := mr })
  else (o, r)

def missingPass (now : Nat) (countMissing : Bool) (maxTsnRetransmits : Nat) (maxRep : UInt32) :
    List SRec → SackOutcome → List SRec × SackOutcome
  | [], o => ([], o)
  | r :: rest, o =>
    let x := missingRec now countMissing maxTsnRetransmits maxRep o r
    let y := missingPass now countMissing maxTsnRetransmits maxRep rest x.1
    (x.2 :: y.1, y.2)

/-- `(x as i32)` as an order-preserving natural number -/
def i32Key (x : UInt32) : Nat := (x + 0x80000000).toNat

/-- `keys().min_by_key(|t| t.wrapping_sub(cum) as i32)`: the oldest outstanding TSN in serial order
relative to `cum` (first of equal minima, in map order) -/
def serialMin (cum : UInt32) : List SRec → Option SRec
  | [] => none
  | r :: rest =>
    match serialMin cum rest with
    | none => some r
    | some m => if i32Key (m.tsn - cum) < i32Key (r.tsn - cum) then some m else some r

/-- step 0, the late-SACK filter: the cumulative TSN is serially before `lowest − 1` (lowest = the
serially oldest outstanding TSN) and so is every gap block end -/
def lateSack (q : List SRec) (cum : UInt32) (gaps : List (UInt16 × UInt16)) : Bool :=
  match serialMin cum q with
  | none => false
  | some lo => i32Neg (cum - (lo.tsn - 1)) && i32Neg (maxReportedOf cum gaps - lo.tsn)

/-- `apply_sack_to_sent_queue` -/
def applySack (q : List SRec) (cum : UInt32) (gaps : List (UInt16 × UInt16)) (now : Nat)
    (countMissing : Bool) (maxTsnRetransmits : Nat) : List SRec × SackOutcome :=
  if lateSack q cum gaps then (q, {})
  else
    let maxRep := maxReportedOf cum gaps
    let o0 : SackOutcome := { maxReported := maxRep }
    let removed := q.filter (fun r => i32NonPos (r.tsn - cum))
    let q1 := q.filter (fun r => !i32NonPos (r.tsn - cum))
    let o1 := removed.foldl (cumAckRec now) o0
    let st2 := gaps.foldl (gapBlockApply now cum) (q1, o1)
    let st3 := missingPass now countMissing maxTsnRetransmits maxRep st2.1 st2.2
    (st3.1, { st3.2 with headMoved := (q.head?.map (·.tsn)) != (st3.1.head?.map (·.tsn)) })

end RtcModel.Sctp
