/-
Interleaving model: one `IceConn::receive` of an expected-SSRC RTP packet running concurrently
with one latch API call (`reset_latch`, `set_remote_addr_from_signaling`,
`set_remote_addr_from_selected_pair`) from another task (pair monitor, `set_remote_description`).
Core Lean only (linked into `rtcdrv`).

Granularity = the `verif_sched` yield points in `conn.rs`: each thread runs from one named point
to the next. After the lock-discipline `fix:` both critical sections run under the probation
mutex; the only shared access outside it is the unlocked `rtp_latched.load()` fast-path test at the
top of the RTP arm of `receive`.

The machine is generic in the two critical sections (`Crit`: number of granules, visible state
after `j` granules, total effect), so that the serializability proof (`Theorems/C18.lean`) needs only
two facts about them; the concrete sections below mirror the code and are what the harness's `race`
stream compares with the real code for every schedule.
-/
import RtcModel.Latch

namespace RtcModel.LatchRace
open RtcModel.Latch

/-- a critical section executed in granules under the probation mutex -/
structure Crit where
  len  : St → Nat            -- number of granules when entered in state `t` (≥ 1)
  mid  : St → Nat → St       -- shared state visible after `j` granules (0 < j < len t)
  full : St → St             -- shared state when the section is left

inductive RPh where
  | start                     -- before the unlocked `rtp_latched` test
  | waiting                   -- parked at `recv:before-lock`
  | inCrit (j : Nat) (t : St) -- holds the mutex; `j` granules done; entered in state `t`
  | early                     -- saw `rtp_latched = true` in the unlocked test: done, nothing changed
  | finished
deriving Repr

inductive APh where
  | start
  | waiting                   -- parked at `…:before-lock`
  | inCrit (j : Nat) (t : St)
  | finished
deriving Repr

structure Sys where
  st : St
  r : RPh
  a : APh
  /-- released from its `…:before-lock` point while the other thread holds the mutex: now really
  waiting inside `probation.lock()`; it proceeds by itself as soon as the mutex is released -/
  rBlocked : Bool
  aBlocked : Bool

def Sys.init (s0 : St) : Sys := { st := s0, r := .start, a := .start, rBlocked := false, aBlocked := false }

def rHolds : RPh → Bool | .inCrit .. => true | _ => false
def aHolds : APh → Bool | .inCrit .. => true | _ => false
def rWaiting : RPh → Bool | .waiting => true | _ => false
def aWaiting : APh → Bool | .waiting => true | _ => false
def rDone : RPh → Bool | .early | .finished => true | _ => false
def aDone : APh → Bool | .finished => true | _ => false

/-- one granule of the receive thread (no-op when done; a thread at `before-lock` does not move while
the other section is open — MUTUAL EXCLUSION BY THE PROBATION MUTEX IS AN ASSUMPTION OF THIS MODEL;
the harness's race executor observes it on the real code with a `try_lock` probe) -/
def stepR (R : Crit) (y : Sys) : Sys :=
  match y.r with
  | .start => if y.st.rtpLatched then { y with r := .early } else { y with r := .waiting }
  | .waiting =>
    if aHolds y.a then y
    else if 1 ≥ R.len y.st then { y with st := R.full y.st, r := .finished }
    else { y with st := R.mid y.st 1, r := .inCrit 1 y.st }
  | .inCrit j t =>
    if j + 1 ≥ R.len t then { y with st := R.full t, r := .finished }
    else { y with st := R.mid t (j + 1), r := .inCrit (j + 1) t }
  | _ => y

/-- one granule of the API thread -/
def stepA (A : Crit) (y : Sys) : Sys :=
  match y.a with
  | .start => { y with a := .waiting }
  | .waiting =>
    if rHolds y.r then y
    else if 1 ≥ A.len y.st then { y with st := A.full y.st, a := .finished }
    else { y with st := A.mid y.st 1, a := .inCrit 1 y.st }
  | .inCrit j t =>
    if j + 1 ≥ A.len t then { y with st := A.full t, a := .finished }
    else { y with st := A.mid t (j + 1), a := .inCrit (j + 1) t }
  | .finished => y

/-- the scheduler RELEASES the receive thread from its yield point: it runs one granule — or, released
at `before-lock` while the API section is open, blocks inside `lock()`. A thread that leaves its
critical section hands the mutex to a blocked peer, which then runs its first granule by itself. -/
def pickR (R A : Crit) (y : Sys) : Sys :=
  if y.rBlocked then y
  else if rWaiting y.r && aHolds y.a then { y with rBlocked := true }
  else
    let y1 := stepR R y
    if y1.aBlocked && !rHolds y1.r then { stepA A y1 with aBlocked := false } else y1

def pickA (R A : Crit) (y : Sys) : Sys :=
  if y.aBlocked then y
  else if aWaiting y.a && rHolds y.r then { y with aBlocked := true }
  else
    let y1 := stepA A y
    if y1.rBlocked && !aHolds y1.a then { stepR R y1 with rBlocked := false } else y1

/-- a schedule: `true` = the receive thread is picked -/
def runSched (R A : Crit) (y : Sys) : List Bool → Sys
  | [] => y
  | b :: bs => runSched R A (if b then pickR R A y else pickA R A y) bs

/-! ### two `receive` calls on one connection (RTP-socket and RTCP-socket reader tasks of a non-mux call)

Executable only (compared with the real code for every forced schedule by the harness's `race` stream);
`latch_api_serializable` does NOT cover this machine. -/

/-- one granule of a receive thread, given whether the other thread holds the mutex -/
def recvStep (R : Crit) (st : St) (ph : RPh) (otherHolds : Bool) : St × RPh :=
  match ph with
  | .start => if st.rtpLatched then (st, .early) else (st, .waiting)
  | .waiting =>
    if otherHolds then (st, .waiting)
    else if 1 ≥ R.len st then (R.full st, .finished) else (R.mid st 1, .inCrit 1 st)
  | .inCrit j t =>
    if j + 1 ≥ R.len t then (R.full t, .finished) else (R.mid t (j + 1), .inCrit (j + 1) t)
  | ph => (st, ph)

structure Sys2 where
  st : St
  r1 : RPh
  r2 : RPh
  b1 : Bool
  b2 : Bool

/-- release thread 1 (`first = true`) or 2 from its yield point; same "blocked, then handed the mutex" rule -/
def pick2 (R1 R2 : Crit) (first : Bool) (y : Sys2) : Sys2 :=
  if first then
    if y.b1 then y
    else if rWaiting y.r1 && rHolds y.r2 then { y with b1 := true }
    else
      let (st', ph') := recvStep R1 y.st y.r1 (rHolds y.r2)
      let y1 : Sys2 := { y with st := st', r1 := ph' }
      if y1.b2 && !rHolds y1.r1 then
        let (st2, ph2) := recvStep R2 y1.st y1.r2 false
        { y1 with st := st2, r2 := ph2, b2 := false }
      else y1
  else
    if y.b2 then y
    else if rWaiting y.r2 && rHolds y.r1 then { y with b2 := true }
    else
      let (st', ph') := recvStep R2 y.st y.r2 (rHolds y.r1)
      let y1 : Sys2 := { y with st := st', r2 := ph' }
      if y1.b1 && !rHolds y1.r2 then
        let (st2, ph2) := recvStep R1 y1.st y1.r1 false
        { y1 with st := st2, r1 := ph2, b1 := false }
      else y1

def runSched2 (R1 R2 : Crit) (y : Sys2) : List Bool → Sys2
  | [] => y
  | b :: bs => runSched2 R1 R2 (pick2 R1 R2 b y) bs

/-! ### the concrete critical sections (as in `conn.rs` after the lock-discipline fix) -/

/-- the RTP arm of `receive` from `recv:before-lock` on, for a packet `(a, ssrc, seq, ts, m)` that
passed the unlocked tests; yield points `recv:after-move`, `recv:before-commit-write`,
`recv:before-latched-store` -/
def recvCrit (a : Addr) (ssrc seq ts : Nat) (m : Bool) : Crit where
  len t :=
    if t.rtpLatched then 1 else
    match t.prob with
    | none => 1
    | some p =>
      match winner { p with total := satInc totalMax p.total, cands := observe p.cands a seq ts m } with
      | none => 2
      | some _ => 4
  mid t j :=
    match t.prob with
    | none => t
    | some p =>
      let p1 : Prob := { p with total := satInc totalMax p.total, cands := observe p.cands a seq ts m }
      let s2 := moveTo t t.remote a
      match j with
      | 1 => { s2 with prob := some p1 }                         -- recv:after-move
      | 2 => { s2 with prob := none }                            -- recv:before-commit-write
      | _ => match winner p1 with                                -- recv:before-latched-store
             | some w => { commitTo s2 a w with prob := none }
             | none => { s2 with prob := some p1 }
  full t := rtpLatch t t.remote a ssrc seq ts m

def flagsCleared (t : St) : St := { t with rtpLatched := false, rtcpLatched := false }

/-- `set_remote_addr_from_signaling`: points `reset:after-flags`, `sig:before-remote-write` -/
def sigCrit (x : Addr) : Crit where
  len _ := 3
  mid t j := if j = 1 then flagsCleared t else resetLatch t
  full t := setFromSignaling t x

/-- `reset_latch`: point `reset:after-flags` -/
def resetCrit : Crit where
  len _ := 2
  mid t _ := flagsCleared t
  full t := resetLatch t

/-- `set_remote_addr_from_selected_pair`: point `pair:before-write` (not reached when refused) -/
def pairCrit (x : Addr) : Crit where
  len t := if t.latchOn ∧ t.rtpLatched ∧ t.remote ≠ x then 1 else 2
  mid t _ := t
  full t := setFromPair t x

def apiCrit : Op → Option Crit
  | .sig x => some (sigCrit x)
  | .reset => some resetCrit
  | .pair x => some (pairCrit x)
  | _ => none

end RtcModel.LatchRace
