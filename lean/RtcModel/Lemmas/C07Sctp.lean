/- C07 — WP proofs for `RtcModel.C07Sctp`. -/
import RtcModel.C07Sctp
namespace RtcModel.C07.Sctp
open RtcModel.C07 RtcModel.Generated

theorem dcepOpenUnmarshal_safe {B : Nat} {Q b n} (hn : n + 2 * b.rem ≤ B)
    (h : ∀ r b' n', n' ≤ n + 2 * b.rem → Q r b' n') : safe (· ≤ B) dcepOpenUnmarshal Q b n := by
  unfold dcepOpenUnmarshal
  cur_auto
  apply h; omega

theorem dcepAckUnmarshal_safe (data : Array UInt8) (b : Buf) (n : Nat) :
    safe (· ≤ n) (dcepAckUnmarshal data) (fun _ _ n' => n' = n) b n := by
  unfold dcepAckUnmarshal
  cur_auto

attribute [local irreducible] dcepOpenUnmarshal

theorem handleDcep_safe {B : Nat} {Q b n} (hn : n + 2 * b.rem ≤ B)
    (h : ∀ r b' n', n' ≤ n + 2 * b.rem → Q r b' n') : safe (· ≤ B) handleDcep Q b n := by
  unfold handleDcep
  cur_auto
  any_goals (apply h; omega)
  rename_i a ha
  apply dcepOpenUnmarshal_safe (by simp only [Buf.rem_ofArray]; omega)
  intro r b' n' hr
  simp only [Buf.rem_ofArray] at hr
  cur_auto
  apply h; omega

attribute [local irreducible] handleDcep

theorem handleData_safe {B : Nat} {Q b n} (hn : n + 2 * b.rem ≤ B)
    (h : ∀ r b' n', n' ≤ n + 2 * b.rem → Q r b' n') : safe (· ≤ B) handleData Q b n := by
  unfold handleData
  cur_auto
  any_goals (apply h; omega)
  apply handleDcep_safe (by omega)
  intro r b' n' hr
  cur_auto
  apply h; omega

/-- the parameter walk is safe whenever the per-parameter handler is, with allocation ≤ 2·(bytes of the value) -/
theorem paramWalk_safe {B : Nat} (onParam : Nat → Buf → Cur Unit)
    (hp : ∀ pt v Q b n, n + 2 * v.rem ≤ B → (∀ n', n' ≤ n + 2 * v.rem → Q () b n') → safe (· ≤ B) (onParam pt v) Q b n)
    {Q b n} (hn : n + 2 * b.rem ≤ B)
    (h : ∀ r b' n', n' ≤ n + 2 * b.rem → Q r b' n') : safe (· ≤ B) (paramWalk onParam) Q b n := by
  unfold paramWalk
  cur_auto
  apply safe_loop (fun _ b' n' => n' + 2 * b'.rem ≤ n + 2 * b.rem) (fun _ b' => b'.rem)
  · intro s b' n' hinv
    unfold paramWalkBody
    cur_auto
    any_goals (apply h; omega)
    all_goals (apply hp _ _ _ _ _ (by omega); intro n'' hn''; cur_auto)
  · omega
  · omega

attribute [local irreducible] paramWalk

theorem handleInit_safe {B : Nat} (isAck : Bool) {Q b n} (hn : n + 2 * b.rem ≤ B)
    (h : ∀ r b' n', n' ≤ n + 2 * b.rem → Q r b' n') : safe (· ≤ B) (handleInit isAck) Q b n := by
  unfold handleInit
  cur_auto
  any_goals (apply h; omega)
  apply paramWalk_safe _ _ (by omega)
  · intro r b' n' hr; cur_auto; apply h; omega
  · intro pt v Q b n hn h; cur_auto; apply h; omega

theorem sackGaps_safe {B : Nat} (num fuel : Nat) (hf : num < fuel) {Q b n} (hn : n + b.rem ≤ B)
    (h : ∀ r b' n', n' ≤ n + b.rem → Q r b' n') : safe (· ≤ B) (loopM (sackGapsBody num) fuel 0) Q b n := by
  apply safe_loop (fun i b' n' => i ≤ num ∧ n' + b'.rem ≤ n + b.rem) (fun i _ => num - i)
  · intro i b' n' hinv
    unfold sackGapsBody
    cur_auto
    all_goals (apply h; omega)
  · omega
  · omega

theorem handleSack_safe {B : Nat} {Q b n} (hn : n + 2 * b.rem ≤ B)
    (h : ∀ r b' n', n' ≤ n + 2 * b.rem → Q r b' n') : safe (· ≤ B) handleSack Q b n := by
  unfold handleSack
  cur_auto
  any_goals (apply h; omega)
  apply sackGaps_safe _ _ (by omega) (by omega)
  intro r b' n' hr
  apply h; omega

theorem handleForwardTsn_safe {B : Nat} {Q b n} (hn : n + 2 * b.rem ≤ B)
    (h : ∀ r b' n', n' ≤ n + 2 * b.rem → Q r b' n') : safe (· ≤ B) handleForwardTsn Q b n := by
  unfold handleForwardTsn
  cur_auto
  any_goals (apply h; omega)
  apply safe_loop (fun _ b' n' => n' + b'.rem ≤ n + b.rem) (fun _ b' => b'.rem)
  · intro i b' n' hinv
    unfold fwdPairsBody
    cur_auto
    apply h; omega
  · omega
  · omega

theorem reconfigParam_safe {B : Nat} (pt : Nat) (v : Buf) {Q : Unit → Buf → Nat → Prop} {b n} (hn : n + 2 * v.rem ≤ B)
    (h : ∀ n', n' ≤ n + 2 * v.rem → Q () b n') : safe (· ≤ B) (reconfigParam pt v) Q b n := by
  unfold reconfigParam
  cur_auto
  all_goals (apply h; omega)

attribute [local irreducible] reconfigParam

theorem handleReconfig_safe {B : Nat} {Q b n} (hn : n + 2 * b.rem ≤ B)
    (h : ∀ r b' n', n' ≤ n + 2 * b.rem → Q r b' n') : safe (· ≤ B) handleReconfig Q b n := by
  unfold handleReconfig
  apply paramWalk_safe _ _ hn h
  intro pt v Q b n hn h
  exact reconfigParam_safe pt v hn h

attribute [local irreducible] handleInit handleData handleSack handleForwardTsn handleReconfig

theorem handleChunk_safe {B : Nat} (ct : Nat) (v : Buf) {Q b n} (hn : n + 2 * v.rem ≤ B)
    (h : ∀ r n', n' ≤ n + 2 * v.rem → Q r b n') : safe (· ≤ B) (handleChunk ct v) Q b n := by
  unfold handleChunk
  cur_auto
  · apply handleInit_safe _ hn; intro r b' n' hr; cur_auto; apply h; omega
  · apply handleInit_safe _ hn; intro r b' n' hr; cur_auto; apply h; omega
  · apply handleData_safe hn; intro r b' n' hr; cur_auto; apply h; omega
  · apply handleSack_safe hn; intro r b' n' hr; cur_auto; apply h; omega
  · apply handleForwardTsn_safe hn; intro r b' n' hr; cur_auto; apply h; omega
  · apply handleReconfig_safe hn; intro r b' n' hr; cur_auto; apply h; omega
  · apply h; omega

attribute [local irreducible] handleChunk

theorem handlePacket_safe (crcOk : Bool) (b : Buf) :
    safe (· ≤ 2 * b.rem) (handlePacket crcOk) (fun _ _ n' => n' ≤ 2 * b.rem) b 0 := by
  unfold handlePacket
  simp only [c07SctpCommonHeader_val]
  cur_auto
  apply safe_loop (fun _ b' n' => n' + 2 * b'.rem ≤ 2 * b.rem) (fun _ b' => b'.rem)
  · intro s b' n' hinv
    unfold chunkWalkBody
    simp only [c07ChunkHeaderSize_val]
    cur_auto
    all_goals (apply handleChunk_safe _ _ (by omega); intro r n'' hr; cur_auto)
  · omega
  · omega

end RtcModel.C07.Sctp
