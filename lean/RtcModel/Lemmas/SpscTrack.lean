/-
C20 — invariants of the track-level interleaving model (`RtcModel.SpscTrack`) for the current code
(`Variant.cur`): lock discipline and handle accounting (`LInv`), the ring invariant seen through the
lock holders (`TInv`), the ghost-log relations, end-of-stream and wake-up facts.
Helper lemmas; the property theorems are in `Theorems/C20.lean`.
Proof recipe throughout: unfold one step for one program counter, split every branch, close the
leaves with `grind` given the small classification functions below.
-/
import RtcModel.Lemmas.Spsc
import RtcModel.SpscTrack
namespace RtcModel.SpscTrack
open RtcModel.Spsc RtcModel.C20Word RtcModel.Generated

def pushView (i : Nat) : PPc → PuView
  | .push _ v _ p => some (p, (i, v))
  | _ => none
def popViewP : PPc → PoView
  | .pop _ _ p => some p
  | _ => none
def popViewC : CPc → PoView
  | .pop _ _ p => some p
  | _ => none

def St.puView (s : St) : PuView :=
  match s.plock with
  | some i => pushView i (s.pp i)
  | none => none
def St.poView (s : St) : PoView :=
  match s.poplock with
  | some (.prod i) => popViewP (s.pp i)
  | some .cons => popViewC s.cp
  | _ => none

def holdsPush : PPc → Bool
  | .chk .. | .push .. | .ntf .. | .tryLock .. | .pop .. => true
  | _ => false
def holdsPopP : PPc → Bool
  | .pop .. => true
  | .push c .. => c == Ctx.second
  | .ntf c _ => c == Ctx.second
  | _ => false


def holdsPopC : CPc → Bool
  | .ldClosed1 _ | .pop .. | .ldClosedOld | .stEnded => true
  | _ => false
def hasHandle : PPc → Bool
  | .none | .reserved | .gone | .stClosed | .ntfW => false
  | _ => true

structure LInv (s : St) : Prop where
  var : s.v = Variant.cur
  plockIff : ∀ i, holdsPush (s.pp i) = true ↔ s.plock = some i
  poplockP : ∀ i, holdsPopP (s.pp i) = true ↔ s.poplock = some (.prod i)
  poplockC : holdsPopC s.cp = true ↔ s.poplock = some .cons
  poplockStop : s.poplock ≠ some .stop
  cloneRes : ∀ i j, s.pp i = .clone j → s.pp j = .reserved
  cloneUniq : ∀ i i' j, s.pp i = .clone j → s.pp i' = .clone j → i = i'
  liveIff : ∀ i, i ∈ s.live ↔ hasHandle (s.pp i) = true
  liveNodup : s.live.Nodup
  sendersEq : s.senders = s.live.length
  closedNoLive : s.closed = true → s.live = []
  stClosedNoLive : ∀ i, s.pp i = .stClosed → s.live = []





theorem stepP_LInv_none (s : St) (i : Nat) (op : Option POp)  (hpc : s.pp i = .none ) (h : LInv s) : LInv (stepP s i op) := by
  obtain ⟨hv, h1, h2, h3, h4, h5, h6, h7, h8, h9, h10, h11⟩ := h
  have hp : s.v.plock = true := by rw [hv]; rfl
  simp only [stepP, hpc, startP, St.endSample, St.beginSample, St.setP, hp, if_true, trackCloneInc_val, trackDropDec_val, trackCloseWhenPrev_val]
  repeat' split
  all_goals first
    | exact ⟨hv, h1, h2, h3, h4, h5, h6, h7, h8, h9, h10, h11⟩
    | (refine ⟨?_, ?_, ?_, ?_, ?_, ?_, ?_, ?_, ?_, ?_, ?_, ?_⟩
       all_goals (try intro j)
       all_goals grind [upd, holdsPush, holdsPopP, holdsPopC, hasHandle])

theorem stepP_LInv_reserved (s : St) (i : Nat) (op : Option POp)  (hpc : s.pp i = .reserved ) (h : LInv s) : LInv (stepP s i op) := by
  obtain ⟨hv, h1, h2, h3, h4, h5, h6, h7, h8, h9, h10, h11⟩ := h
  have hp : s.v.plock = true := by rw [hv]; rfl
  simp only [stepP, hpc, startP, St.endSample, St.beginSample, St.setP, hp, if_true, trackCloneInc_val, trackDropDec_val, trackCloseWhenPrev_val]
  repeat' split
  all_goals first
    | exact ⟨hv, h1, h2, h3, h4, h5, h6, h7, h8, h9, h10, h11⟩
    | (refine ⟨?_, ?_, ?_, ?_, ?_, ?_, ?_, ?_, ?_, ?_, ?_, ?_⟩
       all_goals (try intro j)
       all_goals grind [upd, holdsPush, holdsPopP, holdsPopC, hasHandle])

theorem stepP_LInv_gone (s : St) (i : Nat) (op : Option POp)  (hpc : s.pp i = .gone ) (h : LInv s) : LInv (stepP s i op) := by
  obtain ⟨hv, h1, h2, h3, h4, h5, h6, h7, h8, h9, h10, h11⟩ := h
  have hp : s.v.plock = true := by rw [hv]; rfl
  simp only [stepP, hpc, startP, St.endSample, St.beginSample, St.setP, hp, if_true, trackCloneInc_val, trackDropDec_val, trackCloseWhenPrev_val]
  repeat' split
  all_goals first
    | exact ⟨hv, h1, h2, h3, h4, h5, h6, h7, h8, h9, h10, h11⟩
    | (refine ⟨?_, ?_, ?_, ?_, ?_, ?_, ?_, ?_, ?_, ?_, ?_, ?_⟩
       all_goals (try intro j)
       all_goals grind [upd, holdsPush, holdsPopP, holdsPopC, hasHandle])

theorem stepP_LInv_idle (s : St) (i : Nat) (op : Option POp)  (hpc : s.pp i = .idle ) (h : LInv s) : LInv (stepP s i op) := by
  obtain ⟨hv, h1, h2, h3, h4, h5, h6, h7, h8, h9, h10, h11⟩ := h
  have hp : s.v.plock = true := by rw [hv]; rfl
  simp only [stepP, hpc, startP, St.endSample, St.beginSample, St.setP, hp, if_true, trackCloneInc_val, trackDropDec_val, trackCloseWhenPrev_val]
  repeat' split
  all_goals first
    | exact ⟨hv, h1, h2, h3, h4, h5, h6, h7, h8, h9, h10, h11⟩
    | (refine ⟨?_, ?_, ?_, ?_, ?_, ?_, ?_, ?_, ?_, ?_, ?_, ?_⟩
       all_goals (try intro j)
       all_goals grind [upd, holdsPush, holdsPopP, holdsPopC, hasHandle])

theorem stepP_LInv_acq (s : St) (i : Nat) (op : Option POp) (k v rest) (hpc : s.pp i = .acq k v rest) (h : LInv s) : LInv (stepP s i op) := by
  obtain ⟨hv, h1, h2, h3, h4, h5, h6, h7, h8, h9, h10, h11⟩ := h
  have hp : s.v.plock = true := by rw [hv]; rfl
  simp only [stepP, hpc, startP, St.endSample, St.beginSample, St.setP, hp, if_true, trackCloneInc_val, trackDropDec_val, trackCloseWhenPrev_val]
  repeat' split
  all_goals first
    | exact ⟨hv, h1, h2, h3, h4, h5, h6, h7, h8, h9, h10, h11⟩
    | (refine ⟨?_, ?_, ?_, ?_, ?_, ?_, ?_, ?_, ?_, ?_, ?_, ?_⟩
       all_goals (try intro j)
       all_goals grind [upd, holdsPush, holdsPopP, holdsPopC, hasHandle])

theorem stepP_LInv_chk (s : St) (i : Nat) (op : Option POp) (k v rest) (hpc : s.pp i = .chk k v rest) (h : LInv s) : LInv (stepP s i op) := by
  obtain ⟨hv, h1, h2, h3, h4, h5, h6, h7, h8, h9, h10, h11⟩ := h
  have hp : s.v.plock = true := by rw [hv]; rfl
  simp only [stepP, hpc, startP, St.endSample, St.beginSample, St.setP, hp, if_true, trackCloneInc_val, trackDropDec_val, trackCloseWhenPrev_val]
  repeat' split
  all_goals first
    | exact ⟨hv, h1, h2, h3, h4, h5, h6, h7, h8, h9, h10, h11⟩
    | (refine ⟨?_, ?_, ?_, ?_, ?_, ?_, ?_, ?_, ?_, ?_, ?_, ?_⟩
       all_goals (try intro j)
       all_goals grind [upd, holdsPush, holdsPopP, holdsPopC, hasHandle])

theorem stepP_LInv_push (s : St) (i : Nat) (op : Option POp) (c v rest p) (hpc : s.pp i = .push c v rest p) (h : LInv s) : LInv (stepP s i op) := by
  obtain ⟨hv, h1, h2, h3, h4, h5, h6, h7, h8, h9, h10, h11⟩ := h
  have hp : s.v.plock = true := by rw [hv]; rfl
  simp only [stepP, hpc, startP, St.endSample, St.beginSample, St.setP, hp, if_true, trackCloneInc_val, trackDropDec_val, trackCloseWhenPrev_val]
  repeat' split
  all_goals first
    | exact ⟨hv, h1, h2, h3, h4, h5, h6, h7, h8, h9, h10, h11⟩
    | (refine ⟨?_, ?_, ?_, ?_, ?_, ?_, ?_, ?_, ?_, ?_, ?_, ?_⟩
       all_goals (try intro j)
       all_goals grind [upd, holdsPush, holdsPopP, holdsPopC, hasHandle])

theorem stepP_LInv_ntf (s : St) (i : Nat) (op : Option POp) (c rest) (hpc : s.pp i = .ntf c rest) (h : LInv s) : LInv (stepP s i op) := by
  obtain ⟨hv, h1, h2, h3, h4, h5, h6, h7, h8, h9, h10, h11⟩ := h
  have hp : s.v.plock = true := by rw [hv]; rfl
  simp only [stepP, hpc, startP, St.endSample, St.beginSample, St.setP, hp, if_true, trackCloneInc_val, trackDropDec_val, trackCloseWhenPrev_val]
  repeat' split
  all_goals first
    | exact ⟨hv, h1, h2, h3, h4, h5, h6, h7, h8, h9, h10, h11⟩
    | (refine ⟨?_, ?_, ?_, ?_, ?_, ?_, ?_, ?_, ?_, ?_, ?_, ?_⟩
       all_goals (try intro j)
       all_goals grind [upd, holdsPush, holdsPopP, holdsPopC, hasHandle])

theorem stepP_LInv_tryLock (s : St) (i : Nat) (op : Option POp) (v rest) (hpc : s.pp i = .tryLock v rest) (h : LInv s) : LInv (stepP s i op) := by
  obtain ⟨hv, h1, h2, h3, h4, h5, h6, h7, h8, h9, h10, h11⟩ := h
  have hp : s.v.plock = true := by rw [hv]; rfl
  simp only [stepP, hpc, startP, St.endSample, St.beginSample, St.setP, hp, if_true, trackCloneInc_val, trackDropDec_val, trackCloseWhenPrev_val]
  repeat' split
  all_goals first
    | exact ⟨hv, h1, h2, h3, h4, h5, h6, h7, h8, h9, h10, h11⟩
    | (refine ⟨?_, ?_, ?_, ?_, ?_, ?_, ?_, ?_, ?_, ?_, ?_, ?_⟩
       all_goals (try intro j)
       all_goals grind [upd, holdsPush, holdsPopP, holdsPopC, hasHandle])

theorem stepP_LInv_pop (s : St) (i : Nat) (op : Option POp) (v rest p) (hpc : s.pp i = .pop v rest p) (h : LInv s) : LInv (stepP s i op) := by
  obtain ⟨hv, h1, h2, h3, h4, h5, h6, h7, h8, h9, h10, h11⟩ := h
  have hp : s.v.plock = true := by rw [hv]; rfl
  simp only [stepP, hpc, startP, St.endSample, St.beginSample, St.setP, hp, if_true, trackCloneInc_val, trackDropDec_val, trackCloseWhenPrev_val]
  repeat' split
  all_goals first
    | exact ⟨hv, h1, h2, h3, h4, h5, h6, h7, h8, h9, h10, h11⟩
    | (refine ⟨?_, ?_, ?_, ?_, ?_, ?_, ?_, ?_, ?_, ?_, ?_, ?_⟩
       all_goals (try intro j)
       all_goals grind [upd, holdsPush, holdsPopP, holdsPopC, hasHandle])

theorem stepP_LInv_clone (s : St) (i : Nat) (op : Option POp) (j') (hpc : s.pp i = .clone j') (h : LInv s) : LInv (stepP s i op) := by
  obtain ⟨hv, h1, h2, h3, h4, h5, h6, h7, h8, h9, h10, h11⟩ := h
  have hp : s.v.plock = true := by rw [hv]; rfl
  have hres := h5 i j' hpc
  have hnm : j' ∉ s.live := fun hm => by have := (h7 j').1 hm; simp [hres, hasHandle] at this
  have hnd : (s.live ++ [j']).Nodup := by
    rw [List.nodup_append]; exact ⟨h8, by simp, by intro a ha b hb; simp at hb; subst hb; exact fun e => hnm (e ▸ ha)⟩
  have hlen : (s.live ++ [j']).length = s.live.length + 1 := by simp
  simp only [stepP, hpc, startP, St.endSample, St.beginSample, St.setP, hp, if_true, trackCloneInc_val, trackDropDec_val, trackCloseWhenPrev_val]
  repeat' split
  all_goals first
    | exact ⟨hv, h1, h2, h3, h4, h5, h6, h7, h8, h9, h10, h11⟩
    | (refine ⟨?_, ?_, ?_, ?_, ?_, ?_, ?_, ?_, ?_, ?_, ?_, ?_⟩
       all_goals (try intro j)
       all_goals grind [upd, holdsPush, holdsPopP, holdsPopC, hasHandle])

theorem stepP_LInv_fetchSub (s : St) (i : Nat) (op : Option POp)  (hpc : s.pp i = .fetchSub ) (h : LInv s) : LInv (stepP s i op) := by
  obtain ⟨hv, h1, h2, h3, h4, h5, h6, h7, h8, h9, h10, h11⟩ := h
  have hp : s.v.plock = true := by rw [hv]; rfl
  have hmem : i ∈ s.live := (h7 i).2 (by simp [hpc, hasHandle])
  have hlen := List.length_erase_of_mem hmem
  have hnd := h8.erase i
  have hpos : 0 < s.live.length := List.length_pos_of_mem hmem
  have hnil : s.live.length = 1 → s.live.erase i = [] := fun h => List.eq_nil_of_length_eq_zero (by omega)
  have hme : ∀ j, j ∈ s.live.erase i ↔ j ≠ i ∧ j ∈ s.live := fun j => h8.mem_erase_iff
  simp only [stepP, hpc, startP, St.endSample, St.beginSample, St.setP, hp, if_true, trackCloneInc_val, trackDropDec_val, trackCloseWhenPrev_val]
  by_cases hs : s.senders = 1 <;> simp only [hs, if_true, if_false]
  all_goals first
    | exact ⟨hv, h1, h2, h3, h4, h5, h6, h7, h8, h9, h10, h11⟩
    | (refine ⟨?_, ?_, ?_, ?_, ?_, ?_, ?_, ?_, ?_, ?_, ?_, ?_⟩
       all_goals (try intro j)
       all_goals grind [upd, holdsPush, holdsPopP, holdsPopC, hasHandle])

theorem stepP_LInv_stClosed (s : St) (i : Nat) (op : Option POp)  (hpc : s.pp i = .stClosed ) (h : LInv s) : LInv (stepP s i op) := by
  obtain ⟨hv, h1, h2, h3, h4, h5, h6, h7, h8, h9, h10, h11⟩ := h
  have hp : s.v.plock = true := by rw [hv]; rfl
  simp only [stepP, hpc, startP, St.endSample, St.beginSample, St.setP, hp, if_true, trackCloneInc_val, trackDropDec_val, trackCloseWhenPrev_val]
  repeat' split
  all_goals first
    | exact ⟨hv, h1, h2, h3, h4, h5, h6, h7, h8, h9, h10, h11⟩
    | (refine ⟨?_, ?_, ?_, ?_, ?_, ?_, ?_, ?_, ?_, ?_, ?_, ?_⟩
       all_goals (try intro j)
       all_goals grind [upd, holdsPush, holdsPopP, holdsPopC, hasHandle])

theorem stepP_LInv_ntfW (s : St) (i : Nat) (op : Option POp)  (hpc : s.pp i = .ntfW ) (h : LInv s) : LInv (stepP s i op) := by
  obtain ⟨hv, h1, h2, h3, h4, h5, h6, h7, h8, h9, h10, h11⟩ := h
  have hp : s.v.plock = true := by rw [hv]; rfl
  simp only [stepP, hpc, startP, St.endSample, St.beginSample, St.setP, hp, if_true, trackCloneInc_val, trackDropDec_val, trackCloseWhenPrev_val]
  repeat' split
  all_goals first
    | exact ⟨hv, h1, h2, h3, h4, h5, h6, h7, h8, h9, h10, h11⟩
    | (refine ⟨?_, ?_, ?_, ?_, ?_, ?_, ?_, ?_, ?_, ?_, ?_, ?_⟩
       all_goals (try intro j)
       all_goals grind [upd, holdsPush, holdsPopP, holdsPopC, hasHandle])

theorem stepC_LInv_idle (s : St) (start : Bool)  (hpc : s.cp = .idle ) (h : LInv s) : LInv (stepC s start) := by
  obtain ⟨hv, h1, h2, h3, h4, h5, h6, h7, h8, h9, h10, h11⟩ := h
  have hr : s.v.rfix = true := by rw [hv]; rfl
  simp only [stepC, hpc, St.loopTop, St.retC, hr, if_true]
  repeat' split
  all_goals first
    | exact ⟨hv, h1, h2, h3, h4, h5, h6, h7, h8, h9, h10, h11⟩
    | (refine ⟨?_, ?_, ?_, ?_, ?_, ?_, ?_, ?_, ?_, ?_, ?_, ?_⟩
       all_goals (try intro j)
       all_goals grind [upd, holdsPush, holdsPopP, holdsPopC, hasHandle])

theorem stepC_LInv_mkNtf (s : St) (start : Bool)  (hpc : s.cp = .mkNtf ) (h : LInv s) : LInv (stepC s start) := by
  obtain ⟨hv, h1, h2, h3, h4, h5, h6, h7, h8, h9, h10, h11⟩ := h
  have hr : s.v.rfix = true := by rw [hv]; rfl
  simp only [stepC, hpc, St.loopTop, St.retC, hr, if_true]
  repeat' split
  all_goals first
    | exact ⟨hv, h1, h2, h3, h4, h5, h6, h7, h8, h9, h10, h11⟩
    | (refine ⟨?_, ?_, ?_, ?_, ?_, ?_, ?_, ?_, ?_, ?_, ?_, ?_⟩
       all_goals (try intro j)
       all_goals grind [upd, holdsPush, holdsPopP, holdsPopC, hasHandle])

theorem stepC_LInv_ldEnded (s : St) (start : Bool) (g) (hpc : s.cp = .ldEnded g) (h : LInv s) : LInv (stepC s start) := by
  obtain ⟨hv, h1, h2, h3, h4, h5, h6, h7, h8, h9, h10, h11⟩ := h
  have hr : s.v.rfix = true := by rw [hv]; rfl
  simp only [stepC, hpc, St.loopTop, St.retC, hr, if_true]
  repeat' split
  all_goals first
    | exact ⟨hv, h1, h2, h3, h4, h5, h6, h7, h8, h9, h10, h11⟩
    | (refine ⟨?_, ?_, ?_, ?_, ?_, ?_, ?_, ?_, ?_, ?_, ?_, ?_⟩
       all_goals (try intro j)
       all_goals grind [upd, holdsPush, holdsPopP, holdsPopC, hasHandle])

theorem stepC_LInv_lock (s : St) (start : Bool) (g) (hpc : s.cp = .lock g) (h : LInv s) : LInv (stepC s start) := by
  obtain ⟨hv, h1, h2, h3, h4, h5, h6, h7, h8, h9, h10, h11⟩ := h
  have hr : s.v.rfix = true := by rw [hv]; rfl
  simp only [stepC, hpc, St.loopTop, St.retC, hr, if_true]
  repeat' split
  all_goals first
    | exact ⟨hv, h1, h2, h3, h4, h5, h6, h7, h8, h9, h10, h11⟩
    | (refine ⟨?_, ?_, ?_, ?_, ?_, ?_, ?_, ?_, ?_, ?_, ?_, ?_⟩
       all_goals (try intro j)
       all_goals grind [upd, holdsPush, holdsPopP, holdsPopC, hasHandle])

theorem stepC_LInv_ldClosed1 (s : St) (start : Bool) (g) (hpc : s.cp = .ldClosed1 g) (h : LInv s) : LInv (stepC s start) := by
  obtain ⟨hv, h1, h2, h3, h4, h5, h6, h7, h8, h9, h10, h11⟩ := h
  have hr : s.v.rfix = true := by rw [hv]; rfl
  simp only [stepC, hpc, St.loopTop, St.retC, hr, if_true]
  repeat' split
  all_goals first
    | exact ⟨hv, h1, h2, h3, h4, h5, h6, h7, h8, h9, h10, h11⟩
    | (refine ⟨?_, ?_, ?_, ?_, ?_, ?_, ?_, ?_, ?_, ?_, ?_, ?_⟩
       all_goals (try intro j)
       all_goals grind [upd, holdsPush, holdsPopP, holdsPopC, hasHandle])

theorem stepC_LInv_pop (s : St) (start : Bool) (g cl p) (hpc : s.cp = .pop g cl p) (h : LInv s) : LInv (stepC s start) := by
  obtain ⟨hv, h1, h2, h3, h4, h5, h6, h7, h8, h9, h10, h11⟩ := h
  have hr : s.v.rfix = true := by rw [hv]; rfl
  simp only [stepC, hpc, St.loopTop, St.retC, hr, if_true]
  repeat' split
  all_goals first
    | exact ⟨hv, h1, h2, h3, h4, h5, h6, h7, h8, h9, h10, h11⟩
    | (refine ⟨?_, ?_, ?_, ?_, ?_, ?_, ?_, ?_, ?_, ?_, ?_, ?_⟩
       all_goals (try intro j)
       all_goals grind [upd, holdsPush, holdsPopP, holdsPopC, hasHandle])

theorem stepC_LInv_ldClosedOld (s : St) (start : Bool)  (hpc : s.cp = .ldClosedOld ) (h : LInv s) : LInv (stepC s start) := by
  obtain ⟨hv, h1, h2, h3, h4, h5, h6, h7, h8, h9, h10, h11⟩ := h
  have hr : s.v.rfix = true := by rw [hv]; rfl
  simp only [stepC, hpc, St.loopTop, St.retC, hr, if_true]
  repeat' split
  all_goals first
    | exact ⟨hv, h1, h2, h3, h4, h5, h6, h7, h8, h9, h10, h11⟩
    | (refine ⟨?_, ?_, ?_, ?_, ?_, ?_, ?_, ?_, ?_, ?_, ?_, ?_⟩
       all_goals (try intro j)
       all_goals grind [upd, holdsPush, holdsPopP, holdsPopC, hasHandle])

theorem stepC_LInv_stEnded (s : St) (start : Bool)  (hpc : s.cp = .stEnded ) (h : LInv s) : LInv (stepC s start) := by
  obtain ⟨hv, h1, h2, h3, h4, h5, h6, h7, h8, h9, h10, h11⟩ := h
  have hr : s.v.rfix = true := by rw [hv]; rfl
  simp only [stepC, hpc, St.loopTop, St.retC, hr, if_true]
  repeat' split
  all_goals first
    | exact ⟨hv, h1, h2, h3, h4, h5, h6, h7, h8, h9, h10, h11⟩
    | (refine ⟨?_, ?_, ?_, ?_, ?_, ?_, ?_, ?_, ?_, ?_, ?_, ?_⟩
       all_goals (try intro j)
       all_goals grind [upd, holdsPush, holdsPopP, holdsPopC, hasHandle])

theorem stepC_LInv_await1 (s : St) (start : Bool) (g) (hpc : s.cp = .await1 g) (h : LInv s) : LInv (stepC s start) := by
  obtain ⟨hv, h1, h2, h3, h4, h5, h6, h7, h8, h9, h10, h11⟩ := h
  have hr : s.v.rfix = true := by rw [hv]; rfl
  simp only [stepC, hpc, St.loopTop, St.retC, hr, if_true]
  repeat' split
  all_goals first
    | exact ⟨hv, h1, h2, h3, h4, h5, h6, h7, h8, h9, h10, h11⟩
    | (refine ⟨?_, ?_, ?_, ?_, ?_, ?_, ?_, ?_, ?_, ?_, ?_, ?_⟩
       all_goals (try intro j)
       all_goals grind [upd, holdsPush, holdsPopP, holdsPopC, hasHandle])

theorem stepC_LInv_await2 (s : St) (start : Bool)  (hpc : s.cp = .await2 ) (h : LInv s) : LInv (stepC s start) := by
  obtain ⟨hv, h1, h2, h3, h4, h5, h6, h7, h8, h9, h10, h11⟩ := h
  have hr : s.v.rfix = true := by rw [hv]; rfl
  simp only [stepC, hpc, St.loopTop, St.retC, hr, if_true]
  repeat' split
  all_goals first
    | exact ⟨hv, h1, h2, h3, h4, h5, h6, h7, h8, h9, h10, h11⟩
    | (refine ⟨?_, ?_, ?_, ?_, ?_, ?_, ?_, ?_, ?_, ?_, ?_, ?_⟩
       all_goals (try intro j)
       all_goals grind [upd, holdsPush, holdsPopP, holdsPopC, hasHandle])

theorem stepC_LInv_ldClosed2 (s : St) (start : Bool)  (hpc : s.cp = .ldClosed2 ) (h : LInv s) : LInv (stepC s start) := by
  obtain ⟨hv, h1, h2, h3, h4, h5, h6, h7, h8, h9, h10, h11⟩ := h
  have hr : s.v.rfix = true := by rw [hv]; rfl
  simp only [stepC, hpc, St.loopTop, St.retC, hr, if_true]
  repeat' split
  all_goals first
    | exact ⟨hv, h1, h2, h3, h4, h5, h6, h7, h8, h9, h10, h11⟩
    | (refine ⟨?_, ?_, ?_, ?_, ?_, ?_, ?_, ?_, ?_, ?_, ?_, ?_⟩
       all_goals (try intro j)
       all_goals grind [upd, holdsPush, holdsPopP, holdsPopC, hasHandle])

theorem stepC_LInv_isEmpty (s : St) (start : Bool)  (hpc : s.cp = .isEmpty ) (h : LInv s) : LInv (stepC s start) := by
  obtain ⟨hv, h1, h2, h3, h4, h5, h6, h7, h8, h9, h10, h11⟩ := h
  have hr : s.v.rfix = true := by rw [hv]; rfl
  simp only [stepC, hpc, St.loopTop, St.retC, hr, if_true]
  repeat' split
  all_goals first
    | exact ⟨hv, h1, h2, h3, h4, h5, h6, h7, h8, h9, h10, h11⟩
    | (refine ⟨?_, ?_, ?_, ?_, ?_, ?_, ?_, ?_, ?_, ?_, ?_, ?_⟩
       all_goals (try intro j)
       all_goals grind [upd, holdsPush, holdsPopP, holdsPopC, hasHandle])

theorem stepC_LInv_stEnded2 (s : St) (start : Bool)  (hpc : s.cp = .stEnded2 ) (h : LInv s) : LInv (stepC s start) := by
  obtain ⟨hv, h1, h2, h3, h4, h5, h6, h7, h8, h9, h10, h11⟩ := h
  have hr : s.v.rfix = true := by rw [hv]; rfl
  simp only [stepC, hpc, St.loopTop, St.retC, hr, if_true]
  repeat' split
  all_goals first
    | exact ⟨hv, h1, h2, h3, h4, h5, h6, h7, h8, h9, h10, h11⟩
    | (refine ⟨?_, ?_, ?_, ?_, ?_, ?_, ?_, ?_, ?_, ?_, ?_, ?_⟩
       all_goals (try intro j)
       all_goals grind [upd, holdsPush, holdsPopP, holdsPopC, hasHandle])

theorem stepS_LInv (s : St) (start : Bool) (h : LInv s) : LInv (stepS s start) := by
  obtain ⟨hv, h1, h2, h3, h4, h5, h6, h7, h8, h9, h10, h11⟩ := h
  simp only [stepS]
  repeat' split
  all_goals exact ⟨hv, h1, h2, h3, h4, h5, h6, h7, h8, h9, h10, h11⟩

theorem stepP_LInv (s : St) (i : Nat) (op : Option POp) (h : LInv s) : LInv (stepP s i op) := by
  cases hpc : s.pp i with
  | none => exact stepP_LInv_none s i op hpc h
  | reserved => exact stepP_LInv_reserved s i op hpc h
  | gone => exact stepP_LInv_gone s i op hpc h
  | idle => exact stepP_LInv_idle s i op hpc h
  | acq k v rest => exact stepP_LInv_acq s i op k v rest hpc h
  | chk k v rest => exact stepP_LInv_chk s i op k v rest hpc h
  | push c v rest p => exact stepP_LInv_push s i op c v rest p hpc h
  | ntf c rest => exact stepP_LInv_ntf s i op c rest hpc h
  | tryLock v rest => exact stepP_LInv_tryLock s i op v rest hpc h
  | pop v rest p => exact stepP_LInv_pop s i op v rest p hpc h
  | clone j => exact stepP_LInv_clone s i op j hpc h
  | fetchSub => exact stepP_LInv_fetchSub s i op hpc h
  | stClosed => exact stepP_LInv_stClosed s i op hpc h
  | ntfW => exact stepP_LInv_ntfW s i op hpc h

theorem stepC_LInv (s : St) (start : Bool) (h : LInv s) : LInv (stepC s start) := by
  cases hpc : s.cp with
  | idle => exact stepC_LInv_idle s start hpc h
  | mkNtf => exact stepC_LInv_mkNtf s start hpc h
  | ldEnded g => exact stepC_LInv_ldEnded s start g hpc h
  | lock g => exact stepC_LInv_lock s start g hpc h
  | ldClosed1 g => exact stepC_LInv_ldClosed1 s start g hpc h
  | pop g cl p => exact stepC_LInv_pop s start g cl p hpc h
  | ldClosedOld => exact stepC_LInv_ldClosedOld s start hpc h
  | stEnded => exact stepC_LInv_stEnded s start hpc h
  | await1 g => exact stepC_LInv_await1 s start g hpc h
  | await2 => exact stepC_LInv_await2 s start hpc h
  | ldClosed2 => exact stepC_LInv_ldClosed2 s start hpc h
  | isEmpty => exact stepC_LInv_isEmpty s start hpc h
  | stEnded2 => exact stepC_LInv_stEnded2 s start hpc h

theorem step_LInv (s : St) (l : Label) (h : LInv s) : LInv (step s l) := by
  cases l with
  | prod i op => exact stepP_LInv s i op h
  | cons st => exact stepC_LInv s st h
  | stop st => exact stepS_LInv s st h

theorem LInv.init (cap W : Nat) : LInv (St.init Variant.cur cap W 0) := by
  refine ⟨rfl, ?_, ?_, ?_, ?_, ?_, ?_, ?_, ?_, ?_, ?_, ?_⟩
  all_goals (try intro j)
  all_goals grind [St.init, holdsPush, holdsPopP, holdsPopC, hasHandle, trackInitSenders_val]

end RtcModel.SpscTrack
